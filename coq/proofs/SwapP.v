(* Proofs about the zero-swap model (property C11). *)
From Coq Require Import ZArith QArith List Bool Lia.
Import ListNotations.
From Inf Require Import base.ListX model.PathM model.EngineM model.WeightM model.SwapM proofs.PathP.
From Inf Require model.MovesM.
Open Scope Z_scope.

(* ------------------------------------------------------------------ the stop rule *)

(* the frame lies beyond an interface: add_to_path's "crossed left/right" *)
Definition crossedb (l r : Z) (f : frame) : bool := (ford f <? l) || (r <? ford f).

(* the first k frames of s are what a run produces when only the interfaces stop it:
   none of the first k-1 is beyond an interface, the k-th is *)
Definition stops_at (l r : Z) (s : list frame) (k : nat) : Prop :=
  (1 <= k)%nat /\ (forall f, In f (firstn (k - 1) s) -> crossedb l r f = false) /\
  exists lastf, nth_error s (k - 1) = Some lastf /\ crossedb l r lastf = true.

Lemma add_to_path_room p f l r :
  (plen p < maxlen p)%nat ->
  MovesM.add_to_path_g true p f l r =
  Some (mkP (pts p ++ [f]) (maxlen p) (torigin p),
        crossedb l r f,
        crossedb l r f || (S (plen p) =? maxlen p)%nat, true).
Proof.
  intros Hroom. unfold MovesM.add_to_path_g, append.
  destruct (Nat.ltb_spec (plen p) (maxlen p)) as [_|Hge]; [|lia].
  cbn [pts]. rewrite rev_app_distr. cbn [rev app].
  unfold crossedb, plen. cbn [pts maxlen]. rewrite app_length. cbn [length].
  replace (length (pts p) + 1)%nat with (S (length (pts p))) by lia.
  destruct (ford f <? l); destruct (r <? ford f); destruct (S (length (pts p)) =? maxlen p)%nat; reflexivity.
Qed.

(* what a normal return of the propagation loop means (current stop rule) *)
Lemma propagate_loop_inv l r : forall s p n0 p' succ n',
  (plen p < maxlen p)%nat ->
  MovesM.propagate_loop_g true p s l r n0 = PR p' succ n' ->
  exists k, (1 <= k)%nat /\ n' = (n0 + k)%nat /\ (k <= length s)%nat /\
    pts p' = pts p ++ firstn k s /\ maxlen p' = maxlen p /\ torigin p' = torigin p /\
    (plen p + k <= maxlen p)%nat /\
    (forall f, In f (firstn (k - 1) s) -> crossedb l r f = false) /\
    (exists lastf, nth_error s (k - 1) = Some lastf /\ succ = crossedb l r lastf) /\
    (succ = false -> (plen p + k = maxlen p)%nat).
Proof.
  induction s as [|f s IH]; intros p n0 p' succ n' Hroom H; cbn [MovesM.propagate_loop_g] in H; [discriminate|].
  rewrite (add_to_path_room p f l r Hroom) in H.
  destruct (crossedb l r f) eqn:Hc; cbn [orb] in H.
  { inversion H; subst; clear H. exists 1%nat. cbn [firstn length Nat.sub pts maxlen torigin nth_error].
    repeat split; try lia; try discriminate; try (intros ? []).
    exists f. split; [reflexivity|symmetry; exact Hc]. }
  destruct (Nat.eqb_spec (S (plen p)) (maxlen p)) as [Hfull|Hnf].
  { inversion H; subst; clear H. exists 1%nat. cbn [firstn length Nat.sub pts maxlen torigin nth_error].
    repeat split; try lia; try (intros ? []).
    exists f. split; [reflexivity|symmetry; exact Hc]. }
  set (p1 := mkP (pts p ++ [f]) (maxlen p) (torigin p)) in *.
  assert (Hl : plen p1 = S (plen p)).
  { unfold plen, p1. cbn [pts]. rewrite app_length. cbn [length]. lia. }
  assert (Hroom1 : (plen p1 < maxlen p1)%nat) by (rewrite Hl; unfold p1; cbn [maxlen]; lia).
  destruct (IH p1 (S n0) p' succ n' Hroom1 H) as (k & K1 & K2 & K3 & K4 & K5 & K6 & K7 & K8 & K9 & K10).
  exists (S k). cbn [firstn length]. unfold p1 in K4, K5, K6. cbn [pts maxlen torigin] in K4, K5, K6.
  rewrite Hl in *. cbn [maxlen p1] in *.
  replace (S k - 1)%nat with (S (k - 1)) by lia. cbn [firstn nth_error].
  split; [lia|]. split; [lia|]. split; [lia|].
  split; [rewrite K4, <- app_assoc; reflexivity|].
  split; [exact K5|]. split; [exact K6|]. split; [unfold p1 in K7; cbn [maxlen] in K7; lia|].
  split; [intros g [<-|Hg]; [exact Hc|apply K8; exact Hg]|].
  split; [exact K9|].
  intros Hs. specialize (K10 Hs). unfold p1 in K10. cbn [maxlen] in K10. lia.
Qed.

Lemma propagate_loop_run l r : forall pre p n0 lastf post,
  (forall f, In f pre -> crossedb l r f = false) -> crossedb l r lastf = true ->
  (plen p + length pre + 1 <= maxlen p)%nat ->
  MovesM.propagate_loop_g true p (pre ++ lastf :: post) l r n0 =
  PR (mkP (pts p ++ pre ++ [lastf]) (maxlen p) (torigin p)) true (n0 + length pre + 1).
Proof.
  induction pre as [|f pre IH]; intros p n0 lastf post Hpre Hlast Hroom; cbn [app MovesM.propagate_loop_g length] in *.
  - rewrite add_to_path_room by lia. rewrite Hlast. cbn [orb]. f_equal. lia.
  - rewrite add_to_path_room by lia. rewrite (Hpre f (or_introl eq_refl)). cbn [orb].
    destruct (Nat.eqb_spec (S (plen p)) (maxlen p)); [lia|].
    rewrite IH; try assumption.
    + cbn [pts maxlen torigin]. rewrite <- app_assoc. cbn [app]. f_equal. lia.
    + intros g Hg. apply Hpre. right. exact Hg.
    + unfold plen in *. cbn [pts maxlen]. rewrite app_length. cbn [length]. lia.
Qed.

Lemma skipn_nth_error {A} (s : list A) : forall j x, nth_error s j = Some x -> skipn j s = x :: skipn (S j) s.
Proof.
  induction s as [|y s IH]; intros [|j] x H; cbn in *; try discriminate.
  - congruence.
  - apply IH. exact H.
Qed.

(* a stream that stops at k splits accordingly *)
Lemma stops_at_split l r s k :
  stops_at l r s k -> exists lastf, s = firstn (k - 1) s ++ lastf :: skipn k s /\ crossedb l r lastf = true /\
                                    firstn k s = firstn (k - 1) s ++ [lastf] /\ length (firstn (k - 1) s) = (k - 1)%nat.
Proof.
  intros (Hk & _ & lastf & Hn & Hc). exists lastf.
  assert (Hlen : (k - 1 < length s)%nat) by (apply nth_error_Some; rewrite Hn; discriminate).
  pose proof (firstn_skipn (k - 1) s) as Hs.
  pose proof (skipn_nth_error s _ _ Hn) as Hsk. replace (S (k - 1)) with k in Hsk by lia.
  repeat split.
  - rewrite <- Hsk. symmetry. exact Hs.
  - exact Hc.
  - rewrite <- Hs at 1. rewrite Hsk. replace k with ((k - 1) + 1)%nat at 1 by lia.
    rewrite firstn_app. rewrite (firstn_all2 (n := k - 1 + 1)) by (rewrite firstn_length; lia).
    rewrite firstn_length. replace (k - 1 + 1 - Nat.min (k - 1) (length s))%nat with 1%nat by lia. reflexivity.
  - rewrite firstn_length. lia.
Qed.

(* ------------------------------------------------------------------ one engine call *)

Lemma engine_call_inv who M t streams init rv l r p' rest c :
  engine_call who (empty_path M t) streams init rv l r = Ok (p', rest, c) ->
  exists s0 k, streams = s0 :: rest /\ pts p' = firstn k s0 /\ maxlen p' = M /\ torigin p' = t /\
    (1 <= k <= M)%nat /\ (k <= length s0)%nat /\
    (forall f, In f (firstn (k - 1) s0) -> crossedb l r f = false) /\
    ((k < M)%nat -> stops_at l r s0 k) /\
    c = mkCall who init rv l r M k.
Proof.
  unfold engine_call. destruct streams as [|s0 rest0]; [discriminate|].
  destruct s0 as [|f tl]; [discriminate|].
  unfold MovesM.propagate_fixed, MovesM.propagate_g.
  destruct M as [|M].
  { cbn. discriminate. }
  destruct (MovesM.propagate_loop_g true (empty_path (S M) t) (f :: tl) l r 0) as [p1 succ n| |] eqn:E; try discriminate.
  intros H. inversion H; subst; clear H.
  apply propagate_loop_inv in E; [|cbn; lia].
  destruct E as (k & K1 & K2 & K3 & K4 & K5 & K6 & K7 & K8 & (lf & Hn & Hs) & K10).
  cbn [empty_path pts maxlen torigin plen length app] in *. cbn [Nat.add] in *. subst n.
  exists (f :: tl), k. repeat split; try assumption; try lia.
  - exists lf. split; [exact Hn|]. destruct succ; [symmetry; exact Hs|]. specialize (K10 eq_refl). lia.
Qed.

Lemma engine_call_run who M t s0 rest init rv l r k :
  stops_at l r s0 k -> (k <= M)%nat ->
  engine_call who (empty_path M t) (s0 :: rest) init rv l r =
  Ok (mkP (firstn k s0) M t, rest, mkCall who init rv l r M k).
Proof.
  intros Hst HkM. pose proof Hst as (Hk1 & Hpre & _).
  destruct (stops_at_split _ _ _ _ Hst) as (lastf & Hs & Hc & Hf & Hlen).
  unfold engine_call. destruct s0 as [|f tl].
  { destruct (firstn (k - 1) []); discriminate. }
  unfold MovesM.propagate_fixed, MovesM.propagate_g. rewrite Hs at 1.
  rewrite propagate_loop_run; try assumption.
  - cbn [empty_path pts maxlen torigin app]. rewrite Hlen. rewrite <- Hf.
    replace (0 + (k - 1) + 1)%nat with k by lia. reflexivity.
  - cbn [empty_path plen pts maxlen length]. rewrite Hlen. lia.
Qed.

(* ------------------------------------------------------------------ path construction *)

Lemma append_spec p f :
  pts (fst (append p f)) = (if (plen p <? maxlen p)%nat then pts p ++ [f] else pts p) /\
  maxlen (fst (append p f)) = maxlen p /\ torigin (fst (append p f)) = torigin p.
Proof. unfold append. destruct (plen p <? maxlen p)%nat; cbn; auto. Qed.

Lemma firstn_rev_length {A} (s : list A) k : (k <= length s)%nat -> length (rev (firstn k s)) = k.
Proof. intros H. rewrite rev_length, firstn_length. lia. Qed.

Section WithDump.
Variable dumpf : dlabel -> Z -> Z.

Lemma retis_path0_acc e0 e1 allowed old1 streams path0 streams1 calls :
  retis_path0 dumpf e0 e1 allowed old1 streams = Ok (path0, ACC, streams1, calls) ->
  allowed = true /\
  exists f10 f11 s0 k,
    first_frame old1 = Some f10 /\ second_frame old1 = Some f11 /\ streams = s0 :: streams1 /\
    pts path0 = rev (firstn k s0) ++ [dump dumpf DSecond f11] /\
    maxlen path0 = e_maxlen e0 /\ torigin path0 = 0 /\
    (2 <= k)%nat /\ (k + 1 < e_maxlen e0)%nat /\ (k <= length s0)%nat /\
    stops_at (e_i0 e0) (e_i2 e0) s0 k /\
    (e_scL e0 = false -> has_L_start_end path0 e0 = false) /\
    calls = [mkCall E0 (copy_frame 0 f10) true (e_i0 e0) (e_i2 e0) (e_maxlen e0 - 1) k].
Proof.
  unfold retis_path0, retis_path0_g. destruct (first_frame old1) as [f10|]; [|discriminate].
  destruct allowed.
  - destruct (engine_call _ _ streams _ true _ _) as [[[ptmp str1] c]|] eqn:E; [|discriminate].
    destruct (second_frame old1) as [f11|]; [|discriminate].
    apply engine_call_inv in E. destruct E as (s0 & k & -> & Ep & Em & Et & Ek & Ekl & Epre & Estop & ->).
    set (P := fst (append_all (empty_path (e_maxlen e0) 0) (rev (pts ptmp)))).
    assert (HP : pts P = firstn (e_maxlen e0) (rev (firstn k s0))) by (unfold P; rewrite append_all_from_empty, Ep; reflexivity).
    assert (HPm : maxlen P = e_maxlen e0 /\ torigin P = 0).
    { unfold P. pose proof (append_all_spec (empty_path (e_maxlen e0) 0) (rev (pts ptmp))) as (_ & A & B & _). split; assumption. }
    destruct HPm as [HPm HPt].
    pose proof (append_spec P (dump dumpf DSecond f11)) as (A1 & A2 & A3).
    set (P0 := fst (append P (dump dumpf DSecond f11))) in *.
    assert (HlenP : plen P = Nat.min (e_maxlen e0) k).
    { unfold plen. rewrite HP, firstn_length, firstn_rev_length by exact Ekl. reflexivity. }
    intros H.
    destruct (Nat.eqb_spec (plen P0) (e_maxlen e0)) as [|Hne]; [discriminate|].
    destruct (Nat.ltb_spec (plen P0) 3) as [|Hge3]; [discriminate|].
    destruct (negb (e_scL e0) && has_L_start_end P0 e0) eqn:EL; [discriminate|].
    inversion H; subst path0 streams1 calls; clear H.
    rewrite HPm, HlenP in A1.
    destruct (Nat.ltb_spec (Nat.min (e_maxlen e0) k) (e_maxlen e0)) as [Hlt|Hge].
    + assert (Hk : (k < e_maxlen e0)%nat) by lia.
      rewrite HP in A1. rewrite firstn_all2 in A1 by (rewrite firstn_rev_length by exact Ekl; lia).
      assert (Hl0 : plen P0 = (k + 1)%nat).
      { unfold plen. rewrite A1, app_length, firstn_rev_length by exact Ekl. reflexivity. }
      split; [reflexivity|]. exists f10, f11, s0, k.
      assert (Hst : stops_at (e_i0 e0) (e_i2 e0) s0 k) by (apply Estop; lia).
      split; [reflexivity|]. split; [reflexivity|]. split; [reflexivity|]. split; [exact A1|].
      split; [congruence|]. split; [congruence|]. split; [lia|]. split; [lia|]. split; [exact Ekl|].
      split; [exact Hst|]. split; [|reflexivity].
      intros HscL. rewrite HscL in EL. exact EL.
    + exfalso. apply Hne. unfold plen. rewrite A1. fold (plen P). rewrite HlenP. lia.
  - destruct (second_frame old1) as [f11|]; [|discriminate].
    set (tmp := fst (append (empty_path (e_maxlen e0 - 1) 0) (copy_frame 0 f10))).
    set (P := fst (append_all (empty_path (e_maxlen e0) 0) (rev (pts tmp)))).
    pose proof (append_spec P (dump dumpf DSecond f11)) as (A1 & A2 & A3).
    set (P0 := fst (append P (dump dumpf DSecond f11))) in *.
    assert (Hl : (plen P0 <= 2)%nat).
    { assert (Ht : (length (pts tmp) <= 1)%nat).
      { unfold tmp. pose proof (append_spec (empty_path (e_maxlen e0 - 1) 0) (copy_frame 0 f10)) as (B & _).
        rewrite B. cbn [empty_path plen pts length maxlen]. destruct (0 <? e_maxlen e0 - 1)%nat; cbn; lia. }
      assert (HP : (plen P <= 1)%nat).
      { unfold plen, P. rewrite append_all_from_empty, firstn_length, rev_length. lia. }
      unfold plen in *. rewrite A1. destruct (length (pts P) <? maxlen P)%nat; [rewrite app_length; cbn [length]|]; lia. }
    intros H.
    destruct (Nat.eqb_spec (plen P0) (e_maxlen e0)); [discriminate|].
    destruct (Nat.ltb_spec (plen P0) 3); [discriminate|lia].
Qed.

Lemma plen_map_erase p : plen p = length (map erase (pts p)).
Proof. unfold plen. now rewrite map_length. Qed.

Lemma retis_path1_acc e0 e1 allowed old0 streams path1 streams1 calls :
  retis_path1 dumpf e0 e1 allowed old0 streams = Ok (path1, ACC, streams1, calls) ->
  allowed = true /\
  exists f0l f0m2 s1 k,
    last_frame old0 = Some f0l /\ last2_frame old0 = Some f0m2 /\ streams = s1 :: streams1 /\
    map erase (pts path1) = erase (dump dumpf DSecondLast f0m2) :: map erase (firstn k s1) /\
    maxlen path1 = e_maxlen e1 /\ torigin path1 = 0 /\
    (2 <= k)%nat /\ (k + 1 < e_maxlen e1)%nat /\ (k <= length s1)%nat /\
    stops_at (e_i0 e1) (e_i2 e1) s1 k /\
    calls = [mkCall E1 (copy_frame 0 f0l) false (e_i0 e1) (e_i2 e1) (e_maxlen e1 - 1) k].
Proof.
  unfold retis_path1. destruct (last_frame old0) as [f0l|]; [|discriminate].
  destruct allowed.
  - destruct (engine_call _ _ streams _ false _ _) as [[[ptmp str1] c]|] eqn:E; [|discriminate].
    destruct (last2_frame old0) as [f0m2|]; [|discriminate].
    apply engine_call_inv in E. destruct E as (s1 & k & -> & Ep & Em & Et & Ek & Ekl & Epre & Estop & ->).
    set (pp := dump dumpf DSecondLast f0m2).
    pose proof (append_spec (empty_path (e_maxlen e1) 0) pp) as (A1 & A2 & A3).
    set (Q := fst (append (empty_path (e_maxlen e1) 0) pp)) in *.
    cbn [empty_path plen pts length maxlen torigin app] in A1, A2, A3.
    destruct (Nat.ltb_spec 0 (e_maxlen e1)) as [_|Hz]; [|lia].
    pose proof (iadd_pts 0 Q ptmp) as HI.
    assert (HQl : plen Q = 1%nat) by (unfold plen; rewrite A1; reflexivity).
    rewrite A1, A2, HQl, Ep in HI. cbn [map app] in HI.
    rewrite firstn_all2 in HI by (rewrite map_length, firstn_length; lia).
    assert (HIm : maxlen (iadd 0 Q ptmp) = e_maxlen e1 /\ torigin (iadd 0 Q ptmp) = 0).
    { unfold iadd. pose proof (append_all_spec Q (copy_frames 0 (pts ptmp))) as (_ & B & C & _). rewrite B, C, A2, A3. auto. }
    set (P1 := iadd 0 Q ptmp) in *.
    assert (Hl1 : plen P1 = S k).
    { rewrite plen_map_erase, HI. cbn [length]. rewrite map_length, firstn_length. lia. }
    intros H.
    destruct (Nat.leb_spec (e_maxlen e1) (plen P1)) as [|Hlt]; [discriminate|].
    destruct (Nat.ltb_spec (plen P1) 3) as [|Hge3]; [discriminate|].
    inversion H; subst path1 streams1 calls; clear H.
    split; [reflexivity|]. exists f0l, f0m2, s1, k.
    destruct HIm as [HIm HIt].
    assert (Hst : stops_at (e_i0 e1) (e_i2 e1) s1 k) by (apply Estop; lia).
    split; [reflexivity|]. split; [reflexivity|]. split; [reflexivity|]. split; [exact HI|].
    split; [exact HIm|]. split; [exact HIt|]. split; [lia|]. split; [lia|]. split; [exact Ekl|].
    split; [exact Hst|reflexivity].
  - set (P1 := fst (append (empty_path (e_maxlen e1 - 1) 0) (copy_frame 0 f0l))).
    assert (Hl : (plen P1 <= 1)%nat).
    { unfold plen, P1. pose proof (append_spec (empty_path (e_maxlen e1 - 1) 0) (copy_frame 0 f0l)) as (B & _).
      rewrite B. cbn [empty_path plen pts length maxlen]. destruct (0 <? e_maxlen e1 - 1)%nat; cbn; lia. }
    intros H.
    destruct (Nat.leb_spec (e_maxlen e1) (plen P1)); [discriminate|].
    destruct (Nat.ltb_spec (plen P1) 3); [discriminate|lia].
Qed.

Lemma is_acc_true s : is_acc s = true -> s = ACC.
Proof. destruct s; cbn; congruence. Qed.

Lemma retis_acc_inv e0 e1 old0 old1 streams draws sp0 sp1 st calls nd :
  retis_swap_zero dumpf e0 e1 old0 old1 streams draws = Out true sp0 sp1 st calls nd ->
  exists ep streams1 streams2 calls0 calls1,
    end_point (sp_path old0) (e_i0 e0) (e_i2 e0) = Some ep /\
    lm1_early e0 (sp_path old0) = false /\
    retis_path0 dumpf e0 e1 (is_R ep) (sp_path old1) streams = Ok (sp_path sp0, ACC, streams1, calls0) /\
    retis_path1 dumpf e0 e1 (is_R ep) (sp_path old0) streams1 = Ok (sp_path sp1, ACC, streams2, calls1) /\
    st = ACC /\ sp_status sp0 = ACC /\ sp_status sp1 = ACC /\ calls = calls0 ++ calls1.
Proof.
  unfold retis_swap_zero, retis_swap_zero_g. change (retis_path0_g dumpf true) with (retis_path0 dumpf).
  destruct (end_point (sp_path old0) (e_i0 e0) (e_i2 e0)) as [ep|]; [|discriminate].
  destruct (lm1_early e0 (sp_path old0)) eqn:Eearly; [discriminate|].
  destruct (retis_path0 dumpf e0 e1 (is_R ep) (sp_path old1) streams) as [[[[path0 st0] str1] calls0]|] eqn:E0; [|discriminate].
  destruct (retis_path1 dumpf e0 e1 (is_R ep) (sp_path old0) str1) as [[[[path1 st1] str2] calls1]|] eqn:E1; [|discriminate].
  destruct (is_acc st0) eqn:A0; destruct (is_acc st1) eqn:A1; cbn [andb].
  - apply is_acc_true in A0, A1. subst st0 st1.
    intros H. exists ep, str1, str2, calls0, calls1.
    destruct (is_wf (e_move e0) || is_wf (e_move e1)).
    + destruct draws as [|u draws']; [discriminate|].
      destruct (high_acc_swap path1 (sp_path old1) e0 e1 u) as [[a s]|] eqn:EH; [|discriminate].
      destruct (final_weight path0 e0); [|discriminate]. destruct (final_weight path1 e1); [|discriminate].
      inversion H; subst; clear H. cbn [negb andb sp_path sp_status].
      unfold high_acc_swap in EH.
      destruct (cw path1 (intf_w e0) (e_move e0)); [|discriminate].
      destruct (cw (sp_path old1) (intf_w e1) (e_move e1)); [|discriminate].
      destruct (cw (sp_path old1) (intf_w e0) (e_move e0)); [|discriminate].
      destruct (cw path1 (intf_w e1) (e_move e1)); [|discriminate].
      destruct (high_acc_accept _ _ _ _ _); inversion EH; subst.
      repeat split; try reflexivity; assumption.
    + destruct (final_weight path0 e0); [|discriminate]. destruct (final_weight path1 e1); [|discriminate].
      inversion H; subst; clear H. cbn [negb andb sp_path sp_status]. repeat split; try reflexivity; assumption.
  - destruct (final_weight path0 e0); [|discriminate]. destruct (final_weight path1 e1); discriminate.
  - destruct (final_weight path0 e0); [|discriminate]. destruct (final_weight path1 e1); discriminate.
  - destruct (final_weight path0 e0); [|discriminate]. destruct (final_weight path1 e1); discriminate.
Qed.


(* ------------------------------------------------------------------ shape of an accepted retis swap *)

Lemma first_second_shape p f g :
  first_frame p = Some f -> second_frame p = Some g -> exists tl, pts p = f :: g :: tl.
Proof.
  unfold first_frame, second_frame. destruct (pts p) as [|a [|b t]]; cbn; try discriminate.
  intros [= ->] [= ->]. eauto.
Qed.

Lemma last_last2_shape p f g :
  last_frame p = Some f -> last2_frame p = Some g -> exists pre, pts p = pre ++ [g; f].
Proof.
  unfold last_frame, last2_frame. intros H1 H2.
  destruct (rev (pts p)) as [|a [|b t]] eqn:E; cbn in *; try discriminate.
  injection H1 as ->. injection H2 as ->. exists (rev t).
  rewrite <- (rev_involutive (pts p)), E. cbn. rewrite <- app_assoc. reflexivity.
Qed.

Lemma end_is_R ep : is_R ep = true -> ep = SR.
Proof. destruct ep; cbn; congruence. Qed.

(* everything an accepted retis_swap_zero tells about its inputs and outputs *)
Definition retis_acc_shape (e0 e1 : ens) (old0 old1 new0 new1 : path)
           (streams : list (list frame)) (calls : list call) : Prop :=
  exists f10 f11 tl1 pre0 f0m2 f0l s0 s1 rest k0 k1,
    pts old1 = f10 :: f11 :: tl1 /\ pts old0 = pre0 ++ [f0m2; f0l] /\
    streams = s0 :: s1 :: rest /\
    pts new0 = rev (firstn k0 s0) ++ [dump dumpf DSecond f11] /\
    maxlen new0 = e_maxlen e0 /\ torigin new0 = 0 /\
    map erase (pts new1) = erase (dump dumpf DSecondLast f0m2) :: map erase (firstn k1 s1) /\
    maxlen new1 = e_maxlen e1 /\ torigin new1 = 0 /\
    (2 <= k0 <= length s0)%nat /\ (k0 + 1 < e_maxlen e0)%nat /\
    stops_at (e_i0 e0) (e_i2 e0) s0 k0 /\
    (2 <= k1 <= length s1)%nat /\ (k1 + 1 < e_maxlen e1)%nat /\
    stops_at (e_i0 e1) (e_i2 e1) s1 k1 /\
    (e_scL e0 = false -> has_L_start_end new0 e0 = false) /\
    end_point old0 (e_i0 e0) (e_i2 e0) = Some SR /\ lm1_early e0 old0 = false /\
    calls = [mkCall E0 (copy_frame 0 f10) true (e_i0 e0) (e_i2 e0) (e_maxlen e0 - 1) k0;
             mkCall E1 (copy_frame 0 f0l) false (e_i0 e1) (e_i2 e1) (e_maxlen e1 - 1) k1].

Theorem retis_acc_struct e0 e1 old0 old1 streams draws sp0 sp1 st calls nd :
  retis_swap_zero dumpf e0 e1 old0 old1 streams draws = Out true sp0 sp1 st calls nd ->
  st = ACC /\ sp_status sp0 = ACC /\ sp_status sp1 = ACC /\
  retis_acc_shape e0 e1 (sp_path old0) (sp_path old1) (sp_path sp0) (sp_path sp1) streams calls.
Proof.
  intros H. apply retis_acc_inv in H.
  destruct H as (ep & str1 & str2 & calls0 & calls1 & Hep & Hearly & H0 & H1 & Hst & Hs0 & Hs1 & Hcalls).
  apply retis_path0_acc in H0.
  destruct H0 as (Hall & f10 & f11 & s0 & k0 & Hf10 & Hf11 & Hstr & Hp0 & Hm0 & Ht0 & Hk0 & Hk0m & Hk0l & Hstop0 & HL & Hc0).
  apply retis_path1_acc in H1.
  destruct H1 as (_ & f0l & f0m2 & s1 & k1 & Hf0l & Hf0m2 & Hstr1 & Hp1 & Hm1 & Ht1 & Hk1 & Hk1m & Hk1l & Hstop1 & Hc1).
  destruct (first_second_shape _ _ _ Hf10 Hf11) as (tl1 & Hold1).
  destruct (last_last2_shape _ _ _ Hf0l Hf0m2) as (pre0 & Hold0).
  apply end_is_R in Hall. subst ep.
  split; [exact Hst|]. split; [exact Hs0|]. split; [exact Hs1|].
  exists f10, f11, tl1, pre0, f0m2, f0l, s0, s1, str2, k0, k1.
  subst streams str1 calls calls0 calls1.
  repeat match goal with |- _ /\ _ => split end; try assumption; try reflexivity; try lia.
Qed.

(* the junction: the last two frames of the new [0-] path are the engine's own frame for the
   phase point old[0+][0] it was started from and the dumped copy of old[0+][1]; the first two
   frames of the new [0+] path are the dumped copy of old[0-][-2] and the engine's own frame
   for the phase point old[0-][-1] *)
Theorem retis_junction_frames e0 e1 old0 old1 new0 new1 streams calls :
  retis_acc_shape e0 e1 old0 old1 new0 new1 streams calls ->
  exists f10 f11 tl1 pre0 f0m2 f0l g0 r0 g1 r1 rest back forw,
    pts old1 = f10 :: f11 :: tl1 /\ pts old0 = pre0 ++ [f0m2; f0l] /\
    streams = (g0 :: r0) :: (g1 :: r1) :: rest /\
    pts new0 = back ++ [g0; dump dumpf DSecond f11] /\
    map erase (pts new1) = erase (dump dumpf DSecondLast f0m2) :: erase g1 :: forw /\
    map c_init calls = [copy_frame 0 f10; copy_frame 0 f0l] /\ map c_rev calls = [true; false].
Proof.
  intros (f10 & f11 & tl1 & pre0 & f0m2 & f0l & s0 & s1 & rest & k0 & k1 & Ho1 & Ho0 & Hs & Hp0 & _ & _ & Hp1 & _ & _ &
          Hk0 & _ & _ & Hk1 & _ & _ & _ & _ & _ & Hc).
  destruct s0 as [|g0 r0]; [cbn in Hk0; lia|]. destruct s1 as [|g1 r1]; [cbn in Hk1; lia|].
  destruct k0 as [|k0]; [lia|]. destruct k1 as [|k1]; [lia|].
  cbn [firstn rev map] in Hp0, Hp1.
  exists f10, f11, tl1, pre0, f0m2, f0l, g0, r0, g1, r1, rest, (rev (firstn k0 r0)), (map erase (firstn k1 r1)).
  subst calls. repeat split; try assumption.
  rewrite Hp0, <- app_assoc. reflexivity.
Qed.

Definition lastn {A} (n : nat) (l : list A) : list A := skipn (length l - n) l.

Lemma lastn_app2 {A} (pre : list A) a b : lastn 2 (pre ++ [a; b]) = [a; b].
Proof.
  unfold lastn. rewrite app_length. cbn [length].
  replace (length pre + 2 - 2)%nat with (length pre + 0)%nat by lia.
  rewrite skipn_app, Nat.add_0_r, skipn_all, Nat.sub_diag. reflexivity.
Qed.

Lemma map_ford_erase l : map ford l = map (fun e : Z * Z * bool => fst (fst e)) (map erase l).
Proof. rewrite map_map. apply map_ext. intros []; reflexivity. Qed.

(* ... as order parameters, when the engine's first frame carries the order parameter of the
   phase point it was given (the propagate contract, property C12) *)
Theorem retis_junction_orders e0 e1 old0 old1 new0 new1 streams calls :
  retis_acc_shape e0 e1 old0 old1 new0 new1 streams calls ->
  (forall k c s g, nth_error calls k = Some c -> nth_error streams k = Some s -> hd_error s = Some g ->
                   ford g = ford (c_init c)) ->
  lastn 2 (orders new0) = firstn 2 (orders old1) /\
  firstn 2 (orders new1) = lastn 2 (orders old0).
Proof.
  intros Hsh Hhon. destruct (retis_junction_frames _ _ _ _ _ _ _ _ Hsh)
    as (f10 & f11 & tl1 & pre0 & f0m2 & f0l & g0 & r0 & g1 & r1 & rest & back & forw & Ho1 & Ho0 & Hs & Hp0 & Hp1 & Hci & _).
  destruct calls as [|c0 [|c1 [|]]]; try discriminate. cbn in Hci. injection Hci as Hc0 Hc1.
  assert (Hg0 : ford g0 = ford f10).
  { rewrite (Hhon 0%nat c0 (g0 :: r0) g0); subst; cbn; try reflexivity. rewrite Hc0. reflexivity. }
  assert (Hg1 : ford g1 = ford f0l).
  { rewrite (Hhon 1%nat c1 (g1 :: r1) g1); subst; cbn; try reflexivity. rewrite Hc1. reflexivity. }
  unfold orders. split.
  - rewrite Hp0, Ho1, map_app. cbn [map firstn]. rewrite lastn_app2. cbn [dump ford]. rewrite Hg0. reflexivity.
  - rewrite (map_ford_erase (pts new1)), Hp1, Ho0, map_app. cbn [map firstn erase dump ford fst]. rewrite lastn_app2, Hg1. reflexivity.
Qed.


(* ------------------------------------------------------------------ validity of the new paths *)

Lemma crossedb_false l r f : crossedb l r f = false <-> l <= ford f <= r.
Proof.
  unfold crossedb. destruct (Z.ltb_spec (ford f) l); destruct (Z.ltb_spec r (ford f)); cbn; split; intros; try lia; try discriminate; reflexivity.
Qed.

Lemma crossedb_true l r f : crossedb l r f = true <-> (ford f < l \/ r < ford f).
Proof.
  unfold crossedb. destruct (Z.ltb_spec (ford f) l); destruct (Z.ltb_spec r (ford f)); cbn; split; intros; try lia; try discriminate; reflexivity.
Qed.

Lemma zmin3 a b c : a <= b <= c -> zmin_list a [b; c] = a.
Proof. intros. unfold zmin_list. cbn. lia. Qed.
Lemma zmax3 a b c : a <= b <= c -> zmax_list a [b; c] = c.
Proof. intros. unfold zmax_list. cbn. lia. Qed.

(* the start letter check_interfaces computes for a non-empty path and an ordered triple *)
Lemma has_L_start p e a rest :
  e_i0 e <= e_i1 e <= e_i2 e -> orders p = a :: rest ->
  has_L_start_end p e = false -> classify (e_i0 e) (e_i2 e) a <> SL.
Proof.
  intros Hord Ho. unfold has_L_start_end, check_interfaces, ordermin, ordermax, intf_of. rewrite Ho.
  destruct (argmin_from a 0 1 rest) as [omin imin]. destruct (argmax_from a 0 1 rest) as [omax imax].
  rewrite zmin3, zmax3 by exact Hord. cbn [ci_start ci_end].
  unfold start_point. rewrite Ho. destruct (Z.ltb_spec (e_i2 e) (e_i0 e)); [lia|].
  cbn [opt_is_L]. destruct (classify (e_i0 e) (e_i2 e) a); cbn; congruence.
Qed.

Theorem retis_swap_valid e0 e1 old0 old1 new0 new1 streams calls :
  retis_acc_shape e0 e1 old0 old1 new0 new1 streams calls ->
  e_i0 e0 <= e_i1 e0 <= e_i2 e0 ->
  (forall f10 f11 tl, pts old1 = f10 :: f11 :: tl -> e_i2 e0 <= ford f11) ->
  (forall pre a b, pts old0 = pre ++ [a; b] -> ford a <= e_i0 e1) ->
  (* the new [0-] path *)
  (exists a mid b, orders new0 = a :: mid ++ [b] /\ mid <> [] /\ (3 <= plen new0 < e_maxlen e0)%nat /\
     (a < e_i0 e0 \/ e_i2 e0 < a) /\ (e_scL e0 = false -> e_i2 e0 < a) /\
     (forall o, In o mid -> e_i0 e0 <= o <= e_i2 e0) /\ e_i2 e0 <= b) /\
  (* the new [0+] path *)
  (exists a mid b, orders new1 = a :: mid ++ [b] /\ mid <> [] /\ (3 <= plen new1 < e_maxlen e1)%nat /\
     a <= e_i0 e1 /\ (forall o, In o mid -> e_i0 e1 <= o <= e_i2 e1) /\
     (b < e_i0 e1 \/ e_i2 e1 < b)).
Proof.
  intros (f10 & f11 & tl1 & pre0 & f0m2 & f0l & s0 & s1 & rest & k0 & k1 & Ho1 & Ho0 & Hs & Hp0 & Hm0 & _ & Hp1 & Hm1 & _ &
          Hk0 & Hk0m & Hstop0 & Hk1 & Hk1m & Hstop1 & HL & _ & _ & _) Hord H11 H0m2.
  split.
  - pose proof Hstop0 as Hst.
    pose proof Hst as (_ & Hpre & _).
    destruct (stops_at_split _ _ _ _ Hst) as (lastf & _ & Hc & Hf & Hlen).
    rewrite Hf, rev_app_distr in Hp0. cbn [rev app] in Hp0.
    set (mid := rev (firstn (k0 - 1) s0)) in *.
    assert (Hmidlen : length mid = (k0 - 1)%nat) by (unfold mid; rewrite rev_length; exact Hlen).
    assert (Hor : orders new0 = ford lastf :: map ford mid ++ [ford f11]).
    { unfold orders. rewrite Hp0. cbn [map]. rewrite map_app. reflexivity. }
    exists (ford lastf), (map ford mid), (ford f11).
    split; [exact Hor|].
    split; [intros E; apply (f_equal (@length Z)) in E; rewrite map_length, Hmidlen in E; cbn in E; lia|].
    split; [unfold plen; rewrite Hp0; cbn [length]; rewrite app_length, Hmidlen; cbn [length]; lia|].
    apply crossedb_true in Hc.
    split; [exact Hc|].
    split.
    + intros HscL. specialize (HL HscL). apply (has_L_start _ _ _ _ Hord Hor) in HL.
      destruct Hc as [Hc|Hc]; [|exact Hc]. exfalso. apply HL. unfold classify.
      destruct (Z.leb_spec (ford lastf) (e_i0 e0)); [reflexivity|lia].
    + split; [|exact (H11 _ _ _ Ho1)].
      intros o Ho. apply in_map_iff in Ho. destruct Ho as (f & <- & Hf'). apply crossedb_false, Hpre.
      unfold mid in Hf'. apply in_rev in Hf'. exact Hf'.
  - pose proof Hstop1 as (_ & Hpre & _).
    destruct (stops_at_split _ _ _ _ Hstop1) as (lastf & _ & Hc & Hf & Hlen).
    rewrite Hf, map_app in Hp1. cbn [map] in Hp1.
    assert (Hor : orders new1 = ford f0m2 :: map ford (firstn (k1 - 1) s1) ++ [ford lastf]).
    { unfold orders. rewrite map_ford_erase, Hp1. cbn [map erase dump ford fst]. rewrite map_app. cbn [map fst].
      rewrite <- map_ford_erase. reflexivity. }
    exists (ford f0m2), (map ford (firstn (k1 - 1) s1)), (ford lastf).
    split; [exact Hor|].
    split; [intros E; apply (f_equal (@length Z)) in E; rewrite map_length, Hlen in E; cbn in E; lia|].
    split; [rewrite plen_map_erase, Hp1; cbn [length]; rewrite app_length, map_length, Hlen; cbn [length]; lia|].
    split; [exact (H0m2 _ _ _ Ho0)|].
    split; [|apply crossedb_true; exact Hc].
    intros o Ho. apply in_map_iff in Ho. destruct Ho as (f & <- & Hf'). apply crossedb_false, Hpre. exact Hf'.
Qed.


(* ------------------------------------------------------------------ lambda_-1: early rejection *)

Lemma rev_cons_shape {A} (l : list A) x t : rev l = x :: t -> l = rev t ++ [x].
Proof. intros E. rewrite <- (rev_involutive l), E. reflexivity. Qed.

(* lm1_early = "start_cond is {L, R} and the path ends at or below lambda_-1" *)
Lemma lm1_early_spec e0 p :
  e_i0 e0 <= e_i1 e0 <= e_i2 e0 ->
  (lm1_early e0 p = true <->
   e_scL e0 = true /\ e_scR e0 = true /\ exists pre o, orders p = pre ++ [o] /\ o <= e_i0 e0).
Proof.
  intros Hord. unfold lm1_early, check_interfaces, ordermin, ordermax, intf_of.
  destruct (orders p) as [|a rest] eqn:Ho.
  { split; [rewrite andb_false_r; discriminate|]. intros (_ & _ & pre & o & E & _). destruct pre; discriminate. }
  destruct (argmin_from a 0 1 rest) as [omin imin]. destruct (argmax_from a 0 1 rest) as [omax imax].
  rewrite zmin3, zmax3 by exact Hord. cbn [ci_end]. unfold end_point. rewrite Ho.
  destruct (Z.ltb_spec (e_i2 e0) (e_i0 e0)); [lia|].
  destruct (rev (a :: rest)) as [|x t] eqn:Er.
  { apply (f_equal (@length Z)) in Er. rewrite rev_length in Er. discriminate. }
  apply rev_cons_shape in Er. cbn [opt_is_L]. unfold classify.
  split.
  - intros HH. apply andb_true_iff in HH as [H1 H3]. apply andb_true_iff in H1 as [H1 H2].
    split; [exact H1|]. split; [exact H2|]. exists (rev t), x. split; [exact Er|].
    destruct (Z.leb_spec x (e_i0 e0)); [assumption|]. destruct (e_i2 e0 <=? x); discriminate.
  - intros (H1 & H2 & pre & o & E & Hle). rewrite H1, H2. cbn [andb].
    rewrite Er in E. apply app_inj_tail in E as [_ ->].
    destruct (Z.leb_spec o (e_i0 e0)); [reflexivity|lia].
Qed.

Theorem lm1_reject e0 e1 old0 old1 :
  e_i0 e0 <= e_i1 e0 <= e_i2 e0 ->
  lm1_early e0 (sp_path old0) = true ->
  forall streams draws,
    retis_swap_zero dumpf e0 e1 old0 old1 streams draws = Out false old0 old1 ZML [] 0.
Proof.
  intros Hord Hearly streams draws. unfold retis_swap_zero, retis_swap_zero_g. rewrite Hearly.
  apply (lm1_early_spec _ _ Hord) in Hearly. destruct Hearly as (_ & _ & pre & o & E & _).
  unfold end_point. destruct (Z.ltb_spec (e_i2 e0) (e_i0 e0)); [lia|].
  rewrite E, rev_app_distr. reflexivity.
Qed.

(* conversely the early exit is the only way to the status 0-L with the old paths returned
   untouched and no engine call: an accepted swap never has lm1_early (see retis_acc_shape) *)

End WithDump.

(* ------------------------------------------------------------------ QuanTIS: the energy rule *)

Lemma quantis_exponent_signs b0 b1 V0r0 V0r1 V1r1 V1r0 :
  (quantis_exponent b0 b1 V0r0 V0r1 V1r1 V1r0 == b0 * (V0r0 - V0r1) - b1 * (V1r0 - V1r1))%Q.
Proof. unfold quantis_exponent. ring. Qed.

Lemma qle_min1 u x : Qle_bool u (qmin1 x) = true <-> (u <= 1 /\ u <= x)%Q.
Proof.
  unfold qmin1. destruct (Qle_bool 1 x) eqn:E; rewrite Qle_bool_iff.
  - apply Qle_bool_iff in E. split; [intros H; split; [exact H|eapply Qle_trans; eassumption]|intros [H _]; exact H].
  - assert (Hx : (x < 1)%Q).
    { apply Qnot_le_lt. intros H. apply Qle_bool_iff in H. congruence. }
    split; [intros H; split; [|exact H]; eapply Qle_trans; [exact H|apply Qlt_le_weak; exact Hx]|intros [_ H]; exact H].
Qed.

Section Quantis.
Variable vpot_of : Z -> option Q.
Variable expf : Q -> Q.

Ltac case_ifs := repeat match goal with |- context [if ?c then _ else _] => destruct c end.

Lemma quantis_complete_status e0 e1 tmp0 tmp1 sc streams calls nd acc p0 p1 st calls' nd' :
  quantis_complete e0 e1 tmp0 tmp1 sc streams calls nd = Out acc p0 p1 st calls' nd' ->
  st <> QEA /\ nd' = nd /\ (acc = true -> st = ACC) /\ exists extra, calls' = calls ++ extra.
Proof.
  unfold quantis_complete, quantis_complete_g.
  destruct (first_frame tmp0); [|discriminate].
  destruct (negb sc).
  { intros H; inversion H; subst. split; [discriminate|]. split; [reflexivity|]. split; [discriminate|].
    exists []. symmetry; apply app_nil_r. }
  destruct (engine_call _ _ streams _ true _ _) as [[[back0 str1] c0]|]; [|discriminate].
  match goal with |- context [is_acc ?x] => set (st0 := x) end.
  assert (Hst0 : st0 <> QEA) by (unfold st0; case_ifs; discriminate).
  destruct (is_acc st0) eqn:A0; cbn [negb].
  2:{ intros H; inversion H; subst. split; [exact Hst0|]. split; [reflexivity|]. split; [discriminate|].
      eexists; reflexivity. }
  destruct (last_frame tmp1); [|discriminate].
  destruct (ford _ <? _).
  { intros H; inversion H; subst. split; [discriminate|]. split; [reflexivity|]. split; [discriminate|].
    eexists; reflexivity. }
  destruct (engine_call _ _ str1 _ false _ _) as [[[forw1 str2] c1]|]; [|discriminate].
  destruct (start_point _ _ _) as [sp|]; [|discriminate].
  match goal with |- context [is_acc ?x] => set (st1 := x) end.
  assert (Hst1 : st1 <> QEA) by (unfold st1; case_ifs; discriminate).
  destruct (is_acc st1) eqn:A1; cbn [negb].
  - intros H; inversion H; subst. split; [discriminate|]. split; [reflexivity|]. split; [reflexivity|].
    rewrite <- app_assoc. eexists; reflexivity.
  - intros H; inversion H; subst. split; [exact Hst1|]. split; [reflexivity|]. split; [discriminate|].
    rewrite <- app_assoc. eexists; reflexivity.
Qed.

(* If the move got as far as drawing its random number (both one-step crossing conditions
   held), the energies are read from old[0-][-2], the engine's frames for old[0+][0] and
   old[0-][-2], and old[0+][0]; the move passes the energy rule (status other than QEA) iff
   accept_all or  u <= 1 and u <= E  with  E = exp(beta0*(V0(r0)-V0(r1)) - beta1*(V1(r0)-V1(r1))). *)
Theorem quantis_energy_rule e0 e1 b0 b1 old0 old1 streams draws acc p0 p1 st calls :
  quantis_swap_zero vpot_of expf e0 e1 b0 b1 old0 old1 streams draws = Out acc p0 p1 st calls 1 ->
  exists u drest f10 f0m2 g0 r0 g1 r1 srest V0r0 V0r1 V1r1 V1r0 c0 c1 crest,
    draws = u :: drest /\
    first_frame (sp_path old1) = Some f10 /\ last2_frame (sp_path old0) = Some f0m2 /\
    streams = (g0 :: r0) :: (g1 :: r1) :: srest /\
    calls = c0 :: c1 :: crest /\ c_init c0 = copy_frame 0 f10 /\ c_init c1 = copy_frame 0 f0m2 /\
    vpot vpot_of f0m2 = Some V0r0 /\ vpot vpot_of g0 = Some V0r1 /\
    vpot vpot_of f10 = Some V1r1 /\ vpot vpot_of g1 = Some V1r0 /\
    let E := expf (quantis_exponent b0 b1 V0r0 V0r1 V1r1 V1r0) in
    (st <> QEA <-> (e_accept_all e0 = true \/ (u <= 1 /\ u <= E)%Q)) /\
    (acc = true -> st = ACC).
Proof.
  unfold quantis_swap_zero, quantis_swap_zero_g. change (quantis_complete_g true) with quantis_complete.
  destruct (first_frame (sp_path old1)) as [f10|] eqn:Ef10; [|discriminate].
  destruct (last2_frame (sp_path old0)) as [f0m2|] eqn:Ef0m2; [|discriminate].
  destruct (is_none _ || is_none _); [intros H; inversion H|].
  destruct (negb _ || negb _); [intros H; inversion H|].
  destruct (engine_call _ (empty_path 2 0) streams _ false _ _) as [[[tmp0 str1] c0]|] eqn:E0; [|discriminate].
  destruct (negb (end_is_R1 tmp0 _)); [intros H; inversion H|].
  destruct (engine_call _ (empty_path 2 0) str1 _ false _ _) as [[[tmp1 str2] c1]|] eqn:E1; [|discriminate].
  destruct (negb (end_is_R1 tmp1 _)); [intros H; inversion H|].
  apply engine_call_inv in E0. destruct E0 as (s0 & k0 & -> & Ep0 & _ & _ & Hk0 & Hk0l & _ & _ & ->).
  apply engine_call_inv in E1. destruct E1 as (s1 & k1 & -> & Ep1 & _ & _ & Hk1 & Hk1l & _ & _ & ->).
  destruct s0 as [|g0 r0]; [cbn in Hk0l; lia|]. destruct s1 as [|g1 r1]; [cbn in Hk1l; lia|].
  destruct k0 as [|k0]; [lia|]. destruct k1 as [|k1]; [lia|].
  unfold quantis_energies. rewrite Ef0m2.
  unfold first_frame at 1 3. rewrite Ep0, Ep1. cbn [firstn nth_error]. rewrite Ef10.
  destruct (vpot vpot_of f0m2) as [V0r0|] eqn:Ea; [|discriminate].
  destruct (vpot vpot_of g0) as [V0r1|] eqn:Eb; [|discriminate].
  destruct (vpot vpot_of f10) as [V1r1|] eqn:Ec; [|discriminate].
  destruct (vpot vpot_of g1) as [V1r0|] eqn:Ed; [|discriminate].
  destruct draws as [|u drest]; [discriminate|].
  unfold quantis_pacc.
  set (E := expf (quantis_exponent b0 b1 V0r0 V0r1 V1r1 V1r0)).
  intros H.
  assert (Hcase : (e_accept_all e0 = true \/ (u <= 1 /\ u <= E)%Q) <-> e_accept_all e0 || Qle_bool u (qmin1 E) = true).
  { rewrite orb_true_iff, qle_min1. reflexivity. }
  destruct (e_accept_all e0 || Qle_bool u (qmin1 E)) eqn:EA.
  - apply quantis_complete_status in H as (Hq & _ & Hacc & extra & ->).
    eexists u, drest, f10, f0m2, g0, r0, g1, r1, str2, V0r0, V0r1, V1r1, V1r0, _, _, extra.
    do 4 (split; [reflexivity|]). split; [cbn [app]; reflexivity|]. do 2 (split; [reflexivity|]).
    split; [exact Ea|]. split; [exact Eb|]. split; [exact Ec|]. split; [exact Ed|].
    cbn zeta. fold E. split; [|exact Hacc].
    split; [intros _; apply Hcase; reflexivity|intros _; exact Hq].
  - inversion H; subst.
    eexists u, drest, f10, f0m2, g0, r0, g1, r1, str2, V0r0, V0r1, V1r1, V1r0, _, _, [].
    do 4 (split; [reflexivity|]). split; [reflexivity|]. do 2 (split; [reflexivity|]).
    split; [exact Ea|]. split; [exact Eb|]. split; [exact Ec|]. split; [exact Ed|].
    cbn zeta. fold E. split; [|discriminate].
    split; [intros Hn; exfalso; apply Hn; reflexivity|intros Hc; apply Hcase in Hc; discriminate].
Qed.

End Quantis.

(* ================================================================== stop rule; sufficient conditions *)

(* the two stop rules (before / after the repair of lead L11) differ in the success flag only *)
Lemma add_to_path_rules_agree p f l r :
  match MovesM.add_to_path_g true p f l r, add_to_path p f l r with
  | Some (p1, _, st1, a1), Some (p2, _, st2, a2) => p1 = p2 /\ st1 = st2 /\ a1 = a2
  | None, None => True
  | _, _ => False
  end.
Proof.
  unfold MovesM.add_to_path_g, add_to_path. destruct (append p f) as [p1 add].
  destruct (rev (pts p1)) as [|lastf t]; [exact I|].
  destruct (ford lastf <? l); destruct (r <? ford lastf); destruct (plen p1 =? maxlen p1)%nat; destruct add; cbn; auto.
Qed.

Lemma propagate_loop_rules_agree l r : forall s p n,
  match MovesM.propagate_loop_g true p s l r n, propagate_loop p s l r n with
  | PR p1 _ n1, PR p2 _ n2 => p1 = p2 /\ n1 = n2
  | PRExhausted p1, PRExhausted p2 => p1 = p2
  | PRError, PRError => True
  | _, _ => False
  end.
Proof.
  induction s as [|f s IH]; intros p n; cbn [MovesM.propagate_loop_g propagate_loop]; [reflexivity|].
  pose proof (add_to_path_rules_agree p f l r) as H.
  destruct (MovesM.add_to_path_g true p f l r) as [[[[p1 s1] st1] a1]|];
    destruct (add_to_path p f l r) as [[[[p2 s2] st2] a2]|]; try contradiction; [|exact I].
  destruct H as (-> & -> & ->). destruct st2; [auto|apply IH].
Qed.

(* hence the swap model is the same function over either rule: it never reads the success flag *)
Theorem engine_call_rule_irrelevant who p streams init rv l r :
  engine_call who p streams init rv l r =
  match streams with
  | [] => Err EExhausted
  | [] :: _ => Err EExhausted
  | (f :: tl) :: rest =>
      match propagate p f tl l r with
      | PR p' _ n => Ok (p', rest, mkCall who init rv l r (maxlen p) n)
      | PRExhausted _ => Err EExhausted
      | PRError => Err ERaise
      end
  end.
Proof.
  unfold engine_call. destruct streams as [|[|f tl] rest]; try reflexivity.
  unfold MovesM.propagate_fixed, MovesM.propagate_g, propagate.
  pose proof (propagate_loop_rules_agree l r (f :: tl) p 0) as H.
  destruct (MovesM.propagate_loop_g true p (f :: tl) l r 0); destruct (propagate_loop p (f :: tl) l r 0); try contradiction; try reflexivity.
  destruct H as [-> ->]. reflexivity.
Qed.

(* ------------------------------------------------------------------ the converse: when a swap is accepted *)

Lemma path_eta p a m t : pts p = a -> maxlen p = m -> torigin p = t -> p = mkP a m t.
Proof. destruct p; cbn; congruence. Qed.

Lemma final_weight_not_wf p e : is_wf (e_move e) = false -> final_weight p e = Some 1.
Proof. unfold final_weight, is_wf. destruct (e_move e); [reflexivity|discriminate|reflexivity]. Qed.

Section Converse.
Variable dumpf : dlabel -> Z -> Z.

Theorem retis_swap_complete e0 e1 old0 old1 s0 s1 rest draws f10 f11 tl1 pre0 f0m2 f0l k0 k1 :
  pts (sp_path old1) = f10 :: f11 :: tl1 ->
  pts (sp_path old0) = pre0 ++ [f0m2; f0l] ->
  end_point (sp_path old0) (e_i0 e0) (e_i2 e0) = Some SR ->
  lm1_early e0 (sp_path old0) = false ->
  stops_at (e_i0 e0) (e_i2 e0) s0 k0 -> (2 <= k0)%nat -> (k0 + 1 < e_maxlen e0)%nat ->
  stops_at (e_i0 e1) (e_i2 e1) s1 k1 -> (2 <= k1)%nat -> (k1 + 1 < e_maxlen e1)%nat ->
  (e_scL e0 = false ->
   has_L_start_end (mkP (rev (firstn k0 s0) ++ [dump dumpf DSecond f11]) (e_maxlen e0) 0) e0 = false) ->
  is_wf (e_move e0) || is_wf (e_move e1) = false ->
  exists path1,
    map erase (pts path1) = erase (dump dumpf DSecondLast f0m2) :: map erase (firstn k1 s1) /\
    maxlen path1 = e_maxlen e1 /\ torigin path1 = 0 /\
    retis_swap_zero dumpf e0 e1 old0 old1 (s0 :: s1 :: rest) draws =
    Out true (mkSP (mkP (rev (firstn k0 s0) ++ [dump dumpf DSecond f11]) (e_maxlen e0) 0) ACC 1)
             (mkSP path1 ACC 1) ACC
        [mkCall E0 (copy_frame 0 f10) true (e_i0 e0) (e_i2 e0) (e_maxlen e0 - 1) k0;
         mkCall E1 (copy_frame 0 f0l) false (e_i0 e1) (e_i2 e1) (e_maxlen e1 - 1) k1] 0.
Proof.
  intros Ho1 Ho0 Hep Hearly Hst0 Hk0 Hk0m Hst1 Hk1 Hk1m HL Hwf.
  assert (Hk0m1 : (k0 <= e_maxlen e0 - 1)%nat) by lia.
  apply orb_false_iff in Hwf as [Hwf0 Hwf1].
  assert (Hl0 : (k0 <= length s0)%nat).
  { destruct Hst0 as (_ & _ & lf & Hn & _). assert (k0 - 1 < length s0)%nat by (apply nth_error_Some; congruence). lia. }
  assert (Hl1 : (k1 <= length s1)%nat).
  { destruct Hst1 as (_ & _ & lf & Hn & _). assert (k1 - 1 < length s1)%nat by (apply nth_error_Some; congruence). lia. }
  (* path0 *)
  assert (E0 : retis_path0 dumpf e0 e1 true (sp_path old1) (s0 :: s1 :: rest) =
               Ok (mkP (rev (firstn k0 s0) ++ [dump dumpf DSecond f11]) (e_maxlen e0) 0, ACC, s1 :: rest,
                   [mkCall E0 (copy_frame 0 f10) true (e_i0 e0) (e_i2 e0) (e_maxlen e0 - 1) k0])).
  { unfold retis_path0, retis_path0_g, first_frame, second_frame. rewrite Ho1. cbn [nth_error].
    rewrite (engine_call_run _ _ _ _ _ _ _ _ _ _ Hst0 Hk0m1). cbn [pts].
    set (P := fst (append_all (empty_path (e_maxlen e0) 0) (rev (firstn k0 s0)))).
    assert (HP : P = mkP (rev (firstn k0 s0)) (e_maxlen e0) 0).
    { pose proof (append_all_spec (empty_path (e_maxlen e0) 0) (rev (firstn k0 s0))) as (A & B & C & _).
      apply path_eta; [|exact B|exact C]. fold P in A. rewrite A. cbn [empty_path pts maxlen plen length app].
      rewrite Nat.sub_0_r. apply firstn_all2. rewrite firstn_rev_length by exact Hl0. lia. }
    rewrite HP.
    assert (Happ : append (mkP (rev (firstn k0 s0)) (e_maxlen e0) 0) (dump dumpf DSecond f11) =
                   (mkP (rev (firstn k0 s0) ++ [dump dumpf DSecond f11]) (e_maxlen e0) 0, true)).
    { unfold append, plen. cbn [pts maxlen torigin]. rewrite firstn_rev_length by exact Hl0.
      destruct (Nat.ltb_spec k0 (e_maxlen e0)) as [_|]; [reflexivity|lia]. }
    rewrite Happ. cbn [fst].
    set (P0 := mkP (rev (firstn k0 s0) ++ [dump dumpf DSecond f11]) (e_maxlen e0) 0) in *.
    assert (Hlen : plen P0 = (k0 + 1)%nat) by (unfold plen, P0; cbn [pts]; rewrite app_length, firstn_rev_length by exact Hl0; reflexivity).
    rewrite Hlen.
    destruct (Nat.eqb_spec (k0 + 1) (e_maxlen e0)); [lia|].
    destruct (Nat.ltb_spec (k0 + 1) 3); [lia|].
    destruct (e_scL e0) eqn:EscL; cbn [negb andb]; [reflexivity|]. rewrite (HL eq_refl). reflexivity. }
  (* path1 *)
  set (Q := fst (append (empty_path (e_maxlen e1) 0) (dump dumpf DSecondLast f0m2))).
  set (tmp1 := mkP (firstn k1 s1) (e_maxlen e1 - 1) 0).
  set (path1 := iadd 0 Q tmp1).
  assert (HQ : pts Q = [dump dumpf DSecondLast f0m2] /\ maxlen Q = e_maxlen e1 /\ torigin Q = 0).
  { unfold Q, append. cbn [empty_path plen pts length maxlen]. destruct (Nat.ltb_spec 0 (e_maxlen e1)); [|lia]. cbn. auto. }
  destruct HQ as (HQ1 & HQ2 & HQ3).
  assert (HP1 : map erase (pts path1) = erase (dump dumpf DSecondLast f0m2) :: map erase (firstn k1 s1)).
  { unfold path1. rewrite iadd_pts, HQ1, HQ2. unfold plen. rewrite HQ1. cbn [map app length pts tmp1].
    rewrite firstn_all2; [reflexivity|]. rewrite map_length, firstn_length. lia. }
  assert (HP1m : maxlen path1 = e_maxlen e1 /\ torigin path1 = 0).
  { unfold path1, iadd. pose proof (append_all_spec Q (copy_frames 0 (pts tmp1))) as (_ & B & C & _). rewrite B, C. auto. }
  assert (Hlen1 : plen path1 = S k1).
  { rewrite plen_map_erase, HP1. cbn [length]. rewrite map_length, firstn_length. lia. }
  assert (E1 : retis_path1 dumpf e0 e1 true (sp_path old0) (s1 :: rest) =
               Ok (path1, ACC, rest, [mkCall E1 (copy_frame 0 f0l) false (e_i0 e1) (e_i2 e1) (e_maxlen e1 - 1) k1])).
  { unfold retis_path1, last_frame, last2_frame. rewrite Ho0, rev_app_distr. cbn [rev app nth_error].
    rewrite (engine_call_run _ _ _ _ _ _ _ _ _ _ Hst1) by lia.
    fold tmp1. fold Q. fold path1. rewrite Hlen1.
    destruct (Nat.leb_spec (e_maxlen e1) (S k1)); [lia|]. destruct (Nat.ltb_spec (S k1) 3); [lia|]. reflexivity. }
  exists path1. split; [exact HP1|]. split; [apply HP1m|]. split; [apply HP1m|].
  unfold retis_swap_zero, retis_swap_zero_g. change (retis_path0_g dumpf true) with (retis_path0 dumpf).
  rewrite Hep, Hearly. cbn [is_R]. rewrite E0, E1. cbn [is_acc andb app].
  rewrite Hwf0, Hwf1. cbn [orb andb negb].
  rewrite (final_weight_not_wf _ _ Hwf0), (final_weight_not_wf _ _ Hwf1). reflexivity.
Qed.

End Converse.

(* ================================================================== deterministic reversible dynamics *)

(* ------------------------------------------------------------------ first-crossing lists *)
Definition crossedz (l r o : Z) : bool := (o <? l) || (r <? o).

Lemma crossedb_z l r f : crossedb l r f = crossedz l r (ford f).
Proof. reflexivity. Qed.

(* a list of order values in which exactly the last one is beyond an interface *)
Definition fcross (l r : Z) (os : list Z) : Prop :=
  exists pre c, os = pre ++ [c] /\ (forall o, In o pre -> crossedz l r o = false) /\ crossedz l r c = true.

Lemma fcross_prefix_eq l r a b t : fcross l r a -> fcross l r b -> b = a ++ t -> a = b.
Proof.
  intros (pa & ca & -> & Hpa & Hca) (pb & cb & -> & Hpb & Hcb) E.
  destruct t as [|x t] using rev_ind; [rewrite app_nil_r in E; symmetry; exact E|]. clear IHt.
  exfalso. rewrite app_assoc in E. apply app_inj_tail in E as [E _]. 
  assert (In ca pb) by (rewrite E; apply in_or_app; left; apply in_or_app; right; left; reflexivity).
  rewrite (Hpb _ H) in Hca. discriminate.
Qed.

Lemma fcross_comparable_eq l r a b :
  fcross l r a -> fcross l r b -> ((exists t, b = a ++ t) \/ (exists t, a = b ++ t)) -> a = b.
Proof.
  intros Ha Hb [[t E]|[t E]]; [eapply fcross_prefix_eq; eassumption|symmetry; eapply fcross_prefix_eq; eassumption].
Qed.

Lemma stops_at_fcross l r s k : stops_at l r s k -> fcross l r (map ford (firstn k s)).
Proof.
  intros Hst. pose proof Hst as (_ & Hpre & _).
  destruct (stops_at_split _ _ _ _ Hst) as (lastf & _ & Hc & Hf & _).
  exists (map ford (firstn (k - 1) s)), (ford lastf). rewrite Hf, map_app. split; [reflexivity|].
  split; [|exact Hc]. intros o Ho. apply in_map_iff in Ho as (f & <- & Hf'). apply (Hpre _ Hf').
Qed.

Lemma app_eq_len {A} (a b c d : list A) : a ++ b = c ++ d -> length a = length c -> a = c /\ b = d.
Proof.
  revert c; induction a as [|x a IH]; intros [|y c] E L; cbn in *; try discriminate; [auto|].
  injection E as -> E. destruct (IH c E) as [-> ->]; [lia|auto].
Qed.

Section Rev.
(* an abstract deterministic time-reversible MD engine (see SwapM.Reversible) *)
Variable X : Type.
Variable T R : X -> X.
Variable ord : X -> Z.
Variable enc : X -> Z.
Variable dec : Z -> X.
Hypothesis HRR : forall x, R (R x) = x.
Hypothesis HRT : forall x, R (T (R (T x))) = x.
Hypothesis Hord : forall x, ord (R x) = ord x.
Hypothesis Hdec : forall x, dec (enc x) = x.

Notation traj := (traj X T).
Notation phys := (phys X R dec).
Notation det_stream := (det_stream X T R ord enc dec).
Notation det_retis := (det_retis X T R ord enc dec).

Definition Tinv (x : X) : X := R (T (R x)).

Lemma Tinv_T x : Tinv (T x) = x.
Proof. apply HRT. Qed.

Lemma T_R x : T (R x) = R (Tinv x).
Proof. unfold Tinv. rewrite HRR. reflexivity. Qed.

Fixpoint itn (f : X -> X) (n : nat) (x : X) : X := match n with O => x | S k => itn f k (f x) end.

Lemma itn_S f n : forall x, itn f (S n) x = f (itn f n x).
Proof. induction n as [|n IH]; intros x; [reflexivity|]. cbn [itn] in *. rewrite IH. reflexivity. Qed.

Lemma itn_inv n : forall y, itn Tinv n (itn T n y) = y.
Proof.
  induction n as [|n IH]; intros y; [reflexivity|].
  rewrite (itn_S T). cbn [itn]. rewrite Tinv_T. apply IH.
Qed.

(* the backward sequence x, T^-1 x, T^-2 x, ... *)
Fixpoint itraj (n : nat) (x : X) : list X := match n with O => [] | S k => x :: itraj k (Tinv x) end.

Lemma traj_app a : forall b x, traj (a + b) x = traj a x ++ traj b (itn T a x).
Proof. induction a as [|a IH]; intros b x; [reflexivity|]. cbn [Nat.add SwapM.traj app itn]. rewrite IH. reflexivity. Qed.

Lemma itraj_app a : forall b x, itraj (a + b) x = itraj a x ++ itraj b (itn Tinv a x).
Proof. induction a as [|a IH]; intros b x; [reflexivity|]. cbn [Nat.add itraj app itn]. rewrite IH. reflexivity. Qed.

Lemma traj_length n : forall x, length (traj n x) = n.
Proof. induction n; intros; cbn; auto. Qed.
Lemma itraj_length n : forall x, length (itraj n x) = n.
Proof. induction n; intros; cbn; auto. Qed.

Lemma itraj_rev j : forall y, itraj (S j) (itn T j y) = rev (traj (S j) y).
Proof.
  induction j as [|j IH]; intros y; [reflexivity|].
  change (traj (S (S j)) y) with (y :: traj (S j) (T y)). cbn [rev]. rewrite <- IH.
  replace (S (S j)) with (S j + 1)%nat by lia. rewrite itraj_app. cbn [itn]. f_equal.
  cbn [itraj]. f_equal. change (itn Tinv j (Tinv (itn T j (T y)))) with (itn Tinv (S j) (itn T j (T y))).
  change (itn T j (T y)) with (itn T (S j) y). apply itn_inv.
Qed.

Lemma traj_R n : forall x, traj n (R x) = map R (itraj n x).
Proof. induction n as [|n IH]; intros x; [reflexivity|]. cbn [SwapM.traj itraj map]. rewrite T_R, IH. reflexivity. Qed.

Lemma firstn_traj k : forall n x, (k <= n)%nat -> firstn k (traj n x) = traj k x.
Proof.
  induction k as [|k IH]; intros [|n] x H; try reflexivity; [lia|]. cbn [SwapM.traj firstn]. rewrite IH by lia. reflexivity.
Qed.
Lemma firstn_itraj k : forall n x, (k <= n)%nat -> firstn k (itraj n x) = itraj k x.
Proof.
  induction k as [|k IH]; intros [|n] x H; try reflexivity; [lia|]. cbn [itraj firstn]. rewrite IH by lia. reflexivity.
Qed.

Lemma traj_comparable k m x : (exists t, traj m x = traj k x ++ t) \/ (exists t, traj k x = traj m x ++ t).
Proof.
  destruct (Nat.le_ge_cases k m) as [H|H]; [left|right].
  - replace m with (k + (m - k))%nat by lia. rewrite traj_app. eauto.
  - replace k with (m + (k - m))%nat by lia. rewrite traj_app. eauto.
Qed.
Lemma itraj_comparable k m x : (exists t, itraj m x = itraj k x ++ t) \/ (exists t, itraj k x = itraj m x ++ t).
Proof.
  destruct (Nat.le_ge_cases k m) as [H|H]; [left|right].
  - replace m with (k + (m - k))%nat by lia. rewrite itraj_app. eauto.
  - replace k with (m + (k - m))%nat by lia. rewrite itraj_app. eauto.
Qed.

(* ---- frames *)
Definition physE (e : Z * Z * bool) : X := let '(o, t, r) := e in if r then R (dec t) else dec t.
Lemma phys_erase f : phys f = physE (erase f).
Proof. reflexivity. Qed.

Lemma phys_frame_of rv s : phys (frame_of X ord enc rv s) = if rv then R s else s.
Proof. unfold SwapM.phys, frame_of. cbn. rewrite Hdec. reflexivity. Qed.

Lemma start_state_true f : start_state X R dec f true = R (phys f).
Proof. unfold start_state, SwapM.phys. cbn. destruct (frev f); cbn; [rewrite HRR|]; reflexivity. Qed.
Lemma start_state_false f : start_state X R dec f false = phys f.
Proof. unfold start_state, SwapM.phys. cbn. destruct (frev f); reflexivity. Qed.

Lemma phys_stream_back n f : map phys (det_stream n f true) = itraj n (phys f).
Proof.
  unfold SwapM.det_stream. rewrite map_map, start_state_true, traj_R, map_map.
  rewrite <- (map_id (itraj n (phys f))) at 2. apply map_ext. intros s. rewrite phys_frame_of. apply HRR.
Qed.
Lemma phys_stream_forw n f : map phys (det_stream n f false) = traj n (phys f).
Proof.
  unfold SwapM.det_stream. rewrite map_map, start_state_false.
  rewrite <- (map_id (traj n (phys f))) at 2. apply map_ext. intros s. apply phys_frame_of.
Qed.
Lemma ford_stream n f rv : map ford (det_stream n f rv) = map ord (map phys (det_stream n f rv)).
Proof.
  unfold SwapM.det_stream. rewrite !map_map. apply map_ext. intros s. rewrite phys_frame_of. cbn.
  destruct rv; [rewrite Hord|]; reflexivity.
Qed.
Lemma stream_length n f rv : length (det_stream n f rv) = n.
Proof. unfold SwapM.det_stream. rewrite map_length. apply traj_length. Qed.


(* ---- the double swap *)
Definition idump : dlabel -> Z -> Z := fun _ t => t.

(* consecutive states of the dynamics starting in x0, the stored order parameters being those of the states *)
Definition phys_path (x0 : X) (p : path) : Prop :=
  map phys (pts p) = traj (plen p) x0 /\ orders p = map ord (traj (plen p) x0).

(* a [0-] path as the stop rule leaves it: first frame beyond an interface, the others (but the last) not *)
Definition minus_shape (e : ens) (p : path) : Prop :=
  exists fa mid fl, pts p = fa :: mid ++ [fl] /\ crossedb (e_i0 e) (e_i2 e) fa = true /\
                    forall f, In f mid -> crossedb (e_i0 e) (e_i2 e) f = false.
(* a [0+] path: last frame beyond an interface, the others (but the first) not *)
Definition plus_shape (e : ens) (p : path) : Prop :=
  exists fb mid fz, pts p = fb :: mid ++ [fz] /\ crossedb (e_i0 e) (e_i2 e) fz = true /\
                    forall f, In f mid -> crossedb (e_i0 e) (e_i2 e) f = false.

Lemma det_retis_shape n e0 e1 old0 old1 new0 new1 st calls nd :
  det_retis n e0 e1 old0 old1 = Out true new0 new1 st calls nd ->
  exists f10 f11 tl1 pre0 f0m2 f0l k0 k1,
    pts (sp_path old1) = f10 :: f11 :: tl1 /\ pts (sp_path old0) = pre0 ++ [f0m2; f0l] /\
    pts (sp_path new0) = rev (firstn k0 (det_stream n (copy_frame 0 f10) true)) ++ [dump idump DSecond f11] /\
    map erase (pts (sp_path new1)) =
      erase (dump idump DSecondLast f0m2) :: map erase (firstn k1 (det_stream n (copy_frame 0 f0l) false)) /\
    (2 <= k0 <= n)%nat /\ (k0 + 1 < e_maxlen e0)%nat /\
    stops_at (e_i0 e0) (e_i2 e0) (det_stream n (copy_frame 0 f10) true) k0 /\
    (2 <= k1 <= n)%nat /\ stops_at (e_i0 e1) (e_i2 e1) (det_stream n (copy_frame 0 f0l) false) k1.
Proof.
  unfold SwapM.det_retis.
  destruct (first_frame (sp_path old1)) as [f|] eqn:Ef; [|discriminate].
  destruct (last_frame (sp_path old0)) as [g|] eqn:Eg; [|discriminate].
  intros H. apply retis_acc_struct in H as (_ & _ & _ & Hsh).
  destruct Hsh as (f10 & f11 & tl1 & pre0 & f0m2 & f0l & s0 & s1 & rest & k0 & k1 & Ho1 & Ho0 & Hs & Hp0 & _ & _ & Hp1 & _ & _ &
          Hk0 & Hk0m & Hstop0 & Hk1 & _ & Hstop1 & _).
  unfold first_frame in Ef. rewrite Ho1 in Ef. injection Ef as <-.
  unfold last_frame in Eg. rewrite Ho0, rev_app_distr in Eg. injection Eg as <-.
  injection Hs as <- <- _.
  rewrite stream_length in Hk0, Hk1.
  exists f10, f11, tl1, pre0, f0m2, f0l, k0, k1.
  split; [exact Ho1|]. split; [exact Ho0|]. split; [exact Hp0|]. split; [exact Hp1|]. split; [lia|].
  split; [exact Hk0m|]. split; [exact Hstop0|]. split; [lia|exact Hstop1].
Qed.

Lemma phys_dump lab f : phys (dump idump lab f) = phys f.
Proof. reflexivity. Qed.

Lemma map_phys_erase l : map phys l = map physE (map erase l).
Proof. rewrite map_map. reflexivity. Qed.

Lemma orders_back_prefix n f k : (k <= n)%nat ->
  map ford (firstn k (det_stream n f true)) = map ord (itraj k (phys f)).
Proof. intros H. rewrite <- firstn_map, ford_stream, phys_stream_back, firstn_map, firstn_itraj by exact H. reflexivity. Qed.
Lemma orders_forw_prefix n f k : (k <= n)%nat ->
  map ford (firstn k (det_stream n f false)) = map ord (traj k (phys f)).
Proof. intros H. rewrite <- firstn_map, ford_stream, phys_stream_forw, firstn_map, firstn_traj by exact H. reflexivity. Qed.

Lemma comparable_map {A B} (g : A -> B) (a b : list A) :
  ((exists t, b = a ++ t) \/ (exists t, a = b ++ t)) ->
  ((exists t, map g b = map g a ++ t) \/ (exists t, map g a = map g b ++ t)).
Proof. intros [[t ->]|[t ->]]; [left|right]; rewrite map_app; eauto. Qed.

Theorem swap_twice_id n e0 e1 old0 old1 a0 b0 new0 new1 st calls nd new0' new1' st' calls' nd' :
  phys_path a0 (sp_path old0) -> phys_path b0 (sp_path old1) ->
  minus_shape e0 (sp_path old0) -> plus_shape e1 (sp_path old1) ->
  det_retis n e0 e1 old0 old1 = Out true new0 new1 st calls nd ->
  det_retis n e0 e1 new0 new1 = Out true new0' new1' st' calls' nd' ->
  orders (sp_path new0') = orders (sp_path old0) /\ orders (sp_path new1') = orders (sp_path old1).
Proof.
  intros [Hpa Hoa] [Hpb Hob] (fa & mid0 & fl & Hsa & Hca & Hma) (fb & mid1 & fz & Hsb & Hcz & Hmb) D1 D2.
  apply det_retis_shape in D1.
  destruct D1 as (f10 & f11 & tl1 & pre0 & f0m2 & f0l & k0 & k1 & Ho1 & Ho0 & Hn0 & Hn1 & Hk0 & _ & _ & Hk1 & _).
  apply det_retis_shape in D2.
  destruct D2 as (F10 & F11 & TL1 & PRE0 & F0m2 & F0l & K0 & K1 & HO1 & HO0 & HN0 & HN1 & HK0 & HK0m & HST0 & HK1 & HST1).
  (* the old [0-] path in terms of the dynamics *)
  unfold plen in Hpa, Hoa, Hpb, Hob. unfold orders in Hoa, Hob.
  rewrite Ho0 in Hpa, Hoa. rewrite app_length in Hpa, Hoa. cbn [length] in Hpa, Hoa.
  rewrite traj_app in Hpa, Hoa. cbn [SwapM.traj] in Hpa, Hoa. rewrite !map_app in Hpa. rewrite !map_app in Hoa. cbn [map] in Hpa, Hoa.
  set (xx := itn T (length pre0) a0) in *.
  apply app_eq_len in Hpa as [Hpa1 Hpa2]; [|rewrite map_length, traj_length; reflexivity].
  apply app_eq_len in Hoa as [Hoa1 Hoa2]; [|rewrite !map_length, traj_length; reflexivity].
  injection Hpa2 as Hx Hx'. injection Hoa2 as Hfx Hfx'.
  (* the old [0+] path *)
  rewrite Ho1 in Hpb, Hob. cbn [length SwapM.traj map] in Hpb, Hob.
  injection Hpb as Hb0 Hb1 Hbt. injection Hob as Hfb0 Hfb1 Hfbt.
  (* junction frames of the intermediate paths *)
  assert (HF10 : phys F10 = xx /\ ford F11 = ford f0l).
  { pose proof (f_equal (map physE) Hn1) as E1. rewrite <- map_phys_erase, HO1 in E1. cbn [map] in E1.
    injection E1 as E1 _. change (phys F10 = phys f0m2) in E1. split; [congruence|].
    pose proof (f_equal (map (fun e : Z * Z * bool => fst (fst e))) Hn1) as E2.
    rewrite HO1 in E2. cbn [map] in E2. rewrite <- !map_ford_erase in E2. rewrite orders_forw_prefix in E2 by lia.
    destruct k1 as [|k1]; [lia|]. cbn [SwapM.traj map] in E2. injection E2 as _ E2 _.
    change (phys (copy_frame 0 f0l)) with (phys f0l) in E2. rewrite E2, Hfx', Hx'. reflexivity. }
  destruct HF10 as [HF10 HF11].
  assert (HF0 : F0l = dump idump DSecond f11 /\ ford F0m2 = ford f10).
  { rewrite HO0 in Hn0. destruct k0 as [|k0]; [lia|].
    pose proof (orders_back_prefix n (copy_frame 0 f10) (S k0) ltac:(lia)) as E.
    destruct (det_stream n (copy_frame 0 f10) true) as [|g0 r0]; [cbn in E; discriminate|].
    cbn [firstn rev itraj map] in Hn0, E. injection E as E _.
    change (PRE0 ++ [F0m2; F0l]) with (PRE0 ++ [F0m2] ++ [F0l]) in Hn0. rewrite app_assoc in Hn0.
    apply app_inj_tail in Hn0 as [Hn0 ->]. apply app_inj_tail in Hn0 as [_ ->]. split; [reflexivity|].
    rewrite E. change (phys (copy_frame 0 f10)) with (phys f10). rewrite Hfb0, Hb0. reflexivity. }
  destruct HF0 as [-> HF0m2].
  split.
  - (* [0-] *)
    unfold orders. rewrite HN0, Ho0, map_app, map_rev. cbn [map dump ford].
    rewrite orders_back_prefix by lia. change (phys (copy_frame 0 F10)) with (phys F10). rewrite HF10, HF11.
    pose proof HST0 as Hst.
    apply stops_at_fcross in Hst. rewrite orders_back_prefix in Hst by lia.
    change (phys (copy_frame 0 F10)) with (phys F10) in Hst. rewrite HF10 in Hst.
    assert (Hsplit : pre0 ++ [f0m2] = fa :: mid0 /\ f0l = fl).
    { rewrite Ho0 in Hsa. change (pre0 ++ [f0m2; f0l]) with (pre0 ++ [f0m2] ++ [f0l]) in Hsa.
      rewrite app_assoc in Hsa. change (fa :: mid0 ++ [fl]) with ((fa :: mid0) ++ [fl]) in Hsa.
      apply app_inj_tail in Hsa. exact Hsa. }
    destruct Hsplit as [Hsplit _].
    assert (Hrev : map ord (itraj (S (length pre0)) xx) = rev (map ford (pre0 ++ [f0m2]))).
    { unfold xx. rewrite itraj_rev, map_rev. f_equal.
      replace (S (length pre0)) with (length pre0 + 1)%nat by lia. rewrite traj_app. cbn [SwapM.traj]. fold xx.
      rewrite !map_app. cbn [map]. rewrite <- Hoa1, <- Hfx. reflexivity. }
    assert (Hold : fcross (e_i0 e0) (e_i2 e0) (map ord (itraj (S (length pre0)) xx))).
    { rewrite Hrev, Hsplit. cbn [map rev]. exists (rev (map ford mid0)), (ford fa).
      split; [reflexivity|]. split; [|exact Hca].
      intros o Ho. apply in_rev, in_map_iff in Ho as (f & <- & Hf). apply (Hma _ Hf). }
    pose proof (fcross_comparable_eq _ _ _ _ Hst Hold
                  (comparable_map ord _ _ (itraj_comparable K0 (S (length pre0)) xx))) as Heq.
    rewrite Heq, Hrev, rev_involutive, !map_app. cbn [map].
    rewrite <- app_assoc. reflexivity.
  - (* [0+] *)
    unfold orders. rewrite map_ford_erase, HN1, Ho1. cbn [map erase dump ford fst].
    rewrite <- map_ford_erase, orders_forw_prefix by lia.
    change (phys (copy_frame 0 (dump idump DSecond f11))) with (phys f11).
    rewrite <- Hb1 in *. rewrite HF0m2. f_equal.
    apply stops_at_fcross in HST1. rewrite orders_forw_prefix in HST1 by lia.
    change (phys (copy_frame 0 (dump idump DSecond f11))) with (phys f11) in HST1.
    assert (Hsplit : f11 :: tl1 = mid1 ++ [fz]).
    { rewrite Ho1 in Hsb. injection Hsb as _ Hsb. exact Hsb. }
    assert (Hold : fcross (e_i0 e1) (e_i2 e1) (map ord (traj (S (length tl1)) (phys f11)))).
    { cbn [SwapM.traj map]. rewrite <- Hfb1, <- Hfbt. change (ford f11 :: map ford tl1) with (map ford (f11 :: tl1)).
      rewrite Hsplit, map_app. exists (map ford mid1), (ford fz). split; [reflexivity|]. split; [|exact Hcz].
      intros o Ho. apply in_map_iff in Ho as (f & <- & Hf). apply (Hmb _ Hf). }
    pose proof (fcross_comparable_eq _ _ _ _ HST1 Hold
                  (comparable_map ord _ _ (traj_comparable K1 (S (length tl1)) (phys f11)))) as Heq.
    rewrite Heq. cbn [SwapM.traj map]. rewrite <- Hfb1, <- Hfbt. reflexivity.
Qed.

(* ---- the swap back is accepted *)

Lemma fcross_stops_at l r s k :
  (k <= length s)%nat -> fcross l r (map ford (firstn k s)) -> stops_at l r s k.
Proof.
  intros Hk (pre & c & E & Hpre & Hc).
  assert (Hlen : length (firstn k s) = k) by (rewrite firstn_length; lia).
  assert (Hk1 : (1 <= k)%nat).
  { apply (f_equal (@length Z)) in E. rewrite map_length, Hlen, app_length in E. cbn in E. lia. }
  pose proof (firstn_skipn (k - 1) (firstn k s)) as Hsp. rewrite firstn_firstn in Hsp.
  replace (Nat.min (k - 1) k) with (k - 1)%nat in Hsp by lia.
  assert (Hlsk : length (skipn (k - 1) (firstn k s)) = 1%nat) by (rewrite skipn_length, Hlen; lia).
  destruct (skipn (k - 1) (firstn k s)) as [|lastf [|]] eqn:Esk; try discriminate. clear Hlsk.
  rewrite <- Hsp, map_app in E. cbn [map] in E. apply app_inj_tail in E as [E1 E2].
  split; [exact Hk1|]. split.
  - intros f Hf. rewrite crossedb_z. apply Hpre. rewrite <- E1. apply in_map. exact Hf.
  - exists lastf. split; [|rewrite crossedb_z, E2; exact Hc].
    assert (Hn : nth_error (firstn k s) (k - 1) = Some lastf).
    { rewrite <- Hsp. rewrite nth_error_app2 by (rewrite firstn_length; lia).
      rewrite firstn_length. replace (k - 1 - Nat.min (k - 1) (length s))%nat with 0%nat by lia. reflexivity. }
    rewrite <- (firstn_skipn k s), nth_error_app1 by lia. exact Hn.
Qed.

(* valid old paths: shape of the stop rule plus the sides the ensembles prescribe *)
Definition minus_valid (e : ens) (p : path) : Prop :=
  exists fa mid fl, pts p = fa :: mid ++ [fl] /\ mid <> [] /\ crossedb (e_i0 e) (e_i2 e) fa = true /\
    (e_scL e = false -> e_i2 e < ford fa) /\
    (forall f, In f mid -> crossedb (e_i0 e) (e_i2 e) f = false) /\ e_i2 e <= ford fl.
Definition plus_valid (e : ens) (p : path) : Prop :=
  exists fb mid fz, pts p = fb :: mid ++ [fz] /\ mid <> [] /\ crossedb (e_i0 e) (e_i2 e) fz = true /\
    (forall f, In f mid -> crossedb (e_i0 e) (e_i2 e) f = false).

Lemma minus_valid_shape e p : minus_valid e p -> minus_shape e p.
Proof. intros (fa & mid & fl & H1 & _ & H2 & _ & H3 & _). exists fa, mid, fl. auto. Qed.
Lemma plus_valid_shape e p : plus_valid e p -> plus_shape e p.
Proof. intros (fb & mid & fz & H1 & _ & H2 & H3). exists fb, mid, fz. auto. Qed.

Lemma has_L_false p e a mid b :
  e_i0 e <= e_i1 e <= e_i2 e -> orders p = a :: mid ++ [b] -> e_i0 e < a -> e_i0 e < b ->
  has_L_start_end p e = false.
Proof.
  intros Hio Ho Ha Hb. unfold has_L_start_end, check_interfaces, ordermin, ordermax, intf_of. rewrite Ho.
  destruct (argmin_from a 0 1 (mid ++ [b])) as [omin imin]. destruct (argmax_from a 0 1 (mid ++ [b])) as [omax imax].
  rewrite zmin3, zmax3 by exact Hio. cbn [ci_start ci_end].
  unfold start_point, end_point. rewrite Ho. destruct (Z.ltb_spec (e_i2 e) (e_i0 e)); [lia|].
  change (a :: mid ++ [b]) with ((a :: mid) ++ [b]). rewrite rev_app_distr. cbn [rev app].
  unfold classify. destruct (Z.leb_spec a (e_i0 e)); [lia|]. destruct (Z.leb_spec b (e_i0 e)); [lia|].
  destruct (e_i2 e <=? a); destruct (e_i2 e <=? b); reflexivity.
Qed.

Theorem swap_back_accepted n e0 e1 old0 old1 a0 b0 new0 new1 st calls nd :
  phys_path a0 (sp_path old0) -> phys_path b0 (sp_path old1) ->
  minus_valid e0 (sp_path old0) -> plus_valid e1 (sp_path old1) ->
  (plen (sp_path old0) < e_maxlen e0)%nat -> (plen (sp_path old1) < e_maxlen e1)%nat ->
  (plen (sp_path old0) - 1 <= n)%nat -> (plen (sp_path old1) - 1 <= n)%nat ->
  e_i0 e0 <= e_i1 e0 <= e_i2 e0 -> e_i0 e0 < e_i2 e0 -> e_i2 e0 = e_i0 e1 ->
  is_wf (e_move e0) || is_wf (e_move e1) = false ->
  det_retis n e0 e1 old0 old1 = Out true new0 new1 st calls nd ->
  exists new0' new1' calls', det_retis n e0 e1 new0 new1 = Out true new0' new1' ACC calls' 0.
Proof.
  intros [Hpa Hoa] [Hpb Hob] (fa & mid0 & fl & Hsa & Hmid0 & Hca & HscL & Hma & Hfl)
         (fb & mid1 & fz & Hsb & Hmid1 & Hcz & Hmb) Hlen0 Hlen1 Hn0' Hn1' Hio Hlt Hlam Hwf D1.
  apply det_retis_shape in D1.
  destruct D1 as (f10 & f11 & tl1 & pre0 & f0m2 & f0l & k0 & k1 & Ho1 & Ho0 & Hn0 & Hn1 & Hk0 & _ & _ & Hk1 & _).
  (* the old [0-] path in terms of the dynamics *)
  unfold plen in *. unfold orders in Hoa, Hob.
  rewrite Ho0 in Hpa, Hoa, Hlen0, Hn0'. rewrite app_length in Hpa, Hoa, Hlen0, Hn0'. cbn [length] in Hpa, Hoa, Hlen0, Hn0'.
  rewrite traj_app in Hpa, Hoa. cbn [SwapM.traj] in Hpa, Hoa. rewrite !map_app in Hpa. rewrite !map_app in Hoa. cbn [map] in Hpa, Hoa.
  set (xx := itn T (length pre0) a0) in *.
  apply app_eq_len in Hpa as [Hpa1 Hpa2]; [|rewrite map_length, traj_length; reflexivity].
  apply app_eq_len in Hoa as [Hoa1 Hoa2]; [|rewrite !map_length, traj_length; reflexivity].
  injection Hpa2 as Hx Hx'. injection Hoa2 as Hfx Hfx'.
  rewrite Ho1 in Hpb, Hob, Hlen1, Hn1'. cbn [length SwapM.traj map] in Hpb, Hob, Hlen1, Hn1'.
  injection Hpb as Hb0 Hb1 Hbt. injection Hob as Hfb0 Hfb1 Hfbt.
  assert (Hsplit0 : pre0 ++ [f0m2] = fa :: mid0 /\ f0l = fl).
  { rewrite Ho0 in Hsa. change (pre0 ++ [f0m2; f0l]) with (pre0 ++ [f0m2] ++ [f0l]) in Hsa.
    rewrite app_assoc in Hsa. change (fa :: mid0 ++ [fl]) with ((fa :: mid0) ++ [fl]) in Hsa.
    apply app_inj_tail in Hsa. exact Hsa. }
  destruct Hsplit0 as [Hsplit0 ->].
  assert (Hsplit1 : f10 = fb /\ f11 :: tl1 = mid1 ++ [fz]).
  { rewrite Ho1 in Hsb. injection Hsb as -> Hsb. auto. }
  destruct Hsplit1 as [-> Hsplit1].
  assert (Hf11 : e_i2 e0 <= ford f11).
  { destruct mid1 as [|m1 mid1]; [congruence|]. injection Hsplit1 as -> _.
    specialize (Hmb m1 (or_introl eq_refl)). apply crossedb_false in Hmb. lia. }
  (* frames of the intermediate paths *)
  destruct (pts (sp_path new1)) as [|F10 [|F11 TL1]] eqn:HO1; [discriminate| |].
  { exfalso. apply (f_equal (@length (Z * Z * bool))) in Hn1. cbn [map length] in Hn1.
    rewrite map_length, firstn_length, stream_length in Hn1. lia. }
  assert (HF10 : phys F10 = xx).
  { pose proof (f_equal (map physE) Hn1) as E1. cbn [map] in E1. injection E1 as E1 _.
    change (phys F10 = phys f0m2) in E1. congruence. }
  destruct k0 as [|k0]; [lia|].
  pose proof (orders_back_prefix n (copy_frame 0 fb) (S k0) ltac:(lia)) as Eg0.
  destruct (det_stream n (copy_frame 0 fb) true) as [|g0 r0] eqn:Es0; [cbn in Eg0; discriminate|].
  cbn [firstn rev] in Hn0. rewrite <- app_assoc in Hn0. cbn [app] in Hn0.
  set (PRE0 := rev (firstn k0 r0)) in *.
  (* orders of the streams of the second swap *)
  assert (Hrev : map ord (itraj (S (length pre0)) xx) = rev (map ford (fa :: mid0))).
  { rewrite <- Hsplit0. unfold xx. rewrite itraj_rev, map_rev. f_equal.
    replace (S (length pre0)) with (length pre0 + 1)%nat by lia. rewrite traj_app. cbn [SwapM.traj]. fold xx.
    rewrite !map_app. cbn [map]. rewrite <- Hoa1, <- Hfx. reflexivity. }
  assert (HS0 : stops_at (e_i0 e0) (e_i2 e0) (det_stream n (copy_frame 0 F10) true) (S (length pre0))).
  { apply fcross_stops_at; [rewrite stream_length; lia|].
    rewrite orders_back_prefix by lia. change (phys (copy_frame 0 F10)) with (phys F10). rewrite HF10, Hrev.
    cbn [map rev]. exists (rev (map ford mid0)), (ford fa). split; [reflexivity|]. split; [|exact Hca].
    intros o Ho. apply in_rev, in_map_iff in Ho as (f & <- & Hf). apply (Hma _ Hf). }
  assert (HS1 : stops_at (e_i0 e1) (e_i2 e1) (det_stream n (copy_frame 0 (dump idump DSecond f11)) false) (S (length tl1))).
  { apply fcross_stops_at; [rewrite stream_length; lia|].
    rewrite orders_forw_prefix by lia. change (phys (copy_frame 0 (dump idump DSecond f11))) with (phys f11).
    rewrite Hb1. cbn [SwapM.traj map]. rewrite <- Hfb1, <- Hfbt.
    change (ford f11 :: map ford tl1) with (map ford (f11 :: tl1)). rewrite Hsplit1, map_app.
    exists (map ford mid1), (ford fz). split; [reflexivity|]. split; [|exact Hcz].
    intros o Ho. apply in_map_iff in Ho as (f & <- & Hf). apply (Hmb _ Hf). }
  assert (Hlenm0 : length (fa :: mid0) = S (length pre0)).
  { rewrite <- Hsplit0, app_length. cbn. lia. }
  assert (Hmid0len : (1 <= length mid0)%nat) by (destruct mid0; [congruence|cbn; lia]).
  cbn [length] in Hlenm0.
  assert (Htl1 : (1 <= length tl1)%nat).
  { apply (f_equal (@length frame)) in Hsplit1. rewrite app_length in Hsplit1. cbn [length] in Hsplit1.
    destruct mid1; [congruence|]. cbn [length] in Hsplit1. lia. }
  (* the second swap *)
  assert (Hio0 : orders (sp_path new0) = map ford PRE0 ++ [ford g0; ford f11]).
  { unfold orders. rewrite Hn0, map_app. reflexivity. }
  destruct (retis_swap_complete idump e0 e1 new0 new1
              (det_stream n (copy_frame 0 F10) true) (det_stream n (copy_frame 0 (dump idump DSecond f11)) false) [] []
              F10 F11 TL1 PRE0 g0 (dump idump DSecond f11) (S (length pre0)) (S (length tl1)))
    as (path1 & _ & _ & _ & Hres); try assumption; try lia.
  - unfold end_point. rewrite Hio0. destruct (Z.ltb_spec (e_i2 e0) (e_i0 e0)); [lia|].
    rewrite rev_app_distr. cbn [rev app]. unfold classify.
    destruct (Z.leb_spec (ford f11) (e_i0 e0)); [lia|]. destruct (Z.leb_spec (e_i2 e0) (ford f11)); [reflexivity|lia].
  - destruct (lm1_early e0 (sp_path new0)) eqn:El; [|reflexivity].
    apply (lm1_early_spec _ _ Hio) in El as (_ & _ & pre & o & E & Ho). rewrite Hio0 in E.
    change (map ford PRE0 ++ [ford g0; ford f11]) with (map ford PRE0 ++ [ford g0] ++ [ford f11]) in E.
    rewrite app_assoc in E. apply app_inj_tail in E as [_ E]. lia.
  - intros HL. eapply (has_L_false _ _ (ford fa) (map ford mid0) (ford F11) Hio).
    + unfold orders. cbn [pts]. rewrite map_app, map_rev, orders_back_prefix by lia.
      change (phys (copy_frame 0 F10)) with (phys F10). rewrite HF10, Hrev, rev_involutive. reflexivity.
    + specialize (HscL HL). lia.
    + pose proof (f_equal (map (fun e : Z * Z * bool => fst (fst e))) Hn1) as E2.
      cbn [map] in E2. rewrite <- !map_ford_erase in E2. rewrite orders_forw_prefix in E2 by lia.
      destruct k1 as [|k1]; [lia|]. cbn [SwapM.traj map] in E2. injection E2 as _ E2 _.
      change (phys (copy_frame 0 fl)) with (phys fl) in E2. rewrite E2, Hx', <- Hfx'. lia.
  - unfold SwapM.det_retis. unfold first_frame, last_frame. rewrite HO1, Hn0.
    change (PRE0 ++ [g0; dump idump DSecond f11]) with (PRE0 ++ [g0] ++ [dump idump DSecond f11]).
    rewrite app_assoc, rev_app_distr. cbn [rev app nth_error].
    eexists _, _, _. exact Hres.
Qed.

(* both together: under the hypotheses above, swapping twice is the identity on the order sequences *)
Theorem swap_twice_restores n e0 e1 old0 old1 a0 b0 new0 new1 st calls nd :
  phys_path a0 (sp_path old0) -> phys_path b0 (sp_path old1) ->
  minus_valid e0 (sp_path old0) -> plus_valid e1 (sp_path old1) ->
  (plen (sp_path old0) < e_maxlen e0)%nat -> (plen (sp_path old1) < e_maxlen e1)%nat ->
  (plen (sp_path old0) - 1 <= n)%nat -> (plen (sp_path old1) - 1 <= n)%nat ->
  e_i0 e0 <= e_i1 e0 <= e_i2 e0 -> e_i0 e0 < e_i2 e0 -> e_i2 e0 = e_i0 e1 ->
  is_wf (e_move e0) || is_wf (e_move e1) = false ->
  det_retis n e0 e1 old0 old1 = Out true new0 new1 st calls nd ->
  exists new0' new1' calls',
    det_retis n e0 e1 new0 new1 = Out true new0' new1' ACC calls' 0 /\
    orders (sp_path new0') = orders (sp_path old0) /\ orders (sp_path new1') = orders (sp_path old1).
Proof.
  intros Ha Hb Hm Hp H1 H2 H3 H4 H5 H6 H7 H8 D1.
  destruct (swap_back_accepted n e0 e1 old0 old1 a0 b0 new0 new1 st calls nd Ha Hb Hm Hp H1 H2 H3 H4 H5 H6 H7 H8 D1)
    as (new0' & new1' & calls' & D2).
  exists new0', new1', calls'. split; [exact D2|].
  eapply swap_twice_id; try eassumption; [apply minus_valid_shape|apply plus_valid_shape]; assumption.
Qed.

End Rev.

(* ================================================================== two different engines *)
(* [0-] driven by (T0, R0), [0+] by (T1, R1): both deterministic and time-reversible, over the
   same phase space, configurations and order parameter (see SwapM.Reversible2).  The lemmas of
   section Rev are used once per engine. *)
Section Rev2.
Variable X : Type.
Variable T0 R0 T1 R1 : X -> X.
Variable ord : X -> Z.
Variable enc : X -> Z.
Variable dec : Z -> X.
Hypothesis HRR0 : forall x, R0 (R0 x) = x.
Hypothesis HRT0 : forall x, R0 (T0 (R0 (T0 x))) = x.
Hypothesis Hord0 : forall x, ord (R0 x) = ord x.
Hypothesis HRR1 : forall x, R1 (R1 x) = x.
Hypothesis HRT1 : forall x, R1 (T1 (R1 (T1 x))) = x.
Hypothesis Hord1 : forall x, ord (R1 x) = ord x.
Hypothesis Hdec : forall x, dec (enc x) = x.

Notation traj0 := (traj X T0).
Notation traj1 := (traj X T1).
Notation itraj0 := (itraj X T0 R0).
Notation phys0 := (phys X R0 dec).
Notation phys1 := (phys X R1 dec).
Notation stream0 := (det_stream X T0 R0 ord enc dec).
Notation stream1 := (det_stream X T1 R1 ord enc dec).
Notation det_retis2 := (det_retis2 X T0 R0 T1 R1 ord enc dec).
Notation eng_stream := (eng_stream X T0 R0 T1 R1 ord enc dec).

Lemma eng_stream_E0 n f rv : eng_stream E0 n f rv = stream0 n f rv.
Proof. reflexivity. Qed.
Lemma eng_stream_E1 n f rv : eng_stream E1 n f rv = stream1 n f rv.
Proof. reflexivity. Qed.

(* the order parameter of the state a frame stands for does not depend on which engine reads it *)
Lemma ord_phys0 f : ord (phys0 f) = ord (dec (ftag f)).
Proof. unfold SwapM.phys. destruct (frev f); [apply Hord0|reflexivity]. Qed.
Lemma ord_phys1 f : ord (phys1 f) = ord (dec (ftag f)).
Proof. unfold SwapM.phys. destruct (frev f); [apply Hord1|reflexivity]. Qed.
Lemma ord_phys_10 f : ord (phys1 f) = ord (phys0 f).
Proof. rewrite ord_phys0, ord_phys1. reflexivity. Qed.

Lemma obp0 n f k : (k <= n)%nat ->
  map ford (firstn k (stream0 n f true)) = map ord (itraj0 k (phys0 f)).
Proof. apply (orders_back_prefix X T0 R0 ord enc dec HRR0 Hord0 Hdec). Qed.
Lemma ofp1 n f k : (k <= n)%nat ->
  map ford (firstn k (stream1 n f false)) = map ord (traj1 k (phys1 f)).
Proof. apply (orders_forw_prefix X T1 R1 ord enc dec Hord1 Hdec). Qed.

Lemma det_retis2_shape n e0 e1 old0 old1 new0 new1 st calls nd :
  det_retis2 n e0 e1 old0 old1 = Out true new0 new1 st calls nd ->
  exists f10 f11 tl1 pre0 f0m2 f0l k0 k1,
    pts (sp_path old1) = f10 :: f11 :: tl1 /\ pts (sp_path old0) = pre0 ++ [f0m2; f0l] /\
    pts (sp_path new0) = rev (firstn k0 (stream0 n (copy_frame 0 f10) true)) ++ [dump idump DSecond f11] /\
    map erase (pts (sp_path new1)) =
      erase (dump idump DSecondLast f0m2) :: map erase (firstn k1 (stream1 n (copy_frame 0 f0l) false)) /\
    (2 <= k0 <= n)%nat /\ (k0 + 1 < e_maxlen e0)%nat /\
    stops_at (e_i0 e0) (e_i2 e0) (stream0 n (copy_frame 0 f10) true) k0 /\
    (2 <= k1 <= n)%nat /\ stops_at (e_i0 e1) (e_i2 e1) (stream1 n (copy_frame 0 f0l) false) k1 /\
    calls = [mkCall E0 (copy_frame 0 f10) true (e_i0 e0) (e_i2 e0) (e_maxlen e0 - 1) k0;
             mkCall E1 (copy_frame 0 f0l) false (e_i0 e1) (e_i2 e1) (e_maxlen e1 - 1) k1].
Proof.
  unfold SwapM.det_retis2.
  destruct (first_frame (sp_path old1)) as [f|] eqn:Ef; [|discriminate].
  destruct (last_frame (sp_path old0)) as [g|] eqn:Eg; [|discriminate].
  rewrite eng_stream_E0, eng_stream_E1.
  intros H. apply retis_acc_struct in H as (_ & _ & _ & Hsh).
  destruct Hsh as (f10 & f11 & tl1 & pre0 & f0m2 & f0l & s0 & s1 & rest & k0 & k1 & Ho1 & Ho0 & Hs & Hp0 & _ & _ & Hp1 & _ & _ &
          Hk0 & Hk0m & Hstop0 & Hk1 & _ & Hstop1 & _ & _ & _ & Hc).
  unfold first_frame in Ef. rewrite Ho1 in Ef. injection Ef as <-.
  unfold last_frame in Eg. rewrite Ho0, rev_app_distr in Eg. injection Eg as <-.
  injection Hs as <- <- _.
  rewrite stream_length in Hk0, Hk1.
  exists f10, f11, tl1, pre0, f0m2, f0l, k0, k1.
  split; [exact Ho1|]. split; [exact Ho0|]. split; [exact Hp0|]. split; [exact Hp1|]. split; [lia|].
  split; [exact Hk0m|]. split; [exact Hstop0|]. split; [lia|]. split; [exact Hstop1|exact Hc].
Qed.

(* which engine is called for which run, and that the streams det_retis2 hands to the model are
   the answers of exactly those engines *)
Theorem det_retis2_engines n e0 e1 old0 old1 new0 new1 st calls nd :
  det_retis2 n e0 e1 old0 old1 = Out true new0 new1 st calls nd ->
  exists f10 f0l,
    first_frame (sp_path old1) = Some f10 /\ last_frame (sp_path old0) = Some f0l /\
    map c_eng calls = [E0; E1] /\ map c_rev calls = [true; false] /\
    map c_init calls = [copy_frame 0 f10; copy_frame 0 f0l] /\
    streams_of_engines X T0 R0 T1 R1 ord enc dec n
      [eng_stream E0 n (copy_frame 0 f10) true; eng_stream E1 n (copy_frame 0 f0l) false] calls.
Proof.
  intros D. apply det_retis2_shape in D.
  destruct D as (f10 & f11 & tl1 & pre0 & f0m2 & f0l & k0 & k1 & Ho1 & Ho0 & _ & _ & _ & _ & _ & _ & _ & ->).
  exists f10, f0l. unfold first_frame, last_frame. rewrite Ho1, Ho0, rev_app_distr.
  split; [reflexivity|]. split; [reflexivity|]. split; [reflexivity|]. split; [reflexivity|]. split; [reflexivity|].
  intros [|[|k]] c s Hc Hs; cbn in Hc, Hs; try (destruct k; discriminate);
    injection Hc as <-; injection Hs as <-; reflexivity.
Qed.

(* which dynamics generates which segment: apart from the shared frame old[0+][1] at its end, the
   new [0-] path is the backward trajectory of the [0-] engine (T0^-1 iterated) from the state of
   old[0+][0]; apart from the shared frame old[0-][-2] at its start, the new [0+] path is the
   forward trajectory of the [0+] engine (T1 iterated) from the state of old[0-][-1] *)
Theorem det_retis2_segments n e0 e1 old0 old1 new0 new1 st calls nd :
  det_retis2 n e0 e1 old0 old1 = Out true new0 new1 st calls nd ->
  exists f10 f11 tl1 pre0 f0m2 f0l k0 k1,
    pts (sp_path old1) = f10 :: f11 :: tl1 /\ pts (sp_path old0) = pre0 ++ [f0m2; f0l] /\
    map c_eng calls = [E0; E1] /\ map c_used calls = [k0; k1] /\
    orders (sp_path new0) = rev (map ord (itraj0 k0 (phys0 f10))) ++ [ford f11] /\
    orders (sp_path new1) = ford f0m2 :: map ord (traj1 k1 (phys1 f0l)).
Proof.
  intros D. apply det_retis2_shape in D.
  destruct D as (f10 & f11 & tl1 & pre0 & f0m2 & f0l & k0 & k1 & Ho1 & Ho0 & Hn0 & Hn1 & Hk0 & _ & _ & Hk1 & _ & ->).
  exists f10, f11, tl1, pre0, f0m2, f0l, k0, k1.
  split; [exact Ho1|]. split; [exact Ho0|]. split; [reflexivity|]. split; [reflexivity|]. split.
  - unfold orders. rewrite Hn0, map_app, map_rev, obp0 by lia. reflexivity.
  - unfold orders. rewrite map_ford_erase, Hn1. cbn [map erase dump ford fst].
    rewrite <- map_ford_erase, ofp1 by lia. reflexivity.
Qed.

Theorem swap_twice_id2 n e0 e1 old0 old1 a0 b0 new0 new1 st calls nd new0' new1' st' calls' nd' :
  phys_path X T0 R0 ord dec a0 (sp_path old0) -> phys_path X T1 R1 ord dec b0 (sp_path old1) ->
  minus_shape e0 (sp_path old0) -> plus_shape e1 (sp_path old1) ->
  det_retis2 n e0 e1 old0 old1 = Out true new0 new1 st calls nd ->
  det_retis2 n e0 e1 new0 new1 = Out true new0' new1' st' calls' nd' ->
  orders (sp_path new0') = orders (sp_path old0) /\ orders (sp_path new1') = orders (sp_path old1).
Proof.
  intros [Hpa Hoa] [Hpb Hob] (fa & mid0 & fl & Hsa & Hca & Hma) (fb & mid1 & fz & Hsb & Hcz & Hmb) D1 D2.
  apply det_retis2_shape in D1.
  destruct D1 as (f10 & f11 & tl1 & pre0 & f0m2 & f0l & k0 & k1 & Ho1 & Ho0 & Hn0 & Hn1 & Hk0 & _ & _ & Hk1 & _).
  apply det_retis2_shape in D2.
  destruct D2 as (F10 & F11 & TL1 & PRE0 & F0m2 & F0l & K0 & K1 & HO1 & HO0 & HN0 & HN1 & HK0 & HK0m & HST0 & HK1 & HST1 & _).
  (* the old [0-] path in terms of the [0-] dynamics *)
  unfold plen in Hpa, Hoa, Hpb, Hob. unfold orders in Hoa, Hob.
  rewrite Ho0 in Hpa, Hoa. rewrite app_length in Hpa, Hoa. cbn [length] in Hpa, Hoa.
  rewrite traj_app in Hpa, Hoa. cbn [SwapM.traj] in Hpa, Hoa. rewrite !map_app in Hpa. rewrite !map_app in Hoa. cbn [map] in Hpa, Hoa.
  set (xx := itn X T0 (length pre0) a0) in *.
  apply app_eq_len in Hpa as [Hpa1 Hpa2]; [|rewrite map_length, traj_length; reflexivity].
  apply app_eq_len in Hoa as [Hoa1 Hoa2]; [|rewrite !map_length, traj_length; reflexivity].
  injection Hpa2 as Hx Hx'. injection Hoa2 as Hfx Hfx'.
  (* the old [0+] path in terms of the [0+] dynamics *)
  rewrite Ho1 in Hpb, Hob. cbn [length SwapM.traj map] in Hpb, Hob.
  injection Hpb as Hb0 Hb1 Hbt. injection Hob as Hfb0 Hfb1 Hfbt.
  (* junction frames of the intermediate paths *)
  assert (HF10 : phys0 F10 = xx /\ ford F11 = ford f0l).
  { pose proof (f_equal (map (physE X R0 dec)) Hn1) as E1. rewrite <- map_phys_erase, HO1 in E1. cbn [map] in E1.
    injection E1 as E1 _. change (phys0 F10 = phys0 f0m2) in E1. split; [congruence|].
    pose proof (f_equal (map (fun e : Z * Z * bool => fst (fst e))) Hn1) as E2.
    rewrite HO1 in E2. cbn [map] in E2. rewrite <- !map_ford_erase in E2. rewrite ofp1 in E2 by lia.
    destruct k1 as [|k1]; [lia|]. cbn [SwapM.traj map] in E2. injection E2 as _ E2 _.
    change (phys1 (copy_frame 0 f0l)) with (phys1 f0l) in E2. rewrite E2, Hfx', <- Hx'. apply ord_phys_10. }
  destruct HF10 as [HF10 HF11].
  assert (HF0 : F0l = dump idump DSecond f11 /\ ford F0m2 = ford f10).
  { rewrite HO0 in Hn0. destruct k0 as [|k0]; [lia|].
    pose proof (obp0 n (copy_frame 0 f10) (S k0) ltac:(lia)) as E.
    destruct (stream0 n (copy_frame 0 f10) true) as [|g0 r0]; [cbn in E; discriminate|].
    cbn [firstn rev itraj map] in Hn0, E. injection E as E _.
    change (PRE0 ++ [F0m2; F0l]) with (PRE0 ++ [F0m2] ++ [F0l]) in Hn0. rewrite app_assoc in Hn0.
    apply app_inj_tail in Hn0 as [Hn0 ->]. apply app_inj_tail in Hn0 as [_ ->]. split; [reflexivity|].
    rewrite E. change (phys0 (copy_frame 0 f10)) with (phys0 f10). rewrite Hfb0, <- Hb0. symmetry. apply ord_phys_10. }
  destruct HF0 as [-> HF0m2].
  split.
  - (* [0-]: all [0-] dynamics *)
    unfold orders. rewrite HN0, Ho0, map_app, map_rev. cbn [map dump ford].
    rewrite obp0 by lia. change (phys0 (copy_frame 0 F10)) with (phys0 F10). rewrite HF10, HF11.
    pose proof HST0 as Hst.
    apply stops_at_fcross in Hst. rewrite obp0 in Hst by lia.
    change (phys0 (copy_frame 0 F10)) with (phys0 F10) in Hst. rewrite HF10 in Hst.
    assert (Hsplit : pre0 ++ [f0m2] = fa :: mid0 /\ f0l = fl).
    { rewrite Ho0 in Hsa. change (pre0 ++ [f0m2; f0l]) with (pre0 ++ [f0m2] ++ [f0l]) in Hsa.
      rewrite app_assoc in Hsa. change (fa :: mid0 ++ [fl]) with ((fa :: mid0) ++ [fl]) in Hsa.
      apply app_inj_tail in Hsa. exact Hsa. }
    destruct Hsplit as [Hsplit _].
    assert (Hrev : map ord (itraj0 (S (length pre0)) xx) = rev (map ford (pre0 ++ [f0m2]))).
    { unfold xx. rewrite (itraj_rev X T0 R0 HRT0), map_rev. f_equal.
      replace (S (length pre0)) with (length pre0 + 1)%nat by lia. rewrite traj_app. cbn [SwapM.traj]. fold xx.
      rewrite !map_app. cbn [map]. rewrite <- Hoa1, <- Hfx. reflexivity. }
    assert (Hold : fcross (e_i0 e0) (e_i2 e0) (map ord (itraj0 (S (length pre0)) xx))).
    { rewrite Hrev, Hsplit. cbn [map rev]. exists (rev (map ford mid0)), (ford fa).
      split; [reflexivity|]. split; [|exact Hca].
      intros o Ho. apply in_rev, in_map_iff in Ho as (f & <- & Hf). apply (Hma _ Hf). }
    pose proof (fcross_comparable_eq _ _ _ _ Hst Hold
                  (comparable_map ord _ _ (itraj_comparable X T0 R0 K0 (S (length pre0)) xx))) as Heq.
    rewrite Heq, Hrev, rev_involutive, !map_app. cbn [map].
    rewrite <- app_assoc. reflexivity.
  - (* [0+]: all [0+] dynamics *)
    unfold orders. rewrite map_ford_erase, HN1, Ho1. cbn [map erase dump ford fst].
    rewrite <- map_ford_erase, ofp1 by lia.
    change (phys1 (copy_frame 0 (dump idump DSecond f11))) with (phys1 f11).
    rewrite <- Hb1 in *. rewrite HF0m2. f_equal.
    apply stops_at_fcross in HST1. rewrite ofp1 in HST1 by lia.
    change (phys1 (copy_frame 0 (dump idump DSecond f11))) with (phys1 f11) in HST1.
    assert (Hsplit : f11 :: tl1 = mid1 ++ [fz]).
    { rewrite Ho1 in Hsb. injection Hsb as _ Hsb. exact Hsb. }
    assert (Hold : fcross (e_i0 e1) (e_i2 e1) (map ord (traj1 (S (length tl1)) (phys1 f11)))).
    { cbn [SwapM.traj map]. rewrite <- Hfb1, <- Hfbt. change (ford f11 :: map ford tl1) with (map ford (f11 :: tl1)).
      rewrite Hsplit, map_app. exists (map ford mid1), (ford fz). split; [reflexivity|]. split; [|exact Hcz].
      intros o Ho. apply in_map_iff in Ho as (f & <- & Hf). apply (Hmb _ Hf). }
    pose proof (fcross_comparable_eq _ _ _ _ HST1 Hold
                  (comparable_map ord _ _ (traj_comparable X T1 K1 (S (length tl1)) (phys1 f11)))) as Heq.
    rewrite Heq. cbn [SwapM.traj map]. rewrite <- Hfb1, <- Hfbt. reflexivity.
Qed.

Theorem swap_back_accepted2 n e0 e1 old0 old1 a0 b0 new0 new1 st calls nd :
  phys_path X T0 R0 ord dec a0 (sp_path old0) -> phys_path X T1 R1 ord dec b0 (sp_path old1) ->
  minus_valid e0 (sp_path old0) -> plus_valid e1 (sp_path old1) ->
  (plen (sp_path old0) < e_maxlen e0)%nat -> (plen (sp_path old1) < e_maxlen e1)%nat ->
  (plen (sp_path old0) - 1 <= n)%nat -> (plen (sp_path old1) - 1 <= n)%nat ->
  e_i0 e0 <= e_i1 e0 <= e_i2 e0 -> e_i0 e0 < e_i2 e0 -> e_i2 e0 = e_i0 e1 ->
  is_wf (e_move e0) || is_wf (e_move e1) = false ->
  det_retis2 n e0 e1 old0 old1 = Out true new0 new1 st calls nd ->
  exists new0' new1' calls', det_retis2 n e0 e1 new0 new1 = Out true new0' new1' ACC calls' 0.
Proof.
  intros [Hpa Hoa] [Hpb Hob] (fa & mid0 & fl & Hsa & Hmid0 & Hca & HscL & Hma & Hfl)
         (fb & mid1 & fz & Hsb & Hmid1 & Hcz & Hmb) Hlen0 Hlen1 Hn0' Hn1' Hio Hlt Hlam Hwf D1.
  apply det_retis2_shape in D1.
  destruct D1 as (f10 & f11 & tl1 & pre0 & f0m2 & f0l & k0 & k1 & Ho1 & Ho0 & Hn0 & Hn1 & Hk0 & _ & _ & Hk1 & _).
  unfold plen in *. unfold orders in Hoa, Hob.
  rewrite Ho0 in Hpa, Hoa, Hlen0, Hn0'. rewrite app_length in Hpa, Hoa, Hlen0, Hn0'. cbn [length] in Hpa, Hoa, Hlen0, Hn0'.
  rewrite traj_app in Hpa, Hoa. cbn [SwapM.traj] in Hpa, Hoa. rewrite !map_app in Hpa. rewrite !map_app in Hoa. cbn [map] in Hpa, Hoa.
  set (xx := itn X T0 (length pre0) a0) in *.
  apply app_eq_len in Hpa as [Hpa1 Hpa2]; [|rewrite map_length, traj_length; reflexivity].
  apply app_eq_len in Hoa as [Hoa1 Hoa2]; [|rewrite !map_length, traj_length; reflexivity].
  injection Hpa2 as Hx Hx'. injection Hoa2 as Hfx Hfx'.
  rewrite Ho1 in Hpb, Hob, Hlen1, Hn1'. cbn [length SwapM.traj map] in Hpb, Hob, Hlen1, Hn1'.
  injection Hpb as Hb0 Hb1 Hbt. injection Hob as Hfb0 Hfb1 Hfbt.
  assert (Hsplit0 : pre0 ++ [f0m2] = fa :: mid0 /\ f0l = fl).
  { rewrite Ho0 in Hsa. change (pre0 ++ [f0m2; f0l]) with (pre0 ++ [f0m2] ++ [f0l]) in Hsa.
    rewrite app_assoc in Hsa. change (fa :: mid0 ++ [fl]) with ((fa :: mid0) ++ [fl]) in Hsa.
    apply app_inj_tail in Hsa. exact Hsa. }
  destruct Hsplit0 as [Hsplit0 ->].
  assert (Hsplit1 : f10 = fb /\ f11 :: tl1 = mid1 ++ [fz]).
  { rewrite Ho1 in Hsb. injection Hsb as -> Hsb. auto. }
  destruct Hsplit1 as [-> Hsplit1].
  assert (Hf11 : e_i2 e0 <= ford f11).
  { destruct mid1 as [|m1 mid1]; [congruence|]. injection Hsplit1 as -> _.
    specialize (Hmb m1 (or_introl eq_refl)). apply crossedb_false in Hmb. lia. }
  (* frames of the intermediate paths *)
  destruct (pts (sp_path new1)) as [|F10 [|F11 TL1]] eqn:HO1; [discriminate| |].
  { exfalso. apply (f_equal (@length (Z * Z * bool))) in Hn1. cbn [map length] in Hn1.
    rewrite map_length, firstn_length, stream_length in Hn1. lia. }
  assert (HF10 : phys0 F10 = xx).
  { pose proof (f_equal (map (physE X R0 dec)) Hn1) as E1. cbn [map] in E1. injection E1 as E1 _.
    change (phys0 F10 = phys0 f0m2) in E1. congruence. }
  destruct k0 as [|k0]; [lia|].
  pose proof (obp0 n (copy_frame 0 fb) (S k0) ltac:(lia)) as Eg0.
  destruct (stream0 n (copy_frame 0 fb) true) as [|g0 r0] eqn:Es0; [cbn in Eg0; discriminate|].
  cbn [firstn rev] in Hn0. rewrite <- app_assoc in Hn0. cbn [app] in Hn0.
  set (PRE0 := rev (firstn k0 r0)) in *.
  (* orders of the streams of the second swap *)
  assert (Hrev : map ord (itraj0 (S (length pre0)) xx) = rev (map ford (fa :: mid0))).
  { rewrite <- Hsplit0. unfold xx. rewrite (itraj_rev X T0 R0 HRT0), map_rev. f_equal.
    replace (S (length pre0)) with (length pre0 + 1)%nat by lia. rewrite traj_app. cbn [SwapM.traj]. fold xx.
    rewrite !map_app. cbn [map]. rewrite <- Hoa1, <- Hfx. reflexivity. }
  assert (HS0 : stops_at (e_i0 e0) (e_i2 e0) (stream0 n (copy_frame 0 F10) true) (S (length pre0))).
  { apply fcross_stops_at; [rewrite stream_length; lia|].
    rewrite obp0 by lia. change (phys0 (copy_frame 0 F10)) with (phys0 F10). rewrite HF10, Hrev.
    cbn [map rev]. exists (rev (map ford mid0)), (ford fa). split; [reflexivity|]. split; [|exact Hca].
    intros o Ho. apply in_rev, in_map_iff in Ho as (f & <- & Hf). apply (Hma _ Hf). }
  assert (HS1 : stops_at (e_i0 e1) (e_i2 e1) (stream1 n (copy_frame 0 (dump idump DSecond f11)) false) (S (length tl1))).
  { apply fcross_stops_at; [rewrite stream_length; lia|].
    rewrite ofp1 by lia. change (phys1 (copy_frame 0 (dump idump DSecond f11))) with (phys1 f11).
    rewrite Hb1. cbn [SwapM.traj map]. rewrite <- Hfb1, <- Hfbt.
    change (ford f11 :: map ford tl1) with (map ford (f11 :: tl1)). rewrite Hsplit1, map_app.
    exists (map ford mid1), (ford fz). split; [reflexivity|]. split; [|exact Hcz].
    intros o Ho. apply in_map_iff in Ho as (f & <- & Hf). apply (Hmb _ Hf). }
  assert (Hlenm0 : length (fa :: mid0) = S (length pre0)).
  { rewrite <- Hsplit0, app_length. cbn. lia. }
  assert (Hmid0len : (1 <= length mid0)%nat) by (destruct mid0; [congruence|cbn; lia]).
  cbn [length] in Hlenm0.
  assert (Htl1 : (1 <= length tl1)%nat).
  { apply (f_equal (@length frame)) in Hsplit1. rewrite app_length in Hsplit1. cbn [length] in Hsplit1.
    destruct mid1; [congruence|]. cbn [length] in Hsplit1. lia. }
  (* the second swap *)
  assert (Hio0 : orders (sp_path new0) = map ford PRE0 ++ [ford g0; ford f11]).
  { unfold orders. rewrite Hn0, map_app. reflexivity. }
  destruct (retis_swap_complete idump e0 e1 new0 new1
              (stream0 n (copy_frame 0 F10) true) (stream1 n (copy_frame 0 (dump idump DSecond f11)) false) [] []
              F10 F11 TL1 PRE0 g0 (dump idump DSecond f11) (S (length pre0)) (S (length tl1)))
    as (path1 & _ & _ & _ & Hres); try assumption; try lia.
  - unfold end_point. rewrite Hio0. destruct (Z.ltb_spec (e_i2 e0) (e_i0 e0)); [lia|].
    rewrite rev_app_distr. cbn [rev app]. unfold classify.
    destruct (Z.leb_spec (ford f11) (e_i0 e0)); [lia|]. destruct (Z.leb_spec (e_i2 e0) (ford f11)); [reflexivity|lia].
  - destruct (lm1_early e0 (sp_path new0)) eqn:El; [|reflexivity].
    apply (lm1_early_spec _ _ Hio) in El as (_ & _ & pre & o & E & Ho). rewrite Hio0 in E.
    change (map ford PRE0 ++ [ford g0; ford f11]) with (map ford PRE0 ++ [ford g0] ++ [ford f11]) in E.
    rewrite app_assoc in E. apply app_inj_tail in E as [_ E]. lia.
  - intros HL. eapply (has_L_false _ _ (ford fa) (map ford mid0) (ford F11) Hio).
    + unfold orders. cbn [pts]. rewrite map_app, map_rev, obp0 by lia.
      change (phys0 (copy_frame 0 F10)) with (phys0 F10). rewrite HF10, Hrev, rev_involutive. reflexivity.
    + specialize (HscL HL). lia.
    + pose proof (f_equal (map (fun e : Z * Z * bool => fst (fst e))) Hn1) as E2.
      cbn [map] in E2. rewrite <- !map_ford_erase in E2. rewrite ofp1 in E2 by lia.
      destruct k1 as [|k1]; [lia|]. cbn [SwapM.traj map] in E2. injection E2 as _ E2 _.
      change (phys1 (copy_frame 0 fl)) with (phys1 fl) in E2. rewrite E2, ord_phys_10, Hx', <- Hfx'. lia.
  - unfold SwapM.det_retis2. unfold first_frame, last_frame. rewrite HO1, Hn0.
    change (PRE0 ++ [g0; dump idump DSecond f11]) with (PRE0 ++ [g0] ++ [dump idump DSecond f11]).
    rewrite app_assoc, rev_app_distr. cbn [rev app nth_error].
    eexists _, _, _. exact Hres.
Qed.

Theorem swap_twice_restores2 n e0 e1 old0 old1 a0 b0 new0 new1 st calls nd :
  phys_path X T0 R0 ord dec a0 (sp_path old0) -> phys_path X T1 R1 ord dec b0 (sp_path old1) ->
  minus_valid e0 (sp_path old0) -> plus_valid e1 (sp_path old1) ->
  (plen (sp_path old0) < e_maxlen e0)%nat -> (plen (sp_path old1) < e_maxlen e1)%nat ->
  (plen (sp_path old0) - 1 <= n)%nat -> (plen (sp_path old1) - 1 <= n)%nat ->
  e_i0 e0 <= e_i1 e0 <= e_i2 e0 -> e_i0 e0 < e_i2 e0 -> e_i2 e0 = e_i0 e1 ->
  is_wf (e_move e0) || is_wf (e_move e1) = false ->
  det_retis2 n e0 e1 old0 old1 = Out true new0 new1 st calls nd ->
  exists new0' new1' calls',
    det_retis2 n e0 e1 new0 new1 = Out true new0' new1' ACC calls' 0 /\
    map c_eng calls' = [E0; E1] /\
    orders (sp_path new0') = orders (sp_path old0) /\ orders (sp_path new1') = orders (sp_path old1).
Proof.
  intros Ha Hb Hm Hp H1 H2 H3 H4 H5 H6 H7 H8 D1.
  destruct (swap_back_accepted2 n e0 e1 old0 old1 a0 b0 new0 new1 st calls nd Ha Hb Hm Hp H1 H2 H3 H4 H5 H6 H7 H8 D1)
    as (new0' & new1' & calls' & D2).
  exists new0', new1', calls'. split; [exact D2|]. split.
  - destruct (det_retis2_engines _ _ _ _ _ _ _ _ _ _ D2) as (? & ? & _ & _ & He & _). exact He.
  - eapply swap_twice_id2; try eassumption; [apply minus_valid_shape|apply plus_valid_shape]; assumption.
Qed.

End Rev2.

(* one engine for both ensembles is the special case T0 = T1, R0 = R1 *)
Lemma det_retis_is_det_retis2 X T R ord enc dec n e0 e1 old0 old1 :
  det_retis X T R ord enc dec n e0 e1 old0 old1 = det_retis2 X T R T R ord enc dec n e0 e1 old0 old1.
Proof. reflexivity. Qed.

(* ================================================================== corollaries stated on the move itself *)

Section Corollaries.
Variable dumpf : dlabel -> Z -> Z.

(* the engine contract used by the order-parameter form of the junction: the first frame an
   engine call produces carries the order parameter of the phase point it was started from *)
Definition first_frame_honest (streams : list (list frame)) (calls : list call) : Prop :=
  forall k c s g, nth_error calls k = Some c -> nth_error streams k = Some s -> hd_error s = Some g ->
                  ford g = ford (c_init c).

Theorem retis_swap_junction e0 e1 old0 old1 streams draws sp0 sp1 st calls nd :
  retis_swap_zero dumpf e0 e1 old0 old1 streams draws = Out true sp0 sp1 st calls nd ->
  first_frame_honest streams calls ->
  lastn 2 (orders (sp_path sp0)) = firstn 2 (orders (sp_path old1)) /\
  firstn 2 (orders (sp_path sp1)) = lastn 2 (orders (sp_path old0)).
Proof.
  intros H Hh. apply retis_acc_struct in H as (_ & _ & _ & Hsh).
  eapply retis_junction_orders; eassumption.
Qed.

Theorem retis_swap_junction_frames e0 e1 old0 old1 streams draws sp0 sp1 st calls nd :
  retis_swap_zero dumpf e0 e1 old0 old1 streams draws = Out true sp0 sp1 st calls nd ->
  exists f10 f11 tl1 pre0 f0m2 f0l g0 r0 g1 r1 rest back forw,
    pts (sp_path old1) = f10 :: f11 :: tl1 /\ pts (sp_path old0) = pre0 ++ [f0m2; f0l] /\
    streams = (g0 :: r0) :: (g1 :: r1) :: rest /\
    pts (sp_path sp0) = back ++ [g0; dump dumpf DSecond f11] /\
    map erase (pts (sp_path sp1)) = erase (dump dumpf DSecondLast f0m2) :: erase g1 :: forw /\
    map c_init calls = [copy_frame 0 f10; copy_frame 0 f0l] /\ map c_rev calls = [true; false].
Proof.
  intros H. apply retis_acc_struct in H as (_ & _ & _ & Hsh).
  eapply retis_junction_frames; eassumption.
Qed.

Theorem retis_swap_valid_move e0 e1 old0 old1 streams draws sp0 sp1 st calls nd :
  retis_swap_zero dumpf e0 e1 old0 old1 streams draws = Out true sp0 sp1 st calls nd ->
  e_i0 e0 <= e_i1 e0 <= e_i2 e0 ->
  (forall f10 f11 tl, pts (sp_path old1) = f10 :: f11 :: tl -> e_i2 e0 <= ford f11) ->
  (forall pre a b, pts (sp_path old0) = pre ++ [a; b] -> ford a <= e_i0 e1) ->
  (exists a mid b, orders (sp_path sp0) = a :: mid ++ [b] /\ mid <> [] /\
     (3 <= plen (sp_path sp0) < e_maxlen e0)%nat /\
     (a < e_i0 e0 \/ e_i2 e0 < a) /\ (e_scL e0 = false -> e_i2 e0 < a) /\
     (forall o, In o mid -> e_i0 e0 <= o <= e_i2 e0) /\ e_i2 e0 <= b) /\
  (exists a mid b, orders (sp_path sp1) = a :: mid ++ [b] /\ mid <> [] /\
     (3 <= plen (sp_path sp1) < e_maxlen e1)%nat /\
     a <= e_i0 e1 /\ (forall o, In o mid -> e_i0 e1 <= o <= e_i2 e1) /\
     (b < e_i0 e1 \/ e_i2 e1 < b)).
Proof.
  intros H. apply retis_acc_struct in H as (_ & _ & _ & Hsh).
  eapply retis_swap_valid; eassumption.
Qed.

(* which engine object produced which frames of an accepted swap: the first call is made on
   engine0 (the [0-] engine), backward, and every frame of the new [0-] path but the last (the
   dumped copy of old[0+][1]) is a frame of ITS answer; the second call is made on engine1 (the
   [0+] engine), forward, and every frame of the new [0+] path but the first (the dumped copy of
   old[0-][-2]) is a frame of ITS answer *)
Theorem retis_swap_engines e0 e1 old0 old1 streams draws sp0 sp1 st calls nd :
  retis_swap_zero dumpf e0 e1 old0 old1 streams draws = Out true sp0 sp1 st calls nd ->
  exists f10 f11 tl1 pre0 f0m2 f0l s0 s1 rest k0 k1,
    pts (sp_path old1) = f10 :: f11 :: tl1 /\ pts (sp_path old0) = pre0 ++ [f0m2; f0l] /\
    streams = s0 :: s1 :: rest /\
    map c_eng calls = [E0; E1] /\ map c_rev calls = [true; false] /\ map c_used calls = [k0; k1] /\
    map c_init calls = [copy_frame 0 f10; copy_frame 0 f0l] /\
    pts (sp_path sp0) = rev (firstn k0 s0) ++ [dump dumpf DSecond f11] /\
    map erase (pts (sp_path sp1)) = erase (dump dumpf DSecondLast f0m2) :: map erase (firstn k1 s1).
Proof.
  intros H. apply retis_acc_struct in H as (_ & _ & _ & Hsh).
  destruct Hsh as (f10 & f11 & tl1 & pre0 & f0m2 & f0l & s0 & s1 & rest & k0 & k1 & Ho1 & Ho0 & Hs & Hp0 & _ & _ & Hp1 & _ & _ &
          _ & _ & _ & _ & _ & _ & _ & _ & _ & ->).
  exists f10, f11, tl1, pre0, f0m2, f0l, s0, s1, rest, k0, k1.
  repeat split; assumption.
Qed.

(* an accepted swap made exactly two engine calls and never took the early exit *)
Theorem retis_acc_two_calls e0 e1 old0 old1 streams draws sp0 sp1 st calls nd :
  retis_swap_zero dumpf e0 e1 old0 old1 streams draws = Out true sp0 sp1 st calls nd ->
  length calls = 2%nat /\ lm1_early e0 (sp_path old0) = false /\
  end_point (sp_path old0) (e_i0 e0) (e_i2 e0) = Some SR.
Proof.
  intros H. apply retis_acc_struct in H as (_ & _ & _ & Hsh).
  destruct Hsh as (f10 & f11 & tl1 & pre0 & f0m2 & f0l & s0 & s1 & rest & k0 & k1 & _ & _ & _ & _ & _ & _ & _ & _ & _ &
          _ & _ & _ & _ & _ & _ & _ & Hep & Hearly & ->).
  repeat split; assumption.
Qed.

End Corollaries.

(* ================================================================== QuanTIS: junction of an accepted swap *)

Lemma firstn_short {A} m (l : list A) : (length (firstn m l) < m)%nat -> firstn m l = l.
Proof. intros H. rewrite firstn_length in H. apply firstn_all2. lia. Qed.

Lemma end_is_R1_spec p l : end_is_R1 p l = true -> exists pre f, pts p = pre ++ [f] /\ l < ford f.
Proof.
  unfold end_is_R1, end_point, orders. destruct (Z.ltb_spec l l); [lia|].
  destruct (rev (map ford (pts p))) as [|x t] eqn:E; [discriminate|].
  rewrite <- map_rev in E. destruct (rev (pts p)) as [|f t'] eqn:E'; [discriminate|]. cbn in E. injection E as <- _.
  apply rev_cons_shape in E'. unfold classify. cbn [opt_is_R].
  destruct (Z.leb_spec (ford f) l); [discriminate|]. intros _. exists (rev t'), f. split; [exact E'|lia].
Qed.

Section QJ.
Variable vpot_of : Z -> option Q.
Variable expf : Q -> Q.

(* what an accepted quantis_complete determines *)
Lemma quantis_complete_acc e0 e1 tmp0 tmp1 sc streams calls nd p0 p1 st calls' nd' :
  quantis_complete e0 e1 tmp0 tmp1 sc streams calls nd = Out true p0 p1 st calls' nd' ->
  (plen tmp1 <= maxlen tmp1)%nat ->
  exists t00 t1l s2 s3 rest k2 k3,
    first_frame tmp0 = Some t00 /\ last_frame tmp1 = Some t1l /\ streams = s2 :: s3 :: rest /\
    pts (sp_path p0) = rev (firstn k2 s2) ++ tl (pts tmp0) /\
    map erase (pts (sp_path p1)) = map erase (pts tmp1) ++ map erase (tl (firstn k3 s3)) /\
    (1 <= k2 <= length s2)%nat /\ (1 <= k3 <= length s3)%nat /\
    (3 <= plen (sp_path p0) < e_maxlen e0)%nat /\ (3 <= plen (sp_path p1) < e_maxlen e1)%nat /\
    e_i2 e0 <= ford t1l /\
    calls' = calls ++ [mkCall E0 (copy_frame 0 t00) true (e_i0 e0) (e_i2 e0) (e_maxlen e0 - 1) k2;
                       mkCall E1 (copy_frame 0 t1l) false (e_i0 e1) (e_i2 e1) (e_maxlen e1 - 1) k3].
Proof.
  unfold quantis_complete, quantis_complete_g. intros H Htmp1.
  destruct (first_frame tmp0) as [t00|] eqn:Et00; [|discriminate].
  destruct (negb sc); [discriminate|].
  destruct (engine_call _ _ streams _ true _ _) as [[[back0 str1] c2]|] eqn:E2; [|discriminate].
  set (new0 := paste back0 tmp0 true (Some (e_maxlen e0))) in *.
  destruct (Nat.leb_spec (e_maxlen e0) (plen new0)) as [|Hlt0]; [discriminate|].
  destruct (Nat.ltb_spec (plen new0) 3) as [|Hge0]; [discriminate|].
  destruct (negb (e_scL e0) && has_L_start_end new0 e0); [discriminate|]. cbn [is_acc negb] in H.
  destruct (last_frame tmp1) as [t1l|] eqn:Et1l; [|discriminate].
  destruct (Z.ltb_spec (ford (copy_frame 0 t1l)) (e_i2 e0)) as [|Hge]; [discriminate|].
  destruct (engine_call _ _ str1 _ false _ _) as [[[forw1 str2] c3]|] eqn:E3; [|discriminate].
  set (new1 := paste (reverse 0 tmp1 false) forw1 true (Some (e_maxlen e1))) in *.
  destruct (start_point new1 _ _) as [sp|]; [|discriminate].
  destruct (Nat.eqb_spec (plen new1) (e_maxlen e1)) as [|Hne1]; [discriminate|].
  destruct (Nat.ltb_spec (plen new1) 3) as [|Hge1]; [discriminate|].
  destruct sp; cbn [negb is_acc] in H; try discriminate.
  inversion H; subst; clear H. cbn [sp_path].
  apply engine_call_inv in E2. destruct E2 as (s2 & k2 & -> & Ep2 & _ & _ & Hk2 & Hk2l & _ & _ & ->).
  apply engine_call_inv in E3. destruct E3 as (s3 & k3 & -> & Ep3 & _ & _ & Hk3 & Hk3l & _ & _ & ->).
  exists t00, t1l, s2, s3, str2, k2, k3.
  split; [reflexivity|]. split; [reflexivity|]. split; [reflexivity|].
  assert (Hp0 : pts new0 = rev (firstn k2 s2) ++ tl (pts tmp0)).
  { pose proof (paste_pts back0 tmp0 true (e_maxlen e0)) as Hp. fold new0 in Hp. unfold forw_part in Hp. rewrite Ep2 in Hp.
    rewrite Hp. apply firstn_short. rewrite <- Hp. exact Hlt0. }
  assert (Hp1 : pts new1 = rev (pts (reverse 0 tmp1 false)) ++ tl (firstn k3 s3)).
  { pose proof (paste_pts (reverse 0 tmp1 false) forw1 true (e_maxlen e1)) as Hp. fold new1 in Hp. unfold forw_part in Hp. rewrite Ep3 in Hp.
    rewrite Hp. apply firstn_short. rewrite <- Hp.
    assert (plen new1 <= e_maxlen e1)%nat.
    { unfold plen. rewrite Hp, firstn_length. lia. }
    unfold plen in *. lia. }
  split; [exact Hp0|].
  split.
  { rewrite Hp1, map_app, map_rev, (reverse_frames 0 tmp1 false Htmp1), rev_involutive. reflexivity. }
  split; [lia|]. split; [lia|]. split; [lia|].
  split.
  { assert (plen new1 <= e_maxlen e1)%nat.
    { unfold plen. pose proof (paste_pts (reverse 0 tmp1 false) forw1 true (e_maxlen e1)) as Hp. fold new1 in Hp. rewrite Hp, firstn_length. lia. }
    lia. }
  split; [cbn [copy_frame ford] in Hge; exact Hge|].
  rewrite <- app_assoc. reflexivity.
Qed.


(* The junction of an accepted QuanTIS swap, as order parameters, for engines whose first frame
   carries the order parameter of the phase point they were started from: the new [0-] path
   ends with (old[0+][0], its one-step successor H0 computed by engine 0) and the new [0+] path
   starts with (old[0-][-2], its one-step successor H1 computed by engine 1); both junctions
   cross lambda_0 in that one step.  Both new paths have between 3 and maxlength-1 frames and
   exactly four engine calls were made. *)
Theorem quantis_junction e0 e1 b0 b1 old0 old1 streams draws p0 p1 st calls nd :
  quantis_swap_zero vpot_of expf e0 e1 b0 b1 old0 old1 streams draws = Out true p0 p1 st calls nd ->
  first_frame_honest streams calls ->
  exists f10 f0m2 g0 H0 r0 g1 H1 r1 srest back forw,
    first_frame (sp_path old1) = Some f10 /\ last2_frame (sp_path old0) = Some f0m2 /\
    streams = (g0 :: H0 :: r0) :: (g1 :: H1 :: r1) :: srest /\
    orders (sp_path p0) = back ++ [ford f10; ford H0] /\
    orders (sp_path p1) = ford f0m2 :: ford H1 :: forw /\
    ford f10 < e_i2 e0 < ford H0 /\ ford f0m2 < e_i2 e0 < ford H1 /\
    (3 <= plen (sp_path p0) < e_maxlen e0)%nat /\ (3 <= plen (sp_path p1) < e_maxlen e1)%nat /\
    st = ACC /\ length calls = 4%nat /\ map c_eng calls = [E0; E1; E0; E1].
Proof.
  unfold quantis_swap_zero, quantis_swap_zero_g. change (quantis_complete_g true) with quantis_complete.
  destruct (first_frame (sp_path old1)) as [f10|] eqn:Ef10; [|discriminate].
  destruct (last2_frame (sp_path old0)) as [f0m2|] eqn:Ef0m2; [|discriminate].
  destruct (is_none _ || is_none _); [discriminate|].
  destruct (Z.ltb_spec (ford (copy_frame 0 f10)) (e_i2 e0)) as [HL0|]; [|discriminate].
  destruct (Z.ltb_spec (ford (copy_frame 0 f0m2)) (e_i2 e0)) as [HL1|]; [|discriminate].
  cbn [negb orb copy_frame ford] in *.
  destruct (engine_call _ (empty_path 2 0) streams _ false _ _) as [[[tmp0 str1] c0]|] eqn:E0; [|discriminate].
  destruct (end_is_R1 tmp0 (e_i2 e0)) eqn:ER0; cbn [negb]; [|discriminate].
  destruct (engine_call _ (empty_path 2 0) str1 _ false _ _) as [[[tmp1 str2] c1]|] eqn:E1; [|discriminate].
  destruct (end_is_R1 tmp1 (e_i2 e0)) eqn:ER1; cbn [negb]; [|discriminate].
  destruct (quantis_energies _ _ _ _ _) as [en|]; [|discriminate].
  destruct draws as [|u drest]; [discriminate|].
  intros H Hhon.
  assert (Hc : quantis_complete e0 e1 tmp0 tmp1 true str2 [c0; c1] 1 = Out true p0 p1 st calls nd).
  { destruct (e_accept_all e0 || Qle_bool u _); [exact H|discriminate]. }
  clear H.
  apply engine_call_inv in E0. destruct E0 as (s0 & k0 & -> & Ep0 & Em0 & _ & Hk0 & Hk0l & _ & Hst0 & ->).
  apply engine_call_inv in E1. destruct E1 as (s1 & k1 & -> & Ep1 & Em1 & _ & Hk1 & Hk1l & _ & Hst1 & ->).
  pose proof Hc as Hst. apply quantis_complete_status in Hst as (_ & _ & Hst & _). specialize (Hst eq_refl).
  apply quantis_complete_acc in Hc; [|unfold plen; rewrite Ep1, Em1, firstn_length; lia].
  destruct Hc as (t00 & t1l & s2 & s3 & rest & k2 & k3 & Et00 & Et1l & -> & Hp0 & Hp1 & Hk2 & Hk3 & Hl0 & Hl1 & _ & ->).
  cbn [app] in Hhon.
  apply end_is_R1_spec in ER0 as (pre0 & l0 & El0 & Hl0R). apply end_is_R1_spec in ER1 as (pre1 & l1 & El1 & Hl1R).
  destruct s0 as [|g0 r0]; [cbn in Hk0l; lia|]. destruct s1 as [|g1 r1]; [cbn in Hk1l; lia|].
  assert (Hg0 : ford g0 = ford f10) by (apply (Hhon 0%nat _ _ g0 eq_refl eq_refl eq_refl)).
  assert (Hg1 : ford g1 = ford f0m2) by (apply (Hhon 1%nat _ _ g1 eq_refl eq_refl eq_refl)).
  (* both one-step paths have two frames *)
  destruct k0 as [|[|k0]]; [lia| |].
  { exfalso. rewrite Ep0 in El0. cbn [firstn] in El0. destruct pre0 as [|? [|]]; try discriminate.
    injection El0 as <-. lia. }
  destruct k1 as [|[|k1]]; [lia| |].
  { exfalso. rewrite Ep1 in El1. cbn [firstn] in El1. destruct pre1 as [|? [|]]; try discriminate.
    injection El1 as <-. lia. }
  assert (k0 = 0%nat) by lia. assert (k1 = 0%nat) by lia. subst k0 k1.
  destruct r0 as [|H0 r0]; [cbn in Hk0l; lia|]. destruct r1 as [|H1 r1]; [cbn in Hk1l; lia|].
  cbn [firstn] in Ep0, Ep1.
  rewrite Ep0 in El0, Hp0. rewrite Ep1 in El1, Hp1.
  assert (l0 = H0).
  { change [g0; H0] with ([g0] ++ [H0]) in El0. apply app_inj_tail in El0. symmetry. apply El0. }
  assert (l1 = H1).
  { change [g1; H1] with ([g1] ++ [H1]) in El1. apply app_inj_tail in El1. symmetry. apply El1. }
  subst l0 l1.
  unfold first_frame in Et00. rewrite Ep0 in Et00. injection Et00 as <-.
  destruct s2 as [|G2 r2]; [cbn in Hk2; lia|].
  assert (HG2 : ford G2 = ford g0) by (apply (Hhon 2%nat _ _ G2 eq_refl eq_refl eq_refl)).
  destruct k2 as [|k2]; [lia|]. cbn [firstn rev tl] in Hp0. rewrite <- app_assoc in Hp0. cbn [app] in Hp0.
  exists f10, f0m2, g0, H0, r0, g1, H1, r1, (( G2 :: r2) :: s3 :: rest), (map ford (rev (firstn k2 r2))),
         (map (fun e : Z * Z * bool => fst (fst e)) (map erase (tl (firstn k3 s3)))).
  split; [reflexivity|]. split; [reflexivity|]. split; [reflexivity|].
  split; [unfold orders; rewrite Hp0, map_app; cbn [map]; rewrite HG2, Hg0; reflexivity|].
  split; [unfold orders; rewrite map_ford_erase, Hp1, map_app; cbn [map erase fst app]; rewrite Hg1; reflexivity|].
  split; [lia|]. split; [lia|]. split; [exact Hl0|]. split; [exact Hl1|]. split; [exact Hst|split; reflexivity].
Qed.

End QJ.

(* ================================================================== QuanTIS: which engine object every call is made on *)

Lemma engine_call_eng who p streams init rv l r p' rest c :
  engine_call who p streams init rv l r = Ok (p', rest, c) -> c_eng c = who.
Proof.
  unfold engine_call. destruct streams as [|[|f tl] rest0]; try discriminate.
  destruct (MovesM.propagate_fixed p f tl l r); try discriminate. intros H; inversion H; reflexivity.
Qed.

Section QE.
Variable vpot_of : Z -> option Q.
Variable expf : Q -> Q.

Lemma quantis_complete_engines e0 e1 tmp0 tmp1 sc streams calls nd acc p0 p1 st calls' nd' :
  quantis_complete e0 e1 tmp0 tmp1 sc streams calls nd = Out acc p0 p1 st calls' nd' ->
  exists k, map c_eng calls' = map c_eng calls ++ firstn k [E0; E1].
Proof.
  unfold quantis_complete, quantis_complete_g.
  destruct (first_frame tmp0); [|discriminate].
  destruct (negb sc).
  { intros H; inversion H; subst. exists 0%nat. symmetry; apply app_nil_r. }
  destruct (engine_call _ _ streams _ true _ _) as [[[back0 str1] c0]|] eqn:E0; [|discriminate].
  apply engine_call_eng in E0.
  match goal with |- context [is_acc ?x] => set (st0 := x) end.
  destruct (is_acc st0) eqn:A0; cbn [negb].
  2:{ intros H; inversion H; subst. exists 1%nat. rewrite map_app. cbn [map firstn]. rewrite E0. reflexivity. }
  destruct (last_frame tmp1); [|discriminate].
  destruct (ford _ <? _).
  { intros H; inversion H; subst. exists 1%nat. rewrite map_app. cbn [map firstn]. rewrite E0. reflexivity. }
  destruct (engine_call _ _ str1 _ false _ _) as [[[forw1 str2] c1]|] eqn:E1; [|discriminate].
  apply engine_call_eng in E1.
  destruct (start_point _ _ _) as [sp|]; [|discriminate].
  match goal with |- context [is_acc ?x] => set (st1 := x) end.
  destruct (is_acc st1) eqn:A1; cbn [negb];
    intros H; inversion H; subst; exists 2%nat; rewrite !map_app; cbn [map firstn app]; rewrite E0, E1, <- app_assoc; reflexivity.
Qed.

(* whatever the outcome (accepted or rejected at any stage): the propagate calls of the QuanTIS
   swap are made on engine0, engine1, engine0, engine1 in this order (a prefix of it when the
   move stops early): the one-step and the backward run of [0-] on the [0-] engine, the one-step
   and the forward run of [0+] on the [0+] engine *)
Theorem quantis_calls_engines e0 e1 b0 b1 old0 old1 streams draws acc p0 p1 st calls nd :
  quantis_swap_zero vpot_of expf e0 e1 b0 b1 old0 old1 streams draws = Out acc p0 p1 st calls nd ->
  exists k, map c_eng calls = firstn k [E0; E1; E0; E1].
Proof.
  unfold quantis_swap_zero, quantis_swap_zero_g. change (quantis_complete_g true) with quantis_complete.
  destruct (first_frame (sp_path old1)) as [f10|]; [|discriminate].
  destruct (last2_frame (sp_path old0)) as [f0m2|]; [|discriminate].
  destruct (is_none _ || is_none _).
  { intros H; inversion H; subst. exists 0%nat. reflexivity. }
  destruct (negb _ || negb _).
  { intros H; inversion H; subst. exists 0%nat. reflexivity. }
  destruct (engine_call _ (empty_path 2 0) streams _ false _ _) as [[[tmp0 str1] c0]|] eqn:E0; [|discriminate].
  apply engine_call_eng in E0.
  destruct (negb (end_is_R1 tmp0 (e_i2 e0))).
  { intros H; inversion H; subst. exists 1%nat. cbn [map firstn]. rewrite E0. reflexivity. }
  destruct (engine_call _ (empty_path 2 0) str1 _ false _ _) as [[[tmp1 str2] c1]|] eqn:E1; [|discriminate].
  apply engine_call_eng in E1.
  destruct (negb (end_is_R1 tmp1 (e_i2 e0))).
  { intros H; inversion H; subst. exists 2%nat. cbn [map firstn]. rewrite E0, E1. reflexivity. }
  destruct (quantis_energies _ _ _ _ _) as [en|]; [|discriminate].
  destruct draws as [|u drest]; [discriminate|].
  destruct (e_accept_all e0 || Qle_bool u _).
  - intros H. apply quantis_complete_engines in H as (k & Hk). exists (2 + k)%nat.
    rewrite Hk. cbn [map app firstn Nat.add]. rewrite E0, E1. reflexivity.
  - intros H; inversion H; subst. exists 2%nat. cbn [map firstn]. rewrite E0, E1. reflexivity.
Qed.

End QE.

(* ================================================================== the two length limits *)
(* [0-] and [0+] carry their own tis_set["maxlength"]: e_maxlen e0 and e_maxlen e1 are independent. *)

Lemma is_acc_false s : is_acc s = false -> s <> ACC.
Proof. destruct s; cbn; congruence. Qed.

Lemma nth_error_In_firstn {A} (s : list A) : forall j m x, nth_error s j = Some x -> (j < m)%nat -> In x (firstn m s).
Proof.
  induction s as [|y s IH]; intros [|j] [|m] x H Hm; cbn in *; try discriminate; try lia.
  - left. congruence.
  - right. apply (IH j); [exact H|lia].
Qed.

Section Limits.
Variable dumpf : dlabel -> Z -> Z.

(* the variant definitions of SwapM.v are the code's functions with one place made a parameter *)
Lemma retis_path1_is_seg e0 e1 : retis_path1 dumpf e0 e1 = retis_path1_seg dumpf (e_maxlen e1 - 1) e0 e1.
Proof. reflexivity. Qed.
Lemma retis_swap_zero_is_with : retis_swap_zero dumpf = retis_swap_zero_with dumpf (retis_path1 dumpf).
Proof. reflexivity. Qed.

(* a run that is not stopped by an interface within its first m frames uses at least m frames
   of its container, if the container has that many *)
Lemma engine_call_uses who M t streams init rv l r p' rest c m :
  engine_call who (empty_path M t) streams init rv l r = Ok (p', rest, c) ->
  (m <= M)%nat ->
  (forall s0 tl, streams = s0 :: tl -> forall f, In f (firstn m s0) -> crossedb l r f = false) ->
  exists s0 k, streams = s0 :: rest /\ pts p' = firstn k s0 /\ (m <= k <= M)%nat /\ (1 <= k <= length s0)%nat /\
               c = mkCall who init rv l r M k.
Proof.
  intros E HmM Hno. apply engine_call_inv in E.
  destruct E as (s0 & k & -> & Ep & _ & _ & Ek & Ekl & _ & Estop & ->).
  exists s0, k. repeat split; try assumption; try lia.
  destruct (Nat.lt_ge_cases k m) as [Hlt|]; [|assumption]. exfalso.
  destruct (Estop ltac:(lia)) as (_ & _ & lastf & Hn & Hc).
  rewrite (Hno s0 rest eq_refl lastf) in Hc; [discriminate|].
  apply (nth_error_In_firstn s0 (k - 1)); [exact Hn|lia].
Qed.

(* step 1: the status is BTX exactly when the new [0-] path fills its own limit ... *)
Lemma retis_path0_status e0 e1 allowed old1 streams path0 st0 streams1 calls :
  retis_path0 dumpf e0 e1 allowed old1 streams = Ok (path0, st0, streams1, calls) ->
  (st0 = BTX <-> plen path0 = e_maxlen e0) /\ (st0 = ACC -> (3 <= plen path0)%nat) /\
  (st0 = BTX \/ st0 = BTS \/ st0 = ZML \/ st0 = ACC).
Proof.
  unfold retis_path0, retis_path0_g. destruct (first_frame old1) as [f10|]; [|discriminate].
  match goal with |- context [if allowed then ?a else ?b] => destruct (if allowed then a else b) as [[[ptmp str1] cs]|] end; [|discriminate].
  destruct (second_frame old1) as [f11|]; [|discriminate].
  intros H. inversion H; subst; clear H.
  match goal with |- context [(plen ?P =? _)%nat] => set (P0 := P) end.
  destruct (Nat.eqb_spec (plen P0) (e_maxlen e0)) as [He|Hne].
  { repeat split; auto; try discriminate. }
  destruct (Nat.ltb_spec (plen P0) 3) as [Hlt|Hge].
  { repeat split; auto; try discriminate; try (intros; exfalso; auto; fail). }
  destruct (negb (e_scL e0) && has_L_start_end P0 e0).
  { repeat split; auto; try discriminate; try (intros; exfalso; auto; fail). }
  repeat split; auto; try discriminate; try (intros; exfalso; auto; fail).
Qed.

(* ... which is what happens when the backward run is not stopped by an interface within the first
   maxlength([0-]) - 1 frames (the container of that run has exactly maxlength([0-]) - 1 frames) *)
Lemma retis_path0_too_long e0 e1 old1 s0 rest path0 st0 streams1 calls :
  retis_path0 dumpf e0 e1 true old1 (s0 :: rest) = Ok (path0, st0, streams1, calls) ->
  (forall f, In f (firstn (e_maxlen e0 - 1) s0) -> crossedb (e_i0 e0) (e_i2 e0) f = false) ->
  plen path0 = e_maxlen e0 /\ streams1 = rest.
Proof.
  unfold retis_path0, retis_path0_g. destruct (first_frame old1) as [f10|]; [|discriminate].
  destruct (engine_call _ _ (s0 :: rest) _ true _ _) as [[[ptmp str1] c]|] eqn:E; [|discriminate].
  destruct (second_frame old1) as [f11|]; [|discriminate].
  intros H Hno.
  apply (engine_call_uses _ _ _ _ _ _ _ _ _ _ _ (e_maxlen e0 - 1)%nat) in E; [|lia|].
  2:{ intros s0' tl' [= <- <-]. exact Hno. }
  destruct E as (s0' & k & [= <- <-] & Ep & Ek & [_ Ekl] & ->).
  set (P := fst (append_all (empty_path (e_maxlen e0) 0) (rev (pts ptmp)))) in *.
  assert (HP : pts P = firstn (e_maxlen e0) (rev (firstn k s0))) by (unfold P; rewrite append_all_from_empty, Ep; reflexivity).
  assert (HPm : maxlen P = e_maxlen e0).
  { unfold P. pose proof (append_all_spec (empty_path (e_maxlen e0) 0) (rev (pts ptmp))) as (_ & A & _). exact A. }
  pose proof (append_spec P (dump dumpf DSecond f11)) as (A1 & _ & _).
  assert (HlenP : plen P = Nat.min (e_maxlen e0) k).
  { unfold plen. rewrite HP, firstn_length, firstn_rev_length by exact Ekl. reflexivity. }
  inversion H; subst path0 streams1; clear H.
  split; [|reflexivity].
  unfold plen at 1. rewrite A1. fold (plen P). rewrite HPm, HlenP.
  destruct (Nat.ltb_spec (Nat.min (e_maxlen e0) k) (e_maxlen e0)).
  - rewrite app_length. fold (plen P). rewrite HlenP. cbn [length]. lia.
  - fold (plen P). rewrite HlenP. lia.
Qed.

(* step 2: the status is FTX exactly when the new [0+] path reaches its own limit ... *)
Lemma retis_path1_status e0 e1 allowed old0 streams path1 st1 streams1 calls :
  retis_path1 dumpf e0 e1 allowed old0 streams = Ok (path1, st1, streams1, calls) ->
  (st1 = FTX <-> (e_maxlen e1 <= plen path1)%nat) /\ (st1 = ACC -> (3 <= plen path1)%nat) /\
  (st1 = FTX \/ st1 = FTS \/ st1 = ACC).
Proof.
  unfold retis_path1. destruct (last_frame old0) as [f0l|]; [|discriminate].
  match goal with |- context [if allowed then ?a else ?b] => destruct (if allowed then a else b) as [[[p1 str1] cs]|] end; [|discriminate].
  intros H. inversion H; subst; clear H.
  destruct (Nat.leb_spec (e_maxlen e1) (plen path1)) as [Hle|Hlt].
  { repeat split; auto; try discriminate. }
  destruct (Nat.ltb_spec (plen path1) 3) as [Hl3|Hge].
  { repeat split; auto; try discriminate; try (intros; exfalso; lia). }
  repeat split; auto; try discriminate; try (intros; exfalso; lia).
Qed.

(* ... which is what happens when the forward run is not stopped by an interface within the first
   maxlength([0+]) - 1 frames *)
Lemma retis_path1_too_long e0 e1 old0 s1 rest path1 st1 streams2 calls :
  retis_path1 dumpf e0 e1 true old0 (s1 :: rest) = Ok (path1, st1, streams2, calls) ->
  (forall f, In f (firstn (e_maxlen e1 - 1) s1) -> crossedb (e_i0 e1) (e_i2 e1) f = false) ->
  (e_maxlen e1 <= plen path1)%nat.
Proof.
  unfold retis_path1. destruct (last_frame old0) as [f0l|]; [|discriminate].
  destruct (engine_call _ _ (s1 :: rest) _ false _ _) as [[[ptmp str1] c]|] eqn:E; [|discriminate].
  destruct (last2_frame old0) as [f0m2|]; [|discriminate].
  intros H Hno.
  apply (engine_call_uses _ _ _ _ _ _ _ _ _ _ _ (e_maxlen e1 - 1)%nat) in E; [|lia|].
  2:{ intros s' tl' [= <- <-]. exact Hno. }
  destruct E as (s' & k & [= <- <-] & Ep & Ek & [Hk1 Ekl] & ->).
  set (pp := dump dumpf DSecondLast f0m2) in *.
  pose proof (append_spec (empty_path (e_maxlen e1) 0) pp) as (A1 & A2 & A3).
  set (Q := fst (append (empty_path (e_maxlen e1) 0) pp)) in *.
  cbn [empty_path plen pts length maxlen torigin app] in A1, A2, A3.
  destruct (Nat.ltb_spec 0 (e_maxlen e1)) as [_|Hz]; [|lia].
  pose proof (iadd_pts 0 Q ptmp) as HI.
  assert (HQl : plen Q = 1%nat) by (unfold plen; rewrite A1; reflexivity).
  rewrite A1, A2, HQl, Ep in HI. cbn [map app] in HI.
  rewrite firstn_all2 in HI by (rewrite map_length, firstn_length; lia).
  inversion H; subst path1; clear H.
  rewrite plen_map_erase, HI. cbn [length]. rewrite map_length, firstn_length. lia.
Qed.

(* any outcome of the move that is not the early lambda_-1 exit, in terms of the two steps *)
Lemma retis_out_inv e0 e1 old0 old1 streams draws acc sp0 sp1 st calls nd :
  retis_swap_zero dumpf e0 e1 old0 old1 streams draws = Out acc sp0 sp1 st calls nd ->
  lm1_early e0 (sp_path old0) = false ->
  exists ep st0 st1 streams1 streams2 calls0 calls1,
    end_point (sp_path old0) (e_i0 e0) (e_i2 e0) = Some ep /\
    retis_path0 dumpf e0 e1 (is_R ep) (sp_path old1) streams = Ok (sp_path sp0, st0, streams1, calls0) /\
    retis_path1 dumpf e0 e1 (is_R ep) (sp_path old0) streams1 = Ok (sp_path sp1, st1, streams2, calls1) /\
    calls = calls0 ++ calls1 /\
    (acc = true -> st0 = ACC /\ st1 = ACC) /\
    (st0 <> ACC -> acc = false /\ st = st0 /\ sp_status sp0 = st0) /\
    (st1 <> ACC -> acc = false /\ sp_status sp1 = st1 /\ (st0 = ACC -> st = st1 /\ sp_status sp0 = st1)).
Proof.
  unfold retis_swap_zero, retis_swap_zero_g. change (retis_path0_g dumpf true) with (retis_path0 dumpf).
  intros H Hearly. rewrite Hearly in H.
  destruct (end_point (sp_path old0) (e_i0 e0) (e_i2 e0)) as [ep|]; [|discriminate].
  destruct (retis_path0 dumpf e0 e1 (is_R ep) (sp_path old1) streams) as [[[[path0 st0] str1] calls0]|] eqn:E0; [|discriminate].
  destruct (retis_path1 dumpf e0 e1 (is_R ep) (sp_path old0) str1) as [[[[path1 st1] str2] calls1]|] eqn:E1; [|discriminate].
  exists ep, st0, st1, str1, str2, calls0, calls1.
  destruct (is_acc st0) eqn:A0; destruct (is_acc st1) eqn:A1; cbn [andb] in H.
  - apply is_acc_true in A0, A1. subst st0 st1.
    destruct (is_wf (e_move e0) || is_wf (e_move e1)).
    + destruct draws as [|u draws']; [discriminate|].
      destruct (high_acc_swap path1 (sp_path old1) e0 e1 u) as [[a s]|]; [|discriminate].
      destruct (final_weight path0 e0); [|discriminate]. destruct (final_weight path1 e1); [|discriminate].
      inversion H; subst; clear H. cbn [sp_path].
      repeat split; try reflexivity; try assumption; intros; congruence.
    + destruct (final_weight path0 e0); [|discriminate]. destruct (final_weight path1 e1); [|discriminate].
      inversion H; subst; clear H. cbn [sp_path].
      repeat split; try reflexivity; try assumption; intros; congruence.
  - apply is_acc_true in A0. subst st0. pose proof (is_acc_false _ A1) as N1.
    destruct (final_weight path0 e0); [|discriminate]. destruct (final_weight path1 e1); [|discriminate].
    inversion H; subst; clear H. cbn [sp_path sp_status negb andb is_acc].
    repeat split; try reflexivity; try assumption; intros; congruence.
  - apply is_acc_true in A1. subst st1. pose proof (is_acc_false _ A0) as N0.
    destruct (final_weight path0 e0); [|discriminate]. destruct (final_weight path1 e1); [|discriminate].
    inversion H; subst; clear H. cbn [sp_path sp_status negb andb is_acc].
    repeat split; try reflexivity; try assumption; intros; congruence.
  - pose proof (is_acc_false _ A0) as N0. pose proof (is_acc_false _ A1) as N1.
    destruct (final_weight path0 e0); [|discriminate]. destruct (final_weight path1 e1); [|discriminate].
    inversion H; subst; clear H. cbn [sp_path sp_status negb andb is_acc].
    repeat split; try reflexivity; try assumption; intros; congruence.
Qed.

(* A swap that cannot complete a new path below that path's OWN limit is rejected with the
   corresponding status, whatever the two limits. *)
Theorem retis_swap_limit_reject e0 e1 old0 old1 s0 s1 rest draws acc sp0 sp1 st calls nd :
  retis_swap_zero dumpf e0 e1 old0 old1 (s0 :: s1 :: rest) draws = Out acc sp0 sp1 st calls nd ->
  lm1_early e0 (sp_path old0) = false ->
  end_point (sp_path old0) (e_i0 e0) (e_i2 e0) = Some SR ->
  ((forall f, In f (firstn (e_maxlen e0 - 1) s0) -> crossedb (e_i0 e0) (e_i2 e0) f = false) ->
     acc = false /\ st = BTX /\ sp_status sp0 = BTX /\ plen (sp_path sp0) = e_maxlen e0) /\
  ((forall f, In f (firstn (e_maxlen e1 - 1) s1) -> crossedb (e_i0 e1) (e_i2 e1) f = false) ->
     acc = false /\ sp_status sp1 = FTX /\ (e_maxlen e1 <= plen (sp_path sp1))%nat /\
     (plen (sp_path sp0) = e_maxlen e0 /\ st = BTX \/
      plen (sp_path sp0) <> e_maxlen e0 /\ (st = FTX /\ sp_status sp0 = FTX \/ st = BTS \/ st = ZML))).
Proof.
  intros H Hearly Hep.
  apply retis_out_inv in H; [|exact Hearly].
  destruct H as (ep & st0 & st1 & str1 & str2 & calls0 & calls1 & Hep' & H0 & H1 & Hcalls & Hacc & Hn0 & Hn1).
  rewrite Hep in Hep'. injection Hep' as <-. cbn [is_R] in H0, H1.
  pose proof (retis_path0_status _ _ _ _ _ _ _ _ _ H0) as (Hb & _ & Hcases0).
  split.
  - intros Hno. destruct (retis_path0_too_long _ _ _ _ _ _ _ _ _ H0 Hno) as [Hlen _].
    apply Hb in Hlen as Hst0. subst st0.
    destruct (Hn0 ltac:(discriminate)) as (Ha & Hs & Hs0). repeat split; assumption.
  - intros Hno.
    assert (Hstr : str1 = s1 :: rest).
    { clear - H0. unfold retis_path0, retis_path0_g in H0. destruct (first_frame (sp_path old1)); [|discriminate].
      destruct (engine_call _ _ (s0 :: s1 :: rest) _ true _ _) as [[[ptmp s'] c]|] eqn:E; [|discriminate].
      apply engine_call_inv in E. destruct E as (s0' & k & [= <- <-] & _).
      destruct (second_frame (sp_path old1)); [|discriminate]. inversion H0. reflexivity. }
    subst str1.
    pose proof (retis_path1_too_long _ _ _ _ _ _ _ _ _ H1 Hno) as Hlen.
    pose proof (retis_path1_status _ _ _ _ _ _ _ _ _ H1) as (Hf & _ & _).
    apply Hf in Hlen as Hst1. subst st1.
    destruct (Hn1 ltac:(discriminate)) as (Ha & Hs1 & Hs).
    split; [exact Ha|]. split; [exact Hs1|]. split; [exact Hlen|].
    destruct (Nat.eq_dec (plen (sp_path sp0)) (e_maxlen e0)) as [He|Hne].
    + left. split; [exact He|]. apply Hb in He. subst st0. destruct (Hn0 ltac:(discriminate)) as (_ & Hs' & _). exact Hs'.
    + right. split; [exact Hne|].
      destruct Hcases0 as [-> | [-> | [-> | ->]]].
      * exfalso. apply Hne, Hb. reflexivity.
      * right; left. destruct (Hn0 ltac:(discriminate)) as (_ & Hs' & _). exact Hs'.
      * right; right. destruct (Hn0 ltac:(discriminate)) as (_ & Hs' & _). exact Hs'.
      * left. destruct (Hs eq_refl) as [Hs' Hs0']. split; assumption.
Qed.

End Limits.

(* an accepted QuanTIS swap respects both limits, whatever they are (each path is measured
   against the limit of its own ensemble) *)
Theorem quantis_own_limits vpot_of expf e0 e1 b0 b1 old0 old1 streams draws p0 p1 st calls nd :
  quantis_swap_zero vpot_of expf e0 e1 b0 b1 old0 old1 streams draws = Out true p0 p1 st calls nd ->
  first_frame_honest streams calls ->
  (3 <= plen (sp_path p0) < e_maxlen e0)%nat /\ (3 <= plen (sp_path p1) < e_maxlen e1)%nat.
Proof.
  intros H Hh. apply quantis_junction in H; [|exact Hh].
  destruct H as (f10 & f0m2 & g0 & H0 & r0 & g1 & H1 & r1 & srest & back & forw & _ & _ & _ & _ & _ & _ & _ & Hl0 & Hl1 & _).
  lia.
Qed.

(* ------------------------------------------------------------------ a concrete instance (for the Examples) *)
(* states = (time on one fixed trajectory, direction of time); one step moves along the
   trajectory, velocity reversal flips the direction; the order parameter is a table lookup *)
Module Clock.
Definition X : Type := Z * bool.
Definition T (s : X) : X := let '(t, d) := s in (if d then t - 1 else t + 1, d).
Definition R (s : X) : X := let '(t, d) := s in (t, negb d).
Definition table : list Z := [3; 1; 0; 3; 4; 1; 4; 0; 1; 3; 3; 6].
Definition ord (s : X) : Z := nth (Z.to_nat (fst s + 3)) table 9.
Definition enc (s : X) : Z := let '(t, d) := s in Z.b2z d + 2 * t.
Definition dec (z : Z) : X := (Z.div2 z, Z.odd z).

Lemma RR x : R (R x) = x.
Proof. destruct x as [t d]. cbn. rewrite negb_involutive. reflexivity. Qed.
Lemma RT x : R (T (R (T x))) = x.
Proof. destruct x as [t []]; cbn; f_equal; lia. Qed.
Lemma ordR x : ord (R x) = ord x.
Proof. destruct x as [t d]. reflexivity. Qed.
Lemma decenc x : dec (enc x) = x.
Proof.
  destruct x as [t d]. unfold dec, enc. f_equal.
  - rewrite Z.div2_div. apply Z.add_b2z_double_div2.
  - rewrite <- Z.bit0_odd. apply Z.add_b2z_double_bit0.
Qed.

Definition fr (t : Z) : frame := mkF (ord (t, false)) (enc (t, false)) false 0.
Definition e0 : ens := mkEns (-100) 2 2 false true Msh 10 None false.
Definition e1 : ens := mkEns 2 2 5 true false Msh 10 None false.
Definition old0 : spath := mkSP (mkP (map fr [-3; -2; -1; 0]) 10 0) ACC 1.
Definition old1 : spath := mkSP (mkP (map fr [5; 6; 7; 8]) 10 0) ACC 1.
End Clock.


(* ------------------------------------------------------------------ a concrete instance with two different engines *)
(* same phase space, reversal, configurations and order parameter (another table); engine0 moves
   one table entry per step, engine1 two: different dynamics, both time-reversible *)
Module Clock2.
Definition X : Type := Z * bool.
Definition T0 (s : X) : X := let '(t, d) := s in (if d then t - 1 else t + 1, d).
Definition T1 (s : X) : X := let '(t, d) := s in (if d then t - 2 else t + 2, d).
Definition R (s : X) : X := let '(t, d) := s in (t, negb d).
(*                             t = -3 -2 -1  0  1  2  3  4  5  6  7  8  9 10 11 12 13 14 15 16 *)
Definition table : list Z := [  3; 1; 0; 3; 9; 4; 9; 1; 9; 9; 9; 4; 0; 1; 9; 3; 9; 5; 9; 6].
Definition ord (s : X) : Z := nth (Z.to_nat (fst s + 3)) table 9.
Definition enc : X -> Z := Clock.enc.
Definition dec : Z -> X := Clock.dec.

Lemma RR x : R (R x) = x.
Proof. destruct x as [t d]. cbn. rewrite negb_involutive. reflexivity. Qed.
Lemma RT0 x : R (T0 (R (T0 x))) = x.
Proof. destruct x as [t []]; cbn; f_equal; lia. Qed.
Lemma RT1 x : R (T1 (R (T1 x))) = x.
Proof. destruct x as [t []]; cbn; f_equal; lia. Qed.
Lemma ordR x : ord (R x) = ord x.
Proof. destruct x as [t d]. reflexivity. Qed.
Lemma decenc x : dec (enc x) = x.
Proof. apply Clock.decenc. Qed.
Lemma T0_neq_T1 : T0 (0, false) <> T1 (0, false).
Proof. discriminate. Qed.

Definition fr (t : Z) : frame := mkF (ord (t, false)) (enc (t, false)) false 0.
Definition e0 : ens := mkEns (-100) 2 2 false true Msh 10 None false.
Definition e1 : ens := mkEns 2 2 5 true false Msh 10 None false.
(* a trajectory of engine0: [3;1;0;3];  a trajectory of engine1: [1;3;5;6] *)
Definition old0 : spath := mkSP (mkP (map fr [-3; -2; -1; 0]) 10 0) ACC 1.
Definition old1 : spath := mkSP (mkP (map fr [10; 12; 14; 16]) 10 0) ACC 1.
End Clock2.


(* ------------------------------------------------------------------ concrete instances with two different length limits *)
Module Limits.
Definition dumpf (lab : dlabel) (t : Z) : Z := match lab with DSecond => 100000 + t | DSecondLast => 200000 + t end.
Definition fr (tag o : Z) : frame := mkF o tag false 0.
Definition with_maxlen (e : ens) (m : nat) : ens :=
  mkEns (e_i0 e) (e_i1 e) (e_i2 e) (e_scL e) (e_scR e) (e_move e) m (e_cap e) (e_accept_all e).
(* maxlength([0-]) = 6 < maxlength([0+]) = 12 *)
Definition e0 : ens := mkEns (-100) 2 2 false true Msh 6 None false.
Definition e1 : ens := mkEns 2 2 5 true false Msh 12 None false.
Definition old0 : spath := mkSP (mkP [fr 100 3; fr 101 1; fr 102 0; fr 103 4] 6 0) ACC 1.
Definition old1 : spath := mkSP (mkP [fr 200 1; fr 201 3; fr 202 5; fr 203 6] 12 0) ACC 1.
(* backward run from old[0+][0]: 1 0 2 7 (stops at its 4th frame); forward run from old[0-][-1]: 4 5 3 4 5 3 1 (7th) *)
Definition streams : list (list frame) :=
  [ [mkF 1 1000 true 0; mkF 0 1001 true 0; mkF 2 1002 true 0; mkF 7 1003 true 0; mkF 1 1004 true 0];
    [mkF 4 2000 false 0; mkF 5 2001 false 0; mkF 3 2002 false 0; mkF 4 2003 false 0; mkF 5 2004 false 0;
     mkF 3 2005 false 0; mkF 1 2006 false 0; mkF 4 2007 false 0] ].
(* maxlength([0-]) = 12 > maxlength([0+]) = 5; backward run 1 0 2 1 0 7 (stops at its 6th frame), forward run 4 1 *)
Definition e0b : ens := with_maxlen e0 12.
Definition e1b : ens := with_maxlen e1 5.
Definition streams_b : list (list frame) :=
  [ [mkF 1 1000 true 0; mkF 0 1001 true 0; mkF 2 1002 true 0; mkF 1 1003 true 0; mkF 0 1004 true 0; mkF 7 1005 true 0];
    [mkF 4 2000 false 0; mkF 1 2001 false 0] ].
(* QuanTIS *)
Definition vpot (t : Z) : option Q := Some 0%Q.
Definition qstreams : list (list frame) :=
  [ [mkF 1 1000 false 0; mkF 3 1001 false 0]; [mkF 0 2000 false 0; mkF 3 2001 false 0];
    [mkF 1 3000 true 0; mkF 0 3001 true 0; mkF 4 3002 true 0]; [mkF 3 4000 false 0; mkF 4 4001 false 0; mkF 1 4002 false 0] ].
Definition qstreams_long : list (list frame) :=
  [ [mkF 1 1000 false 0; mkF 3 1001 false 0]; [mkF 0 2000 false 0; mkF 3 2001 false 0];
    [mkF 1 3000 true 0; mkF 4 3001 true 0]; [mkF 3 4000 false 0; mkF 4 4001 false 0; mkF 4 4002 false 0; mkF 1 4003 false 0] ].

Lemma old0_valid : minus_valid e0 (sp_path old0).
Proof.
  eexists _, [_; _], _. split; [reflexivity|]. split; [discriminate|]. split; [reflexivity|].
  split; [intros _; reflexivity|]. split; [intros f [<-|[<-|[]]]; reflexivity|]. vm_compute. discriminate.
Qed.
Lemma old1_valid : plus_valid e1 (sp_path old1).
Proof.
  eexists _, [_; _], _. split; [reflexivity|]. split; [discriminate|]. split; [reflexivity|].
  intros f [<-|[<-|[]]]; reflexivity.
Qed.
End Limits.

(* ------------------------------------------------------------------ the code before the repair (fixed = false) *)

(* with equal limits (infretis' own set-up: one shared tis_set) the repair changes nothing *)
Lemma before_fix_same_on_equal_limits dumpf vpot_of expf e0 e1 :
  e_maxlen e0 = e_maxlen e1 ->
  retis_swap_zero_before_fix dumpf e0 e1 = retis_swap_zero dumpf e0 e1 /\
  quantis_swap_zero_before_fix vpot_of expf e0 e1 = quantis_swap_zero vpot_of expf e0 e1.
Proof.
  intros Heq.
  unfold retis_swap_zero_before_fix, retis_swap_zero, retis_swap_zero_g, retis_path0_g,
         quantis_swap_zero_before_fix, quantis_swap_zero, quantis_swap_zero_g, quantis_complete_g.
  rewrite Heq. split; reflexivity.
Qed.

(* the code before the repair accepted an incomplete new [0-] path; the code, on the same input,
   accepts the complete one *)
Lemma swap_valid_limit_order_refuted :
  exists dumpf e0 e1 old0 old1 streams sp0 sp1 calls,
    (e_maxlen e1 < e_maxlen e0)%nat /\ e_i0 e0 <= e_i1 e0 <= e_i2 e0 /\
    minus_valid e0 (sp_path old0) /\ plus_valid e1 (sp_path old1) /\
    retis_swap_zero_before_fix dumpf e0 e1 old0 old1 streams [] = Out true sp0 sp1 ACC calls 0 /\
    plen (sp_path sp0) = e_maxlen e1 /\
    (exists a rest, orders (sp_path sp0) = a :: rest /\ e_i0 e0 <= a <= e_i2 e0) /\
    exists sp0' sp1' calls',
      retis_swap_zero dumpf e0 e1 old0 old1 streams [] = Out true sp0' sp1' ACC calls' 0 /\
      orders (sp_path sp0') = [7; 0; 1; 2; 0; 1; 3] /\ sp_path sp1' = sp_path sp1.
Proof.
  exists Limits.dumpf, Limits.e0b, Limits.e1b, Limits.old0, Limits.old1, Limits.streams_b.
  eexists _, _, _.
  split; [vm_compute; lia|]. split; [vm_compute; split; discriminate|].
  split; [exact Limits.old0_valid|]. split; [exact Limits.old1_valid|].
  split; [vm_compute; reflexivity|]. split; [reflexivity|].
  split; [exists 1, [2; 0; 1; 3]; split; [reflexivity|]; vm_compute; split; discriminate|].
  eexists _, _, _. split; [vm_compute; reflexivity|]. split; reflexivity.
Qed.

Lemma forward_segment_minus_limit_refuted :
  exists dumpf e0 e1 old0 old1 streams sp0 sp1 calls,
    (e_maxlen e0 < e_maxlen e1)%nat /\ e_i0 e0 <= e_i1 e0 <= e_i2 e0 /\
    minus_valid e0 (sp_path old0) /\ plus_valid e1 (sp_path old1) /\
    retis_swap_zero_fwd_minus_limit dumpf e0 e1 old0 old1 streams [] = Out true sp0 sp1 ACC calls 0 /\
    (3 <= plen (sp_path sp1) < e_maxlen e1)%nat /\
    (exists pre b, orders (sp_path sp1) = pre ++ [b] /\ e_i0 e1 <= b <= e_i2 e1) /\
    ~ (exists a mid b, orders (sp_path sp1) = a :: mid ++ [b] /\ (b < e_i0 e1 \/ e_i2 e1 < b)) /\
    exists sp0' sp1' calls',
      retis_swap_zero dumpf e0 e1 old0 old1 streams [] = Out true sp0' sp1' ACC calls' 0 /\
      orders (sp_path sp1') = [0; 4; 5; 3; 4; 5; 3; 1].
Proof.
  exists Limits.dumpf, Limits.e0, Limits.e1, Limits.old0, Limits.old1, Limits.streams.
  eexists _, _, _.
  split; [vm_compute; lia|]. split; [vm_compute; split; discriminate|].
  split; [exact Limits.old0_valid|]. split; [exact Limits.old1_valid|].
  split; [vm_compute; reflexivity|].
  split; [vm_compute; lia|].
  split; [exists [0; 4; 5; 3; 4], 5; split; [reflexivity|vm_compute; split; discriminate]|].
  split.
  - intros (a & mid & b & E & Hb).
    change (orders _) with ([0; 4; 5; 3; 4] ++ [5]) in E.
    change (a :: mid ++ [b]) with ((a :: mid) ++ [b]) in E.
    apply app_inj_tail in E as [_ <-]. vm_compute in Hb. destruct Hb as [Hb|Hb]; discriminate.
  - eexists _, _, _. split; [vm_compute; reflexivity|]. reflexivity.
Qed.

(* the code before the repair measured the new [0+] path against the [0-] limit; the code, on the
   same inputs, rejects the path that is not below the [0+] limit (FTX) and accepts the one that is *)
Lemma quantis_limit_order_refuted :
  (exists vpot_of expf e0 e1 b0 b1 old0 old1 streams draws p0 p1 calls,
     (e_maxlen e1 < e_maxlen e0)%nat /\
     quantis_swap_zero_before_fix vpot_of expf e0 e1 b0 b1 old0 old1 streams draws = Out true p0 p1 ACC calls 1 /\
     first_frame_honest streams calls /\
     (e_maxlen e1 <= plen (sp_path p1))%nat /\
     exists p0' p1' calls',
       quantis_swap_zero vpot_of expf e0 e1 b0 b1 old0 old1 streams draws = Out false p0' p1' FTX calls' 1 /\
       sp_status p1' = FTX) /\
  (exists vpot_of expf e0 e1 b0 b1 old0 old1 streams draws p0 p1 calls,
     (e_maxlen e0 < e_maxlen e1)%nat /\
     quantis_swap_zero_before_fix vpot_of expf e0 e1 b0 b1 old0 old1 streams draws = Out false p0 p1 FTX calls 1 /\
     sp_status p0 = ACC /\ sp_status p1 = FTX /\
     (3 <= plen (sp_path p1) < e_maxlen e1)%nat /\
     (exists pre b, orders (sp_path p1) = pre ++ [b] /\ b < e_i0 e1) /\
     exists p0' p1' calls',
       quantis_swap_zero vpot_of expf e0 e1 b0 b1 old0 old1 streams draws = Out true p0' p1' ACC calls' 1 /\
       orders (sp_path p1') = orders (sp_path p1)).
Proof.
  split.
  - exists Limits.vpot, (fun _ => 1%Q), (Limits.with_maxlen Limits.e0 8), (Limits.with_maxlen Limits.e1 4), 1%Q, 1%Q,
           Limits.old0, Limits.old1, Limits.qstreams, [(1 # 2)%Q].
    eexists _, _, _.
    split; [vm_compute; lia|]. split; [vm_compute; reflexivity|].
    split; [|split; [vm_compute; lia|]].
    + intros [|[|[|[|k]]]] c s g Hc Hs Hg; cbn in Hc, Hs; try (destruct k; discriminate);
        injection Hc as <-; injection Hs as <-; injection Hg as <-; reflexivity.
    + eexists _, _, _. split; [vm_compute; reflexivity|]. reflexivity.
  - exists Limits.vpot, (fun _ => 1%Q), (Limits.with_maxlen Limits.e0 5), (Limits.with_maxlen Limits.e1 8), 1%Q, 1%Q,
           Limits.old0, Limits.old1, Limits.qstreams_long, [(1 # 2)%Q].
    eexists _, _, _.
    split; [vm_compute; lia|]. split; [vm_compute; reflexivity|].
    split; [reflexivity|]. split; [reflexivity|]. split; [vm_compute; lia|].
    split; [exists [0; 3; 4; 4], 1; split; reflexivity|].
    eexists _, _, _. split; [vm_compute; reflexivity|]. reflexivity.
Qed.

(* ================================================================== QuanTIS: validity of the new [0-] path *)
(* quantis_swap_zero tests the finished new [0-] path against the start condition of ITS OWN
   ensemble (ens_set0["start_cond"], e_scL e0) and ITS OWN interfaces (left interface e_i0 e0,
   finite with lambda_minus_one): "0-L" unless "L" is an allowed start. *)
Section QV.
Variable vpot_of : Z -> option Q.
Variable expf : Q -> Q.

(* what an accepted quantis_complete determines about the new [0-] path *)
Lemma quantis_complete_acc_minus e0 e1 tmp0 tmp1 sc streams calls nd p0 p1 st calls' nd' :
  quantis_complete e0 e1 tmp0 tmp1 sc streams calls nd = Out true p0 p1 st calls' nd' ->
  exists s2 rest k2,
    streams = s2 :: rest /\
    pts (sp_path p0) = rev (firstn k2 s2) ++ tl (pts tmp0) /\
    (1 <= k2 <= length s2)%nat /\
    (3 <= plen (sp_path p0) < e_maxlen e0)%nat /\
    ((k2 < e_maxlen e0 - 1)%nat -> stops_at (e_i0 e0) (e_i2 e0) s2 k2) /\
    (e_scL e0 = false -> has_L_start_end (sp_path p0) e0 = false).
Proof.
  unfold quantis_complete, quantis_complete_g. intros H.
  destruct (first_frame tmp0) as [t00|] eqn:Et00; [|discriminate].
  destruct (negb sc); [discriminate|].
  destruct (engine_call _ _ streams _ true _ _) as [[[back0 str1] c2]|] eqn:E2; [|discriminate].
  set (new0 := paste back0 tmp0 true (Some (e_maxlen e0))) in *.
  destruct (Nat.leb_spec (e_maxlen e0) (plen new0)) as [|Hlt0]; [discriminate|].
  destruct (Nat.ltb_spec (plen new0) 3) as [|Hge0]; [discriminate|].
  destruct (negb (e_scL e0) && has_L_start_end new0 e0) eqn:EL; [discriminate|]. cbn [is_acc negb] in H.
  destruct (last_frame tmp1) as [t1l|] eqn:Et1l; [|discriminate].
  destruct (Z.ltb_spec (ford (copy_frame 0 t1l)) (e_i2 e0)) as [|Hge]; [discriminate|].
  destruct (engine_call _ _ str1 _ false _ _) as [[[forw1 str2] c3]|] eqn:E3; [|discriminate].
  set (new1 := paste (reverse 0 tmp1 false) forw1 true (Some (e_maxlen e1))) in *.
  destruct (start_point new1 _ _) as [sp|]; [|discriminate].
  destruct (Nat.eqb_spec (plen new1) (e_maxlen e1)) as [|Hne1]; [discriminate|].
  destruct (Nat.ltb_spec (plen new1) 3) as [|Hge1]; [discriminate|].
  destruct sp; cbn [negb is_acc] in H; try discriminate.
  inversion H; subst; clear H. cbn [sp_path].
  apply engine_call_inv in E2. destruct E2 as (s2 & k2 & -> & Ep2 & _ & _ & Hk2 & Hk2l & _ & Hstop & _).
  exists s2, str1, k2.
  split; [reflexivity|].
  assert (Hp0 : pts new0 = rev (firstn k2 s2) ++ tl (pts tmp0)).
  { pose proof (paste_pts back0 tmp0 true (e_maxlen e0)) as Hp. fold new0 in Hp. unfold forw_part in Hp. rewrite Ep2 in Hp.
    rewrite Hp. apply firstn_short. rewrite <- Hp. exact Hlt0. }
  split; [exact Hp0|]. split; [lia|]. split; [lia|]. split; [exact Hstop|].
  intros HscL. rewrite HscL in EL. cbn [negb andb] in EL. exact EL.
Qed.

(* The new [0-] path of an accepted QuanTIS swap is a valid path of the [0-] ensemble (ordered
   [0-] interfaces, honest first frames): a :: mid ++ [b] with a non-empty interior, a strictly
   outside [lambda_-1, lambda_0] and — unless "L" is in the start condition OF [0-] — to the right of
   lambda_0 (a path that left through lambda_-1 is never accepted then), every interior frame
   inside [lambda_-1, lambda_0], b strictly right of lambda_0. *)
Theorem quantis_swap_valid_minus e0 e1 b0 b1 old0 old1 streams draws p0 p1 st calls nd :
  quantis_swap_zero vpot_of expf e0 e1 b0 b1 old0 old1 streams draws = Out true p0 p1 st calls nd ->
  first_frame_honest streams calls ->
  e_i0 e0 <= e_i1 e0 <= e_i2 e0 ->
  exists a mid b, orders (sp_path p0) = a :: mid ++ [b] /\ mid <> [] /\
    (a < e_i0 e0 \/ e_i2 e0 < a) /\ (e_scL e0 = false -> e_i2 e0 < a) /\
    (forall o, In o mid -> e_i0 e0 <= o <= e_i2 e0) /\ e_i2 e0 < b.
Proof.
  unfold quantis_swap_zero, quantis_swap_zero_g. change (quantis_complete_g true) with quantis_complete.
  destruct (first_frame (sp_path old1)) as [f10|] eqn:Ef10; [|discriminate].
  destruct (last2_frame (sp_path old0)) as [f0m2|] eqn:Ef0m2; [|discriminate].
  destruct (is_none _ || is_none _); [discriminate|].
  destruct (Z.ltb_spec (ford (copy_frame 0 f10)) (e_i2 e0)) as [HL0|]; [|discriminate].
  destruct (Z.ltb_spec (ford (copy_frame 0 f0m2)) (e_i2 e0)) as [HL1|]; [|discriminate].
  cbn [negb orb copy_frame ford] in *.
  destruct (engine_call _ (empty_path 2 0) streams _ false _ _) as [[[tmp0 str1] c0]|] eqn:E0; [|discriminate].
  destruct (end_is_R1 tmp0 (e_i2 e0)) eqn:ER0; cbn [negb]; [|discriminate].
  destruct (engine_call _ (empty_path 2 0) str1 _ false _ _) as [[[tmp1 str2] c1]|] eqn:E1; [|discriminate].
  destruct (end_is_R1 tmp1 (e_i2 e0)) eqn:ER1; cbn [negb]; [|discriminate].
  destruct (quantis_energies _ _ _ _ _) as [en|]; [|discriminate].
  destruct draws as [|u drest]; [discriminate|].
  intros H Hhon Hord.
  assert (Hc : quantis_complete e0 e1 tmp0 tmp1 true str2 [c0; c1] 1 = Out true p0 p1 st calls nd).
  { destruct (e_accept_all e0 || Qle_bool u _); [exact H|discriminate]. }
  clear H.
  apply engine_call_inv in E0. destruct E0 as (s0 & k0 & -> & Ep0 & Em0 & _ & Hk0 & Hk0l & _ & _ & ->).
  apply engine_call_inv in E1. destruct E1 as (s1 & k1 & -> & Ep1 & Em1 & _ & Hk1 & Hk1l & _ & _ & ->).
  pose proof Hc as Hcalls.
  apply quantis_complete_acc in Hcalls; [|unfold plen; rewrite Ep1, Em1, firstn_length; lia].
  destruct Hcalls as (t00 & t1l & s2' & s3 & rest' & k2' & k3 & _ & _ & _ & _ & _ & _ & _ & _ & _ & _ & ->).
  apply quantis_complete_acc_minus in Hc.
  destruct Hc as (s2 & rest & k2 & -> & Hp0 & Hk2 & Hl0 & Hstop & HL).
  cbn [app] in Hhon.
  apply end_is_R1_spec in ER0 as (pre0 & l0 & El0 & Hl0R).
  destruct s0 as [|g0 r0]; [cbn in Hk0l; lia|].
  assert (Hg0 : ford g0 = ford f10) by (apply (Hhon 0%nat _ _ g0 eq_refl eq_refl eq_refl)).
  (* the one-step path of [0-] has two frames *)
  destruct k0 as [|[|k0]]; [lia| |].
  { exfalso. rewrite Ep0 in El0. cbn [firstn] in El0. destruct pre0 as [|? [|]]; try discriminate.
    injection El0 as <-. lia. }
  assert (k0 = 0%nat) by lia. subst k0.
  destruct r0 as [|H0 r0]; [cbn in Hk0l; lia|].
  cbn [firstn] in Ep0. rewrite Ep0 in El0, Hp0.
  assert (l0 = H0).
  { change [g0; H0] with ([g0] ++ [H0]) in El0. apply app_inj_tail in El0. symmetry. apply El0. }
  subst l0. cbn [tl] in Hp0.
  (* the backward run was stopped by an interface: its container had room left *)
  assert (Hlen0 : plen (sp_path p0) = (k2 + 1)%nat).
  { unfold plen. rewrite Hp0, app_length, rev_length, firstn_length. cbn [length]. lia. }
  assert (Hst : stops_at (e_i0 e0) (e_i2 e0) s2 k2) by (apply Hstop; lia).
  pose proof Hst as (_ & Hpre & _).
  destruct (stops_at_split _ _ _ _ Hst) as (lastf & _ & Hcr & Hf & Hlen).
  rewrite Hf, rev_app_distr in Hp0. cbn [rev app] in Hp0.
  set (mid := rev (firstn (k2 - 1) s2)) in *.
  assert (Hmidlen : length mid = (k2 - 1)%nat) by (unfold mid; rewrite rev_length; exact Hlen).
  assert (Hor : orders (sp_path p0) = ford lastf :: map ford mid ++ [ford H0]).
  { unfold orders. rewrite Hp0. cbn [map]. rewrite map_app. reflexivity. }
  exists (ford lastf), (map ford mid), (ford H0).
  split; [exact Hor|].
  split; [intros E; apply (f_equal (@length Z)) in E; rewrite map_length, Hmidlen in E; cbn in E; lia|].
  apply crossedb_true in Hcr.
  split; [exact Hcr|].
  split.
  - intros HscL. specialize (HL HscL). apply (has_L_start _ _ _ _ Hord Hor) in HL.
    destruct Hcr as [Hcr|Hcr]; [|exact Hcr]. exfalso. apply HL. unfold classify.
    destruct (Z.leb_spec (ford lastf) (e_i0 e0)); [reflexivity|lia].
  - split; [|exact Hl0R].
    intros o Ho. apply in_map_iff in Ho. destruct Ho as (f & <- & Hf'). apply crossedb_false, Hpre.
    unfold mid in Hf'. apply in_rev in Hf'. exact Hf'.
Qed.

(* ... in particular the new [0-] path starts on a side its own ensemble's start condition allows *)
Theorem quantis_start_cond e0 e1 b0 b1 old0 old1 streams draws p0 p1 st calls nd :
  quantis_swap_zero vpot_of expf e0 e1 b0 b1 old0 old1 streams draws = Out true p0 p1 st calls nd ->
  first_frame_honest streams calls ->
  e_i0 e0 <= e_i1 e0 <= e_i2 e0 ->
  exists a rest, orders (sp_path p0) = a :: rest /\
    (a < e_i0 e0 /\ e_scL e0 = true \/ e_i2 e0 < a).
Proof.
  intros H Hh Ho.
  destruct (quantis_swap_valid_minus _ _ _ _ _ _ _ _ _ _ _ _ _ H Hh Ho) as (a & mid & b & Hor & _ & Hout & Hsc & _).
  exists a, (mid ++ [b]). split; [exact Hor|].
  destruct Hout as [Hl|Hr]; [|right; exact Hr].
  destruct (e_scL e0) eqn:E; [left; split; [exact Hl|reflexivity]|right; apply Hsc; reflexivity].
Qed.

End QV.

(* ------------------------------------------------------------------ start condition "L" alone *)
(* Both moves only test the finished new [0-] path for a FORBIDDEN "L" ("L" not in start_cond and "L" in
   check_interfaces(...)[:2]).  With a start condition of [0-] that is "L" alone (finite lambda_-1; not a
   set-up infretis creates itself: initiate_ensembles gives "R" or ["L", "R"]) a new [0-] path that starts on
   the RIGHT of lambda_0 is accepted by both.  Witness: interfaces (0, 1, 2) / (2, 2, 5), old paths
   -1 1 3 / 0 3 1, backward run 0 3: accepted new [0-] path 3 0 3. *)
Module StartL.
Definition fr (tag o : Z) : frame := mkF o tag false 0.
Definition e0 : ens := mkEns 0 1 2 true false Msh 15 None false.
Definition e1 : ens := mkEns 2 2 5 true false Msh 15 None false.
Definition old0 : spath := mkSP (mkP [fr 100 (-1); fr 101 1; fr 102 3] 15 0) ACC 1.
Definition old1 : spath := mkSP (mkP [fr 200 0; fr 201 3; fr 202 1] 15 0) ACC 1.
Definition streams : list (list frame) :=
  [ [mkF 0 1000 true 0; mkF 3 1001 true 0]; [mkF 3 2000 false 0; mkF 1 2001 false 0] ].
Definition qstreams : list (list frame) :=
  [ [mkF 0 1000 false 0; mkF 3 1001 false 0]; [mkF 1 2000 false 0; mkF 3 2001 false 0];
    [mkF 0 3000 true 0; mkF 3 3001 true 0]; [mkF 3 4000 false 0; mkF 1 4001 false 0] ].
End StartL.

Lemma start_cond_L_only_refuted :
  e_scL StartL.e0 = true /\ e_scR StartL.e0 = false /\ e_i0 StartL.e0 <= e_i1 StartL.e0 <= e_i2 StartL.e0 /\
  minus_valid StartL.e0 (sp_path StartL.old0) /\ plus_valid StartL.e1 (sp_path StartL.old1) /\
  (exists sp0 sp1 calls,
     retis_swap_zero Limits.dumpf StartL.e0 StartL.e1 StartL.old0 StartL.old1 StartL.streams [] = Out true sp0 sp1 ACC calls 0 /\
     first_frame_honest StartL.streams calls /\
     orders (sp_path sp0) = [3; 0; 3] /\ e_i2 StartL.e0 < 3) /\
  (exists p0 p1 calls,
     quantis_swap_zero Limits.vpot (fun _ => 1%Q) StartL.e0 StartL.e1 1 1 StartL.old0 StartL.old1 StartL.qstreams [(1 # 2)%Q]
       = Out true p0 p1 ACC calls 1 /\
     first_frame_honest StartL.qstreams calls /\
     orders (sp_path p0) = [3; 0; 3] /\ e_i2 StartL.e0 < 3).
Proof.
  split; [reflexivity|]. split; [reflexivity|]. split; [vm_compute; split; discriminate|].
  split.
  { exists (StartL.fr 100 (-1)), [StartL.fr 101 1], (StartL.fr 102 3).
    split; [reflexivity|]. split; [discriminate|]. split; [reflexivity|]. split; [discriminate|].
    split; [|vm_compute; discriminate]. intros f [<-|[]]. reflexivity. }
  split.
  { exists (StartL.fr 200 0), [StartL.fr 201 3], (StartL.fr 202 1).
    split; [reflexivity|]. split; [discriminate|]. split; [reflexivity|]. intros f [<-|[]]. reflexivity. }
  split.
  - eexists _, _, _. split; [vm_compute; reflexivity|]. split; [|split; [reflexivity|reflexivity]].
    intros [|[|k]] c s g Hc Hs Hg; cbn in Hc, Hs; try (destruct k; discriminate);
      injection Hc as <-; injection Hs as <-; injection Hg as <-; reflexivity.
  - eexists _, _, _. split; [vm_compute; reflexivity|]. split; [|split; [reflexivity|reflexivity]].
    intros [|[|[|[|k]]]] c s g Hc Hs Hg; cbn in Hc, Hs; try (destruct k; discriminate);
      injection Hc as <-; injection Hs as <-; injection Hg as <-; reflexivity.
Qed.
