(* Proofs for property C17, stop + restart: the main loop of the scheduler stopped after any
   number of consumed results (between two iterations), then a new run started from the step
   counter in the restart file, with any worker count and any completion order in both runs:
   the results consumed by the two runs add up to exactly the requested number of steps. *)
From Coq Require Import ZArith List Bool Lia Permutation.
Import ListNotations.
From Inf Require Import model.SchedM proofs.SchedP.
Open Scope nat_scope.

(* the first n iterations of "while state.loop(): ..." (SchedM.main_loop without the fuel and
   without running to the end) *)
Fixpoint main_prefix (n : nat) (s : sch) (sched : list nat) : sch :=
  match n with
  | 0 => s
  | S n' =>
      let '(b, s1) := loop s in
      if negb b then s1 else
      let s2 := complete s1 (hd 0 sched) in
      let s3 := if cstep s2 + workers s2 <=? tsteps s2 then submit s2 else s2 in
      main_prefix n' s3 (tl sched)
  end.

Lemma skipn_S_tl {A} : forall n (l : list A), skipn (S n) l = skipn n (tl l).
Proof. intros n [|x l]; [destruct n; reflexivity|reflexivity]. Qed.

Section Crash.
  Variables c0 T W : nat.
  Hypothesis HW : 1 <= W.
  Hypothesis HD : c0 <= T.

  Lemma prefix_J : forall n k s sched,
    J c0 T W k s -> k + n <= T - c0 ->
    J c0 T W (k + n) (main_prefix n s sched) /\
    (* the prefix is what the scheduler's main loop does first *)
    forall fuel, main_loop (n + fuel) s sched = main_loop fuel (main_prefix n s sched) (skipn n sched).
  Proof.
    induction n as [|n IH]; intros k s sched HJ Hk.
    - rewrite Nat.add_0_r. split; [exact HJ|reflexivity].
    - destruct HJ as (J1 & J2 & J3 & J4 & J5 & J6 & J7).
      cbn [main_prefix main_loop Nat.add]. setoid_rewrite skipn_S_tl. unfold loop. rewrite J1, J2.
      assert (E : T <=? c0 + k = false) by (apply Nat.leb_gt; lia). rewrite E.
      cbn [set_cstep cstep tsteps]. rewrite ?J2.
      assert (E2 : S (c0 + k) <=? T = true) by (apply Nat.leb_le; lia). rewrite E2. cbn [negb].
      assert (Lp : length (pending s) = submitted s - k).
      { pose proof (Permutation_length J6) as L. rewrite app_length, seq_length in L. lia. }
      assert (Np : 1 <= length (pending s)) by lia.
      set (i := hd 0 sched mod length (pending s)).
      assert (Hi : i < length (pending s)) by (apply Nat.mod_upper_bound; lia).
      set (s2 := write_toml (mkS (S (c0 + k)) (tsteps s) (workers s) (toinit s) (remove_nth i (pending s)) (submitted s)
                                 (completed s ++ [nth i (pending s) 0]) (restart_cstep s) (restart_locked s))).
      assert (Ec : complete (set_cstep s (S (c0 + k))) (hd 0 sched) = s2).
      { unfold complete, set_cstep. cbn [pending]. destruct (pending s) eqn:Ep; [cbn in Np; lia|]. reflexivity. }
      rewrite Ec.
      assert (P2 : Permutation (completed s2 ++ pending s2) (seq 0 (submitted s))).
      { cbn [s2 write_toml completed pending]. rewrite <- J6, <- app_assoc. apply Permutation_app_head. cbn [app].
        apply remove_nth_perm. exact Hi. }
      assert (F2 : cstep s2 = S (c0 + k) /\ tsteps s2 = T /\ workers s2 = W /\ submitted s2 = submitted s /\
                   length (completed s2) = S k /\ restart_cstep s2 = S (c0 + k)).
      { cbn [s2 write_toml cstep tsteps workers submitted completed restart_cstep]. rewrite app_length, J4. cbn. repeat split; auto; lia. }
      destruct F2 as (F21 & F22 & F23 & F24 & F25 & F26).
      rewrite F21, F22, F23.
      replace (k + S n) with (S k + n) by lia.
      destruct (S (c0 + k) + W <=? T) eqn:Es.
      + apply Nat.leb_le in Es.
        apply IH; [|lia].
        unfold J. cbn [submit cstep tsteps workers completed submitted pending restart_cstep].
        rewrite F21, F22, F23, F24, F25, F26.
        repeat split; auto; try lia.
        rewrite seq_S, app_assoc. cbn [Nat.add]. apply Permutation_app_tail. exact P2.
      + apply Nat.leb_gt in Es.
        apply IH; [|lia].
        unfold J. rewrite F21, F22, F23, F24, F25, F26.
        repeat split; auto; try lia.
  Qed.

  (* the state after the start-up phase satisfies J 0 *)
  Lemma init_J : exists s0, init_phase (W + 2) (start c0 T W) = Some s0 /\ J c0 T W 0 s0.
  Proof.
    destruct (Nat.eq_dec c0 T) as [Heq|Hne].
    { exists (start c0 T W). split.
      - replace (W + 2) with (S (W + 1)) by lia. unfold init_phase. cbn [init_phase_g]. unfold initiate_g. cbn [start cstep tsteps].
        assert (E : c0 <? T = false) by (apply Nat.ltb_ge; lia). rewrite E. reflexivity.
      - unfold J. cbn. replace (T - c0) with 0 by lia. rewrite Nat.min_0_r. repeat split; auto; lia. }
    destruct (init_phase_spec (Nat.min W (T - c0)) (W + 2) (start c0 T W)) as (s & R & A1 & A2 & A3 & A4 & A5 & A6 & A7 & A8).
    { cbn. lia. } { cbn. lia. } { cbn. lia. } { cbn. rewrite Nat2Z.id. lia. } { cbn. rewrite Nat2Z.id. lia. } { lia. }
    exists s. split; [exact R|]. cbn in A1, A2, A3, A5, A6, A7, A8.
    unfold J. rewrite A1, A2, A3, A5, A6, A7, A8. cbn. repeat split; auto; try lia.
  Qed.

  (* stop after n consumed results, restart from the file with W2 workers *)
  Theorem crash_restart_total : forall n W2 sched1 sched2, n <= T - c0 -> 1 <= W2 ->
    exists s0 s', init_phase (W + 2) (start c0 T W) = Some s0 /\
      restart_cstep (main_prefix n s0 sched1) = c0 + n /\ cstep (main_prefix n s0 sched1) = c0 + n /\
      length (completed (main_prefix n s0 sched1)) = n /\
      NoDup (completed (main_prefix n s0 sched1) ++ pending (main_prefix n s0 sched1)) /\
      scheduler (restart_cstep (main_prefix n s0 sched1)) T W2 sched2 = Some s' /\
      length (completed (main_prefix n s0 sched1)) + length (completed s') = T - c0 /\
      cstep s' = T /\ pending s' = [] /\ restart_cstep s' = T /\ restart_locked s' = [].
  Proof.
    intros n W2 sched1 sched2 Hn HW2.
    destruct init_J as (s0 & R & HJ0). exists s0.
    destruct (prefix_J n 0 s0 sched1 HJ0 ltac:(lia)) as (HJ & _). cbn [Nat.add] in HJ.
    destruct HJ as (J1 & J2 & J3 & J4 & J5 & J6 & J7).
    destruct (scheduler_steps_exact (c0 + n) T W2 HW2 ltac:(lia) sched2) as (s' & Rs & B1 & B2 & B3 & B4 & B5 & B6 & B7).
    exists s'. split; [exact R|]. rewrite J7.
    repeat split; auto; try lia.
    apply (Permutation_NoDup (Permutation_sym J6)). apply seq_NoDup.
  Qed.

  (* the stopped state is a state the uninterrupted scheduler passes through *)
  Theorem prefix_is_scheduler : forall n sched, n <= T - c0 ->
    exists s0, init_phase (W + 2) (start c0 T W) = Some s0 /\
      scheduler c0 T W sched = main_loop (T - c0 - n + 2) (main_prefix n s0 sched) (skipn n sched).
  Proof.
    intros n sched Hn. destruct init_J as (s0 & R & HJ0). exists s0. split; [exact R|].
    destruct (prefix_J n 0 s0 sched HJ0 ltac:(lia)) as (_ & HM).
    unfold scheduler, scheduler_g. fold init_phase. rewrite R.
    replace (T - c0 + 2) with (n + (T - c0 - n + 2)) by lia. apply HM.
  Qed.
End Crash.
