(* inf_retis sorts the rows of the idle block ("non_locked[sort_idx]"), computes P on the
   sorted block and undoes the sorting with "out[sort_idx] = out.copy()".  Structural law:
   that assignment is the INVERSE of the row selection, for every permutation; the variant
   "out = out[sort_idx]" (the selection applied once more) agrees with it on involutions only
   and is refuted on a 3-cycle. *)
From Coq Require Import QArith List Arith Lia Permutation.
Import ListNotations.
From Inf Require Import model.PermM proofs.PermPermuteP.

Definition select_rows (idx : list nat) (M : matrix) : matrix := map (rownth M) idx.

Lemma NoDup_index_of_nth : forall (l : list nat) k, NoDup l -> (k < length l)%nat -> index_of (nth k l O) l = k.
Proof.
  induction l as [|x l IH]; intros k ND Hk; [cbn in Hk; lia|].
  inversion ND as [|? ? Hx ND']; subst. destruct k as [|k]; cbn [nth index_of].
  - rewrite Nat.eqb_refl. reflexivity.
  - destruct (Nat.eqb_spec x (nth k l O)) as [E|NE].
    + exfalso. apply Hx. rewrite E. apply nth_In. cbn in Hk. lia.
    + f_equal. apply IH; [exact ND'|cbn in Hk; lia].
Qed.

Theorem unsort_select : forall n idx (M : matrix),
  Permutation idx (seq 0 n) -> length M = n -> unsort idx (select_rows idx M) = M.
Proof.
  intros n idx M HP LM.
  assert (L : length idx = n) by (rewrite (Permutation_length HP); apply seq_length).
  unfold unsort, select_rows. rewrite map_length, L.
  apply (nth_ext _ _ [] []).
  - rewrite map_length, seq_length. symmetry. exact LM.
  - intros i Hi. rewrite map_length, seq_length in Hi.
    rewrite (nth_indep _ [] ((fun i0 => rownth (map (rownth M) idx) (index_of i0 idx)) O))
      by (rewrite map_length, seq_length; exact Hi).
    rewrite (map_nth (fun i0 => rownth (map (rownth M) idx) (index_of i0 idx))). rewrite seq_nth by exact Hi. cbn [Nat.add].
    assert (Hin : In i idx) by (apply (Permutation_in _ (Permutation_sym HP)); apply in_seq; lia).
    destruct (index_of_In i idx Hin) as [K1 K2].
    unfold rownth at 1.
    rewrite (nth_indep _ [] (rownth M O)) by (rewrite map_length; exact K1).
    rewrite (map_nth (rownth M)). rewrite K2. reflexivity.
Qed.

(* the other direction: selecting the rows of the un-sorted matrix gives the matrix back *)
Theorem select_unsort : forall n idx (P : matrix),
  Permutation idx (seq 0 n) -> length P = n -> select_rows idx (unsort idx P) = P.
Proof.
  intros n idx P HP LP.
  assert (L : length idx = n) by (rewrite (Permutation_length HP); apply seq_length).
  assert (ND : NoDup idx) by (apply (Permutation_NoDup (Permutation_sym HP)); apply seq_NoDup).
  unfold select_rows. apply (nth_ext _ _ [] []).
  - rewrite map_length. congruence.
  - intros k Hk. rewrite map_length in Hk.
    rewrite (nth_indep _ [] (rownth (unsort idx P) O)) by (rewrite map_length; exact Hk).
    rewrite (map_nth (rownth (unsort idx P))).
    assert (Hn : (nth k idx O < n)%nat).
    { assert (In (nth k idx O) (seq 0 n)) by (apply (Permutation_in _ HP); apply nth_In; exact Hk). apply in_seq in H. lia. }
    unfold unsort, rownth at 1. rewrite LP.
    rewrite (nth_indep _ [] ((fun i0 => rownth P (index_of i0 idx)) O)) by (rewrite map_length, seq_length; exact Hn).
    rewrite (map_nth (fun i0 => rownth P (index_of i0 idx))). rewrite seq_nth by exact Hn. cbn [Nat.add].
    rewrite NoDup_index_of_nth by assumption. reflexivity.
Qed.

(* "out = out[sort_idx]" instead of "out[sort_idx] = out.copy()": wrong on a 3-cycle *)
Lemma select_twice_refuted :
  exists idx (M : matrix), Permutation idx (seq 0 3) /\ length M = 3%nat /\
    unsort idx (select_rows idx M) = M /\ select_rows idx (select_rows idx M) <> M.
Proof.
  exists [1; 2; 0]%nat, [[1]; [2]; [3]]. split.
  - apply (perm_trans (l' := [0; 1; 2]%nat)); [|apply Permutation_refl].
    change [1; 2; 0]%nat with ([1; 2] ++ [0])%nat. apply Permutation_sym. apply (Permutation_cons_app [1;2]%nat []%nat 0%nat). rewrite app_nil_r. apply Permutation_refl.
  - split; [reflexivity|]. split; [reflexivity|]. vm_compute. discriminate.
Qed.
