(* Proofs for property C14 (stored paths read back unchanged; live paths never lose files).
   Part A: the three text files and load_path; Part B: the deletion machine. *)
From Coq Require Import ZArith QArith Qabs List Bool Lia Arith.
Import ListNotations.
From Inf Require Import base.ListX gen.ParamsC14 model.CodecM proofs.CodecP model.StoreM.
Open Scope Z_scope.

(* ================================================================== strings *)

Lemma spaces_app a b : spaces (a ++ b) <-> spaces a /\ spaces b.
Proof. unfold spaces. rewrite forallb_app, andb_true_iff. tauto. Qed.

Lemma spaces_rev s : spaces s -> spaces (rev s).
Proof. unfold spaces. rewrite !forallb_forall. intros H x Hx. apply H. now apply in_rev. Qed.

Lemma tokens_aux_all_spaces b : spaces b -> forall cur, tokens_aux cur b = tokens_aux cur [].
Proof.
  intros Hb cur. destruct b as [|c b]; [reflexivity|].
  unfold spaces in Hb. cbn [forallb] in Hb. apply andb_true_iff in Hb. destruct Hb as [Hc Hb].
  cbn [tokens_aux]. rewrite Hc.
  assert (E : tokens_aux [] b = []).
  { rewrite <- (app_nil_r b). now rewrite tokens_aux_spaces. }
  rewrite E. reflexivity.
Qed.

Lemma tokens_aux_trailing b : spaces b -> forall a cur, tokens_aux cur (a ++ b) = tokens_aux cur a.
Proof.
  intros Hb. induction a as [|c a IH]; intros cur.
  - cbn [app]. now apply tokens_aux_all_spaces.
  - cbn [app tokens_aux]. destruct (is_space c); [destruct (is_nil cur)|]; now rewrite IH.
Qed.

Lemma lstrip_decomp s : exists sp, spaces sp /\ s = sp ++ lstrip s.
Proof.
  induction s as [|c s (sp & Hsp & E)]; [exists []; split; reflexivity|].
  cbn [lstrip]. destruct (is_space c) eqn:Ec.
  - exists (c :: sp). split; [unfold spaces; cbn [forallb]; now rewrite Ec|]. cbn [app]. now f_equal.
  - exists []. split; reflexivity.
Qed.

Lemma lstrip_hd s : match lstrip s with c :: _ => is_space c = false | [] => True end.
Proof.
  induction s as [|c s IH]; [exact I|]. cbn [lstrip]. destruct (is_space c) eqn:Ec; [exact IH|exact Ec].
Qed.

Lemma rstrip_decomp s : exists sp, spaces sp /\ s = rstrip s ++ sp.
Proof.
  destruct (lstrip_decomp (rev s)) as (sp & Hsp & E). exists (rev sp). split; [now apply spaces_rev|].
  unfold rstrip. rewrite <- rev_app_distr, <- E. symmetry. apply rev_involutive.
Qed.

Lemma tokens_lstrip s : tokens (lstrip s) = tokens s.
Proof.
  destruct (lstrip_decomp s) as (sp & Hsp & E). unfold tokens. rewrite E at 2. now rewrite tokens_aux_spaces.
Qed.

Lemma tokens_rstrip s : tokens (rstrip s) = tokens s.
Proof.
  destruct (rstrip_decomp s) as (sp & Hsp & E). unfold tokens. rewrite E at 2. now rewrite tokens_aux_trailing.
Qed.

Lemma tokens_strip s : tokens (strip s) = tokens s.
Proof. unfold strip. now rewrite tokens_rstrip, tokens_lstrip. Qed.

Lemma rstrip_hd c r : is_space c = false -> exists r', rstrip (c :: r) = c :: r'.
Proof.
  intros Hc. destruct (rstrip_decomp (c :: r)) as (sp & Hsp & E).
  destruct (rstrip (c :: r)) as [|c' r'] eqn:Er.
  - cbn [app] in E. subst sp. unfold spaces in Hsp. cbn [forallb] in Hsp. rewrite Hc in Hsp. discriminate.
  - cbn [app] in E. injection E as -> _. now exists r'.
Qed.

Lemma is_comment_strip s : is_comment (strip s) = is_comment (lstrip s).
Proof.
  unfold strip. pose proof (lstrip_hd s) as H. destruct (lstrip s) as [|c r]; [reflexivity|].
  destruct (rstrip_hd c r H) as (r' & ->). reflexivity.
Qed.

(* a line that starts with a character which is neither blank nor "#" *)
Lemma not_comment_line k c r : is_space c = false -> c <> c_hash ->
  is_comment (strip (repeat c_sp k ++ c :: r)) = false.
Proof.
  intros Hc Hh. rewrite is_comment_strip, lstrip_spaces_app by apply spaces_repeat.
  rewrite lstrip_first by exact Hc. cbn [is_comment]. now apply Z.eqb_neq.
Qed.

(* ---- no line break inside a line *)
Definition nonl (s : str) : Prop := forallb (fun c => negb (c =? c_nl)) s = true.

Lemma nonl_app a b : nonl (a ++ b) <-> nonl a /\ nonl b.
Proof. unfold nonl. rewrite forallb_app, andb_true_iff. tauto. Qed.

Lemma nonl_no_char s : nonl s -> no_char c_nl s.
Proof.
  unfold nonl, no_char. rewrite forallb_forall. intros H Hin. specialize (H _ Hin).
  rewrite Z.eqb_refl in H. discriminate.
Qed.

Lemma nonl_nospace s : no_space s -> nonl s.
Proof.
  unfold no_space, nonl. rewrite !forallb_forall. intros H x Hx. specialize (H x Hx).
  destruct (Z.eqb_spec x c_nl) as [->|]; [discriminate H|reflexivity].
Qed.

Lemma nonl_repeat_sp k : nonl (repeat c_sp k).
Proof. unfold nonl. induction k; cbn; auto. Qed.

Lemma nonl_join sep l : nonl sep -> Forall nonl l -> nonl (join_with sep l).
Proof.
  intros Hs. induction 1 as [|a r Ha Hr IH]; [reflexivity|].
  destruct r as [|b r']; [exact Ha|].
  change (join_with sep (a :: b :: r')) with (a ++ sep ++ join_with sep (b :: r')).
  apply nonl_app. split; [exact Ha|]. apply nonl_app. split; [exact Hs|exact IH].
Qed.

Lemma nonl_concat l : Forall nonl l -> nonl (concat l).
Proof. induction 1; [reflexivity|]. cbn [concat]. apply nonl_app. now split. Qed.

(* split_lines undoes render *)
Lemma split_render ls : Forall nonl ls -> split_lines (render ls) = map (fun l => l ++ [c_nl]) ls.
Proof.
  intros H. unfold render. apply split_concat. apply proper_all_term.
  induction H as [|l r Hl Hr IH]; cbn [map]; constructor; [|exact IH].
  exists l. split; [reflexivity|now apply nonl_no_char].
Qed.

Lemma tokens_line l : tokens (strip (l ++ [c_nl])) = tokens l.
Proof. rewrite tokens_strip. unfold tokens. now rewrite tokens_aux_trailing. Qed.

Lemma lstrip_app_nonblank l r : lstrip l <> [] -> lstrip (l ++ r) = lstrip l ++ r.
Proof.
  induction l as [|c l IH]; intros H; [now destruct H|]. cbn [lstrip app] in *.
  destruct (is_space c); [now apply IH|reflexivity].
Qed.

Lemma is_comment_line l : lstrip l <> [] -> is_comment (strip (l ++ [c_nl])) = is_comment (lstrip l).
Proof.
  intros H. rewrite is_comment_strip, lstrip_app_nonblank by exact H.
  destruct (lstrip l); [now destruct H|reflexivity].
Qed.

(* ================================================================== integers *)

Lemma int_digits_cons n : 0 <= n -> exists c r, int_digits n = c :: r /\ is_digit c = true.
Proof.
  intros Hn. pose proof (int_digits_nonempty n Hn) as Hne.
  pose proof (fixed_digits_digits (ndigits n) n) as Hd. fold (int_digits n) in Hd.
  destruct (int_digits n) as [|c r]; [now destruct Hne|]. cbn [forallb] in Hd.
  apply andb_true_iff in Hd. exists c, r. split; [reflexivity|apply Hd].
Qed.

Lemma int_digits_all n : 0 <= n -> all_digits (int_digits n) = true.
Proof.
  intros Hn. unfold all_digits. destruct (int_digits_cons n Hn) as (c & r & E & _).
  pose proof (fixed_digits_digits (ndigits n) n) as Hd. fold (int_digits n) in Hd.
  rewrite Hd, E. reflexivity.
Qed.

Lemma digit_bounds c : is_digit c = true -> 48 <= c <= 57.
Proof. unfold is_digit. intros H. apply andb_true_iff in H. destruct H as [H1 H2]. apply Z.leb_le in H1, H2. lia. Qed.

Lemma parse_int_str z : parse_int (int_str z) = Some z.
Proof.
  unfold int_str. destruct (Z.ltb_spec z 0) as [Hz|Hz].
  - cbn [app parse_int]. rewrite Z.eqb_refl. rewrite int_digits_all, int_digits_value by lia. f_equal. lia.
  - cbn [app]. destruct (int_digits_cons (Z.abs z) ltac:(lia)) as (c & r & E & Hc).
    pose proof (int_digits_all (Z.abs z) ltac:(lia)) as Ha.
    pose proof (int_digits_value (Z.abs z) ltac:(lia)) as Hv. rewrite E in *.
    apply digit_bounds in Hc. unfold parse_int.
    destruct (Z.eqb_spec c c_minus) as [Em|_]; [unfold c_minus in Em; lia|].
    destruct (Z.eqb_spec c c_plus) as [Em|_]; [unfold c_plus in Em; lia|].
    rewrite Ha, Hv. f_equal. lia.
Qed.

Lemma int_str_nospace z : no_space (int_str z).
Proof.
  unfold int_str. apply no_space_app. split; [destruct (z <? 0); reflexivity|].
  unfold int_digits. apply fixed_digits_nospace.
Qed.

Lemma int_str_nonempty z : int_str z <> [].
Proof.
  unfold int_str. intros E. apply app_eq_nil in E. destruct E as [_ E].
  revert E. apply int_digits_nonempty. lia.
Qed.

Lemma int_str_nat_hd i : exists c r, int_str (Z.of_nat i) = c :: r /\ is_space c = false /\ c <> c_hash.
Proof.
  unfold int_str. destruct (Z.ltb_spec (Z.of_nat i) 0) as [H|H]; [lia|]. cbn [app].
  destruct (int_digits_cons (Z.abs (Z.of_nat i)) ltac:(lia)) as (c & r & E & Hc). exists c, r.
  split; [exact E|]. apply digit_bounds in Hc. split.
  - unfold is_space. repeat (apply orb_false_iff; split).
    + apply Z.eqb_neq; lia.
    + apply andb_false_iff. right. apply Z.leb_gt; lia.
    + apply andb_false_iff. right. apply Z.leb_gt; lia.
  - unfold c_hash. lia.
Qed.

(* ================================================================== float fields *)

Lemma fbody_nospace d v : no_space (fbody d v).
Proof. destruct v as [x|]; [apply fixed_body_nospace|reflexivity]. Qed.

Lemma fbody_nonempty d v : fbody d v <> [].
Proof. destruct v as [x|]; [apply fixed_body_nonempty|discriminate]. Qed.

Lemma fixed_body_hd d nz x : exists c r, fixed_body d nz x = c :: r /\ c <> 110.
Proof.
  unfold fixed_body. destruct (is_neg nz x).
  - cbn [app]. eexists _, _. split; [reflexivity|]. unfold c_minus. lia.
  - cbn [app]. destruct (int_digits_cons (Z.abs (scaled d x) / pow10 d) (scaled_div_nonneg d x)) as (c & r & E & Hc).
    rewrite E. cbn [app]. eexists _, _. split; [reflexivity|]. apply digit_bounds in Hc. lia.
Qed.

Lemma parse_field_body d v : parse_field (fbody d v) = Some (rnd d v).
Proof.
  destruct v as [[nz x]|]; [|reflexivity]. cbn [fbody rnd option_map fst snd]. unfold parse_field.
  destruct (fixed_body_hd d nz x) as (c & r & E & Hc).
  assert (Hne : str_eqb (fixed_body d nz x) nan_str = false).
  { rewrite E. unfold nan_str. cbn [str_eqb]. destruct (Z.eqb_spec c 110); [contradiction|reflexivity]. }
  rewrite Hne, parse_fixed_body. reflexivity.
Qed.

Lemma sequence_fields d vs : sequence (map parse_field (map (fbody d) vs)) = Some (map (rnd d) vs).
Proof.
  induction vs as [|v r IH]; [reflexivity|]. cbn [map sequence]. rewrite parse_field_body, IH. reflexivity.
Qed.

(* the written precision: half a unit of the last written decimal *)
Lemma rnd_error d v q : rnd d (Some v) = Some q -> (Qabs (q - snd v) <= 1 # (2 * pow10p d))%Q.
Proof. cbn. intros E. injection E as <-. apply round_d_error. Qed.

(* ================================================================== tokens of a formatted line *)

Definition cell_of (c t : str) : Prop := (exists k, c = repeat c_sp k ++ t) /\ no_space t /\ t <> [].

Lemma pad_left_cell w t : no_space t -> t <> [] -> cell_of (pad_left w t) t.
Proof. intros H1 H2. split; [now exists (w - length t)%nat|split; assumption]. Qed.

Lemma tokens_join sep cells toks : spaces sep -> sep <> [] -> Forall2 cell_of cells toks ->
  tokens (join_with sep cells) = toks.
Proof.
  intros Hsp Hne H. unfold tokens. induction H as [|c t cs ts ((k & ->) & Ht & Htn) Hr IH]; [reflexivity|].
  destruct cs as [|c2 cs'].
  - inversion Hr; subst. cbn [join_with]. rewrite tokens_aux_spaces by apply spaces_repeat.
    now apply tokens_tok_end.
  - change (join_with sep ((repeat c_sp k ++ t) :: c2 :: cs')) with ((repeat c_sp k ++ t) ++ sep ++ join_with sep (c2 :: cs')).
    rewrite <- app_assoc, tokens_aux_spaces by apply spaces_repeat.
    destruct sep as [|s sep']; [now destruct Hne|].
    unfold spaces in Hsp. cbn [forallb] in Hsp. apply andb_true_iff in Hsp. destruct Hsp as [Hs Hsp'].
    rewrite <- app_comm_cons, tokens_tok_sp by assumption. rewrite tokens_aux_spaces by exact Hsp'.
    f_equal. exact IH.
Qed.

Lemma join_first_cell sep c t cs : cell_of c t ->
  exists k x r, join_with sep (c :: cs) = repeat c_sp k ++ x :: r /\ hd 0 t = x.
Proof.
  intros ((k & ->) & _ & Hne). destruct t as [|x t']; [now destruct Hne|].
  destruct cs as [|c2 cs'].
  - exists k, x, t'. cbn [join_with]. split; reflexivity.
  - exists k, x, (t' ++ sep ++ join_with sep (c2 :: cs')).
    change (join_with sep ((repeat c_sp k ++ x :: t') :: c2 :: cs')) with ((repeat c_sp k ++ x :: t') ++ sep ++ join_with sep (c2 :: cs')).
    rewrite <- app_assoc. split; reflexivity.
Qed.

(* " ".join([first] + fields) *)
Lemma concat_sp_join {A} (f : A -> str) vs : forall a,
  a ++ concat (map (fun v => c_sp :: f v) vs) = join_with [c_sp] (a :: map f vs).
Proof.
  induction vs as [|v r IH]; intros a; [cbn; apply app_nil_r|].
  cbn [map concat]. change (join_with [c_sp] (a :: f v :: map f r)) with (a ++ [c_sp] ++ join_with [c_sp] (f v :: map f r)).
  rewrite <- IH. reflexivity.
Qed.

Lemma num_line_join iw w d i vs :
  num_line iw w d i vs = join_with [c_sp] (pad_left iw (int_str (Z.of_nat i)) :: map (print_field w d) vs).
Proof. unfold num_line. apply concat_sp_join. Qed.

Lemma num_line_cells iw w d i vs :
  Forall2 cell_of (pad_left iw (int_str (Z.of_nat i)) :: map (print_field w d) vs)
                  (int_str (Z.of_nat i) :: map (fbody d) vs).
Proof.
  constructor; [apply pad_left_cell; [apply int_str_nospace|apply int_str_nonempty]|].
  induction vs as [|v r IH]; cbn [map]; constructor; [|exact IH].
  unfold print_field. apply pad_left_cell; [apply fbody_nospace|apply fbody_nonempty].
Qed.

Lemma num_line_tokens iw w d i vs :
  tokens (num_line iw w d i vs) = int_str (Z.of_nat i) :: map (fbody d) vs.
Proof.
  rewrite num_line_join. apply tokens_join; [reflexivity|discriminate|apply num_line_cells].
Qed.

Lemma num_line_nonl iw w d i vs : nonl (num_line iw w d i vs).
Proof.
  rewrite num_line_join. apply nonl_join; [reflexivity|].
  constructor.
  - unfold pad_left. apply nonl_app. split; [apply nonl_repeat_sp|apply nonl_nospace, int_str_nospace].
  - induction vs as [|v r IH]; cbn [map]; constructor; [|exact IH].
    unfold print_field, pad_left. apply nonl_app. split; [apply nonl_repeat_sp|apply nonl_nospace, fbody_nospace].
Qed.

Lemma num_line_parse iw w d i vs :
  parse_numrow (strip (num_line iw w d i vs ++ [c_nl])) = Some (Some (inject_Z (Z.of_nat i)) :: map (rnd d) vs).
Proof.
  unfold parse_numrow. rewrite tokens_line, num_line_tokens, parse_int_str, sequence_fields. reflexivity.
Qed.

Lemma join_not_comment sep cs i ts : Forall2 cell_of cs (int_str (Z.of_nat i) :: ts) ->
  is_comment (strip (join_with sep cs ++ [c_nl])) = false.
Proof.
  intros Hc. inversion Hc as [|c t cs' ts' Hcell Hrest]; subst.
  destruct (join_first_cell sep c _ cs' Hcell) as (k & x & r & E & Hx).
  rewrite E. destruct (int_str_nat_hd i) as (c0 & r' & Ei & Hsp & Hh). rewrite Ei in Hx. cbn [hd] in Hx. subst x.
  rewrite <- app_assoc, <- app_comm_cons. now apply not_comment_line.
Qed.

Lemma num_line_not_comment iw w d i vs : is_comment (strip (num_line iw w d i vs ++ [c_nl])) = false.
Proof. rewrite num_line_join. eapply join_not_comment. apply num_line_cells. Qed.

(* ================================================================== the reader *)

Section ReaderP.
  Context {T : Type}.
  Variable parse : str -> option (list T).

  Definition data_line (n : nat) (l : str) (r : list T) : Prop :=
    is_comment (strip l) = false /\ parse (strip l) = Some r /\ length r = n /\ r <> [].

  Lemma first_block_data n : forall lines rows, Forall2 (data_line n) lines rows ->
    forall ncol rc acc, (ncol = None \/ ncol = Some n) ->
    first_block parse lines ncol true rc acc = Some (rev acc ++ rows).
  Proof.
    induction 1 as [|l r ls rs (Hc & Hp & Hn & Hne) Hrest IH]; intros ncol rc acc Hncol.
    - cbn [first_block]. now rewrite app_nil_r.
    - cbn [first_block]. rewrite Hc, Hp.
      assert (Hsame : (match ncol with None => true | Some m => (length r =? m)%nat end) = true).
      { destruct Hncol as [->| ->]; [reflexivity|]. rewrite Hn. apply Nat.eqb_refl. }
      rewrite Hsame. destruct r as [|x r']; [now destruct Hne|]. cbn [is_nil negb andb].
      rewrite IH by (right; now rewrite Hn). cbn [rev]. now rewrite <- app_assoc.
  Qed.

  (* a file made of two comment lines followed by data lines *)
  Lemma read_block_file n c1 c2 dl rows :
    nonl c1 -> nonl c2 -> Forall nonl dl ->
    is_comment (strip (c1 ++ [c_nl])) = true -> is_comment (strip (c2 ++ [c_nl])) = true ->
    Forall2 (data_line n) (map (fun l => l ++ [c_nl]) dl) rows ->
    read_block parse (render (c1 :: c2 :: dl)) = Some rows.
  Proof.
    intros H1 H2 Hd Hc1 Hc2 Hrows. unfold read_block.
    rewrite split_render by (constructor; [exact H1|constructor; [exact H2|exact Hd]]).
    cbn [map first_block]. rewrite Hc1, Hc2.
    rewrite (first_block_data n _ _ Hrows) by now left. reflexivity.
  Qed.
End ReaderP.

(* ================================================================== facts about the generated parameters *)

Lemma cyc_a_hash : exists r, cyc_a = c_hash :: r.
Proof. eexists. reflexivity. Qed.
Lemma nonl_cyc : nonl cyc_a /\ nonl cyc_b /\ nonl cyc_c /\ nonl store_status.
Proof. repeat split; reflexivity. Qed.
Lemma headers_ok :
  (nonl order_header /\ is_comment (strip (order_header ++ [c_nl])) = true) /\
  (nonl energy_header /\ is_comment (strip (energy_header ++ [c_nl])) = true) /\
  (nonl traj_header /\ is_comment (strip (traj_header ++ [c_nl])) = true).
Proof. repeat split; vm_compute; reflexivity. Qed.
Lemma traj_w_len : length traj_w = 4%nat.
Proof. reflexivity. Qed.
Lemma traj_sep_ok : spaces (repeat c_sp traj_sep) /\ repeat c_sp traj_sep <> [].
Proof. split; [apply spaces_repeat|vm_compute; discriminate]. Qed.
Lemma traj_vals_differ : (traj_fwd_val =? traj_rev_val) = false.
Proof. reflexivity. Qed.
Lemma energy_cols_ok : (energy_vpot_col < energy_nterms)%nat /\ (energy_ekin_col < energy_nterms)%nat.
Proof. split; vm_compute; lia. Qed.
Lemma txt_names_differ : order_txt <> energy_txt /\ order_txt <> traj_txt /\ energy_txt <> traj_txt.
Proof. repeat split; vm_compute; discriminate. Qed.

Lemma cycle_line2_ok step : nonl (cycle_line2 step) /\ is_comment (strip (cycle_line2 step ++ [c_nl])) = true.
Proof.
  destruct nonl_cyc as (Ha & Hb & Hc & Hs). split.
  - unfold cycle_line2. apply nonl_app; split; [exact Ha|]. apply nonl_app; split; [apply nonl_nospace, int_str_nospace|].
    apply nonl_app; split; assumption.
  - destruct cyc_a_hash as (r & E). unfold cycle_line2. rewrite E. rewrite is_comment_line; reflexivity || discriminate.
Qed.

Lemma cycle_line3_ok step move : nonl move ->
  nonl (cycle_line3 step move) /\ is_comment (strip (cycle_line3 step move ++ [c_nl])) = true.
Proof.
  intros Hm. destruct nonl_cyc as (Ha & Hb & Hc & Hs). destruct (cycle_line2_ok step) as (H2 & _). split.
  - unfold cycle_line3. apply nonl_app; split; [exact H2|]. apply nonl_app; split; assumption.
  - destruct cyc_a_hash as (r & E). unfold cycle_line3, cycle_line2. rewrite E. rewrite is_comment_line; reflexivity || discriminate.
Qed.

Lemma energy_vals_spec fr :
  length (energy_vals fr) = energy_nterms /\
  nth energy_vpot_col (energy_vals fr) None = f_vpot fr /\ nth energy_ekin_col (energy_vals fr) None = f_ekin fr.
Proof. unfold energy_vals. rewrite map_length, seq_length. repeat split; reflexivity. Qed.

(* ================================================================== the lines of the three files *)

Lemma enum_rows {A B} (R : A -> B -> Prop) (f : nat -> frame -> A) (g : nat -> frame -> B) p :
  (forall i fr, In fr p -> R (f i fr) (g i fr)) ->
  forall i0, Forall2 R (map (fun x => f (fst x) (snd x)) (enum_from i0 p)) (map (fun x => g (fst x) (snd x)) (enum_from i0 p)).
Proof.
  induction p as [|fr r IH]; intros H i0; [constructor|]. cbn [enum_from map fst snd]. constructor.
  - apply H. now left.
  - apply IH. intros i fr' Hin. apply H. now right.
Qed.

Lemma lines_of_nonl f p : (forall i fr, nonl (f i fr)) -> Forall nonl (lines_of f p).
Proof. intros H. unfold lines_of. apply Forall_forall. intros l Hl. apply in_map_iff in Hl. destruct Hl as (x & <- & _). apply H. Qed.

Definition num_row (d : nat) (vals : frame -> list fval) (i : nat) (fr : frame) : list (option Q) :=
  Some (inject_Z (Z.of_nat i)) :: map (rnd d) (vals fr).

Lemma num_file_rows iw w d (vals : frame -> list fval) n p :
  Forall (fun fr => length (vals fr) = n) p ->
  Forall2 (data_line parse_numrow (S n))
          (map (fun l => l ++ [c_nl]) (lines_of (fun i fr => num_line iw w d i (vals fr)) p))
          (map (fun x => num_row d vals (fst x) (snd x)) (enum_from 0 p)).
Proof.
  intros Hn. unfold lines_of. rewrite map_map.
  apply (enum_rows (data_line parse_numrow (S n)) (fun i fr => num_line iw w d i (vals fr) ++ [c_nl]) (num_row d vals)).
  intros i fr Hin. rewrite Forall_forall in Hn. specialize (Hn fr Hin). unfold data_line, num_row.
  rewrite num_line_not_comment, num_line_parse. repeat split; [|discriminate].
  cbn [length]. now rewrite map_length, Hn.
Qed.

Definition name_ok (fr : frame) : Prop := no_space (basename (f_file fr)) /\ basename (f_file fr) <> [].

Lemma combine_cells : forall ws cells, length ws = length cells -> Forall (fun t => no_space t /\ t <> []) cells ->
  Forall2 cell_of (map (fun wc => pad_left (fst wc) (snd wc)) (combine ws cells)) cells.
Proof.
  induction ws as [|w ws IH]; intros [|c cells] Hl Hc; try discriminate; [constructor|].
  inversion Hc as [|? ? (H1 & H2) Hr]; subst. cbn [combine map fst snd]. constructor; [now apply pad_left_cell|].
  apply IH; [now injection Hl|exact Hr].
Qed.

Lemma traj_cells_ok i fr : name_ok fr -> Forall (fun t => no_space t /\ t <> []) (traj_cells i fr).
Proof.
  intros (Hb & Hbn). unfold traj_cells. repeat constructor; try apply int_str_nospace; try apply int_str_nonempty; assumption.
Qed.

Lemma traj_line_cells i fr : name_ok fr ->
  Forall2 cell_of (map (fun wc => pad_left (fst wc) (snd wc)) (combine traj_w (traj_cells i fr))) (traj_cells i fr).
Proof. intros H. apply combine_cells; [apply traj_w_len|now apply traj_cells_ok]. Qed.

Lemma traj_line_tokens i fr : name_ok fr -> tokens (traj_line i fr) = traj_cells i fr.
Proof.
  intros H. unfold traj_line. destruct traj_sep_ok as (Hs & Hne). apply tokens_join; [exact Hs|exact Hne|now apply traj_line_cells].
Qed.

Lemma cells_nonl cs ts : Forall2 cell_of cs ts -> Forall nonl cs.
Proof.
  induction 1 as [|c t cs ts ((k & ->) & Ht & _) _ IH]; constructor; [|exact IH].
  apply nonl_app. split; [apply nonl_repeat_sp|now apply nonl_nospace].
Qed.

Lemma traj_line_nonl i fr : name_ok fr -> nonl (traj_line i fr).
Proof.
  intros H. unfold traj_line. apply nonl_join; [apply nonl_repeat_sp|].
  exact (cells_nonl _ _ (traj_line_cells i fr H)).
Qed.

Lemma traj_line_not_comment i fr : name_ok fr -> is_comment (strip (traj_line i fr ++ [c_nl])) = false.
Proof.
  intros H. unfold traj_line. eapply join_not_comment. pose proof (traj_line_cells i fr H) as Hc. unfold traj_cells at 2 in Hc. exact Hc.
Qed.

Lemma traj_file_rows p : Forall name_ok p ->
  Forall2 (data_line parse_tokens 4) (map (fun l => l ++ [c_nl]) (lines_of traj_line p))
          (map (fun x => traj_cells (fst x) (snd x)) (enum_from 0 p)).
Proof.
  intros Hn. unfold lines_of. rewrite map_map.
  apply (enum_rows (data_line parse_tokens 4) (fun i fr => traj_line i fr ++ [c_nl]) traj_cells).
  intros i fr Hin. rewrite Forall_forall in Hn. specialize (Hn fr Hin). unfold data_line, parse_tokens.
  rewrite traj_line_not_comment, tokens_line, traj_line_tokens by exact Hn. repeat split. discriminate.
Qed.

(* what the reader returns for the three files *)
Lemma read_traj_file step p : Forall name_ok p ->
  read_block parse_tokens (render (traj_file step p)) = Some (map (fun x => traj_cells (fst x) (snd x)) (enum_from 0 p)).
Proof.
  intros Hn. destruct (cycle_line2_ok step) as (H1 & H1c). destruct headers_ok as (_ & _ & H2 & H2c).
  unfold traj_file. apply (read_block_file parse_tokens 4); try assumption.
  - apply Forall_forall. intros l Hl. unfold lines_of in Hl. apply in_map_iff in Hl. destruct Hl as ((i, fr) & <- & Hin).
    apply traj_line_nonl. rewrite Forall_forall in Hn. apply Hn.
    clear - Hin. revert Hin. generalize 0%nat. induction p as [|a r IH]; intros n0 Hin; [destruct Hin|].
    cbn [enum_from] in Hin. destruct Hin as [E|Hin]; [injection E as _ <-; now left|right; eapply IH; exact Hin].
  - now apply traj_file_rows.
Qed.

Lemma read_num_file iw w d vals n c1 c2 p :
  nonl c1 -> nonl c2 -> is_comment (strip (c1 ++ [c_nl])) = true -> is_comment (strip (c2 ++ [c_nl])) = true ->
  Forall (fun fr => length (vals fr) = n) p ->
  read_block parse_numrow (render (c1 :: c2 :: lines_of (fun i fr => num_line iw w d i (vals fr)) p))
  = Some (map (fun x => num_row d vals (fst x) (snd x)) (enum_from 0 p)).
Proof.
  intros H1 H2 H1c H2c Hn. apply (read_block_file parse_numrow (S n)); try assumption.
  - apply lines_of_nonl. intros i fr. apply num_line_nonl.
  - now apply num_file_rows.
Qed.

Lemma read_order_file step move n p : nonl move -> Forall (fun fr => length (f_orders fr) = n) p ->
  read_block parse_numrow (render (order_file step move p))
  = Some (map (fun x => num_row order_d f_orders (fst x) (snd x)) (enum_from 0 p)).
Proof.
  intros Hm Hn. destruct (cycle_line3_ok step move Hm) as (H1 & H1c). destruct headers_ok as ((H2 & H2c) & _).
  unfold order_file, order_line. now apply (read_num_file order_iw order_w order_d f_orders n).
Qed.

Lemma read_energy_file step move p : nonl move ->
  read_block parse_numrow (render (energy_file step move p))
  = Some (map (fun x => num_row energy_d energy_vals (fst x) (snd x)) (enum_from 0 p)).
Proof.
  intros Hm. destruct (cycle_line3_ok step move Hm) as (H1 & H1c). destruct headers_ok as (_ & (H2 & H2c) & _).
  unfold energy_file, energy_line. apply (read_num_file energy_iw energy_w energy_d energy_vals energy_nterms); try assumption.
  apply Forall_forall. intros fr _. apply energy_vals_spec.
Qed.

(* ================================================================== file names *)

Definition no_slash (s : str) : Prop := has_slash s = false.

Lemma has_slash_app a b : has_slash (a ++ b) = has_slash a || has_slash b.
Proof. unfold has_slash. apply existsb_app. Qed.

Lemma basename_noslash_id b : no_slash b -> basename b = b.
Proof.
  unfold no_slash. induction b as [|c r IH]; intros H; [reflexivity|].
  cbn [has_slash existsb] in H. apply orb_false_iff in H. destruct H as [Hc Hr].
  cbn [basename]. unfold has_slash. rewrite Hr. rewrite Z.eqb_sym, Hc. reflexivity.
Qed.

Lemma basename_after_slash b : no_slash b -> forall a, basename (a ++ c_slash :: b) = b.
Proof.
  unfold no_slash. intros Hb. induction a as [|c a IH].
  - cbn [app basename]. rewrite Hb, Z.eqb_refl. reflexivity.
  - cbn [app basename]. rewrite has_slash_app. cbn [has_slash existsb]. rewrite Z.eqb_refl, orb_true_r. exact IH.
Qed.

Lemma basename_noslash s : no_slash (basename s).
Proof.
  unfold no_slash. induction s as [|c r IH]; [reflexivity|]. cbn [basename].
  destruct (has_slash r) eqn:Hr; [exact IH|]. destruct (Z.eqb_spec c c_slash) as [E|E]; [exact Hr|].
  unfold has_slash in *. cbn [existsb]. rewrite Hr, orb_false_r. apply Z.eqb_neq. congruence.
Qed.

Lemma ends_slash_split a : ends_slash a = true -> exists a0, a = a0 ++ [c_slash].
Proof.
  unfold ends_slash. destruct (rev a) as [|c x] eqn:E; [discriminate|]. intros H. apply Z.eqb_eq in H. subst c.
  exists (rev x). rewrite <- (rev_involutive a), E. reflexivity.
Qed.

Lemma basename_pjoin a b : no_slash b -> basename (pjoin a b) = b.
Proof.
  intros Hb. unfold pjoin. destruct (is_nil a); [now apply basename_noslash_id|].
  destruct (ends_slash a) eqn:E.
  - destruct (ends_slash_split a E) as (a0 & ->). rewrite <- app_assoc. cbn [app]. now apply basename_after_slash.
  - now apply basename_after_slash.
Qed.

Lemma pjoin_inj a x y : pjoin a x = pjoin a y -> x = y.
Proof.
  unfold pjoin. destruct (is_nil a); [auto|]. destruct (ends_slash a); intros H; apply app_inv_head in H; [exact H|now injection H].
Qed.

Lemma dst_idem target s : dst target (dst target s) = dst target s.
Proof. unfold dst. rewrite basename_pjoin by apply basename_noslash. reflexivity. Qed.

Lemma firstn_noslash k s : no_slash s -> no_slash (firstn k s).
Proof.
  unfold no_slash, has_slash. intros H. destruct (existsb (Z.eqb c_slash) (firstn k s)) eqn:E; [|reflexivity].
  apply existsb_exists in E. destruct E as (x & Hin & Hx). apply firstn_In in Hin.
  assert (existsb (Z.eqb c_slash) s = true) by (apply existsb_exists; eauto). congruence.
Qed.

Lemma stem_noslash b : no_slash b -> no_slash (stem b).
Proof.
  intros H. unfold stem. destruct (last_dot b 0 None) as [k|]; [|exact H].
  destruct (forallb (Z.eqb c_dot) (firstn k b)); [exact H|now apply firstn_noslash].
Qed.

(* ================================================================== the disk *)

Lemma str_eqb_spec a b : reflect (a = b) (str_eqb a b).
Proof. destruct (str_eqb a b) eqn:E; constructor; [now apply str_eqb_eq|]. intros H. apply str_eqb_eq in H. congruence. Qed.

Lemma fs_get_del d k k' : fs_get (fs_del d k) k' = if str_eqb k' k then None else fs_get d k'.
Proof.
  induction d as [|kv r IH]; cbn [fs_del filter fs_get]; [now destruct (str_eqb k' k)|].
  fold (fs_del r k). destruct (str_eqb_spec k (fst kv)) as [E|E]; cbn [negb].
  - rewrite IH. destruct (str_eqb_spec k' k) as [E2|E2]; [reflexivity|].
    destruct (str_eqb_spec k' (fst kv)) as [E3|E3]; [congruence|reflexivity].
  - cbn [fs_get]. rewrite IH. destruct (str_eqb_spec k' (fst kv)) as [E3|E3]; [|reflexivity].
    destruct (str_eqb_spec k' k) as [E2|E2]; [congruence|reflexivity].
Qed.

Lemma fs_get_set d k v k' : fs_get (fs_set d k v) k' = if str_eqb k' k then Some v else fs_get d k'.
Proof.
  unfold fs_set. cbn [fs_get fst snd]. destruct (str_eqb_spec k' k) as [E|E]; [reflexivity|].
  rewrite fs_get_del. destruct (str_eqb_spec k' k); [contradiction|reflexivity].
Qed.

Lemma isfile_set d k v k' : isfile d k' = true -> isfile (fs_set d k v) k' = true.
Proof. unfold isfile. rewrite fs_get_set. destruct (str_eqb k' k); auto. Qed.

(* one move that is carried out *)
Lemma move_get d s t c k : s <> t ->
  fs_get (fs_set (fs_del (fs_del d t) s) t c) k = if str_eqb k t then Some c else if str_eqb k s then None else fs_get d k.
Proof.
  intros Hst. rewrite fs_get_set. destruct (str_eqb_spec k t) as [E|E]; [reflexivity|].
  rewrite !fs_get_del. destruct (str_eqb_spec k s); [reflexivity|]. destruct (str_eqb_spec k t); [contradiction|reflexivity].
Qed.

Lemma do_moves_untouched : forall mv d d' k, do_moves d mv = Some d' ->
  (forall s t, In (s, t) mv -> s <> t -> k <> s /\ k <> t) -> fs_get d' k = fs_get d k.
Proof.
  induction mv as [|[s t] r IH]; intros d d' k H Hk; cbn [do_moves fst snd] in H; [now injection H as <-|].
  destruct (str_eqb_spec s t) as [E|E].
  - apply (IH _ _ _ H). intros s' t' Hin. apply Hk. now right.
  - destruct (fs_get (fs_del d t) s) as [c|] eqn:Ec; [|discriminate].
    rewrite (IH _ _ _ H) by (intros s' t' Hin; apply Hk; now right).
    destruct (Hk s t (or_introl eq_refl) E) as (H1 & H2). rewrite move_get by exact E.
    destruct (str_eqb_spec k t); [contradiction|]. destruct (str_eqb_spec k s); [contradiction|reflexivity].
Qed.

Definition closed (mv : dict) : Prop :=
  forall s t s' t', In (s, t) mv -> In (s', t') mv -> s' = t -> t' = t.

Lemma closed_tail kv mv : closed (kv :: mv) -> closed mv.
Proof. intros H s t s' t' H1 H2 E. apply (H s t s' t'); [now right|now right|exact E]. Qed.

Lemma do_moves_keeps : forall mv d d' k, do_moves d mv = Some d' -> isfile d k = true ->
  (forall s t, In (s, t) mv -> s <> t -> s <> k) -> isfile d' k = true.
Proof.
  induction mv as [|[s t] r IH]; intros d d' k H Hf Hk; cbn [do_moves fst snd] in H; [now injection H as <-|].
  destruct (str_eqb_spec s t) as [E|E].
  - apply (IH _ _ _ H Hf). intros s' t' Hin. apply Hk. now right.
  - destruct (fs_get (fs_del d t) s) as [c|] eqn:Ec; [|discriminate].
    apply (IH _ _ _ H); [|intros s' t' Hin; apply Hk; now right].
    unfold isfile. rewrite move_get by exact E. destruct (str_eqb_spec k t); [reflexivity|].
    pose proof (Hk s t (or_introl eq_refl) E) as Hs. destruct (str_eqb_spec k s); [congruence|exact Hf].
Qed.

Lemma do_moves_dests : forall mv d d', NoDup (map fst mv) -> closed mv -> do_moves d mv = Some d' ->
  (forall s t, In (s, t) mv -> s = t -> isfile d s = true) ->
  forall s t, In (s, t) mv -> isfile d' t = true.
Proof.
  induction mv as [|[s0 t0] r IH]; intros d d' Hnd Hcl H Hself s t Hin; [destruct Hin|].
  cbn [map fst] in Hnd. inversion Hnd as [|? ? Hs0 Hnd']; subst.
  assert (Hlater : forall s' t', In (s', t') r -> s' <> t' -> s' <> t0).
  { intros s' t' Hin' Hne E. apply Hne. rewrite E. symmetry. apply (Hcl s0 t0 s' t'); [now left|now right|exact E]. }
  cbn [do_moves fst snd] in H. destruct (str_eqb_spec s0 t0) as [E|E].
  - destruct Hin as [Eq|Hin].
    + injection Eq as <- <-. apply (do_moves_keeps _ _ _ _ H); [rewrite <- E; apply (Hself s0 t0); [now left|exact E]|exact Hlater].
    + apply (fun Hs => IH d d' Hnd' (closed_tail _ _ Hcl) H Hs s t Hin). intros s' t' Hin' Ee. apply (Hself s' t'); [now right|exact Ee].
  - destruct (fs_get (fs_del d t0) s0) as [c|] eqn:Ec; [|discriminate].
    set (d1 := fs_set (fs_del (fs_del d t0) s0) t0 c) in *.
    destruct Hin as [Eq|Hin].
    + injection Eq as <- <-. apply (do_moves_keeps _ _ _ _ H); [|exact Hlater].
      unfold isfile, d1. rewrite move_get by exact E. now rewrite str_eqb_refl.
    + apply (fun Hs => IH d1 d' Hnd' (closed_tail _ _ Hcl) H Hs s t Hin). intros s' t' Hin' Ee. subst t'.
      unfold isfile, d1. rewrite move_get by exact E. destruct (str_eqb_spec s' t0); [reflexivity|].
      destruct (str_eqb_spec s' s0) as [E2|E2].
      * exfalso. apply Hs0. subst s'. apply in_map_iff. exists (s0, s0). split; [reflexivity|exact Hin'].
      * apply (Hself s' s'); [now right|reflexivity].
Qed.

Lemma do_moves_content : forall mv d d', NoDup (map fst mv) -> NoDup (map snd mv) -> closed mv ->
  do_moves d mv = Some d' -> forall s t, In (s, t) mv -> fs_get d' t = fs_get d s.
Proof.
  induction mv as [|[s0 t0] r IH]; intros d d' Hnf Hns Hcl H s t Hin; [destruct Hin|].
  cbn [map fst snd] in Hnf, Hns. inversion Hnf as [|? ? Hs0 Hnf']; subst. inversion Hns as [|? ? Ht0 Hns']; subst.
  assert (Hfree : forall s' t', In (s', t') r -> t0 <> s' /\ t0 <> t').
  { intros s' t' Hin'. split.
    - intros E. apply Ht0. apply in_map_iff. exists (s', t'). split; [|exact Hin']. cbn [snd].
      apply (Hcl s0 t0 s' t'); [now left|now right|now symmetry].
    - intros E. apply Ht0. apply in_map_iff. exists (s', t'). split; [now symmetry|exact Hin']. }
  cbn [do_moves fst snd] in H. destruct (str_eqb_spec s0 t0) as [E|E].
  - destruct Hin as [Eq|Hin].
    + injection Eq as <- <-. rewrite E. apply (do_moves_untouched _ _ _ _ H). intros s' t' Hin' _. now apply Hfree.
    + now apply (IH d d' Hnf' Hns' (closed_tail _ _ Hcl) H).
  - destruct (fs_get (fs_del d t0) s0) as [c|] eqn:Ec; [|discriminate].
    assert (Hc : fs_get d s0 = Some c).
    { rewrite fs_get_del in Ec. destruct (str_eqb_spec s0 t0); [contradiction|exact Ec]. }
    set (d1 := fs_set (fs_del (fs_del d t0) s0) t0 c) in *.
    destruct Hin as [Eq|Hin].
    + injection Eq as <- <-. rewrite (do_moves_untouched _ _ _ _ H) by (intros s' t' Hin' _; now apply Hfree).
      unfold d1. rewrite move_get by exact E. now rewrite str_eqb_refl.
    + rewrite (IH d1 d' Hnf' Hns' (closed_tail _ _ Hcl) H s t Hin). unfold d1. rewrite move_get by exact E.
      destruct (Hfree s t Hin) as (H1 & _). destruct (str_eqb_spec s t0); [congruence|].
      destruct (str_eqb_spec s s0) as [E2|E2]; [|reflexivity].
      exfalso. apply Hs0. subst s. apply in_map_iff. exists (s0, t). split; [reflexivity|exact Hin].
Qed.

(* ---- the source dictionary *)

Lemma dict_has_In k l : dict_has k l = true <-> In k (map fst l).
Proof.
  unfold dict_has. rewrite existsb_exists. split.
  - intros (kv & Hin & E). apply str_eqb_eq in E. subst k. now apply in_map.
  - intros H. apply in_map_iff in H. destruct H as (kv & <- & Hin). exists kv. split; [exact Hin|apply str_eqb_refl].
Qed.

Lemma dict_set_keys k v l : map fst (dict_set k v l) = if dict_has k l then map fst l else map fst l ++ [k].
Proof.
  induction l as [|kv r IH]; [reflexivity|]. cbn [dict_set]. unfold dict_has in *. cbn [existsb].
  destruct (str_eqb k (fst kv)); cbn [orb map fst]; [reflexivity|]. rewrite IH.
  destruct (existsb (fun kv0 => str_eqb k (fst kv0)) r); reflexivity.
Qed.

Lemma dict_set_In k v l k' v' : In (k', v') (dict_set k v l) -> (k' = k /\ v' = v) \/ In (k', v') l.
Proof.
  induction l as [|kv r IH]; cbn [dict_set].
  - intros [E|[]]. injection E as <- <-. now left.
  - destruct (str_eqb_spec k (fst kv)) as [E|E]; intros [H|H].
    + injection H as <- <-. now left.
    + right. now right.
    + right. now left.
    + destruct (IH H) as [?|?]; [now left|right; now right].
Qed.

Lemma dict_set_nodup k v l : NoDup (map fst l) -> NoDup (map fst (dict_set k v l)).
Proof.
  intros H. rewrite dict_set_keys. destruct (dict_has k l) eqn:E; [exact H|].
  apply NoDup_app_intro_single; [exact H|]. intros Hin. apply dict_has_In in Hin. congruence.
Qed.

Lemma dict_set_keeps_keys k v l k' : In k' (map fst l) -> In k' (map fst (dict_set k v l)).
Proof. intros H. rewrite dict_set_keys. destruct (dict_has k l); [exact H|]. apply in_or_app. now left. Qed.

Definition dst_ok (target : str) (l : dict) : Prop := forall s t, In (s, t) l -> t = dst target s.

Lemma gen_names_spec target p : forall acc, NoDup (map fst acc) -> dst_ok target acc ->
  let r := fold_left (fun src fr => if dict_has (f_file fr) src then src else dict_set (f_file fr) (dst target (f_file fr)) src) p acc in
  NoDup (map fst r) /\ dst_ok target r /\ (forall k, In k (map fst acc) -> In k (map fst r)) /\
  (forall fr, In fr p -> In (f_file fr) (map fst r)).
Proof.
  induction p as [|fr p IH]; intros acc Hnd Hok; cbn [fold_left].
  - repeat split; auto. intros fr [].
  - destruct (dict_has (f_file fr) acc) eqn:Eh.
    + destruct (IH acc Hnd Hok) as (H1 & H2 & H3 & H4). repeat split; auto.
      intros fr' [<-|Hin]; [apply H3; now apply dict_has_In|now apply H4].
    + set (acc' := dict_set (f_file fr) (dst target (f_file fr)) acc).
      assert (Hnd' : NoDup (map fst acc')) by now apply dict_set_nodup.
      assert (Hok' : dst_ok target acc').
      { intros s t Hin. apply dict_set_In in Hin. destruct Hin as [(-> & ->)|Hin]; [reflexivity|now apply Hok]. }
      destruct (IH acc' Hnd' Hok') as (H1 & H2 & H3 & H4). repeat split; auto.
      * intros k Hk. apply H3. now apply dict_set_keeps_keys.
      * intros fr' [<-|Hin]; [|now apply H4]. apply H3. unfold acc'. rewrite dict_set_keys, Eh. apply in_or_app. right. now left.
Qed.

Lemma keep_one_spec d target keep s : Forall no_slash keep -> forall acc,
  NoDup (map fst acc) -> dst_ok target acc ->
  let r := keep_one d target keep acc s in
  NoDup (map fst r) /\ dst_ok target r /\ (forall k, In k (map fst acc) -> In k (map fst r)).
Proof.
  intros Hk. unfold keep_one. induction Hk as [|ext keep Hext Hk IH]; intros acc Hnd Hok; cbn [fold_left]; [auto|].
  set (nf := stem (basename s) ++ ext). destruct (isfile d (pjoin (dirname s) nf)); [|now apply IH].
  set (acc' := dict_set (pjoin (dirname s) nf) (pjoin target nf) acc).
  assert (Hnf : no_slash nf).
  { unfold no_slash, nf. rewrite has_slash_app. rewrite (stem_noslash _ (basename_noslash s)). exact Hext. }
  assert (Hnd' : NoDup (map fst acc')) by now apply dict_set_nodup.
  assert (Hok' : dst_ok target acc').
  { intros s' t' Hin. apply dict_set_In in Hin. destruct Hin as [(-> & ->)|Hin]; [|now apply Hok].
    unfold dst. now rewrite basename_pjoin. }
  destruct (IH acc' Hnd' Hok') as (H1 & H2 & H3). repeat split; auto.
  intros k Hin. apply H3. now apply dict_set_keeps_keys.
Qed.

Lemma keep_extras_spec d target keep : Forall no_slash keep -> forall ss acc,
  NoDup (map fst acc) -> dst_ok target acc ->
  let r := fold_left (keep_one d target keep) ss acc in
  NoDup (map fst r) /\ dst_ok target r /\ (forall k, In k (map fst acc) -> In k (map fst r)).
Proof.
  intros Hk. induction ss as [|s ss IH]; intros acc Hnd Hok; cbn [fold_left]; [auto|].
  destruct (keep_one_spec d target keep s Hk acc Hnd Hok) as (H1 & H2 & H3).
  destruct (IH _ H1 H2) as (H4 & H5 & H6). repeat split; auto.
Qed.

Lemma move_list_spec d target keep p : Forall no_slash keep ->
  let mv := move_list d target keep p in
  NoDup (map fst mv) /\ dst_ok target mv /\ closed mv /\
  (forall fr, In fr p -> In (f_file fr, dst target (f_file fr)) mv).
Proof.
  intros Hk. unfold move_list, keep_extras. set (g := gen_names target p).
  assert (G : NoDup (map fst g) /\ dst_ok target g /\ (forall k, In k (map fst (@nil (str * str))) -> In k (map fst g)) /\
              (forall fr, In fr p -> In (f_file fr) (map fst g))).
  { exact (gen_names_spec target p [] (NoDup_nil _) (fun s t H => match H with end)). }
  destruct G as (G1 & G2 & _ & G4).
  destruct (keep_extras_spec d target keep Hk (map fst g) g G1 G2) as (H1 & H2 & H3).
  set (mv := fold_left (keep_one d target keep) (map fst g) g) in *. repeat split; auto.
  - intros s t s' t' Hin Hin' E. rewrite (H2 _ _ Hin'), E, (H2 _ _ Hin). apply dst_idem.
  - intros fr Hin. pose proof (H3 _ (G4 fr Hin)) as Hkey. apply in_map_iff in Hkey. destruct Hkey as ([s t] & E & Hin2).
    cbn [fst] in E. subst s. now rewrite <- (H2 _ _ Hin2).
Qed.

Lemma move_list_nokeep d target p : move_list d target [] p = gen_names target p.
Proof.
  unfold move_list, keep_extras. generalize (map fst (gen_names target p)). intros ss.
  generalize (gen_names target p). induction ss as [|s ss IH]; intros g; [reflexivity|]. cbn [fold_left]. unfold keep_one at 2. cbn [fold_left]. apply IH.
Qed.

(* ================================================================== store, then load *)

Definition txt_files (arch : str) : list str := [pjoin arch order_txt; pjoin arch energy_txt; pjoin arch traj_txt].

(* no file that is moved is one of the three text files just written *)
Definition txt_untouched (mv : dict) (arch : str) : Prop :=
  forall s t, In (s, t) mv -> ~ In s (txt_files arch).

Lemma pjoin_prefix a : exists P, forall y, pjoin a y = P ++ y.
Proof.
  unfold pjoin. destruct (is_nil a); [exists []; reflexivity|]. destruct (ends_slash a).
  - exists a. reflexivity.
  - exists (a ++ [c_slash]). intros y. now rewrite <- app_assoc.
Qed.

(* a file in <arch>/accepted/ is none of <arch>/order.txt, energy.txt, traj.txt *)
Lemma accepted_not_txt arch b : ~ In (pjoin (accepted_dir arch) b) (txt_files arch).
Proof.
  destruct (pjoin_prefix arch) as (P & HP). unfold accepted_dir, txt_files. rewrite !HP.
  assert (E : pjoin (P ++ acc_dir) b = P ++ acc_dir ++ c_slash :: b).
  { unfold pjoin. assert (H1 : is_nil (P ++ acc_dir) = false) by (destruct P; reflexivity).
    assert (H2 : ends_slash (P ++ acc_dir) = false) by (unfold ends_slash; rewrite rev_app_distr; reflexivity).
    rewrite H1, H2. now rewrite <- app_assoc. }
  rewrite E. cbn [In]. intros [H|[H|[H|[]]]]; apply app_inv_head in H; vm_compute in H; discriminate.
Qed.

Lemma write_txt_get d arch step move p :
  fs_get (write_txt d arch step move p) (pjoin arch order_txt) = Some (render (order_file step move p)) /\
  fs_get (write_txt d arch step move p) (pjoin arch energy_txt) = Some (render (energy_file step move p)) /\
  fs_get (write_txt d arch step move p) (pjoin arch traj_txt) = Some (render (traj_file step p)).
Proof.
  destruct txt_names_differ as (H1 & H2 & H3). unfold write_txt. rewrite !fs_get_set. repeat split.
  - destruct (str_eqb_spec (pjoin arch order_txt) (pjoin arch traj_txt)) as [E|_]; [apply pjoin_inj in E; contradiction|].
    destruct (str_eqb_spec (pjoin arch order_txt) (pjoin arch energy_txt)) as [E|_]; [apply pjoin_inj in E; contradiction|].
    now rewrite str_eqb_refl.
  - destruct (str_eqb_spec (pjoin arch energy_txt) (pjoin arch traj_txt)) as [E|_]; [apply pjoin_inj in E; contradiction|].
    now rewrite str_eqb_refl.
  - now rewrite str_eqb_refl.
Qed.

Lemma write_txt_isfile d arch step move p k : isfile d k = true -> isfile (write_txt d arch step move p) k = true.
Proof. intros H. unfold write_txt. now repeat apply isfile_set. Qed.

Definition traj_ref (pdir : str) (fr : frame) : str * Z * bool := (dst (accepted_dir pdir) (f_file fr), idx_written fr, f_rev fr).

Lemma traj_row_cells pdir i fr : traj_row pdir (traj_cells i fr) = Some (traj_ref pdir fr).
Proof.
  unfold traj_cells, traj_row. rewrite !parse_int_str. unfold traj_ref, dst. do 2 f_equal.
  destruct (f_rev fr); [apply Z.eqb_refl|apply traj_vals_differ].
Qed.

Lemma traj_rows_seq pdir p : forall i0,
  sequence (map (traj_row pdir) (map (fun x => traj_cells (fst x) (snd x)) (enum_from i0 p))) = Some (map (traj_ref pdir) p).
Proof.
  induction p as [|fr r IH]; intros i0; [reflexivity|]. cbn [enum_from map fst snd sequence].
  rewrite traj_row_cells, IH. reflexivity.
Qed.

Lemma enum_from_nonnil {A} (l : list A) i : l <> [] -> enum_from i l <> [].
Proof. destruct l; [congruence|discriminate]. Qed.

Lemma energy_column_spec k (sel : frame -> fval) p : p <> [] -> (k < energy_nterms)%nat ->
  (forall fr, nth k (energy_vals fr) None = sel fr) ->
  forall i0, energy_column k (map (fun x => num_row energy_d energy_vals (fst x) (snd x)) (enum_from i0 p))
             = Some (map (fun fr => rnd energy_d (sel fr)) p).
Proof.
  intros Hne Hk Hsel i0. unfold energy_column.
  assert (Hlen : (S k <? length (hd [] (map (fun x => num_row energy_d energy_vals (fst x) (snd x)) (enum_from i0 p))))%nat = true).
  { destruct p as [|fr r]; [congruence|]. cbn [enum_from map hd fst snd]. unfold num_row. cbn [length].
    rewrite map_length. destruct (energy_vals_spec fr) as (-> & _). apply Nat.ltb_lt. lia. }
  rewrite Hlen. f_equal. clear Hlen Hne. revert i0. induction p as [|fr r IH]; intros i0; [reflexivity|].
  cbn [enum_from map fst snd]. rewrite IH. f_equal. unfold num_row. cbn [nth].
  change (@None Q) with (rnd energy_d None). rewrite map_nth. now rewrite Hsel.
Qed.

Lemma build_frames_spec pdir vp ek : forall p i0 pre, length pre = i0 ->
  vp = map (fun fr => rnd energy_d (f_vpot fr)) (pre ++ p) -> ek = map (fun fr => rnd energy_d (f_ekin fr)) (pre ++ p) ->
  build_frames i0 (map (traj_ref pdir) p) (map (fun x => num_row order_d f_orders (fst x) (snd x)) (enum_from i0 p)) (Some (vp, ek))
  = map (reload pdir) p.
Proof.
  induction p as [|fr r IH]; intros i0 pre Hl Hvp Hek; [reflexivity|].
  cbn [enum_from map build_frames fst snd]. f_equal.
  - unfold reload, energy_at, traj_ref. cbn [fst snd]. unfold num_row. cbn [skipn].
    rewrite Hvp, Hek, !map_app. cbn [map]. rewrite !nth_error_app2 by (rewrite map_length; lia).
    rewrite !map_length, Hl, Nat.sub_diag. reflexivity.
  - apply (IH (S i0) (pre ++ [fr])); [rewrite app_length; cbn; lia| |]; now rewrite <- app_assoc.
Qed.

(* removing leftovers: files whose name passes the test are untouched *)
Lemma fs_get_filter (g : str -> bool) d k : g k = true -> fs_get (filter (fun kv => g (fst kv)) d) k = fs_get d k.
Proof.
  intros Hk. induction d as [|kv r IH]; [reflexivity|]. cbn [filter fs_get].
  destruct (str_eqb_spec k (fst kv)) as [E|E].
  - rewrite <- E, Hk. cbn [fs_get]. rewrite <- E. now rewrite str_eqb_refl.
  - destruct (g (fst kv)); [cbn [fs_get]; destruct (str_eqb_spec k (fst kv)); [contradiction|exact IH]|exact IH].
Qed.

Lemma mem_str_In' k l : mem_str k l = true <-> In k l.
Proof.
  unfold mem_str. rewrite existsb_exists. split; [intros (x & Hx & E); apply str_eqb_eq in E; now subst|].
  intros H. exists k. split; [exact H|apply str_eqb_refl].
Qed.

(* the repaired output() spares the files the path refers to *)
Lemma clean_keeps_sources tdir p d k : In k (map f_file p) -> fs_get (clean_dir true tdir p d) k = fs_get d k.
Proof.
  intros H. unfold clean_dir.
  apply (fs_get_filter (fun k0 => negb (in_dir tdir k0 && negb (true && mem_str k0 (map f_file p))))).
  apply mem_str_In' in H. rewrite H. cbn. now rewrite andb_false_r.
Qed.

Section RoundTrip.
  Variables (ko : bool) (d : fsmap) (step : Z) (move home : str) (pn : Z) (keep : list str) (p : list frame).
  Let arch := archive_dir home pn.
  Let tdir := accepted_dir arch.
  Let d0 := clean_dir ko tdir p d.          (* the disk after the leftovers were removed *)
  Let d3 := write_txt d0 arch step move p.
  Let mv := move_list d3 tdir keep p.

  Variable ncol : nat.
  Hypothesis Hne : p <> [].
  Hypothesis Hmove : nonl move.
  Hypothesis Hnames : Forall name_ok p.
  Hypothesis Hcols : Forall (fun fr => length (f_orders fr) = ncol) p.
  Hypothesis Hkeep : Forall no_slash keep.
  Hypothesis Hexist : Forall (fun fr => isfile d0 (f_file fr) = true) p.
  Hypothesis Htxt : txt_untouched mv arch.

  Variables (d' : fsmap) (cfg : list (str * option Z)).
  Hypothesis Hstore : store_gen ko d step move home pn keep p = Some (d', cfg).

  Lemma store_moves : do_moves d3 mv = Some d' /\ cfg = map (fun fr => (dst tdir (f_file fr), f_idx fr)) p.
  Proof.
    unfold store_gen in Hstore. fold arch tdir d0 d3 mv in Hstore. destruct (do_moves d3 mv) as [d4|]; [|discriminate].
    injection Hstore as <- <-. split; reflexivity.
  Qed.

  Lemma txt_survive k : In k (txt_files arch) -> fs_get d' k = fs_get d3 k.
  Proof.
    intros Hk. destruct store_moves as (Hm & _). apply (do_moves_untouched _ _ _ _ Hm).
    destruct (move_list_spec d3 tdir keep p Hkeep) as (_ & M2 & _ & _). fold mv in M2.
    intros s t Hin Hst. split; intros ->; [exact (Htxt _ _ Hin Hk)|].
    rewrite (M2 _ _ Hin) in Hk. unfold dst, tdir in Hk. exact (accepted_not_txt arch _ Hk).
  Qed.

  Lemma dests_exist fr : In fr p -> isfile d' (dst tdir (f_file fr)) = true.
  Proof.
    intros Hin. destruct store_moves as (Hm & _).
    destruct (move_list_spec d3 tdir keep p Hkeep) as (M1 & M2 & M3 & M4). fold mv in M1, M2, M3, M4.
    apply (do_moves_dests mv d3 d' M1 M3 Hm) with (s := f_file fr); [|now apply M4].
    intros s t Hin' E. subst t.
    (* a file moved onto itself: it is a source of the path or an existing kept file; it exists *)
    destruct (in_dec (list_eq_dec Z.eq_dec) s (map f_file p)) as [Hs|Hs].
    - apply in_map_iff in Hs. destruct Hs as (fr' & <- & Hfr'). apply write_txt_isfile. rewrite Forall_forall in Hexist. now apply Hexist.
    - (* not a source of the path: it was entered by keep_one, after an isfile test *)
      revert Hin'. unfold mv, move_list, keep_extras.
      assert (G : forall k v, In (k, v) (gen_names tdir p) -> In k (map f_file p)).
      { unfold gen_names. intros k v. set (f := fun src fr0 => _).
        assert (Gen : forall q acc, (forall k v, In (k, v) acc -> In k (map f_file p)) -> (forall fr0, In fr0 q -> In fr0 p) ->
                                    forall k v, In (k, v) (fold_left f q acc) -> In k (map f_file p)).
        { induction q as [|fr0 q IHq]; intros acc Hacc Hq k0 v0; cbn [fold_left]; [apply Hacc|].
          apply IHq; [|intros fr1 H1; apply Hq; now right]. unfold f. intros k1 v1 H1.
          destruct (dict_has (f_file fr0) acc); [now apply (Hacc k1 v1)|].
          apply dict_set_In in H1. destruct H1 as [(-> & _)|H1]; [apply in_map, Hq; now left|now apply (Hacc k1 v1)]. }
        apply (Gen p []); [intros ? ? []|auto]. }
      generalize (map fst (gen_names tdir p)). intros ss. revert G. generalize (gen_names tdir p). intros g0 G.
      assert (Gen2 : forall ss g, (forall k v, In (k, v) g -> In k (map f_file p) \/ isfile d3 k = true) ->
                                 forall k v, In (k, v) (fold_left (keep_one d3 tdir keep) ss g) -> In k (map f_file p) \/ isfile d3 k = true).
      { induction ss0 as [|s0 ss0 IHs]; intros g Hg k0 v0; cbn [fold_left]; [apply Hg|].
        apply IHs. unfold keep_one. generalize keep. intros kp. revert g Hg. induction kp as [|ext kp IHk]; intros g Hg; cbn [fold_left]; [exact Hg|].
        apply IHk. destruct (isfile d3 (pjoin (dirname s0) (stem (basename s0) ++ ext))) eqn:Ef; [|exact Hg].
        intros k1 v1 H1. apply dict_set_In in H1. destruct H1 as [(-> & _)|H1]; [now right|now apply (Hg k1 v1)]. }
      intros Hin'. destruct (Gen2 ss g0 (fun k v H => or_introl (G k v H)) s s Hin') as [H|H]; [contradiction|exact H].
  Qed.

  Theorem store_load_roundtrip : load d' arch = Some (map (reload arch) p).
  Proof.
    destruct (write_txt_get d0 arch step move p) as (Go & Ge & Gt). fold d3 in Go, Ge, Gt.
    unfold load.
    rewrite (txt_survive (pjoin arch traj_txt)), Gt by (cbn; auto).
    rewrite (txt_survive (pjoin arch order_txt)), Go by (cbn; auto).
    rewrite (read_traj_file step p Hnames), traj_rows_seq.
    assert (Hfiles : forallb (fun x => isfile d' (fst (fst x))) (map (traj_ref arch) p) = true).
    { apply forallb_forall. intros x Hx. apply in_map_iff in Hx. destruct Hx as (fr & <- & Hfr). cbn [traj_ref fst]. now apply dests_exist. }
    rewrite Hfiles. cbn [negb].
    rewrite (read_order_file step move ncol p Hmove Hcols).
    assert (Hnn : is_nil (map (fun x => num_row order_d f_orders (fst x) (snd x)) (enum_from 0 p)) = false).
    { destruct p; [congruence|reflexivity]. }
    rewrite Hnn. unfold load_energies.
    rewrite (txt_survive (pjoin arch energy_txt)), Ge by (cbn; auto).
    rewrite (read_energy_file step move p Hmove).
    assert (Hne2 : is_nil (map (fun x => num_row energy_d energy_vals (fst x) (snd x)) (enum_from 0 p)) = false).
    { destruct p; [congruence|reflexivity]. }
    rewrite Hne2. destruct energy_cols_ok as (Kv & Ke).
    rewrite (energy_column_spec energy_ekin_col f_ekin p Hne Ke (fun fr => proj2 (proj2 (energy_vals_spec fr)))).
    rewrite (energy_column_spec energy_vpot_col f_vpot p Hne Kv (fun fr => proj1 (proj2 (energy_vals_spec fr)))).
    f_equal. now apply (build_frames_spec arch _ _ p 0%nat []).
  Qed.

  (* every file the loaded path refers to is a destination of the move into the path's own directory, and exists *)
  Theorem stored_files_exist : forall lf, In lf (map (reload arch) p) ->
    exists s, In (s, l_file lf) mv /\ l_file lf = pjoin (accepted_dir arch) (basename s) /\ isfile d' (l_file lf) = true.
  Proof.
    intros lf Hin. apply in_map_iff in Hin. destruct Hin as (fr & <- & Hfr). cbn [reload l_file].
    destruct (move_list_spec d3 tdir keep p Hkeep) as (_ & _ & _ & M4). fold mv in M4.
    exists (f_file fr). split; [now apply M4|]. split; [reflexivity|now apply dests_exist].
  Qed.

  (* content: with distinct destinations every referenced file holds what its source held *)
  Theorem stored_content : NoDup (map snd mv) -> forall fr, In fr p ->
    fs_get d' (dst tdir (f_file fr)) = fs_get d0 (f_file fr).
  Proof.
    intros Hnd fr Hfr. destruct store_moves as (Hm & _).
    destruct (move_list_spec d3 tdir keep p Hkeep) as (M1 & M2 & M3 & M4). fold mv in M1, M2, M3, M4.
    rewrite (do_moves_content mv d3 d' M1 Hnd M3 Hm _ _ (M4 fr Hfr)).
    (* the source was not overwritten by the text files *)
    unfold d3, write_txt. rewrite !fs_get_set.
    pose proof (Htxt _ _ (M4 fr Hfr)) as Hs.
    cbn [txt_files In] in Hs.
    destruct (str_eqb_spec (f_file fr) (pjoin arch traj_txt)); [exfalso; apply Hs; auto|].
    destruct (str_eqb_spec (f_file fr) (pjoin arch energy_txt)); [exfalso; apply Hs; auto|].
    destruct (str_eqb_spec (f_file fr) (pjoin arch order_txt)); [exfalso; apply Hs; auto|]. reflexivity.
  Qed.
End RoundTrip.

(* ---- without keep_traj_fnames: the explicit hypothesis "distinct source files have distinct base names" *)

Definition distinct_basenames (p : list frame) : Prop :=
  forall f1 f2, In f1 p -> In f2 p -> basename (f_file f1) = basename (f_file f2) -> f_file f1 = f_file f2.

Lemma gen_names_keys target p : forall k v, In (k, v) (gen_names target p) -> In k (map f_file p).
Proof.
  unfold gen_names. set (f := fun src fr0 => _).
  assert (Gen : forall q acc, (forall k v, In (k, v) acc -> In k (map f_file p)) -> (forall fr0, In fr0 q -> In fr0 p) ->
                              forall k v, In (k, v) (fold_left f q acc) -> In k (map f_file p)).
  { induction q as [|fr0 q IHq]; intros acc Hacc Hq k0 v0; cbn [fold_left]; [apply Hacc|].
    apply IHq; [|intros fr1 H1; apply Hq; now right]. unfold f. intros k1 v1 H1.
    destruct (dict_has (f_file fr0) acc); [now apply (Hacc k1 v1)|].
    apply dict_set_In in H1. destruct H1 as [(-> & _)|H1]; [apply in_map, Hq; now left|now apply (Hacc k1 v1)]. }
  apply (Gen p []); [intros ? ? []|auto].
Qed.

Lemma NoDup_map_inj_on {A B} (f : A -> B) l : NoDup l -> (forall x y, In x l -> In y l -> f x = f y -> x = y) -> NoDup (map f l).
Proof.
  induction 1 as [|a l Ha Hl IH]; intros Hinj; cbn [map]; constructor.
  - intros Hin. apply in_map_iff in Hin. destruct Hin as (y & E & Hy). apply Ha.
    rewrite (Hinj a y); [exact Hy|now left|now right|now symmetry].
  - apply IH. intros x y Hx Hy. apply Hinj; now right.
Qed.

Lemma distinct_dests d target p : distinct_basenames p -> NoDup (map snd (move_list d target [] p)).
Proof.
  intros Hd. rewrite move_list_nokeep.
  destruct (move_list_spec d target [] p (Forall_nil _)) as (M1 & M2 & _ & _). rewrite move_list_nokeep in M1, M2.
  set (g := gen_names target p) in *.
  assert (E : map snd g = map (dst target) (map fst g)).
  { rewrite map_map. apply map_ext_in. intros [s t] Hin. cbn [fst snd]. now apply M2. }
  rewrite E. apply NoDup_map_inj_on; [exact M1|].
  intros x y Hx Hy Exy. apply in_map_iff in Hx, Hy. destruct Hx as ([x' vx] & <- & Hx). destruct Hy as ([y' vy] & <- & Hy). cbn [fst] in *.
  apply gen_names_keys in Hx, Hy. apply in_map_iff in Hx, Hy. destruct Hx as (f1 & <- & H1). destruct Hy as (f2 & <- & H2).
  apply Hd; [exact H1|exact H2|]. unfold dst in Exy. now apply pjoin_inj in Exy.
Qed.

Lemma txt_untouched_nokeep d arch target p :
  (forall fr, In fr p -> ~ In (f_file fr) (txt_files arch)) -> txt_untouched (move_list d target [] p) arch.
Proof.
  intros H s t Hin. rewrite move_list_nokeep in Hin. apply gen_names_keys in Hin. apply in_map_iff in Hin.
  destruct Hin as (fr & <- & Hfr). now apply H.
Qed.

(* ================================================================== Part B: the deletion machine *)

Lemma dir_get_del ds pn pn' : dir_get (dir_del ds pn) pn' = if pn' =? pn then None else dir_get ds pn'.
Proof.
  unfold dir_get, dir_del. induction ds as [|[a i] r IH]; cbn [filter find fst]; [now destruct (pn' =? pn)|].
  destruct (Z.eqb_spec a pn) as [E|E]; cbn [negb].
  - rewrite IH. destruct (Z.eqb_spec pn' pn) as [E2|E2]; [reflexivity|].
    destruct (Z.eqb_spec a pn'); [congruence|reflexivity].
  - cbn [find fst]. destruct (Z.eqb_spec a pn') as [E2|E2]; [|exact IH].
    destruct (Z.eqb_spec pn' pn); [congruence|reflexivity].
Qed.

Lemma find_app {A} (f : A -> bool) l m : find f (l ++ m) = match find f l with Some x => Some x | None => find f m end.
Proof. induction l as [|a l IH]; [reflexivity|]. cbn [app find]. destruct (f a); [reflexivity|exact IH]. Qed.

Lemma dir_get_set ds pn i pn' : dir_get (dir_set ds pn i) pn' = if pn' =? pn then Some i else dir_get ds pn'.
Proof.
  unfold dir_set. pose proof (dir_get_del ds pn pn') as H. unfold dir_get in *. rewrite find_app.
  destruct (Z.eqb_spec pn' pn) as [E|E].
  - destruct (find (fun x => fst x =? pn') (dir_del ds pn)); [discriminate|]. cbn [find fst]. subst. now rewrite Z.eqb_refl.
  - destruct (find (fun x => fst x =? pn') (dir_del ds pn)) as [x|]; [exact H|]. cbn [find fst].
    destruct (Z.eqb_spec pn pn'); [congruence|exact H].
Qed.

Lemma dir_del_keys ds pn p : In p (map fst (dir_del ds pn)) -> In p (map fst ds).
Proof. unfold dir_del. intros H. apply in_map_iff in H. destruct H as (x & <- & Hx). apply filter_In in Hx. apply in_map, Hx. Qed.

Lemma dir_set_keys ds pn i p : In p (map fst (dir_set ds pn i)) -> p = pn \/ In p (map fst ds).
Proof.
  unfold dir_set. rewrite map_app. intros H. apply in_app_or in H. destruct H as [H|[H|[]]]; [right; now apply dir_del_keys in H|now left].
Qed.

Section DelP.
  Variables (delete_old delete_all : bool) (n : Z).

  Notation item_step := (item_step delete_old delete_all n).
  Notation mstep := (mstep delete_old delete_all n).
  Notation mrun := (mrun delete_old delete_all n).
  Notation delete_path := (delete_path delete_all).

  Definition complete (ds : list (Z * dinfo)) (pn : Z) : Prop :=
    exists i, dir_get ds pn = Some i /\ d_txt i = true /\ d_traj i = true.

  Lemma delete_path_other ds pd pn : pn <> pd -> dir_get (fst (delete_path ds pd)) pn = dir_get ds pn.
  Proof.
    intros H. unfold delete_path. destruct (dir_get ds pd) as [i|]; [|reflexivity].
    destruct delete_all; [destruct (0 <? d_nextra i)%nat|]; cbn [fst]; rewrite ?dir_get_set, ?dir_get_del;
      (destruct (Z.eqb_spec pn pd); [contradiction|reflexivity]).
  Qed.

  Lemma delete_path_keys ds pd p : In p (map fst (fst (delete_path ds pd))) -> In p (map fst ds).
  Proof.
    unfold delete_path. destruct (dir_get ds pd) as [i|] eqn:E; [|auto].
    assert (Hpd : In pd (map fst ds)).
    { unfold dir_get in E. destruct (find (fun x => fst x =? pd) ds) as [x|] eqn:Ef; [|discriminate].
      apply find_some in Ef. destruct Ef as (Hin & Hx). apply Z.eqb_eq in Hx. subst pd. now apply in_map. }
    destruct delete_all; [destruct (0 <? d_nextra i)%nat|]; cbn [fst]; intros H;
      try (apply dir_set_keys in H; destruct H as [->|H]; assumption); now apply dir_del_keys in H.
  Qed.

  Lemma complete_other ds pd pn : pn <> pd -> complete ds pn -> complete (fst (delete_path ds pd)) pn.
  Proof. intros H (i & E & Hi). exists i. split; [now rewrite delete_path_other|exact Hi]. Qed.

  Lemma complete_set_other ds pn i p : p <> pn -> complete ds p -> complete (dir_set ds pn i) p.
  Proof. intros H (j & E & Hj). exists j. rewrite dir_get_set. destruct (Z.eqb_spec p pn); [contradiction|now split]. Qed.

  Lemma complete_set_new ds pn a b : complete (dir_set ds pn (mkI true true a b)) pn.
  Proof. eexists. rewrite dir_get_set, Z.eqb_refl. repeat split. Qed.

  (* ---- the branches of one item *)
  Definition ds1_of (st : dstate) a b := dir_set (dirs st) (next st) (mkI true true a b).

  Inductive item_case (st : dstate) (old : Z) (a b : nat) : dstate * list event -> Prop :=
  | IC_plain q2 :
      (q2 = queue st \/ (q2 = qpush old (queue st) /\ n - guard_off < old /\ Z.of_nat (length (queue st)) <= n - lag_off)) ->
      item_case st old a b
        (mkD (replace_z old (next st) (live st)) q2 (next st + 1) (ds1_of st a b) (rec_ st) (S (cnt st)) false, [ERepl old (next st)])
  | IC_stop :
      queue st = [] -> n - lag_off < 0 ->
      item_case st old a b (mkD (live st) [] (next st) (ds1_of st a b) (rec_ st) (S (cnt st)) true, [ERepl old (next st); ECrash])
  | IC_rmdir pd q' :
      queue st = pd :: q' -> n - lag_off < Z.of_nat (length (queue st)) -> n - guard_off < old ->
      item_case st old a b
        (mkD (live st) (queue st) (next st) (fst (delete_path (ds1_of st a b) pd)) (rec_ st) (S (cnt st)) true,
         [ERepl old (next st); EDel pd; ECrash])
  | IC_delete pd q' q2 :
      queue st = pd :: q' -> n - lag_off < Z.of_nat (length (queue st)) -> n - guard_off < old ->
      (q2 = q' \/ q2 = qpush old q') ->
      item_case st old a b
        (mkD (replace_z old (next st) (live st)) q2 (next st + 1) (fst (delete_path (ds1_of st a b) pd)) (rec_ st) (S (cnt st)) false,
         [ERepl old (next st); EDel pd]).

  Lemma item_step_case st old a b : item_case st old a b (item_step st old a b).
  Proof.
    unfold item_step. fold (ds1_of st a b).
    destruct (delete_old && (old >? n - guard_off)) eqn:Eq.
    - apply andb_true_iff in Eq. destruct Eq as (_ & Eg). apply Z.gtb_lt in Eg.
      destruct (Z.of_nat (length (queue st)) >? n - lag_off) eqn:Ef.
      + apply Z.gtb_lt in Ef. destruct (queue st) as [|pd q'] eqn:Equ.
        * apply IC_stop; [exact Equ|]. cbn [length] in Ef. lia.
        * destruct (delete_path (ds1_of st a b) pd) as [ds2 failed] eqn:Ed.
          replace ds2 with (fst (delete_path (ds1_of st a b) pd)) by now rewrite Ed.
          destruct failed.
          -- rewrite <- Equ. apply (IC_rmdir st old a b pd q'); [exact Equ|rewrite Equ; exact Ef|exact Eg].
          -- apply (IC_delete st old a b pd q'); [exact Equ|rewrite Equ; exact Ef|exact Eg|].
             destruct (Z.of_nat (length q') <=? n - push_off); [now right|now left].
      + apply IC_plain. assert (Hf : Z.of_nat (length (queue st)) <= n - lag_off).
        { destruct (Z.gtb_spec (Z.of_nat (length (queue st))) (n - lag_off)); [discriminate|lia]. }
        destruct (Z.of_nat (length (queue st)) <=? n - push_off); [right; repeat split; assumption|now left].
    - apply IC_plain. now left.
  Qed.

  Lemma replace_In old new l p : In p (replace_z old new l) -> p = new \/ (In p l /\ p <> old).
  Proof.
    unfold replace_z. intros H. apply in_map_iff in H. destruct H as (x & E & Hx).
    destruct (Z.eqb_spec x old); [now left|right; subst; now split].
  Qed.

  Lemma qpush_In k q p : In p (qpush k q) -> p = k \/ In p q.
  Proof. unfold qpush. destruct (zmem k q); [now right|]. intros H. apply in_app_or in H. destruct H as [H|[H|[]]]; auto. Qed.

  Lemma qpush_nth k q i p : nth_error (qpush k q) i = Some p -> nth_error q i = Some p \/ (i = length q /\ p = k /\ qpush k q = q ++ [k]).
  Proof.
    unfold qpush. destruct (zmem k q); [now left|]. intros H.
    destruct (Nat.lt_ge_cases i (length q)) as [Hl|Hl]; [left; now rewrite nth_error_app1 in H|].
    rewrite nth_error_app2 in H by exact Hl. destruct (i - length q)%nat as [|j] eqn:Ej; [|destruct j; discriminate].
    cbn in H. injection H as <-. right. repeat split. lia.
  Qed.

  Lemma qpush_length k q : (length (qpush k q) <= S (length q))%nat /\ (length q <= length (qpush k q))%nat.
  Proof. unfold qpush. destruct (zmem k q); [lia|]. rewrite app_length. cbn. lia. Qed.

  (* what one operation does to a live state *)
  Lemma mstep_alive st o : dead st = false ->
    mstep st o = match o with
                 | MItem old a b => item_step st old a b
                 | MEnd => (mkD (live st) (queue st) (next st) (dirs st) (live st) 0 false, [])
                 | MRestart => (mkD (rec_ st) [] (next st) (dirs st) (rec_ st) 0 false, [])
                 end.
  Proof. intros H. unfold StoreM.mstep. now rewrite H. Qed.

  Lemma mstep_dead st o : dead st = true -> mstep st o = (st, []).
  Proof. intros H. unfold StoreM.mstep. now rewrite H. Qed.

  (* the counter never goes down, so later numbers are larger *)
  Theorem next_monotone st o : next st <= next (fst (mstep st o)).
  Proof.
    destruct (dead st) eqn:Ed; [rewrite mstep_dead by exact Ed; cbn; lia|]. rewrite (mstep_alive st o Ed).
    destruct o as [old a b| |]; cbn [fst next]; try lia.
    destruct (item_step_case st old a b); cbn [fst next]; lia.
  Qed.

  (* ---- the lag: needs no hypothesis on the history at all *)
  Definition is_repl (e : event) : bool := match e with ERepl _ _ => true | _ => false end.
  Definition count_repl (ev : list event) : nat := length (filter is_repl ev).

  Lemma count_repl_app a b : count_repl (a ++ b) = (count_repl a + count_repl b)%nat.
  Proof. unfold count_repl. now rewrite filter_app, app_length. Qed.

  Definition lag_inv (st : dstate) (h : list event) : Prop :=
    forall k p, nth_error (queue st) k = Some p ->
      exists e1 nw e2, h = e1 ++ ERepl p nw :: e2 /\ (length (queue st) - 1 - k <= count_repl e2)%nat.

  Definition lag_ok (h ev : list event) : Prop :=
    forall evA pd evB, ev = evA ++ EDel pd :: evB ->
      exists e1 nw e2, h ++ evA = e1 ++ ERepl pd nw :: e2 /\ n - lag_off + 1 <= Z.of_nat (count_repl e2).

  Lemma lag_item st old a b h : lag_inv st h ->
    lag_inv (fst (item_step st old a b)) (h ++ snd (item_step st old a b)) /\ lag_ok h (snd (item_step st old a b)).
  Proof.
    intros Hinv.
    destruct (item_step_case st old a b) as [q2 Hq2| Hq0 Hneg | pd q' Hq Hfull Hg | pd q' q2 Hq Hfull Hg Hq2]; cbn [fst snd].
    - split.
      + intros k p Hk. cbn [queue] in *.
        assert (Hold : nth_error (queue st) k = Some p -> (length q2 <= S (length (queue st)))%nat ->
                       exists e1 nw e2, h ++ [ERepl old (next st)] = e1 ++ ERepl p nw :: e2 /\ (length q2 - 1 - k <= count_repl e2)%nat).
        { intros Hk' Hl. destruct (Hinv k p Hk') as (e1 & nw & e2 & -> & Hm). exists e1, nw, (e2 ++ [ERepl old (next st)]).
          rewrite <- app_assoc. split; [reflexivity|]. rewrite count_repl_app. cbn. lia. }
        destruct Hq2 as [-> | (-> & _)]; [apply Hold; [exact Hk|lia]|].
        destruct (qpush_length old (queue st)) as (L1 & L2).
        apply qpush_nth in Hk. destruct Hk as [Hk|(-> & -> & E)]; [now apply Hold|].
        exists h, (next st), []. split; [reflexivity|]. rewrite E, app_length. cbn. lia.
      + intros evA pd evB E. destruct evA as [|x [|y evA]]; cbn in E; try discriminate; try (destruct evA; discriminate).
    - split.
      + intros k p Hk. cbn [queue] in Hk. destruct k; discriminate.
      + intros evA pd evB E. destruct evA as [|x [|y [|z evA]]]; cbn in E; try discriminate; try (destruct evA; discriminate).
    - assert (Hhead : exists e1 nw e2, h ++ [ERepl old (next st)] = e1 ++ ERepl pd nw :: e2 /\ n - lag_off + 1 <= Z.of_nat (count_repl e2)).
      { destruct (Hinv 0%nat pd) as (e1 & nw & e2 & -> & Hm); [now rewrite Hq|].
        exists e1, nw, (e2 ++ [ERepl old (next st)]). rewrite <- app_assoc. split; [reflexivity|]. rewrite count_repl_app. cbn. lia. }
      split.
      + intros k p Hk. cbn [queue] in *. destruct (Hinv k p Hk) as (e1 & nw & e2 & -> & Hm).
        exists e1, nw, (e2 ++ [ERepl old (next st); EDel pd; ECrash]). rewrite <- app_assoc. split; [reflexivity|]. rewrite count_repl_app. cbn. lia.
      + intros evA pd' evB E. destruct evA as [|x [|y [|z evA]]]; cbn in E; try discriminate.
        * injection E as <- <- _. exact Hhead.
        * try (destruct evA; discriminate).
    - assert (Hhead : exists e1 nw e2, h ++ [ERepl old (next st)] = e1 ++ ERepl pd nw :: e2 /\ n - lag_off + 1 <= Z.of_nat (count_repl e2)).
      { destruct (Hinv 0%nat pd) as (e1 & nw & e2 & -> & Hm); [now rewrite Hq|].
        exists e1, nw, (e2 ++ [ERepl old (next st)]). rewrite <- app_assoc. split; [reflexivity|]. rewrite count_repl_app. cbn. lia. }
      split.
      + intros k p Hk. cbn [queue] in *.
        assert (Hold : nth_error q' k = Some p -> (length q2 <= S (length q'))%nat ->
                       exists e1 nw e2, h ++ [ERepl old (next st); EDel pd] = e1 ++ ERepl p nw :: e2 /\ (length q2 - 1 - k <= count_repl e2)%nat).
        { intros Hk' Hl. destruct (Hinv (S k) p) as (e1 & nw & e2 & -> & Hm); [now rewrite Hq|]. rewrite Hq in Hm. cbn [length] in Hm.
          exists e1, nw, (e2 ++ [ERepl old (next st); EDel pd]). rewrite <- app_assoc. split; [reflexivity|]. rewrite count_repl_app. cbn. lia. }
        destruct Hq2 as [-> | ->]; [apply Hold; [exact Hk|lia]|].
        destruct (qpush_length old q') as (L1 & L2).
        apply qpush_nth in Hk. destruct Hk as [Hk|(-> & -> & E)]; [now apply Hold|].
        exists h, (next st), [EDel pd]. split; [reflexivity|]. rewrite E, app_length. cbn. lia.
      + intros evA pd' evB E. destruct evA as [|x [|y evA]]; cbn in E; try discriminate.
        * injection E as <- <- _. exact Hhead.
        * try (destruct evA; discriminate).
  Qed.

  Lemma lag_step st o h : lag_inv st h -> lag_inv (fst (mstep st o)) (h ++ snd (mstep st o)) /\ lag_ok h (snd (mstep st o)).
  Proof.
    intros Hinv. destruct (dead st) eqn:Ed.
    - rewrite mstep_dead by exact Ed. cbn [fst snd]. rewrite app_nil_r. split; [exact Hinv|].
      intros evA pd evB E. destruct evA; discriminate.
    - rewrite (mstep_alive st o Ed). destruct o as [old a b| |]; [now apply lag_item| |]; cbn [fst snd]; rewrite app_nil_r; split;
        try (intros evA pd evB E; destruct evA; discriminate).
      + exact Hinv.
      + intros k p Hk. destruct k; discriminate.
  Qed.

  Lemma mrun_cons st o r : mrun st (o :: r) = (fst (mrun (fst (mstep st o)) r), snd (mstep st o) ++ snd (mrun (fst (mstep st o)) r)).
  Proof. cbn [StoreM.mrun]. destruct (mstep st o) as [st1 e1]. cbn [fst snd]. destruct (mrun st1 r) as [st2 e2]. reflexivity. Qed.

  Theorem lag_run : forall ops st h, lag_inv st h ->
    lag_inv (fst (mrun st ops)) (h ++ snd (mrun st ops)) /\ lag_ok h (snd (mrun st ops)).
  Proof.
    induction ops as [|o r IH]; intros st h Hinv.
    - cbn [StoreM.mrun fst snd]. rewrite app_nil_r. split; [exact Hinv|]. intros evA pd evB E. destruct evA; discriminate.
    - rewrite mrun_cons. cbn [fst snd]. destruct (lag_step st o h Hinv) as (H1 & H2).
      destruct (IH _ _ H1) as (H3 & H4). split; [now rewrite app_assoc|].
      intros evA pd evB E. apply app_eq_app in E. destruct E as (l & [(E1 & E2)|(E1 & E2)]).
      + destruct l as [|x l].
        * (* the deletion is the first event of the later operations *)
          rewrite app_nil_r in E1. cbn [app] in E2. destruct (H4 [] pd evB (eq_sym E2)) as (e1 & nw & e2 & Ee & Hc).
          exists e1, nw, e2. split; [|exact Hc]. rewrite app_nil_r in Ee. now rewrite <- E1.
        * (* the deletion belongs to this operation *)
          cbn [app] in E2. injection E2 as <- E2. exact (H2 evA pd l E1).
      + (* the deletion belongs to a later operation *)
        destruct (H4 l pd evB E2) as (e1 & nw & e2 & Ee & Hc). exists e1, nw, e2. split; [|exact Hc].
        now rewrite E1, app_assoc.
  Qed.

  Theorem lag_from_start ops lv nx ds evA pd evB :
    snd (mrun (init_state lv nx ds) ops) = evA ++ EDel pd :: evB ->
    exists e1 nw e2, evA = e1 ++ ERepl pd nw :: e2 /\ n - lag_off + 1 <= Z.of_nat (count_repl e2).
  Proof.
    intros E. assert (H0 : lag_inv (init_state lv nx ds) []) by (intros k p Hk; destruct k; discriminate).
    destruct (lag_run ops _ [] H0) as (_ & H). exact (H evA pd evB E).
  Qed.

  (* ---- from here on: at most kmax ensembles per treat_output call *)
  Variable kmax : nat.                         (* ensembles treated by one treat_output call *)
  Hypothesis Hkmax : Z.of_nat kmax <= n - lag_off + 1.

  (* ---- the invariant of a run that has not crashed *)
  Record wf (st : dstate) : Prop := mkWf {
    wf_alive : dead st = false;
    wf_live_lt : forall p, In p (live st) -> p < next st;
    wf_queue_lt : forall p, In p (queue st) -> p < next st;
    wf_dirs_lt : forall p, In p (map fst (dirs st)) -> p < next st;
    wf_rec_lt : forall p, In p (rec_ st) -> p < next st;
    wf_queue_not_live : forall p, In p (queue st) -> ~ In p (live st);
    wf_queue_guard : forall p, In p (queue st) -> n - guard_off < p;
    wf_live_complete : forall p, In p (live st) -> complete (dirs st) p;
    wf_rec_complete : forall p, In p (rec_ st) -> complete (dirs st) p;
    wf_rec_recent : forall k p, nth_error (queue st) k = Some p -> In p (rec_ st) -> (length (queue st) - k <= cnt st)%nat;
    wf_cnt0 : cnt st = 0%nat -> rec_ st = live st }.

  Definition valid (st : dstate) (o : mop) : Prop :=
    dead st = true \/
    match o with
    | MItem old _ _ => In old (live st) /\ (cnt st < kmax)%nat
    | MEnd => True
    | MRestart => cnt st = 0%nat
    end.

  (* the head of a full queue is not in the restart record on disk *)
  Lemma head_not_in_rec st pd q' : wf st -> (cnt st < kmax)%nat -> queue st = pd :: q' ->
    n - lag_off < Z.of_nat (length (queue st)) -> ~ In pd (rec_ st).
  Proof.
    intros Hwf Hc Hq Hfull Hin. pose proof (wf_rec_recent st Hwf 0%nat pd) as H. rewrite Hq in H. specialize (H eq_refl Hin).
    rewrite Hq in Hfull. lia.
  Qed.

  Theorem wf_step st o : wf st -> valid st o -> dead (fst (mstep st o)) = false -> wf (fst (mstep st o)).
  Proof.
    intros Hwf Hv. pose proof (wf_alive st Hwf) as Ed. rewrite (mstep_alive st o Ed).
    destruct Hv as [Hv|Hv]; [congruence|]. destruct Hwf as [W0 W1 W2 W3 W4 W5 W6 W7 W8 W9 W10].
    assert (Hwf : wf st) by (constructor; assumption).
    destruct o as [old a b| |].
    - destruct Hv as (Hold & Hcnt). pose proof (W1 _ Hold) as Holdlt.
      destruct (item_step_case st old a b) as [q2 Hq2| Hq0 Hneg | pd q' Hq Hfull Hg | pd q' q2 Hq Hfull Hg Hq2]; cbn [fst dead]; try discriminate; intros _.
      + (* no deletion *)
        assert (Hq2in : forall p, In p q2 -> p = old \/ In p (queue st)).
        { destruct Hq2 as [-> | (-> & _)]; [now right|apply qpush_In]. }
        constructor; cbn [live queue next dirs rec_ cnt dead].
        * reflexivity.
        * intros p Hp. apply replace_In in Hp. destruct Hp as [->|(Hp & _)]; [lia|apply W1 in Hp; lia].
        * intros p Hp. apply Hq2in in Hp. destruct Hp as [->|Hp]; [lia|apply W2 in Hp; lia].
        * intros p Hp. apply dir_set_keys in Hp. destruct Hp as [->|Hp]; [lia|apply W3 in Hp; lia].
        * intros p Hp. apply W4 in Hp. lia.
        * intros p Hp Hl. apply replace_In in Hl. destruct Hl as [->|(Hl & Hne)].
          -- apply Hq2in in Hp. destruct Hp as [E|Hp]; [lia|apply W2 in Hp; lia].
          -- apply Hq2in in Hp. destruct Hp as [E|Hp]; [contradiction|exact (W5 _ Hp Hl)].
        * intros p Hp. destruct Hq2 as [-> | (-> & Hgd & _)]; [now apply W6|]. apply qpush_In in Hp. destruct Hp as [->|Hp]; [exact Hgd|now apply W6].
        * intros p Hp. apply replace_In in Hp. destruct Hp as [->|(Hp & _)]; [apply complete_set_new|].
          apply complete_set_other; [apply W1 in Hp; lia|now apply W7].
        * intros p Hp. apply complete_set_other; [apply W4 in Hp; lia|now apply W8].
        * intros k p Hk Hr. destruct Hq2 as [-> | (-> & _)]; [specialize (W9 k p Hk Hr); lia|].
          destruct (qpush_length old (queue st)) as (L1 & L2).
          apply qpush_nth in Hk. destruct Hk as [Hk|(-> & _ & E)]; [specialize (W9 k p Hk Hr); lia|]. lia.
        * discriminate.
      + (* the oldest replaced path is deleted *)
        assert (Hpdq : In pd (queue st)) by (rewrite Hq; now left).
        assert (Hnr : ~ In pd (rec_ st)) by (eapply head_not_in_rec; eauto).
        assert (Hnl : ~ In pd (live st)) by now apply W5.
        assert (Hpdlt : pd < next st) by now apply W2.
        assert (Hq'in : forall p, In p q' -> In p (queue st)) by (intros p Hp; rewrite Hq; now right).
        assert (Hq2in : forall p, In p q2 -> p = old \/ In p (queue st)).
        { destruct Hq2 as [-> | ->]; intros p Hp; [right; now apply Hq'in|]. apply qpush_In in Hp. destruct Hp as [->|Hp]; [now left|right; now apply Hq'in]. }
        constructor; cbn [live queue next dirs rec_ cnt dead].
        * reflexivity.
        * intros p Hp. apply replace_In in Hp. destruct Hp as [->|(Hp & _)]; [lia|apply W1 in Hp; lia].
        * intros p Hp. apply Hq2in in Hp. destruct Hp as [->|Hp]; [lia|apply W2 in Hp; lia].
        * intros p Hp. apply delete_path_keys, dir_set_keys in Hp. destruct Hp as [->|Hp]; [lia|apply W3 in Hp; lia].
        * intros p Hp. apply W4 in Hp. lia.
        * intros p Hp Hl. apply replace_In in Hl. destruct Hl as [->|(Hl & Hne)].
          -- apply Hq2in in Hp. destruct Hp as [E|Hp]; [lia|apply W2 in Hp; lia].
          -- apply Hq2in in Hp. destruct Hp as [E|Hp]; [contradiction|exact (W5 _ Hp Hl)].
        * intros p Hp. apply Hq2in in Hp. destruct Hp as [->|Hp]; [exact Hg|now apply W6].
        * intros p Hp. apply replace_In in Hp. destruct Hp as [->|(Hp & _)].
          -- apply complete_other; [lia|apply complete_set_new].
          -- apply complete_other; [intros ->; contradiction|]. apply complete_set_other; [apply W1 in Hp; lia|now apply W7].
        * intros p Hp. apply complete_other; [intros ->; contradiction|]. apply complete_set_other; [apply W4 in Hp; lia|now apply W8].
        * intros k p Hk Hr.
          assert (Hshift : nth_error q' k = Some p -> (length q' - k <= cnt st)%nat).
          { intros Hk'. pose proof (W9 (S k) p) as H. rewrite Hq in H. cbn [nth_error length] in H. specialize (H Hk' Hr). lia. }
          destruct Hq2 as [-> | ->]; [specialize (Hshift Hk); lia|].
          destruct (qpush_length old q') as (L1 & L2).
          apply qpush_nth in Hk. destruct Hk as [Hk|(-> & _ & E)]; [specialize (Hshift Hk); lia|]. lia.
        * discriminate.
    - (* write_toml *)
      cbn [fst dead]. intros _. constructor; cbn [live queue next dirs rec_ cnt dead]; auto.
      intros k p Hk Hr. exfalso. apply (W5 p); [eapply nth_error_In; eauto|exact Hr].
    - (* restart *)
      cbn [fst dead]. intros _. rewrite (W10 Hv). constructor; cbn [live queue next dirs rec_ cnt dead]; auto;
        try (now intros p []); try (intros k p Hk; destruct k; discriminate).
  Qed.

  (* ---- safety of every deletion, whether or not the step then crashes *)
  Theorem delete_safe st o pd : wf st -> valid st o -> In (EDel pd) (snd (mstep st o)) ->
    ~ In pd (live st) /\ ~ In pd (rec_ st) /\ ~ In pd (live (fst (mstep st o))) /\ n - guard_off < pd /\
    (forall p, In p (live (fst (mstep st o))) \/ In p (rec_ st) -> complete (dirs (fst (mstep st o))) p).
  Proof.
    intros Hwf Hv. pose proof (wf_alive st Hwf) as Ed. rewrite (mstep_alive st o Ed).
    destruct Hv as [Hv|Hv]; [congruence|].
    destruct o as [old a b| |]; [|intros []|intros []].
    destruct Hv as (Hold & Hcnt). pose proof (wf_live_lt st Hwf _ Hold) as Holdlt.
    destruct (item_step_case st old a b) as [q2 Hq2| Hq0 Hneg | pd' q' Hq Hfull Hg | pd' q' q2 Hq Hfull Hg Hq2]; cbn [fst snd live dirs].
    - intros [H|[]]. discriminate.
    - intros [H|[H|[]]]; discriminate.
    - intros [H|[H|[H|[]]]]; try discriminate. injection H as ->.
      assert (Hpdq : In pd (queue st)) by (rewrite Hq; now left).
      assert (Hnr : ~ In pd (rec_ st)) by (eapply head_not_in_rec; eauto).
      assert (Hnl : ~ In pd (live st)) by now apply (wf_queue_not_live st Hwf).
      repeat split; auto; [now apply (wf_queue_guard st Hwf)|].
      intros p [Hp|Hp]; (apply complete_other; [intros ->; contradiction|]); apply complete_set_other.
      + apply (wf_live_lt st Hwf) in Hp. lia.
      + now apply (wf_live_complete st Hwf).
      + apply (wf_rec_lt st Hwf) in Hp. lia.
      + now apply (wf_rec_complete st Hwf).
    - intros [H|[H|[]]]; try discriminate. injection H as ->.
      assert (Hpdq : In pd (queue st)) by (rewrite Hq; now left).
      assert (Hnr : ~ In pd (rec_ st)) by (eapply head_not_in_rec; eauto).
      assert (Hnl : ~ In pd (live st)) by now apply (wf_queue_not_live st Hwf).
      assert (Hpdlt : pd < next st) by now apply (wf_queue_lt st Hwf).
      repeat split; auto.
      + intros Hl. apply replace_In in Hl. destruct Hl as [->|(Hl & _)]; [lia|contradiction].
      + now apply (wf_queue_guard st Hwf).
      + intros p [Hp|Hp].
        * apply replace_In in Hp. destruct Hp as [->|(Hp & _)].
          -- apply complete_other; [lia|apply complete_set_new].
          -- apply complete_other; [intros ->; contradiction|]. apply complete_set_other; [apply (wf_live_lt st Hwf) in Hp; lia|now apply (wf_live_complete st Hwf)].
        * apply complete_other; [intros ->; contradiction|]. apply complete_set_other; [apply (wf_rec_lt st Hwf) in Hp; lia|now apply (wf_rec_complete st Hwf)].
  Qed.

  (* ---- arbitrary histories *)
  Inductive reach (st0 : dstate) : dstate -> Prop :=
  | reach_refl : reach st0 st0
  | reach_step st o : reach st0 st -> valid st o -> reach st0 (fst (mstep st o)).

  Theorem reach_inv st0 st : wf st0 -> reach st0 st -> dead st = true \/ wf st.
  Proof.
    intros H0. induction 1 as [|st o Hr IH Hv]; [now right|].
    destruct IH as [Hd|Hwf]; [left; now rewrite mstep_dead|].
    destruct (dead (fst (mstep st o))) eqn:E; [now left|right; now apply wf_step].
  Qed.

  Theorem reach_delete_safe st0 st o pd : wf st0 -> reach st0 st -> valid st o -> In (EDel pd) (snd (mstep st o)) ->
    ~ In pd (live st) /\ ~ In pd (rec_ st) /\ ~ In pd (live (fst (mstep st o))) /\ n - guard_off < pd /\
    (forall p, In p (live (fst (mstep st o))) \/ In p (rec_ st) -> complete (dirs (fst (mstep st o))) p).
  Proof.
    intros H0 Hr Hv Hin. destruct (reach_inv st0 st H0 Hr) as [Hd|Hwf]; [rewrite mstep_dead in Hin by exact Hd; destruct Hin|].
    now apply delete_safe.
  Qed.

  (* live paths and the paths of the restart record keep all their files, at every moment *)
  Theorem reach_live_complete st0 st : wf st0 -> reach st0 st -> dead st = false ->
    forall p, In p (live st) \/ In p (rec_ st) -> complete (dirs st) p.
  Proof.
    intros H0 Hr Hd p Hp. destruct (reach_inv st0 st H0 Hr) as [Hd'|Hwf]; [congruence|].
    destruct Hp; [now apply (wf_live_complete st Hwf)|now apply (wf_rec_complete st Hwf)].
  Qed.

  (* ---- a deleted path never comes back; numbers are handed out once *)
  Lemma gone_stays st o pd : dead st = true \/ wf st -> valid st o ->
    pd < next st -> ~ In pd (live st) -> ~ In pd (rec_ st) ->
    pd < next (fst (mstep st o)) /\ ~ In pd (live (fst (mstep st o))) /\ ~ In pd (rec_ (fst (mstep st o))) /\
    (forall old nw, In (ERepl old nw) (snd (mstep st o)) -> nw <> pd).
  Proof.
    intros [Hd|Hwf] Hv Hlt Hl Hr; [rewrite mstep_dead by exact Hd; cbn [fst snd]; repeat split; auto; try (now intros ? ? [])|].
    rewrite (mstep_alive st o (wf_alive st Hwf)). destruct o as [old a b| |]; cbn [fst snd live rec_ next].
    - assert (Hrep : ~ In pd (replace_z old (next st) (live st))).
      { intros Hc. apply replace_In in Hc. destruct Hc as [->|(Hc & _)]; [lia|contradiction]. }
      destruct (item_step_case st old a b) as [q2 Hq2| Hq0 Hneg | pd' q' Hq Hfull Hg | pd' q' q2 Hq Hfull Hg Hq2]; cbn [fst snd live rec_ next].
      + split; [lia|]. split; [exact Hrep|]. split; [exact Hr|].
        intros o' nw Hin. destruct Hin as [Hin|[]]. injection Hin as _ <-. lia.
      + split; [lia|]. split; [exact Hl|]. split; [exact Hr|].
        intros o' nw Hin. destruct Hin as [Hin|[Hin|[]]]; [|discriminate]. injection Hin as _ <-. lia.
      + split; [lia|]. split; [exact Hl|]. split; [exact Hr|].
        intros o' nw Hin. destruct Hin as [Hin|[Hin|[Hin|[]]]]; try discriminate. injection Hin as _ <-. lia.
      + split; [lia|]. split; [exact Hrep|]. split; [exact Hr|].
        intros o' nw Hin. destruct Hin as [Hin|[Hin|[]]]; [|discriminate]. injection Hin as _ <-. lia.
    - repeat split; auto; try (now intros ? ? []).
    - repeat split; auto; try (now intros ? ? []).
  Qed.

  Theorem deleted_never_returns st0 st o pd st2 : wf st0 -> reach st0 st -> valid st o ->
    In (EDel pd) (snd (mstep st o)) -> reach (fst (mstep st o)) st2 ->
    ~ In pd (live st2) /\ ~ In pd (rec_ st2) /\ forall o2 old nw, valid st2 o2 -> In (ERepl old nw) (snd (mstep st2 o2)) -> nw <> pd.
  Proof.
    intros H0 Hr Hv Hin Hr2.
    destruct (reach_inv st0 st H0 Hr) as [Hd|Hwf]; [rewrite mstep_dead in Hin by exact Hd; destruct Hin|].
    destruct (delete_safe st o pd Hwf Hv Hin) as (Hl & Hrc & Hl' & _ & _).
    assert (Hpdlt : pd < next st).
    { rewrite (mstep_alive st o (wf_alive st Hwf)) in Hin. destruct o as [old a b| |]; [|destruct Hin|destruct Hin].
      destruct (item_step_case st old a b) as [q2 Hq2| Hq0 Hneg | pd' q' Hq Hfull Hg | pd' q' q2 Hq Hfull Hg Hq2]; cbn [snd] in Hin.
      - destruct Hin as [Hin|[]]; discriminate.
      - destruct Hin as [Hin|[Hin|[]]]; discriminate.
      - destruct Hin as [Hin|[Hin|[Hin|[]]]]; try discriminate. injection Hin as <-. apply (wf_queue_lt st Hwf). rewrite Hq. now left.
      - destruct Hin as [Hin|[Hin|[]]]; try discriminate. injection Hin as <-. apply (wf_queue_lt st Hwf). rewrite Hq. now left. }
    destruct (gone_stays st o pd (or_intror Hwf) Hv Hpdlt Hl Hrc) as (G1 & G2 & G3 & _).
    assert (Hinv1 : dead (fst (mstep st o)) = true \/ wf (fst (mstep st o))).
    { destruct (dead (fst (mstep st o))) eqn:E; [now left|right; now apply wf_step]. }
    assert (Gen : (dead st2 = true \/ wf st2) /\ pd < next st2 /\ ~ In pd (live st2) /\ ~ In pd (rec_ st2)).
    { induction Hr2 as [|st3 o3 Hr3 IH Hv3]; [repeat split; auto|].
      destruct IH as (Hi & I1 & I2 & I3). destruct (gone_stays st3 o3 pd Hi Hv3 I1 I2 I3) as (J1 & J2 & J3 & _).
      repeat split; auto. destruct Hi as [Hd3|Hw3]; [left; now rewrite mstep_dead|].
      destruct (dead (fst (mstep st3 o3))) eqn:E; [now left|right; now apply wf_step]. }
    destruct Gen as (Hi & I1 & I2 & I3). repeat split; auto.
    intros o2 old nw Hv2 Hin2. exact (proj2 (proj2 (proj2 (gone_stays st2 o2 pd Hi Hv2 I1 I2 I3))) old nw Hin2).
  Qed.

  (* a new path gets a number that no live, queued, recorded path and no directory carries *)
  Theorem new_number_fresh st0 st o old nw : wf st0 -> reach st0 st -> valid st o -> In (ERepl old nw) (snd (mstep st o)) ->
    nw = next st /\ ~ In nw (live st) /\ ~ In nw (queue st) /\ ~ In nw (rec_ st) /\ ~ In nw (map fst (dirs st)) /\
    (dead (fst (mstep st o)) = false -> next (fst (mstep st o)) = nw + 1).
  Proof.
    intros H0 Hr Hv Hin. destruct (reach_inv st0 st H0 Hr) as [Hd|Hwf]; [rewrite mstep_dead in Hin by exact Hd; destruct Hin|].
    rewrite (mstep_alive st o (wf_alive st Hwf)) in *. destruct o as [old' a b| |]; [|destruct Hin|destruct Hin].
    assert (E : nw = next st).
    { destruct (item_step_case st old' a b) as [q2 Hq2| Hq0 Hneg | pd' q' Hq Hfull Hg | pd' q' q2 Hq Hfull Hg Hq2]; cbn [snd] in Hin.
      - destruct Hin as [Hin|[]]. now injection Hin as _ <-.
      - destruct Hin as [Hin|[Hin|[]]]; [|discriminate]. now injection Hin as _ <-.
      - destruct Hin as [Hin|[Hin|[Hin|[]]]]; try discriminate. now injection Hin as _ <-.
      - destruct Hin as [Hin|[Hin|[]]]; [|discriminate]. now injection Hin as _ <-. }
    subst nw. repeat split.
    - intros H. apply (wf_live_lt st Hwf) in H. lia.
    - intros H. apply (wf_queue_lt st Hwf) in H. lia.
    - intros H. apply (wf_rec_lt st Hwf) in H. lia.
    - intros H. apply (wf_dirs_lt st Hwf) in H. lia.
    - destruct (item_step_case st old' a b) as [q2 Hq2| Hq0 Hneg | pd' q' Hq Hfull Hg | pd' q' q2 Hq Hfull Hg Hq2]; cbn [fst dead next]; congruence.
  Qed.

  (* the state a run (or a restarted run) begins with *)
  Lemma init_state_wf lv nx ds :
    (forall p, In p lv -> p < nx) -> (forall p, In p (map fst ds) -> p < nx) -> (forall p, In p lv -> complete ds p) ->
    wf (init_state lv nx ds).
  Proof.
    intros H1 H2 H3. constructor; cbn [init_state live queue next dirs rec_ cnt dead]; auto;
      try (now intros p []); try (intros k p Hk; destruct k; discriminate).
  Qed.

End DelP.

(* ================================================================== statements used by theorems/C14.v *)

Lemma pow10p_6 : (2 * pow10p 6 = 2000000)%positive.
Proof. reflexivity. Qed.

Lemma rnd_bound d v q : d = 6%nat -> rnd d (Some v) = Some q -> (Qabs (q - snd v) <= 1 # 2000000)%Q.
Proof. intros -> H. apply rnd_error in H. now rewrite pow10p_6 in H. Qed.

Lemma reload_frame_spec pdir fr :
  l_file (reload pdir fr) = pjoin (pjoin pdir acc_dir) (basename (f_file fr)) /\
  l_idx (reload pdir fr) = match f_idx fr with None => 0 | Some k => k end /\
  l_rev (reload pdir fr) = f_rev fr /\
  length (l_orders (reload pdir fr)) = length (f_orders fr) /\
  (forall k v q, nth_error (f_orders fr) k = Some (Some v) -> nth_error (l_orders (reload pdir fr)) k = Some (Some q) ->
     (Qabs (q - snd v) <= 1 # 2000000)%Q) /\
  (forall k, nth_error (f_orders fr) k = Some None -> nth_error (l_orders (reload pdir fr)) k = Some None) /\
  (forall v, f_vpot fr = Some v -> exists q, l_vpot (reload pdir fr) = Some (Some q) /\ (Qabs (q - snd v) <= 1 # 2000000)%Q) /\
  (f_vpot fr = None -> l_vpot (reload pdir fr) = Some None) /\
  (forall v, f_ekin fr = Some v -> exists q, l_ekin (reload pdir fr) = Some (Some q) /\ (Qabs (q - snd v) <= 1 # 2000000)%Q) /\
  (f_ekin fr = None -> l_ekin (reload pdir fr) = Some None).
Proof.
  unfold reload. cbn [l_file l_idx l_rev l_orders l_vpot l_ekin]. repeat split.
  - now rewrite map_length.
  - intros k v q H1 H2. rewrite (map_nth_error (rnd order_d) _ _ H1) in H2. injection H2 as H2. apply (rnd_bound order_d v q); [reflexivity|cbn; now f_equal].
  - intros k H1. now rewrite (map_nth_error (rnd order_d) _ _ H1).
  - intros v ->. eexists. split; [reflexivity|]. apply (rnd_bound energy_d v); reflexivity.
  - now intros ->.
  - intros v ->. eexists. split; [reflexivity|]. apply (rnd_bound energy_d v); reflexivity.
  - now intros ->.
Qed.

(* ---- the repaired output() (files the path refers to are spared): hypotheses on the disk as it is *)
Lemma isfile_clean_true tdir p d fr : In fr p -> isfile (clean_dir true tdir p d) (f_file fr) = isfile d (f_file fr).
Proof. intros H. unfold isfile. rewrite clean_keeps_sources by now apply in_map. reflexivity. Qed.

Lemma exist_clean_true tdir p d : Forall (fun fr => isfile d (f_file fr) = true) p ->
  Forall (fun fr => isfile (clean_dir true tdir p d) (f_file fr) = true) p.
Proof. rewrite !Forall_forall. intros H fr Hfr. rewrite isfile_clean_true by exact Hfr. now apply H. Qed.

Theorem roundtrip_repaired (d : fsmap) (step : Z) (move home : str) (pn : Z) (keep : list str) (p : list frame) (ncol : nat) :
  p <> [] -> nonl move -> Forall name_ok p ->
  Forall (fun fr => length (f_orders fr) = ncol) p ->
  Forall no_slash keep ->
  Forall (fun fr => isfile d (f_file fr) = true) p ->
  txt_untouched (move_list (write_txt (clean_dir true (accepted_dir (archive_dir home pn)) p d) (archive_dir home pn) step move p)
                           (accepted_dir (archive_dir home pn)) keep p) (archive_dir home pn) ->
  forall d' cfg, store_gen true d step move home pn keep p = Some (d', cfg) ->
  load d' (archive_dir home pn) = Some (map (reload (archive_dir home pn)) p).
Proof.
  intros H1 H2 H3 H4 H5 H6 H7 d' cfg H8.
  apply (store_load_roundtrip true d step move home pn keep p ncol H1 H2 H3 H4 H5 (exist_clean_true _ _ _ H6) H7 d' cfg H8).
Qed.

Theorem files_exist_repaired (d : fsmap) (step : Z) (move home : str) (pn : Z) (keep : list str) (p : list frame) :
  Forall no_slash keep ->
  Forall (fun fr => isfile d (f_file fr) = true) p ->
  forall d' cfg, store_gen true d step move home pn keep p = Some (d', cfg) ->
  forall lf, In lf (map (reload (archive_dir home pn)) p) ->
  exists s, In (s, l_file lf) (move_list (write_txt (clean_dir true (accepted_dir (archive_dir home pn)) p d) (archive_dir home pn) step move p)
                                          (accepted_dir (archive_dir home pn)) keep p) /\
            l_file lf = pjoin (accepted_dir (archive_dir home pn)) (basename s) /\
            isfile d' (l_file lf) = true.
Proof.
  intros H1 H2 d' cfg H3. apply (stored_files_exist true d step move home pn keep p H1 (exist_clean_true _ _ _ H2) d' cfg H3).
Qed.

Theorem content_repaired (d : fsmap) (step : Z) (move home : str) (pn : Z) (keep : list str) (p : list frame) :
  Forall no_slash keep ->
  txt_untouched (move_list (write_txt (clean_dir true (accepted_dir (archive_dir home pn)) p d) (archive_dir home pn) step move p)
                           (accepted_dir (archive_dir home pn)) keep p) (archive_dir home pn) ->
  forall d' cfg, store_gen true d step move home pn keep p = Some (d', cfg) ->
  NoDup (map snd (move_list (write_txt (clean_dir true (accepted_dir (archive_dir home pn)) p d) (archive_dir home pn) step move p)
                            (accepted_dir (archive_dir home pn)) keep p)) ->
  forall fr, In fr p -> fs_get d' (dst (accepted_dir (archive_dir home pn)) (f_file fr)) = fs_get d (f_file fr).
Proof.
  intros H1 H2 d' cfg H3 H4 fr Hfr.
  rewrite (stored_content true d step move home pn keep p H1 H2 d' cfg H3 H4 fr Hfr). apply clean_keeps_sources. now apply in_map.
Qed.

Lemma stored_content_distinct (d : fsmap) (step : Z) (move home : str) (pn : Z) (p : list frame) :
  distinct_basenames p ->
  (forall fr, In fr p -> ~ In (f_file fr) (txt_files (archive_dir home pn))) ->
  forall d' cfg, store_gen true d step move home pn [] p = Some (d', cfg) ->
  forall fr, In fr p -> fs_get d' (l_file (reload (archive_dir home pn) fr)) = fs_get d (f_file fr).
Proof.
  intros Hd Htxt d' cfg Hs fr Hfr. cbn [reload l_file].
  apply (content_repaired d step move home pn [] p (Forall_nil _)) with (cfg := cfg); auto.
  - now apply txt_untouched_nokeep.
  - now apply distinct_dests.
Qed.

(* ---- concrete witnesses *)
Definition s_w0a : str := [119; 48; 47; 97].     (* "w0/a" *)
Definition s_w1a : str := [119; 49; 47; 97].     (* "w1/a" *)
Definition s_w0b : str := [119; 48; 47; 98].     (* "w0/b" *)
Definition q1 : fval := Some (false, 1 # 128).                 (* a tie of the sixth decimal *)
Definition q2 : fval := Some (false, 123456789 # 1000).        (* wider than the field *)
Definition q3 : fval := Some (true, 0 # 1).                        (* -0.0 *)
Definition cx_d : fsmap := [(s_w0a, [120]); (s_w1a, [121]); (s_w0b, [122])].
Definition cx_p : list frame := [mkFrame [q1] None q2 s_w0a (Some 0) false; mkFrame [q3] q1 None s_w1a None true].
Definition ex_p : list frame :=
  [mkFrame [q1; q2] None q2 s_w0a None true; mkFrame [q3; None] q1 None s_w0b (Some 5) false; mkFrame [q2; q1] q3 q3 s_w0a (Some 3) false].

Lemma collision_refuted :
  exists d step move home pn p d' cfg fr,
    Forall (fun fr => isfile d (f_file fr) = true) p /\ store_gen true d step move home pn [] p = Some (d', cfg) /\
    load d' (archive_dir home pn) = Some (map (reload (archive_dir home pn)) p) /\
    In fr p /\ fs_get d' (l_file (reload (archive_dir home pn) fr)) <> fs_get d (f_file fr).
Proof.
  destruct (store_gen true cx_d 7 [115; 104] [108] 3 [] cx_p) as [[d' cfg]|] eqn:E; [|vm_compute in E; discriminate].
  exists cx_d, 7, [115; 104], [108], 3, cx_p, d', cfg, (mkFrame [q1] None q2 s_w0a (Some 0) false).
  split; [repeat constructor|]. split; [exact E|]. vm_compute in E. injection E as <- <-.
  split; [vm_compute; reflexivity|]. split; [now left|]. vm_compute. discriminate.
Qed.

Lemma example_store :
  exists d p d' cfg,
    p <> [] /\ Forall name_ok p /\ Forall (fun fr => length (f_orders fr) = 2%nat) p /\
    Forall (fun fr => isfile d (f_file fr) = true) p /\ distinct_basenames p /\
    store_gen true d 7 [115; 104] [108] 3 [] p = Some (d', cfg) /\
    load d' (archive_dir [108] 3) = Some (map (reload (archive_dir [108] 3)) p) /\ length p = 3%nat.
Proof.
  destruct (store_gen true cx_d 7 [115; 104] [108] 3 [] ex_p) as [[d' cfg]|] eqn:E; [|vm_compute in E; discriminate].
  exists cx_d, ex_p, d', cfg.
  assert (Hn : Forall name_ok ex_p) by (repeat constructor; vm_compute; discriminate).
  assert (Hc : Forall (fun fr => length (f_orders fr) = 2%nat) ex_p) by (repeat constructor).
  assert (Hx : Forall (fun fr => isfile cx_d (f_file fr) = true) ex_p) by (repeat constructor).
  split; [discriminate|]. split; [exact Hn|]. split; [exact Hc|]. split; [exact Hx|]. split.
  - intros f1 f2 H1 H2 Eb. cbn [In ex_p] in H1, H2.
    destruct H1 as [<-|[<-|[<-|[]]]]; destruct H2 as [<-|[<-|[<-|[]]]]; try reflexivity; vm_compute in Eb; discriminate.
  - split; [exact E|]. split; [|reflexivity].
    (* by the theorem, not by computation: its hypotheses are met *)
    apply (roundtrip_repaired cx_d 7 [115; 104] [108] 3 [] ex_p 2%nat) with (cfg := cfg); auto.
    + discriminate.
    + reflexivity.
    + apply txt_untouched_nokeep. intros fr Hfr. cbn [In ex_p] in Hfr.
      destruct Hfr as [<-|[<-|[<-|[]]]]; vm_compute; intros [H|[H|[H|[]]]]; discriminate.
Qed.

(* the code of fix 5456497 without the repair: a path stored again in its own directory loses the
   file it refers to; every hypothesis of the theorem for the repaired code holds *)
Definition s_inplace : str := [108; 47; 51; 47; 97; 99; 99; 101; 112; 116; 101; 100; 47; 97].     (* "l/3/accepted/a" *)
Definition ip_d : fsmap := [(s_inplace, [120]); (s_w0b, [122])].
Definition ip_p : list frame := [mkFrame [q1] None q2 s_inplace (Some 0) false; mkFrame [q3] q1 None s_w0b None true].

Lemma inplace_refuted :
  exists d p d' cfg,
    p <> [] /\ Forall name_ok p /\ Forall (fun fr => length (f_orders fr) = 1%nat) p /\
    Forall (fun fr => isfile d (f_file fr) = true) p /\ distinct_basenames p /\
    (forall fr, In fr p -> ~ In (f_file fr) (txt_files (archive_dir [108] 3))) /\
    store_gen false d 7 [115; 104] [108] 3 [] p = Some (d', cfg) /\ load d' (archive_dir [108] 3) = None /\
    exists d2 cfg2, store_gen true d 7 [115; 104] [108] 3 [] p = Some (d2, cfg2) /\
                    load d2 (archive_dir [108] 3) = Some (map (reload (archive_dir [108] 3)) p).
Proof.
  destruct (store_gen false ip_d 7 [115; 104] [108] 3 [] ip_p) as [[d' cfg]|] eqn:E; [|vm_compute in E; discriminate].
  destruct (store_gen true ip_d 7 [115; 104] [108] 3 [] ip_p) as [[d2 cfg2]|] eqn:E2; [|vm_compute in E2; discriminate].
  exists ip_d, ip_p, d', cfg.
  split; [discriminate|]. split; [repeat constructor; vm_compute; discriminate|]. split; [repeat constructor|].
  split; [repeat constructor|]. split.
  - intros f1 f2 H1 H2 Eb. cbn [In ip_p] in H1, H2.
    destruct H1 as [<-|[<-|[]]]; destruct H2 as [<-|[<-|[]]]; try reflexivity; vm_compute in Eb; discriminate.
  - split.
    + intros fr Hfr. cbn [In ip_p] in Hfr. destruct Hfr as [<-|[<-|[]]]; vm_compute; intros [H|[H|[H|[]]]]; discriminate.
    + split; [exact E|]. vm_compute in E. injection E as <- <-. split; [vm_compute; reflexivity|].
      exists d2, cfg2. split; [exact E2|]. vm_compute in E2. injection E2 as <- <-. vm_compute. reflexivity.
Qed.

Definition o2_st0 : dstate := init_state [0; 1; 2] 3 [(0, full_dir 1); (1, full_dir 1); (2, full_dir 1)].

Lemma o2_witness :
  exists ops, dead (fst (mrun true true 4 o2_st0 ops)) = true /\ In ECrash (snd (mrun true true 4 o2_st0 ops)).
Proof.
  exists [MItem 0 2 2; MEnd; MItem 3 2 2; MEnd; MItem 4 2 2; MEnd; MItem 5 2 2; MEnd; MItem 6 2 2; MEnd].
  split; [vm_compute; reflexivity|]. vm_compute. repeat (first [left; reflexivity | right]).
Qed.

Lemma example_delete :
  let st0 := o2_st0 in
  let ops := [MItem 0 2 0; MEnd; MItem 3 2 0; MItem 1 2 0; MEnd; MItem 4 2 0; MEnd; MRestart; MItem 6 2 0; MEnd; MItem 7 2 0; MEnd;
              MItem 8 2 0; MItem 5 2 0; MEnd; MItem 9 2 0; MEnd] in
  wf 4 st0 /\ Z.of_nat 2 <= 4 - lag_off + 1 /\
  snd (mrun true false 4 st0 ops) =
    [ERepl 0 3; ERepl 3 4; ERepl 1 5; ERepl 4 6; ERepl 6 7; ERepl 7 8; ERepl 8 9; ERepl 5 10; EDel 6; ERepl 9 11; EDel 7] /\
  live (fst (mrun true false 4 st0 ops)) = [11; 10; 2].
Proof.
  cbv zeta. split; [|split; [vm_compute; discriminate|split; vm_compute; reflexivity]].
  apply init_state_wf.
  - intros p [<-|[<-|[<-|[]]]]; lia.
  - intros p Hp. cbn in Hp. destruct Hp as [<-|[<-|[<-|[]]]]; lia.
  - intros p [<-|[<-|[<-|[]]]]; eexists; (split; [vm_compute; reflexivity|split; reflexivity]).
Qed.

Lemma lag_from_start_n1 (delete_old delete_all : bool) (n : Z) ops lv nx ds evA pd evB :
  snd (mrun delete_old delete_all n (init_state lv nx ds) ops) = evA ++ EDel pd :: evB ->
  exists e1 nw e2, evA = e1 ++ ERepl pd nw :: e2 /\ n - 1 <= Z.of_nat (count_repl e2).
Proof.
  intros E. destruct (lag_from_start delete_old delete_all n ops lv nx ds evA pd evB E) as (e1 & nw & e2 & H1 & H2).
  exists e1, nw, e2. split; [exact H1|]. change lag_off with 2 in H2. lia.
Qed.

Lemma width_guard_field nz x :
  width_guard order_w order_d nz x = true <-> length (print_field order_w order_d (Some (nz, x))) = order_w.
Proof. symmetry. exact (width_guard_spec order_w order_d nz x). Qed.
