(* Proofs for property C14 (stored paths). *)
From Coq Require Import ZArith QArith Qabs List Bool Lia Arith.
Import ListNotations.
From Inf Require Import gen.ParamsC14 model.CodecM proofs.CodecP model.StoreM.
Open Scope Z_scope.
