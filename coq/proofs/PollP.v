(* Proofs about the polling loops of model/PollM.v (property C12). *)
From Coq Require Import ZArith List Bool Lia Arith PeanoNat.
Import ListNotations.
From Inf Require Import base.ListX model.PathM model.EngineM model.PollM.
Open Scope Z_scope.

(* ================================================================== the stop rule *)

(* the stop rule before the repair of L11 is the shared EngineM.add_to_path *)
Lemma add_to_path_x_false : forall p f l r, add_to_path_x false p f l r = add_to_path p f l r.
Proof.
  intros p f l r. unfold add_to_path_x, add_to_path. destruct (append p f) as [p1 add].
  destruct (rev (pts p1)) as [|lastf t]; [reflexivity|].
  destruct (ford lastf <? l); destruct (r <? ford lastf); cbn; rewrite ?andb_true_r; reflexivity.
Qed.

Lemma propagate_loop_x_false : forall fs p l r n,
  propagate_loop_x false p fs l r n = propagate_loop p fs l r n.
Proof.
  induction fs as [|f fs IH]; intros p l r n; cbn; [reflexivity|].
  rewrite add_to_path_x_false. destruct (add_to_path p f l r) as [[[[p1 s] st] a]|]; [|reflexivity].
  destruct st; [reflexivity|apply IH].
Qed.

Section Spec.
Variable fx : bool.
Variables left right : Z.

(* propagate_loop without the counter *)
Inductive sres := SStop (p : path) (s : bool) | SMore (p : path) | SErr.

Fixpoint run_frames (p : path) (fs : list frame) : sres :=
  match fs with
  | [] => SMore p
  | f :: r =>
      match add_to_path_x fx p f left right with
      | None => SErr
      | Some (p1, success, stop, _) => if stop then SStop p1 success else run_frames p1 r
      end
  end.

Definition erase_pr (r : prop_result) : sres :=
  match r with PR p s _ => SStop p s | PRExhausted p => SMore p | PRError => SErr end.

Lemma propagate_loop_run_frames : forall fs p n,
  erase_pr (propagate_loop_x fx p fs left right n) = run_frames p fs.
Proof.
  induction fs as [|f r IH]; intros p n; cbn; [reflexivity|].
  destruct (add_to_path_x fx p f left right) as [[[[p1 s] st] a]|]; cbn; [|reflexivity].
  destruct st; cbn; [reflexivity|apply IH].
Qed.

Lemma run_frames_app : forall a b p,
  run_frames p (a ++ b) =
  match run_frames p a with SMore p1 => run_frames p1 b | r => r end.
Proof.
  induction a as [|f a IH]; intros b p; cbn; [reflexivity|].
  destruct (add_to_path_x fx p f left right) as [[[[p1 s] st] ad]|]; [|reflexivity].
  destruct st; [reflexivity|apply IH].
Qed.

(* a stop found in a prefix is the stop of the whole stream *)
Lemma run_frames_stop_prefix : forall a b p p1 s,
  run_frames p a = SStop p1 s -> run_frames p (a ++ b) = SStop p1 s.
Proof. intros a b p p1 s H. rewrite run_frames_app, H. reflexivity. Qed.

Lemma run_frames_err_prefix : forall a b p,
  run_frames p a = SErr -> run_frames p (a ++ b) = SErr.
Proof. intros a b p H. rewrite run_frames_app, H. reflexivity. Qed.

(* ---- the stop rule in closed form *)
Definition outside (f : frame) : bool := (ford f <? left) || (right <? ford f).

(* the rule fires on the frame that becomes the (k+1)-th of a path limited to M frames *)
Definition fires (M k : nat) (f : frame) : bool := outside f || (S k =? M)%nat.

Fixpoint first_fire (M k : nat) (fs : list frame) : option (nat * frame) :=
  match fs with
  | [] => None
  | f :: r => if fires M k f then Some (k, f) else first_fire M (S k) r
  end.

(* the success flag reported for the frame on which the rule fires: with the current rule
   exactly "that frame is outside the interfaces"; before the repair of L11 additionally
   "and it is not the maxlen-th" *)
Definition succ_of (M k : nat) (f : frame) : bool :=
  if fx then outside f else outside f && negb (S k =? M)%nat.

Lemma add_to_path_room : forall p f,
  (plen p < maxlen p)%nat ->
  add_to_path_x fx p f left right =
  Some (mkP (pts p ++ [f]) (maxlen p) (torigin p), succ_of (maxlen p) (plen p) f,
        fires (maxlen p) (plen p) f, true).
Proof.
  intros p f Hlt. unfold add_to_path_x, append.
  destruct (Nat.ltb_spec (plen p) (maxlen p)) as [_|H]; [|lia].
  cbv beta iota zeta. cbn [pts maxlen]. rewrite rev_unit.
  unfold plen at 1. cbn [pts].
  rewrite app_length. cbn [length]. replace (length (pts p) + 1)%nat with (S (plen p)) by (unfold plen; lia).
  unfold succ_of, fires, outside.
  destruct fx; destruct (ford f <? left); destruct (right <? ford f);
    destruct (Nat.eqb_spec (S (plen p)) (maxlen p)); cbn; reflexivity.
Qed.

Lemma first_fire_ge : forall fs M k0 k f, first_fire M k0 fs = Some (k, f) -> (k0 <= k)%nat.
Proof.
  induction fs as [|x r IH]; intros M k0 k f H; cbn in H; [discriminate|].
  destruct (fires M k0 x). - inversion H; lia. - apply IH in H. lia.
Qed.

(* run_frames = "first index where the stop rule fires" *)
Lemma run_frames_first_fire : forall fs p,
  (plen p < maxlen p)%nat ->
  run_frames p fs =
  match first_fire (maxlen p) (plen p) fs with
  | Some (k, f) =>
      SStop (mkP (pts p ++ firstn (S k - plen p) fs) (maxlen p) (torigin p)) (succ_of (maxlen p) k f)
  | None => SMore (mkP (pts p ++ fs) (maxlen p) (torigin p))
  end.
Proof.
  induction fs as [|f r IH]; intros p Hlt.
  - cbn. rewrite app_nil_r. destruct p; reflexivity.
  - cbn [run_frames first_fire].
    rewrite (add_to_path_room p f Hlt).
    destruct (fires (maxlen p) (plen p) f) eqn:Hf.
    + replace (S (plen p) - plen p)%nat with 1%nat by lia. reflexivity.
    + set (p1 := mkP (pts p ++ [f]) (maxlen p) (torigin p)).
      assert (Hl1 : plen p1 = S (plen p)).
      { unfold plen, p1. cbn. rewrite app_length. cbn. lia. }
      assert (Hlt1 : (plen p1 < maxlen p1)%nat).
      { unfold fires in Hf. apply orb_false_iff in Hf. destruct Hf as [_ Hf].
        apply Nat.eqb_neq in Hf. cbn [maxlen p1]. lia. }
      rewrite (IH p1 Hlt1). cbn [maxlen torigin pts p1]. rewrite Hl1.
      destruct (first_fire (maxlen p) (S (plen p)) r) as [[k g]|] eqn:Hff.
      * pose proof (first_fire_ge _ _ _ _ _ Hff) as Hk.
        replace (S k - plen p)%nat with (S (S k - S (plen p))) by lia.
        cbn [firstn]. rewrite <- app_assoc. reflexivity.
      * rewrite <- app_assoc. reflexivity.
Qed.

(* from an empty path: the k-th frame is the (k+1)-th of the path *)
Lemma run_frames_empty : forall fs M t0,
  (0 < M)%nat ->
  run_frames (empty_path M t0) fs =
  match first_fire M 0 fs with
  | Some (k, f) => SStop (mkP (firstn (S k) fs) M t0) (succ_of M k f)
  | None => SMore (mkP fs M t0)
  end.
Proof.
  intros fs M t0 HM.
  rewrite (run_frames_first_fire fs (empty_path M t0)) by (cbn; exact HM).
  cbn [empty_path plen pts maxlen torigin length app].
  destruct (first_fire M 0 fs) as [[k f]|]; [rewrite Nat.sub_0_r|]; reflexivity.
Qed.

Lemma run_frames_maxlen0 : forall f fs t0, run_frames (empty_path 0 t0) (f :: fs) = SErr.
Proof. reflexivity. Qed.

(* first_fire really is the first index: it fires there and nowhere before *)
Lemma first_fire_spec : forall fs M k0 k f,
  first_fire M k0 fs = Some (k, f) ->
  (k0 <= k)%nat /\ nth_error fs (k - k0) = Some f /\ fires M k f = true /\
  (forall j g, (j < k - k0)%nat -> nth_error fs j = Some g -> fires M (k0 + j) g = false).
Proof.
  induction fs as [|x r IH]; intros M k0 k f H; cbn in H; [discriminate|].
  destruct (fires M k0 x) eqn:Hx.
  - inversion H; subst. rewrite Nat.sub_diag. repeat split; auto. intros j g Hj; lia.
  - apply IH in H. destruct H as (Hle & Hn & Hf & Hb).
    repeat split; [lia| |assumption|].
    + replace (k - k0)%nat with (S (k - S k0)) by lia. exact Hn.
    + intros j g Hj Hg. destruct j as [|j]; cbn in Hg.
      * inversion Hg; subst. rewrite Nat.add_0_r. exact Hx.
      * replace (k0 + S j)%nat with (S k0 + j)%nat by lia. apply (Hb j g); [lia|exact Hg].
Qed.

Lemma first_fire_none : forall fs M k0,
  first_fire M k0 fs = None ->
  forall j g, nth_error fs j = Some g -> fires M (k0 + j) g = false.
Proof.
  induction fs as [|x r IH]; intros M k0 H j g Hg; [destruct j; discriminate|].
  cbn in H. destruct (fires M k0 x) eqn:Hx; [discriminate|].
  destruct j as [|j]; cbn in Hg.
  - inversion Hg; subst. rewrite Nat.add_0_r. exact Hx.
  - replace (k0 + S j)%nat with (S k0 + j)%nat by lia. eapply IH; eauto.
Qed.

(* the length limit always fires: a stream that offers at least M - k0 frames stops *)
Lemma first_fire_long : forall fs M k0,
  (k0 < M)%nat -> (M - k0 <= length fs)%nat -> first_fire M k0 fs <> None.
Proof.
  induction fs as [|x r IH]; intros M k0 Hk Hl; cbn in *; [lia|].
  destruct (fires M k0 x) eqn:Hx; [discriminate|].
  unfold fires in Hx. apply orb_false_iff in Hx. destruct Hx as [_ Hx]. apply Nat.eqb_neq in Hx.
  apply IH; lia.
Qed.

(* ---- the common contract of EngineBase.propagate, closed form *)
Theorem propagate_contract : forall M t0 init stream,
  (0 < M)%nat ->
  erase_pr (propagate_x fx (empty_path M t0) init stream left right) =
  match first_fire M 0 (init :: stream) with
  | Some (k, f) => SStop (mkP (firstn (S k) (init :: stream)) M t0) (succ_of M k f)
  | None => SMore (mkP (init :: stream) M t0)
  end.
Proof.
  intros M t0 init stream HM. unfold propagate_x.
  rewrite propagate_loop_run_frames. apply run_frames_empty. exact HM.
Qed.

(* first frame = the given phase point, whatever happens afterwards *)
Theorem propagate_first_frame : forall M t0 init stream,
  (0 < M)%nat ->
  match erase_pr (propagate_x fx (empty_path M t0) init stream left right) with
  | SStop p _ | SMore p => exists r, pts p = init :: r
  | SErr => False
  end.
Proof.
  intros M t0 init stream HM. rewrite propagate_contract by exact HM.
  destruct (first_fire M 0 (init :: stream)) as [[k f]|]; cbn; eauto.
Qed.

End Spec.

(* with the current rule: success <-> the frame the propagation stopped on is outside *)
Theorem propagate_success_iff_crossing : forall left right M t0 init stream p s,
  (0 < M)%nat ->
  erase_pr (propagate_x true (empty_path M t0) init stream left right) = SStop p s ->
  exists k f, nth_error (init :: stream) k = Some f /\ pts p = firstn (S k) (init :: stream) /\
    (forall j g, (j < k)%nat -> nth_error (init :: stream) j = Some g ->
                 outside left right g = false /\ S j <> M) /\
    (outside left right f = true \/ S k = M) /\
    s = outside left right f.
Proof.
  intros left right M t0 init stream p s HM H.
  rewrite propagate_contract in H by exact HM.
  destruct (first_fire left right M 0 (init :: stream)) as [[k f]|] eqn:Hff; [|discriminate].
  injection H as Hp Hs. exists k, f.
  destruct (first_fire_spec _ _ _ _ _ _ _ Hff) as (_ & Hn & Hf & Hb).
  rewrite Nat.sub_0_r in Hn, Hb.
  repeat split.
  - exact Hn.
  - subst p. reflexivity.
  - specialize (Hb j g H H0). cbn in Hb. unfold fires in Hb. apply orb_false_iff in Hb. tauto.
  - specialize (Hb j g H H0). cbn in Hb. unfold fires in Hb. apply orb_false_iff in Hb.
    destruct Hb as [_ Hb]. apply Nat.eqb_neq in Hb. exact Hb.
  - unfold fires in Hf. apply orb_true_iff in Hf. destruct Hf as [Hf|Hf]; [left; exact Hf|right].
    apply Nat.eqb_eq in Hf. exact Hf.
  - subst s. reflexivity.
Qed.

Theorem propagate_old_rule_is_EngineM : forall p init stream l r,
  propagate_x false p init stream l r = propagate p init stream l r.
Proof. intros. unfold propagate_x, propagate. apply propagate_loop_x_false. Qed.


(* ================================================================== list plumbing *)
Lemma own_stream_from_app : forall ord rv a b k,
  own_stream_from ord rv k (a ++ b) =
  own_stream_from ord rv k a ++ own_stream_from ord rv (k + length a) b.
Proof.
  induction a as [|c a IH]; intros b k; cbn.
  - rewrite Nat.add_0_r. reflexivity.
  - rewrite IH. replace (S k + length a)%nat with (k + S (length a))%nat by lia. reflexivity.
Qed.

Lemma own_stream_from_length : forall ord rv cs k, length (own_stream_from ord rv k cs) = length cs.
Proof. induction cs as [|c r IH]; intros k; cbn; [reflexivity|rewrite IH; reflexivity]. Qed.

Lemma own_stream_from_nth : forall ord rv cs k j c,
  nth_error cs j = Some c -> nth_error (own_stream_from ord rv k cs) j = Some (own_frame ord rv (k + j) c).
Proof.
  induction cs as [|x r IH]; intros k j c H; [destruct j; discriminate|].
  destruct j as [|j]; cbn in *.
  - inversion H; subst. rewrite Nat.add_0_r. reflexivity.
  - rewrite (IH (S k) j c H). replace (S k + j)%nat with (k + S j)%nat by lia. reflexivity.
Qed.

Lemma own_stream_from_firstn : forall ord rv cs k n,
  firstn n (own_stream_from ord rv k cs) = own_stream_from ord rv k (firstn n cs).
Proof.
  induction cs as [|x r IH]; intros k n; destruct n; cbn; try reflexivity. rewrite IH. reflexivity.
Qed.

(* what a reader hands out over time: splitting the delivered prefix *)
Lemma deliver_split : forall {A} (l : list A) rd c V,
  (c <= length l)%nat -> (c <= V)%nat ->
  skipn rd (firstn V l) = skipn rd (firstn c l) ++ skipn (Nat.max rd c) (firstn V l).
Proof.
  intros A l rd c V Hc HV.
  destruct (le_lt_dec c rd) as [Hle|Hlt].
  - rewrite (skipn_all2 (firstn c l)) by (rewrite firstn_length; lia).
    rewrite Nat.max_l by lia. reflexivity.
  - rewrite Nat.max_r by lia.
    assert (E : firstn V l = firstn c l ++ skipn c (firstn V l)).
    { rewrite <- (firstn_skipn c (firstn V l)) at 1. rewrite firstn_firstn.
      rewrite Nat.min_l by lia. reflexivity. }
    rewrite E at 1. rewrite skipn_app. rewrite firstn_length. rewrite Nat.min_l by lia.
    replace (rd - c)%nat with 0%nat by lia. reflexivity.
Qed.

Lemma new_frames_length : forall {A} (l : list A) rd c,
  (c <= length l)%nat -> length (new_frames l rd c) = (c - rd)%nat.
Proof. intros. unfold new_frames. rewrite skipn_length, firstn_length. lia. Qed.

Lemma deliver_extend : forall {A} (l : list A) step rd c,
  (step <= rd)%nat -> (rd <= length l)%nat -> (c <= length l)%nat ->
  skipn step (firstn rd l) ++ skipn rd (firstn c l) = skipn step (firstn (Nat.max rd c) l).
Proof.
  intros A l step rd c Hs Hrd Hc.
  destruct (le_lt_dec c rd) as [Hle|Hlt].
  - rewrite (skipn_all2 (firstn c l)) by (rewrite firstn_length; lia).
    rewrite Nat.max_l by lia. apply app_nil_r.
  - rewrite Nat.max_r by lia.
    assert (E : firstn c l = firstn rd l ++ skipn rd (firstn c l)).
    { rewrite <- (firstn_skipn rd (firstn c l)) at 1. rewrite firstn_firstn.
      rewrite Nat.min_l by lia. reflexivity. }
    rewrite E at 2. rewrite skipn_app. rewrite firstn_length. rewrite Nat.min_l by lia.
    replace (step - rd)%nat with 0%nat by lia. reflexivity.
Qed.

Lemma skipn_firstn_map : forall {A B} (f : A -> B) (l : list A) a b,
  skipn a (firstn b (map f l)) = map f (skipn a (firstn b l)).
Proof. intros. rewrite firstn_map, skipn_map. reflexivity. Qed.

(* ================================================================== common to the pollers *)
Section PollersP.
Variable fx : bool.
Variable ord : Z -> Z -> Z -> Z.
Variables left right : Z.
Variable rv : bool.
Variable traj : list conf.
Variable code : Z.
Variable strict : bool.    (* the failure test on the return code (PollM.exit_failed) *)

Notation own_from := (own_stream_from ord rv).
Notation runf := (run_frames fx left right).

Lemma snapshot_own : forall c k,
  snapshot rv (calc_order ord rv (cpos c) (cvel c) (cbox c)) k = own_frame ord rv k c.
Proof. reflexivity. Qed.

(* outcome of a polling loop against the outcome of the stop rule over a frame stream *)
Definition same_outcome (r : poll_result) (s : sres) : Prop :=
  match r, s with
  | Ret p b _, SStop p' b' => p = p' /\ b = b'
  | Trunc p _, SMore p' => p = p' /\ exit_failed strict code = false
  | Raise p _, SMore p' => p = p' /\ exit_failed strict code = true
  | IdxError, SErr => True
  | _, _ => False
  end.

Lemma fell_through_outcome : forall p, same_outcome (fell_through code strict p) (SMore p).
Proof.
  intros p. unfold fell_through. destruct (exit_failed strict code) eqn:E; cbn; auto.
Qed.

(* what every poller guarantees when it RETURNS NORMALLY WITH A STOP, derived from
   [same_outcome] against a prefix of the trajectory: the path is the stop-rule prefix of the
   FULL trajectory's own-data frames *)
Lemma same_outcome_ret_full : forall r p0 n p s ps,
  same_outcome r (runf p0 (own_stream ord rv (firstn n traj))) ->
  r = Ret p s ps -> runf p0 (own_stream ord rv traj) = SStop p s.
Proof.
  intros r p0 n p s ps H ->. unfold own_stream in *.
  rewrite <- (firstn_skipn n traj) at 1. rewrite own_stream_from_app.
  destruct (runf p0 (own_from 0 (firstn n traj))) as [p1 s1|p1|] eqn:E; cbn in H; try contradiction.
  destruct H as [-> ->]. apply run_frames_stop_prefix. exact E.
Qed.

Definition pstate_of (r : poll_result) : option pstate :=
  match r with Ret _ _ ps | Trunc _ ps | Raise _ ps => Some ps | IdxError | Hang _ => None end.

(* ================================================================== LAMMPS *)
Section LammpsP.

(* the repaired for-loop consumes its frames exactly as the stop rule over their own data *)
Lemma lmp_for_fixed : forall fs p step,
  lmp_for fx ord left right rv true (length fs) fs (map cbox fs) p step =
  match runf p (own_from step fs) with
  | SStop p1 s => FStop p1 s
  | SMore p1 => FCont p1 (step + length fs) [] []
  | SErr => FErr
  end.
Proof.
  induction fs as [|c r IH]; intros p step; cbn [length map lmp_for own_stream_from run_frames].
  - rewrite Nat.add_0_r. reflexivity.
  - unfold pop_box. rewrite snapshot_own.
    destruct (add_to_path_x fx p (own_frame ord rv step c) left right) as [[[[p1 s] st] ad]|]; [|reflexivity].
    destruct st; [reflexivity|]. rewrite IH.
    replace (S step + length r)%nat with (step + S (length r))%nat by lia. reflexivity.
Qed.

Definition vmax (reads : list (nat * bool)) : nat := fold_right (fun cb m => Nat.max (fst cb) m) 0%nat reads.

Lemma lmp_polls_fixed : forall reads rd p,
  Forall (fun cb => (fst cb <= length traj)%nat) reads -> (rd <= length traj)%nat ->
  same_outcome (lmp_polls fx ord left right rv traj code strict true reads rd [] [] p rd)
               (runf p (own_from rd (skipn rd (firstn (Nat.max rd (vmax reads)) traj)))).
Proof.
  induction reads as [|[c alive] rest IH]; intros rd p HF Hrd.
  - cbn [lmp_polls vmax fold_right]. rewrite Nat.max_0_r.
    rewrite skipn_all2 by (rewrite firstn_length; lia). cbn. apply fell_through_outcome.
  - inversion HF as [|x l Hc HF']; subst. cbn [fst] in Hc.
    cbn [lmp_polls]. cbn [app]. rewrite lmp_for_fixed.
    set (fs := new_frames traj rd c).
    assert (Hlen : length fs = (c - rd)%nat) by (apply new_frames_length; assumption).
    cbn [vmax fold_right fst]. fold (vmax rest).
    set (V := Nat.max rd (Nat.max c (vmax rest))).
    assert (Hsplit : skipn rd (firstn V traj) = fs ++ skipn (Nat.max rd c) (firstn V traj)).
    { apply deliver_split; [assumption|unfold V; lia]. }
    rewrite Hsplit, own_stream_from_app, run_frames_app.
    destruct (runf p (own_from rd fs)) as [p1 s|p1|]; cbn; auto.
    rewrite Hlen. replace (rd + (c - rd))%nat with (Nat.max rd c) by lia.
    replace V with (Nat.max (Nat.max rd c) (vmax rest)) by (unfold V; lia).
    apply IH; [assumption|lia].
Qed.

(* main statement for the repaired LAMMPS loop: whatever the arrival schedule, the outcome
   is the stop rule applied to the own-data frames of the prefix that was ever visible *)
Theorem lammps_fixed_any_schedule : forall p0 reads,
  Forall (fun cb => (fst cb <= length traj)%nat) reads ->
  same_outcome (lammps_run fx ord left right rv traj code strict true p0 false reads)
               (runf p0 (own_stream ord rv (firstn (vmax reads) traj))).
Proof.
  intros p0 reads HF. unfold lammps_run. cbn [andb].
  pose proof (lmp_polls_fixed reads 0 p0 HF (Nat.le_0_l _)) as H.
  rewrite Nat.max_0_l in H. cbn [skipn] in H. exact H.
Qed.

Lemma lammps_run_dead : forall fixL2 p0 reads,
  lammps_run fx ord left right rv traj code strict fixL2 p0 true reads =
  if exit_failed strict code then Raise p0 (PExited code)
  else lammps_run fx ord left right rv traj code strict fixL2 p0 false reads.
Proof. intros. unfold lammps_run. cbn [andb]. destruct (exit_failed strict code); reflexivity. Qed.

(* a normal return with a stop is the stop-rule prefix of the full trajectory *)
Theorem lammps_returns_prefix : forall p0 dead reads p s ps,
  Forall (fun cb => (fst cb <= length traj)%nat) reads ->
  lammps_run fx ord left right rv traj code strict true p0 dead reads = Ret p s ps ->
  runf p0 (own_stream ord rv traj) = SStop p s.
Proof.
  intros p0 dead reads p s ps HF H.
  destruct dead.
  - rewrite lammps_run_dead in H. destruct (exit_failed strict code); [discriminate|].
    eapply same_outcome_ret_full; [apply lammps_fixed_any_schedule; exact HF|exact H].
  - eapply same_outcome_ret_full; [apply lammps_fixed_any_schedule; exact HF|exact H].
Qed.

(* the whole trajectory was visible at some poll: the outcome does not depend on the schedule *)
Theorem lammps_schedule_independent : forall p0 reads,
  Forall (fun cb => (fst cb <= length traj)%nat) reads -> vmax reads = length traj ->
  same_outcome (lammps_run fx ord left right rv traj code strict true p0 false reads)
               (runf p0 (own_stream ord rv traj)).
Proof.
  intros p0 reads HF HV. pose proof (lammps_fixed_any_schedule p0 reads HF) as H.
  rewrite HV, firstn_all in H. exact H.
Qed.

(* failure_raises / terminated_at_end, for both variants of the pairing and ANY schedule *)
Lemma lmp_polls_trunc : forall fixL2 reads rd tr bx p step q ps,
  lmp_polls fx ord left right rv traj code strict fixL2 reads rd tr bx p step = Trunc q ps ->
  exit_failed strict code = false.
Proof.
  intros fixL2. induction reads as [|[c alive] rest IH]; intros rd tr bx p step q ps H.
  - cbn in H. unfold fell_through in H. destruct (exit_failed strict code); [discriminate|reflexivity].
  - cbn [lmp_polls] in H.
    destruct (lmp_for _ _ _ _ _ _ _ _ _ _ _); try discriminate. eapply IH; exact H.
Qed.

Lemma lmp_polls_pstate : forall fixL2 reads rd tr bx p step,
  pstate_of (lmp_polls fx ord left right rv traj code strict fixL2 reads rd tr bx p step) <> Some PRunning /\
  pstate_of (lmp_polls fx ord left right rv traj code strict fixL2 reads rd tr bx p step) <> Some PNone.
Proof.
  intros fixL2. induction reads as [|[c alive] rest IH]; intros rd tr bx p step.
  - cbn. unfold fell_through. destruct (exit_failed strict code); cbn; split; discriminate.
  - cbn [lmp_polls].
    destruct (lmp_for _ _ _ _ _ _ _ _ _ _ _); cbn; try (split; discriminate); [|apply IH].
    destruct alive; cbn; split; discriminate.
Qed.

Theorem lammps_failure_raises : forall fixL2 p0 dead reads,
  exit_failed strict code = true ->
  match lammps_run fx ord left right rv traj code strict fixL2 p0 dead reads with
  | Trunc _ _ => False     (* never a normal return without a stop *)
  | _ => True
  end.
Proof.
  intros fixL2 p0 dead reads Hc.
  destruct (lammps_run fx ord left right rv traj code strict fixL2 p0 dead reads) eqn:E; auto.
  unfold lammps_run in E. destruct (dead && exit_failed strict code); [discriminate|].
  apply lmp_polls_trunc in E. congruence.
Qed.

Theorem lammps_terminated_at_end : forall fixL2 p0 dead reads,
  pstate_of (lammps_run fx ord left right rv traj code strict fixL2 p0 dead reads) <> Some PRunning.
Proof.
  intros. unfold lammps_run. destruct (dead && exit_failed strict code); [cbn; discriminate|].
  apply lmp_polls_pstate.
Qed.

(* the original pairing agrees with the repaired one when the box never changes *)
Lemma rev_repeat_Z : forall (b : Z) n, rev (repeat b n) = repeat b n.
Proof.
  intros b n. induction n as [|n IH]; [reflexivity|].
  cbn [repeat rev]. rewrite IH. clear IH.
  induction n as [|n IH]; [reflexivity|]. cbn. rewrite IH. reflexivity.
Qed.

Lemma pop_box_const : forall b n,
  pop_box false (repeat b n) = pop_box true (repeat b n).
Proof.
  intros b n. unfold pop_box. rewrite rev_repeat_Z.
  destruct n as [|n]; [reflexivity|]. cbn [repeat]. rewrite rev_repeat_Z. reflexivity.
Qed.

Lemma lmp_for_const_box : forall b n tr m p step,
  lmp_for fx ord left right rv false n tr (repeat b m) p step =
  lmp_for fx ord left right rv true n tr (repeat b m) p step.
Proof.
  induction n as [|n IH]; intros tr m p step; [reflexivity|].
  cbn [lmp_for]. rewrite pop_box_const.
  destruct tr as [|f tr']; [reflexivity|].
  destruct m as [|m]; [reflexivity|]. cbn [repeat pop_box].
  destruct (add_to_path_x fx p _ left right) as [[[[p1 s] st] ad]|]; [|reflexivity].
  destruct st; [reflexivity|]. apply IH.
Qed.

Lemma map_cbox_const : forall b (cs : list conf),
  Forall (fun c => cbox c = b) cs -> map cbox cs = repeat b (length cs).
Proof.
  induction 1 as [|c cs Hc _ IH]; [reflexivity|]. cbn. rewrite Hc, IH. reflexivity.
Qed.

Lemma Forall_skipn_firstn : forall {A} (P : A -> Prop) l a b, Forall P l -> Forall P (skipn a (firstn b l)).
Proof.
  intros A P l a b H. apply Forall_forall. intros x Hx.
  rewrite Forall_forall in H. apply H.
  apply (firstn_In _ b). apply (skipn_In _ a). exact Hx.
Qed.

Lemma lmp_polls_const_box : forall b reads rd p step,
  Forall (fun c => cbox c = b) traj ->
  lmp_polls fx ord left right rv traj code strict false reads rd [] [] p step =
  lmp_polls fx ord left right rv traj code strict true reads rd [] [] p step.
Proof.
  intros b. induction reads as [|[c alive] rest IH]; intros rd p step Hb; [reflexivity|].
  cbn [lmp_polls app].
  assert (Hm : map cbox (new_frames traj rd c) = repeat b (length (new_frames traj rd c))).
  { apply map_cbox_const. unfold new_frames. apply Forall_skipn_firstn. exact Hb. }
  rewrite Hm, lmp_for_const_box. rewrite <- Hm, lmp_for_fixed.
  destruct (runf p _); try reflexivity. apply IH. exact Hb.
Qed.

Theorem lammps_original_const_box : forall b p0 dead reads,
  Forall (fun c => cbox c = b) traj ->
  lammps_run fx ord left right rv traj code strict false p0 dead reads =
  lammps_run fx ord left right rv traj code strict true p0 dead reads.
Proof.
  intros. unfold lammps_run. destruct (dead && exit_failed strict code); [reflexivity|].
  eapply lmp_polls_const_box; eassumption.
Qed.

End LammpsP.

(* ================================================================== CP2K *)
Section Cp2kP.
Variable box0 : Z.

(* the configuration CP2K's frame stands for: the box is the one of the initial configuration *)
Definition fixbox (c : conf) : conf := mkC (cpos c) (cvel c) box0.

Lemma cp2k_for_spec : forall cs ps' vs' p step,
  cp2k_for fx ord left right rv box0 (length cs) (map cpos cs ++ ps') (map cvel cs ++ vs') p step =
  match runf p (own_from step (map fixbox cs)) with
  | SStop p1 s => F2Stop p1 s
  | SMore p1 => F2Cont p1 (step + length cs) ps' vs'
  | SErr => F2Err
  end.
Proof.
  induction cs as [|c r IH]; intros ps' vs' p step; cbn [length map app cp2k_for own_stream_from run_frames].
  - rewrite Nat.add_0_r. reflexivity.
  - change (snapshot rv (calc_order ord rv (cpos c) (cvel c) box0) step) with (own_frame ord rv step (fixbox c)).
    destruct (add_to_path_x fx p (own_frame ord rv step (fixbox c)) left right) as [[[[p1 s] st] ad]|]; [|reflexivity].
    destruct st; [reflexivity|]. rewrite IH.
    replace (S step + length r)%nat with (step + S (length r))%nat by lia. reflexivity.
Qed.

Definition pmax (reads : list (nat * nat * bool)) : nat :=
  fold_right (fun r m => Nat.max (fst (fst r)) m) 0%nat reads.
Definition qmax (reads : list (nat * nat * bool)) : nat :=
  fold_right (fun r m => Nat.max (snd (fst r)) m) 0%nat reads.

Definition reads_ok (reads : list (nat * nat * bool)) : Prop :=
  Forall (fun r => (fst (fst r) <= length traj)%nat /\ (snd (fst r) <= length traj)%nat) reads.

Lemma cp2k_polls_spec : forall reads rdp rdv p,
  reads_ok reads -> (rdp <= length traj)%nat -> (rdv <= length traj)%nat ->
  same_outcome
    (cp2k_polls fx ord left right rv traj code strict box0 reads rdp rdv
       (skipn (Nat.min rdp rdv) (firstn rdp (map cpos traj)))
       (skipn (Nat.min rdp rdv) (firstn rdv (map cvel traj))) p (Nat.min rdp rdv))
    (runf p (own_from (Nat.min rdp rdv)
       (map fixbox (skipn (Nat.min rdp rdv)
          (firstn (Nat.min (Nat.max rdp (pmax reads)) (Nat.max rdv (qmax reads))) traj))))).
Proof.
  induction reads as [|[[cp cv] alive] rest IH]; intros rdp rdv p HF Hp Hv.
  - cbn [cp2k_polls pmax qmax fold_right]. rewrite !Nat.max_0_r.
    rewrite skipn_all2 by (rewrite firstn_length; lia). cbn [map own_stream_from run_frames].
    apply fell_through_outcome.
  - inversion HF as [|x l [Hcp Hcv] HF']; subst. cbn [fst snd] in Hcp, Hcv.
    cbn [cp2k_polls].
    cbn [pmax qmax fold_right fst snd]. fold (pmax rest) (qmax rest).
    generalize (pmax rest) (qmax rest) (IH (Nat.max rdp cp) (Nat.max rdv cv)). clear IH HF.
    intros PR QR IH.
    pose proof (map_length cpos traj) as HLp. pose proof (map_length cvel traj) as HLv.
    remember (Nat.min rdp rdv) as step eqn:Estep.
    remember (Nat.max rdp cp) as rdp' eqn:Erdp'. remember (Nat.max rdv cv) as rdv' eqn:Erdv'.
    remember (Nat.min rdp' rdv') as m eqn:Em.
    remember (Nat.min (Nat.max rdp (Nat.max cp PR)) (Nat.max rdv (Nat.max cv QR))) as K eqn:EK.
    assert (B1 : (step <= rdp)%nat) by (clear - Estep; lia).
    assert (B2 : (step <= rdv)%nat) by (clear - Estep; lia).
    assert (B3 : (step <= m)%nat) by (clear - Estep Em Erdp' Erdv'; lia).
    assert (B4 : (m <= rdp')%nat) by (clear - Em; lia).
    assert (B5 : (m <= rdv')%nat) by (clear - Em; lia).
    assert (B6 : (rdp' <= length traj)%nat) by (clear - Erdp' Hp Hcp; lia).
    assert (B7 : (rdv' <= length traj)%nat) by (clear - Erdv' Hv Hcv; lia).
    assert (B8 : (m <= K)%nat) by (clear - Em EK Erdp' Erdv'; lia).
    assert (B9 : K = Nat.min (Nat.max rdp' PR) (Nat.max rdv' QR)) by (clear - EK Erdp' Erdv'; lia).
    assert (B10 : Nat.max step m = m) by (clear - B3; lia).
    assert (B11 : (m <= length traj)%nat) by (clear - B4 B6; lia).
    (* the two buffers after `+=` *)
    assert (Eps : skipn step (firstn rdp (map cpos traj)) ++ new_frames (map cpos traj) rdp cp
                  = skipn step (firstn rdp' (map cpos traj))).
    { unfold new_frames. rewrite Erdp'. apply deliver_extend; [exact B1|rewrite HLp; exact Hp|rewrite HLp; exact Hcp]. }
    assert (Evs : skipn step (firstn rdv (map cvel traj)) ++ new_frames (map cvel traj) rdv cv
                  = skipn step (firstn rdv' (map cvel traj))).
    { unfold new_frames. rewrite Erdv'. apply deliver_extend; [exact B2|rewrite HLv; exact Hv|rewrite HLv; exact Hcv]. }
    rewrite Eps, Evs.
    (* split both at m *)
    remember (skipn step (firstn m traj)) as cs eqn:Ecs.
    assert (Hcs : length cs = (m - step)%nat).
    { rewrite Ecs, skipn_length, firstn_length. clear - B11. lia. }
    assert (Sp : skipn step (firstn rdp' (map cpos traj)) = map cpos cs ++ skipn m (firstn rdp' (map cpos traj))).
    { rewrite (deliver_split (map cpos traj) step m rdp') by (rewrite ?HLp; assumption).
      rewrite B10, skipn_firstn_map, <- Ecs. reflexivity. }
    assert (Sv : skipn step (firstn rdv' (map cvel traj)) = map cvel cs ++ skipn m (firstn rdv' (map cvel traj))).
    { rewrite (deliver_split (map cvel traj) step m rdv') by (rewrite ?HLv; assumption).
      rewrite B10, skipn_firstn_map, <- Ecs. reflexivity. }
    assert (Hn : Nat.min (length (skipn step (firstn rdp' (map cpos traj))))
                         (length (skipn step (firstn rdv' (map cvel traj)))) = length cs).
    { rewrite !skipn_length, !firstn_length, HLp, HLv, Hcs. clear - Em B3 B6 B7. lia. }
    rewrite Hn. rewrite Sp at 1. rewrite Sv at 1. rewrite cp2k_for_spec.
    (* the specification side, split at m as well *)
    assert (Ssp : skipn step (firstn K traj) = cs ++ skipn m (firstn K traj)).
    { rewrite (deliver_split traj step m K) by assumption. rewrite B10, <- Ecs. reflexivity. }
    rewrite Ssp, map_app, own_stream_from_app, run_frames_app, map_length.
    destruct (runf p (own_from step (map fixbox cs))) as [p1 s|p1|]; cbv beta iota.
    + unfold same_outcome. split; reflexivity.
    + rewrite (new_frames_length (map cpos traj) rdp cp) by (rewrite HLp; exact Hcp).
      rewrite (new_frames_length (map cvel traj) rdv cv) by (rewrite HLv; exact Hcv).
      assert (E1 : (rdp + (cp - rdp))%nat = rdp') by (clear - Erdp'; lia).
      assert (E2 : (rdv + (cv - rdv))%nat = rdv') by (clear - Erdv'; lia).
      assert (E3 : (step + (m - step))%nat = m) by (clear - B3; lia).
      rewrite E1, E2, Hcs, E3, B9.
      apply IH; [assumption|exact B6|exact B7].
    + exact I.
Qed.

(* main statement for the CP2K loop: whatever the two arrival schedules, the outcome is the
   stop rule over the frames for which BOTH the positions and the velocities were ever
   visible, position k paired with velocity k *)
Theorem cp2k_any_schedule : forall p0 reads,
  reads_ok reads ->
  same_outcome (cp2k_run fx ord left right rv traj code strict box0 p0 false reads)
               (runf p0 (own_stream ord rv (map fixbox (firstn (Nat.min (pmax reads) (qmax reads)) traj)))).
Proof.
  intros p0 reads HF. unfold cp2k_run. cbn [andb].
  pose proof (cp2k_polls_spec reads 0 0 p0 HF (Nat.le_0_l _) (Nat.le_0_l _)) as H.
  cbn [Nat.min Nat.max skipn firstn] in H. exact H.
Qed.

Lemma cp2k_polls_trunc : forall reads rdp rdv ps vs p step q st,
  cp2k_polls fx ord left right rv traj code strict box0 reads rdp rdv ps vs p step = Trunc q st ->
  exit_failed strict code = false.
Proof.
  induction reads as [|[[cp cv] alive] rest IH]; intros rdp rdv ps vs p step q st H.
  - cbn in H. unfold fell_through in H. destruct (exit_failed strict code); [discriminate|reflexivity].
  - cbn [cp2k_polls] in H.
    destruct (cp2k_for _ _ _ _ _ _ _ _ _ _ _); try discriminate. eapply IH; exact H.
Qed.

Lemma cp2k_polls_pstate : forall reads rdp rdv ps vs p step,
  pstate_of (cp2k_polls fx ord left right rv traj code strict box0 reads rdp rdv ps vs p step) <> Some PRunning.
Proof.
  induction reads as [|[[cp cv] alive] rest IH]; intros rdp rdv ps vs p step.
  - cbn. unfold fell_through. destruct (exit_failed strict code); cbn; discriminate.
  - cbn [cp2k_polls].
    destruct (cp2k_for _ _ _ _ _ _ _ _ _ _ _); cbn; try discriminate; [|apply IH].
    destruct alive; cbn; discriminate.
Qed.

Theorem cp2k_failure_raises : forall p0 dead reads,
  exit_failed strict code = true ->
  match cp2k_run fx ord left right rv traj code strict box0 p0 dead reads with
  | Trunc _ _ => False
  | _ => True
  end.
Proof.
  intros p0 dead reads Hc.
  destruct (cp2k_run fx ord left right rv traj code strict box0 p0 dead reads) eqn:E; auto.
  unfold cp2k_run in E. destruct (dead && exit_failed strict code); [discriminate|].
  apply cp2k_polls_trunc in E. congruence.
Qed.

Theorem cp2k_terminated_at_end : forall p0 dead reads,
  pstate_of (cp2k_run fx ord left right rv traj code strict box0 p0 dead reads) <> Some PRunning.
Proof.
  intros. unfold cp2k_run. destruct (dead && exit_failed strict code); [cbn; discriminate|].
  apply cp2k_polls_pstate.
Qed.

End Cp2kP.

(* ================================================================== GROMACS *)
Section GmxP.
Variable fixL3 fixL14 : bool.
Variables hsz dsz head0 : nat.
Variable final_size : nat.

Notation gord := (gmx_order ord rv fixL3).

(* the frames the consumer of get_gromacs_frames builds, in file order from index i *)
Fixpoint gstream_from (i : nat) (cs : list conf) : list frame :=
  match cs with
  | [] => []
  | c :: r => snapshot rv (gord c) i :: gstream_from (S i) r
  end.

Lemma gstream_from_app : forall a b i,
  gstream_from i (a ++ b) = gstream_from i a ++ gstream_from (i + length a) b.
Proof.
  induction a as [|c a IH]; intros b i; cbn.
  - rewrite Nat.add_0_r. reflexivity.
  - rewrite IH. replace (S i + length a)%nat with (i + S (length a))%nat by lia. reflexivity.
Qed.

(* when is that the own-data stream?  repaired code, or forward direction, or an order
   parameter that does not look at the velocity direction *)
Definition gmx_own_cond : Prop :=
  fixL3 = true \/ rv = false \/ (forall p v b, ord p (- v) b = ord p v b).

Lemma gstream_own : gmx_own_cond -> forall cs i, gstream_from i cs = own_from i cs.
Proof.
  intros H. induction cs as [|c r IH]; intros i; cbn [gstream_from own_stream_from]; [reflexivity|].
  rewrite IH. f_equal. unfold gmx_order, own_frame, snapshot, calc_order.
  destruct H as [H|[H|H]].
  - rewrite H. reflexivity.
  - rewrite H. destruct fixL3; reflexivity.
  - destruct fixL3; [reflexivity|]. destruct rv; [|reflexivity]. rewrite H. reflexivity.
Qed.

Lemma run_frames_cons : forall p f fs,
  runf p (f :: fs) =
  match add_to_path_x fx p f left right with
  | None => SErr
  | Some (p1, success, stop, _) => if stop then SStop p1 success else runf p1 fs
  end.
Proof. reflexivity. Qed.

(* what a result means relative to the frames [rem] still unread at index [i], path [p] *)
Definition gres_ok (p : path) (i : nat) (rem : list conf) (r : poll_result) : Prop :=
  match r with
  | Ret p1 s _ => runf p (gstream_from i rem) = SStop p1 s
  | Trunc p1 _ => exit_failed strict code = false /\ exists n, runf p (gstream_from i (firstn n rem)) = SMore p1
  | Raise p1 _ => exit_failed strict code = true /\ exists n, runf p (gstream_from i (firstn n rem)) = SMore p1
  | IdxError => exists n, runf p (gstream_from i (firstn n rem)) = SErr
  | Hang _ => True
  end.

Lemma gres_ok_lift : forall p i cs rem' p' r,
  runf p (gstream_from i cs) = SMore p' ->
  gres_ok p' (i + length cs) rem' r -> gres_ok p i (cs ++ rem') r.
Proof.
  intros p i cs rem' p' r Hc H.
  assert (L : forall X, runf p (gstream_from i (cs ++ X)) = runf p' (gstream_from (i + length cs) X)).
  { intros X. rewrite gstream_from_app, run_frames_app, Hc. reflexivity. }
  assert (F : forall n, firstn (length cs + n) (cs ++ rem') = cs ++ firstn n rem').
  { intros n. rewrite firstn_app_2. reflexivity. }
  destruct r as [p1 s ps|p1 ps|p1 ps| |p1]; cbn [gres_ok] in *.
  - rewrite L. exact H.
  - destruct H as [Hc0 [n Hn]]. split; [exact Hc0|]. exists (length cs + n)%nat. rewrite F, L. exact Hn.
  - destruct H as [Hc0 [n Hn]]. split; [exact Hc0|]. exists (length cs + n)%nat. rewrite F, L. exact Hn.
  - destruct H as [n Hn]. exists (length cs + n)%nat. rewrite F, L. exact Hn.
  - exact I.
Qed.

Lemma gres_ok_prefix : forall p i rem n r,
  gres_ok p i (firstn n rem) r -> gres_ok p i rem r.
Proof.
  intros p i rem n r H.
  destruct r as [p1 s ps|p1 ps|p1 ps| |p1]; cbn [gres_ok] in *.
  - rewrite <- (firstn_skipn n rem), gstream_from_app. apply run_frames_stop_prefix. exact H.
  - destruct H as [Hc0 [k Hk]]. split; [exact Hc0|]. exists (Nat.min k n). rewrite <- firstn_firstn. exact Hk.
  - destruct H as [Hc0 [k Hk]]. split; [exact Hc0|]. exists (Nat.min k n). rewrite <- firstn_firstn. exact Hk.
  - destruct H as [k Hk]. exists (Nat.min k n). rewrite <- firstn_firstn. exact Hk.
  - exact I.
Qed.

(* gmx_consume_all is only called when the failure test says "no failure" *)
Lemma gmx_consume_all_ok : forall cs i p,
  exit_failed strict code = false -> gres_ok p i cs (gmx_consume_all fx ord left right rv code fixL3 cs i p).
Proof.
  induction cs as [|c r IH]; intros i p Hc.
  - cbn. split; [exact Hc|]. exists 0%nat. reflexivity.
  - cbn [gmx_consume_all]. unfold gmx_consume.
    destruct (add_to_path_x fx p (snapshot rv (gord c) i) left right) as [[[[p1 s] st] ad]|] eqn:E.
    + destruct st.
      * cbn [gres_ok gstream_from]. rewrite run_frames_cons, E. reflexivity.
      * specialize (IH (S i) p1 Hc).
        change (c :: r) with ([c] ++ r). apply (gres_ok_lift p i [c] r p1).
        -- cbn [gstream_from]. rewrite run_frames_cons, E. reflexivity.
        -- cbn [length]. replace (i + 1)%nat with (S i) by lia. exact IH.
    + cbn [gres_ok]. exists 1%nat. cbn [firstn gstream_from]. rewrite run_frames_cons, E. reflexivity.
Qed.

Lemma gmx_exit_ok : forall rem br i p,
  gres_ok p i rem (gmx_exit fx ord left right rv code strict fixL3 hsz dsz final_size rem br i p).
Proof.
  intros rem br i p. unfold gmx_exit. destruct (exit_failed strict code) eqn:Hc.
  - cbn [gres_ok]. split; [exact Hc|]. exists 0%nat. reflexivity.
  - eapply gres_ok_prefix. apply gmx_consume_all_ok. exact Hc.
Qed.

(* one epoch of a running program *)
Lemma gmx_drain_spec : forall rem size ph br hs i p,
  match gmx_drain fx ord left right rv fixL3 hsz dsz head0 rem size ph br hs i p with
  | DStop p1 s => runf p (gstream_from i rem) = SStop p1 s
  | DSleep ph' br' hs' i' p' rem' =>
      exists cs, rem = cs ++ rem' /\ runf p (gstream_from i cs) = SMore p' /\ i' = (i + length cs)%nat
  | DErr => exists n, runf p (gstream_from i (firstn n rem)) = SErr
  | DBad => True
  end.
Proof.
  induction rem as [|c rem' IH]; intros size ph br hs i p.
  - cbn [gmx_drain]. destruct ph.
    + destruct (br + (if (hs =? 0)%nat then head0 else hs) <=? size)%nat.
      * destruct (br + hsz + dsz <=? size)%nat; [exact I|]. exists []. repeat split; cbn; lia.
      * exists []. repeat split; cbn; lia.
    + destruct (br + dsz <=? size)%nat; [exact I|]. exists []. repeat split; cbn; lia.
  - assert (Inner : forall br0 hs0,
      match (if (br0 + dsz <=? size)%nat then
               match gmx_consume fx ord left right rv fixL3 p i c with
               | None => DErr
               | Some (p1, s, true) => DStop p1 s
               | Some (p1, _, false) =>
                   gmx_drain fx ord left right rv fixL3 hsz dsz head0 rem' size GOuter (br0 + dsz) hs0 (S i) p1
               end
             else DSleep GInner br0 hs0 i p (c :: rem')) with
      | DStop p1 s => runf p (gstream_from i (c :: rem')) = SStop p1 s
      | DSleep ph' br' hs' i' p' rem'' =>
          exists cs, c :: rem' = cs ++ rem'' /\ runf p (gstream_from i cs) = SMore p' /\ i' = (i + length cs)%nat
      | DErr => exists n, runf p (gstream_from i (firstn n (c :: rem'))) = SErr
      | DBad => True
      end).
    { intros br0 hs0. destruct (br0 + dsz <=? size)%nat.
      - unfold gmx_consume.
        destruct (add_to_path_x fx p (snapshot rv (gord c) i) left right) as [[[[p1 s] st] ad]|] eqn:E.
        + destruct st.
          * cbn [gstream_from]. rewrite run_frames_cons, E. reflexivity.
          * specialize (IH size GOuter (br0 + dsz)%nat hs0 (S i) p1).
            destruct (gmx_drain fx ord left right rv fixL3 hsz dsz head0 rem' size GOuter (br0 + dsz) hs0 (S i) p1)
              as [p2 s2|ph' br' hs' i' p' rem''| |].
            -- cbn [gstream_from]. rewrite run_frames_cons, E. exact IH.
            -- destruct IH as [cs [Hr [Hrun Hi]]]. exists (c :: cs). repeat split.
               ++ cbn. rewrite Hr. reflexivity.
               ++ cbn [gstream_from]. rewrite run_frames_cons, E. exact Hrun.
               ++ cbn [length]. lia.
            -- destruct IH as [n Hn]. exists (S n). cbn [firstn gstream_from]. rewrite run_frames_cons, E. exact Hn.
            -- exact I.
        + exists 1%nat. cbn [firstn gstream_from]. rewrite run_frames_cons, E. reflexivity.
      - exists []. repeat split; cbn; lia. }
    cbn [gmx_drain]. destruct ph.
    + destruct (br + (if (hs =? 0)%nat then head0 else hs) <=? size)%nat.
      * apply Inner.
      * exists []. repeat split; cbn; lia.
    + apply Inner.
Qed.

Lemma gmx_epochs_ok : forall eps rem ph br hs i p,
  gres_ok p i rem (gmx_epochs fx ord left right rv code strict fixL3 fixL14 hsz dsz head0 final_size eps rem ph br hs i p).
Proof.
  induction eps as [|size rest IH]; intros rem ph br hs i p.
  - cbn [gmx_epochs]. destruct ph; [apply gmx_exit_ok|].
    destruct (br + dsz <=? final_size)%nat;
      [|destruct fixL14; [|exact I]; unfold fell_through; destruct (exit_failed strict code) eqn:Hc;
        cbn [gres_ok]; (split; [exact Hc|exists 0%nat; reflexivity])].
    destruct rem as [|c rem']; [exact I|].
    unfold gmx_consume.
    destruct (add_to_path_x fx p (snapshot rv (gord c) i) left right) as [[[[p1 s] st] ad]|] eqn:E.
    + destruct st.
      * cbn [gres_ok gstream_from]. rewrite run_frames_cons, E. reflexivity.
      * change (c :: rem') with ([c] ++ rem'). apply (gres_ok_lift p i [c] rem' p1).
        -- cbn [gstream_from]. rewrite run_frames_cons, E. reflexivity.
        -- cbn [length]. replace (i + 1)%nat with (S i) by lia. apply gmx_exit_ok.
    + cbn [gres_ok]. exists 1%nat. cbn [firstn gstream_from]. rewrite run_frames_cons, E. reflexivity.
  - cbn [gmx_epochs].
    pose proof (gmx_drain_spec rem size ph br hs i p) as D.
    destruct (gmx_drain fx ord left right rv fixL3 hsz dsz head0 rem size ph br hs i p)
      as [p1 s|ph' br' hs' i' p' rem'| |].
    + exact D.
    + destruct D as [cs [-> [Hrun ->]]]. eapply gres_ok_lift; [exact Hrun|apply IH].
    + exact D.
    + exact I.
Qed.

(* main statement for the GROMACS TRR state machine: for ANY sequence of observed file sizes *)
Theorem gromacs_any_schedule : forall p0 dead eps,
  gres_ok p0 0 traj
    (gromacs_run fx ord left right rv traj code strict fixL3 fixL14 hsz dsz head0 final_size p0 dead eps).
Proof.
  intros p0 dead eps. unfold gromacs_run.
  destruct (dead && exit_failed strict code) eqn:E.
  - cbn [gres_ok]. apply andb_true_iff in E. destruct E as [_ E].
    split; [exact E|]. exists 0%nat. reflexivity.
  - apply gmx_epochs_ok.
Qed.

Theorem gromacs_returns_prefix : forall p0 dead eps p s ps,
  gmx_own_cond ->
  gromacs_run fx ord left right rv traj code strict fixL3 fixL14 hsz dsz head0 final_size p0 dead eps = Ret p s ps ->
  runf p0 (own_stream ord rv traj) = SStop p s.
Proof.
  intros p0 dead eps p s ps Hown H.
  pose proof (gromacs_any_schedule p0 dead eps) as G. rewrite H in G. cbn [gres_ok] in G.
  unfold own_stream. rewrite <- (gstream_own Hown). exact G.
Qed.

Theorem gromacs_failure_raises : forall p0 dead eps,
  exit_failed strict code = true ->
  match gromacs_run fx ord left right rv traj code strict fixL3 fixL14 hsz dsz head0 final_size p0 dead eps with
  | Trunc _ _ => False
  | _ => True
  end.
Proof.
  intros p0 dead eps Hc.
  pose proof (gromacs_any_schedule p0 dead eps) as G.
  destruct (gromacs_run fx ord left right rv traj code strict fixL3 fixL14 hsz dsz head0 final_size p0 dead eps); auto.
  cbn [gres_ok] in G. destruct G as [G _]. congruence.
Qed.

End GmxP.

(* ================================================================== in-process engines *)
Section InprocP.
Variable s : nat.

(* ASE / TurtleMD / plug-in: the subcycle loop is the stop rule over every s-th fine state *)
Theorem inproc_loop_spec : forall fine i p step,
  inproc_loop fx ord left right rv s fine i p step =
  match runf p (own_from step (every_from s i fine)) with
  | SStop p1 b => Ret p1 b PNone
  | SMore p1 => Trunc p1 PNone
  | SErr => IdxError
  end.
Proof.
  induction fine as [|c r IH]; intros i p step; cbn [inproc_loop every_from]; [reflexivity|].
  destruct (i mod s =? 0)%nat.
  - cbn [own_stream_from run_frames]. rewrite snapshot_own.
    destruct (add_to_path_x fx p (own_frame ord rv step c) left right) as [[[[p1 b] st] ad]|]; [|reflexivity].
    destruct st; [reflexivity|apply IH].
  - apply IH.
Qed.

(* it cannot run out of frames when the loop offers at least maxlen of them *)
Theorem inproc_stops : forall fine M t0,
  (0 < M)%nat -> (M <= length (every_from s 0 fine))%nat ->
  exists p b, inproc_loop fx ord left right rv s fine 0 (empty_path M t0) 0 = Ret p b PNone.
Proof.
  intros fine M t0 HM HL. rewrite inproc_loop_spec, run_frames_empty by exact HM.
  destruct (first_fire left right M 0 (own_from 0 (every_from s 0 fine))) as [[k f]|] eqn:E.
  - eauto.
  - exfalso. revert E. apply first_fire_long; [exact HM|].
    rewrite own_stream_from_length. lia.
Qed.
End InprocP.

End PollersP.

(* ================================================================== CP2K, return form *)
Lemma cp2k_run_dead : forall fx ord left right rv traj code strict box0 p0 reads,
  cp2k_run fx ord left right rv traj code strict box0 p0 true reads =
  if exit_failed strict code then Raise p0 (PExited code)
  else cp2k_run fx ord left right rv traj code strict box0 p0 false reads.
Proof. intros. unfold cp2k_run. cbn [andb]. destruct (exit_failed strict code); reflexivity. Qed.

Theorem cp2k_returns_prefix : forall fx ord left right rv traj code strict box0 p0 dead reads p s ps,
  reads_ok traj reads ->
  cp2k_run fx ord left right rv traj code strict box0 p0 dead reads = Ret p s ps ->
  run_frames fx left right p0 (own_stream ord rv (map (fixbox box0) traj)) = SStop p s.
Proof.
  intros fx ord left right rv traj code strict box0 p0 dead reads p s ps HF H.
  assert (G : cp2k_run fx ord left right rv traj code strict box0 p0 false reads = Ret p s ps).
  { destruct dead; [|exact H]. rewrite cp2k_run_dead in H. destruct (exit_failed strict code); [discriminate|exact H]. }
  pose proof (cp2k_any_schedule fx ord left right rv traj code strict box0 p0 reads HF) as O.
  rewrite <- firstn_map in O.
  eapply (same_outcome_ret_full fx ord left right rv (map (fixbox box0) traj) code strict); [exact O|exact G].
Qed.

(* ================================================================== frame k carries its own data *)
Lemma nth_error_firstn_some : forall {A} (l : list A) n k x,
  nth_error (firstn n l) k = Some x -> nth_error l k = Some x.
Proof.
  induction l as [|a l IH]; intros n k x H; destruct n; destruct k; cbn in *; try discriminate; auto.
  eapply IH; exact H.
Qed.

Lemma own_stream_from_nth_inv : forall ord rv cs k0 j f,
  nth_error (own_stream_from ord rv k0 cs) j = Some f ->
  exists c, nth_error cs j = Some c /\ f = own_frame ord rv (k0 + j) c.
Proof.
  induction cs as [|x r IH]; intros k0 j f H; [destruct j; discriminate|].
  destruct j as [|j]; cbn in H.
  - injection H as <-. exists x. rewrite Nat.add_0_r. split; reflexivity.
  - destruct (IH (S k0) j f H) as [c [Hc Hf]]. exists c. split; [exact Hc|].
    replace (k0 + S j)%nat with (S k0 + j)%nat by lia. exact Hf.
Qed.

(* whatever path a poller returns as "the stop-rule prefix of the trajectory's own-data frames":
   its k-th frame is built from the k-th configuration alone: order parameter of that
   configuration's positions, box and velocities in the requested direction, config index k *)
Theorem stop_prefix_frames_own : forall fx left right M t0 ord rv traj p s,
  (0 < M)%nat ->
  run_frames fx left right (empty_path M t0) (own_stream ord rv traj) = SStop p s ->
  forall k f, nth_error (pts p) k = Some f ->
  exists c, nth_error traj k = Some c /\
    ford f = ord (cpos c) (if rv then - cvel c else cvel c) (cbox c) /\
    ftag f = Z.of_nat k /\ frev f = rv.
Proof.
  intros fx left right M t0 ord rv traj p s HM H k f Hk.
  rewrite run_frames_empty in H by exact HM.
  destruct (first_fire left right M 0 (own_stream ord rv traj)) as [[k0 f0]|]; [|discriminate].
  injection H as Hp _. rewrite <- Hp in Hk.
  change (nth_error (firstn (S k0) (own_stream ord rv traj)) k = Some f) in Hk.
  apply nth_error_firstn_some in Hk. unfold own_stream in Hk.
  destruct (own_stream_from_nth_inv _ _ _ _ _ _ Hk) as [c [Hc ->]].
  exists c. split; [exact Hc|]. cbn. repeat split.
Qed.

(* ================================================================== time reversal *)
Section Retrace.
Variable T : conf -> conf.                              (* one frame interval of the dynamics *)
Hypothesis T_rev : forall c, T (crev (T c)) = crev c.   (* time reversibility *)

Lemma iter_shift : forall n c, iter (S n) T c = iter n T (T c).
Proof. induction n as [|n IH]; intros c; [reflexivity|]. cbn [iter] in *. rewrite IH. reflexivity. Qed.

Lemma orbit_snoc : forall n c, orbit T (S n) c = orbit T n c ++ [iter n T c].
Proof.
  induction n as [|n IH]; intros c; [reflexivity|].
  change (orbit T (S (S n)) c) with (c :: orbit T (S n) (T c)). rewrite IH.
  cbn [orbit app]. rewrite <- iter_shift. reflexivity.
Qed.

(* the program started from the velocity-reversed frame j writes frames j, j-1, ..., 0 of the
   forward trajectory, each with reversed velocities *)
Theorem orbit_reversed : forall j c0,
  orbit T (S j) (crev (iter j T c0)) = map crev (rev (orbit T (S j) c0)).
Proof.
  induction j as [|j IH]; intros c0; [reflexivity|].
  rewrite (orbit_snoc (S j) c0), rev_unit, map_cons, <- IH.
  change (orbit T (S (S j)) (crev (iter (S j) T c0)))
    with (crev (iter (S j) T c0) :: orbit T (S j) (T (crev (iter (S j) T c0)))).
  cbn [iter]. rewrite T_rev. reflexivity.
Qed.
End Retrace.

Lemma map_ford_own_from : forall ord rv cs k,
  map ford (own_stream_from ord rv k cs) =
  map (fun c => ord (cpos c) (if rv then - cvel c else cvel c) (cbox c)) cs.
Proof. induction cs as [|c r IH]; intros k; cbn; [reflexivity|]. rewrite IH. reflexivity. Qed.

(* the order parameters a backward propagation from frame j stores are those of the forward
   frames j, j-1, ..., 0 (velocity direction included) *)
Theorem backward_retraces : forall T ord j c0,
  (forall c, T (crev (T c)) = crev c) ->
  map ford (own_stream ord true (orbit T (S j) (crev (iter j T c0)))) =
  rev (map ford (own_stream ord false (orbit T (S j) c0))).
Proof.
  intros T ord j c0 HT. unfold own_stream. rewrite !map_ford_own_from, (orbit_reversed T HT).
  rewrite map_map, <- map_rev. apply map_ext. intros c. cbn. rewrite Z.opp_involutive. reflexivity.
Qed.

(* ================================================================== refutation witnesses *)
(* L2: with `box_trajectory.pop()` two frames arriving in one poll are paired with each
   other's box: order parameter = the box tag, boxes 10 and 20, right interface 15 *)
Theorem lammps_pop_last_refuted :
  exists ord left right traj reads p s ps,
    lammps_run true ord left right false traj 0 true false (empty_path 5 0) false reads = Ret p s ps /\
    run_frames true left right (empty_path 5 0) (own_stream ord false traj) <> SStop p s /\
    lammps_run true ord left right false traj 0 true true (empty_path 5 0) false reads <> Ret p s ps.
Proof.
  exists (fun _ _ b => b), (-100), 15, [mkC 0 1 10; mkC 1 2 20], [(2%nat, true)].
  eexists. eexists. eexists. split; [vm_compute; reflexivity|]. split; vm_compute; discriminate.
Qed.

(* L3: GROMACS, reverse = True, order parameter = the velocity: the stored value is that of
   the un-reversed file velocity *)
Theorem gromacs_double_negation_refuted :
  exists ord left right traj eps p s ps,
    gromacs_run true ord left right true traj 0 true false false 10 20 10 60 (empty_path 2 0) false eps = Ret p s ps /\
    run_frames true left right (empty_path 2 0) (own_stream ord true traj) <> SStop p s /\
    gromacs_run true ord left right true traj 0 true true false 10 20 10 60 (empty_path 2 0) false eps <> Ret p s ps.
Proof.
  exists (fun _ v _ => v), (-5), 0, [mkC 0 1 0; mkC 1 1 0], [60%nat].
  eexists. eexists. eexists. split; [vm_compute; reflexivity|]. split; vm_compute; discriminate.
Qed.

(* L14: the program dies (code 1) after writing the header of frame 1 but not its data, the
   header having been read while it was still running: the original loop waits forever, the
   repaired one raises *)
Theorem gromacs_midframe_crash_refuted :
  exists ord left right traj eps p,
    gromacs_run true ord left right false traj 1 true true false 10 20 10 45 (empty_path 5 0) false eps = Hang p /\
    gromacs_run true ord left right false traj 1 true true true 10 20 10 45 (empty_path 5 0) false eps = Raise p (PExited 1).
Proof.
  exists (fun p _ _ => p), (-5), 50, [mkC 0 1 0], [30%nat; 45%nat].
  eexists. split; vm_compute; reflexivity.
Qed.

(* ================================================================== the failure test on the return code *)
(* the test of /repo ([strict = true], `!= 0`) is exactly "the return code is not 0" ... *)
Lemma exit_failed_strict : forall code, exit_failed true code = true <-> code <> 0.
Proof.
  intros code. unfold exit_failed. rewrite negb_true_iff. split.
  - intros H. apply Z.eqb_neq. exact H.
  - intros H. apply Z.eqb_neq. exact H.
Qed.

(* ... in particular a NEGATIVE return code (subprocess: the program was killed by signal -code)
   is a failure, which the variant `> 0` takes for a clean exit *)
Lemma exit_failed_signal : forall code, code < 0 ->
  exit_failed true code = true /\ exit_failed false code = false.
Proof.
  intros code H. split.
  - apply exit_failed_strict. lia.
  - unfold exit_failed. apply Z.ltb_ge. lia.
Qed.

(* the two tests agree on every return code of a program that EXITED (status >= 0) *)
Lemma exit_failed_nonneg : forall code, 0 <= code -> exit_failed false code = exit_failed true code.
Proof.
  intros code H. unfold exit_failed.
  destruct (Z.eqb_spec code 0) as [->|Hn]; [reflexivity|]. cbn [negb]. apply Z.ltb_lt. lia.
Qed.

(* failure => raise, with the test as it is, for every non-zero return code *)
Theorem lammps_failure_raises_strict : forall fx ord left right rv traj code fixL2 p0 dead reads,
  code <> 0 ->
  match lammps_run fx ord left right rv traj code true fixL2 p0 dead reads with
  | Trunc _ _ => False
  | _ => True
  end.
Proof. intros. apply lammps_failure_raises. apply exit_failed_strict. assumption. Qed.

Theorem cp2k_failure_raises_strict : forall fx ord left right rv traj code box0 p0 dead reads,
  code <> 0 ->
  match cp2k_run fx ord left right rv traj code true box0 p0 dead reads with
  | Trunc _ _ => False
  | _ => True
  end.
Proof. intros. apply cp2k_failure_raises. apply exit_failed_strict. assumption. Qed.

Theorem gromacs_failure_raises_strict : forall fx ord left right rv traj code fixL3 fixL14 hsz dsz head0 final_size p0 dead eps,
  code <> 0 ->
  match gromacs_run fx ord left right rv traj code true fixL3 fixL14 hsz dsz head0 final_size p0 dead eps with
  | Trunc _ _ => False
  | _ => True
  end.
Proof. intros. apply gromacs_failure_raises. apply exit_failed_strict. assumption. Qed.

(* death by signal (negative return code), all three external engines at once *)
Theorem signal_death_raises : forall fx ord left right rv traj code, code < 0 ->
  (forall fixL2 p0 dead reads,
     match lammps_run fx ord left right rv traj code true fixL2 p0 dead reads with Trunc _ _ => False | _ => True end) /\
  (forall box0 p0 dead reads,
     match cp2k_run fx ord left right rv traj code true box0 p0 dead reads with Trunc _ _ => False | _ => True end) /\
  (forall fixL3 fixL14 hsz dsz head0 final_size p0 dead eps,
     match gromacs_run fx ord left right rv traj code true fixL3 fixL14 hsz dsz head0 final_size p0 dead eps with
     | Trunc _ _ => False | _ => True end).
Proof.
  intros fx ord left right rv traj code Hc.
  assert (Hn : code <> 0) by lia.
  split; [|split]; intros.
  - apply lammps_failure_raises_strict; exact Hn.
  - apply cp2k_failure_raises_strict; exact Hn.
  - apply gromacs_failure_raises_strict; exact Hn.
Qed.

(* the variant `> 0` of the test is refuted for each engine: the program is killed by SIGKILL
   (return code -9) after writing frames among which the stop rule never fires; the variant
   returns normally with that truncated path (Trunc), the test as it is raises *)
Theorem gromacs_signal_death_gt0_refuted :
  exists ord left right traj eps p,
    run_frames true left right (empty_path 9 0) (own_stream ord false traj) = SMore p /\
    gromacs_run true ord left right false traj (-9) false true true 10 20 10 90 (empty_path 9 0) false eps
      = Trunc p (PExited (-9)) /\
    gromacs_run true ord left right false traj (-9) true true true 10 20 10 90 (empty_path 9 0) false eps
      = Raise p (PExited (-9)).
Proof.
  exists (fun p _ _ => p), (-5), 50, [mkC 0 1 0; mkC 1 1 0; mkC 2 1 0], [90%nat].
  eexists. split; [vm_compute; reflexivity|]. split; vm_compute; reflexivity.
Qed.

Theorem lammps_signal_death_gt0_refuted :
  exists ord left right traj reads p,
    run_frames true left right (empty_path 9 0) (own_stream ord false traj) = SMore p /\
    lammps_run true ord left right false traj (-9) false true (empty_path 9 0) false reads = Trunc p (PExited (-9)) /\
    lammps_run true ord left right false traj (-9) true true (empty_path 9 0) false reads = Raise p (PExited (-9)).
Proof.
  exists (fun p _ _ => p), (-5), 50, [mkC 0 1 10; mkC 1 2 10], [(2%nat, true); (2%nat, false)].
  eexists. split; [vm_compute; reflexivity|]. split; vm_compute; reflexivity.
Qed.

Theorem cp2k_signal_death_gt0_refuted :
  exists ord left right traj reads p,
    run_frames true left right (empty_path 9 0) (own_stream ord false (map (fixbox 7) traj)) = SMore p /\
    cp2k_run true ord left right false traj (-9) false 7 (empty_path 9 0) false reads = Trunc p (PExited (-9)) /\
    cp2k_run true ord left right false traj (-9) true 7 (empty_path 9 0) false reads = Raise p (PExited (-9)).
Proof.
  exists (fun p _ _ => p), (-5), 50, [mkC 0 1 7; mkC 1 2 7], [(2%nat, 2%nat, true); (2%nat, 2%nat, false)].
  eexists. split; [vm_compute; reflexivity|]. split; vm_compute; reflexivity.
Qed.

(* ================================================================== process groups *)

(* after killpg(g) no process of group g is alive, whatever the table *)
Theorem killpg_stops_group : forall g tb, any_alive (in_group g (sig_group g tb)) = false.
Proof.
  intros g tb. unfold any_alive, in_group, sig_group.
  induction tb as [|p tb IH]; [reflexivity|].
  cbn [map filter]. destruct (pr_pgid p =? g) eqn:E.
  - unfold stop_proc at 1. cbn [pr_pgid]. rewrite E. cbn [existsb pr_alive]. exact IH.
  - rewrite E. exact IH.
Qed.

(* killpg leaves every other group alone *)
Theorem killpg_other_groups : forall g h tb, h <> g -> in_group h (sig_group g tb) = in_group h tb.
Proof.
  intros g h tb Hne. unfold in_group, sig_group.
  induction tb as [|p tb IH]; [reflexivity|].
  cbn [map filter]. destruct (pr_pgid p =? g) eqn:E.
  - apply Z.eqb_eq in E. unfold stop_proc at 1. cbn [pr_pgid].
    destruct (pr_pgid p =? h) eqn:E2; [apply Z.eqb_eq in E2; lia|]. exact IH.
  - destruct (pr_pgid p =? h); [f_equal|]; exact IH.
Qed.

(* the program a launcher (leader of group L) starts is in group L, and killpg(L) stops it *)
Theorem killpg_reaches_launched : forall L c tb l,
  find (fun p => pr_pid p =? L) tb = Some l -> pr_pgid l = L ->
  In (mkProc c L false) (sig_group L (spawn L c tb)) /\
  any_alive (in_group L (sig_group L (spawn L c tb))) = false.
Proof.
  intros L c tb l Hf Hg. split; [|apply killpg_stops_group].
  unfold spawn. rewrite Hf, Hg. unfold sig_group. rewrite map_app. apply in_or_app. right.
  cbn [map pr_pgid]. rewrite Z.eqb_refl. left. reflexivity.
Qed.

(* signalling only the leader does not: launcher 10 (group 10) runs the program 11 *)
Theorem signal_leader_only_refuted :
  exists L c tb, any_alive (in_group L (sig_pid L (spawn L c tb))) = true /\
                 any_alive (in_group L (sig_group L (spawn L c tb))) = false.
Proof. exists 10, 11, [mkProc 10 10 true]. split; vm_compute; reflexivity. Qed.

(* ================================================================== calculate_order: overrides or the file *)
Lemma calculate_order_args_given : forall ord rv x v b file sysbox,
  calculate_order_args ord rv (Some x) (Some v) (Some b) file sysbox = calc_order ord rv x v b.
Proof. reflexivity. Qed.

Lemma calculate_order_args_fallback : forall ord rv xyz vel box file sysbox,
  xyz = None \/ vel = None \/ box = None ->
  calculate_order_args ord rv xyz vel box file sysbox
  = calc_order ord rv (fc_pos file) (fc_vel file) (match fc_box file with Some b => b | None => sysbox end).
Proof.
  intros ord rv xyz vel box file sysbox H. unfold calculate_order_args.
  destruct xyz, vel, box; try reflexivity.
  destruct H as [H|[H|H]]; discriminate.
Qed.

(* with a box override that is never None, the spelled-out call site is the loop of Section
   Inproc: every stored order parameter is that of the step's own state, whatever the initial
   configuration file contains or lacks *)
Lemma inproc_loop_args_own_box : forall fx ord left right rv s boxarg init sysbox,
  (forall c, boxarg c = Some (cbox c)) ->
  forall fine i p step,
  inproc_loop_args fx ord left right rv s boxarg init sysbox fine i p step
  = inproc_loop fx ord left right rv s fine i p step.
Proof.
  intros fx ord left right rv s boxarg init sysbox HB.
  induction fine as [|c r IH]; intros i p step; cbn [inproc_loop_args inproc_loop]; [reflexivity|].
  destruct (i mod s =? 0)%nat; [|apply IH].
  rewrite HB. cbn [calculate_order_args].
  destruct (add_to_path_x fx p (snapshot rv (calc_order ord rv (cpos c) (cvel c) (cbox c)) step) left right)
    as [[[[p1 b] st] ad]|]; [|reflexivity].
  destruct st; [reflexivity|apply IH].
Qed.

(* a box override taken from the initial FILE is None when that file has no box entry: every
   in-loop call then falls back to the file and stores the order parameter of the initial
   configuration; the crossing (third state: 5 > 4) is never seen and the run goes on to maxlen *)
Lemma inproc_loop_args_file_box_refuted :
  let ord := fun p v b : Z => p in
  let fine := [mkC 1 1 0; mkC 3 1 0; mkC 5 1 0; mkC 7 1 0] in
  let init := mkFC 1 1 None in
  inproc_loop true ord 0 4 false 1 fine 0 (empty_path 4 0) 0
  = Ret (mkP [mkF 1 0 false 0; mkF 3 1 false 1; mkF 5 2 false 2] 4 0) true PNone /\
  inproc_loop_args true ord 0 4 false 1 (fun _ => fc_box init) init 0 fine 0 (empty_path 4 0) 0
  = Ret (mkP [mkF 1 0 false 0; mkF 1 1 false 1; mkF 1 2 false 2; mkF 1 3 false 3] 4 0) false PNone.
Proof. split; vm_compute; reflexivity. Qed.
