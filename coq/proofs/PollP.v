(* Proofs about the polling loops of model/PollM.v (property C12). *)
From Coq Require Import ZArith List Bool Lia Arith PeanoNat.
Import ListNotations.
From Inf Require Import base.ListX model.PathM model.EngineM model.PollM.
Open Scope Z_scope.

(* ================================================================== the stop rule *)
Section Spec.
Variables left right : Z.

(* propagate_loop without the counter *)
Inductive sres := SStop (p : path) (s : bool) | SMore (p : path) | SErr.

Fixpoint run_frames (p : path) (fs : list frame) : sres :=
  match fs with
  | [] => SMore p
  | f :: r =>
      match add_to_path p f left right with
      | None => SErr
      | Some (p1, success, stop, _) => if stop then SStop p1 success else run_frames p1 r
      end
  end.

Definition erase_pr (r : prop_result) : sres :=
  match r with PR p s _ => SStop p s | PRExhausted p => SMore p | PRError => SErr end.

Lemma propagate_loop_run_frames : forall fs p n,
  erase_pr (propagate_loop p fs left right n) = run_frames p fs.
Proof.
  induction fs as [|f r IH]; intros p n; cbn; [reflexivity|].
  destruct (add_to_path p f left right) as [[[[p1 s] st] a]|]; cbn; [|reflexivity].
  destruct st; cbn; [reflexivity|apply IH].
Qed.

Lemma run_frames_app : forall a b p,
  run_frames p (a ++ b) =
  match run_frames p a with SMore p1 => run_frames p1 b | r => r end.
Proof.
  induction a as [|f a IH]; intros b p; cbn; [reflexivity|].
  destruct (add_to_path p f left right) as [[[[p1 s] st] ad]|]; [|reflexivity].
  destruct st; [reflexivity|apply IH].
Qed.

(* a stop found in a prefix is the stop of the whole stream *)
Lemma run_frames_stop_prefix : forall a b p p1 s,
  run_frames p a = SStop p1 s -> run_frames p (a ++ b) = SStop p1 s.
Proof. intros a b p p1 s H. rewrite run_frames_app, H. reflexivity. Qed.

Lemma run_frames_err_prefix : forall a b p,
  run_frames p a = SErr -> run_frames p (a ++ b) = SErr.
Proof. intros a b p H. rewrite run_frames_app, H. reflexivity. Qed.

(* ---- the stop rule in closed form *)
Definition outside (f : frame) : bool := (ford f <? left) || (right <? ford f).

(* the rule fires on the frame that becomes the (k+1)-th of a path limited to M frames *)
Definition fires (M k : nat) (f : frame) : bool := outside f || (S k =? M)%nat.

Fixpoint first_fire (M k : nat) (fs : list frame) : option (nat * frame) :=
  match fs with
  | [] => None
  | f :: r => if fires M k f then Some (k, f) else first_fire M (S k) r
  end.

(* what C12 says about the success flag: success only for a frame outside the interfaces,
   and always for such a frame unless it is also the maxlen-th (that corner is C09's) *)
Definition succ_ok (M k : nat) (f : frame) (s : bool) : Prop :=
  (s = true -> outside f = true) /\ (outside f = true -> S k <> M -> s = true).

Lemma add_to_path_room : forall p f,
  (plen p < maxlen p)%nat ->
  exists s,
  add_to_path p f left right =
  Some (mkP (pts p ++ [f]) (maxlen p) (torigin p), s, fires (maxlen p) (plen p) f, true)
  /\ succ_ok (maxlen p) (plen p) f s.
Proof.
  intros p f Hlt. unfold add_to_path, append.
  destruct (Nat.ltb_spec (plen p) (maxlen p)) as [_|H]; [|lia].
  cbv beta iota zeta. cbn [pts maxlen]. rewrite rev_unit.
  unfold plen at 1. cbn [pts].
  rewrite app_length. cbn [length]. replace (length (pts p) + 1)%nat with (S (plen p)) by (unfold plen; lia).
  unfold succ_ok, fires, outside.
  destruct (ford f <? left); destruct (right <? ford f);
    destruct (Nat.eqb_spec (S (plen p)) (maxlen p)); cbn;
    eexists; (split; [reflexivity|]); cbn; split; intros; try reflexivity; try congruence; try lia.
Qed.

(* run_frames = "first index where the stop rule fires" *)
Lemma run_frames_first_fire : forall fs p,
  (plen p < maxlen p)%nat ->
  match first_fire (maxlen p) (plen p) fs with
  | Some (k, f) =>
      exists s,
      run_frames p fs = SStop (mkP (pts p ++ firstn (S k - plen p) fs) (maxlen p) (torigin p)) s
      /\ succ_ok (maxlen p) k f s
  | None => run_frames p fs = SMore (mkP (pts p ++ fs) (maxlen p) (torigin p))
  end.
Proof.
  induction fs as [|f r IH]; intros p Hlt.
  - cbn. rewrite app_nil_r. destruct p; reflexivity.
  - cbn [run_frames first_fire].
    destruct (add_to_path_room p f Hlt) as (s0 & Ha & Hs0). rewrite Ha.
    destruct (fires (maxlen p) (plen p) f) eqn:Hf.
    + replace (S (plen p) - plen p)%nat with 1%nat by lia. exists s0. split; [reflexivity|exact Hs0].
    + set (p1 := mkP (pts p ++ [f]) (maxlen p) (torigin p)).
      assert (Hl1 : plen p1 = S (plen p)).
      { unfold plen, p1. cbn. rewrite app_length. cbn. lia. }
      assert (Hlt1 : (plen p1 < maxlen p1)%nat).
      { unfold fires in Hf. apply orb_false_iff in Hf. destruct Hf as [_ Hf].
        apply Nat.eqb_neq in Hf. cbn [maxlen p1]. lia. }
      specialize (IH p1 Hlt1). cbn [maxlen torigin pts p1] in IH. rewrite Hl1 in IH.
      destruct (first_fire (maxlen p) (S (plen p)) r) as [[k g]|] eqn:Hff.
      * assert (Hk : (S (plen p) <= k)%nat).
        { clear -Hff. revert Hff. generalize (S (plen p)). induction r as [|x r IHr]; intros n H; cbn in H; [discriminate|].
          destruct (fires (maxlen p) n x). - inversion H; lia. - apply IHr in H. lia. }
        destruct IH as (s & Hr & Hs). exists s. split; [|exact Hs]. rewrite Hr.
        replace (S k - plen p)%nat with (S (S k - S (plen p))) by lia.
        cbn [firstn]. rewrite <- app_assoc. reflexivity.
      * rewrite IH. rewrite <- app_assoc. reflexivity.
Qed.

(* from an empty path: the k-th frame is the (k+1)-th of the path *)
Lemma run_frames_empty : forall fs M t0,
  (0 < M)%nat ->
  match first_fire M 0 fs with
  | Some (k, f) =>
      exists s, run_frames (empty_path M t0) fs = SStop (mkP (firstn (S k) fs) M t0) s /\ succ_ok M k f s
  | None => run_frames (empty_path M t0) fs = SMore (mkP fs M t0)
  end.
Proof.
  intros fs M t0 HM.
  pose proof (run_frames_first_fire fs (empty_path M t0)) as H.
  cbn [empty_path plen pts maxlen torigin length app] in H.
  specialize (H HM).
  destruct (first_fire M 0 fs) as [[k f]|]; [rewrite Nat.sub_0_r in H|]; exact H.
Qed.

Lemma run_frames_maxlen0 : forall f fs t0, run_frames (empty_path 0 t0) (f :: fs) = SErr.
Proof. reflexivity. Qed.

(* first_fire really is the first index: it fires there and nowhere before *)
Lemma first_fire_spec : forall fs M k0 k f,
  first_fire M k0 fs = Some (k, f) ->
  (k0 <= k)%nat /\ nth_error fs (k - k0) = Some f /\ fires M k f = true /\
  (forall j g, (j < k - k0)%nat -> nth_error fs j = Some g -> fires M (k0 + j) g = false).
Proof.
  induction fs as [|x r IH]; intros M k0 k f H; cbn in H; [discriminate|].
  destruct (fires M k0 x) eqn:Hx.
  - inversion H; subst. rewrite Nat.sub_diag. repeat split; auto. intros j g Hj; lia.
  - apply IH in H. destruct H as (Hle & Hn & Hf & Hb).
    repeat split; [lia| |assumption|].
    + replace (k - k0)%nat with (S (k - S k0)) by lia. exact Hn.
    + intros j g Hj Hg. destruct j as [|j]; cbn in Hg.
      * inversion Hg; subst. rewrite Nat.add_0_r. exact Hx.
      * replace (k0 + S j)%nat with (S k0 + j)%nat by lia. apply (Hb j g); [lia|exact Hg].
Qed.

Lemma first_fire_none : forall fs M k0,
  first_fire M k0 fs = None ->
  forall j g, nth_error fs j = Some g -> fires M (k0 + j) g = false.
Proof.
  induction fs as [|x r IH]; intros M k0 H j g Hg; [destruct j; discriminate|].
  cbn in H. destruct (fires M k0 x) eqn:Hx; [discriminate|].
  destruct j as [|j]; cbn in Hg.
  - inversion Hg; subst. rewrite Nat.add_0_r. exact Hx.
  - replace (k0 + S j)%nat with (S k0 + j)%nat by lia. eapply IH; eauto.
Qed.

End Spec.


(* ================================================================== list plumbing *)
Lemma own_stream_from_app : forall ord rv a b k,
  own_stream_from ord rv k (a ++ b) =
  own_stream_from ord rv k a ++ own_stream_from ord rv (k + length a) b.
Proof.
  induction a as [|c a IH]; intros b k; cbn.
  - rewrite Nat.add_0_r. reflexivity.
  - rewrite IH. replace (S k + length a)%nat with (k + S (length a))%nat by lia. reflexivity.
Qed.

Lemma own_stream_from_length : forall ord rv cs k, length (own_stream_from ord rv k cs) = length cs.
Proof. induction cs as [|c r IH]; intros k; cbn; [reflexivity|rewrite IH; reflexivity]. Qed.

Lemma own_stream_from_nth : forall ord rv cs k j c,
  nth_error cs j = Some c -> nth_error (own_stream_from ord rv k cs) j = Some (own_frame ord rv (k + j) c).
Proof.
  induction cs as [|x r IH]; intros k j c H; [destruct j; discriminate|].
  destruct j as [|j]; cbn in *.
  - inversion H; subst. rewrite Nat.add_0_r. reflexivity.
  - rewrite (IH (S k) j c H). replace (S k + j)%nat with (k + S j)%nat by lia. reflexivity.
Qed.

Lemma own_stream_from_firstn : forall ord rv cs k n,
  firstn n (own_stream_from ord rv k cs) = own_stream_from ord rv k (firstn n cs).
Proof.
  induction cs as [|x r IH]; intros k n; destruct n; cbn; try reflexivity. rewrite IH. reflexivity.
Qed.

(* what a reader hands out over time: splitting the delivered prefix *)
Lemma deliver_split : forall {A} (l : list A) rd c V,
  (c <= length l)%nat -> (c <= V)%nat ->
  skipn rd (firstn V l) = skipn rd (firstn c l) ++ skipn (Nat.max rd c) (firstn V l).
Proof.
  intros A l rd c V Hc HV.
  destruct (le_lt_dec c rd) as [Hle|Hlt].
  - rewrite (skipn_all2 (firstn c l)) by (rewrite firstn_length; lia).
    rewrite Nat.max_l by lia. reflexivity.
  - rewrite Nat.max_r by lia.
    assert (E : firstn V l = firstn c l ++ skipn c (firstn V l)).
    { rewrite <- (firstn_skipn c (firstn V l)) at 1. rewrite firstn_firstn.
      rewrite Nat.min_l by lia. reflexivity. }
    rewrite E at 1. rewrite skipn_app. rewrite firstn_length. rewrite Nat.min_l by lia.
    replace (rd - c)%nat with 0%nat by lia. reflexivity.
Qed.

Lemma new_frames_length : forall {A} (l : list A) rd c,
  (c <= length l)%nat -> length (new_frames l rd c) = (c - rd)%nat.
Proof. intros. unfold new_frames. rewrite skipn_length, firstn_length. lia. Qed.

(* ================================================================== LAMMPS *)
Section LammpsP.
Variable ord : Z -> Z -> Z -> Z.
Variables left right : Z.
Variable rv : bool.
Variable traj : list conf.
Variable code : Z.

Notation own_from := (own_stream_from ord rv).
Notation runf := (run_frames left right).

Lemma snapshot_own : forall c k,
  snapshot rv (calc_order ord rv (cpos c) (cvel c) (cbox c)) k = own_frame ord rv k c.
Proof. reflexivity. Qed.

(* the repaired for-loop consumes its frames exactly as the stop rule over their own data *)
Lemma lmp_for_fixed : forall fs p step,
  lmp_for ord left right rv true (length fs) fs (map cbox fs) p step =
  match runf p (own_from step fs) with
  | SStop p1 s => FStop p1 s
  | SMore p1 => FCont p1 (step + length fs) [] []
  | SErr => FErr
  end.
Proof.
  induction fs as [|c r IH]; intros p step; cbn [length map lmp_for own_stream_from run_frames].
  - rewrite Nat.add_0_r. reflexivity.
  - unfold pop_box. rewrite snapshot_own.
    destruct (add_to_path p (own_frame ord rv step c) left right) as [[[[p1 s] st] ad]|]; [|reflexivity].
    destruct st; [reflexivity|]. rewrite IH.
    replace (S step + length r)%nat with (step + S (length r))%nat by lia. reflexivity.
Qed.

Definition vmax (reads : list (nat * bool)) : nat := fold_right (fun cb m => Nat.max (fst cb) m) 0%nat reads.

(* outcome of a polling loop against the outcome of the stop rule over a frame stream *)
Definition same_outcome (r : poll_result) (s : sres) : Prop :=
  match r, s with
  | Ret p b _, SStop p' b' => p = p' /\ b = b'
  | Trunc p _, SMore p' => p = p' /\ code = 0
  | Raise p _, SMore p' => p = p' /\ code <> 0
  | IdxError, SErr => True
  | _, _ => False
  end.

Lemma fell_through_outcome : forall p, same_outcome (fell_through code p) (SMore p).
Proof.
  intros p. unfold fell_through. destruct (Z.eqb_spec code 0); cbn; auto.
Qed.

Lemma lmp_polls_fixed : forall reads rd p,
  Forall (fun cb => (fst cb <= length traj)%nat) reads -> (rd <= length traj)%nat ->
  same_outcome (lmp_polls ord left right rv traj code true reads rd [] [] p rd)
               (runf p (own_from rd (skipn rd (firstn (Nat.max rd (vmax reads)) traj)))).
Proof.
  induction reads as [|[c alive] rest IH]; intros rd p HF Hrd.
  - cbn [lmp_polls vmax fold_right]. rewrite Nat.max_0_r.
    rewrite skipn_all2 by (rewrite firstn_length; lia). cbn. apply fell_through_outcome.
  - inversion HF as [|x l Hc HF']; subst. cbn [fst] in Hc.
    cbn [lmp_polls]. cbn [app]. rewrite lmp_for_fixed.
    set (fs := new_frames traj rd c).
    assert (Hlen : length fs = (c - rd)%nat) by (apply new_frames_length; assumption).
    cbn [vmax fold_right fst]. fold (vmax rest).
    set (V := Nat.max rd (Nat.max c (vmax rest))).
    assert (Hsplit : skipn rd (firstn V traj) = fs ++ skipn (Nat.max rd c) (firstn V traj)).
    { apply deliver_split; [assumption|unfold V; lia]. }
    rewrite Hsplit, own_stream_from_app, run_frames_app.
    destruct (runf p (own_from rd fs)) as [p1 s|p1|]; cbn; auto.
    rewrite Hlen. replace (rd + (c - rd))%nat with (Nat.max rd c) by lia.
    replace V with (Nat.max (Nat.max rd c) (vmax rest)) by (unfold V; lia).
    apply IH; [assumption|lia].
Qed.

(* main statement for the repaired LAMMPS loop: whatever the arrival schedule, the outcome
   is the stop rule applied to the own-data frames of the prefix that was ever visible *)
Theorem lammps_fixed_any_schedule : forall p0 reads,
  Forall (fun cb => (fst cb <= length traj)%nat) reads ->
  same_outcome (lammps_run ord left right rv traj code true p0 false reads)
               (runf p0 (own_stream ord rv (firstn (vmax reads) traj))).
Proof.
  intros p0 reads HF. unfold lammps_run. cbn [andb].
  pose proof (lmp_polls_fixed reads 0 p0 HF (Nat.le_0_l _)) as H.
  rewrite Nat.max_0_l in H. cbn [skipn] in H. exact H.
Qed.

(* the original pairing agrees with the repaired one when the box never changes *)
Lemma rev_repeat_Z : forall (b : Z) n, rev (repeat b n) = repeat b n.
Proof.
  intros b n. induction n as [|n IH]; [reflexivity|].
  cbn [repeat rev]. rewrite IH. clear IH.
  induction n as [|n IH]; [reflexivity|]. cbn. rewrite IH. reflexivity.
Qed.

Lemma pop_box_const : forall b n,
  pop_box false (repeat b n) = pop_box true (repeat b n).
Proof.
  intros b n. unfold pop_box. rewrite rev_repeat_Z.
  destruct n as [|n]; [reflexivity|]. cbn [repeat]. rewrite rev_repeat_Z. reflexivity.
Qed.

Lemma lmp_for_const_box : forall b n tr m p step,
  lmp_for ord left right rv false n tr (repeat b m) p step =
  lmp_for ord left right rv true n tr (repeat b m) p step.
Proof.
  induction n as [|n IH]; intros tr m p step; [reflexivity|].
  cbn [lmp_for]. rewrite pop_box_const.
  destruct tr as [|f tr']; [reflexivity|].
  destruct m as [|m]; [reflexivity|]. cbn [repeat pop_box].
  destruct (add_to_path p _ left right) as [[[[p1 s] st] ad]|]; [|reflexivity].
  destruct st; [reflexivity|]. apply IH.
Qed.

Lemma map_cbox_const : forall b (cs : list conf),
  Forall (fun c => cbox c = b) cs -> map cbox cs = repeat b (length cs).
Proof.
  induction 1 as [|c cs Hc _ IH]; [reflexivity|]. cbn. rewrite Hc, IH. reflexivity.
Qed.

Lemma Forall_skipn_firstn : forall {A} (P : A -> Prop) l a b, Forall P l -> Forall P (skipn a (firstn b l)).
Proof.
  intros A P l a b H. apply Forall_forall. intros x Hx.
  rewrite Forall_forall in H. apply H.
  apply (firstn_In _ b). apply (skipn_In _ a). exact Hx.
Qed.

Lemma lmp_polls_const_box : forall b reads rd p step,
  Forall (fun c => cbox c = b) traj ->
  lmp_polls ord left right rv traj code false reads rd [] [] p step =
  lmp_polls ord left right rv traj code true reads rd [] [] p step.
Proof.
  intros b. induction reads as [|[c alive] rest IH]; intros rd p step Hb; [reflexivity|].
  cbn [lmp_polls app].
  assert (Hm : map cbox (new_frames traj rd c) = repeat b (length (new_frames traj rd c))).
  { apply map_cbox_const. unfold new_frames. apply Forall_skipn_firstn. exact Hb. }
  rewrite Hm, lmp_for_const_box. rewrite <- Hm, lmp_for_fixed.
  destruct (runf p _); try reflexivity. apply IH. exact Hb.
Qed.

Theorem lammps_original_const_box : forall b p0 dead reads,
  Forall (fun c => cbox c = b) traj ->
  lammps_run ord left right rv traj code false p0 dead reads =
  lammps_run ord left right rv traj code true p0 dead reads.
Proof.
  intros. unfold lammps_run. destruct (dead && negb (code =? 0)); [reflexivity|].
  eapply lmp_polls_const_box; eassumption.
Qed.

End LammpsP.
