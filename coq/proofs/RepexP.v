(* Proofs about the REPEX bookkeeping model: exclusivity invariant (C03), path numbering
   (C05), over arbitrary operation sequences. *)
From Coq Require Import ZArith List Bool Lia.
Import ListNotations.
From Inf Require Import base.ListX model.RepexM.
Open Scope nat_scope.

(* ------------------------------------------------------------------ set_nth / swap_nth *)

Lemma set_nth_length {A} i (x : A) l : length (set_nth i x l) = length l.
Proof. revert i; induction l as [|a l IH]; intros [|i]; cbn; auto. Qed.

Lemma nth_set_nth {A} i (x : A) l k d :
  i < length l -> nth k (set_nth i x l) d = if k =? i then x else nth k l d.
Proof.
  revert i k; induction l as [|a l IH]; intros i k Hi; cbn in Hi.
  - lia.
  - destruct i as [|i]; destruct k as [|k]; cbn; auto.
    rewrite IH by lia. reflexivity.
Qed.

Lemma nth_set_nth_out {A} i (x : A) l : length l <= i -> set_nth i x l = l.
Proof.
  revert i; induction l as [|a l IH]; intros i Hi.
  - destruct i; reflexivity.
  - destruct i; cbn in *; [lia|]. rewrite IH by lia. reflexivity.
Qed.

Definition transp (i j k : nat) : nat := if k =? i then j else if k =? j then i else k.

Lemma transp_invol i j k : transp i j (transp i j k) = k.
Proof.
  unfold transp.
  destruct (Nat.eqb_spec k i); destruct (Nat.eqb_spec k j); subst;
    repeat (match goal with |- context [?a =? ?b] => destruct (Nat.eqb_spec a b) end); subst; try lia; auto.
Qed.

Lemma transp_inj i j a b : transp i j a = transp i j b -> a = b.
Proof. intros H. rewrite <- (transp_invol i j a), <- (transp_invol i j b). now rewrite H. Qed.

Lemma transp_lt i j k n : i < n -> j < n -> k < n -> transp i j k < n.
Proof. unfold transp. intros. destruct (k =? i); [lia|]. destruct (k =? j); lia. Qed.

Lemma transp_other i j k : k <> i -> k <> j -> transp i j k = k.
Proof.
  unfold transp. intros. destruct (Nat.eqb_spec k i); [lia|]. destruct (Nat.eqb_spec k j); [lia|]. reflexivity.
Qed.

Lemma swap_nth_length {A} (d : A) i j l : length (swap_nth d i j l) = length l.
Proof. unfold swap_nth. now rewrite !set_nth_length. Qed.

Lemma nth_swap_nth {A} (d : A) i j l k :
  i < length l -> j < length l -> nth k (swap_nth d i j l) d = nth (transp i j k) l d.
Proof.
  intros Hi Hj. unfold swap_nth, transp.
  rewrite nth_set_nth by (rewrite set_nth_length; lia).
  destruct (Nat.eqb_spec k i) as [->|Hki]; [reflexivity|].
  rewrite nth_set_nth by lia. destruct (k =? j); reflexivity.
Qed.

(* ------------------------------------------------------------------ invariant *)

Definition cols_of (s : rstate) : list nat := concat (map jcols (locked s)).
Definition paths_of (s : rstate) : list nat := concat (map jpaths (locked s)).

Record wf (s : rstate) : Prop := {
  wf_W : length (W s) = size s;
  wf_T : length (trajs s) = size s;
  wf_n : 2 <= size s;
  wf_ghost : is_locked s (size s - 1) = true
}.

Definition job_ok (s : rstate) (jb : job) : Prop :=
  jcols jb <> [] /\ length (jcols jb) = length (jpaths jb) /\
  forall k c, nth_error (jcols jb) k = Some c ->
    c < size s - 1 /\ is_locked s c = true /\
    nth_error (jpaths jb) k = Some (nth c (trajs s) 0) /\ wij s c c <> 0%Z.

Record Inv (s : rstate) : Prop := {
  inv_wf : wf s;
  (* every in-flight job holds locked ensembles, and the paths sitting in them, with
     non-zero weight in their own ensemble *)
  inv_jobs : forall jb, In jb (locked s) -> job_ok s jb;
  (* no ensemble is held twice *)
  inv_nodup : NoDup (cols_of s);
  (* exactly the held ensembles (and the ghost) are marked busy *)
  inv_cover : forall c, c < size s - 1 -> is_locked s c = true -> In c (cols_of s);
  (* live paths are pairwise distinct and below the next path number *)
  inv_live : forall a b, a < size s - 1 -> b < size s - 1 ->
             nth a (trajs s) 0 = nth b (trajs s) 0 -> a = b;
  inv_fresh : forall a, a < size s - 1 -> nth a (trajs s) 0 < traj_num s;
  (* worker pins of in-flight jobs are distinct *)
  inv_pins : NoDup (map jpin (locked s))
}.

(* ------------------------------------------------------------------ basic facts *)

Lemma is_locked_set s e b c :
  e < size s ->
  nth c (set_nth e b (locks s)) true = if c =? e then b else is_locked s c.
Proof. intros H. unfold is_locked, size in *. now rewrite nth_set_nth by lia. Qed.

Lemma unlocked_lt s c : is_locked s c = false -> c < size s.
Proof.
  unfold is_locked, size. intros H. destruct (Nat.lt_ge_cases c (length (locks s))); auto.
  rewrite nth_overflow in H by lia. discriminate.
Qed.

Lemma unlocked_real s c : wf s -> is_locked s c = false -> c < size s - 1.
Proof.
  intros Hw H. pose proof (unlocked_lt _ _ H). pose proof (wf_ghost _ Hw) as G.
  destruct (Nat.eq_dec c (size s - 1)) as [->|]; [congruence|lia].
Qed.

(* "take": swap row i into slot j and lock j — the common core of pick and pick_lock *)
Definition take (s : rstate) (i j : nat) : option rstate := lock (swap s i j) j.

Lemma take_spec s i j s1 :
  wf s -> is_locked s i = false -> is_locked s j = false -> take s i j = Some s1 ->
  size s1 = size s /\ wf s1 /\ locked s1 = locked s /\ traj_num s1 = traj_num s /\
  (forall c, is_locked s1 c = if c =? j then true else is_locked s c) /\
  (forall c, nth c (trajs s1) 0 = nth (transp i j c) (trajs s) 0) /\
  (forall a b, wij s1 a b = wij s (transp i j a) b).
Proof.
  intros Hw Hi Hj. unfold take, lock, swap, is_locked at 1. cbn [locks].
  fold (is_locked s j). rewrite Hj. intros E. injection E as <-.
  pose proof (unlocked_lt _ _ Hi) as Li. pose proof (unlocked_lt _ _ Hj) as Lj.
  destruct Hw as [w1 w2 w3 w4].
  assert (Hsz : size (mkR (swap_nth [] i j (W s)) (swap_nth 0 i j (trajs s)) (set_nth j true (locks s)) (locked s) (traj_num s)) = size s).
  { unfold size. cbn. now rewrite set_nth_length. }
  split; [exact Hsz|]. split.
  { constructor; rewrite ?Hsz; cbn [W trajs].
    - now rewrite swap_nth_length.
    - now rewrite swap_nth_length.
    - exact w3.
    - unfold is_locked. cbn [locks]. rewrite is_locked_set by lia.
      destruct (size s - 1 =? j); auto. }
  split; [reflexivity|]. split; [reflexivity|]. split.
  { intros c. unfold is_locked at 1. cbn [locks]. apply is_locked_set. exact Lj. }
  split.
  { intros c. cbn [trajs]. apply nth_swap_nth; lia. }
  { intros a b. unfold wij. cbn [W]. rewrite nth_swap_nth by lia. reflexivity. }
Qed.

(* a pre-invariant with a list of columns that are locked but not yet entered in a job *)
Record InvP (s : rstate) (pend : list nat) : Prop := {
  ip_wf : wf s;
  ip_jobs : forall jb, In jb (locked s) -> job_ok s jb;
  ip_pend : forall c, In c pend -> c < size s - 1 /\ is_locked s c = true /\ wij s c c <> 0%Z;
  ip_nodup : NoDup (cols_of s ++ pend);
  ip_cover : forall c, c < size s - 1 -> is_locked s c = true -> In c (cols_of s ++ pend);
  ip_live : forall a b, a < size s - 1 -> b < size s - 1 ->
            nth a (trajs s) 0 = nth b (trajs s) 0 -> a = b;
  ip_fresh : forall a, a < size s - 1 -> nth a (trajs s) 0 < traj_num s;
  ip_pins : NoDup (map jpin (locked s))
}.

Lemma Inv_InvP s : Inv s <-> InvP s [].
Proof.
  split; intros [a b c d e f g].
  - constructor; auto.
    + intros x [].
    + now rewrite app_nil_r.
    + intros x Hx Hl. rewrite app_nil_r. auto.
  - constructor; auto.
    + now rewrite app_nil_r in d.
    + intros x Hx Hl. specialize (e x Hx Hl). now rewrite app_nil_r in e.
Qed.

Lemma in_cols_of s jb c : In jb (locked s) -> In c (jcols jb) -> In c (cols_of s).
Proof.
  intros Hj Hc. unfold cols_of. apply in_concat. exists (jcols jb). split; auto. now apply in_map.
Qed.

Lemma cols_of_locked s pend c :
  InvP s pend -> In c (cols_of s ++ pend) -> c < size s - 1 /\ is_locked s c = true.
Proof.
  intros I H. apply in_app_or in H as [H|H].
  - unfold cols_of in H. apply in_concat in H as (l & Hl & Hc). apply in_map_iff in Hl as (jb & <- & Hjb).
    apply In_nth_error in Hc as (k & Hk). destruct (ip_jobs _ _ I jb Hjb) as (_ & _ & J).
    destruct (J k c Hk) as (A & B & _). auto.
  - destruct (ip_pend _ _ I c H) as (A & B & _). auto.
Qed.

Lemma take_InvP s pend i j s1 :
  InvP s pend -> is_locked s i = false -> is_locked s j = false -> wij s i j <> 0%Z ->
  take s i j = Some s1 -> InvP s1 (pend ++ [j]).
Proof.
  intros I Hi Hj Hw Ht.
  pose proof (ip_wf _ _ I) as Wf.
  destruct (take_spec s i j s1 Wf Hi Hj Ht) as (Sz & Wf1 & Lk & Tn & HL & HT & HW).
  pose proof (unlocked_real _ _ Wf Hi) as Ri. pose proof (unlocked_real _ _ Wf Hj) as Rj.
  assert (Hold : forall c, is_locked s c = true -> transp i j c = c).
  { intros c Hc. apply transp_other; intros ->; congruence. }
  assert (Hcols : cols_of s1 = cols_of s) by (unfold cols_of; now rewrite Lk).
  constructor.
  - exact Wf1.
  - rewrite Lk. intros jb Hjb. destruct (ip_jobs _ _ I jb Hjb) as (Ne & L & J). split; [exact Ne|]. split; [exact L|].
    intros k c Hk. destruct (J k c Hk) as (A & B & C & D). rewrite Sz, HL, HT, HW, (Hold c B).
    repeat split; auto. destruct (c =? j); auto.
  - intros c Hc. apply in_app_or in Hc as [Hc|[<-|[]]].
    + destruct (ip_pend _ _ I c Hc) as (A & B & D). rewrite Sz, HL, HW, (Hold c B).
      repeat split; auto. destruct (c =? j); auto.
    + rewrite Sz, HL, HW, Nat.eqb_refl. repeat split; auto.
      unfold transp. rewrite Nat.eqb_refl. destruct (j =? i) eqn:E; [apply Nat.eqb_eq in E; subst|]; auto.
  - rewrite Hcols, app_assoc. apply NoDup_app_intro_single.
    + exact (ip_nodup _ _ I).
    + intros Hin. destruct (cols_of_locked _ _ _ I Hin) as (_ & B). congruence.
  - intros c Hc Hl. rewrite Sz in Hc. rewrite HL in Hl. rewrite Hcols, app_assoc.
    destruct (Nat.eqb_spec c j) as [->|Hn].
    + apply in_or_app. right. left. reflexivity.
    + apply in_or_app. left. apply (ip_cover _ _ I); auto.
  - intros a b Ha Hb. rewrite Sz in *. rewrite !HT. intros E.
    apply (ip_live _ _ I) in E; try (apply transp_lt; lia). now apply transp_inj in E.
  - intros a Ha. rewrite Sz in Ha. rewrite HT, Tn. apply (ip_fresh _ _ I). apply transp_lt; lia.
  - rewrite Lk. exact (ip_pins _ _ I).
Qed.

(* ------------------------------------------------------------------ closing a job *)

From Coq Require Import Permutation.

Lemma cols_of_app s jb W' T' L' n' :
  cols_of (mkR W' T' L' (locked s ++ [jb]) n') = cols_of s ++ jcols jb.
Proof. unfold cols_of. cbn [locked]. now rewrite map_app, concat_app; cbn; rewrite app_nil_r. Qed.

Definition add_job (s : rstate) (jb : job) : rstate :=
  mkR (W s) (trajs s) (locks s) (locked s ++ [jb]) (traj_num s).

Lemma close_job s pend cols pin :
  InvP s pend -> Permutation cols pend -> cols <> [] -> ~ In pin (map jpin (locked s)) ->
  Inv (add_job s (mkJob cols (map (fun c => nth c (trajs s) 0) cols) pin)).
Proof.
  intros I Hp Hne Hpin. set (jb := mkJob cols _ pin). unfold add_job.
  constructor; cbn [locked W trajs locks traj_num].
  - destruct (ip_wf _ _ I) as [a b c d]. constructor; auto.
  - intros x Hx. apply in_app_or in Hx as [Hx|[<-|[]]].
    + exact (ip_jobs _ _ I x Hx).
    + split; [exact Hne|]. split; [cbn; now rewrite map_length|].
      intros k c Hk. cbn [jcols jb] in Hk.
      assert (Hin : In c pend) by (eapply Permutation_in; [exact Hp|]; eapply nth_error_In; eauto).
      destruct (ip_pend _ _ I c Hin) as (A & B & D).
      repeat split; auto. cbn [jpaths jb]. rewrite nth_error_map, Hk. reflexivity.
  - rewrite cols_of_app. cbn [jcols jb].
    eapply Permutation_NoDup; [|exact (ip_nodup _ _ I)].
    apply Permutation_app_head. now apply Permutation_sym.
  - intros c Hc Hl. rewrite cols_of_app. cbn [jcols jb].
    pose proof (ip_cover _ _ I c Hc Hl) as H. apply in_app_or in H as [H|H]; apply in_or_app; auto.
    right. eapply Permutation_in; [apply Permutation_sym; exact Hp|exact H].
  - exact (ip_live _ _ I).
  - exact (ip_fresh _ _ I).
  - rewrite map_app. cbn. apply NoDup_app_intro_single; [exact (ip_pins _ _ I)|exact Hpin].
Qed.

Lemma pick_enabled_spec s i j :
  pick_enabled s i j = true -> is_locked s i = false /\ is_locked s j = false /\ wij s i j <> 0%Z.
Proof.
  unfold pick_enabled. intros H. apply andb_true_iff in H as [H C]. apply andb_true_iff in H as [A B].
  apply negb_true_iff in A, B, C. apply Z.eqb_neq in C. auto.
Qed.

Theorem pick_Inv s c pin s' jb :
  Inv s -> ~ In pin (map jpin (locked s)) -> pick s c pin = Some (s', jb) ->
  Inv s' /\ In jb (locked s') /\ jpin jb = pin.
Proof.
  intros I Hpin. unfold pick.
  destruct (pick_enabled s (pk_i c) (pk_j c)) eqn:En; cbn [negb]; [|discriminate].
  destruct (pick_enabled_spec _ _ _ En) as (Ui & Uj & Wn).
  fold (take s (pk_i c) (pk_j c)).
  destruct (take s (pk_i c) (pk_j c)) as [s1|] eqn:T1; [|discriminate].
  apply Inv_InvP in I.
  pose proof (take_InvP _ _ _ _ _ I Ui Uj Wn T1) as I1. cbn [app] in I1.
  destruct (take_spec s _ _ s1 (ip_wf _ _ I) Ui Uj T1) as (Sz & Wf1 & Lk & Tn & HL & HT & HW).
  destruct (pk_zs c) as [k|].
  - destruct (partner (pk_j c)) as [other|] eqn:Pa; [|discriminate].
    destruct (is_locked s1 other) eqn:Lo; [discriminate|].
    destruct (pick_enabled s1 k other) eqn:En2; cbn [negb]; [|discriminate].
    destruct (pick_enabled_spec _ _ _ En2) as (Uk & Uo & Wn2).
    fold (take s1 k other).
    destruct (take s1 k other) as [s2|] eqn:T2; [|discriminate].
    pose proof (take_InvP _ _ _ _ _ I1 Uk Uo Wn2 T2) as I2. cbn [app] in I2.
    destruct (take_spec s1 _ _ s2 Wf1 Uk Uo T2) as (Sz2 & Wf2 & Lk2 & Tn2 & HL2 & HT2 & HW2).
    (* slot j is locked in s1, so the second swap leaves it alone *)
    assert (Hj1 : is_locked s1 (pk_j c) = true) by (rewrite HL, Nat.eqb_refl; reflexivity).
    assert (Hkeep : nth (pk_j c) (trajs s2) 0 = nth (pk_j c) (trajs s1) 0).
    { rewrite HT2. f_equal. apply transp_other; intros E; rewrite <- E in *; congruence. }
    assert (Hpin2 : ~ In pin (map jpin (locked s2))) by (rewrite Lk2, Lk; exact Hpin).
    intros E.
    assert (Hjo : (pk_j c = 1 /\ other = 0) \/ (pk_j c = 0 /\ other = 1)).
    { unfold partner in Pa. destruct (pk_j c) as [|[|]]; inversion Pa; auto. }
    destruct Hjo as [[Ej Eo]|[Ej Eo]]; rewrite Ej in *; subst other; cbn [Nat.eqb] in E;
      injection E as <- <-.
    + pose proof (close_job s2 [1; 0] [0; 1] pin I2 (perm_swap 1 0 []) ltac:(discriminate) Hpin2) as C.
      cbn [map] in C. rewrite Hkeep in C.
      split; [exact C|]. split; [|reflexivity]. cbn. apply in_or_app. right. left. reflexivity.
    + pose proof (close_job s2 [0; 1] [0; 1] pin I2 (Permutation_refl _) ltac:(discriminate) Hpin2) as C.
      cbn [map] in C. rewrite Hkeep in C.
      split; [exact C|]. split; [|reflexivity]. cbn. apply in_or_app. right. left. reflexivity.
  - intros E.
    assert (E' : (add_job s1 (mkJob [pk_j c] [nth (pk_j c) (trajs s1) 0] pin),
                  mkJob [pk_j c] [nth (pk_j c) (trajs s1) 0] pin) = (s', jb)).
    { destruct (partner (pk_j c)); exact (f_equal (fun o => match o with Some x => x | None => (s', jb) end) E). }
    injection E' as <- <-.
    assert (Hpin1 : ~ In pin (map jpin (locked s1))) by (rewrite Lk; exact Hpin).
    pose proof (close_job s1 [pk_j c] [pk_j c] pin I1 (Permutation_refl _) ltac:(discriminate) Hpin1) as C.
    split; [exact C|]. split; [|reflexivity]. cbn. apply in_or_app. right. left. reflexivity.
Qed.

(* ------------------------------------------------------------------ pick_lock *)

Lemma index_of_spec x l k : index_of x l = Some k -> nth k l 0 = x /\ k < length l.
Proof.
  revert k; induction l as [|a l IH]; intros k H; cbn in H; [discriminate|].
  destruct (Nat.eqb_spec a x).
  - injection H as <-. cbn. split; [auto|lia].
  - destruct (index_of x l) as [m|]; [|discriminate]. injection H as <-.
    destruct (IH m eq_refl). cbn. split; [auto|lia].
Qed.

Lemma nth_removelast {A} (l : list A) k d : k < length l - 1 -> nth k (removelast l) d = nth k l d.
Proof.
  revert k; induction l as [|a l IH]; intros k H; cbn in H; [lia|].
  destruct l as [|b l]; [cbn in H; lia|].
  cbn [removelast]. destruct k; [reflexivity|]. cbn [nth]. apply IH. cbn [length] in *. lia.
Qed.

Lemma removelast_length {A} (l : list A) : length (removelast l) = length l - 1.
Proof.
  induction l as [|a l IH]; [reflexivity|]. destruct l as [|b l]; [reflexivity|].
  cbn [removelast length] in *. lia.
Qed.

Lemma pick_lock_entries_InvP s pend cols paths s1 :
  InvP s pend -> pick_lock_entries s cols paths = Some s1 ->
  length cols = length paths ->
  InvP s1 (pend ++ cols) /\ locked s1 = locked s /\
  (forall k c, nth_error cols k = Some c -> nth_error paths k = Some (nth c (trajs s1) 0)).
Proof.
  revert s pend paths s1; induction cols as [|c cr IH]; intros s pend paths s1 I E Hl.
  - destruct paths; [|discriminate]. cbn in E. injection E as <-. rewrite app_nil_r.
    split; [exact I|]. split; [reflexivity|]. intros k c H. destruct k; discriminate.
  - destruct paths as [|p pr]; [discriminate|]. cbn [pick_lock_entries] in E.
    destruct (index_of p (removelast (trajs s))) as [idx|] eqn:Ei; [|discriminate].
    destruct ((wij s idx c =? 0)%Z || is_locked s idx) eqn:G; [discriminate|].
    apply orb_false_iff in G as [G1 G2]. apply Z.eqb_neq in G1.
    fold (take s idx c) in E. destruct (take s idx c) as [s0|] eqn:T; [|discriminate].
    assert (Uc : is_locked s c = false).
    { unfold take, lock in T. destruct (is_locked (swap s idx c) c) eqn:L; [discriminate|]. exact L. }
    pose proof (take_InvP _ _ _ _ _ I G2 Uc G1 T) as I0.
    destruct (take_spec s _ _ s0 (ip_wf _ _ I) G2 Uc T) as (Sz & Wf0 & Lk & Tn & HL & HT & HW).
    cbn [length] in Hl. injection Hl as Hl.
    destruct (IH s0 (pend ++ [c]) pr s1 I0 E Hl) as (I1 & Lk1 & Hp).
    rewrite <- app_assoc in I1. cbn [app] in I1.
    split; [exact I1|]. split; [congruence|].
    intros k c' Hk. destruct k as [|k]; cbn in Hk |- *.
    + injection Hk as <-. f_equal.
      (* slot c keeps path p through the remaining entries, because it stays locked *)
      destruct (index_of_spec _ _ _ Ei) as (Hn & Hlt).
      rewrite removelast_length in Hlt. rewrite nth_removelast in Hn by exact Hlt.
      assert (Hc0 : nth c (trajs s0) 0 = p).
      { rewrite HT. unfold transp. rewrite Nat.eqb_refl.
        destruct (Nat.eqb_spec c idx) as [Eci|Eci]; [rewrite Eci|]; exact Hn. }
      assert (Lc : is_locked s0 c = true) by (rewrite HL, Nat.eqb_refl; reflexivity).
      clear - Hc0 E I0 Lc.
      revert s0 pr I0 E Hc0 Lc. generalize (pend ++ [c]) as pd.
      induction cr as [|c2 cr IHc]; intros pd s0 pr I0 E Hc0 Lc.
      * destruct pr; cbn in E; injection E as <-; auto.
      * destruct pr as [|p2 pr]; [cbn in E; injection E as <-; auto|]. cbn [pick_lock_entries] in E.
        destruct (index_of p2 (removelast (trajs s0))) as [i2|]; [|discriminate].
        destruct ((wij s0 i2 c2 =? 0)%Z || is_locked s0 i2) eqn:G; [discriminate|].
        apply orb_false_iff in G as [G1 G2]. apply Z.eqb_neq in G1.
        fold (take s0 i2 c2) in E. destruct (take s0 i2 c2) as [s3|] eqn:T; [|discriminate].
        assert (Uc2 : is_locked s0 c2 = false).
        { unfold take, lock in T. destruct (is_locked (swap s0 i2 c2) c2) eqn:L; [discriminate|]. exact L. }
        destruct (take_spec s0 _ _ s3 (ip_wf _ _ I0) G2 Uc2 T) as (_ & _ & _ & _ & HL3 & HT3 & _).
        pose proof (take_InvP _ _ _ _ _ I0 G2 Uc2 G1 T) as I3.
        apply (IHc _ s3 pr I3 E).
        -- rewrite HT3, transp_other; [exact Hc0| |]; intros ->; congruence.
        -- rewrite HL3, Lc. destruct (c =? c2); reflexivity.
    + apply Hp. exact Hk.
Qed.

Theorem pick_lock_Inv s cols paths pin s' jb :
  Inv s -> ~ In pin (map jpin (locked s)) -> length cols = length paths -> cols <> [] ->
  pick_lock s cols paths pin = Some (s', jb) ->
  Inv s' /\ In jb (locked s') /\ jpin jb = pin.
Proof.
  intros I Hpin Hl Hne. unfold pick_lock.
  destruct (pick_lock_entries s cols paths) as [s1|] eqn:E; [|discriminate].
  intros H. injection H as <- <-.
  apply Inv_InvP in I.
  destruct (pick_lock_entries_InvP _ _ _ _ _ I E Hl) as (I1 & Lk & Hp). cbn [app] in I1.
  assert (Hpin1 : ~ In pin (map jpin (locked s1))) by (rewrite Lk; exact Hpin).
  pose proof (close_job s1 cols cols pin I1 (Permutation_refl _) Hne Hpin1) as C.
  assert (Hpaths : map (fun c => nth c (trajs s1) 0) cols = paths).
  { apply nth_error_ext. intros k. rewrite nth_error_map.
    destruct (nth_error cols k) as [c|] eqn:Ek; cbn.
    - symmetry. apply Hp. exact Ek.
    - symmetry. apply nth_error_None. apply nth_error_None in Ek. lia. }
  rewrite Hpaths in C. split; [exact C|]. split; [|reflexivity].
  cbn. apply in_or_app. right. left. reflexivity.
Qed.

(* ------------------------------------------------------------------ treat_output *)

Lemma memn_In x l : memn x l = true <-> In x l.
Proof.
  unfold memn. rewrite existsb_exists. split.
  - intros (y & Hy & E). apply Nat.eqb_eq in E. now subst.
  - intros H. exists x. split; auto. apply Nat.eqb_refl.
Qed.

Lemma memn_false x l : memn x l = false <-> ~ In x l.
Proof. rewrite <- memn_In. destruct (memn x l); split; congruence. Qed.

Lemma pop_matching_none pn l :
  (forall j, In j l -> ~ In pn (jpaths j)) -> pop_matching pn l = l.
Proof.
  induction l as [|j r IH]; intros H; cbn; [reflexivity|].
  assert (E : memn pn (jpaths j) = false) by (apply memn_false; apply H; now left).
  rewrite E. f_equal. apply IH. intros x Hx. apply H. now right.
Qed.

Lemma pop_matching_one pn l1 jb l2 :
  (forall j, In j (l1 ++ l2) -> ~ In pn (jpaths j)) -> In pn (jpaths jb) ->
  pop_matching pn (l1 ++ jb :: l2) = l1 ++ l2.
Proof.
  intros H Hin. induction l1 as [|j r IH]; cbn.
  - apply memn_In in Hin. rewrite Hin. destruct l2 as [|j2 r2]; [reflexivity|].
    f_equal. apply pop_matching_none. intros x Hx. apply H. cbn. right. exact Hx.
  - assert (E : memn pn (jpaths j) = false) by (apply memn_false; apply H; now left).
    rewrite E. f_equal. apply IH. intros x Hx. apply H. now right.
Qed.

Lemma job_path_col s pend jb p :
  InvP s pend -> In jb (locked s) -> In p (jpaths jb) ->
  exists c, In c (jcols jb) /\ c < size s - 1 /\ nth c (trajs s) 0 = p.
Proof.
  intros I Hj Hp. destruct (ip_jobs _ _ I jb Hj) as (_ & L & J).
  apply In_nth_error in Hp as (k & Hk).
  assert (Hkl : k < length (jcols jb)) by (rewrite L; apply nth_error_Some; congruence).
  destruct (nth_error (jcols jb) k) as [c|] eqn:Ec; [|apply nth_error_None in Ec; lia].
  destruct (J k c Ec) as (A & B & C & D). exists c. split; [eapply nth_error_In; eauto|].
  split; [exact A|]. congruence.
Qed.

Lemma cols_of_split W' T' L' n' l1 jb l2 :
  cols_of (mkR W' T' L' (l1 ++ jb :: l2) n') =
  concat (map jcols l1) ++ jcols jb ++ concat (map jcols l2).
Proof. unfold cols_of. cbn [locked]. rewrite map_app, concat_app. cbn. reflexivity. Qed.

(* taking a job out of the list leaves its ensembles pending *)
Lemma remove_job s l1 jb l2 tn :
  Inv s -> locked s = l1 ++ jb :: l2 -> traj_num s <= tn ->
  InvP (mkR (W s) (trajs s) (locks s) (l1 ++ l2) tn) (jcols jb).
Proof.
  intros I E Htn. destruct s as [Ws Ts Ls Lk Tn]. cbn [locked] in E. subst Lk.
  pose proof (inv_nodup _ I) as Nd. rewrite cols_of_split in Nd.
  assert (Hperm : Permutation (concat (map jcols l1) ++ jcols jb ++ concat (map jcols l2))
                              ((concat (map jcols l1) ++ concat (map jcols l2)) ++ jcols jb)).
  { rewrite <- app_assoc. apply Permutation_app_head. apply Permutation_app_comm. }
  constructor; cbn [W trajs locks locked traj_num].
  - destruct (inv_wf _ I) as [a b c d]. constructor; auto.
  - intros x Hx. apply (inv_jobs _ I). cbn. apply in_app_or in Hx as [Hx|Hx]; apply in_or_app; auto.
    right. now right.
  - intros c Hc. apply In_nth_error in Hc as (k & Hk).
    assert (Hjb : In jb (locked (mkR Ws Ts Ls (l1 ++ jb :: l2) Tn))) by (cbn; apply in_or_app; right; now left).
    destruct (inv_jobs _ I jb Hjb) as (_ & _ & J). destruct (J k c Hk) as (A & B & _ & D). auto.
  - unfold cols_of. cbn [locked]. rewrite map_app, concat_app.
    eapply Permutation_NoDup; [exact Hperm|exact Nd].
  - intros c Hc Hl. pose proof (inv_cover _ I c Hc Hl) as H. rewrite cols_of_split in H.
    unfold cols_of. cbn [locked]. rewrite map_app, concat_app.
    eapply Permutation_in; [exact Hperm|exact H].
  - exact (inv_live _ I).
  - intros a Ha. pose proof (inv_fresh _ I a Ha). cbn in *. lia.
  - pose proof (inv_pins _ I) as P. cbn [locked] in P. rewrite map_app in *. cbn in P.
    apply NoDup_remove_1 in P. exact P.
Qed.

Lemma in_concat_cols (l : list job) jb c : In jb l -> In c (jcols jb) -> In c (concat (map jcols l)).
Proof. intros Hj Hc. apply in_concat. exists (jcols jb). split; auto. now apply in_map. Qed.

(* no other job contains a path of job jb *)
Lemma other_jobs_disjoint s l1 jb l2 p :
  Inv s -> locked s = l1 ++ jb :: l2 -> In p (jpaths jb) ->
  forall j, In j (l1 ++ l2) -> ~ In p (jpaths j).
Proof.
  intros I E Hp j Hj Hpj.
  assert (I' := proj1 (Inv_InvP s) I).
  assert (Hjb : In jb (locked s)) by (rewrite E; apply in_or_app; right; now left).
  assert (Hj' : In j (locked s)).
  { rewrite E. apply in_app_or in Hj as [Hj|Hj]; apply in_or_app; auto. right. now right. }
  destruct (job_path_col _ _ _ _ I' Hjb Hp) as (c1 & C1 & L1 & P1).
  destruct (job_path_col _ _ _ _ I' Hj' Hpj) as (c2 & C2 & L2 & P2).
  assert (c1 = c2) by (apply (inv_live _ I); auto; congruence). subst c2.
  pose proof (inv_nodup _ I) as Nd. destruct s as [Ws Ts Ls Lk Tn]. cbn [locked] in E. subst Lk.
  rewrite cols_of_split in Nd.
  apply in_app_or in Hj as [Hj|Hj].
  - eapply (NoDup_app_disj _ _ c1 Nd); [eapply in_concat_cols; eauto|]. apply in_or_app. now left.
  - apply NoDup_app_r in Nd. eapply (NoDup_app_disj _ _ c1 Nd); [exact C1|]. eapply in_concat_cols; eauto.
Qed.

Lemma pend_path_free s pend c :
  InvP s pend -> In c pend ->
  forall j, In j (locked s) -> ~ In (nth c (trajs s) 0) (jpaths j).
Proof.
  intros I Hc j Hj Hp.
  destruct (job_path_col _ _ _ _ I Hj Hp) as (c2 & C2 & L2 & P2).
  destruct (ip_pend _ _ I c Hc) as (A & _).
  assert (c2 = c) by (apply (ip_live _ _ I); auto). subst c2.
  eapply (NoDup_app_disj _ _ c (ip_nodup _ _ I)); [eapply in_cols_of; eauto | exact Hc].
Qed.

(* add_traj on a pending ensemble: it becomes idle again *)
Lemma add_traj_InvP s c rest pn row s1 :
  InvP s (c :: rest) -> add_traj s c pn row = Some s1 ->
  (pn = nth c (trajs s) 0 \/ (forall a, a < size s - 1 -> nth a (trajs s) 0 < pn) /\ pn < traj_num s) ->
  InvP s1 rest /\ locked s1 = locked s /\ traj_num s1 = traj_num s /\ size s1 = size s /\
  is_locked s1 c = false /\ wij s1 c c <> 0%Z /\ nth c (trajs s1) 0 = pn.
Proof.
  intros I E Hpn. unfold add_traj in E.
  destruct (nth c row 0%Z =? 0)%Z eqn:Ez; [discriminate|]. apply Z.eqb_neq in Ez.
  destruct (ip_pend _ _ I c (or_introl eq_refl)) as (Cl & Lc & _).
  unfold unlock, is_locked in E. cbn [locks] in E. fold (is_locked s c) in E. rewrite Lc in E.
  injection E as <-.
  destruct (ip_wf _ _ I) as [w1 w2 w3 w4].
  assert (Hc : c < size s) by lia.
  assert (Hsz : size (mkR (set_nth c row (W s)) (set_nth c pn (trajs s)) (set_nth c false (locks s)) (locked s) (traj_num s)) = size s).
  { unfold size. cbn. now rewrite set_nth_length. }
  assert (HL : forall x, is_locked (mkR (set_nth c row (W s)) (set_nth c pn (trajs s)) (set_nth c false (locks s)) (locked s) (traj_num s)) x
                         = if x =? c then false else is_locked s x).
  { intros x. unfold is_locked at 1. cbn [locks]. apply is_locked_set. exact Hc. }
  assert (HT : forall x, nth x (set_nth c pn (trajs s)) 0 = if x =? c then pn else nth x (trajs s) 0).
  { intros x. apply nth_set_nth. lia. }
  assert (HW : forall a b, wij (mkR (set_nth c row (W s)) (set_nth c pn (trajs s)) (set_nth c false (locks s)) (locked s) (traj_num s)) a b
                           = if a =? c then nth b row 0%Z else wij s a b).
  { intros a b. unfold wij. cbn [W]. rewrite nth_set_nth by lia. destruct (a =? c); reflexivity. }
  pose proof (ip_nodup _ _ I) as Nd.
  assert (Hcnot : ~ In c (cols_of s ++ rest)).
  { intros H. apply in_app_or in H as [H|H].
    - eapply (NoDup_app_disj _ _ c Nd); [exact H|now left].
    - apply NoDup_app_r in Nd. inversion Nd; auto. }
  split; [|repeat split; auto].
  - constructor; rewrite ?Hsz; cbn [locked traj_num trajs].
    + constructor; rewrite ?Hsz; cbn [W trajs]; rewrite ?set_nth_length; auto.
      rewrite HL. destruct (Nat.eqb_spec (size s - 1) c); [lia|exact w4].
    + intros jb Hjb. destruct (ip_jobs _ _ I jb Hjb) as (Ne & L & J). split; [exact Ne|]. split; [exact L|].
      intros k x Hk. destruct (J k x Hk) as (A & B & C & D).
      assert (x <> c). { intros ->. apply Hcnot. apply in_or_app. left. eapply in_cols_of; eauto. eapply nth_error_In; eauto. }
      rewrite Hsz, HL, HT, HW. destruct (Nat.eqb_spec x c); [lia|]. auto.
    + intros x Hx. destruct (ip_pend _ _ I x (or_intror Hx)) as (A & B & D).
      assert (x <> c). { intros ->. apply Hcnot. apply in_or_app. now right. }
      rewrite HL, HW. destruct (Nat.eqb_spec x c); [lia|]. auto.
    + unfold cols_of in *. cbn [locked].
      apply (NoDup_remove_1 _ _ _ Nd).
    + intros x Hx Hl. rewrite HL in Hl. destruct (Nat.eqb_spec x c); [discriminate|].
      pose proof (ip_cover _ _ I x Hx Hl) as H. unfold cols_of in *. cbn [locked].
      apply in_app_or in H as [H|[H|H]]; apply in_or_app; auto. lia.
    + intros a b Ha Hb. rewrite !HT.
      destruct (Nat.eqb_spec a c) as [->|Na]; destruct (Nat.eqb_spec b c) as [->|Nb]; auto.
      * intros E. destruct Hpn as [->|[F _]]; [apply (ip_live _ _ I); auto|]. specialize (F b Hb). lia.
      * intros E. destruct Hpn as [->|[F _]]; [apply (ip_live _ _ I); auto|]. specialize (F a Ha). lia.
      * apply (ip_live _ _ I); auto.
    + intros a Ha. rewrite HT. destruct (Nat.eqb_spec a c) as [->|Na].
      * destruct Hpn as [->|[_ F]]; [apply (ip_fresh _ _ I); auto|exact F].
      * apply (ip_fresh _ _ I); auto.
    + exact (ip_pins _ _ I).
  - rewrite HL, Nat.eqb_refl. reflexivity.
  - rewrite HW, Nat.eqb_refl. exact Ez.
  - cbn [trajs]. rewrite HT, Nat.eqb_refl. reflexivity.
Qed.

Lemma InvP_bump s pend :
  InvP s pend -> InvP (mkR (W s) (trajs s) (locks s) (locked s) (S (traj_num s))) pend.
Proof.
  intros [a b c d e f g h]. constructor; auto.
  - destruct a as [a1 a2 a3 a4]. constructor; auto.
  - intros x Hx. specialize (g x Hx). cbn in *. lia.
Qed.

(* one ensemble of the finishing job, the job already being out of the list *)
Lemma treat_one_pending s c rest p acc row s1 :
  InvP s (c :: rest) -> p = nth c (trajs s) 0 ->
  treat_one s (mkRes c p acc row) = Some s1 ->
  InvP s1 rest /\ locked s1 = locked s /\ size s1 = size s /\ traj_num s <= traj_num s1 /\
  is_locked s1 c = false /\ wij s1 c c <> 0%Z.
Proof.
  intros I Hp E. unfold treat_one in E. cbn [r_pn_old r_acc r_col r_row] in E.
  assert (Hpop : pop_matching p (locked s) = locked s).
  { apply pop_matching_none. subst p. apply (pend_path_free _ _ _ I). now left. }
  rewrite Hpop in E. destruct acc.
  - pose proof (InvP_bump _ _ I) as Ib.
    destruct (add_traj_InvP _ _ _ _ _ _ Ib E) as (I1 & A & B & C & D & F & _).
    { right. cbn [trajs traj_num]. split; [|lia]. intros a Ha. apply (ip_fresh _ _ I). exact Ha. }
    cbn [locked traj_num] in A, B. unfold size in C. cbn [locks] in C. fold (size s) in C. fold (size s1) in C.
    split; [exact I1|]. split; [exact A|]. split; [exact C|]. split; [lia|]. split; [exact D|exact F].
  - destruct s as [Ws Ts Ls Lk Tn]. cbn [W trajs locks locked traj_num] in *.
    destruct (add_traj_InvP _ _ _ _ _ _ I E) as (I1 & A & B & C & D & F & _).
    { left. exact Hp. }
    cbn [locked traj_num] in A, B.
    split; [exact I1|]. split; [exact A|]. split; [exact C|]. split; [lia|]. split; [exact D|exact F].
Qed.

(* the first ensemble: the job is popped from the list *)
Lemma treat_one_first s l1 jb l2 c cr p pr acc row s1 :
  Inv s -> locked s = l1 ++ jb :: l2 -> jcols jb = c :: cr -> jpaths jb = p :: pr ->
  treat_one s (mkRes c p acc row) = Some s1 ->
  InvP s1 cr /\ locked s1 = l1 ++ l2 /\ size s1 = size s /\ traj_num s <= traj_num s1 /\
  is_locked s1 c = false /\ wij s1 c c <> 0%Z.
Proof.
  intros I E Hc Hp T.
  assert (Hin : In p (jpaths jb)) by (rewrite Hp; now left).
  assert (Hpop : pop_matching p (locked s) = l1 ++ l2).
  { rewrite E. apply pop_matching_one; auto. eapply other_jobs_disjoint; eauto. }
  pose proof (remove_job s l1 jb l2 (traj_num s) I E (le_n _)) as Ir. rewrite Hc in Ir.
  assert (Hjb : In jb (locked s)) by (rewrite E; apply in_or_app; right; now left).
  destruct (inv_jobs _ I jb Hjb) as (_ & _ & J).
  destruct (J 0 c) as (_ & _ & Pc & _); [rewrite Hc; reflexivity|].
  rewrite Hp in Pc. cbn in Pc. injection Pc as Pc.
  set (s0 := mkR (W s) (trajs s) (locks s) (l1 ++ l2) (traj_num s)) in *.
  assert (T0 : treat_one s0 (mkRes c p acc row) = Some s1).
  { unfold treat_one in *. cbn [r_pn_old r_acc r_col r_row] in *. rewrite Hpop in T.
    cbn [s0 W trajs locks locked traj_num].
    rewrite pop_matching_none; [exact T|].
    intros j Hj. eapply other_jobs_disjoint; eauto. }
  destruct (treat_one_pending s0 c cr p acc row s1 Ir Pc T0) as (A & B & C & D & F & G).
  cbn [s0 locked traj_num] in B, D. unfold size in C. cbn [s0 locks] in C. fold (size s) in C. fold (size s1) in C.
  split; [exact A|]. split; [exact B|]. split; [exact C|]. split; [exact D|]. split; [exact F|exact G].
Qed.

Lemma treat_results_pending s cols paths acc rows s1 :
  InvP s cols -> (forall k c, nth_error cols k = Some c -> nth_error paths k = Some (nth c (trajs s) 0)) ->
  length paths = length cols -> length rows = length cols ->
  treat_results s (results_of cols paths acc rows) = Some s1 ->
  InvP s1 [] /\ locked s1 = locked s /\ size s1 = size s /\ traj_num s <= traj_num s1.
Proof.
  revert s paths rows s1; induction cols as [|c cr IH]; intros s paths rows s1 I Hp Lp Lr T.
  - cbn in T. injection T as <-. split; [exact I|]. split; [reflexivity|]. split; [reflexivity|]. apply le_n.
  - destruct paths as [|p pr]; [discriminate|]. destruct rows as [|w wr]; [discriminate|].
    cbn [results_of treat_results] in T.
    destruct (treat_one s (mkRes c p acc w)) as [s0|] eqn:T1; [|discriminate].
    assert (Pc : p = nth c (trajs s) 0).
    { specialize (Hp 0 c eq_refl). cbn in Hp. congruence. }
    destruct (treat_one_pending _ _ _ _ _ _ _ I Pc T1) as (I0 & A & B & C & D & F).
    (* the remaining pending ensembles still hold their paths *)
    assert (Hp0 : forall k x, nth_error cr k = Some x -> nth_error pr k = Some (nth x (trajs s0) 0)).
    { intros k x Hk. specialize (Hp (S k) x Hk). cbn in Hp. rewrite Hp. f_equal.
      clear - T1 I Hk. unfold treat_one in T1. cbn [r_pn_old r_acc r_col r_row] in T1.
      assert (x <> c).
      { pose proof (ip_nodup _ _ I) as Nd. apply NoDup_app_r in Nd. inversion Nd as [|? ? Hn _]; subst.
        intros ->. apply Hn. eapply nth_error_In; eauto. }
      assert (Hlen : c < length (trajs s)).
      { destruct (ip_pend _ _ I c (or_introl eq_refl)) as (A & _). rewrite (wf_T _ (ip_wf _ _ I)). lia. }
      destruct acc; unfold add_traj in T1; cbn [W trajs locks locked traj_num] in T1;
        destruct (nth c w 0%Z =? 0)%Z; try discriminate;
        unfold unlock in T1; destruct (is_locked _ c); try discriminate;
        injection T1 as <-; cbn [trajs]; rewrite nth_set_nth by exact Hlen;
        destruct (Nat.eqb_spec x c); [lia|reflexivity|lia|reflexivity]. }
    cbn [length] in Lp, Lr. injection Lp as Lp. injection Lr as Lr.
    destruct (IH s0 pr wr s1 I0 Hp0 Lp Lr T) as (I1 & A1 & B1 & C1).
    split; [exact I1|]. split; [congruence|]. split; [congruence|]. lia.
Qed.


Theorem treat_results_Inv s k jb acc rows s1 :
  Inv s -> nth_error (locked s) k = Some jb ->
  length rows = length (jcols jb) ->
  treat_results s (results_of (jcols jb) (jpaths jb) acc rows) = Some s1 ->
  Inv s1 /\ size s1 = size s /\ traj_num s <= traj_num s1 /\
  (exists l1 l2, locked s = l1 ++ jb :: l2 /\ locked s1 = l1 ++ l2).
Proof.
  intros I Hk Lr T.
  destruct (nth_error_split _ _ Hk) as (l1 & l2 & E & _).
  assert (Hjb : In jb (locked s)) by (rewrite E; apply in_or_app; right; now left).
  destruct (inv_jobs _ I jb Hjb) as (Ne & L & J).
  destruct (jcols jb) as [|c cr] eqn:Ec; [congruence|].
  destruct (jpaths jb) as [|p pr] eqn:Ep; [discriminate|].
  destruct rows as [|w wr]; [discriminate|].
  cbn [results_of treat_results] in T.
  destruct (treat_one s (mkRes c p acc w)) as [s0|] eqn:T1; [|discriminate].
  destruct (treat_one_first s l1 jb l2 c cr p pr acc w s0 I E Ec Ep T1) as (I0 & A & B & C & D & F).
  assert (Hp0 : forall k x, nth_error cr k = Some x -> nth_error pr k = Some (nth x (trajs s0) 0)).
  { intros k0 x Hk0. destruct (J (S k0) x Hk0) as (X1 & X2 & X3 & X4). cbn in X3. rewrite X3. f_equal.
    clear - T1 I Hk0 Ec X1 Hjb E. unfold treat_one in T1. cbn [r_pn_old r_acc r_col r_row] in T1.
    assert (x <> c).
    { pose proof (inv_nodup _ I) as Nd. intros ->.
      destruct s as [Ws Ts Ls Lk Tn]. cbn [locked] in E. subst Lk. rewrite cols_of_split, Ec in Nd.
      apply NoDup_app_r, NoDup_app_l in Nd. inversion Nd as [|? ? Hn _]; subst.
      apply Hn. eapply nth_error_In; eauto. }
    assert (Hlen : c < length (trajs s)).
    { destruct (inv_jobs _ I jb Hjb) as (_ & _ & J). destruct (J 0 c) as (A & _); [rewrite Ec; reflexivity|].
      rewrite (wf_T _ (inv_wf _ I)). lia. }
    destruct acc; unfold add_traj in T1; cbn [W trajs locks locked traj_num] in T1;
      destruct (nth c w 0%Z =? 0)%Z; try discriminate;
      unfold unlock in T1; destruct (is_locked _ c); try discriminate;
      injection T1 as <-; cbn [trajs]; rewrite nth_set_nth by exact Hlen;
      destruct (Nat.eqb_spec x c); [lia|reflexivity|lia|reflexivity]. }
  cbn [length] in L, Lr. injection L as L. injection Lr as Lr.
  destruct (treat_results_pending s0 cr pr acc wr s1 I0 Hp0 (eq_sym L) Lr T) as (I1 & A1 & B1 & C1).
  split; [apply Inv_InvP; exact I1|]. split; [congruence|]. split; [lia|].
  exists l1, l2. split; [exact E|congruence].
Qed.

(* ------------------------------------------------------------------ sort_trajstate *)

Lemma swap_Inv s a b :
  Inv s -> is_locked s a = false -> is_locked s b = false -> Inv (swap s a b).
Proof.
  intros I Ua Ub.
  pose proof (inv_wf _ I) as Wf. destruct Wf as [w1 w2 w3 w4].
  pose proof (unlocked_real _ _ (inv_wf _ I) Ua) as Ra. pose proof (unlocked_real _ _ (inv_wf _ I) Ub) as Rb.
  assert (Hold : forall c, is_locked s c = true -> transp a b c = c).
  { intros c Hc. apply transp_other; intros ->; congruence. }
  assert (HT : forall c, nth c (trajs (swap s a b)) 0 = nth (transp a b c) (trajs s) 0).
  { intros c. cbn [swap trajs]. apply nth_swap_nth; lia. }
  assert (HW : forall x y, wij (swap s a b) x y = wij s (transp a b x) y).
  { intros x y. unfold wij. cbn [swap W]. rewrite nth_swap_nth by lia. reflexivity. }
  constructor; unfold size in *; cbn [swap locks locked traj_num] in *.
  - constructor; unfold size; cbn [swap W trajs locks]; rewrite ?swap_nth_length; auto.
  - intros jb Hjb. destruct (inv_jobs _ I jb Hjb) as (Ne & L & J). split; [exact Ne|]. split; [exact L|].
    intros k c Hk. destruct (J k c Hk) as (A & B & C & D).
    unfold is_locked in *. cbn [swap locks]. rewrite HT, HW, (Hold c B). auto.
  - exact (inv_nodup _ I).
  - exact (inv_cover _ I).
  - intros x y Hx Hy. rewrite !HT. intros E.
    apply (inv_live _ I) in E; try (apply transp_lt; unfold size; lia). now apply transp_inj in E.
  - intros x Hx. rewrite HT. apply (inv_fresh _ I). apply transp_lt; unfold size; lia.
  - exact (inv_pins _ I).
Qed.

Lemma find_first_spec {A} (f : nat -> A -> bool) l : forall i k d,
  find_first f i l = Some k -> i <= k < i + length l /\ f k (nth (k - i) l d) = true.
Proof.
  induction l as [|a l IH]; intros i k d H; cbn in H; [discriminate|].
  destruct (f i a) eqn:E.
  - injection H as <-. cbn. rewrite Nat.sub_diag. split; [lia|exact E].
  - apply (IH _ _ d) in H as (A1 & A2). cbn [length]. split; [lia|].
    replace (k - i) with (S (k - S i)) by lia. exact A2.
Qed.

Lemma locked_diag_nonzero s c : Inv s -> c < size s - 1 -> is_locked s c = true -> wij s c c <> 0%Z.
Proof.
  intros I Hc Hl. pose proof (inv_cover _ I c Hc Hl) as H.
  unfold cols_of in H. apply in_concat in H as (l & Hl1 & Hc1). apply in_map_iff in Hl1 as (jb & <- & Hjb).
  apply In_nth_error in Hc1 as (k & Hk). destruct (inv_jobs _ I jb Hjb) as (_ & _ & J).
  destruct (J k c Hk) as (_ & _ & _ & D). exact D.
Qed.

Lemma first_bad_spec s e : Inv s -> first_bad s = Some e -> e < size s - 1 /\ wij s e e = 0%Z /\ is_locked s e = false.
Proof.
  intros I H. unfold first_bad in H. apply (find_first_spec _ _ _ _ []) in H as (A & B).
  rewrite removelast_length, (wf_W _ (inv_wf _ I)) in A. rewrite Nat.sub_0_r in B.
  rewrite nth_removelast in B by (rewrite (wf_W _ (inv_wf _ I)); lia).
  apply Z.eqb_eq in B. assert (Hw : wij s e e = 0%Z) by exact B.
  split; [lia|]. split; [exact Hw|].
  destruct (is_locked s e) eqn:L; [|reflexivity].
  exfalso. apply (locked_diag_nonzero s e I); auto. lia.
Qed.

Lemma sort_step_Inv s e s1 : Inv s -> first_bad s = Some e -> sort_step s e = Some s1 ->
  Inv s1 /\ size s1 = size s /\ locked s1 = locked s /\ traj_num s1 = traj_num s /\ locks s1 = locks s.
Proof.
  intros I Hb H. destruct (first_bad_spec _ _ I Hb) as (He & _ & Ue).
  unfold sort_step in H.
  destruct (find_first _ 1 _) as [z|]; [|discriminate].
  destruct (find_first _ 0 (removelast (W s))) as [t|] eqn:Ft; [|discriminate].
  injection H as <-.
  apply (find_first_spec _ _ _ _ []) in Ft as (A & B). apply andb_true_iff in B as [_ B].
  apply negb_true_iff in B.
  split; [apply swap_Inv; auto|]. cbn. auto.
Qed.

Theorem sort_loop_Inv fuel : forall s it s1 n,
  Inv s -> sort_loop fuel s it = SortOk s1 n ->
  Inv s1 /\ size s1 = size s /\ locked s1 = locked s /\ traj_num s1 = traj_num s /\
  locks s1 = locks s /\ first_bad s1 = None.
Proof.
  induction fuel as [|f IH]; intros s it s1 n I H; cbn in H.
  - destruct (first_bad s) eqn:Fb; [discriminate|]. injection H as <- <-. auto 10.
  - destruct (first_bad s) as [e|] eqn:Fb.
    + destruct (sort_step s e) as [s0|] eqn:St; [|discriminate].
      destruct (sort_step_Inv _ _ _ I Fb St) as (I0 & A & B & C & D).
      destruct (IH _ _ _ _ I0 H) as (I1 & A1 & B1 & C1 & D1 & E1).
      split; [exact I1|]. split; [congruence|]. split; [congruence|]. split; [congruence|].
      split; [congruence|exact E1].
    + injection H as <- <-. auto 10.
Qed.

(* after a successful sort every idle live path sits in an ensemble where its weight is
   non-zero *)
Lemma first_bad_none s : Inv s -> first_bad s = None -> forall c, c < size s - 1 -> wij s c c <> 0%Z.
Proof.
  intros I H c Hc. unfold first_bad in H.
  assert (G : forall (l : list (list Z)) i, find_first (fun i row => (nth i row 0 =? 0)%Z) i l = None ->
              forall k, k < length l -> nth (i + k) (nth k l []) 0%Z <> 0%Z).
  { induction l as [|a l IHl]; intros i Hn k Hk; cbn in Hk; [lia|]. cbn in Hn.
    destruct (nth i a 0 =? 0)%Z eqn:E; [discriminate|]. apply Z.eqb_neq in E.
    destruct k; [rewrite Nat.add_0_r; exact E|]. cbn [nth]. replace (i + S k) with (S i + k) by lia.
    apply IHl; auto. lia. }
  specialize (G _ 0 H c). rewrite removelast_length, (wf_W _ (inv_wf _ I)) in G.
  specialize (G Hc). rewrite nth_removelast in G by (rewrite (wf_W _ (inv_wf _ I)); lia). exact G.
Qed.

(* ------------------------------------------------------------------ whole runs *)

Definition InvF (f : fstate) : Prop := Inv (core f).

Theorem step_Inv f o f' : InvF f -> step f o = Some f' -> InvF f'.
Proof.
  unfold InvF. intros I H. destruct o as [c pin|cols paths pin|k acc rows P]; cbn [step] in H.
  - destruct (memn pin (map jpin (locked (core f)))) eqn:M; [discriminate|]. apply memn_false in M.
    destruct (pick (core f) c pin) as [[s' jb]|] eqn:Pk; [|discriminate]. cbn in H. injection H as <-.
    cbn. eapply pick_Inv; eauto.
  - destruct (memn pin (map jpin (locked (core f)))) eqn:M; [discriminate|]. apply memn_false in M.
    destruct ((length cols =? length paths) && negb (length cols =? 0)) eqn:G; cbn [negb] in H; [|discriminate].
    apply andb_true_iff in G as [G1 G2]. apply Nat.eqb_eq in G1. apply negb_true_iff, Nat.eqb_neq in G2.
    destruct (pick_lock (core f) cols paths pin) as [[s' jb]|] eqn:Pk; [|discriminate]. cbn in H. injection H as <-.
    cbn. eapply pick_lock_Inv; eauto. intros ->. apply G2. reflexivity.
  - destruct (nth_error (locked (core f)) k) as [jb|] eqn:Hk; [|discriminate].
    destruct ((length rows =? length (jcols jb)) && (length (jpaths jb) =? length (jcols jb))) eqn:G; cbn [negb] in H; [|discriminate].
    apply andb_true_iff in G as [G1 G2]. apply Nat.eqb_eq in G1.
    unfold treat_output in H.
    destruct (treat_results (core f) _) as [s1|] eqn:T; [|discriminate].
    destruct (treat_results_Inv _ _ _ _ _ _ I Hk G1 T) as (I1 & _).
    destruct (credit s1 P 0 _ _) as [fr2|]; [|discriminate].
    destruct (if acc then _ else _) as [fr3 dt].
    unfold sort_trajstate in H.
    destruct (sort_loop _ s1 0) as [s2 n| |] eqn:S; try discriminate.
    injection H as <-. cbn [core]. eapply sort_loop_Inv; eauto.
Qed.

Theorem run_Inv ops : forall f f', InvF f -> run f ops = Some f' -> InvF f'.
Proof.
  induction ops as [|o r IH]; intros f f' I H; cbn in H.
  - injection H as <-. exact I.
  - destruct (step f o) as [f1|] eqn:S; [|discriminate]. eapply IH; [|exact H]. eapply step_Inv; eauto.
Qed.

(* consequences used by the property statements *)

Lemma job_cols_disjoint s j1 j2 a b c :
  Inv s -> nth_error (locked s) a = Some j1 -> nth_error (locked s) b = Some j2 ->
  In c (jcols j1) -> In c (jcols j2) -> a = b.
Proof.
  intros I Ha Hb H1 H2. pose proof (inv_nodup _ I) as Nd. unfold cols_of in Nd.
  revert a b Ha Hb Nd. generalize (locked s) as l.
  induction l as [|j l IH]; intros a b Ha Hb Nd; [destruct a; discriminate|].
  cbn [map concat] in Nd.
  destruct a as [|a]; destruct b as [|b]; cbn in Ha, Hb; auto.
  - injection Ha as ->. exfalso. eapply (NoDup_app_disj _ _ c Nd); [exact H1|].
    eapply in_concat_cols; [eapply nth_error_In; eauto|exact H2].
  - injection Hb as ->. exfalso. eapply (NoDup_app_disj _ _ c Nd); [exact H2|].
    eapply in_concat_cols; [eapply nth_error_In; eauto|exact H1].
  - f_equal. apply IH; auto. now apply NoDup_app_r in Nd.
Qed.

Lemma job_paths_disjoint s j1 j2 a b p :
  Inv s -> nth_error (locked s) a = Some j1 -> nth_error (locked s) b = Some j2 ->
  In p (jpaths j1) -> In p (jpaths j2) -> a = b.
Proof.
  intros I Ha Hb H1 H2. assert (I' := proj1 (Inv_InvP s) I).
  destruct (job_path_col _ _ _ _ I' (nth_error_In _ _ Ha) H1) as (c1 & C1 & L1 & P1).
  destruct (job_path_col _ _ _ _ I' (nth_error_In _ _ Hb) H2) as (c2 & C2 & L2 & P2).
  assert (c1 = c2) by (apply (inv_live _ I); auto; congruence). subst c2.
  eapply job_cols_disjoint; eauto.
Qed.

Lemma busy_iff_held s c :
  Inv s -> c < size s - 1 -> (is_locked s c = true <-> exists jb, In jb (locked s) /\ In c (jcols jb)).
Proof.
  intros I Hc. split.
  - intros Hl. pose proof (inv_cover _ I c Hc Hl) as H. unfold cols_of in H.
    apply in_concat in H as (l & Hl1 & Hc1). apply in_map_iff in Hl1 as (jb & <- & Hjb). eauto.
  - intros (jb & Hjb & Hin). apply In_nth_error in Hin as (k & Hk).
    destruct (inv_jobs _ I jb Hjb) as (_ & _ & J). destruct (J k c Hk) as (_ & B & _). exact B.
Qed.

Lemma lock_spec s e s1 : lock s e = Some s1 ->
  is_locked s e = false /\ locks s1 = set_nth e true (locks s).
Proof.
  unfold lock. destruct (is_locked s e); [discriminate|]. intros H. injection H as <-. auto.
Qed.

Lemma pick_needs_idle s c pin s' jb :
  pick s c pin = Some (s', jb) ->
  is_locked s (pk_i c) = false /\ is_locked s (pk_j c) = false /\ wij s (pk_i c) (pk_j c) <> 0%Z /\
  (pk_zs c <> None -> jcols jb = [0; 1] /\ is_locked s 0 = false /\ is_locked s 1 = false).
Proof.
  intros H. unfold pick in H.
  destruct (pick_enabled s (pk_i c) (pk_j c)) eqn:En; cbn [negb] in H; [|discriminate].
  destruct (pick_enabled_spec _ _ _ En) as (A & B & C).
  split; [exact A|]. split; [exact B|]. split; [exact C|].
  intros Hz. destruct (pk_zs c) as [k|]; [|congruence].
  destruct (lock (swap s (pk_i c) (pk_j c)) (pk_j c)) as [s1|] eqn:L1; [|discriminate].
  destruct (lock_spec _ _ _ L1) as (_ & HL1). cbn [swap locks] in HL1.
  destruct (partner (pk_j c)) as [other|] eqn:Pa; [|discriminate].
  destruct (is_locked s1 other) eqn:Lo; [discriminate|].
  destruct (pick_enabled s1 k other); cbn [negb] in H; [|discriminate].
  destruct (lock (swap s1 k other) other) as [s2|]; [|discriminate].
  unfold is_locked in Lo. rewrite HL1 in Lo.
  pose proof (unlocked_lt _ _ B) as Lj. unfold size in Lj.
  rewrite nth_set_nth in Lo by exact Lj.
  assert (Hjo : (pk_j c = 1 /\ other = 0) \/ (pk_j c = 0 /\ other = 1)).
  { unfold partner in Pa. destruct (pk_j c) as [|[|]]; inversion Pa; auto. }
  destruct Hjo as [[Ej Eo]|[Ej Eo]]; rewrite Ej in *; subst other; cbn [Nat.eqb] in H, Lo;
    injection H as <- <-; cbn [jcols]; auto.
Qed.
