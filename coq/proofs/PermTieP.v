(* np.argsort's order among equal keys is machine dependent (numpy >= 1.25 uses an AVX-512
   sorting network for 64-bit keys, which is not stable).  Bounded, by computation: on every 0/1
   staircase state with up to 4 plus-ensembles and every busy set, EVERY valid pair of argsort
   answers yields the same result as the stable order the model uses. *)
From Coq Require Import ZArith NArith QArith List Bool Arith Lia.
From Inf Require Import model.PermM spec.PermS proofs.PermP.
Import ListNotations.
Open Scope Q_scope.

Fixpoint list_eqb {A} (eqb : A -> A -> bool) (l1 l2 : list A) : bool :=
  match l1, l2 with
  | [], [] => true
  | x :: r1, y :: r2 => eqb x y && list_eqb eqb r1 r2
  | _, _ => false
  end.

Definition omat_eqb (o1 o2 : option matrix) : bool :=
  match o1, o2 with
  | None, None => true
  | Some a, Some b => list_eqb (list_eqb Qeq_bool) a b
  | _, _ => false
  end.

Section Tie.
Variable rp : matrix -> matrix.

Definition tie_case (W : matrix) (locks : list bool) : bool :=
  let mk := minus_keys 1 W locks in
  let pk := pos_keys 1 W locks in
  let ref := inf_retis rp 1 W locks in
  forallb (fun mi =>
    if is_argsort mk mi then
      forallb (fun pi =>
        if is_argsort pk pi then omat_eqb (inf_retis_with rp mi pi 1 W locks) ref else true)
        (lists_over (seq 0 (length pk)) (length pk))
    else true)
    (lists_over (seq 0 (length mk)) (length mk)).

Definition tie_sweep (m : nat) : bool :=
  forallb (fun ks => forallb (fun lk => tie_case (stair_matrix ks) lk) (all_locks m)) (all_supports m).
Definition tie_sweepw (ws : list Q) (m : nat) : bool :=
  forallb (fun rows => forallb (fun lk => tie_case (wstair_matrix rows) lk) (all_locks m)) (all_wstairs ws m).
End Tie.

Lemma is_argsort_length : forall keys idx, is_argsort keys idx = true -> length idx = length keys.
Proof.
  intros keys idx H. unfold is_argsort in H. apply andb_true_iff in H as [H _].
  apply andb_true_iff in H as [H _]. apply Nat.eqb_eq in H. exact H.
Qed.

Lemma tie_case_sound : forall rp W locks mi pi,
  tie_case rp W locks = true ->
  is_argsort (minus_keys 1 W locks) mi = true -> (forall i, In i mi -> (i < length mi)%nat) ->
  is_argsort (pos_keys 1 W locks) pi = true -> (forall i, In i pi -> (i < length pi)%nat) ->
  omat_eqb (inf_retis_with rp mi pi 1 W locks) (inf_retis rp 1 W locks) = true.
Proof.
  intros rp W locks mi pi H Hmi Hmir Hpi Hpir. unfold tie_case in H. cbv zeta in H.
  pose proof (is_argsort_length _ _ Hmi) as Lm. pose proof (is_argsort_length _ _ Hpi) as Lp.
  rewrite forallb_forall in H.
  assert (Im : In mi (lists_over (seq 0 (length (minus_keys 1 W locks))) (length (minus_keys 1 W locks)))).
  { rewrite <- Lm. apply in_lists_over. intros i Hi. apply in_seq. specialize (Hmir i Hi). lia. }
  specialize (H mi Im). rewrite Hmi in H. rewrite forallb_forall in H.
  assert (Ip : In pi (lists_over (seq 0 (length (pos_keys 1 W locks))) (length (pos_keys 1 W locks)))).
  { rewrite <- Lp. apply in_lists_over. intros i Hi. apply in_seq. specialize (Hpir i Hi). lia. }
  specialize (H pi Ip). rewrite Hpi in H. exact H.
Qed.

Lemma tie_sweep_sound : forall rp m, tie_sweep rp m = true ->
  forall ks lk mi pi, length ks = m -> (forall k, In k ks -> (1 <= k <= m)%nat) -> length lk = S m ->
  is_argsort (minus_keys 1 (stair_matrix ks) (lk ++ [true])) mi = true ->
  (forall i, In i mi -> (i < length mi)%nat) ->
  is_argsort (pos_keys 1 (stair_matrix ks) (lk ++ [true])) pi = true ->
  (forall i, In i pi -> (i < length pi)%nat) ->
  omat_eqb (inf_retis_with rp mi pi 1 (stair_matrix ks) (lk ++ [true]))
           (inf_retis rp 1 (stair_matrix ks) (lk ++ [true])) = true.
Proof.
  intros rp m Hs ks lk mi pi Hl Hk Hlk Hmi Hmir Hpi Hpir.
  apply tie_case_sound; try assumption.
  unfold tie_sweep in Hs. rewrite forallb_forall in Hs. specialize (Hs ks (in_all_supports m ks Hl Hk)).
  rewrite forallb_forall in Hs. exact (Hs _ (in_all_locks m lk Hlk)).
Qed.

Lemma tie_sweep_1 : forall rp, tie_sweep rp 1 = true. Proof. intro rp. vm_compute. reflexivity. Qed.
Lemma tie_sweep_2 : forall rp, tie_sweep rp 2 = true. Proof. intro rp. vm_compute. reflexivity. Qed.
Lemma tie_sweep_3 : forall rp, tie_sweep rp 3 = true. Proof. intro rp. vm_compute. reflexivity. Qed.
Lemma tie_sweep_4 : forall rp, tie_sweep rp 4 = true. Proof. intro rp. Time vm_compute. reflexivity. Qed.

Theorem inf_retis_tie_order_independent_4 : forall rp m ks lk mi pi,
  (1 <= m <= 4)%nat ->
  length ks = m -> (forall k, In k ks -> (1 <= k <= m)%nat) ->
  length lk = S m ->
  let W := stair_matrix ks in
  let locks := lk ++ [true] in
  is_argsort (minus_keys 1 W locks) mi = true -> (forall i, In i mi -> (i < length mi)%nat) ->
  is_argsort (pos_keys 1 W locks) pi = true -> (forall i, In i pi -> (i < length pi)%nat) ->
  omat_eqb (inf_retis_with rp mi pi 1 W locks) (inf_retis rp 1 W locks) = true.
Proof.
  intros rp m ks lk mi pi Hm.
  assert (Hs : tie_sweep rp m = true).
  { destruct m as [|[|[|[|[|m]]]]]; try lia;
      [apply tie_sweep_1 | apply tie_sweep_2 | apply tie_sweep_3 | apply tie_sweep_4]. }
  exact (tie_sweep_sound rp m Hs ks lk mi pi).
Qed.

(* the same on weighted staircases (block-wise path), weights in {1,2}, up to 3 plus-ensembles *)
Lemma tie_sweepw_sound : forall rp ws m, tie_sweepw rp ws m = true ->
  forall rows lk mi pi, length rows = m ->
  (forall row, In row rows -> (1 <= length row <= m)%nat /\ (forall w, In w row -> In w ws)) ->
  length lk = S m ->
  is_argsort (minus_keys 1 (wstair_matrix rows) (lk ++ [true])) mi = true ->
  (forall i, In i mi -> (i < length mi)%nat) ->
  is_argsort (pos_keys 1 (wstair_matrix rows) (lk ++ [true])) pi = true ->
  (forall i, In i pi -> (i < length pi)%nat) ->
  omat_eqb (inf_retis_with rp mi pi 1 (wstair_matrix rows) (lk ++ [true]))
           (inf_retis rp 1 (wstair_matrix rows) (lk ++ [true])) = true.
Proof.
  intros rp ws m Hs rows lk mi pi Hl Hr Hlk Hmi Hmir Hpi Hpir.
  apply tie_case_sound; try assumption.
  unfold tie_sweepw in Hs. rewrite forallb_forall in Hs. specialize (Hs rows (in_all_wstairs ws m rows Hl Hr)).
  rewrite forallb_forall in Hs. exact (Hs _ (in_all_locks m lk Hlk)).
Qed.

Lemma tie_sweepw_1 : forall rp, tie_sweepw rp [1; 2] 1 = true. Proof. intro rp. vm_compute. reflexivity. Qed.
Lemma tie_sweepw_2 : forall rp, tie_sweepw rp [1; 2] 2 = true. Proof. intro rp. vm_compute. reflexivity. Qed.
Lemma tie_sweepw_3 : forall rp, tie_sweepw rp [1; 2] 3 = true. Proof. intro rp. Time vm_compute. reflexivity. Qed.

Theorem inf_retis_tie_order_independent_weighted12_3 : forall rp m rows lk mi pi,
  (1 <= m <= 3)%nat ->
  length rows = m ->
  (forall row, In row rows -> (1 <= length row <= m)%nat /\ (forall w, In w row -> In w [1; 2])) ->
  length lk = S m ->
  let W := wstair_matrix rows in
  let locks := lk ++ [true] in
  is_argsort (minus_keys 1 W locks) mi = true -> (forall i, In i mi -> (i < length mi)%nat) ->
  is_argsort (pos_keys 1 W locks) pi = true -> (forall i, In i pi -> (i < length pi)%nat) ->
  omat_eqb (inf_retis_with rp mi pi 1 W locks) (inf_retis rp 1 W locks) = true.
Proof.
  intros rp m rows lk mi pi Hm.
  assert (Hs : tie_sweepw rp [1; 2] m = true).
  { destruct m as [|[|[|[|m]]]]; try lia; [apply tie_sweepw_1 | apply tie_sweepw_2 | apply tie_sweepw_3]. }
  exact (tie_sweepw_sound rp [1; 2] m Hs rows lk mi pi).
Qed.
