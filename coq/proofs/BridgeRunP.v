(* BRIDGE 4 (run level): membership in the reachable family of C02 is an INVARIANT of the runs
   of the REPEX bookkeeping model (model/RepexM.v), so the theorems of proofs/BridgeInfRetisP.v
   hold along whole runs with the matrix P that the model of the code (inf_retis) computes.

     Fam s                   W s = zstair_matrix zrows (integer staircase: [0-] row (1,0,..,0) in slot 0,
                             0 :: ws ++ zeros with ws > 0 in the plus slots, zero ghost row), and
                             at most 12 plus ensembles or one weight per path
     Fam_InFamily            wf s -> Fam s -> exists rows b0 lk', InFamily s rows b0 lk'   (and back:
                             InFamily_Fam, for the two invariant forms of the side condition)
     good_row / op_rows_good the weight rows delivered by a completed job are staircase rows
     step_preserves_Fam      every step (pick, zero swap, pick_lock, treat_output with its re-sorting,
                             accepted or rejected) keeps the state in the family
     run_m_Fam               ... hence every certified run does
     conservation_code_P     C04 over whole runs, P = inf_retis of the state reached by the step
     conservation_code_P_presort
                             the same with P = inf_retis of the state in which the real treat_output
                             computes it (after add_traj, BEFORE sort_trajstate)
     picks_of_code_P_certified, zero_swap_code_P_positive, code_P_positive_pick_accepted
                             positive entries of the code's P = certified picks, in every state reached
   No extra hypothesis was needed for rejected moves (old_rows_good: the old row is well shaped) nor
   for pick_lock (the model refuses a zero weight, and only the [0-] row is non-zero in column 0). *)
From Coq Require Import ZArith NArith QArith List Bool Arith Lia Permutation.
Import ListNotations.
From Inf Require Import model.PermM spec.PermS.
From Inf Require Import base.ListX model.RepexM model.MatchM proofs.RepexP proofs.MatchP proofs.FracP
  proofs.PermMatchP proofs.BridgeMatchP proofs.BridgeFracP proofs.BridgeInfRetisP.
Open Scope nat_scope.

(* ------------------------------------------------------------------ the family on the integer weights *)

Definition zstair_row (m : nat) (ws : list Z) : list Z := (0%Z :: ws) ++ repeat 0%Z (S (m - length ws)).

Definition zminus_row (m : nat) : list Z := 1%Z :: repeat 0%Z (S m).

Definition zstair_matrix (zrows : list (list Z)) : list (list Z) :=
  let m := length zrows in
  (zminus_row m :: map (zstair_row m) zrows) ++ [repeat 0%Z (S (S m))].

Definition zrows_ok (zrows : list (list Z)) : Prop :=
  forall ws, In ws zrows -> 1 <= length ws <= length zrows /\ forall w, In w ws -> (0 < w)%Z.

Definition zuniform (zrows : list (list Z)) : Prop :=
  forall ws, In ws zrows -> exists w, ws = repeat w (length ws).

Definition Fam (s : rstate) : Prop :=
  exists zrows, W s = zstair_matrix zrows /\ zrows_ok zrows /\ (length zrows <= 12 \/ zuniform zrows).

Lemma zstair_matrix_length zrows : length (zstair_matrix zrows) = length zrows + 2.
Proof. unfold zstair_matrix. cbv zeta. rewrite app_length. cbn. rewrite map_length. lia. Qed.

Lemma Fam_size s zrows : wf s -> W s = zstair_matrix zrows -> size s = length zrows + 2.
Proof. intros Wf E. rewrite <- (wf_W _ Wf), E. apply zstair_matrix_length. Qed.

Lemma Fam_W s s' : W s' = W s -> Fam s -> Fam s'.
Proof. intros E (zrows & A & B & C). exists zrows. rewrite E. auto. Qed.

(* ------------------------------------------------------------------ Fam <-> InFamily *)

Lemma map_zstair_row m ws :
  map inject_Z (zstair_row m ws) = stair_row m (map inject_Z ws).
Proof.
  unfold zstair_row, stair_row. rewrite map_app, map_repeat_, map_length. reflexivity.
Qed.

Lemma WQ_zstair zrows :
  map (map inject_Z) (zstair_matrix zrows) = wstair_matrix (map (map inject_Z) zrows).
Proof.
  unfold zstair_matrix, wstair_matrix. cbv zeta. rewrite map_length.
  set (m := length zrows). rewrite map_app. cbn [map app]. f_equal; [|f_equal].
  - unfold zminus_row. cbn [map]. rewrite map_repeat_. reflexivity.
  - rewrite !map_map. apply map_ext. intros ws. apply map_zstair_row.
  - rewrite map_repeat_. reflexivity.
Qed.

Lemma locks_shape (l : list bool) k : length l = k + 2 -> nth (k + 1) l true = true ->
  exists b0 lk', l = b0 :: lk' ++ [true] /\ length lk' = k.
Proof.
  intros Hl Hn. destruct l as [|b0 l]; [cbn in Hl; lia|]. cbn [length] in Hl.
  assert (Hl' : length l = k + 1) by lia. clear Hl.
  replace (k + 1) with (S k) in Hn by lia. cbn [nth] in Hn.
  exists b0. revert k Hl' Hn. induction l as [|a l IH]; intros k Hl Hn; [cbn in Hl; lia|].
  destruct k as [|k].
  - destruct l; [|cbn in Hl; lia]. cbn in Hn. subst a. exists []. auto.
  - cbn [length] in Hl. cbn [nth] in Hn. destruct (IH k ltac:(lia) Hn) as (lk' & E & L).
    injection E as E. exists (a :: lk'). split; [cbn; now rewrite <- E|cbn; lia].
Qed.

Lemma filter_length_le {A} (p : A -> bool) l : length (filter p l) <= length l.
Proof. induction l as [|a l IH]; cbn; [lia|]. destruct (p a); cbn; lia. Qed.

Lemma idle_idx_ghost_le lk' : length (idle_idx (lk' ++ [true])) <= length lk'.
Proof.
  unfold idle_idx. rewrite app_length. cbn [length]. rewrite Nat.add_1_r, seq_S, filter_app. cbn [filter plus].
  rewrite app_nth2 by lia. rewrite Nat.sub_diag. cbn. rewrite app_nil_r.
  etransitivity; [apply filter_length_le|]. now rewrite seq_length.
Qed.

Theorem Fam_InFamily s : wf s -> Fam s -> exists rows b0 lk', InFamily s rows b0 lk'.
Proof.
  intros Wf (zrows & EW & Hok & Hside).
  pose proof (Fam_size s zrows Wf EW) as Sz.
  destruct (locks_shape (locks s) (length zrows)) as (b0 & lk' & EL & Llk).
  { exact Sz. }
  { pose proof (wf_ghost _ Wf) as G. unfold is_locked in G. rewrite Sz in G.
    replace (length zrows + 2 - 1) with (length zrows + 1) in G by lia. exact G. }
  exists (map (map inject_Z) zrows), b0, lk'. constructor.
  - unfold WQ. rewrite EW. apply WQ_zstair.
  - intros row Hin. apply in_map_iff in Hin as (ws & <- & Hin). destruct (Hok ws Hin) as [H1 H2].
    rewrite !map_length. split; [exact H1|]. intros w Hw. apply in_map_iff in Hw as (z & <- & Hz).
    specialize (H2 z Hz). rewrite (Zlt_Qlt 0) in H2. exact H2.
  - exact EL.
  - now rewrite map_length.
  - destruct Hside as [H12|Hu].
    + left. pose proof (idle_idx_ghost_le lk'). lia.
    + right. left. intros row Hin. apply in_map_iff in Hin as (ws & <- & Hin).
      destruct (Hu ws Hin) as (w & E). exists (inject_Z w). rewrite map_length. rewrite E at 1.
      apply map_repeat_.
Qed.

Lemma Qnum_inject_rows (M : list (list Z)) : map (map Qnum) (map (map inject_Z) M) = M.
Proof.
  rewrite map_map. rewrite <- (map_id M) at 2. apply map_ext. intros r.
  rewrite map_map. rewrite <- (map_id r) at 2. apply map_ext. reflexivity.
Qed.

Lemma Qnum_wstair rows : map (map Qnum) (wstair_matrix rows) = zstair_matrix (map (map Qnum) rows).
Proof.
  unfold zstair_matrix, wstair_matrix. cbv zeta. rewrite map_length.
  set (m := length rows). rewrite map_app. cbn [map app]. f_equal; [|f_equal].
  - unfold zminus_row. cbn [map]. rewrite map_repeat_. reflexivity.
  - rewrite !map_map. apply map_ext. intros ws. unfold zstair_row, stair_row.
    rewrite map_app, map_repeat_, map_length. reflexivity.
  - rewrite map_repeat_. reflexivity.
Qed.

(* conversely: a state of the family of BridgeInfRetisP with at most 12 plus ensembles, or with one
   weight per path, satisfies the integer-level predicate *)
Theorem InFamily_Fam s rows b0 lk' :
  InFamily s rows b0 lk' -> length rows <= 12 \/ rows_uniform rows -> Fam s.
Proof.
  intros F Hside. exists (map (map Qnum) rows). split; [|split].
  - rewrite <- (Qnum_inject_rows (W s)). fold (WQ s). rewrite (fam_W _ _ _ _ F). apply Qnum_wstair.
  - intros ws Hin. apply in_map_iff in Hin as (row & <- & Hin).
    destruct (fam_rows _ _ _ _ F row Hin) as [H1 H2]. rewrite !map_length. split; [exact H1|].
    intros w Hw. apply in_map_iff in Hw as (q & <- & Hq). specialize (H2 q Hq).
    unfold Qlt in H2. cbn in H2. lia.
  - rewrite map_length. destruct Hside as [H|Hu]; [now left|right].
    intros ws Hin. apply in_map_iff in Hin as (row & <- & Hin). destruct (Hu row Hin) as (w & E).
    exists (Qnum w). rewrite map_length. rewrite E at 1. apply map_repeat_.
Qed.

(* ------------------------------------------------------------------ rows of the integer staircase matrix *)

Lemma set_nth_app_l {A} c (x : A) l r : c < length l -> set_nth c x (l ++ r) = set_nth c x l ++ r.
Proof.
  revert c; induction l as [|a l IH]; intros c H; cbn in H; [lia|].
  destruct c; cbn; [reflexivity|]. rewrite IH by lia. reflexivity.
Qed.

Lemma set_nth_map {A B} (f : A -> B) c y l : set_nth c (f y) (map f l) = map f (set_nth c y l).
Proof. revert c; induction l as [|a l IH]; intros [|c]; cbn; auto. now rewrite IH. Qed.

Lemma set_nth_same {A} i (l : list A) d : set_nth i (nth i l d) l = l.
Proof. revert i; induction l as [|a l IH]; intros [|i]; cbn; auto. now rewrite IH. Qed.

Lemma swap_nth_same {A} (d : A) i l : swap_nth d i i l = l.
Proof.
  unfold swap_nth. rewrite (set_nth_same i l d). apply set_nth_same.
Qed.

Lemma in_set_nth {A} c (x y : A) l : In y (set_nth c x l) -> y = x \/ In y l.
Proof.
  revert c; induction l as [|a l IH]; intros [|c] H; cbn in H; try contradiction.
  - destruct H as [<-|H]; [now left|right; now right].
  - destruct H as [<-|H]; [right; now left|]. destruct (IH _ H); [now left|right; now right].
Qed.

Lemma in_swap_nth {A} (d : A) i j l y : i < length l -> j < length l -> In y (swap_nth d i j l) -> In y l.
Proof.
  intros Hi Hj H. unfold swap_nth in H. apply in_set_nth in H as [->|H]; [now apply nth_In|].
  apply in_set_nth in H as [->|H]; [now apply nth_In|exact H].
Qed.

Lemma zstair_nth_plus zrows c : c < length zrows ->
  nth (S c) (zstair_matrix zrows) [] = zstair_row (length zrows) (nth c zrows []).
Proof.
  intros H. unfold zstair_matrix. cbv zeta. cbn [app nth].
  rewrite app_nth1 by (now rewrite map_length).
  rewrite (nth_indep _ [] (zstair_row (length zrows) [])) by (now rewrite map_length).
  apply map_nth.
Qed.

Lemma zstair_set_plus zrows c ws : c < length zrows ->
  set_nth (S c) (zstair_row (length zrows) ws) (zstair_matrix zrows) = zstair_matrix (set_nth c ws zrows).
Proof.
  intros H. unfold zstair_matrix. cbv zeta. rewrite set_nth_length. cbn [app set_nth]. f_equal.
  rewrite set_nth_app_l by (now rewrite map_length). now rewrite set_nth_map.
Qed.

Lemma zstair_set_minus zrows :
  set_nth 0 (zminus_row (length zrows)) (zstair_matrix zrows) = zstair_matrix zrows.
Proof. reflexivity. Qed.

Lemma zstair_swap zrows i j : i < length zrows -> j < length zrows ->
  swap_nth [] (S i) (S j) (zstair_matrix zrows) = zstair_matrix (swap_nth [] i j zrows).
Proof.
  intros Hi Hj. unfold swap_nth at 1. rewrite !zstair_nth_plus by assumption.
  rewrite zstair_set_plus by assumption.
  replace (length zrows) with (length (set_nth j (nth i zrows []) zrows)) at 1 by apply set_nth_length.
  rewrite zstair_set_plus by (now rewrite set_nth_length). reflexivity.
Qed.

Lemma zrows_ok_set zrows c ws : zrows_ok zrows -> 1 <= length ws <= length zrows ->
  (forall w, In w ws -> (0 < w)%Z) -> zrows_ok (set_nth c ws zrows).
Proof.
  intros Hok H1 H2 x Hx. rewrite set_nth_length. apply in_set_nth in Hx as [->|Hx]; [split; assumption|now apply Hok].
Qed.

Lemma zrows_ok_swap zrows i j : i < length zrows -> j < length zrows ->
  zrows_ok zrows -> zrows_ok (swap_nth [] i j zrows).
Proof.
  intros Hi Hj Hok x Hx. rewrite swap_nth_length. apply Hok. exact (in_swap_nth [] i j zrows x Hi Hj Hx).
Qed.

Lemma zuniform_set zrows c ws : zuniform zrows -> (exists w, ws = repeat w (length ws)) ->
  zuniform (set_nth c ws zrows).
Proof. intros Hu H x Hx. apply in_set_nth in Hx as [->|Hx]; [exact H|now apply Hu]. Qed.

Lemma zuniform_swap zrows i j : i < length zrows -> j < length zrows ->
  zuniform zrows -> zuniform (swap_nth [] i j zrows).
Proof. intros Hi Hj Hu x Hx. apply Hu. exact (in_swap_nth [] i j zrows x Hi Hj Hx). Qed.

(* entries: only the [0-] row is non-zero in column 0, and it is zero everywhere else *)
Lemma zstair_col0 zrows r : nth 0 (nth (S r) (zstair_matrix zrows) []) 0%Z = 0%Z.
Proof.
  unfold zstair_matrix. cbv zeta. cbn [app nth].
  destruct (Nat.lt_ge_cases r (length zrows)) as [H|H].
  - rewrite app_nth1 by (now rewrite map_length).
    rewrite (nth_indep _ [] (zstair_row (length zrows) [])) by (now rewrite map_length).
    rewrite map_nth. reflexivity.
  - rewrite app_nth2 by (now rewrite map_length). rewrite map_length.
    destruct (r - length zrows) as [|[|k]]; reflexivity.
Qed.

Lemma zstair_row0 zrows j : nth (S j) (nth 0 (zstair_matrix zrows) []) 0%Z = 0%Z.
Proof.
  unfold zstair_matrix. cbv zeta. cbn [app nth]. unfold zminus_row. cbn [nth].
  rewrite nth_repeat. reflexivity.
Qed.

Lemma zstair_00 zrows : nth 0 (nth 0 (zstair_matrix zrows) []) 0%Z = 1%Z.
Proof. reflexivity. Qed.

(* ------------------------------------------------------------------ swaps *)

(* two idle slots that are both the [0-] slot or both plus slots *)
Lemma swap_Fam0 s i j :
  wf s -> Fam s -> is_locked s i = false -> is_locked s j = false -> (i = 0 <-> j = 0) -> Fam (swap s i j).
Proof.
  intros Wf (zrows & EW & Hok & Hside) Ui Uj H0.
  pose proof (Fam_size s zrows Wf EW) as Sz.
  pose proof (unlocked_real _ _ Wf Ui) as Ri. pose proof (unlocked_real _ _ Wf Uj) as Rj.
  destruct i as [|i]; destruct j as [|j]; try (exfalso; destruct H0 as [A B]; (discriminate (A eq_refl) || discriminate (B eq_refl))).
  - unfold swap. cbn [W]. exists zrows. rewrite swap_nth_same. auto.
  - assert (Hi : i < length zrows) by lia. assert (Hj : j < length zrows) by lia.
    exists (swap_nth [] i j zrows). cbn [swap W]. rewrite EW. split; [now apply zstair_swap|].
    split; [now apply zrows_ok_swap|]. rewrite swap_nth_length.
    destruct Hside as [H|H]; [now left|right; now apply zuniform_swap].
Qed.

Lemma Fam_zero_iff s i j : Fam s -> wij s i j <> 0%Z -> (i = 0 <-> j = 0).
Proof.
  intros (zrows & EW & _) Hw. unfold wij in Hw. rewrite EW in Hw.
  destruct i as [|i]; destruct j as [|j]; split; intros E; try reflexivity; try discriminate; exfalso; apply Hw.
  - apply zstair_row0.
  - apply zstair_col0.
Qed.

(* the swap made by pick / pick_lock: the weight of the moved path in the target ensemble is non-zero *)
Lemma swap_Fam s i j :
  wf s -> Fam s -> is_locked s i = false -> is_locked s j = false -> wij s i j <> 0%Z -> Fam (swap s i j).
Proof. intros Wf F Ui Uj Hw. apply swap_Fam0; auto. exact (Fam_zero_iff s i j F Hw). Qed.

Lemma take_Fam s i j s1 :
  wf s -> Fam s -> is_locked s i = false -> is_locked s j = false -> wij s i j <> 0%Z ->
  take s i j = Some s1 -> Fam s1.
Proof.
  intros Wf F Ui Uj Hw T. pose proof (swap_Fam s i j Wf F Ui Uj Hw) as F1.
  unfold take, lock in T. destruct (is_locked (swap s i j) j); [discriminate|]. injection T as <-.
  eapply Fam_W; [|exact F1]. reflexivity.
Qed.

(* ------------------------------------------------------------------ pick, pick_lock *)

Lemma pick_Fam s c pin s' jb : wf s -> Fam s -> pick s c pin = Some (s', jb) -> Fam s'.
Proof.
  intros Wf F. unfold pick.
  destruct (pick_enabled s (pk_i c) (pk_j c)) eqn:En; cbn [negb]; [|discriminate].
  destruct (pick_enabled_spec _ _ _ En) as (Ui & Uj & Wn).
  fold (take s (pk_i c) (pk_j c)).
  destruct (take s (pk_i c) (pk_j c)) as [s1|] eqn:T1; [|discriminate].
  pose proof (take_Fam _ _ _ _ Wf F Ui Uj Wn T1) as F1.
  destruct (take_spec s _ _ s1 Wf Ui Uj T1) as (_ & Wf1 & _).
  destruct (pk_zs c) as [k|].
  - destruct (partner (pk_j c)) as [other|]; [|discriminate].
    destruct (is_locked s1 other); [discriminate|].
    destruct (pick_enabled s1 k other) eqn:En2; cbn [negb]; [|discriminate].
    destruct (pick_enabled_spec _ _ _ En2) as (Uk & Uo & Wn2).
    fold (take s1 k other). destruct (take s1 k other) as [s2|] eqn:T2; [|discriminate].
    pose proof (take_Fam _ _ _ _ Wf1 F1 Uk Uo Wn2 T2) as F2.
    intros E. injection E as <- _. eapply Fam_W; [|exact F2]. reflexivity.
  - intros E.
    assert (E' : s' = mkR (W s1) (trajs s1) (locks s1) (locked s1 ++ [mkJob [pk_j c] [nth (pk_j c) (trajs s1) 0] pin]) (traj_num s1)).
    { destruct (partner (pk_j c)); injection E as <- _; reflexivity. }
    subst s'. eapply Fam_W; [|exact F1]. reflexivity.
Qed.

Lemma pick_lock_entries_Fam : forall cols paths s s1,
  wf s -> Fam s -> pick_lock_entries s cols paths = Some s1 -> Fam s1.
Proof.
  induction cols as [|c cr IH]; intros [|p pr] s s1 Wf F E; cbn [pick_lock_entries] in E;
    try (injection E as <-; exact F).
  destruct (index_of p (removelast (trajs s))) as [idx|]; [|discriminate].
  destruct ((wij s idx c =? 0)%Z || is_locked s idx) eqn:G; [discriminate|].
  apply orb_false_iff in G as [G1 G2]. apply Z.eqb_neq in G1.
  fold (take s idx c) in E. destruct (take s idx c) as [s0|] eqn:T; [|discriminate].
  assert (Uc : is_locked s c = false).
  { unfold take, lock in T. destruct (is_locked (swap s idx c) c) eqn:L; [discriminate|]. exact L. }
  destruct (take_spec s _ _ s0 Wf G2 Uc T) as (_ & Wf0 & _).
  eapply IH; [exact Wf0| |exact E]. exact (take_Fam s idx c s0 Wf F G2 Uc G1 T).
Qed.

Lemma pick_lock_Fam s cols paths pin s' jb :
  wf s -> Fam s -> pick_lock s cols paths pin = Some (s', jb) -> Fam s'.
Proof.
  intros Wf F. unfold pick_lock.
  destruct (pick_lock_entries s cols paths) as [s1|] eqn:E; [|discriminate].
  intros H. injection H as <- _. eapply Fam_W; [|eapply pick_lock_entries_Fam; eauto]. reflexivity.
Qed.

(* ------------------------------------------------------------------ result rows of a completed job *)

(* the weight row that treat_output installs in ensemble column c of a system of size n
   (n - 2 plus ensembles): the [0-] row for column 0; for a plus column a staircase row with
   positive weights on a non-empty prefix of the plus columns.  Beyond 12 plus ensembles the side
   condition of C02 that is an invariant is "one weight per path". *)
Definition good_row (n c : nat) (row : list Z) : Prop :=
  match c with
  | 0 => row = zminus_row (n - 2)
  | S _ => exists ws, row = zstair_row (n - 2) ws /\ 1 <= length ws <= n - 2 /\
                      (forall w, In w ws -> (0 < w)%Z) /\
                      (14 < n -> exists w, ws = repeat w (length ws))
  end.

Lemma set_row_Fam s c row W' :
  wf s -> Fam s -> c < size s - 1 -> good_row (size s) c row -> W' = set_nth c row (W s) ->
  exists zrows, W' = zstair_matrix zrows /\ zrows_ok zrows /\ (length zrows <= 12 \/ zuniform zrows).
Proof.
  intros Wf (zrows & EW & Hok & Hside) Hc Hg ->.
  pose proof (Fam_size s zrows Wf EW) as Sz. rewrite Sz in Hg, Hc.
  destruct c as [|c]; unfold good_row in Hg;
    replace (length zrows + 2 - 2) with (length zrows) in Hg by lia.
  - subst row. exists zrows. rewrite EW, zstair_set_minus. auto.
  - destruct Hg as (ws & -> & Hl & Hp & Hu). exists (set_nth c ws zrows).
    rewrite EW. split; [apply zstair_set_plus; lia|]. split; [now apply zrows_ok_set|].
    rewrite set_nth_length. destruct (Nat.le_gt_cases (length zrows) 12) as [H12|H12]; [now left|right].
    destruct Hside as [H|H]; [lia|]. apply zuniform_set; [exact H|apply Hu; lia].
Qed.

Lemma treat_one_Fam s r s1 :
  wf s -> Fam s -> r_col r < size s - 1 -> good_row (size s) (r_col r) (r_row r) ->
  treat_one s r = Some s1 -> Fam s1.
Proof.
  intros Wf F Hc Hg T.
  apply (set_row_Fam s (r_col r) (r_row r) (W s1) Wf F Hc Hg).
  unfold treat_one, add_traj, unlock in T.
  destruct (r_acc r); cbn [W trajs locks locked traj_num] in T;
    destruct (nth (r_col r) (r_row r) 0%Z =? 0)%Z; try discriminate;
    destruct (is_locked _ (r_col r)); try discriminate; injection T as <-; reflexivity.
Qed.

Lemma treat_results_Fam : forall rs s s1,
  wf s -> Fam s ->
  (forall r, In r rs -> r_col r < size s - 1 /\ good_row (size s) (r_col r) (r_row r)) ->
  treat_results s rs = Some s1 -> Fam s1.
Proof.
  induction rs as [|r rs IH]; intros s s1 Wf F H T; cbn [treat_results] in T.
  - injection T as <-. exact F.
  - destruct (treat_one s r) as [s0|] eqn:T1; [|discriminate].
    destruct (H r (or_introl eq_refl)) as (Hc & Hg).
    destruct (treat_one_frame s r s0 Wf Hc T1) as (Wf0 & Sz & _).
    apply (IH s0 s1 Wf0); [exact (treat_one_Fam s r s0 Wf F Hc Hg T1)| |exact T].
    intros r' Hr'. rewrite Sz. apply H. now right.
Qed.

Lemma results_of_nth cols paths acc rows r :
  In r (results_of cols paths acc rows) ->
  exists q, nth_error cols q = Some (r_col r) /\ nth_error rows q = Some (r_row r).
Proof.
  revert paths rows; induction cols as [|c cr IH]; intros [|p pr] [|w wr] H; cbn in H; try contradiction.
  destruct H as [<-|H]; [exists 0; split; reflexivity|].
  destruct (IH _ _ H) as (q & A & B). exists (S q). split; assumption.
Qed.

(* a rejected move puts the old path back: the row already sitting in the job's slot is well shaped,
   so the hypothesis on the result rows is automatic for it *)
Lemma Fam_row_good s c : wf s -> Fam s -> c < size s - 1 -> good_row (size s) c (nth c (W s) []).
Proof.
  intros Wf (zrows & EW & Hok & Hside) Hc. pose proof (Fam_size s zrows Wf EW) as Sz.
  rewrite Sz in *. rewrite EW.
  destruct c as [|c]; unfold good_row; replace (length zrows + 2 - 2) with (length zrows) by lia.
  - reflexivity.
  - assert (Hc' : c < length zrows) by lia. rewrite zstair_nth_plus by exact Hc'.
    exists (nth c zrows []). pose proof (nth_In zrows [] Hc') as Hin. destruct (Hok _ Hin) as [A B].
    split; [reflexivity|]. split; [exact A|]. split; [exact B|].
    intros Hn. destruct Hside as [H|H]; [lia|]. now apply H.
Qed.

(* ------------------------------------------------------------------ sort_trajstate *)

Lemma sort_step_Fam s e s1 :
  Inv s -> Fam s -> first_bad s = Some e -> sort_step s e = Some s1 -> Fam s1.
Proof.
  intros I F Hb Hs. destruct (first_bad_spec _ _ I Hb) as (Le & We & Ue).
  unfold sort_step in Hs.
  destruct (find_first _ 1 _) as [z|] eqn:Fz; [|discriminate].
  destruct (find_first _ 0 (removelast (W s))) as [t|] eqn:Ft; [|discriminate].
  injection Hs as <-.
  apply (find_first_spec _ _ _ _ 0%Z) in Fz as (Lz & _).
  apply (find_first_spec _ _ _ _ []) in Ft as (Lt & Pt).
  rewrite Nat.sub_0_r in Pt. rewrite removelast_length in Lt.
  rewrite nth_removelast in Pt by lia.
  apply andb_true_iff in Pt as [Wt Ut]. apply negb_true_iff in Ut. apply negb_true_iff, Z.eqb_neq in Wt.
  assert (Wt' : wij s t z <> 0%Z) by exact Wt.
  apply swap_Fam0; auto; [exact (inv_wf _ I)|].
  pose proof (Fam_zero_iff s t z F Wt') as Ht.
  destruct F as (zrows & EW & _).
  split; intros E.
  - subst e. exfalso. unfold wij in We. rewrite EW in We. rewrite zstair_00 in We. discriminate.
  - apply Ht in E. lia.
Qed.

Lemma sort_loop_Fam fuel : forall s it s1 n,
  Inv s -> Fam s -> sort_loop fuel s it = SortOk s1 n -> Fam s1.
Proof.
  induction fuel as [|f IH]; intros s it s1 n I F H; cbn [sort_loop] in H.
  - destruct (first_bad s); [discriminate|]. injection H as <- _. exact F.
  - destruct (first_bad s) as [e|] eqn:Hb.
    + destruct (sort_step s e) as [s0|] eqn:Hs; [|discriminate].
      eapply IH; [| |exact H].
      * exact (proj1 (sort_step_Inv _ _ _ I Hb Hs)).
      * exact (sort_step_Fam s e s0 I F Hb Hs).
    + injection H as <- _. exact F.
Qed.

(* ------------------------------------------------------------------ one operation *)

Definition op_rows_good (s : rstate) (o : op) : Prop :=
  match o with
  | OpTreat k _ rows _ =>
      forall jb q c row, nth_error (locked s) k = Some jb ->
        nth_error (jcols jb) q = Some c -> nth_error rows q = Some row -> good_row (size s) c row
  | _ => True
  end.

Theorem step_preserves_Fam f o f' :
  InvF f -> Fam (core f) -> op_rows_good (core f) o -> step f o = Some f' -> Fam (core f').
Proof.
  unfold InvF. intros I F Hg H. pose proof (inv_wf _ I) as Wf.
  destruct o as [c pin|cols paths pin|k acc rows P]; cbn [step] in H.
  - destruct (memn pin _); [discriminate|].
    destruct (pick (core f) c pin) as [[s' jb]|] eqn:Pk; [|discriminate]. cbn in H. injection H as <-.
    cbn [core with_core]. exact (pick_Fam _ _ _ _ _ Wf F Pk).
  - destruct (memn pin _); [discriminate|]. destruct (negb _); [discriminate|].
    destruct (pick_lock (core f) cols paths pin) as [[s' jb]|] eqn:Pk; [|discriminate]. cbn in H. injection H as <-.
    cbn [core with_core]. exact (pick_lock_Fam _ _ _ _ _ _ Wf F Pk).
  - destruct (nth_error (locked (core f)) k) as [jb|] eqn:Hk; [|discriminate].
    destruct ((length rows =? length (jcols jb)) && (length (jpaths jb) =? length (jcols jb))) eqn:G; cbn [negb] in H; [|discriminate].
    apply andb_true_iff in G as [G1 G2]. apply Nat.eqb_eq in G1.
    unfold treat_output in H.
    destruct (treat_results (core f) _) as [s1|] eqn:T; [|discriminate].
    destruct (treat_results_Inv _ _ _ _ _ _ I Hk G1 T) as (I1 & _).
    destruct (credit s1 P 0 _ _) as [fr2|]; [|discriminate].
    destruct (if acc then _ else _) as [fr3 dt].
    unfold sort_trajstate in H.
    destruct (sort_loop _ s1 0) as [s2 n| |] eqn:S; try discriminate.
    injection H as <-. cbn [core].
    refine (sort_loop_Fam _ s1 0 s2 n I1 _ S).
    refine (treat_results_Fam _ (core f) s1 Wf F _ T).
    intros r Hr. destruct (results_of_nth _ _ _ _ _ Hr) as (q & A & B).
    assert (Hjb : In jb (locked (core f))) by (eapply nth_error_In; eauto).
    destruct (inv_jobs _ I jb Hjb) as (_ & _ & J). destruct (J q _ A) as (C & _).
    split; [exact C|]. exact (Hg jb q _ _ Hk A B).
Qed.

Lemma old_rows_good s k acc P jb :
  Inv s -> Fam s -> nth_error (locked s) k = Some jb ->
  op_rows_good s (OpTreat k acc (map (fun c => nth c (W s) []) (jcols jb)) P).
Proof.
  intros I F Hk jb' q c row Hjb Hq Hr. rewrite Hk in Hjb. injection Hjb as <-.
  rewrite nth_error_map, Hq in Hr. cbn in Hr. injection Hr as <-.
  assert (Hin : In jb (locked s)) by (eapply nth_error_In; eauto).
  destruct (inv_jobs _ I jb Hin) as (_ & _ & J). destruct (J q c Hq) as (C & _).
  exact (Fam_row_good s c (inv_wf _ I) F C).
Qed.

(* ------------------------------------------------------------------ states of the family: what the code's P is *)

Lemma Fam_state_facts s : wf s -> Matchable s -> Fam s ->
  exists rows b0 lk', InFamily s rows b0 lk' /\ perm_nz s /\ Wnonneg s.
Proof.
  intros Wf M F. destruct (Fam_InFamily s Wf F) as (rows & b0 & lk' & IF).
  exists rows, b0, lk'. pose proof (InFamily_nonneg _ _ _ _ IF) as Hw.
  split; [exact IF|]. split; [|exact Hw]. now apply Matchable_perm_nz.
Qed.

Section Run.
Variable rp : matrix -> matrix.

(* the model of the code returns a matrix on every such state, and it is the exact one *)
Theorem code_P_exists s : wf s -> Matchable s -> Fam s -> idle s <> [] ->
  exists P, inf_retis rp 1 (WQ s) (locks s) = Some P /\ ExactP s P.
Proof.
  intros Wf M F Hi. destruct (Fam_state_facts s Wf M F) as (rows & b0 & lk' & IF & Hnz & _).
  exact (infretis_exact rp s rows b0 lk' IF Hi Hnz).
Qed.

Theorem code_P_exact s P : wf s -> Matchable s -> Fam s ->
  inf_retis rp 1 (WQ s) (locks s) = Some P -> ExactP s P.
Proof.
  intros Wf M F HP. destruct (Fam_state_facts s Wf M F) as (rows & b0 & lk' & IF & Hnz & _).
  exact (infretis_exact_unique rp s rows b0 lk' P IF Hnz HP).
Qed.

Theorem code_P_pos_iff_cert s P i j : wf s -> Matchable s -> Fam s ->
  inf_retis rp 1 (WQ s) (locks s) = Some P -> is_locked s i = false -> is_locked s j = false ->
  ((0 < mget P i j)%Q <-> exists m, take_cert s m i j = true).
Proof.
  intros Wf M F HP Ui Uj. destruct (Fam_state_facts s Wf M F) as (rows & b0 & lk' & IF & Hnz & _).
  exact (infretis_pos_iff_cert rp s rows b0 lk' P i j IF Hnz HP Ui Uj).
Qed.

(* ------------------------------------------------------------------ runs *)

(* every completed job of the run delivers well-shaped weight rows *)
Fixpoint RowsGood (f : fstate) (ops : list (op * list (list nat))) : Prop :=
  match ops with
  | [] => True
  | (o, ws) :: r =>
      op_rows_good (core f) o /\
      match step_m f o ws with None => True | Some f1 => RowsGood f1 r end
  end.

(* every completed step of the run credits the matrix that the model of the code computes on the
   state reached (after add_traj and the re-sorting: busy flags and weights of [core f1]) *)
Fixpoint Pcode (f : fstate) (ops : list (op * list (list nat))) : Prop :=
  match ops with
  | [] => True
  | (o, ws) :: r =>
      match step_m f o ws with
      | None => True
      | Some f1 =>
          match o with
          | OpTreat _ _ _ P => inf_retis rp 1 (WQ (core f1)) (locks (core f1)) = Some P
          | _ => True
          end /\ Pcode f1 r
      end
  end.

Theorem step_m_Fam f o ws f' :
  InvM f -> Fam (core f) -> op_rows_good (core f) o -> step_m f o ws = Some f' ->
  InvM f' /\ Fam (core f').
Proof.
  intros I F Hg H. split; [exact (step_m_InvM f o ws f' I H)|].
  exact (step_preserves_Fam f o f' (proj1 I) F Hg (step_m_step f o ws f' H)).
Qed.

Theorem run_m_Fam : forall ops f fe,
  InvM f -> Fam (core f) -> RowsGood f ops -> run_m f ops = Some fe -> InvM fe /\ Fam (core fe).
Proof.
  induction ops as [|[o ws] r IH]; intros f fe I F G H; cbn [run_m RowsGood] in *.
  - injection H as <-. split; assumption.
  - destruct (step_m f o ws) as [f1|] eqn:S; [|discriminate]. destruct G as [G1 G2].
    destruct (step_m_Fam f o ws f1 I F G1 S) as [I1 F1]. exact (IH f1 fe I1 F1 G2 H).
Qed.

Lemma RowsGood_firstn : forall n ops f, RowsGood f ops -> RowsGood f (firstn n ops).
Proof.
  induction n as [|n IH]; intros [|[o ws] r] f G; cbn [firstn RowsGood] in *; auto.
  destruct G as [G1 G2]. split; [exact G1|]. destruct (step_m f o ws); [now apply IH|exact Logic.I].
Qed.

Corollary run_m_prefix_Fam ops f n f1 :
  InvM f -> Fam (core f) -> RowsGood f ops -> run_m f (firstn n ops) = Some f1 -> InvM f1 /\ Fam (core f1).
Proof. intros I F G H. exact (run_m_Fam _ f f1 I F (RowsGood_firstn n ops f G) H). Qed.

Lemma Pcode_Pexact_m : forall ops f,
  InvM f -> Fam (core f) -> RowsGood f ops -> Pcode f ops -> Pexact_m f ops.
Proof.
  induction ops as [|[o ws] r IH]; intros f I F G H; cbn [Pcode Pexact_m RowsGood] in *; [exact Logic.I|].
  destruct (step_m f o ws) as [f1|] eqn:S; [|exact Logic.I].
  destruct G as [G1 G2]. destruct H as [H1 H2].
  destruct (step_m_Fam f o ws f1 I F G1 S) as [I1 F1].
  split; [|exact (IH f1 I1 F1 G2 H2)].
  destruct o as [? ?|? ? ?|q acc rows P]; try exact Logic.I.
  pose proof (inv_wf _ (proj1 I1)) as Wf1.
  split; [exact (code_P_exact (core f1) P Wf1 (proj2 I1) F1 H1)|].
  destruct (Fam_state_facts (core f1) Wf1 (proj2 I1) F1) as (? & ? & ? & _ & _ & Hw). exact Hw.
Qed.

(* C04 over whole certified runs, the credited matrices being the ones the model of the code computes:
   no hypothesis on P (column sums, row lengths, permanents), no family membership after the start *)
Theorem conservation_code_P : forall ops f fe,
  InvM f -> FInv f -> Fam (core f) -> run_m f ops = Some fe -> Pcode f ops -> RowsGood f ops ->
  forall c f' k, idle_steps c f (map fst ops) = Some (f', k) ->
  (total c f' == total c f + inject_Z (Z.of_nat k))%Q /\ FInv f' /\ InvF f'.
Proof.
  intros ops f fe I Fi F Hr HP HG c f' k Hs.
  exact (conservation_certified ops f fe I Fi Hr (Pcode_Pexact_m ops f I F HG HP) c f' k Hs).
Qed.

(* one completed step, from a state of the family *)
Theorem treat_unit_code_P f k acc rws P f' c :
  InvM f -> FInv f -> Fam (core f) -> op_rows_good (core f) (OpTreat k acc rws P) ->
  step f (OpTreat k acc rws P) = Some f' ->
  inf_retis rp 1 (WQ (core f')) (locks (core f')) = Some P ->
  (total c f' == total c f + if is_locked (core f') c then 0 else 1)%Q.
Proof.
  intros I Fi F Hg H HP.
  assert (Hm : step_m f (OpTreat k acc rws P) [] = Some f') by exact H.
  destruct (step_m_Fam _ _ _ _ I F Hg Hm) as [I1 F1].
  destruct (Fam_InFamily _ (inv_wf _ (proj1 I1)) F1) as (rows & b0 & lk' & IF).
  exact (treat_unit_infretis_matchable rp f k acc rws P f' rows b0 lk' c I Fi H IF HP).
Qed.

(* ------------------------------------------------------------------ picks *)

Lemma step_m_pick_cert f c pin ws f2 :
  step_m f (OpPick c pin) ws = Some f2 ->
  (exists m1, take_cert (core f) m1 (pk_i c) (pk_j c) = true) /\
  is_locked (core f) (pk_i c) = false /\ is_locked (core f) (pk_j c) = false.
Proof.
  intros H. pose proof (step_m_step _ _ _ _ H) as S. cbn [step_m] in H.
  destruct ws as [|m1 rest]; [discriminate|].
  destruct (take_cert (core f) m1 (pk_i c) (pk_j c)) eqn:C1; cbn [negb] in H; [|discriminate].
  split; [now exists m1|]. cbn [step] in S.
  destruct (memn pin _); [discriminate|].
  destruct (pick (core f) c pin) as [[s' jb]|] eqn:Pk; [|discriminate].
  destruct (pick_needs_idle _ _ _ _ _ Pk) as (A & B & _). auto.
Qed.

(* in a certified run from a state of the family: in every state reached, the model of the code
   returns a matrix, that matrix is the exact one, its positive entries over idle slots are exactly
   the pairs that have a certificate, and every pick the run makes there has positive probability *)
Theorem picks_of_code_P_certified : forall ops f n f1,
  InvM f -> Fam (core f) -> RowsGood f ops -> run_m f (firstn n ops) = Some f1 ->
  (idle (core f1) <> [] ->
     exists P, inf_retis rp 1 (WQ (core f1)) (locks (core f1)) = Some P /\ ExactP (core f1) P) /\
  forall P, inf_retis rp 1 (WQ (core f1)) (locks (core f1)) = Some P ->
    (forall i j, is_locked (core f1) i = false -> is_locked (core f1) j = false ->
       ((0 < mget P i j)%Q <-> exists m, take_cert (core f1) m i j = true)) /\
    (forall c pin ws f2, step_m f1 (OpPick c pin) ws = Some f2 -> (0 < mget P (pk_i c) (pk_j c))%Q).
Proof.
  intros ops f n f1 I F G H.
  destruct (run_m_prefix_Fam ops f n f1 I F G H) as [[I1 M1] F1].
  pose proof (inv_wf _ I1) as Wf1.
  split; [exact (code_P_exists (core f1) Wf1 M1 F1)|].
  intros P HP. split.
  - intros i j Ui Uj. exact (code_P_pos_iff_cert (core f1) P i j Wf1 M1 F1 HP Ui Uj).
  - intros c pin ws f2 S. destruct (step_m_pick_cert f1 c pin ws f2 S) as (Hc & Ui & Uj).
    apply (code_P_pos_iff_cert (core f1) P _ _ Wf1 M1 F1 HP Ui Uj). exact Hc.
Qed.

(* the partner of a zero swap is drawn after the first path has been moved and locked: it has positive
   probability under the matrix the code computes on that intermediate state *)
Theorem zero_swap_code_P_positive f c pin ws f2 k :
  InvM f -> Fam (core f) -> step_m f (OpPick c pin) ws = Some f2 -> pk_zs c = Some k ->
  exists s1 other, lock (swap (core f) (pk_i c) (pk_j c)) (pk_j c) = Some s1 /\ partner (pk_j c) = Some other /\
    is_locked s1 k = false /\ is_locked s1 other = false /\
    (idle s1 <> [] /\ exists P1, inf_retis rp 1 (WQ s1) (locks s1) = Some P1) /\
    forall P1, inf_retis rp 1 (WQ s1) (locks s1) = Some P1 -> (0 < mget P1 k other)%Q.
Proof.
  intros [I M] F H Hk. pose proof (step_m_step _ _ _ _ H) as S. pose proof (inv_wf _ I) as Wf.
  cbn [step_m] in H. destruct ws as [|m1 rest]; [discriminate|].
  destruct (take_cert (core f) m1 (pk_i c) (pk_j c)) eqn:C1; cbn [negb] in H; [|discriminate].
  rewrite Hk in H. destruct rest as [|m2 [|? ?]]; try discriminate.
  destruct (lock (swap (core f) (pk_i c) (pk_j c)) (pk_j c)) as [s1|] eqn:T1; [|discriminate].
  destruct (partner (pk_j c)) as [other|] eqn:Pa; [|discriminate].
  destruct (take_cert s1 m2 k other) eqn:C2; [|discriminate].
  cbn [step] in S. destruct (memn pin _); [discriminate|].
  destruct (pick (core f) c pin) as [[s' jb]|] eqn:Pk; [|discriminate].
  destruct (pick_needs_idle _ _ _ _ _ Pk) as (Ui & Uj & Wn & _).
  unfold pick in Pk. destruct (pick_enabled (core f) (pk_i c) (pk_j c)); cbn [negb] in Pk; [|discriminate].
  rewrite T1, Hk, Pa in Pk.
  destruct (is_locked s1 other) eqn:Uo; [discriminate|].
  destruct (pick_enabled s1 k other) eqn:En2; cbn [negb] in Pk; [|discriminate].
  destruct (pick_enabled_spec _ _ _ En2) as (Uk & _ & _).
  apply take_cert_spec in C1 as (Mm1 & E1).
  pose proof (take_matchable (core f) m1 _ _ s1 Wf Mm1 E1 Ui Uj T1) as M1.
  destruct (take_spec (core f) _ _ s1 Wf Ui Uj T1) as (_ & Wf1 & _).
  pose proof (take_Fam _ _ _ _ Wf F Ui Uj Wn T1) as F1.
  exists s1, other. split; [reflexivity|]. split; [reflexivity|]. split; [exact Uk|]. split; [exact Uo|].
  assert (Hid : idle s1 <> []).
  { intros E. assert (Hin : In k (idle s1)) by (apply idle_In; exact Uk). rewrite E in Hin. exact Hin. }
  split.
  - split; [exact Hid|]. destruct (code_P_exists s1 Wf1 M1 F1 Hid) as (P1 & HP1 & _). now exists P1.
  - intros P1 HP1. apply (code_P_pos_iff_cert s1 P1 k other Wf1 M1 F1 HP1 Uk Uo). now exists m2.
Qed.

(* conversely every idle pair with a positive entry in the code's matrix can be taken by a certified pick *)
Theorem code_P_positive_pick_accepted f P i j pin :
  InvM f -> Fam (core f) -> inf_retis rp 1 (WQ (core f)) (locks (core f)) = Some P ->
  is_locked (core f) i = false -> is_locked (core f) j = false -> (0 < mget P i j)%Q ->
  ~ In pin (map jpin (locked (core f))) ->
  exists m f2, step_m f (OpPick (mkPick i j None) pin) [m] = Some f2.
Proof.
  intros [I M] F HP Ui Uj Hpos Hpin. pose proof (inv_wf _ I) as Wf.
  apply (code_P_pos_iff_cert (core f) P i j Wf M F HP Ui Uj) in Hpos as [m Hc].
  exists m. cbn [step_m pk_i pk_j pk_zs]. rewrite Hc. cbn [negb step].
  apply memn_false in Hpin. rewrite Hpin.
  pose proof Hc as Hc'. apply take_cert_spec in Hc' as ([_ Mm] & E). destruct (Mm i Ui) as (_ & B & _). rewrite E in B.
  assert (En : pick_enabled (core f) i j = true).
  { unfold pick_enabled. rewrite Ui, Uj. cbn. now apply negb_true_iff, Z.eqb_neq. }
  assert (exists s1, lock (swap (core f) i j) j = Some s1) as [s1 T].
  { unfold lock. unfold is_locked at 1. cbn [swap locks]. fold (is_locked (core f) j). rewrite Uj. eauto. }
  unfold pick. cbn [pk_i pk_j pk_zs]. rewrite En. cbn [negb]. rewrite T. cbn. eauto.
Qed.

End Run.

(* ------------------------------------------------------------------ the matrix of the real treat_output

   repex.py computes P (the [prob] property) after the add_traj loop and BEFORE sort_trajstate, and
   credits row idx of that matrix to the path sitting in slot idx at that moment; the model's
   [treat_output] credits with the slots of that intermediate state as well.  [Pcode] above (as
   [Pexact], [Pexact_m] and treat_unit_infretis of the other bridge files) names the matrix of the
   state REACHED by the step, i.e. after the re-sorting.  The two states differ by the swaps of idle
   rows made by sort_trajstate, the two matrices by the same row swaps; column sums - all that the
   conservation theorems use - are the same.  The statements below are the ones about the matrix
   the real code credits. *)

Definition treat_mid (f : fstate) (o : op) : option rstate :=
  match o with
  | OpTreat k acc rows _ =>
      match nth_error (locked (core f)) k with
      | Some jb => treat_results (core f) (results_of (jcols jb) (jpaths jb) acc rows)
      | None => None
      end
  | _ => None
  end.

Lemma sort_loop_none fuel s it : first_bad s = None -> sort_loop fuel s it = SortOk s it.
Proof. intros H. destruct fuel; cbn [sort_loop]; now rewrite H. Qed.

Lemma treat_mid_facts f k acc rows P f' :
  InvM f -> Fam (core f) -> op_rows_good (core f) (OpTreat k acc rows P) ->
  step f (OpTreat k acc rows P) = Some f' ->
  exists s1, treat_mid f (OpTreat k acc rows P) = Some s1 /\ Inv s1 /\ Matchable s1 /\ Fam s1 /\
    locks (core f') = locks s1 /\ size (core f') = size s1 /\
    length (trajs (core f')) = length (trajs s1) /\
    (first_bad s1 = None -> core f' = s1).
Proof.
  intros [I M] F Hg H. pose proof (inv_wf _ I) as Wf. cbn [step] in H. cbn [treat_mid].
  destruct (nth_error (locked (core f)) k) as [jb|] eqn:Hk; [|discriminate].
  destruct ((length rows =? length (jcols jb)) && (length (jpaths jb) =? length (jcols jb))) eqn:G; cbn [negb] in H; [|discriminate].
  apply andb_true_iff in G as [G1 G2]. apply Nat.eqb_eq in G1, G2.
  unfold treat_output in H.
  destruct (treat_results (core f) _) as [s1|] eqn:T; [|discriminate].
  destruct (treat_results_Inv _ _ _ _ _ _ I Hk G1 T) as (I1 & _).
  destruct (credit s1 P 0 _ _) as [fr2|]; [|discriminate].
  destruct (if acc then _ else _) as [fr3 dt].
  unfold sort_trajstate in H.
  destruct (sort_loop _ s1 0) as [s2 n| |] eqn:S; try discriminate.
  injection H as <-. cbn [core].
  assert (Hjb : In jb (locked (core f))) by (eapply nth_error_In; eauto).
  destruct (inv_jobs _ I jb Hjb) as (_ & _ & J).
  exists s1. split; [reflexivity|]. split; [exact I1|]. split; [|split].
  - eapply treat_results_matchable; [exact Wf| | |exact M|exact T].
    + rewrite results_of_cols by auto.
      eapply NoDup_concat_part; [exact (inv_nodup _ I)|]. now apply in_map.
    + intros r Hr. apply results_of_in in Hr. apply In_nth_error in Hr as (q & Hq).
      destruct (J q _ Hq) as (A & B & _). auto.
  - refine (treat_results_Fam _ (core f) s1 Wf F _ T).
    intros r Hr. destruct (results_of_nth _ _ _ _ _ Hr) as (q & A & B).
    destruct (J q _ A) as (C & _). split; [exact C|]. exact (Hg jb q _ _ Hk A B).
  - destruct (sort_loop_frame _ _ _ _ _ I1 S) as (A & _ & B & C).
    split; [exact B|]. split; [exact A|]. split; [exact C|].
    intros Hb. rewrite (sort_loop_none _ s1 0 Hb) in S. now injection S as <- _.
Qed.

Lemma Pcols_frame s s' P c :
  locks s' = locks s -> length (trajs s') = length (trajs s) -> Pcols s P c -> Pcols s' P c.
Proof.
  intros HL HT H. unfold Pcols in *.
  rewrite (credited_ext s s' P c (removelast (trajs s)) (removelast (trajs s')) 0 HL)
    by (rewrite !removelast_length; lia).
  unfold is_locked in *. rewrite HL. exact H.
Qed.

Section RunPre.
Variable rp : matrix -> matrix.

(* what the conservation proof needs from the matrix computed before the re-sorting *)
Lemma presort_good f k acc rows P f' s1 c :
  InvM f -> Fam (core f) -> op_rows_good (core f) (OpTreat k acc rows P) ->
  step f (OpTreat k acc rows P) = Some f' ->
  treat_mid f (OpTreat k acc rows P) = Some s1 ->
  inf_retis rp 1 (WQ s1) (locks s1) = Some P ->
  ExactP s1 P /\ Prows (core f') P /\ Pcols (core f') P c.
Proof.
  intros I F Hg H Hm HP.
  destruct (treat_mid_facts f k acc rows P f' I F Hg H) as (s1' & E & I1 & M1 & F1 & HL & HS & HT & _).
  rewrite Hm in E. injection E as <-. pose proof (inv_wf _ I1) as Wf1.
  pose proof (code_P_exact rp s1 P Wf1 M1 F1 HP) as HE.
  destruct (Fam_state_facts s1 Wf1 M1 F1) as (? & ? & ? & _ & _ & Hw).
  split; [exact HE|]. split.
  - intros i Hi. rewrite HS in *. exact (proj1 HE i Hi).
  - apply (Pcols_frame s1 (core f') P c HL HT). now apply ExactP_Pcols_matchable.
Qed.

(* every completed step of the run credits the matrix that the model of the code computes on the
   state in which the real treat_output computes it: after add_traj, before sort_trajstate *)
Fixpoint Pcode_pre (f : fstate) (ops : list (op * list (list nat))) : Prop :=
  match ops with
  | [] => True
  | (o, ws) :: r =>
      match step_m f o ws with
      | None => True
      | Some f1 =>
          match o with
          | OpTreat _ _ _ P =>
              match treat_mid f o with
              | Some s1 => inf_retis rp 1 (WQ s1) (locks s1) = Some P
              | None => True
              end
          | _ => True
          end /\ Pcode_pre f1 r
      end
  end.

Lemma Pcode_pre_Pgood c : forall ops f,
  InvM f -> Fam (core f) -> RowsGood f ops -> run_m f ops <> None -> Pcode_pre f ops ->
  Pgood c f (map fst ops).
Proof.
  induction ops as [|[o ws] r IH]; intros f I F G Hr H; cbn [Pcode_pre Pgood RowsGood map fst run_m] in *;
    [exact Logic.I|].
  destruct (step_m f o ws) as [f1|] eqn:S; [|congruence].
  pose proof (step_m_step _ _ _ _ S) as S'. rewrite S'.
  destruct G as [G1 G2]. destruct H as [H1 H2].
  destruct (step_m_Fam f o ws f1 I F G1 S) as [I1 F1].
  split; [|exact (IH f1 I1 F1 G2 Hr H2)].
  destruct o as [? ?|? ? ?|k acc rows P]; try exact Logic.I.
  destruct (treat_mid_facts f k acc rows P f1 I F G1 S') as (s1 & E & _).
  rewrite E in H1.
  destruct (presort_good f k acc rows P f1 s1 c I F G1 S' E H1) as (_ & A & B). split; assumption.
Qed.

(* C04 over whole certified runs with the matrices of the real treat_output *)
Theorem conservation_code_P_presort : forall ops f fe,
  InvM f -> FInv f -> Fam (core f) -> run_m f ops = Some fe -> Pcode_pre f ops -> RowsGood f ops ->
  forall c f' k, idle_steps c f (map fst ops) = Some (f', k) ->
  (total c f' == total c f + inject_Z (Z.of_nat k))%Q /\ FInv f' /\ InvF f'.
Proof.
  intros ops f fe I Fi F Hr HP HG c f' k Hs.
  apply (conservation c (map fst ops) f f' k (proj1 I) Fi); [|exact Hs].
  apply Pcode_pre_Pgood; auto. congruence.
Qed.

Theorem treat_unit_code_P_presort f k acc rws P f' s1 c :
  InvM f -> FInv f -> Fam (core f) -> op_rows_good (core f) (OpTreat k acc rws P) ->
  step f (OpTreat k acc rws P) = Some f' ->
  treat_mid f (OpTreat k acc rws P) = Some s1 ->
  inf_retis rp 1 (WQ s1) (locks s1) = Some P ->
  (total c f' == total c f + if is_locked (core f') c then 0 else 1)%Q.
Proof.
  intros I Fi F Hg H Hm HP.
  destruct (presort_good f k acc rws P f' s1 c I F Hg H Hm HP) as (_ & A & B).
  exact (treat_conservation_unit f k acc rws P f' c (proj1 I) Fi H A B).
Qed.

(* when the re-sorting has nothing to move the two conventions name the same matrix *)
Lemma Pcode_pre_same f k acc rws P f' s1 :
  InvM f -> Fam (core f) -> op_rows_good (core f) (OpTreat k acc rws P) ->
  step f (OpTreat k acc rws P) = Some f' -> treat_mid f (OpTreat k acc rws P) = Some s1 ->
  first_bad s1 = None -> core f' = s1.
Proof.
  intros I F Hg H Hm Hb.
  destruct (treat_mid_facts f k acc rws P f' I F Hg H) as (s1' & E & _ & _ & _ & _ & _ & _ & Hs).
  rewrite Hm in E. injection E as <-. exact (Hs Hb).
Qed.

End RunPre.

(* ------------------------------------------------------------------ decidable versions (examples, traces) *)

Definition zlist_eqb (a b : list Z) : bool := if list_eq_dec Z.eq_dec a b then true else false.

Lemma zlist_eqb_eq a b : zlist_eqb a b = true -> a = b.
Proof. unfold zlist_eqb. destruct (list_eq_dec Z.eq_dec a b); [auto|discriminate]. Qed.

Fixpoint pos_prefix (l : list Z) : list Z :=
  match l with
  | x :: r => if (0 <? x)%Z then x :: pos_prefix r else []
  | [] => []
  end.

Definition good_rowb (n c : nat) (row : list Z) : bool :=
  match c with
  | 0 => zlist_eqb row (zminus_row (n - 2))
  | S _ =>
      let ws := pos_prefix (tl row) in
      zlist_eqb row (zstair_row (n - 2) ws) && (1 <=? length ws) && (length ws <=? n - 2) &&
      ((n <=? 14) || forallb (Z.eqb (hd 0%Z ws)) ws)
  end.

Lemma pos_prefix_pos l : forall w, In w (pos_prefix l) -> (0 < w)%Z.
Proof.
  induction l as [|x r IH]; intros w H; cbn in H; [contradiction|].
  destruct (0 <? x)%Z eqn:E; [|contradiction]. destruct H as [<-|H]; [now apply Z.ltb_lt|now apply IH].
Qed.

Lemma forallb_eq_repeat w l : forallb (Z.eqb w) l = true -> l = repeat w (length l).
Proof.
  induction l as [|x r IH]; intros H; cbn in *; [reflexivity|].
  apply andb_true_iff in H as [A B]. apply Z.eqb_eq in A. subst x. f_equal. now apply IH.
Qed.

Lemma good_rowb_sound n c row : good_rowb n c row = true -> good_row n c row.
Proof.
  unfold good_rowb, good_row. destruct c as [|c]; [apply zlist_eqb_eq|]. cbv zeta.
  set (ws := pos_prefix (tl row)). intros H.
  apply andb_true_iff in H as [H H4]. apply andb_true_iff in H as [H H3]. apply andb_true_iff in H as [H1 H2].
  apply zlist_eqb_eq in H1. apply Nat.leb_le in H2, H3.
  exists ws. split; [exact H1|]. split; [lia|]. split; [apply pos_prefix_pos|].
  intros Hn. apply orb_true_iff in H4 as [H4|H4]; [apply Nat.leb_le in H4; lia|].
  exists (hd 0%Z ws). now apply forallb_eq_repeat.
Qed.

Fixpoint rows_goodb (n : nat) (cols : list nat) (rows : list (list Z)) : bool :=
  match cols, rows with
  | c :: cr, w :: wr => good_rowb n c w && rows_goodb n cr wr
  | _, _ => true
  end.

Lemma rows_goodb_sound n : forall cols rows, rows_goodb n cols rows = true ->
  forall q c row, nth_error cols q = Some c -> nth_error rows q = Some row -> good_row n c row.
Proof.
  induction cols as [|c0 cr IH]; intros [|w wr] H q c row Hc Hr; try (destruct q; discriminate).
  cbn in H. apply andb_true_iff in H as [A B]. destruct q as [|q]; cbn in Hc, Hr.
  - injection Hc as <-. injection Hr as <-. now apply good_rowb_sound.
  - exact (IH wr B q c row Hc Hr).
Qed.

Definition op_rows_goodb (s : rstate) (o : op) : bool :=
  match o with
  | OpTreat k _ rows _ =>
      match nth_error (locked s) k with
      | Some jb => rows_goodb (size s) (jcols jb) rows
      | None => true
      end
  | _ => true
  end.

Lemma op_rows_goodb_sound s o : op_rows_goodb s o = true -> op_rows_good s o.
Proof.
  destruct o as [? ?|? ? ?|k acc rows P]; try (intros _; exact Logic.I). cbn [op_rows_goodb op_rows_good].
  intros H jb q c row Hjb. rewrite Hjb in H. exact (rows_goodb_sound _ _ _ H q c row).
Qed.

Fixpoint RowsGoodb (f : fstate) (ops : list (op * list (list nat))) : bool :=
  match ops with
  | [] => true
  | (o, ws) :: r =>
      op_rows_goodb (core f) o &&
      match step_m f o ws with None => true | Some f1 => RowsGoodb f1 r end
  end.

Lemma RowsGoodb_sound : forall ops f, RowsGoodb f ops = true -> RowsGood f ops.
Proof.
  induction ops as [|[o ws] r IH]; intros f H; cbn [RowsGoodb RowsGood] in *; [exact Logic.I|].
  apply andb_true_iff in H as [A B]. split; [now apply op_rows_goodb_sound|].
  destruct (step_m f o ws); [now apply IH|exact Logic.I].
Qed.

Definition zrows_okb (zrows : list (list Z)) : bool :=
  forallb (fun ws => (1 <=? length ws) && (length ws <=? length zrows) && forallb (Z.ltb 0) ws) zrows.

(* W s is a staircase matrix with positive weights, at most 12 plus ensembles or one weight per path *)
Definition Famb (s : rstate) : bool :=
  let zrows := map (fun row => pos_prefix (tl row)) (removelast (tl (W s))) in
  (if list_eq_dec (list_eq_dec Z.eq_dec) (W s) (zstair_matrix zrows) then true else false) &&
  zrows_okb zrows &&
  ((length zrows <=? 12) || forallb (fun ws => forallb (Z.eqb (hd 0%Z ws)) ws) zrows).

Lemma Famb_sound s : Famb s = true -> Fam s.
Proof.
  unfold Famb. cbv zeta. set (zrows := map _ _). intros H.
  apply andb_true_iff in H as [H H3]. apply andb_true_iff in H as [H1 H2].
  destruct (list_eq_dec _ (W s) (zstair_matrix zrows)) as [E|]; [|discriminate].
  exists zrows. split; [exact E|]. split.
  - intros ws Hin. unfold zrows_okb in H2. rewrite forallb_forall in H2. specialize (H2 ws Hin).
    apply andb_true_iff in H2 as [H2 C]. apply andb_true_iff in H2 as [A B].
    apply Nat.leb_le in A, B. split; [lia|]. intros w Hw. rewrite forallb_forall in C.
    now apply Z.ltb_lt, C.
  - apply orb_true_iff in H3 as [H3|H3]; [left; now apply Nat.leb_le|right].
    intros ws Hin. rewrite forallb_forall in H3. exists (hd 0%Z ws). apply forallb_eq_repeat. now apply H3.
Qed.

(* ------------------------------------------------------------------ non-vacuity: a run with wire-fencing-like weights *)

(* three plus ensembles, weights (2,1), (1,4,2), (3,2,5).  The run: the path of slot 3 is taken
   for ensemble 1 (the path of slot 1 is parked in slot 3, where its weight is 0); the job
   completes with a new path of weights (4,3) and the re-sorting swaps slots 2 and 3; a zero swap
   takes [0-] and [0+]; a third worker takes ensemble 3 and is rejected; the zero swap completes
   with two new paths.  Every credited matrix is the one inf_retis computes on the state reached
   (non-uniform blocks: the permanent / Glynn branch). *)
Definition run_ex_z : qrow := [0;0;0;0;0]%Q.

Definition run_ex_f0 : fstate :=
  mkFS (mkR [[1;0;0;0;0]; [0;2;1;0;0]; [0;1;4;2;0]; [0;3;2;5;0]; [0;0;0;0;0]]%Z [0;1;2;3;0]
            [false;false;false;false;true] [] 4)
       [(0, run_ex_z); (1, run_ex_z); (2, run_ex_z); (3, run_ex_z)] [] 0.

Definition run_ex_P1 : list qrow :=
  [[1;0;0;0;0]; [0;2#5;3#5;0;0]; [0;3#5;2#5;0;0]; [0;0;0;1;0]; [0;0;0;0;0]]%Q.
Definition run_ex_P2 : list qrow :=
  [[0;0;0;0;0]; [0;0;0;0;0]; [0;0;1;0;0]; [0;0;0;1;0]; [0;0;0;0;0]]%Q.
Definition run_ex_P3 : list qrow :=
  [[1;0;0;0;0]; [0;5#9;4#9;0;0]; [0;4#9;5#9;0;0]; [0;0;0;1;0]; [0;0;0;0;0]]%Q.

Definition run_ex_ops : list (op * list (list nat)) :=
  [(OpPick (mkPick 3 1 None) 0, [[0;2;3;1;0]]);
   (OpTreat 0 true [[0;4;3;0;0]%Z] run_ex_P1, []);
   (OpPick (mkPick 1 1 (Some 0)) 1, [[0;1;2;3;0]; [0;1;2;3;0]]);
   (OpPick (mkPick 3 3 None) 2, [[0;1;2;3;0]]);
   (OpTreat 1 false [[0;1;4;2;0]%Z] run_ex_P2, []);
   (OpTreat 0 true [[1;0;0;0;0]; [0;5;2;0;0]]%Z run_ex_P3, [])].

Lemma run_ex_InvM : InvM run_ex_f0.
Proof.
  split.
  - constructor; cbn.
    + constructor; cbn; auto.
    + intros jb [].
    + constructor.
    + intros c Hc. assert (E : c = 0 \/ c = 1 \/ c = 2 \/ c = 3) by lia. unfold is_locked. cbn.
      destruct E as [-> | [-> | [-> | ->]]]; discriminate.
    + intros a b Ha Hb. assert (Ea : a = 0 \/ a = 1 \/ a = 2 \/ a = 3) by lia.
      assert (Eb : b = 0 \/ b = 1 \/ b = 2 \/ b = 3) by lia.
      destruct Ea as [-> | [-> | [-> | ->]]]; destruct Eb as [-> | [-> | [-> | ->]]]; cbn; intros E;
        try reflexivity; discriminate.
    + intros a Ha. assert (Ea : a = 0 \/ a = 1 \/ a = 2 \/ a = 3) by lia.
      destruct Ea as [-> | [-> | [-> | ->]]]; cbn; lia.
    + constructor.
  - exists [0;1;2;3;0]. apply matb_mat. vm_compute. reflexivity.
Qed.

Lemma run_ex_FInv : FInv run_ex_f0.
Proof.
  constructor; cbn.
  - intros k v [E|[E|[E|[E|[]]]]]; injection E as <- <-; reflexivity.
  - intros k [<-|[<-|[<-|[<-|[]]]]]; lia.
  - repeat constructor; cbn; intuition lia.
Qed.

Lemma run_ex_Fam : Fam (core run_ex_f0).
Proof. apply Famb_sound. vm_compute. reflexivity. Qed.

Lemma run_ex_RowsGood : RowsGood run_ex_f0 run_ex_ops.
Proof. apply RowsGoodb_sound. vm_compute. reflexivity. Qed.

(* the three matrices of the run are what the model of the code computes (random_prob = identity:
   it is never reached) *)
Lemma run_ex_Pcode : Pcode (fun M => M) run_ex_f0 run_ex_ops.
Proof. vm_compute. repeat split. Qed.

Example run_ex_conservation :
  exists fe, run_m run_ex_f0 run_ex_ops = Some fe /\
    Fam (core fe) /\ InvM fe /\
    forall c, c < 4 -> (total c fe == total c run_ex_f0 + if c <? 2 then 2 else 3)%Q.
Proof.
  destruct (run_m run_ex_f0 run_ex_ops) as [fe|] eqn:R; [|vm_compute in R; discriminate].
  exists fe. split; [reflexivity|].
  destruct (run_m_Fam _ _ _ run_ex_InvM run_ex_Fam run_ex_RowsGood R) as [I F].
  split; [exact F|]. split; [exact I|]. intros c Hc.
  assert (Hs : idle_steps c run_ex_f0 (map fst run_ex_ops) = Some (fe, if c <? 2 then 2 else 3)).
  { pose proof R as R'. vm_compute in R'. injection R' as R'. subst fe.
    destruct c as [|[|[|[|c]]]]; [vm_compute; reflexivity ..|lia]. }
  destruct (conservation_code_P (fun M => M) _ _ _ run_ex_InvM run_ex_FInv run_ex_Fam R run_ex_Pcode run_ex_RowsGood
              c fe _ Hs) as (T & _).
  rewrite T. destruct (c <? 2); reflexivity.
Qed.

(* the first pick of the run, (3, 1): its probability in the matrix the code computes on the initial
   state is positive *)
Example run_ex_first_pick :
  exists P, inf_retis (fun M => M) 1 (WQ (core run_ex_f0)) (locks (core run_ex_f0)) = Some P /\
    (0 < mget P 3 1)%Q.
Proof.
  destruct (picks_of_code_P_certified (fun M => M) run_ex_ops run_ex_f0 0 run_ex_f0
              run_ex_InvM run_ex_Fam run_ex_RowsGood eq_refl) as [A B].
  destruct A as (P & HP & _); [vm_compute; discriminate|].
  exists P. split; [exact HP|]. destruct (B P HP) as [_ C].
  destruct (step_m run_ex_f0 (OpPick (mkPick 3 1 None) 0) [[0;2;3;1;0]]) as [f2|] eqn:S;
    [|vm_compute in S; discriminate].
  exact (C _ _ _ f2 S).
Qed.

(* the same run in the convention of the real code: the matrix of the second operation is the one
   computed before the re-sorting (rows 2 and 3 are the other way round) *)
Definition run_ex_P1_pre : list qrow :=
  [[1;0;0;0;0]; [0;2#5;3#5;0;0]; [0;0;0;1;0]; [0;3#5;2#5;0;0]; [0;0;0;0;0]]%Q.

Definition run_ex_ops_pre : list (op * list (list nat)) :=
  [(OpPick (mkPick 3 1 None) 0, [[0;2;3;1;0]]);
   (OpTreat 0 true [[0;4;3;0;0]%Z] run_ex_P1_pre, []);
   (OpPick (mkPick 1 1 (Some 0)) 1, [[0;1;2;3;0]; [0;1;2;3;0]]);
   (OpPick (mkPick 3 3 None) 2, [[0;1;2;3;0]]);
   (OpTreat 1 false [[0;1;4;2;0]%Z] run_ex_P2, []);
   (OpTreat 0 true [[1;0;0;0;0]; [0;5;2;0;0]]%Z run_ex_P3, [])].

Lemma run_ex_RowsGood_pre : RowsGood run_ex_f0 run_ex_ops_pre.
Proof. apply RowsGoodb_sound. vm_compute. reflexivity. Qed.

Lemma run_ex_Pcode_pre : Pcode_pre (fun M => M) run_ex_f0 run_ex_ops_pre.
Proof. vm_compute. repeat split. Qed.

Example run_ex_conservation_presort :
  exists fe, run_m run_ex_f0 run_ex_ops_pre = Some fe /\
    forall c, c < 4 -> (total c fe == total c run_ex_f0 + if c <? 2 then 2 else 3)%Q.
Proof.
  destruct (run_m run_ex_f0 run_ex_ops_pre) as [fe|] eqn:R; [|vm_compute in R; discriminate].
  exists fe. split; [reflexivity|]. intros c Hc.
  assert (Hs : idle_steps c run_ex_f0 (map fst run_ex_ops_pre) = Some (fe, if c <? 2 then 2 else 3)).
  { pose proof R as R'. vm_compute in R'. injection R' as R'. subst fe.
    destruct c as [|[|[|[|c]]]]; [vm_compute; reflexivity ..|lia]. }
  destruct (conservation_code_P_presort (fun M => M) _ _ _ run_ex_InvM run_ex_FInv run_ex_Fam R
              run_ex_Pcode_pre run_ex_RowsGood_pre c fe _ Hs) as (T & _).
  rewrite T. destruct (c <? 2); reflexivity.
Qed.

Print Assumptions Fam_InFamily.
Print Assumptions InFamily_Fam.
Print Assumptions step_preserves_Fam.
Print Assumptions run_m_Fam.
Print Assumptions conservation_code_P.
Print Assumptions treat_unit_code_P.
Print Assumptions picks_of_code_P_certified.
Print Assumptions zero_swap_code_P_positive.
Print Assumptions code_P_positive_pick_accepted.
Print Assumptions run_ex_conservation.
Print Assumptions run_ex_first_pick.
Print Assumptions old_rows_good.
Print Assumptions conservation_code_P_presort.
Print Assumptions treat_unit_code_P_presort.
Print Assumptions run_ex_conservation_presort.
