(* Property C08 over whole histories: the single-step crash-recovery theorem of DiskP.v
   (crash_recovers) is lifted to arbitrary sequences of completed steps, crashes (at any effect
   index, with or without a torn write) and restarts.

   The restart is modelled as a change of the disk ([restart]): setup_config reads restart.toml
   and trim_data_file rewrites the data file without torn rows and without rows of paths the
   record lists as active; nothing else on the disk changes.  [Good need d r] is the invariant
   (the disk-side hypotheses of C08_crash_recovers plus freshness of path numbers), [StepOK r st]
   the step-side hypotheses.  Main results: [complete_good], [crash_restart_good],
   [history_good] and its corollaries, and a concrete history at the end. *)
From Coq Require Import List Bool Arith Lia.
Import ListNotations.
From Inf Require Import base.ListX model.DiskM proofs.DiskP.
Open Scope nat_scope.

(* ------------------------------------------------------------------ list lemmas *)

Lemma NoDup_app_intro {A} (l m : list A) :
  NoDup l -> NoDup m -> (forall x, In x l -> In x m -> False) -> NoDup (l ++ m).
Proof.
  induction l as [|a l IH]; intros Hl Hm Hd; cbn; [exact Hm|].
  inversion Hl as [|? ? Ha Hl']; subst. constructor.
  - intros Hin. apply in_app_or in Hin as [Hin|Hin]; [exact (Ha Hin)|].
    exact (Hd a (or_introl eq_refl) Hin).
  - apply IH; [exact Hl'|exact Hm|]. intros x Hx Hx'. exact (Hd x (or_intror Hx) Hx').
Qed.

Lemma map_fst_tag (l : list nat) : map fst (map (fun pn : nat => (pn, true)) l) = l.
Proof. induction l as [|a l IH]; cbn; [reflexivity|now rewrite IH]. Qed.

Lemma filter_idem {A} (f : A -> bool) (l : list A) : filter f (filter f l) = filter f l.
Proof.
  induction l as [|a l IH]; cbn; [reflexivity|].
  destruct (f a) eqn:E; cbn; [rewrite E, IH; reflexivity|exact IH].
Qed.

Lemma forallb_ext_in' {A} (f g : A -> bool) (l : list A) :
  (forall x, In x l -> f x = g x) -> forallb f l = forallb g l.
Proof.
  induction l as [|a l IH]; intros H; cbn; [reflexivity|].
  rewrite (H a (or_introl eq_refl)), IH; [reflexivity|]. intros x Hx. apply H. now right.
Qed.

Lemma trim_idem a l : trim a (trim a l) = trim a l.
Proof. unfold trim. apply filter_idem. Qed.

Lemma fold_left_last {A B} (f : B -> A -> B) (l : list A) (a : A) (b : B) :
  fold_left f (l ++ [a]) b = f (fold_left f l b) a.
Proof. rewrite fold_left_app. reflexivity. Qed.

(* a crash index at or beyond the end: every effect was carried out *)
Lemma crash_all k t d es : length es <= k -> crash k t d es = apply_list d es.
Proof.
  intros Hk. unfold crash. rewrite firstn_all2 by exact Hk.
  assert (N : nth_error es k = None) by (apply nth_error_None; exact Hk). now rewrite N.
Qed.

Section Run.
  Variable need : nat -> list nat.

  (* ---------------------------------------------------------------- the restart as a disk operation

     setup_config: restart.toml is parsed (a torn file does not parse: the program stops and
     the disk stays as it is); then trim_data_file rewrites the data file (to a temporary file,
     swapped in with os.replace: atomic) keeping the complete rows of paths that are not active
     in the record.  The trimming does not wait for the paths to be loaded, so [restart] does not
     test [loadable].  Files of stored paths are not touched: leftovers of a crashed attempt
     stay until the path number is stored again ([EPut] replaces an existing entry). *)
  Definition restart (d : disk) : disk :=
    match rec d with
    | None => d
    | Some r => if rec_torn d then d
                else mkDisk (files d) (trim (r_active r) (rows d)) (rec d) false
    end.

  (* ---------------------------------------------------------------- the invariant *)

  Record Good (d : disk) (r : rrec) : Prop := mkGood {
    g_rec : rec d = Some r;
    g_whole : rec_torn d = false;
    g_load : forall pn, In pn (r_active r) -> loadable need d pn = true;
    (* every data row is complete and belongs to a path that was live once and is not any more *)
    g_rows : forall x, In x (rows d) -> snd x = true /\ ~ In (fst x) (r_active r) /\ fst x < r_trajnum r;
    (* path numbers are handed out from r_trajnum upwards *)
    g_act : forall pn, In pn (r_active r) -> pn < r_trajnum r;
    g_nodup : NoDup (map fst (rows d))
  }.

  Record StepOK (r : rrec) (st : stepinfo) : Prop := mkStepOK {
    (* new paths are numbered from the traj_num of the record; the new record's traj_num is past them *)
    s_news : forall pn, In pn (news st) -> r_trajnum r <= pn < r_trajnum (rnew st);
    s_mono : r_trajnum r <= r_trajnum (rnew st);
    (* replaced paths are live before and not after, each ensemble has its own path *)
    s_olds : forall pn, In pn (olds st) -> In pn (r_active r) /\ ~ In pn (r_active (rnew st));
    s_olds_nodup : NoDup (olds st);
    (* deletions touch neither record *)
    s_dels : forall x, In x (dels st) -> ~ In (fst x) (r_active r) /\ ~ In (fst x) (r_active (rnew st));
    (* every path of the new record is live before or new *)
    s_act : forall pn, In pn (r_active (rnew st)) -> In pn (r_active r) \/ In pn (news st)
  }.

  (* the two step-dependent hypotheses of C08_crash_recovers that follow from freshness *)
  Lemma news_not_live d r st : Good d r -> StepOK r st ->
    forall pn, In pn (news st) -> ~ In pn (r_active r).
  Proof.
    intros G S pn Hn Ha. pose proof (g_act _ _ G pn Ha). pose proof (s_news _ _ S pn Hn). lia.
  Qed.

  Lemma rows_not_new d r st : Good d r -> StepOK r st ->
    forall x, In x (rows d) -> snd x = true /\ ~ In (fst x) (r_active r) /\ ~ In (fst x) (news st).
  Proof.
    intros G S x Hx. destruct (g_rows _ _ G x Hx) as (A & B & C).
    split; [exact A|]. split; [exact B|]. intros Hn. pose proof (s_news _ _ S _ Hn). lia.
  Qed.

  (* a path that is dead (numbered, not live) stays dead *)
  Lemma dead_stays_dead r st pn : StepOK r st ->
    pn < r_trajnum r -> ~ In pn (r_active r) -> ~ In pn (r_active (rnew st)).
  Proof.
    intros S Hlt Hn Ha. destruct (s_act _ _ S pn Ha) as [H|H]; [exact (Hn H)|].
    pose proof (s_news _ _ S pn H). lia.
  Qed.

  Lemma loadable_files d1 d2 pn : files d1 = files d2 -> loadable need d1 pn = loadable need d2 pn.
  Proof.
    intros E. unfold loadable. apply forallb_ext_in'. intros f _. unfold has. now rewrite E.
  Qed.

  (* what a restart reads from a good disk: its record and all of its rows *)
  Lemma good_recover d r : Good d r -> recover need true d = Some (r, rows d).
  Proof.
    intros G. unfold recover. rewrite (g_rec _ _ G), (g_whole _ _ G).
    assert (F : forallb (loadable need d) (r_active r) = true) by (apply forallb_forall; exact (g_load _ _ G)).
    rewrite F, trim_id; [reflexivity|].
    intros x Hx. destruct (g_rows _ _ G x Hx) as (A & B & _). auto.
  Qed.

  (* restarting from a good disk changes nothing *)
  Lemma good_restart d r : Good d r -> restart d = d.
  Proof.
    intros G. pose proof (g_rec _ _ G) as A. pose proof (g_whole _ _ G) as B.
    assert (T : trim (r_active r) (rows d) = rows d).
    { apply trim_id. intros x Hx. destruct (g_rows _ _ G x Hx) as (P & Q & _). auto. }
    unfold restart. rewrite A, B, T. destruct d as [fs rs rc tn]. cbn in *. now subst.
  Qed.

  (* a second restart (e.g. after a crash during the first one, whose only write is atomic) *)
  Lemma restart_idem d : restart (restart d) = restart d.
  Proof.
    unfold restart. destruct (rec d) as [r|] eqn:E; [|now rewrite E].
    destruct (rec_torn d) eqn:T; [now rewrite E, T|].
    cbn [rec rec_torn files rows]. now rewrite trim_idem.
  Qed.

  (* the invariant only looks at the files of live paths: removing leftovers of a crashed
     attempt (PathStorage.output removes the files in load/<pn>/accepted/ the path stored does
     not refer to, i.e. ids outside [need pn]) is invisible to it *)
  Definition clean_path (pn : nat) (d : disk) : disk :=
    mkDisk (filter (fun x => let '(a, b, _) := x in negb (a =? pn) || existsb (Nat.eqb b) (need pn)) (files d))
           (rows d) (rec d) (rec_torn d).

  Lemma has_clean pn d a f : a <> pn \/ In f (need pn) -> has (clean_path pn d) a f = has d a f.
  Proof.
    intros H. rewrite !has_eq. unfold clean_path. cbn [files].
    induction (files d) as [|[[x y] w] l IH]; [reflexivity|]. cbn [filter].
    destruct (negb (x =? pn) || existsb (Nat.eqb y) (need pn)) eqn:E.
    - cbn [existsb]. now rewrite IH.
    - cbn [existsb]. rewrite IH. apply orb_false_iff in E as (E1 & E2).
      apply negb_false_iff, Nat.eqb_eq in E1. subst x.
      assert (X : hp a f (pn, y, w) = false); [|now rewrite X].
      unfold hp. destruct (Nat.eqb_spec pn a) as [<-|Na]; [|reflexivity].
      destruct (Nat.eqb_spec y f) as [->|Ny]; [|reflexivity]. exfalso.
      destruct H as [H|H]; [now apply H|].
      assert (X : existsb (Nat.eqb f) (need pn) = true); [|congruence].
      apply existsb_exists. exists f. split; [exact H|apply Nat.eqb_refl].
  Qed.

  Lemma loadable_clean pn d a : loadable need (clean_path pn d) a = loadable need d a.
  Proof.
    unfold loadable. apply forallb_ext_in'.
    intros f Hf. apply has_clean. destruct (Nat.eq_dec a pn) as [->|N]; [now right|now left].
  Qed.

  Lemma good_clean pn d r : Good d r -> Good (clean_path pn d) r.
  Proof.
    intros [A B C D E F]. constructor; cbn [clean_path rec rec_torn rows]; auto.
    intros a Ha. rewrite loadable_clean. auto.
  Qed.

  (* ---------------------------------------------------------------- (a) a completed step *)

  Lemma good_after d r st rs fs :
    Good d r -> StepOK r st ->
    (forall pn, In pn (r_active (rnew st)) -> loadable need (mkDisk fs rs (Some (rnew st)) false) pn = true) ->
    rs = rows d ++ map (fun pn => (pn, true)) (olds st) ->
    Good (mkDisk fs rs (Some (rnew st)) false) (rnew st).
  Proof.
    intros G S L ->. constructor; cbn [rec rec_torn rows]; try reflexivity.
    - exact L.
    - intros x Hx. apply in_app_or in Hx as [Hx|Hx].
      + destruct (g_rows _ _ G x Hx) as (A & B & C). split; [exact A|]. split.
        * eapply dead_stays_dead; eauto.
        * pose proof (s_mono _ _ S). lia.
      + apply in_map_iff in Hx as (pn & <- & Hp). cbn [fst snd]. split; [reflexivity|].
        destruct (s_olds _ _ S pn Hp) as (A & B). split; [exact B|].
        pose proof (g_act _ _ G pn A). pose proof (s_mono _ _ S). lia.
    - intros pn Hp. destruct (s_act _ _ S pn Hp) as [H|H].
      + pose proof (g_act _ _ G pn H). pose proof (s_mono _ _ S). lia.
      + pose proof (s_news _ _ S pn H). lia.
    - rewrite map_app, map_fst_tag. apply NoDup_app_intro.
      + exact (g_nodup _ _ G).
      + exact (s_olds_nodup _ _ S).
      + intros pn H1 H2. apply in_map_iff in H1 as (x & <- & Hx).
        destruct (g_rows _ _ G x Hx) as (_ & B & _). exact (B (proj1 (s_olds _ _ S _ H2))).
  Qed.

  Theorem complete_good d r st :
    Good d r -> StepOK r st ->
    let d' := apply_list d (effects need true st) in
    Good d' (rnew st) /\ rows d' = rows d ++ map (fun pn => (pn, true)) (olds st).
  Proof.
    intros G S. cbn zeta.
    destruct (done_disk need d r st (g_load _ _ G) (news_not_live d r st G S) (s_dels _ _ S) (s_act _ _ S))
      as (A & B & C & D).
    split; [|exact D].
    set (d' := apply_list d (effects need true st)) in *.
    assert (E : d' = mkDisk (files d') (rows d') (Some (rnew st)) false).
    { destruct d' as [fs rs rc tn]. cbn in *. now subst. }
    rewrite E. apply (good_after d r st); [exact G|exact S| |exact D].
    intros pn Hp. rewrite <- E. exact (C pn Hp).
  Qed.

  (* ---------------------------------------------------------------- (b) a crash and the restart *)

  Theorem crash_restart_good d r st k t :
    Good d r -> StepOK r st ->
    let es := effects need true st in
    let d'' := restart (crash k t d es) in
    (k < length es /\ Good d'' r /\ rows d'' = rows d) \/
    (length es <= k /\ Good d'' (rnew st) /\ rows d'' = rows d ++ map (fun pn => (pn, true)) (olds st)).
  Proof.
    intros G S. cbn zeta.
    destruct (Nat.lt_ge_cases k (length (effects need true st))) as [Hk|Hk].
    - left. split; [exact Hk|].
      assert (Hk' : k <= length (pre_effects need st) + 1).
      { unfold effects in Hk. rewrite app_length in Hk. cbn in Hk. lia. }
      unfold effects. destruct (crash_tail need d st k t (rnew st) Hk') as (k' & t' & ->).
      destruct (pre_crash_safe need d r st (g_rec _ _ G) (g_whole _ _ G) (g_load _ _ G)
                  (rows_not_new d r st G S) (news_not_live d r st G S) (s_olds _ _ S) (s_dels _ _ S) k' t')
        as (A & B & C & D).
      set (dc := crash k' t' d (pre_effects need st)) in *.
      unfold restart. rewrite A, B, D. cbn [rows]. split; [|reflexivity].
      constructor; cbn [rec rec_torn rows]; try reflexivity.
      + intros pn Hp. rewrite (loadable_files _ dc) by reflexivity. exact (C pn Hp).
      + exact (g_rows _ _ G).
      + exact (g_act _ _ G).
      + exact (g_nodup _ _ G).
    - right. split; [exact Hk|]. rewrite crash_all by exact Hk.
      destruct (complete_good d r st G S) as (G' & R). rewrite (good_restart _ _ G'). auto.
  Qed.

  Lemma restart_recover d r rs : recover need true d = Some (r, rs) ->
    recover need true (restart d) = Some (r, rs) /\ rows (restart d) = rs /\ rec (restart d) = Some r.
  Proof.
    unfold recover, restart. destruct (rec d) as [q|] eqn:Q; [|discriminate].
    destruct (rec_torn d) eqn:T; [discriminate|].
    destruct (forallb (loadable need d) (r_active q)) eqn:F; [|discriminate].
    intros X. injection X as -> <-. cbn [rec rec_torn rows].
    assert (F' : forallb (loadable need (mkDisk (files d) (trim (r_active r) (rows d)) (Some r) false)) (r_active r) = true).
    { rewrite <- F. apply forallb_ext_in'. intros pn _. apply loadable_files. reflexivity. }
    rewrite F', trim_idem. auto.
  Qed.

  (* in the terms of [recover]: what the restart after the crash reads, and what it reads again
     from the disk it leaves behind *)
  Corollary crash_restart_recover d r st k t :
    Good d r -> StepOK r st ->
    let dc := crash k t d (effects need true st) in
    exists r' rs, recover need true dc = Some (r', rs) /\
                  recover need true (restart dc) = Some (r', rs) /\
                  Good (restart dc) r' /\ rows (restart dc) = rs /\
                  ((r' = r /\ rs = rows d) \/
                   (r' = rnew st /\ rs = rows d ++ map (fun pn => (pn, true)) (olds st))).
  Proof.
    intros G S. cbn zeta.
    destruct (crash_recovers need d r st (g_rec _ _ G) (g_whole _ _ G) (g_load _ _ G)
                (rows_not_new d r st G S) (news_not_live d r st G S) (s_olds _ _ S) (s_dels _ _ S)
                (s_act _ _ S) k t) as (r' & rs & R & _).
    exists r', rs. split; [exact R|].
    destruct (restart_recover _ _ _ R) as (R' & E & Q). split; [exact R'|].
    destruct (crash_restart_good d r st k t G S) as [(Hk & G' & E')|(Hk & G' & E')];
      pose proof (g_rec _ _ G') as Q'; rewrite Q in Q'; injection Q' as ->;
      (split; [exact G'|]); (split; [exact E|]); rewrite <- E, E'; auto.
  Qed.

  (* ---------------------------------------------------------------- (c) histories *)

  Inductive event :=
  | Complete (st : stepinfo)                          (* treat_output ran to its end *)
  | CrashRestart (st : stepinfo) (k : nat) (torn : bool).  (* died after k effects, then restarted *)

  Definition step_of (ev : event) : stepinfo :=
    match ev with Complete st | CrashRestart st _ _ => st end.

  (* did the step reach the disk (the swap of restart.toml is its last effect)? *)
  Definition effective (ev : event) : bool :=
    match ev with
    | Complete _ => true
    | CrashRestart st k _ => length (effects need true st) <=? k
    end.

  Definition run_event (d : disk) (ev : event) : disk :=
    match ev with
    | Complete st => apply_list d (effects need true st)
    | CrashRestart st k t => restart (crash k t d (effects need true st))
    end.

  Definition run (d : disk) (evs : list event) : disk := fold_left run_event evs d.

  (* the record the program works from after the event: after a crash that recovered the old
     record the step is done again, from the old record *)
  Definition next_rec (r : rrec) (ev : event) : rrec := if effective ev then rnew (step_of ev) else r.

  Definition final_rec (r : rrec) (evs : list event) : rrec := fold_left next_rec evs r.

  (* every step of the history is a legal step for the record current at that point *)
  Fixpoint HistOK (r : rrec) (evs : list event) : Prop :=
    match evs with
    | [] => True
    | ev :: tl => StepOK r (step_of ev) /\ HistOK (next_rec r ev) tl
    end.

  Definition ev_olds (ev : event) : list nat := if effective ev then olds (step_of ev) else [].
  Definition ev_rows (ev : event) : list (nat * bool) := map (fun pn => (pn, true)) (ev_olds ev).
  Definition hist_rows (evs : list event) : list (nat * bool) := flat_map ev_rows evs.

  Lemma event_good d r ev : Good d r -> StepOK r (step_of ev) ->
    Good (run_event d ev) (next_rec r ev) /\ rows (run_event d ev) = rows d ++ ev_rows ev.
  Proof.
    intros G S. destruct ev as [st|st k t]; unfold next_rec, ev_rows, ev_olds; cbn [run_event effective step_of] in *.
    - exact (complete_good d r st G S).
    - destruct (crash_restart_good d r st k t G S) as [(Hk & G' & E)|(Hk & G' & E)].
      + apply Nat.leb_gt in Hk. rewrite Hk. cbn [map]. rewrite app_nil_r. auto.
      + apply Nat.leb_le in Hk. rewrite Hk. auto.
  Qed.

  Theorem history_good : forall evs d r,
    Good d r -> HistOK r evs ->
    Good (run d evs) (final_rec r evs) /\ rows (run d evs) = rows d ++ hist_rows evs.
  Proof.
    induction evs as [|ev evs IH]; intros d r G H; cbn [run final_rec fold_left hist_rows flat_map].
    - rewrite app_nil_r. auto.
    - destruct H as (S & H). destruct (event_good d r ev G S) as (G' & E).
      destruct (IH _ _ G' H) as (G'' & E'). split; [exact G''|].
      unfold run in E'. rewrite E', E, app_assoc. reflexivity.
  Qed.

  (* the final record is the new record of the last step that took effect *)
  Lemma final_rec_last r evs :
    final_rec r evs = last (map (fun ev => rnew (step_of ev)) (filter effective evs)) r.
  Proof.
    revert r. induction evs as [|ev evs IH] using rev_ind; intros r; [reflexivity|].
    unfold final_rec. rewrite fold_left_last. fold (final_rec r evs). rewrite filter_app. cbn [filter].
    unfold next_rec. destruct (effective ev).
    - rewrite map_app. cbn [map]. now rewrite last_last.
    - rewrite app_nil_r. apply IH.
  Qed.

  Lemma map_fst_hist_rows evs : map fst (hist_rows evs) = flat_map ev_olds evs.
  Proof.
    unfold hist_rows. induction evs as [|ev evs IH]; cbn [flat_map]; [reflexivity|].
    rewrite map_app, IH. unfold ev_rows. now rewrite map_fst_tag.
  Qed.

  (* what a restart at the end of the history reads; every live path loads; each replaced path
     of a step that took effect has one complete row, in order, and no path has two *)
  Corollary history_recovers evs d r :
    Good d r -> HistOK r evs ->
    let d' := run d evs in
    let r' := final_rec r evs in
    recover need true d' = Some (r', rows d ++ hist_rows evs) /\
    rec d' = Some r' /\ rec_torn d' = false /\
    (forall pn, In pn (r_active r') -> loadable need d' pn = true) /\
    rows d' = rows d ++ hist_rows evs /\
    NoDup (map fst (rows d ++ hist_rows evs)) /\
    restart d' = d'.
  Proof.
    intros G H. cbn zeta. destruct (history_good evs d r G H) as (G' & E).
    rewrite <- E. split; [exact (good_recover _ _ G')|].
    split; [exact (g_rec _ _ G')|]. split; [exact (g_whole _ _ G')|]. split; [exact (g_load _ _ G')|].
    split; [reflexivity|]. split; [exact (g_nodup _ _ G')|]. exact (good_restart _ _ G').
  Qed.

  (* from an empty data file (a new simulation) *)
  Corollary history_rows_fresh evs d r :
    Good d r -> rows d = [] -> HistOK r evs ->
    rows (run d evs) = map (fun pn => (pn, true)) (flat_map ev_olds evs) /\
    NoDup (flat_map ev_olds evs).
  Proof.
    intros G E H. destruct (history_good evs d r G H) as (G' & E').
    rewrite E in E'. cbn [app] in E'. split.
    - rewrite E'. unfold hist_rows, ev_rows. clear. induction evs as [|ev evs IH]; cbn [flat_map]; [reflexivity|].
      now rewrite map_app, IH.
    - rewrite <- map_fst_hist_rows, <- E'. exact (g_nodup _ _ G').
  Qed.

  (* after any history, a crash anywhere in the next step is recovered from (no restart applied yet) *)
  Corollary history_crash_recovers evs d r st k t :
    Good d r -> HistOK r evs -> StepOK (final_rec r evs) st ->
    let d' := run d evs in
    exists r' rs, recover need true (crash k t d' (effects need true st)) = Some (r', rs) /\
      ((r' = final_rec r evs /\ rs = rows d') \/
       (r' = rnew st /\ rs = rows d' ++ map (fun pn => (pn, true)) (olds st))).
  Proof.
    intros G H S. cbn zeta. destruct (history_good evs d r G H) as (G' & _).
    exact (crash_recovers need _ _ st (g_rec _ _ G') (g_whole _ _ G') (g_load _ _ G')
             (rows_not_new _ _ st G' S) (news_not_live _ _ st G' S) (s_olds _ _ S) (s_dels _ _ S)
             (s_act _ _ S) k t).
  Qed.
End Run.

(* ------------------------------------------------------------------ a concrete history

   need1, d0 (paths 0 and 1 live, traj_num 2, empty data file) and st0 (new path 2 replaces
   path 1) are those of DiskP.v; every stored path consists of the files 0, 2 and 3. *)

Definition r0 : rrec := mkRec 4 [0; 1] [] 2.
(* new path 3 replaces path 0, the files of the dead path 1 are deleted *)
Definition st1 : stepinfo := mkStep [(3, [(1, [0; 2; 3])])] [0] (mkRec 6 [2; 3] [] 4).
(* new path 4 replaces path 2 *)
Definition st2 : stepinfo := mkStep [(4, [])] [2] (mkRec 7 [3; 4] [] 5).
(* the same move done again after a crash, now rejected: no new path, no row *)
Definition st3 : stepinfo := mkStep [] [] (mkRec 7 [2; 3] [] 4).
(* the next step: path number 4 is used again (leftovers of st2 are on disk), replaces path 2 *)
Definition st4 : stepinfo := mkStep [(4, [])] [2] (mkRec 8 [3; 4] [] 5).

Definition hist : list event :=
  [ CrashRestart st0 4 true;     (* dies half-way through the data row of path 1: old record *)
    Complete st0;                (* the step is done again *)
    CrashRestart st1 11 false;   (* dies right after restart.toml was swapped in: new record *)
    CrashRestart st2 2 true;     (* dies half-way through traj.txt of the new path 4: old record *)
    Complete st3;                (* done again, rejected this time: path 4 is not stored *)
    CrashRestart st4 6 true;     (* row of path 2 written, dies between restart.toml.tmp and the swap *)
    Complete st4 ].              (* done again *)

Definition d_end : disk := run need1 d0 hist.

Ltac in_cases :=
  repeat match goal with
         | H : _ \/ _ |- _ => destruct H as [H|H]
         | H : False |- _ => destruct H
         | H : In _ _ |- _ => progress cbn in H
         end; subst.

Ltac step_ok :=
  constructor; unfold st0, st1, st2, st3, st4, r0, news, dels; cbn;
  [ intros pn H; in_cases; lia
  | lia
  | intros pn H; in_cases; (cbn; split; [auto 10|intros X; in_cases; discriminate])
  | repeat constructor; cbn; intros X; in_cases; discriminate
  | intros x H; in_cases; (cbn; split; intros X; in_cases; discriminate)
  | intros pn H; in_cases; cbn; auto 10 ].

Lemma example_good : Good need1 d0 r0.
Proof.
  constructor; cbn [d0 r0 rec rec_torn rows r_active r_trajnum map].
  - reflexivity.
  - reflexivity.
  - intros pn H. in_cases; reflexivity.
  - intros x [].
  - intros pn H. in_cases; lia.
  - constructor.
Qed.

Lemma example_hist_ok : HistOK need1 r0 hist.
Proof.
  cbn [hist HistOK step_of]. unfold next_rec. cbn [effective step_of].
  repeat match goal with |- context [?a <=? ?b] => let v := eval vm_compute in (a <=? b) in change (a <=? b) with v end.
  cbn iota. repeat (split; [step_ok|]). exact I.
Qed.

(* which steps took effect *)
Example example_effective : map (effective need1) hist = [false; true; true; false; true; false; true].
Proof. reflexivity. Qed.

(* the history, computed: the intermediate disks after the torn-row crash (row dropped, files of
   the crashed attempt left behind) and after the torn traj.txt, and the final disk *)
Example example_run :
  run need1 d0 (firstn 1 hist)
    = mkDisk [(2, 3, true); (2, 2, true); (2, 0, true);
              (0, 0, true); (0, 2, true); (0, 3, true); (1, 0, true); (1, 2, true); (1, 3, true)]
             [] (Some r0) false
  /\ rows (crash 4 true d0 (effects need1 true st0)) = [(1, false)]
  /\ files (run need1 d0 (firstn 4 hist))
    = [(4, 2, false); (4, 0, true); (3, 3, true); (3, 2, true); (3, 0, true);
       (2, 3, true); (2, 2, true); (2, 0, true); (0, 0, true); (0, 2, true); (0, 3, true)]
  /\ rows (crash 6 true (run need1 d0 (firstn 5 hist)) (effects need1 true st4)) = [(1, true); (0, true); (2, true)]
  /\ rows (run need1 d0 (firstn 6 hist)) = [(1, true); (0, true)]
  /\ d_end
    = mkDisk [(4, 3, true); (4, 2, true); (4, 0, true); (3, 3, true); (3, 2, true); (3, 0, true);
              (2, 3, true); (2, 2, true); (2, 0, true); (0, 0, true); (0, 2, true); (0, 3, true)]
             [(1, true); (0, true); (2, true)] (Some (mkRec 8 [3; 4] [] 5)) false.
Proof. repeat split; reflexivity. Qed.

(* the same from the theorem *)
Example example_history :
  Good need1 d_end (mkRec 8 [3; 4] [] 5)
  /\ recover need1 true d_end = Some (mkRec 8 [3; 4] [] 5, [(1, true); (0, true); (2, true)])
  /\ final_rec need1 r0 hist = rnew st4
  /\ hist_rows need1 hist = [(1, true); (0, true); (2, true)]
  /\ NoDup (map fst (rows d_end)).
Proof.
  destruct (history_recovers need1 hist d0 r0 example_good example_hist_ok) as (A & _ & _ & _ & _ & N & _).
  destruct (history_good need1 hist d0 r0 example_good example_hist_ok) as (G & E).
  split; [exact G|]. split; [exact A|]. split; [reflexivity|]. split; [reflexivity|].
  exact (g_nodup _ _ _ G).
Qed.

Print Assumptions complete_good.
Print Assumptions crash_restart_good.
Print Assumptions crash_restart_recover.
Print Assumptions history_good.
Print Assumptions history_recovers.
Print Assumptions history_rows_fresh.
Print Assumptions history_crash_recovers.
Print Assumptions final_rec_last.
Print Assumptions good_clean.
Print Assumptions restart_idem.
Print Assumptions example_history.
