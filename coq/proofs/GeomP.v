(* Proofs about model/GeomM.v (property C20). *)
From Coq Require Import ZArith List Bool Lia.
Import ListNotations.
From Inf Require Import model.GeomM.
Open Scope Z_scope.

(* ------------------------------------------------------------------ rounding *)

Lemma divmod_pos d L : 0 < L -> d = L * (d / L) + d mod L /\ 0 <= d mod L < L.
Proof.
  intros HL. split.
  - apply Z.div_mod. lia.
  - apply Z.mod_pos_bound. exact HL.
Qed.

(* rint_div is a nearest integer of d / L *)
Lemma rint_div_nearest d L : 0 < L -> 2 * Z.abs (d - rint_div d L * L) <= L.
Proof.
  intros HL. destruct (divmod_pos d L HL) as [Hd Hr].
  unfold rint_div.
  set (q := d / L) in *. set (r := d mod L) in *.
  destruct (Z.ltb_spec (2 * r) L) as [H1|H1].
  - replace (d - q * L) with r by lia. lia.
  - destruct (Z.ltb_spec L (2 * r)) as [H2|H2].
    + replace (d - (q + 1) * L) with (r - L) by lia. lia.
    + destruct (Z.even q).
      * replace (d - q * L) with r by lia. lia.
      * replace (d - (q + 1) * L) with (r - L) by lia. lia.
Qed.

Lemma tieb_spec d L : 0 < L -> (tieb d L = true <-> exists m, 2 * d = (2 * m + 1) * L).
Proof.
  intros HL. destruct (divmod_pos d L HL) as [Hd Hr]. unfold tieb.
  set (q := d / L) in *. set (r := d mod L) in *.
  rewrite Z.eqb_eq. split.
  - intros H. exists q. lia.
  - intros [m Hm].
    assert (E : 2 * r - L = (2 * (m - q)) * L) by lia.
    assert (Hk : m - q = 0).
    { destruct (Z_lt_le_dec (m - q) 0) as [Hn|Hn].
      - assert (2 * (m - q) * L <= -2 * L) by nia. lia.
      - destruct (Z_lt_le_dec 0 (m - q)) as [Hp|Hp]; [|lia].
        assert (2 * L <= 2 * (m - q) * L) by nia. lia. }
    rewrite Hk in E. lia.
Qed.

Lemma tieb_shift d L k : 0 < L -> tieb (d + k * L) L = tieb d L.
Proof. intros HL. unfold tieb. rewrite Z_mod_plus_full. reflexivity. Qed.

Lemma rint_div_shift d L k :
  0 < L -> tieb d L = false -> rint_div (d + k * L) L = rint_div d L + k.
Proof.
  intros HL HT. unfold tieb in HT. rewrite Z.eqb_neq in HT.
  unfold rint_div. rewrite Z_mod_plus_full. rewrite Z.div_add by lia.
  set (q := d / L) in *. set (r := d mod L) in *.
  destruct (Z.ltb_spec (2 * r) L) as [H1|H1]; [lia|].
  destruct (Z.ltb_spec L (2 * r)) as [H2|H2]; [lia|]. lia.
Qed.

(* in the not-wrapped branch the nearest integer is 0, so the branch is an optimisation *)
Lemma rint_div_small d L : 0 < L -> 2 * Z.abs d <= L -> rint_div d L = 0.
Proof.
  intros HL Hs. unfold rint_div.
  destruct (Z_lt_le_dec d 0) as [Hn|Hp].
  - assert (Hq : d / L = -1).
    { symmetry. apply Z.div_unique with (r := d + L); lia. }
    assert (Hr : d mod L = d + L).
    { symmetry. apply Z.mod_unique with (q := -1); lia. }
    rewrite Hq, Hr.
    destruct (Z.ltb_spec (2 * (d + L)) L) as [H1|H1]; [lia|].
    destruct (Z.ltb_spec L (2 * (d + L))) as [H2|H2]; [lia|]. reflexivity.
  - assert (Hq : d / L = 0) by (apply Z.div_small; lia).
    assert (Hr : d mod L = d) by (apply Z.mod_small; lia).
    rewrite Hq, Hr.
    destruct (Z.ltb_spec (2 * d) L) as [H1|H1]; [reflexivity|].
    destruct (Z.ltb_spec L (2 * d)) as [H2|H2]; [lia|]. reflexivity.
Qed.

(* ------------------------------------------------------------------ pbc1 *)

Lemma pbc1_canonical d L : 0 < L -> pbc1 d L = d - rint_div d L * L.
Proof.
  intros HL. unfold pbc1.
  destruct (Z.ltb_spec L (2 * Z.abs d)) as [H|H]; [reflexivity|].
  rewrite rint_div_small by assumption. lia.
Qed.

Lemma pbc1_bound d L : 0 < L -> 2 * Z.abs (pbc1 d L) <= L.
Proof. intros HL. rewrite pbc1_canonical by assumption. apply rint_div_nearest, HL. Qed.

Lemma pbc1_image d L : 0 < L -> exists m, pbc1 d L = d + m * L.
Proof. intros HL. exists (- rint_div d L). rewrite pbc1_canonical by assumption. lia. Qed.

Lemma pbc1_shift d L k : 0 < L -> tieb d L = false -> pbc1 (d + k * L) L = pbc1 d L.
Proof.
  intros HL HT. rewrite !pbc1_canonical by assumption.
  rewrite rint_div_shift by assumption. lia.
Qed.

Lemma pbc1_tie_sq d L : 0 < L -> tieb d L = true -> 4 * (pbc1 d L * pbc1 d L) = L * L.
Proof.
  intros HL HT. rewrite pbc1_canonical by assumption.
  destruct (divmod_pos d L HL) as [Hd Hr].
  unfold tieb in HT. rewrite Z.eqb_eq in HT. unfold rint_div.
  set (q := d / L) in *. set (r := d mod L) in *.
  destruct (Z.ltb_spec (2 * r) L) as [H1|H1]; [lia|].
  destruct (Z.ltb_spec L (2 * r)) as [H2|H2]; [lia|].
  destruct (Z.even q).
  - replace (d - q * L) with r by lia. nia.
  - replace (d - (q + 1) * L) with (r - L) by lia. nia.
Qed.

(* without any guard the SQUARE of the wrapped component is image independent *)
Lemma pbc1_shift_sq d L k :
  0 < L -> pbc1 (d + k * L) L * pbc1 (d + k * L) L = pbc1 d L * pbc1 d L.
Proof.
  intros HL. destruct (tieb d L) eqn:HT.
  - pose proof (pbc1_tie_sq d L HL HT) as H1.
    assert (HT' : tieb (d + k * L) L = true) by (rewrite tieb_shift; assumption).
    pose proof (pbc1_tie_sq _ L HL HT') as H2. lia.
  - rewrite pbc1_shift by assumption. reflexivity.
Qed.

Lemma rint_div_scale c d L : 0 < c -> L <> 0 -> rint_div (c * d) (c * L) = rint_div d L.
Proof.
  intros Hc HL. unfold rint_div.
  rewrite Z.div_mul_cancel_l by lia. rewrite Z.mul_mod_distr_l by lia.
  set (q := d / L). set (r := d mod L).
  destruct (Z.ltb_spec (2 * r) L) as [H1|H1];
    destruct (Z.ltb_spec (2 * (c * r)) (c * L)) as [H1'|H1']; try reflexivity; try nia.
  destruct (Z.ltb_spec L (2 * r)) as [H2|H2];
    destruct (Z.ltb_spec (c * L) (2 * (c * r))) as [H2'|H2']; try reflexivity; nia.
Qed.

(* homogeneity: a common positive factor (the power of two that turns floats into
   integers, or the denominator of a rational rotation) commutes with the wrapping *)
Lemma pbc1_scale c d L : 0 < c -> pbc1 (c * d) (c * L) = c * pbc1 d L.
Proof.
  intros Hc. unfold pbc1.
  rewrite Z.abs_mul. rewrite (Z.abs_eq c) by lia.
  destruct (Z.eq_dec L 0) as [H0|H0].
  - subst L. rewrite Z.mul_0_r.
    destruct (Z.ltb_spec 0 (2 * (c * Z.abs d))) as [H'|H'];
      destruct (Z.ltb_spec 0 (2 * Z.abs d)) as [H|H]; lia.
  - rewrite rint_div_scale by assumption.
    destruct (Z.ltb_spec L (2 * Z.abs d)) as [H|H];
      destruct (Z.ltb_spec (c * L) (2 * (c * Z.abs d))) as [H'|H']; nia.
Qed.

(* ------------------------------------------------------------------ vectors *)

Ltac vdestruct :=
  repeat match goal with
         | v : v3 |- _ => let a := fresh "x" in let b := fresh "y" in let c := fresh "z" in destruct v as [a b c]
         | m : m3 |- _ => let a := fresh "ra" in let b := fresh "rb" in let c := fresh "rc" in destruct m as [a b c]
         end.

Ltac vring := intros; vdestruct; unfold det, triple, mapply, cross, dot, vadd, vsub, vneg, vscale, vmul, vzero in *;
              cbn [vx vy vz row1 row2 row3] in *; first [ring | f_equal; ring].

Lemma vsub_translate t a b : vsub (vadd t a) (vadd t b) = vsub a b.
Proof. vring. Qed.

Lemma vsub_shift a b ka kb L :
  vsub (vadd a (vmul ka L)) (vadd b (vmul kb L)) = vadd (vsub a b) (vmul (vsub ka kb) L).
Proof. vring. Qed.

Lemma vsub_neg a b : vsub (vneg a) (vneg b) = vneg (vsub a b).
Proof. vring. Qed.

Lemma dot_vneg_r a b : dot a (vneg b) = - dot a b.
Proof. vring. Qed.

Lemma vsub_scale c a b : vsub (vscale c a) (vscale c b) = vscale c (vsub a b).
Proof. vring. Qed.

Lemma vadd_scale c a b : vadd (vscale c a) (vscale c b) = vscale c (vadd a b).
Proof. vring. Qed.

Lemma vscale_scale c k a : vscale k (vscale c a) = vscale c (vscale k a).
Proof. vring. Qed.

Lemma dot_scale c a b : dot (vscale c a) (vscale c b) = c * c * dot a b.
Proof. vring. Qed.

Lemma cross_scale c a b : cross (vscale c a) (vscale c b) = vscale (c * c) (cross a b).
Proof. vring. Qed.

Lemma triple_scale c a b d : triple (vscale c a) (vscale c b) (vscale c d) = c * c * c * triple a b d.
Proof. vring. Qed.

Lemma mapply_sub m a b : vsub (mapply m a) (mapply m b) = mapply m (vsub a b).
Proof. vring. Qed.

Lemma mapply_add m a b : vadd (mapply m a) (mapply m b) = mapply m (vadd a b).
Proof. vring. Qed.

Lemma mapply_scale m k a : vscale k (mapply m a) = mapply m (vscale k a).
Proof. vring. Qed.

Lemma mapply_zero m : mapply m vzero = vzero.
Proof. vring. Qed.

(* (M a x M b) . M c = det M * (a x b) . c : holds for every matrix *)
Lemma triple_rot m a b d :
  triple (mapply m a) (mapply m b) (mapply m d) = det m * triple a b d.
Proof. unfold det. vring. Qed.

(* Lagrange: |a x b|^2 = |a|^2 |b|^2 - (a.b)^2 *)
Lemma lagrange a b : dot (cross a b) (cross a b) = dot a a * dot b b - dot a b * dot a b.
Proof. vring. Qed.

Lemma dot_rot m c u v :
  orthogonal m c -> dot (mapply m u) (mapply m v) = c * c * dot u v.
Proof.
  unfold orthogonal, col1, col2, col3.
  destruct m as [[a1 a2 a3] [b1 b2 b3] [c1 c2 c3]], u as [u1 u2 u3], v as [v1 v2 v3].
  unfold mapply, dot. cbn [vx vy vz row1 row2 row3].
  intros (H11 & H22 & H33 & H12 & H13 & H23).
  transitivity (u1 * v1 * (a1 * a1 + b1 * b1 + c1 * c1) + u2 * v2 * (a2 * a2 + b2 * b2 + c2 * c2)
                + u3 * v3 * (a3 * a3 + b3 * b3 + c3 * c3)
                + (u1 * v2 + u2 * v1) * (a1 * a2 + b1 * b2 + c1 * c2)
                + (u1 * v3 + u3 * v1) * (a1 * a3 + b1 * b3 + c1 * c3)
                + (u2 * v3 + u3 * v2) * (a2 * a3 + b2 * b3 + c2 * c3)).
  - ring.
  - rewrite H11, H22, H33, H12, H13, H23. ring.
Qed.

Lemma cross_rot_sq m c a b :
  orthogonal m c ->
  dot (cross (mapply m a) (mapply m b)) (cross (mapply m a) (mapply m b)) =
  c * c * c * c * dot (cross a b) (cross a b).
Proof.
  intros H. rewrite !lagrange. rewrite !(dot_rot m c) by assumption. ring.
Qed.

(* ------------------------------------------------------------------ pbc on vectors *)

Definition tie3b (d L : v3) : bool :=
  tieb (vx d) (vx L) || tieb (vy d) (vy L) || tieb (vz d) (vz L).

Definition boxpos (L : v3) : Prop := 0 < vx L /\ 0 < vy L /\ 0 < vz L.

Definition box_of (L : v3) (rest : list Z) : list Z := vx L :: vy L :: vz L :: rest.

Definition pbc3 (d L : v3) : v3 := V3 (pbc1 (vx d) (vx L)) (pbc1 (vy d) (vy L)) (pbc1 (vz d) (vz L)).

Lemma pbc_vec_box d L rest : pbc_vec d (firstn 3 (box_of L rest)) = Some (pbc3 d L).
Proof. reflexivity. Qed.

Lemma wrap_box d L rest : wrap true (Some (box_of L rest)) d = Some (pbc3 d L).
Proof. reflexivity. Qed.

Lemma pbc3_shift d k L : boxpos L -> tie3b d L = false -> pbc3 (vadd d (vmul k L)) L = pbc3 d L.
Proof.
  intros (Hx & Hy & Hz) HT. unfold tie3b in HT.
  apply orb_false_elim in HT. destruct HT as [HT Hc]. apply orb_false_elim in HT. destruct HT as [Ha Hb].
  destruct d as [d1 d2 d3], k as [k1 k2 k3], L as [L1 L2 L3]. unfold pbc3, vadd, vmul. cbn [vx vy vz] in *.
  rewrite !pbc1_shift by assumption. reflexivity.
Qed.

Lemma pbc3_shift_sq d k L :
  boxpos L -> dot (pbc3 (vadd d (vmul k L)) L) (pbc3 (vadd d (vmul k L)) L) = dot (pbc3 d L) (pbc3 d L).
Proof.
  intros (Hx & Hy & Hz). destruct d as [d1 d2 d3], k as [k1 k2 k3], L as [L1 L2 L3]. unfold pbc3, vadd, vmul, dot. cbn [vx vy vz] in *.
  rewrite !pbc1_shift_sq by assumption. reflexivity.
Qed.

Lemma pbc3_bound d L : boxpos L ->
  2 * Z.abs (vx (pbc3 d L)) <= vx L /\ 2 * Z.abs (vy (pbc3 d L)) <= vy L /\ 2 * Z.abs (vz (pbc3 d L)) <= vz L.
Proof.
  intros (Hx & Hy & Hz). unfold pbc3. cbn [vx vy vz]. repeat split; apply pbc1_bound; assumption.
Qed.

Lemma pbc3_scale c d L : 0 < c -> pbc3 (vscale c d) (vscale c L) = vscale c (pbc3 d L).
Proof.
  intros Hc. destruct d as [d1 d2 d3], L as [L1 L2 L3]. unfold pbc3, vscale. cbn [vx vy vz] in *.
  rewrite !pbc1_scale by assumption. reflexivity.
Qed.

(* Distancevel before the repair: a box with more than three entries is an IndexError *)
Lemma pbc_vec_long d a b c e rest : pbc_vec d (a :: b :: c :: e :: rest) = None.
Proof. destruct d. reflexivity. Qed.

(* ------------------------------------------------------------------ list plumbing *)

Lemma nth_error_imgshift L ks pos i :
  nth_error (imgshift L ks pos) i =
  match nth_error pos i with
  | Some p => Some (vadd p (vmul (nth i ks vzero) L))
  | None => None
  end.
Proof.
  revert ks i. induction pos as [|p pos IH]; intros ks i.
  - destruct ks, i; reflexivity.
  - destruct ks as [|k ks].
    + cbn [imgshift]. destruct (nth_error (p :: pos) i) as [q|] eqn:E; [|reflexivity].
      f_equal. destruct q as [q1 q2 q3], L as [L1 L2 L3]. destruct i; unfold vadd, vmul, vzero; cbn [nth vx vy vz]; f_equal; ring.
    + destruct i as [|i]; cbn [imgshift nth_error nth]; [reflexivity|]. apply IH.
Qed.

Lemma lookup_all_map f pos idx :
  lookup_all (map f pos) idx =
  match lookup_all pos idx with Some l => Some (map f l) | None => None end.
Proof.
  induction idx as [|i idx IH]; [reflexivity|].
  cbn [lookup_all]. rewrite nth_error_map, IH.
  destruct (nth_error pos i), (lookup_all pos idx); reflexivity.
Qed.

Lemma lookup_all_length pos idx l : lookup_all pos idx = Some l -> length l = length idx.
Proof.
  revert l. induction idx as [|i idx IH]; intros l H; cbn in H.
  - inversion H. reflexivity.
  - destruct (nth_error pos i); [|discriminate].
    destruct (lookup_all pos idx) as [r|]; [|discriminate].
    inversion H. cbn. f_equal. apply IH. reflexivity.
Qed.

(* ================================================================== translation *)

Lemma distance_translate t i0 i1 per s :
  distance_calc i0 i1 per (translate t s) = distance_calc i0 i1 per s.
Proof.
  unfold distance_calc, translate. cbn [spos sbox]. rewrite !nth_error_map.
  destruct (nth_error (spos s) i1), (nth_error (spos s) i0); cbn [option_map]; try reflexivity.
  unfold distance_core. rewrite vsub_translate. reflexivity.
Qed.

Lemma distancevel_translate fx t i0 i1 per s :
  distancevel_calc fx i0 i1 per (translate t s) = distancevel_calc fx i0 i1 per s.
Proof.
  unfold distancevel_calc, translate. cbn [spos svel sbox]. rewrite !nth_error_map.
  destruct (nth_error (spos s) i1), (nth_error (spos s) i0); cbn [option_map]; try reflexivity.
  destruct (nth_error (svel s) i1), (nth_error (svel s) i0); try reflexivity.
  unfold distancevel_core. rewrite vsub_translate. reflexivity.
Qed.

Lemma dihedral_translate t i0 i1 i2 i3 per s :
  dihedral_calc i0 i1 i2 i3 per (translate t s) = dihedral_calc i0 i1 i2 i3 per s.
Proof.
  unfold dihedral_calc, translate. cbn [spos sbox]. rewrite !nth_error_map.
  destruct (nth_error (spos s) i0), (nth_error (spos s) i1), (nth_error (spos s) i2),
    (nth_error (spos s) i3); cbn [option_map]; try reflexivity.
  unfold dihedral_core. rewrite !vsub_translate. reflexivity.
Qed.

Lemma wrap_rel_translate t b p0 l :
  wrap_rel b (vadd t p0) (map (vadd t) l) = wrap_rel b p0 l.
Proof.
  induction l as [|p l IH]; [reflexivity|].
  cbn [map wrap_rel]. rewrite vsub_translate, IH. reflexivity.
Qed.

Lemma vsum6_translate t p0 p1 p2 p3 p4 p5 :
  vsum (map (vadd t) [p0; p1; p2; p3; p4; p5]) = vadd (vscale 6 t) (vsum [p0; p1; p2; p3; p4; p5]).
Proof. cbn [map vsum fold_right]. vring. Qed.

Lemma centre_translate t c p : vsub (vscale 6 (vadd t p)) (vadd (vscale 6 t) c) = vsub (vscale 6 p) c.
Proof. vring. Qed.

Lemma puck_plane_translate t ps : puck_plane (map (vadd t) ps) = puck_plane ps.
Proof.
  unfold puck_plane.
  destruct ps as [|p0 [|p1 [|p2 [|p3 [|p4 [|p5 [|p6 ps]]]]]]]; try reflexivity.
  unfold centre6. rewrite vsum6_translate.
  set (c := vsum [p0; p1; p2; p3; p4; p5]).
  cbn [map]. rewrite !centre_translate. reflexivity.
Qed.

Lemma puckering_core_translate t per box ps :
  puckering_core per box (map (vadd t) ps) = puckering_core per box ps.
Proof.
  unfold puckering_core, puck_whole.
  destruct per; [|apply puck_plane_translate].
  destruct box as [b|]; [|apply puck_plane_translate].
  destruct ps as [|p0 rest]; [reflexivity|].
  cbn [map]. rewrite wrap_rel_translate. reflexivity.
Qed.

Lemma puckering_translate t idx per s :
  puckering_calc idx per (translate t s) = puckering_calc idx per s.
Proof.
  unfold puckering_calc, translate. cbn [spos sbox]. rewrite lookup_all_map.
  destruct (lookup_all (spos s) idx); [|reflexivity]. apply puckering_core_translate.
Qed.

(* ================================================================== image shifts *)

(* the separation pos[ia] - pos[ib] has a component that is exactly a half-integer
   multiple of the box length *)
Definition sep_tie (s : system) (ia ib : nat) (L : v3) : bool :=
  match nth_error (spos s) ia, nth_error (spos s) ib with
  | Some pa, Some pb => tie3b (vsub pa pb) L
  | _, _ => false
  end.

Definition puck_tie (s : system) (idx : list nat) (L : v3) : bool :=
  match lookup_all (spos s) idx with
  | Some (p0 :: rest) => existsb (fun p => tie3b (vsub p p0) L) rest
  | _ => false
  end.

(* Distance needs no guard: at a tie the wrapped component is +L/2 or -L/2 and only its
   square is used *)
Lemma distance_image_shift L rest ks i0 i1 s :
  boxpos L -> sbox s = Some (box_of L rest) ->
  distance_calc i0 i1 true (shift_images L ks s) = distance_calc i0 i1 true s.
Proof.
  intros HL Hb. unfold distance_calc, shift_images. cbn [spos sbox]. rewrite !nth_error_imgshift.
  destruct (nth_error (spos s) i1) as [p1|], (nth_error (spos s) i0) as [p0|]; try reflexivity.
  unfold distance_core. rewrite Hb, !wrap_box, vsub_shift. f_equal.
  apply pbc3_shift_sq; assumption.
Qed.

Lemma wrap_dv_box d L rest : wrap_dv true true (Some (box_of L rest)) d = Some (pbc3 d L).
Proof. reflexivity. Qed.

Lemma distancevel_image_shift L rest ks i0 i1 s :
  boxpos L -> sbox s = Some (box_of L rest) -> sep_tie s i1 i0 L = false ->
  distancevel_calc true i0 i1 true (shift_images L ks s) = distancevel_calc true i0 i1 true s.
Proof.
  intros HL Hb HT. unfold distancevel_calc, shift_images. cbn [spos svel sbox].
  rewrite !nth_error_imgshift. unfold sep_tie in HT. revert HT.
  destruct (nth_error (spos s) i1) as [p1|], (nth_error (spos s) i0) as [p0|]; try reflexivity.
  intros HT.
  destruct (nth_error (svel s) i1) as [w1|], (nth_error (svel s) i0) as [w0|]; try reflexivity.
  unfold distancevel_core. rewrite Hb, !wrap_dv_box, vsub_shift.
  rewrite pbc3_shift by assumption. reflexivity.
Qed.

Lemma dihedral_image_shift L rest ks i0 i1 i2 i3 s :
  boxpos L -> sbox s = Some (box_of L rest) ->
  sep_tie s i0 i1 L = false -> sep_tie s i1 i2 L = false -> sep_tie s i3 i2 L = false ->
  dihedral_calc i0 i1 i2 i3 true (shift_images L ks s) = dihedral_calc i0 i1 i2 i3 true s.
Proof.
  intros HL Hb H1 H2 H3. unfold dihedral_calc, shift_images. cbn [spos sbox].
  rewrite !nth_error_imgshift. unfold sep_tie in H1, H2, H3. revert H1 H2 H3.
  destruct (nth_error (spos s) i0) as [pa|], (nth_error (spos s) i1) as [pb|],
    (nth_error (spos s) i2) as [pc|], (nth_error (spos s) i3) as [pd|]; try reflexivity.
  intros H1 H2 H3.
  unfold dihedral_core. rewrite Hb, !wrap_box, !vsub_shift.
  rewrite !pbc3_shift by assumption. reflexivity.
Qed.

Definition shift_sel (L : v3) (ks : list v3) (idx : list nat) (l : list v3) : list v3 :=
  map (fun pi => vadd (fst pi) (vmul (nth (snd pi) ks vzero) L)) (combine l idx).

Lemma lookup_all_imgshift L ks pos idx :
  lookup_all (imgshift L ks pos) idx =
  match lookup_all pos idx with Some l => Some (shift_sel L ks idx l) | None => None end.
Proof.
  induction idx as [|i idx IH]; [reflexivity|].
  cbn [lookup_all]. rewrite nth_error_imgshift, IH.
  destruct (nth_error pos i), (lookup_all pos idx); reflexivity.
Qed.

Lemma wrap_rel_shift L b ks k0 p0 idx l :
  boxpos L -> (forall d, pbc_vec d b = Some (pbc3 d L)) ->
  existsb (fun p => tie3b (vsub p p0) L) l = false ->
  wrap_rel b (vadd p0 (vmul k0 L)) (shift_sel L ks idx l) =
  wrap_rel b p0 (firstn (length idx) l).
Proof.
  intros HL Hb. revert idx. induction l as [|p l IH]; intros idx HT.
  - destruct idx; reflexivity.
  - destruct idx as [|i idx]; [reflexivity|].
    cbn [existsb] in HT. apply orb_false_elim in HT. destruct HT as [Hp Hl].
    unfold shift_sel. cbn [combine map fst snd length firstn wrap_rel].
    fold (shift_sel L ks idx l). rewrite IH by assumption.
    rewrite vsub_shift, !Hb. rewrite pbc3_shift by assumption. reflexivity.
Qed.

Lemma puckering_image_shift L rest ks idx s :
  boxpos L -> sbox s = Some (box_of L rest) -> puck_tie s idx L = false ->
  puckering_calc idx true (shift_images L ks s) = puckering_calc idx true s.
Proof.
  intros HL Hb HT. unfold puckering_calc, shift_images. cbn [spos sbox].
  rewrite lookup_all_imgshift. unfold puck_tie in HT. revert HT.
  destruct (lookup_all (spos s) idx) as [ps|] eqn:E; [|reflexivity].
  pose proof (lookup_all_length _ _ _ E) as Hlen.
  intros HT. unfold puckering_core, puck_whole. rewrite Hb.
  destruct ps as [|p0 ps]; [destruct idx; reflexivity|].
  destruct idx as [|i0 idx]; [discriminate Hlen|].
  unfold shift_sel. cbn [combine map fst snd]. fold (shift_sel L ks idx ps).
  rewrite (wrap_rel_shift L) by (try assumption; intros d; apply pbc_vec_box).
  cbn [length] in Hlen. injection Hlen as Hlen. rewrite <- Hlen, firstn_all. reflexivity.
Qed.

(* ================================================================== minimum image *)

Lemma sq_bound w L : 2 * Z.abs w <= L -> 4 * (w * w) <= L * L.
Proof. intros H. assert (- L <= 2 * w <= L) by lia. nia. Qed.

Lemma wrap_min_image L rest d w :
  boxpos L -> wrap true (Some (box_of L rest)) d = Some w ->
  2 * Z.abs (vx w) <= vx L /\ 2 * Z.abs (vy w) <= vy L /\ 2 * Z.abs (vz w) <= vz L.
Proof.
  intros HL H. rewrite wrap_box in H. injection H as <-. apply pbc3_bound, HL.
Qed.

Lemma wrap_is_image L rest d w :
  boxpos L -> wrap true (Some (box_of L rest)) d = Some w -> exists k, w = vadd d (vmul k L).
Proof.
  intros (Hx & Hy & Hz) H. rewrite wrap_box in H. injection H as <-.
  destruct (pbc1_image (vx d) (vx L) Hx) as [kx Ex].
  destruct (pbc1_image (vy d) (vy L) Hy) as [ky Ey].
  destruct (pbc1_image (vz d) (vz L) Hz) as [kz Ez].
  exists (V3 kx ky kz). unfold pbc3. rewrite Ex, Ey, Ez.
  destruct d as [d1 d2 d3], L as [L1 L2 L3]. reflexivity.
Qed.

Lemma distance_min_image L rest i0 i1 s r :
  boxpos L -> sbox s = Some (box_of L rest) ->
  distance_calc i0 i1 true s = Some r -> 4 * r <= dot L L.
Proof.
  intros HL Hb. unfold distance_calc.
  destruct (nth_error (spos s) i1) as [p1|], (nth_error (spos s) i0) as [p0|]; try discriminate.
  unfold distance_core. rewrite Hb, wrap_box. intros H. injection H as <-.
  destruct (pbc3_bound (vsub p1 p0) L HL) as (Bx & By & Bz).
  apply sq_bound in Bx, By, Bz. unfold dot. lia.
Qed.

(* ================================================================== scaling *)

Lemma pbc_loop_scale c d box :
  0 < c ->
  pbc_loop (map (Z.mul c) d) (map (Z.mul c) box) =
  match pbc_loop d box with Some r => Some (map (Z.mul c) r) | None => None end.
Proof.
  intros Hc. revert d. induction box as [|L box IH]; intros d.
  - cbn [map pbc_loop]. f_equal. rewrite !map_map. apply map_ext. intros; lia.
  - destruct d as [|x d]; [reflexivity|].
    cbn [map pbc_loop]. rewrite IH. destruct (pbc_loop d box); [|reflexivity].
    cbn [map]. rewrite pbc1_scale by assumption. reflexivity.
Qed.

Lemma pbc_vec_scale c d box :
  0 < c ->
  pbc_vec (vscale c d) (map (Z.mul c) box) =
  match pbc_vec d box with Some w => Some (vscale c w) | None => None end.
Proof.
  intros Hc. unfold pbc_vec.
  replace (vlist (vscale c d)) with (map (Z.mul c) (vlist d)) by (destruct d; reflexivity).
  rewrite pbc_loop_scale by assumption.
  destruct (pbc_loop (vlist d) box) as [[|a [|b [|e [|f r]]]]|]; reflexivity.
Qed.

Definition scale_box (c : Z) (box : option (list Z)) : option (list Z) :=
  match box with Some b => Some (map (Z.mul c) b) | None => None end.

Lemma wrap_scale c per box d :
  0 < c ->
  wrap per (scale_box c box) (vscale c d) =
  match wrap per box d with Some w => Some (vscale c w) | None => None end.
Proof.
  intros Hc. destruct per, box as [b|]; try reflexivity.
  cbn [wrap scale_box]. rewrite firstn_map. apply pbc_vec_scale, Hc.
Qed.

Lemma wrap_dv_scale c fx per box d :
  0 < c ->
  wrap_dv fx per (scale_box c box) (vscale c d) =
  match wrap_dv fx per box d with Some w => Some (vscale c w) | None => None end.
Proof.
  intros Hc. destruct per, box as [b|]; try reflexivity.
  cbn [wrap_dv scale_box]. destruct fx.
  - rewrite firstn_map. apply pbc_vec_scale, Hc.
  - apply pbc_vec_scale, Hc.
Qed.

Lemma distance_scale c i0 i1 per s :
  0 < c ->
  distance_calc i0 i1 per (scale_sys c s) = option_map (Z.mul (c * c)) (distance_calc i0 i1 per s).
Proof.
  intros Hc. unfold distance_calc, scale_sys. cbn [spos sbox]. rewrite !nth_error_map.
  destruct (nth_error (spos s) i1) as [p1|], (nth_error (spos s) i0) as [p0|]; try reflexivity.
  cbn [option_map]. unfold distance_core. fold (scale_box c (sbox s)).
  rewrite vsub_scale, wrap_scale by assumption.
  destruct (wrap per (sbox s) (vsub p1 p0)); [|reflexivity].
  cbn [option_map]. rewrite dot_scale. reflexivity.
Qed.

Definition dv_scale (kn kd : Z) (x : Z * Z) : Z * Z := (kn * fst x, kd * snd x).

Lemma distancevel_scale c fx i0 i1 per s :
  0 < c ->
  distancevel_calc fx i0 i1 per (scale_sys c s) =
  option_map (dv_scale (c * c) (c * c)) (distancevel_calc fx i0 i1 per s).
Proof.
  intros Hc. unfold distancevel_calc, scale_sys. cbn [spos svel sbox]. rewrite !nth_error_map.
  destruct (nth_error (spos s) i1) as [p1|], (nth_error (spos s) i0) as [p0|]; try reflexivity.
  destruct (nth_error (svel s) i1) as [w1|], (nth_error (svel s) i0) as [w0|]; try reflexivity.
  cbn [option_map]. unfold distancevel_core. fold (scale_box c (sbox s)).
  rewrite !vsub_scale, wrap_dv_scale by assumption.
  destruct (wrap_dv fx per (sbox s) (vsub p1 p0)); [|reflexivity].
  cbn [option_map]. unfold dv_scale. cbn [fst snd]. rewrite !dot_scale. reflexivity.
Qed.

Definition dih_scale (c k : Z) (x : dih) : dih :=
  Dih (c * c * dh_a x) (c * c * dh_b x) (c * c * dh_c x) (c * c * dh_bb x) (k * dh_t x).

Lemma dihedral_scale c i0 i1 i2 i3 per s :
  0 < c ->
  dihedral_calc i0 i1 i2 i3 per (scale_sys c s) =
  option_map (dih_scale c (c * c * c)) (dihedral_calc i0 i1 i2 i3 per s).
Proof.
  intros Hc. unfold dihedral_calc, scale_sys. cbn [spos sbox]. rewrite !nth_error_map.
  destruct (nth_error (spos s) i0) as [pa|], (nth_error (spos s) i1) as [pb|],
    (nth_error (spos s) i2) as [pc|], (nth_error (spos s) i3) as [pd|]; try reflexivity.
  cbn [option_map]. unfold dihedral_core. fold (scale_box c (sbox s)).
  rewrite !vsub_scale, !wrap_scale by assumption.
  destruct (wrap per (sbox s) (vsub pa pb)), (wrap per (sbox s) (vsub pb pc)),
    (wrap per (sbox s) (vsub pd pc)); try reflexivity.
  cbn [option_map]. unfold dih_scale. cbn [dh_a dh_b dh_c dh_bb dh_t].
  rewrite !dot_scale, triple_scale. reflexivity.
Qed.

Lemma position_scale c i dim s :
  position_calc i dim (scale_sys c s) = option_map (Z.mul c) (position_calc i dim s).
Proof.
  unfold position_calc, scale_sys. cbn [spos]. rewrite nth_error_map.
  destruct (nth_error (spos s) i) as [p|]; [|reflexivity].
  destruct p, dim as [|[|[|dim]]]; reflexivity.
Qed.

Lemma velocity_scale c i dim s :
  velocity_calc i dim (scale_sys c s) = option_map (Z.mul c) (velocity_calc i dim s).
Proof.
  unfold velocity_calc, scale_sys. cbn [svel]. rewrite nth_error_map.
  destruct (nth_error (svel s) i) as [p|]; [|reflexivity].
  destruct p, dim as [|[|[|dim]]]; reflexivity.
Qed.

(* puckering *)
Definition puck_scale (k n4 : Z) (x : puck) : puck := Puck (map (Z.mul k) (pk_zeta x)) (n4 * pk_nn x).

Lemma vsum_map_linear (f : v3 -> v3) l :
  f vzero = vzero -> (forall a b, vadd (f a) (f b) = f (vadd a b)) -> vsum (map f l) = f (vsum l).
Proof.
  intros H0 Hadd. induction l as [|p l IH]; [symmetry; exact H0|].
  cbn [map vsum fold_right]. fold (vsum (map f l)). fold (vsum l). rewrite IH. apply Hadd.
Qed.

Lemma vscale_zero c : vscale c vzero = vzero.
Proof. unfold vscale, vzero. cbn. f_equal; ring. Qed.

Lemma centre6_scale c ps : centre6 (map (vscale c) ps) = map (vscale c) (centre6 ps).
Proof.
  unfold centre6.
  rewrite (vsum_map_linear (vscale c)) by (auto using vscale_zero, vadd_scale).
  rewrite !map_map. apply map_ext. intros p.
  rewrite (vscale_scale c 6). apply vsub_scale.
Qed.

Lemma centre6_rot m ps : centre6 (map (mapply m) ps) = map (mapply m) (centre6 ps).
Proof.
  unfold centre6.
  rewrite (vsum_map_linear (mapply m)) by (auto using mapply_zero, mapply_add).
  rewrite !map_map. apply map_ext. intros p.
  rewrite mapply_scale. apply mapply_sub.
Qed.

Lemma dot_comm a b : dot a b = dot b a.
Proof. vring. Qed.


Lemma puck_eq z z' n n' : z = z' -> n = n' -> Some (Puck z n) = Some (Puck z' n').
Proof. intros -> ->. reflexivity. Qed.

Lemma dot_scale2 a b u v : dot (vscale a u) (vscale b v) = a * b * dot u v.
Proof. vring. Qed.

Lemma plane_of_scale c qs :
  plane_of (map (vscale c) qs) = option_map (puck_scale (c * c * c) (c * c * c * c)) (plane_of qs).
Proof.
  destruct qs as [|q0 [|q1 [|q2 [|q3 [|q4 [|q5 [|q6 qs]]]]]]]; try reflexivity.
  cbn [map plane_of option_map]. unfold puck_scale. cbn [pk_zeta pk_nn map].
  rewrite !(vscale_scale c 2), !vadd_scale, !vsub_scale, !vadd_scale, cross_scale.
  set (n := cross _ _).
  apply puck_eq; rewrite !dot_scale2.
  - repeat (apply f_equal2; [ring|]). reflexivity.
  - ring.
Qed.

Lemma zeta_rot m S T q : dot (mapply m q) (cross (mapply m S) (mapply m T)) = det m * dot q (cross S T).
Proof.
  rewrite !(dot_comm _ (cross _ _)). apply triple_rot.
Qed.

Lemma plane_of_rot m c qs :
  orthogonal m c ->
  plane_of (map (mapply m) qs) = option_map (puck_scale (det m) (c * c * c * c)) (plane_of qs).
Proof.
  intros Ho.
  destruct qs as [|q0 [|q1 [|q2 [|q3 [|q4 [|q5 [|q6 qs]]]]]]]; try reflexivity.
  cbn [map plane_of option_map]. unfold puck_scale. cbn [pk_zeta pk_nn map].
  rewrite !mapply_scale, !mapply_add, !mapply_sub, !mapply_add.
  apply puck_eq.
  - rewrite !zeta_rot. reflexivity.
  - apply cross_rot_sq, Ho.
Qed.

Lemma wrap_rel_scale c b p0 l :
  0 < c ->
  wrap_rel (map (Z.mul c) b) (vscale c p0) (map (vscale c) l) =
  match wrap_rel b p0 l with Some r => Some (map (vscale c) r) | None => None end.
Proof.
  intros Hc. induction l as [|p l IH]; [reflexivity|].
  cbn [map wrap_rel]. rewrite vsub_scale, pbc_vec_scale, IH by assumption.
  destruct (pbc_vec (vsub p p0) b), (wrap_rel b p0 l); reflexivity.
Qed.

Lemma puck_plane_scale c ps :
  puck_plane (map (vscale c) ps) = option_map (puck_scale (c * c * c) (c * c * c * c)) (puck_plane ps).
Proof. unfold puck_plane. rewrite centre6_scale. apply plane_of_scale. Qed.

Lemma puckering_core_scale c per box ps :
  0 < c ->
  puckering_core per (scale_box c box) (map (vscale c) ps) =
  option_map (puck_scale (c * c * c) (c * c * c * c)) (puckering_core per box ps).
Proof.
  intros Hc. unfold puckering_core, puck_whole.
  destruct per; [|apply puck_plane_scale].
  destruct box as [b|]; [|apply puck_plane_scale].
  destruct ps as [|p0 rest]; [reflexivity|].
  cbn [scale_box map]. rewrite firstn_map, wrap_rel_scale by assumption.
  destruct (wrap_rel (firstn 3 b) p0 rest) as [r|]; [|reflexivity].
  replace (vzero :: map (vscale c) r) with (map (vscale c) (vzero :: r))
    by (cbn [map]; rewrite vscale_zero; reflexivity).
  apply puck_plane_scale.
Qed.

Lemma puckering_scale c idx per s :
  0 < c ->
  puckering_calc idx per (scale_sys c s) =
  option_map (puck_scale (c * c * c) (c * c * c * c)) (puckering_calc idx per s).
Proof.
  intros Hc. unfold puckering_calc, scale_sys. cbn [spos sbox]. rewrite lookup_all_map.
  destruct (lookup_all (spos s) idx); [|reflexivity].
  fold (scale_box c (sbox s)). apply puckering_core_scale, Hc.
Qed.

(* ================================================================== rotation
   (non-periodic variants: a periodic box is not rotation symmetric) *)

Lemma distance_rotate m c i0 i1 s :
  orthogonal m c ->
  distance_calc i0 i1 false (rotate m s) = option_map (Z.mul (c * c)) (distance_calc i0 i1 false s).
Proof.
  intros Ho. unfold distance_calc, rotate. cbn [spos sbox]. rewrite !nth_error_map.
  destruct (nth_error (spos s) i1) as [p1|], (nth_error (spos s) i0) as [p0|]; try reflexivity.
  cbn [option_map]. unfold distance_core. cbn [wrap option_map].
  rewrite mapply_sub, (dot_rot m c) by assumption. reflexivity.
Qed.

Lemma distancevel_rotate m c fx i0 i1 s :
  orthogonal m c ->
  distancevel_calc fx i0 i1 false (rotate m s) =
  option_map (dv_scale (c * c) (c * c)) (distancevel_calc fx i0 i1 false s).
Proof.
  intros Ho. unfold distancevel_calc, rotate. cbn [spos svel sbox]. rewrite !nth_error_map.
  destruct (nth_error (spos s) i1) as [p1|], (nth_error (spos s) i0) as [p0|]; try reflexivity.
  destruct (nth_error (svel s) i1) as [w1|], (nth_error (svel s) i0) as [w0|]; try reflexivity.
  cbn [option_map]. unfold distancevel_core. cbn [wrap_dv option_map]. unfold dv_scale. cbn [fst snd].
  rewrite !mapply_sub, !(dot_rot m c) by assumption. reflexivity.
Qed.

Lemma dihedral_rotate m c i0 i1 i2 i3 s :
  orthogonal m c ->
  dihedral_calc i0 i1 i2 i3 false (rotate m s) =
  option_map (dih_scale c (det m)) (dihedral_calc i0 i1 i2 i3 false s).
Proof.
  intros Ho. unfold dihedral_calc, rotate. cbn [spos sbox]. rewrite !nth_error_map.
  destruct (nth_error (spos s) i0) as [pa|], (nth_error (spos s) i1) as [pb|],
    (nth_error (spos s) i2) as [pc|], (nth_error (spos s) i3) as [pd|]; try reflexivity.
  cbn [option_map]. unfold dihedral_core. cbn [wrap option_map]. unfold dih_scale.
  cbn [dh_a dh_b dh_c dh_bb dh_t].
  rewrite !mapply_sub, !(dot_rot m c), triple_rot by assumption. reflexivity.
Qed.

Lemma puckering_rotate m c idx s :
  orthogonal m c ->
  puckering_calc idx false (rotate m s) =
  option_map (puck_scale (det m) (c * c * c * c)) (puckering_calc idx false s).
Proof.
  intros Ho. unfold puckering_calc, rotate. cbn [spos sbox]. rewrite lookup_all_map.
  destruct (lookup_all (spos s) idx) as [ps|]; [|reflexivity].
  unfold puckering_core. cbn [puck_whole]. unfold puck_plane.
  rewrite centre6_rot. apply plane_of_rot, Ho.
Qed.

(* proper rotation M / c : same arguments as the unrotated system at the common scale c *)
Lemma distance_rotation m c i0 i1 s :
  0 < c -> orthogonal m c ->
  distance_calc i0 i1 false (rotate m s) = distance_calc i0 i1 false (scale_sys c s).
Proof. intros Hc Ho. rewrite (distance_rotate m c), distance_scale by assumption. reflexivity. Qed.

Lemma distancevel_rotation m c fx i0 i1 s :
  0 < c -> orthogonal m c ->
  distancevel_calc fx i0 i1 false (rotate m s) = distancevel_calc fx i0 i1 false (scale_sys c s).
Proof. intros Hc Ho. rewrite (distancevel_rotate m c), distancevel_scale by assumption. reflexivity. Qed.

Lemma dihedral_rotation m c i0 i1 i2 i3 s :
  0 < c -> orthogonal m c -> det m = c * c * c ->
  dihedral_calc i0 i1 i2 i3 false (rotate m s) = dihedral_calc i0 i1 i2 i3 false (scale_sys c s).
Proof.
  intros Hc Ho Hd. rewrite (dihedral_rotate m c), dihedral_scale by assumption.
  rewrite Hd. reflexivity.
Qed.

Definition dih_mirror (x : dih) : dih := Dih (dh_a x) (dh_b x) (dh_c x) (dh_bb x) (- dh_t x).

(* improper (mirror) transformation: numer, hence the angle, changes sign *)
Lemma dihedral_improper m c i0 i1 i2 i3 s :
  0 < c -> orthogonal m c -> det m = - (c * c * c) ->
  dihedral_calc i0 i1 i2 i3 false (rotate m s) =
  option_map dih_mirror (dihedral_calc i0 i1 i2 i3 false (scale_sys c s)).
Proof.
  intros Hc Ho Hd. rewrite (dihedral_rotate m c), dihedral_scale by assumption.
  rewrite Hd. destruct (dihedral_calc i0 i1 i2 i3 false s) as [x|]; [|reflexivity].
  cbn [option_map]. unfold dih_mirror, dih_scale. cbn [dh_a dh_b dh_c dh_bb dh_t].
  do 2 f_equal. ring.
Qed.

Lemma puckering_rotation m c idx s :
  0 < c -> orthogonal m c -> det m = c * c * c ->
  puckering_calc idx false (rotate m s) = puckering_calc idx false (scale_sys c s).
Proof.
  intros Hc Ho Hd. rewrite (puckering_rotate m c), puckering_scale by assumption.
  rewrite Hd. reflexivity.
Qed.

(* ================================================================== velocity reversal *)

Lemma distancevel_reverse fx i0 i1 per s :
  distancevel_calc fx i0 i1 per (reverse_vel s) =
  option_map (dv_scale (-1) 1) (distancevel_calc fx i0 i1 per s).
Proof.
  unfold distancevel_calc, reverse_vel. cbn [spos svel sbox]. rewrite !nth_error_map.
  destruct (nth_error (spos s) i1) as [p1|], (nth_error (spos s) i0) as [p0|]; try reflexivity.
  destruct (nth_error (svel s) i1) as [w1|], (nth_error (svel s) i0) as [w0|]; try reflexivity.
  cbn [option_map]. unfold distancevel_core.
  destruct (wrap_dv fx per (sbox s) (vsub p1 p0)) as [d|]; [|reflexivity].
  cbn [option_map]. unfold dv_scale. cbn [fst snd]. rewrite vsub_neg, dot_vneg_r.
  f_equal. f_equal; ring.
Qed.

Lemma velocity_reverse i dim s :
  velocity_calc i dim (reverse_vel s) = option_map Z.opp (velocity_calc i dim s).
Proof.
  unfold velocity_calc, reverse_vel. cbn [svel]. rewrite nth_error_map.
  destruct (nth_error (svel s) i) as [w|]; [|reflexivity].
  destruct w, dim as [|[|[|dim]]]; reflexivity.
Qed.

(* position-type parameters do not read the velocities at all *)
Lemma position_type_velocity_free pos box v v' :
  (forall i dim, position_calc i dim (Sys pos v box) = position_calc i dim (Sys pos v' box)) /\
  (forall i0 i1 per, distance_calc i0 i1 per (Sys pos v box) = distance_calc i0 i1 per (Sys pos v' box)) /\
  (forall i0 i1 i2 i3 per, dihedral_calc i0 i1 i2 i3 per (Sys pos v box) = dihedral_calc i0 i1 i2 i3 per (Sys pos v' box)) /\
  (forall idx per, puckering_calc idx per (Sys pos v box) = puckering_calc idx per (Sys pos v' box)).
Proof. repeat split. Qed.

Lemma position_type_reverse s :
  (forall i dim, position_calc i dim (reverse_vel s) = position_calc i dim s) /\
  (forall i0 i1 per, distance_calc i0 i1 per (reverse_vel s) = distance_calc i0 i1 per s) /\
  (forall i0 i1 i2 i3 per, dihedral_calc i0 i1 i2 i3 per (reverse_vel s) = dihedral_calc i0 i1 i2 i3 per s) /\
  (forall idx per, puckering_calc idx per (reverse_vel s) = puckering_calc idx per s).
Proof. repeat split. Qed.

(* EngineBase.calculate_order with the vel_rev flag = the order parameter on the
   velocity-reversed state *)
Lemma calculate_order_flag {A} (calc : system -> option A) xyz vel box :
  calculate_order calc true xyz vel box = calc (reverse_vel (Sys xyz vel box)) /\
  calculate_order calc false xyz vel box = calc (Sys xyz vel box).
Proof. split; reflexivity. Qed.

(* the file route: as soon as one of xyz / vel / box is not handed in, the phase point is
   the file's, with the direction of the vel_rev flag applied to the file's velocities *)
Definition any_missing (xyz vel : option (list v3)) (box : option (list Z)) : bool :=
  match xyz, vel, box with Some _, Some _, Some _ => false | _, _, _ => true end.

Definition file_box (conf : system) (box0 : option (list Z)) : option (list Z) :=
  match sbox conf with Some b => Some b | None => box0 end.

Lemma calculate_order_file_route {A} (calc : system -> option A) r conf box0 xyz vel box :
  any_missing xyz vel box = true ->
  calculate_order_args calc r conf box0 xyz vel box =
  calculate_order calc r (spos conf) (svel conf) (file_box conf box0).
Proof.
  unfold any_missing, calculate_order_args, calculate_order, file_box.
  destruct xyz, vel, box; intro H; try discriminate H; reflexivity.
Qed.

Lemma calculate_order_array_route {A} (calc : system -> option A) r conf box0 x v b :
  calculate_order_args calc r conf box0 (Some x) (Some v) (Some b) = calculate_order calc r x v (Some b).
Proof. reflexivity. Qed.

(* both routes give the same value for the same phase point *)
Lemma calculate_order_routes_agree {A} (calc : system -> option A) r x v b box0 xyz vel box :
  any_missing xyz vel box = true ->
  calculate_order_args calc r (Sys x v (Some b)) box0 xyz vel box =
  calculate_order_args calc r (Sys x v (Some b)) box0 (Some x) (Some v) (Some b).
Proof.
  intro H. rewrite (calculate_order_file_route calc r _ box0 xyz vel box H). reflexivity.
Qed.

Lemma calculate_order_file_flag {A} (calc : system -> option A) conf box0 xyz vel box :
  any_missing xyz vel box = true ->
  calculate_order_args calc true conf box0 xyz vel box =
    calc (reverse_vel (Sys (spos conf) (svel conf) (file_box conf box0))) /\
  calculate_order_args calc false conf box0 xyz vel box =
    calc (Sys (spos conf) (svel conf) (file_box conf box0)).
Proof.
  intro H. rewrite !(calculate_order_file_route calc _ conf box0 xyz vel box H).
  apply calculate_order_flag.
Qed.

(* sign of the velocity-type parameters / invariance of the position-type ones under the
   vel_rev flag, on whichever route the phase point is obtained *)
Lemma calculate_order_args_velocity i dim conf box0 xyz vel box :
  calculate_order_args (velocity_calc i dim) true conf box0 xyz vel box =
  option_map Z.opp (calculate_order_args (velocity_calc i dim) false conf box0 xyz vel box).
Proof.
  destruct (any_missing xyz vel box) eqn:H.
  - destruct (calculate_order_file_flag (velocity_calc i dim) conf box0 xyz vel box H) as [Ht Hf].
    rewrite Ht, Hf. apply velocity_reverse.
  - destruct xyz as [x|], vel as [v|], box as [b|]; try discriminate H.
    rewrite !calculate_order_array_route.
    destruct (calculate_order_flag (velocity_calc i dim) x v (Some b)) as [Ht Hf].
    rewrite Ht, Hf. apply velocity_reverse.
Qed.

Lemma calculate_order_args_distancevel fx i0 i1 per conf box0 xyz vel box :
  calculate_order_args (distancevel_calc fx i0 i1 per) true conf box0 xyz vel box =
  option_map (dv_scale (-1) 1) (calculate_order_args (distancevel_calc fx i0 i1 per) false conf box0 xyz vel box).
Proof.
  destruct (any_missing xyz vel box) eqn:H.
  - destruct (calculate_order_file_flag (distancevel_calc fx i0 i1 per) conf box0 xyz vel box H) as [Ht Hf].
    rewrite Ht, Hf. apply distancevel_reverse.
  - destruct xyz as [x|], vel as [v|], box as [b|]; try discriminate H.
    rewrite !calculate_order_array_route.
    destruct (calculate_order_flag (distancevel_calc fx i0 i1 per) x v (Some b)) as [Ht Hf].
    rewrite Ht, Hf. apply distancevel_reverse.
Qed.

Lemma calculate_order_args_position_type conf box0 xyz vel box :
  (forall i dim, calculate_order_args (position_calc i dim) true conf box0 xyz vel box =
                 calculate_order_args (position_calc i dim) false conf box0 xyz vel box) /\
  (forall i0 i1 per, calculate_order_args (distance_calc i0 i1 per) true conf box0 xyz vel box =
                     calculate_order_args (distance_calc i0 i1 per) false conf box0 xyz vel box) /\
  (forall i0 i1 i2 i3 per, calculate_order_args (dihedral_calc i0 i1 i2 i3 per) true conf box0 xyz vel box =
                           calculate_order_args (dihedral_calc i0 i1 i2 i3 per) false conf box0 xyz vel box) /\
  (forall idx per, calculate_order_args (puckering_calc idx per) true conf box0 xyz vel box =
                   calculate_order_args (puckering_calc idx per) false conf box0 xyz vel box).
Proof.
  unfold calculate_order_args, calculate_order.
  destruct xyz, vel, box; repeat split.
Qed.

(* ================================================================== propagate: the direction flag *)

Lemma vneg_involutive a : vneg (vneg a) = a.
Proof. destruct a. unfold vneg. cbn. f_equal; ring. Qed.

Lemma map_vneg_involutive l : map vneg (map vneg l) = l.
Proof.
  induction l as [|a l IH]; [reflexivity|]. cbn [map]. rewrite vneg_involutive, IH. reflexivity.
Qed.

(* the order stored for a frame made by propagate(reverse = r) is the order parameter of the
   frame's raw content under flag r - whatever flag the shooting point came in with *)
Lemma propagate_frame_flag {A} (calc : system -> option A) f r xyz vel box :
  propagate_frame calc f r xyz vel box = (calc (Sys xyz (if r then map vneg vel else vel) box), r).
Proof. reflexivity. Qed.

(* ... hence recomputing the order from the frame's raw content under the frame's own stored
   flag (what calculate_order does for a stored phase point) gives the stored order *)
Lemma propagate_frame_recompute {A} (calc : system -> option A) f r xyz vel box :
  fst (propagate_frame calc f r xyz vel box) =
  calculate_order calc (snd (propagate_frame calc f r xyz vel box)) xyz vel box.
Proof. reflexivity. Qed.

(* frame 0 of either direction carries the order of the shooting point (same convention) *)
Lemma propagate_frame0_shooting_point {A} (calc : system -> option A) f r xyz vel box :
  fst (propagate_frame0 calc f r xyz vel box) = calculate_order calc f xyz vel box /\
  snd (propagate_frame0 calc f r xyz vel box) = r.
Proof.
  split; [|reflexivity].
  unfold propagate_frame0, propagate_frame, propagate_flag, propagate_start, calculate_order. cbn [fst].
  destruct f, r; cbn [Bool.eqb]; rewrite ?map_vneg_involutive; reflexivity.
Qed.

(* the reversed point: the same file under the toggled flag, or a file with the physical
   velocities negated under flag false; a run from it in the opposite direction starts the
   engine with the same raw velocities *)
Lemma propagate_start_toggled (f r : bool) (vel : list v3) :
  propagate_start (negb f) (negb r) vel = propagate_start f r vel.
Proof. unfold propagate_start. destruct f, r; reflexivity. Qed.

Lemma propagate_start_reversed_file (f : bool) (vel : list v3) :
  propagate_start false false (if f then vel else map vneg vel) = propagate_start f true vel.
Proof. unfold propagate_start. destruct f; reflexivity. Qed.

(* on the same raw frame, the backward run stores the sign-reversed (velocity-type) / the same
   (position-type) order as the forward run *)
Lemma propagate_backward_velocity i dim f f' xyz vel box :
  fst (propagate_frame (velocity_calc i dim) f true xyz vel box) =
  option_map Z.opp (fst (propagate_frame (velocity_calc i dim) f' false xyz vel box)).
Proof.
  unfold propagate_frame, propagate_flag. cbn [fst].
  destruct (calculate_order_flag (velocity_calc i dim) xyz vel box) as [Ht Hf].
  rewrite Ht, Hf. apply velocity_reverse.
Qed.

Lemma propagate_backward_distancevel fx i0 i1 per f f' xyz vel box :
  fst (propagate_frame (distancevel_calc fx i0 i1 per) f true xyz vel box) =
  option_map (dv_scale (-1) 1) (fst (propagate_frame (distancevel_calc fx i0 i1 per) f' false xyz vel box)).
Proof.
  unfold propagate_frame, propagate_flag. cbn [fst].
  destruct (calculate_order_flag (distancevel_calc fx i0 i1 per) xyz vel box) as [Ht Hf].
  rewrite Ht, Hf. apply distancevel_reverse.
Qed.

Lemma propagate_backward_position_type f f' xyz vel box :
  (forall i dim, fst (propagate_frame (position_calc i dim) f true xyz vel box) =
                 fst (propagate_frame (position_calc i dim) f' false xyz vel box)) /\
  (forall i0 i1 per, fst (propagate_frame (distance_calc i0 i1 per) f true xyz vel box) =
                     fst (propagate_frame (distance_calc i0 i1 per) f' false xyz vel box)) /\
  (forall i0 i1 i2 i3 per, fst (propagate_frame (dihedral_calc i0 i1 i2 i3 per) f true xyz vel box) =
                           fst (propagate_frame (dihedral_calc i0 i1 i2 i3 per) f' false xyz vel box)) /\
  (forall idx per, fst (propagate_frame (puckering_calc idx per) f true xyz vel box) =
                   fst (propagate_frame (puckering_calc idx per) f' false xyz vel box)).
Proof. repeat split. Qed.

(* ================================================================== box forms *)

Lemma firstn3_idem (b : list Z) : firstn 3 (firstn 3 b) = firstn 3 b.
Proof. rewrite firstn_firstn. reflexivity. Qed.

Lemma box_form_distance i0 i1 per pos vel b :
  distance_calc i0 i1 per (Sys pos vel (Some b)) = distance_calc i0 i1 per (Sys pos vel (Some (firstn 3 b))).
Proof.
  unfold distance_calc, distance_core. cbn [spos sbox]. destruct per; cbn [wrap]; [|reflexivity].
  rewrite firstn3_idem. reflexivity.
Qed.

Lemma box_form_distancevel i0 i1 per pos vel b :
  distancevel_calc true i0 i1 per (Sys pos vel (Some b)) =
  distancevel_calc true i0 i1 per (Sys pos vel (Some (firstn 3 b))).
Proof.
  unfold distancevel_calc, distancevel_core. cbn [spos svel sbox]. destruct per; cbn [wrap_dv]; [|reflexivity].
  rewrite firstn3_idem. reflexivity.
Qed.

Lemma box_form_dihedral i0 i1 i2 i3 per pos vel b :
  dihedral_calc i0 i1 i2 i3 per (Sys pos vel (Some b)) =
  dihedral_calc i0 i1 i2 i3 per (Sys pos vel (Some (firstn 3 b))).
Proof.
  unfold dihedral_calc, dihedral_core. cbn [spos sbox]. destruct per; cbn [wrap]; [|reflexivity].
  rewrite firstn3_idem. reflexivity.
Qed.

Lemma box_form_puckering idx per pos vel b :
  puckering_calc idx per (Sys pos vel (Some b)) = puckering_calc idx per (Sys pos vel (Some (firstn 3 b))).
Proof.
  unfold puckering_calc, puckering_core, puck_whole. cbn [spos sbox]. destruct per; [|reflexivity].
  rewrite firstn3_idem. reflexivity.
Qed.

(* the code as it is in /repo (fixed_L7 = false): EVERY box with more than three
   components makes the periodic Distancevel fail *)
Lemma distancevel_unrepaired_long_box i0 i1 pos vel a b c e rest :
  distancevel_calc false i0 i1 true (Sys pos vel (Some (a :: b :: c :: e :: rest))) = None.
Proof.
  unfold distancevel_calc. cbn [spos svel sbox].
  destruct (nth_error pos i1), (nth_error pos i0); try reflexivity.
  destruct (nth_error vel i1), (nth_error vel i0); reflexivity.
Qed.

(* ================================================================== Path.reverse *)

Definition toggle {A} (rev_v : bool) (f : pframe A) : pframe A :=
  PF (pf_order f) (if rev_v then negb (pf_rev f) else pf_rev f) (pf_sys f).

Lemma all_some_map_some {B C} (g : B -> C) (l : list B) : all_some (map (fun x => Some (g x)) l) = Some (map g l).
Proof. induction l as [|x l IH]; [reflexivity|]. cbn [map all_some]. rewrite IH. reflexivity. Qed.

(* velocity-independent order parameter (or rev_v = False): orders are kept *)
Lemma path_reverse_keeps {A} (calc : system -> option A) veldep rev_v fs :
  veldep && rev_v = false ->
  path_reverse calc veldep rev_v fs = Some (map (toggle rev_v) (rev fs)).
Proof.
  intros H. unfold path_reverse.
  rewrite <- all_some_map_some. f_equal. apply map_ext. intros f.
  unfold reverse_frame. rewrite H. reflexivity.
Qed.

(* velocity-dependent: the order is recomputed from the STORED velocities; the toggled
   flag is not applied to them *)
Lemma all_some_Forall2 {B C} (g : B -> option C) (l : list B) r :
  all_some (map g l) = Some r -> Forall2 (fun x y => g x = Some y) l r.
Proof.
  revert r. induction l as [|x l IH]; intros r H; cbn [map all_some] in H.
  - injection H as <-. constructor.
  - destruct (g x) as [y|] eqn:E; [|discriminate].
    destruct (all_some (map g l)) as [t|]; [|discriminate].
    injection H as <-. constructor; [exact E | apply IH; reflexivity].
Qed.

Lemma Forall2_weaken {B C} (P Q : B -> C -> Prop) l r :
  (forall x y, P x y -> Q x y) -> Forall2 P l r -> Forall2 Q l r.
Proof. intros HPQ H. induction H; constructor; auto. Qed.

Lemma path_reverse_recomputes {A} (calc : system -> option A) fs r :
  path_reverse calc true true fs = Some r ->
  Forall2 (fun f g => exists s, pf_sys f = Some s /\ calc s = Some (pf_order g) /\
                                pf_rev g = negb (pf_rev f) /\ pf_sys g = pf_sys f) (rev fs) r.
Proof.
  intros H. apply all_some_Forall2 in H.
  eapply Forall2_weaken; [|exact H]. intros f g Hfg. cbn beta in Hfg.
  unfold reverse_frame in Hfg. cbn [andb] in Hfg.
  destruct (pf_sys f) as [s|] eqn:Es; [|discriminate].
  destruct (calc s) as [o|] eqn:Eo; [|discriminate].
  injection Hfg as <-. exists s. cbn [pf_order pf_rev pf_sys]. auto.
Qed.

(* a frame without stored coordinates (every frame made by snapshot_to_system) cannot be
   re-evaluated: lead L12 *)
Lemma all_some_none {B} (l : list (option B)) : In None l -> all_some l = None.
Proof.
  induction l as [|x l IH]; intros H; [destruct H|].
  cbn [all_some]. destruct x as [x|]; [|reflexivity].
  destruct H as [H|H]; [discriminate|]. rewrite IH by assumption. reflexivity.
Qed.

Lemma path_reverse_unevaluable {A} (calc : system -> option A) fs f :
  In f fs -> pf_sys f = None -> path_reverse calc true true fs = None.
Proof.
  intros Hin Hn. unfold path_reverse. apply all_some_none.
  apply in_map_iff. exists f. split.
  - unfold reverse_frame. cbn [andb]. rewrite Hn. reflexivity.
  - apply in_rev. rewrite rev_involutive. exact Hin.
Qed.

(* ================================================================== witnesses *)

(* the guard of the image-shift theorems is necessary: at a half-box separation the
   wrapped component changes sign with the image, and the distance rate with it *)
Definition wit_tie_sys : system :=
  Sys [V3 0 0 0; V3 1 0 0] [V3 0 0 0; V3 1 0 0] (Some [2; 2; 2]).

Lemma image_shift_guard_necessary :
  exists L rest ks s,
    boxpos L /\ sbox s = Some (box_of L rest) /\ sep_tie s 1 0 L = true /\
    distancevel_calc true 0 1 true s = Some (1, 1) /\
    distancevel_calc true 0 1 true (shift_images L ks s) = Some (-1, 1).
Proof.
  exists (V3 2 2 2), [], [V3 0 0 0; V3 1 0 0], wit_tie_sys.
  unfold boxpos. cbn [vx vy vz]. repeat split; try lia; vm_compute; reflexivity.
Qed.

Lemma image_shift_guard_necessary_dihedral :
  exists L rest ks s,
    boxpos L /\ sbox s = Some (box_of L rest) /\ sep_tie s 0 1 L = true /\
    dihedral_calc 0 1 2 3 true (shift_images L ks s) <> dihedral_calc 0 1 2 3 true s.
Proof.
  exists (V3 8 8 8), [], [V3 1 0 0],
    (Sys [V3 4 1 0; V3 0 0 0; V3 0 0 2; V3 1 1 3] [] (Some [8; 8; 8])).
  unfold boxpos. cbn [vx vy vz]. repeat split; try lia; vm_compute; try reflexivity. discriminate.
Qed.

(* lead L7: with the unrepaired Distancevel the two box forms do not agree *)
Lemma box_form_distancevel_refuted :
  exists pos vel b,
    length b = 9%nat /\
    distancevel_calc false 0 1 true (Sys pos vel (Some (firstn 3 b))) = Some (1, 1) /\
    distancevel_calc false 0 1 true (Sys pos vel (Some b)) = None.
Proof.
  exists [V3 0 0 0; V3 1 0 0], [V3 0 0 0; V3 1 0 0], [2; 2; 2; 0; 0; 0; 0; 0; 0].
  repeat split.
Qed.

(* lead L12: Path.reverse keeps the sign of a velocity-type order parameter although the
   frame now stands for the velocity-reversed state *)
Lemma path_reverse_sign_refuted :
  exists s o,
    velocity_calc 0 0 s = Some o /\ velocity_calc 0 0 (reverse_vel s) = Some (- o) /\ - o <> o /\
    path_reverse (velocity_calc 0 0) true true [PF o false (Some s)] = Some [PF o true (Some s)].
Proof.
  exists (Sys [V3 0 0 0] [V3 3 0 0] None), 3. repeat split. discriminate.
Qed.
