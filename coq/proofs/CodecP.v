(* Proofs about the codec model (property C19). *)
From Coq Require Import ZArith QArith Qabs List Bool Lia Arith Permutation Sorted.
Import ListNotations.
From Inf Require Import gen.ParamsC19 model.CodecM.
Open Scope Z_scope.

(* ================================================================== strings *)

Definition no_space (s : str) : Prop := forallb (fun c => negb (is_space c)) s = true.
Definition spaces (s : str) : Prop := forallb is_space s = true.

Lemma no_space_app a b : no_space (a ++ b) <-> no_space a /\ no_space b.
Proof. unfold no_space. rewrite forallb_app, andb_true_iff. tauto. Qed.

Lemma no_space_rev s : no_space s -> no_space (rev s).
Proof.
  unfold no_space. rewrite !forallb_forall. intros H x Hx. apply H. now apply in_rev.
Qed.

Lemma lstrip_nospace s : no_space s -> lstrip s = s.
Proof.
  destruct s as [|c r]; [reflexivity|]. unfold no_space. cbn. intros H.
  apply andb_true_iff in H. destruct H as [H _]. destruct (is_space c); [discriminate|reflexivity].
Qed.

Lemma lstrip_spaces_app sp s : spaces sp -> lstrip (sp ++ s) = lstrip s.
Proof.
  unfold spaces. induction sp as [|c sp IH]; cbn; [reflexivity|]. intros H.
  apply andb_true_iff in H. destruct H as [Hc H]. rewrite Hc. auto.
Qed.

Lemma spaces_repeat k : spaces (repeat c_sp k).
Proof. unfold spaces. induction k; cbn; auto. Qed.

Lemma rstrip_nospace s : no_space s -> rstrip s = s.
Proof. intros H. unfold rstrip. rewrite lstrip_nospace by now apply no_space_rev. apply rev_involutive. Qed.

(* a string that ends with a non-empty white-space-free part is not shortened by rstrip *)
Lemma rstrip_app_nospace a b : no_space b -> b <> [] -> rstrip (a ++ b) = a ++ b.
Proof.
  intros Hb Hne. unfold rstrip. rewrite rev_app_distr.
  assert (Hr : no_space (rev b)) by now apply no_space_rev.
  destruct (rev b) as [|c r] eqn:E.
  - exfalso. apply Hne. rewrite <- (rev_involutive b), E. reflexivity.
  - unfold no_space in Hr. cbn [forallb] in Hr. apply andb_true_iff in Hr. destruct Hr as [Hc _].
    apply negb_true_iff in Hc. rewrite <- app_comm_cons. cbn [lstrip]. rewrite Hc.
    rewrite app_comm_cons, <- E, <- rev_app_distr. apply rev_involutive.
Qed.

Lemma strip_pad_nospace k s : no_space s -> strip (repeat c_sp k ++ s) = s.
Proof.
  intros H. unfold strip. rewrite lstrip_spaces_app by apply spaces_repeat.
  rewrite lstrip_nospace by assumption. now apply rstrip_nospace.
Qed.

(* ---- tokens *)
Lemma tokens_aux_nospace t : forall cur r, no_space t -> tokens_aux cur (t ++ r) = tokens_aux (rev t ++ cur) r.
Proof.
  induction t as [|c t IH]; intros cur r H; [reflexivity|].
  unfold no_space in H. cbn in H. apply andb_true_iff in H. destruct H as [Hc H].
  cbn. destruct (is_space c); [discriminate|]. rewrite IH by exact H. now rewrite <- app_assoc.
Qed.

Lemma tokens_aux_spaces sp : forall r, spaces sp -> tokens_aux [] (sp ++ r) = tokens_aux [] r.
Proof.
  induction sp as [|c sp IH]; intros r H; [reflexivity|].
  unfold spaces in H. cbn in H. apply andb_true_iff in H. destruct H as [Hc H].
  cbn. rewrite Hc. cbn. now apply IH.
Qed.

(* one token followed by nothing, or by a white-space character *)
Lemma tokens_tok_end t : no_space t -> t <> [] -> tokens_aux [] t = [t].
Proof.
  intros H Hne. rewrite <- (app_nil_r t) at 1. rewrite tokens_aux_nospace by exact H.
  rewrite app_nil_r. cbn [tokens_aux]. destruct (rev t) eqn:E.
  - exfalso. apply Hne. rewrite <- (rev_involutive t), E. reflexivity.
  - cbn [is_nil]. rewrite <- E, rev_involutive. reflexivity.
Qed.

Lemma tokens_tok_sp t c r : no_space t -> t <> [] -> is_space c = true ->
  tokens_aux [] (t ++ c :: r) = t :: tokens_aux [] r.
Proof.
  intros H Hne Hc. rewrite tokens_aux_nospace by exact H. cbn [tokens_aux]. rewrite Hc, app_nil_r.
  destruct (rev t) eqn:E.
  - exfalso. apply Hne. rewrite <- (rev_involutive t), E. reflexivity.
  - cbn [is_nil]. rewrite <- E, rev_involutive. reflexivity.
Qed.

(* ================================================================== digits *)

Lemma pow10_pos k : 0 < pow10 k.
Proof. unfold pow10. apply Z.pow_pos_nonneg; lia. Qed.

Lemma pow10_S k : pow10 (S k) = 10 * pow10 k.
Proof. unfold pow10. rewrite Nat2Z.inj_succ, Z.pow_succ_r by lia. reflexivity. Qed.

Lemma pow10_add a b : pow10 (a + b) = pow10 a * pow10 b.
Proof. unfold pow10. rewrite Nat2Z.inj_add, Z.pow_add_r by lia. reflexivity. Qed.

Lemma pow10_le a b : (a <= b)%nat -> pow10 a <= pow10 b.
Proof. intros H. unfold pow10. apply Z.pow_le_mono_r; lia. Qed.

Lemma pow10p_spec k : Zpos (pow10p k) = pow10 k.
Proof. unfold pow10p. apply Z2Pos.id. apply pow10_pos. Qed.

Lemma fixed_digits_length k : forall n, length (fixed_digits k n) = k.
Proof. induction k; intros n; cbn; [reflexivity|]. rewrite app_length, IHk. cbn. lia. Qed.

Lemma digit_char n : is_digit (c_zero + n mod 10) = true /\ is_space (c_zero + n mod 10) = false.
Proof.
  pose proof (Z.mod_pos_bound n 10 ltac:(lia)) as H. unfold is_digit, is_space, c_zero.
  split.
  - apply andb_true_iff; split; apply Z.leb_le; lia.
  - repeat (apply orb_false_iff; split).
    + apply Z.eqb_neq; lia.
    + apply andb_false_iff. right. apply Z.leb_gt; lia.
    + apply andb_false_iff. right. apply Z.leb_gt; lia.
Qed.

Lemma fixed_digits_digits k : forall n, forallb is_digit (fixed_digits k n) = true.
Proof.
  induction k; intros n; cbn [fixed_digits]; [reflexivity|]. rewrite forallb_app, IHk. cbn [forallb andb].
  now rewrite (proj1 (digit_char n)).
Qed.

Lemma fixed_digits_nospace k : forall n, no_space (fixed_digits k n).
Proof.
  unfold no_space. induction k; intros n; cbn [fixed_digits]; [reflexivity|]. rewrite forallb_app, IHk. cbn [forallb andb].
  now rewrite (proj2 (digit_char n)).
Qed.

Lemma digits_value_app a : forall acc b, digits_value acc (a ++ b) = digits_value (digits_value acc a) b.
Proof. induction a; intros; cbn; auto. Qed.

Lemma digits_value_fixed k : forall n acc,
  digits_value acc (fixed_digits k n) = acc * pow10 k + n mod pow10 k.
Proof.
  induction k; intros n acc.
  - cbn. unfold pow10. cbn. rewrite Z.mod_1_r. lia.
  - cbn [fixed_digits]. rewrite digits_value_app, IHk. cbn [digits_value].
    rewrite pow10_S. rewrite (Z.rem_mul_r n 10 (pow10 k)) by (try lia; apply pow10_pos).
    unfold c_zero. lia.
Qed.

Lemma ndigits_fuel_spec f : forall n, 0 <= n < 2 ^ Z.of_nat f ->
  (1 <= ndigits_fuel f n)%nat /\ n < pow10 (ndigits_fuel f n) /\
  (10 <= n -> pow10 (ndigits_fuel f n - 1) <= n).
Proof.
  induction f as [|f IH]; intros n Hn.
  - cbn in *. split; [lia|]. split; [unfold pow10; cbn; lia|lia].
  - cbn [ndigits_fuel]. destruct (Z.ltb_spec n 10) as [Hlt|Hge].
    + split; [lia|]. split; [unfold pow10; cbn; lia|lia].
    + rewrite Nat2Z.inj_succ, Z.pow_succ_r in Hn by lia.
      assert (Hq : 0 <= n / 10 < 2 ^ Z.of_nat f).
      { split; [apply Z.div_pos; lia|]. apply Z.div_lt_upper_bound; lia. }
      destruct (IH _ Hq) as (H1 & H2 & H3).
      pose proof (Z.div_mod n 10 ltac:(lia)) as Hdm.
      pose proof (Z.mod_pos_bound n 10 ltac:(lia)) as Hmb.
      split; [lia|]. split.
      * rewrite pow10_S. lia.
      * intros _. replace (S (ndigits_fuel f (n / 10)) - 1)%nat with (ndigits_fuel f (n / 10)) by lia.
        destruct (Z.ltb_spec (n / 10) 10) as [Hs|Hb].
        -- assert (E : ndigits_fuel f (n / 10) = 1%nat).
           { destruct f; cbn; [reflexivity|]. destruct (Z.ltb_spec (n / 10) 10); [reflexivity|lia]. }
           rewrite E. unfold pow10. cbn. lia.
        -- specialize (H3 Hb).
           replace (ndigits_fuel f (n / 10)) with (S (ndigits_fuel f (n / 10) - 1)) by lia.
           rewrite pow10_S. lia.
Qed.

Lemma ndigits_spec n : 0 <= n ->
  (1 <= ndigits n)%nat /\ n < pow10 (ndigits n) /\ (10 <= n -> pow10 (ndigits n - 1) <= n).
Proof.
  intros Hn. unfold ndigits. apply ndigits_fuel_spec. split; [exact Hn|].
  rewrite Nat2Z.inj_succ, Z2Nat.id by apply Z.log2_nonneg.
  destruct (Z.eq_dec n 0) as [->|Hnz]; [cbn; lia|].
  apply Z.log2_spec. lia.
Qed.

Lemma ndigits_le_iff n m : 0 <= n -> (1 <= m)%nat -> (ndigits n <= m)%nat <-> n < pow10 m.
Proof.
  intros Hn Hm. destruct (ndigits_spec n Hn) as (H1 & H2 & H3). split.
  - intros H. pose proof (pow10_le _ _ H). lia.
  - intros H. destruct (le_lt_dec (ndigits n) m) as [|Hgt]; [assumption|exfalso].
    assert (H10 : 10 <= n).
    { destruct (Z.ltb_spec n 10) as [Hs|]; [|assumption]. exfalso.
      unfold ndigits in Hgt. cbn [ndigits_fuel] in Hgt.
      destruct (Z.ltb_spec n 10); lia. }
    specialize (H3 H10). assert (Hle : (m <= ndigits n - 1)%nat) by lia.
    pose proof (pow10_le _ _ Hle). lia.
Qed.

Lemma int_digits_value n : 0 <= n -> digits_value 0 (int_digits n) = n.
Proof.
  intros Hn. unfold int_digits. rewrite digits_value_fixed.
  destruct (ndigits_spec n Hn) as (_ & H & _). rewrite Z.mod_small; lia.
Qed.

Lemma int_digits_nonempty n : 0 <= n -> int_digits n <> [].
Proof.
  intros Hn E. apply (f_equal (@length Z)) in E. unfold int_digits in E.
  rewrite fixed_digits_length in E. destruct (ndigits_spec n Hn) as (H & _). cbn [length] in E. lia.
Qed.

Lemma span_digits_app a : forall b, forallb is_digit a = true ->
  (match b with c :: _ => is_digit c = false | [] => True end) -> span_digits (a ++ b) = (a, b).
Proof.
  induction a as [|c a IH]; intros b Ha Hb.
  - cbn. destruct b as [|c r]; [reflexivity|]. cbn. now rewrite Hb.
  - cbn in Ha. apply andb_true_iff in Ha. destruct Ha as [Hc Ha]. cbn. rewrite Hc.
    now rewrite IH.
Qed.

(* ================================================================== rounding *)

Lemma rhe_spec q : 2 * Z.abs (rhe q * Zpos (Qden q) - Qnum q) <= Zpos (Qden q).
Proof.
  unfold rhe. set (n := Qnum q). set (d := Zpos (Qden q)).
  assert (Hd : 0 < d) by (unfold d; lia).
  pose proof (Z.div_mod n d ltac:(lia)) as Hdm. pose proof (Z.mod_pos_bound n d Hd) as Hmb.
  destruct (Z.ltb_spec (2 * (n mod d)) d); [nia|].
  destruct (Z.ltb_spec d (2 * (n mod d))); [nia|].
  destruct (Z.even (n / d)); nia.
Qed.

Lemma rhe_tie_even q : 2 * (Qnum q mod Zpos (Qden q)) = Zpos (Qden q) -> Z.even (rhe q) = true.
Proof.
  intros H. unfold rhe. rewrite H, Z.ltb_irrefl. destruct (Z.even (Qnum q / Zpos (Qden q))) eqn:E; [exact E|].
  rewrite Z.even_add, E. reflexivity.
Qed.

Lemma rhe_nonneg q : 0 <= Qnum q -> 0 <= rhe q.
Proof.
  intros H. unfold rhe. assert (0 <= Qnum q / Zpos (Qden q)) by (apply Z.div_pos; lia).
  repeat match goal with |- context [if ?b then _ else _] => destruct b end; lia.
Qed.

Lemma rhe_nonpos q : Qnum q <= 0 -> rhe q <= 0.
Proof.
  intros H. unfold rhe. destruct (Z.eq_dec (Qnum q) 0) as [E|E].
  - rewrite E. rewrite Z.mod_0_l, Z.div_0_l by lia. cbn. destruct (Z.ltb_spec 0 (Zpos (Qden q))); lia.
  - assert (Qnum q / Zpos (Qden q) < 0) by (apply Z.div_lt_upper_bound; lia).
    repeat match goal with |- context [if ?b then _ else _] => destruct b end; lia.
Qed.

Lemma scaled_num d x : Qnum (x * inject_Z (pow10 d)) = Qnum x * pow10 d.
Proof. reflexivity. Qed.

Lemma scaled_sign d nz x :
  (is_neg nz x = true -> scaled d x <= 0) /\ (is_neg nz x = false -> 0 <= scaled d x).
Proof.
  pose proof (pow10_pos d) as Hp. unfold is_neg, scaled. split; intros H.
  - apply rhe_nonpos. rewrite scaled_num. apply orb_true_iff in H. destruct H as [H|H].
    + apply Z.ltb_lt in H. nia.
    + apply andb_true_iff in H. destruct H as [H _]. apply Z.eqb_eq in H. nia.
  - apply rhe_nonneg. rewrite scaled_num. apply orb_false_iff in H. destruct H as [H _].
    apply Z.ltb_ge in H. nia.
Qed.

(* the error of rounding to d decimals is at most half a unit of the last place *)
Lemma round_d_error d x : (Qabs (round_d d x - x) <= 1 # (2 * pow10p d))%Q.
Proof.
  unfold round_d, scaled. pose proof (rhe_spec (x * inject_Z (pow10 d))) as H.
  rewrite scaled_num in H. set (r := rhe (x * inject_Z (pow10 d))) in *.
  replace (Zpos (Qden (x * inject_Z (pow10 d)))) with (Zpos (Qden x)) in H
    by (cbn; now rewrite Pos.mul_1_r).
  destruct x as [n p]. cbn [Qnum Qden] in H.
  unfold Qle, Qabs, Qminus, Qplus, Qopp. cbn [Qnum Qden].
  rewrite Pos2Z.inj_mul, Pos2Z.inj_mul, pow10p_spec.
  pose proof (pow10_pos d) as Hp.
  replace (r * Zpos p + - n * pow10 d) with (r * Zpos p - n * pow10 d) by lia.
  assert (E : Z.abs (r * Zpos p - n * pow10 d) * (2 * pow10 d) <= 1 * (pow10 d * Zpos p)); [|exact E].
  nia.
Qed.

(* ================================================================== print / parse *)

Lemma fixed_body_nospace d nz x : no_space (fixed_body d nz x).
Proof.
  unfold fixed_body. apply no_space_app. split.
  - destruct (is_neg nz x); reflexivity.
  - apply no_space_app. split; [apply fixed_digits_nospace|].
    destruct d; [reflexivity|]. unfold no_space. cbn [forallb].
    apply andb_true_iff. split; [reflexivity|]. apply fixed_digits_nospace.
Qed.

Lemma scaled_div_nonneg d x : 0 <= Z.abs (scaled d x) / pow10 d.
Proof. apply Z.div_pos; [lia|apply pow10_pos]. Qed.

Lemma fixed_body_nonempty d nz x : fixed_body d nz x <> [].
Proof.
  unfold fixed_body. intros E. apply app_eq_nil in E. destruct E as [_ E].
  apply app_eq_nil in E. destruct E as [E _]. revert E. apply int_digits_nonempty, scaled_div_nonneg.
Qed.

Lemma parse_unsigned_body d N : 0 <= N ->
  parse_unsigned (int_digits (N / pow10 d) ++ match d with O => [] | S _ => c_dot :: fixed_digits d N end)
  = Some (N # pow10p d).
Proof.
  intros HN. pose proof (pow10_pos d) as Hp.
  assert (Hip : 0 <= N / pow10 d) by (apply Z.div_pos; lia).
  unfold parse_unsigned. destruct d as [|d'].
  - cbn beta iota.
    rewrite span_digits_app by (try exact I; unfold int_digits; apply fixed_digits_digits).
    destruct (int_digits (N / pow10 0)) eqn:E; [exfalso; revert E; now apply int_digits_nonempty|].
    cbn [is_nil]. rewrite <- E, int_digits_value by assumption.
    unfold pow10. cbn. rewrite Z.div_1_r. reflexivity.
  - cbn beta iota. set (d := S d') in *.
    rewrite span_digits_app by (try reflexivity; unfold int_digits; apply fixed_digits_digits).
    rewrite Z.eqb_refl, fixed_digits_digits. cbn [andb].
    assert (Hne : is_nil (fixed_digits d N) = false).
    { destruct (fixed_digits d N) eqn:E; [|reflexivity].
      apply (f_equal (@length Z)) in E. rewrite fixed_digits_length in E. discriminate. }
    rewrite Hne, andb_false_r. cbn [negb]. rewrite fixed_digits_length.
    rewrite digits_value_app, int_digits_value, digits_value_fixed by assumption.
    f_equal. f_equal. pose proof (Z.div_mod N (pow10 d) ltac:(lia)). lia.
Qed.

Theorem parse_print_fixed w d nz x : parse_fixed (print_fixed w d nz x) = Some (round_d d x).
Proof.
  unfold parse_fixed, print_fixed, pad_left.
  rewrite strip_pad_nospace by apply fixed_body_nospace.
  unfold fixed_body. destruct (scaled_sign d nz x) as [Hn Hp].
  set (N := Z.abs (scaled d x)). assert (HN : 0 <= N) by (unfold N; lia).
  destruct (is_neg nz x) eqn:E.
  - cbn [app]. rewrite Z.eqb_refl. rewrite parse_unsigned_body by exact HN. cbn [option_map].
    unfold Qopp, round_d. cbn [Qnum Qden]. specialize (Hn eq_refl). do 2 f_equal. unfold N. lia.
  - cbn [app]. specialize (Hp eq_refl).
    destruct (int_digits (N / pow10 d)) as [|c r] eqn:Ei.
    { exfalso. revert Ei. apply int_digits_nonempty. apply Z.div_pos; [lia|apply pow10_pos]. }
    assert (Hc : is_digit c = true).
    { pose proof (fixed_digits_digits (ndigits (N / pow10 d)) (N / pow10 d)) as Hd.
      unfold int_digits in Ei. rewrite Ei in Hd. cbn in Hd. now apply andb_true_iff in Hd. }
    cbn [app]. unfold is_digit in Hc. apply andb_true_iff in Hc. destruct Hc as [Hc1 Hc2].
    apply Z.leb_le in Hc1, Hc2.
    destruct (Z.eqb_spec c c_minus) as [Em|_]; [unfold c_minus in Em; lia|].
    destruct (Z.eqb_spec c c_plus) as [Em|_]; [unfold c_plus in Em; lia|].
    change (c :: r ++ ?t) with ((c :: r) ++ t). rewrite <- Ei.
    rewrite parse_unsigned_body by exact HN. unfold round_d. do 2 f_equal. unfold N. lia.
Qed.

Lemma print_fixed_length w d nz x : length (print_fixed w d nz x) = Nat.max w (needed_len d nz x).
Proof.
  unfold print_fixed, pad_left, needed_len. rewrite app_length, repeat_length. lia.
Qed.

Theorem width_guard_spec w d nz x :
  length (print_fixed w d nz x) = w <-> width_guard w d nz x = true.
Proof.
  rewrite print_fixed_length. unfold width_guard. rewrite Nat.leb_le. lia.
Qed.

Lemma needed_len_eq d nz x :
  needed_len d nz x =
  ((if is_neg nz x then 1 else 0) + ndigits (Z.abs (scaled d x) / pow10 d) + match d with O => 0 | S _ => 1 + d end)%nat.
Proof.
  unfold needed_len, fixed_body. rewrite !app_length. unfold int_digits. rewrite fixed_digits_length.
  destruct (is_neg nz x); destruct d; cbn [length]; rewrite ?fixed_digits_length; lia.
Qed.

(* which magnitudes fit: the rounded value, scaled by 10^d, has at most w-1-sign digits *)
Theorem width_guard_magnitude w d nz x :
  (0 < d)%nat -> (d + 2 + (if is_neg nz x then 1 else 0) <= w)%nat ->
  (width_guard w d nz x = true <->
   Z.abs (scaled d x) < pow10 (w - 1 - (if is_neg nz x then 1 else 0))).
Proof.
  intros Hd Hw. unfold width_guard. rewrite Nat.leb_le, needed_len_eq.
  set (s := (if is_neg nz x then 1 else 0)%nat) in *. set (N := Z.abs (scaled d x)).
  destruct d as [|d']; [lia|]. set (d := S d') in *.
  pose proof (pow10_pos d) as Hp. assert (HN : 0 <= N) by (unfold N; lia).
  assert (Hip : 0 <= N / pow10 d) by (apply Z.div_pos; lia).
  set (m := (w - 1 - s - d)%nat). assert (Hm : (1 <= m)%nat) by (unfold m; lia).
  replace (w - 1 - s)%nat with (m + d)%nat by (unfold m; lia). rewrite pow10_add.
  transitivity (ndigits (N / pow10 d) <= m)%nat; [unfold m; lia|].
  rewrite (ndigits_le_iff _ _ Hip Hm). pose proof (pow10_pos m).
  split; intros H1.
  - pose proof (Z.div_mod N (pow10 d) ltac:(lia)). pose proof (Z.mod_pos_bound N (pow10 d) Hp). nia.
  - apply Z.div_lt_upper_bound; [lia|nia].
Qed.

(* ================================================================== g96 / xyz lines *)

Lemma slice_app_skip (a b : str) i j n : length a = i -> slice (a ++ b) (i + j) n = slice b j n.
Proof.
  intros <-. unfold slice. rewrite skipn_app, skipn_all2 by lia.
  replace (length a + j - length a)%nat with j by lia. reflexivity.
Qed.

Lemma slice_0_app (a b : str) n : length a = n -> slice (a ++ b) 0 n = a.
Proof.
  intros <-. unfold slice. cbn [skipn]. rewrite firstn_app, firstn_all, Nat.sub_diag. cbn. apply app_nil_r.
Qed.

Lemma slice_fields (label fa fb fc : str) p n :
  length label = p -> length fa = n -> length fb = n -> length fc = n ->
  slice (label ++ fa ++ fb ++ fc ++ []) p n = fa /\
  slice (label ++ fa ++ fb ++ fc ++ []) (p + n) n = fb /\
  slice (label ++ fa ++ fb ++ fc ++ []) (p + (n + n)) n = fc.
Proof.
  intros Hl Ha Hb Hc. repeat split.
  - rewrite <- (Nat.add_0_r p). rewrite slice_app_skip by exact Hl. now apply slice_0_app.
  - rewrite slice_app_skip by exact Hl. rewrite <- (Nat.add_0_r n) at 1.
    rewrite slice_app_skip by exact Ha. now apply slice_0_app.
  - rewrite slice_app_skip by exact Hl. rewrite slice_app_skip by exact Ha.
    rewrite <- (Nat.add_0_r n) at 1. rewrite slice_app_skip by exact Hb. now apply slice_0_app.
Qed.

Lemma rstrip_ends_field pre w d v : rstrip (pre ++ print_num w d v) = pre ++ print_num w d v.
Proof.
  unfold print_num, print_fixed, pad_left. rewrite app_assoc.
  apply rstrip_app_nospace; [apply fixed_body_nospace|apply fixed_body_nonempty].
Qed.

Definition fits (w d : nat) (v : num) : Prop := width_guard w d (fst v) (snd v) = true.

Theorem g96_line_roundtrip label a b c :
  length label = g96_read_pos -> fits g96_w g96_d a -> fits g96_w g96_d b -> fits g96_w g96_d c ->
  g96_read_line (g96_write_line label [a; b; c]) =
  (label, [Some (round_d g96_d (snd a)); Some (round_d g96_d (snd b)); Some (round_d g96_d (snd c))]).
Proof.
  intros Hl Ha Hb Hc. unfold g96_read_line, g96_write_line. cbn [map concat].
  apply width_guard_spec in Ha, Hb, Hc.
  set (fa := print_num g96_w g96_d a) in *. set (fb := print_num g96_w g96_d b) in *.
  set (fc := print_num g96_w g96_d c) in *.
  assert (Hr : rstrip (label ++ fa ++ fb ++ fc ++ []) = label ++ fa ++ fb ++ fc ++ []).
  { rewrite app_nil_r. rewrite !app_assoc. unfold fc. apply rstrip_ends_field. }
  rewrite Hr.
  change g96_starts with [g96_read_pos; g96_read_pos + g96_w; g96_read_pos + (g96_w + g96_w)]%nat.
  change g96_read_len with g96_w.
  destruct (slice_fields label fa fb fc g96_read_pos g96_w Hl Ha Hb Hc) as (S1 & S2 & S3).
  cbn [map]. rewrite S1, S2, S3. f_equal.
  - rewrite firstn_app, firstn_all2, Hl, Nat.sub_diag by lia. cbn. apply app_nil_r.
  - unfold fa, fb, fc, print_num. now rewrite !parse_print_fixed.
Qed.

(* the guard is needed: one field too wide shifts every later slice *)
Theorem g96_width_guard_necessary :
  exists label a b c, length label = g96_read_pos /\ ~ fits g96_w g96_d a /\ fits g96_w g96_d b /\ fits g96_w g96_d c /\
    g96_read_line (g96_write_line label [a; b; c]) <>
    (label, [Some (round_d g96_d (snd a)); Some (round_d g96_d (snd b)); Some (round_d g96_d (snd c))]).
Proof.
  exists (repeat 88 g96_read_pos), (false, 100000 # 1)%Q, (false, 1 # 1)%Q, (false, 2 # 1)%Q.
  split; [apply repeat_length|]. split; [vm_compute; discriminate|].
  split; [reflexivity|]. split; [reflexivity|]. vm_compute. discriminate.
Qed.

(* a bare body parses too (width 0) *)
Lemma parse_fixed_body d nz x : parse_fixed (fixed_body d nz x) = Some (round_d d x).
Proof.
  rewrite <- (parse_print_fixed 0 d nz x). unfold print_fixed, pad_left. reflexivity.
Qed.

Definition body_of (d : nat) (v : num) : str := fixed_body d (fst v) (snd v).

Lemma tokens_tok_then t sp F : no_space t -> t <> [] -> spaces sp ->
  (match F with c :: _ => is_space c = true | [] => False end) ->
  tokens_aux [] (t ++ sp ++ F) = t :: tokens_aux [] F.
Proof.
  intros Ht Hne Hsp HF. destruct F as [|c F']; [tauto|].
  destruct sp as [|s sp'].
  - cbn [app]. rewrite tokens_tok_sp by assumption. cbn [tokens_aux]. rewrite HF. reflexivity.
  - unfold spaces in Hsp. cbn [forallb] in Hsp. apply andb_true_iff in Hsp. destruct Hsp as [Hs Hsp].
    rewrite <- app_comm_cons. rewrite tokens_tok_sp by assumption. now rewrite tokens_aux_spaces.
Qed.

(* fields each preceded by an explicit blank: split() recovers the bodies, whatever the widths *)
Lemma tokens_sp_fields w d : forall xs,
  tokens_aux [] (concat (map (fun v => c_sp :: print_num w d v) xs)) = map (body_of d) xs.
Proof.
  induction xs as [|v r IH]; [reflexivity|].
  cbn [map concat]. unfold print_num at 1, print_fixed, pad_left.
  set (k := (w - length (fixed_body d (fst v) (snd v)))%nat).
  set (rest := concat (map (fun v0 => c_sp :: print_num w d v0) r)) in *.
  replace ((c_sp :: repeat c_sp k ++ fixed_body d (fst v) (snd v)) ++ rest)
    with (repeat c_sp (S k) ++ body_of d v ++ rest)
    by (cbn [repeat]; unfold body_of; rewrite <- !app_comm_cons, <- app_assoc; reflexivity).
  rewrite tokens_aux_spaces by apply spaces_repeat. unfold rest in *. clear rest.
  destruct r as [|v' r'].
  - cbn [map concat]. rewrite app_nil_r. apply tokens_tok_end; [apply fixed_body_nospace|apply fixed_body_nonempty].
  - rewrite <- IH. cbn [map concat]. rewrite <- app_comm_cons.
    rewrite tokens_tok_sp; [|apply fixed_body_nospace|apply fixed_body_nonempty|reflexivity].
    cbn [tokens_aux]. reflexivity.
Qed.

Lemma lstrip_first c r : is_space c = false -> lstrip (c :: r) = c :: r.
Proof. intros H. cbn. now rewrite H. Qed.

Theorem xyz_line_roundtrip name xs : no_space name -> name <> [] -> xs <> [] ->
  xyz_read_line (xyz_write_line name xs) = Some (name, map (fun v => Some (round_d xyzv_d (snd v))) xs).
Proof.
  intros Hn Hne Hxs. unfold xyz_read_line, xyz_write_line, pad_right.
  set (F := concat (map (fun v => c_sp :: print_num xyzv_w xyzv_d v) xs)).
  assert (HF : exists F', F = c_sp :: F').
  { unfold F. destruct xs as [|v r]; [congruence|]. cbn [map concat]. eexists. rewrite <- app_comm_cons. reflexivity. }
  assert (Hstrip : strip ((name ++ repeat c_sp (xyzv_name_w - length name)) ++ F) = (name ++ repeat c_sp (xyzv_name_w - length name)) ++ F).
  { unfold strip. set (P := name ++ repeat c_sp (xyzv_name_w - length name)).
    assert (Hl : lstrip (P ++ F) = P ++ F).
    { unfold P. destruct name as [|c nm]; [congruence|].
      unfold no_space in Hn. cbn [forallb] in Hn. apply andb_true_iff in Hn. destruct Hn as [Hc _].
      apply negb_true_iff in Hc. rewrite <- !app_comm_cons. now apply lstrip_first. }
    rewrite Hl. destruct (exists_last Hxs) as (xs' & v & ->). unfold F.
    rewrite map_app, concat_app. cbn [map concat]. rewrite app_nil_r.
    set (A := concat (map (fun v0 => c_sp :: print_num xyzv_w xyzv_d v0) xs')).
    replace (P ++ A ++ c_sp :: print_num xyzv_w xyzv_d v) with (((P ++ A) ++ [c_sp]) ++ print_num xyzv_w xyzv_d v)
      by (rewrite <- !app_assoc; reflexivity).
    apply rstrip_ends_field. }
  rewrite Hstrip. unfold tokens. rewrite <- app_assoc.
  destruct HF as (F' & HF). rewrite tokens_tok_then; [|assumption|assumption|apply spaces_repeat|rewrite HF; reflexivity].
  unfold F. rewrite tokens_sp_fields. f_equal. f_equal. rewrite map_map. apply map_ext. intros v.
  unfold body_of. apply parse_fixed_body.
Qed.

(* box header of the xyz file: fields joined by one blank *)
Lemma tokens_join_fields w d : forall xs, tokens (join_sp (map (print_num w d) xs)) = map (body_of d) xs.
Proof.
  unfold tokens. induction xs as [|v r IH]; [reflexivity|].
  cbn [map join_sp]. destruct r as [|v' r'].
  - cbn [map]. unfold print_num, print_fixed, pad_left. rewrite tokens_aux_spaces by apply spaces_repeat.
    apply tokens_tok_end; [apply fixed_body_nospace|apply fixed_body_nonempty].
  - cbn [map] in *. unfold print_num at 1, print_fixed, pad_left. rewrite <- app_assoc.
    rewrite tokens_aux_spaces by apply spaces_repeat.
    rewrite tokens_tok_sp; [|apply fixed_body_nospace|apply fixed_body_nonempty|reflexivity].
    fold (body_of d v). f_equal. exact IH.
Qed.

Theorem xyz_box_roundtrip xs :
  read_floats (xyz_write_box xs) = map (fun v => Some (round_d xyz_box_d (snd v))) xs.
Proof.
  unfold read_floats, xyz_write_box. rewrite tokens_join_fields, map_map. apply map_ext. intros v. apply parse_fixed_body.
Qed.

(* g96 box line: no separator is written, so every field after the first needs one
   character of padding *)
Definition fits_strict (w d : nat) (v : num) : Prop := (needed_len d (fst v) (snd v) < w)%nat.

Lemma tokens_packed_fields w d : forall xs, Forall (fits_strict w d) (tl xs) ->
  tokens (concat (map (print_num w d) xs)) = map (body_of d) xs.
Proof.
  unfold tokens. induction xs as [|v r IH]; intros Hf; [reflexivity|].
  cbn [map concat]. unfold print_num at 1, print_fixed, pad_left. rewrite <- app_assoc.
  rewrite tokens_aux_spaces by apply spaces_repeat. fold (body_of d v).
  destruct r as [|v' r'].
  - cbn [map concat]. rewrite app_nil_r. apply tokens_tok_end; [apply fixed_body_nospace|apply fixed_body_nonempty].
  - cbn [tl] in Hf. inversion Hf as [|? ? Hv' Hr']; subst.
    rewrite <- IH by (destruct r'; [constructor|exact Hr' || (cbn [tl]; exact Hr')]).
    cbn [map concat]. unfold print_num at 1 3, print_fixed, pad_left.
    unfold fits_strict, needed_len in Hv'.
    destruct (w - length (fixed_body d (fst v') (snd v')))%nat as [|k] eqn:Ek; [lia|].
    cbn [repeat]. rewrite <- !app_comm_cons.
    rewrite tokens_tok_sp; [|apply fixed_body_nospace|apply fixed_body_nonempty|reflexivity].
    cbn [tokens_aux]. reflexivity.
Qed.

Theorem g96_box_roundtrip xs : Forall (fits_strict g96_box9_w g96_box9_d) (tl xs) ->
  read_floats (g96_write_box xs) = map (fun v => Some (round_d g96_box9_d (snd v))) xs.
Proof.
  intros H. unfold read_floats, g96_write_box. rewrite tokens_packed_fields by exact H.
  rewrite map_map. apply map_ext. intros v. apply parse_fixed_body.
Qed.

(* ================================================================== swap_integer *)

Lemma land_shiftl_mask x m n : 0 <= n -> Z.land x (Z.shiftl m n) = Z.shiftl (Z.land (Z.shiftr x n) m) n.
Proof.
  intros Hn. apply Z.bits_inj'. intros i Hi. rewrite Z.land_spec.
  destruct (Z.ltb_spec i n) as [Hlt|Hge].
  - rewrite !Z.shiftl_spec_low by lia. apply andb_false_r.
  - rewrite !Z.shiftl_spec by lia. rewrite Z.land_spec, Z.shiftr_spec by lia.
    replace (i - n + n) with i by lia. reflexivity.
Qed.

Lemma lor_shiftl_small hi lo n : 0 <= n -> 0 <= lo < 2 ^ n -> Z.lor (Z.shiftl hi n) lo = hi * 2 ^ n + lo.
Proof.
  intros Hn Hlo. rewrite <- Z.shiftl_mul_pow2 by lia.
  assert (H0 : Z.land (Z.shiftl hi n) lo = 0).
  { apply Z.bits_inj'. intros i Hi. rewrite Z.land_spec, Z.bits_0.
    destruct (Z.ltb_spec i n) as [Hlt|Hge].
    - rewrite Z.shiftl_spec_low by lia. reflexivity.
    - rewrite <- (Z.mod_small lo (2 ^ n)) by lia. rewrite Z.mod_pow2_bits_high by lia. apply andb_false_r. }
  rewrite <- Z.lxor_lor by exact H0. symmetry. now apply Z.add_nocarry_lxor.
Qed.

Lemma byte_range k x : 0 <= byte k x < 256.
Proof. unfold byte. apply Z.mod_pos_bound. lia. Qed.

Lemma byte_land k x : 0 <= k -> Z.land (Z.shiftr x (8 * k)) 255 = byte k x.
Proof.
  intros Hk. unfold byte. rewrite Z.shiftr_div_pow2 by lia. change 255 with (Z.ones 8).
  rewrite Z.land_ones by lia. reflexivity.
Qed.

Lemma swap_integer_unfold x :
  swap_integer x = Z.lor (Z.lor (Z.lor (Z.land (Z.shiftl x 24) 4278190080) (Z.land (Z.shiftl x 8) 16711680))
                               (Z.land (Z.shiftr x 8) 65280)) (Z.land (Z.shiftr x 24) 255).
Proof. unfold swap_integer. cbn [swap_terms map fold_left swap_term]. rewrite Z.lor_0_l. reflexivity. Qed.

(* swap_integer is byte reversal of the low 32 bits, for every integer (negative ones too:
   Python's >> is arithmetic and & with a positive mask gives a non-negative result) *)
Theorem swap_integer_bytes x : swap_integer x = u_of_be (rev (be32 x)).
Proof.
  rewrite swap_integer_unfold.
  assert (T1 : Z.land (Z.shiftl x 24) 4278190080 = Z.shiftl (byte 0 x) 24).
  { change 4278190080 with (Z.shiftl 255 24). rewrite <- Z.shiftl_land.
    rewrite <- (byte_land 0 x) by lia. rewrite Z.shiftr_0_r. reflexivity. }
  assert (T2 : Z.land (Z.shiftl x 8) 16711680 = Z.shiftl (byte 1 x) 16).
  { change 16711680 with (Z.shiftl (Z.shiftl 255 8) 8). rewrite <- Z.shiftl_land.
    rewrite land_shiftl_mask by lia.
    replace (Z.land (Z.shiftr x 8) 255) with (byte 1 x) by (symmetry; apply (byte_land 1 x); lia).
    rewrite Z.shiftl_shiftl by lia. reflexivity. }
  assert (T3 : Z.land (Z.shiftr x 8) 65280 = Z.shiftl (byte 2 x) 8).
  { change 65280 with (Z.shiftl 255 8). rewrite land_shiftl_mask by lia.
    rewrite Z.shiftr_shiftr by lia.
    replace (Z.land (Z.shiftr x (8 + 8)) 255) with (byte 2 x) by (symmetry; apply (byte_land 2 x); lia).
    reflexivity. }
  assert (T4 : Z.land (Z.shiftr x 24) 255 = byte 3 x) by (apply (byte_land 3 x); lia).
  rewrite T1, T2, T3, T4.
  pose proof (byte_range 0 x). pose proof (byte_range 1 x). pose proof (byte_range 2 x). pose proof (byte_range 3 x).
  change 24 with (8 + 16) at 1. rewrite <- Z.shiftl_shiftl by lia. rewrite <- Z.shiftl_lor.
  rewrite (lor_shiftl_small (byte 0 x) (byte 1 x) 8) by lia.
  change 16 with (8 + 8). rewrite <- Z.shiftl_shiftl by lia. rewrite <- Z.shiftl_lor.
  rewrite (lor_shiftl_small _ (byte 2 x) 8) by lia.
  rewrite (lor_shiftl_small _ (byte 3 x) 8) by lia.
  unfold be32, u_of_be. cbn [rev app fold_left]. change (2 ^ 8) with 256. lia.
Qed.

Lemma u_of_be4 a b c d : u_of_be [a; b; c; d] = ((a * 256 + b) * 256 + c) * 256 + d.
Proof. unfold u_of_be. cbn. lia. Qed.

Lemma bytes_of_be4 a b c d :
  0 <= a < 256 -> 0 <= b < 256 -> 0 <= c < 256 -> 0 <= d < 256 ->
  let y := u_of_be [a; b; c; d] in
  byte 0 y = d /\ byte 1 y = c /\ byte 2 y = b /\ byte 3 y = a.
Proof.
  intros Ha Hb Hc Hd y. unfold y. rewrite u_of_be4. unfold byte.
  change (2 ^ (8 * 0)) with 1. change (2 ^ (8 * 1)) with 256. change (2 ^ (8 * 2)) with (256 * 256).
  change (2 ^ (8 * 3)) with (256 * 256 * 256).
  assert (D1 : (((a * 256 + b) * 256 + c) * 256 + d) / 256 = (a * 256 + b) * 256 + c).
  { symmetry. apply Z.div_unique with d; lia. }
  assert (D2 : ((a * 256 + b) * 256 + c) / 256 = a * 256 + b).
  { symmetry. apply Z.div_unique with c; lia. }
  assert (D3 : (a * 256 + b) / 256 = a).
  { symmetry. apply Z.div_unique with b; lia. }
  rewrite Z.div_1_r. rewrite <- !Z.div_div by lia. rewrite D1, D2, D3.
  repeat split.
  - symmetry. apply Z.mod_unique with ((a * 256 + b) * 256 + c); lia.
  - symmetry. apply Z.mod_unique with (a * 256 + b); lia.
  - symmetry. apply Z.mod_unique with a; lia.
  - apply Z.mod_small; lia.
Qed.

Lemma u_of_be32 x : u_of_be (be32 x) = x mod 2 ^ 32.
Proof.
  unfold be32. rewrite u_of_be4. unfold byte.
  change (2 ^ (8 * 0)) with 1. change (2 ^ (8 * 1)) with 256. change (2 ^ (8 * 2)) with (256 * 256).
  change (2 ^ (8 * 3)) with (256 * 256 * 256). change (2 ^ 32) with (256 * (256 * (256 * 256))).
  rewrite Z.div_1_r. rewrite <- !Z.div_div by lia.
  rewrite (Z.rem_mul_r x 256 (256 * (256 * 256))) by lia.
  rewrite (Z.rem_mul_r (x / 256) 256 (256 * 256)) by lia.
  rewrite (Z.rem_mul_r (x / 256 / 256) 256 256) by lia. lia.
Qed.

Theorem swap_integer_range x : 0 <= swap_integer x < 2 ^ 32.
Proof.
  rewrite swap_integer_bytes. unfold be32. cbn [rev app]. rewrite u_of_be4.
  pose proof (byte_range 0 x). pose proof (byte_range 1 x). pose proof (byte_range 2 x). pose proof (byte_range 3 x).
  change (2 ^ 32) with 4294967296. lia.
Qed.

Theorem swap_integer_twice x : swap_integer (swap_integer x) = x mod 2 ^ 32.
Proof.
  rewrite (swap_integer_bytes (swap_integer x)). rewrite (swap_integer_bytes x).
  unfold be32 at 2. cbn [rev app].
  destruct (bytes_of_be4 (byte 0 x) (byte 1 x) (byte 2 x) (byte 3 x)) as (B0 & B1 & B2 & B3); try apply byte_range.
  unfold be32. rewrite B0, B1, B2, B3. cbn [rev app]. apply (u_of_be32 x).
Qed.

Theorem swap_integer_involutive x : 0 <= x < 2 ^ 32 -> swap_integer (swap_integer x) = x.
Proof. intros H. rewrite swap_integer_twice. now apply Z.mod_small. Qed.

(* ================================================================== TRR header / data *)

Lemma order_invol e l : order e (order e l) = l.
Proof. destruct e; cbn; [reflexivity|apply rev_involutive]. Qed.

Lemma order_length e l : length (order e l) = length l.
Proof. destruct e; cbn; [reflexivity|apply rev_length]. Qed.

Lemma take_app n a r : length a = n -> a <> [] -> take n (a ++ r) = Ok (a, r).
Proof.
  intros <- Hne. unfold take. rewrite firstn_app, firstn_all, Nat.sub_diag. cbn [firstn]. rewrite app_nil_r.
  destruct a as [|x a']; [congruence|]. cbn [is_nil].
  destruct (Nat.ltb_spec (length ((x :: a') ++ r)) (length (x :: a'))) as [H|H].
  - rewrite app_length in H. lia.
  - rewrite skipn_app, skipn_all, Nat.sub_diag. reflexivity.
Qed.

Lemma chunks_concat sz : forall l r, Forall (fun c => length c = sz) l ->
  chunks sz (length l) (concat l ++ r) = l.
Proof.
  induction l as [|c l IH]; intros r H; [reflexivity|].
  inversion H as [|? ? Hc Hl]; subst. cbn [length chunks concat]. rewrite <- app_assoc.
  rewrite firstn_app, firstn_all, Nat.sub_diag. cbn [firstn]. rewrite app_nil_r.
  rewrite skipn_app, skipn_all, Nat.sub_diag. cbn [skipn app]. f_equal. now apply IH.
Qed.

Lemma concat_length_uniform sz (l : list (list Z)) : Forall (fun c => length c = sz) l ->
  length (concat l) = (sz * length l)%nat.
Proof.
  induction 1 as [|c l Hc Hl IH]; cbn [concat length]; [lia|]. rewrite app_length, IH, Hc. lia.
Qed.

Definition i32 (x : Z) : Prop := - 2 ^ 31 <= x < 2 ^ 31.

Lemma signed32_be32 x : i32 x -> signed32 (u_of_be (be32 x)) = x.
Proof.
  unfold i32. intros H. rewrite u_of_be32. unfold signed32.
  change (2 ^ 31) with 2147483648 in *. change (2 ^ 32) with 4294967296.
  destruct (Z.ltb_spec x 0) as [Hn|Hp].
  - assert (E : x mod 4294967296 = x + 4294967296).
    { symmetry. apply Z.mod_unique with (-1); lia. }
    rewrite E. destruct (Z.ltb_spec (x + 4294967296) 2147483648); lia.
  - rewrite Z.mod_small by lia. destruct (Z.ltb_spec x 2147483648); lia.
Qed.

Lemma be32_length x : length (be32 x) = 4%nat.
Proof. reflexivity. Qed.

Lemma get_i32s_encode e xs r : xs <> [] -> Forall i32 xs ->
  get_i32s e (length xs) (concat (map (fun i => order e (be32 i)) xs) ++ r) = Ok (xs, r).
Proof.
  intros Hne Hx. unfold get_i32s.
  set (l := map (fun i => order e (be32 i)) xs).
  assert (Hl : Forall (fun c => length c = 4%nat) l).
  { unfold l. apply Forall_forall. intros c Hc. apply in_map_iff in Hc. destruct Hc as (i & <- & _).
    now rewrite order_length. }
  assert (Hlen : length l = length xs) by (unfold l; apply map_length).
  rewrite take_app.
  - cbn [bind]. f_equal. f_equal. rewrite <- Hlen. rewrite <- (app_nil_r (concat l)).
    rewrite chunks_concat by exact Hl. unfold l. rewrite map_map.
    rewrite <- (map_id xs) at 2. apply map_ext_in. intros i Hi. rewrite order_invol.
    apply signed32_be32. rewrite Forall_forall in Hx. now apply Hx.
  - rewrite (concat_length_uniform 4) by exact Hl. lia.
  - destruct xs as [|i xs']; [congruence|]. unfold l. cbn [map concat].
    destruct e; cbn; discriminate.
Qed.

Lemma get_reals_encode e sz vs r : (0 < sz)%nat -> vs <> [] -> Forall (fun c => length c = sz) vs ->
  get_reals e sz (length vs) (concat (map (order e) vs) ++ r) = Ok (vs, r).
Proof.
  intros Hsz Hne Hv. unfold get_reals.
  set (l := map (order e) vs).
  assert (Hl : Forall (fun c => length c = sz) l).
  { unfold l. apply Forall_forall. intros c Hc. apply in_map_iff in Hc. destruct Hc as (i & <- & Hi).
    rewrite order_length. rewrite Forall_forall in Hv. now apply Hv. }
  assert (Hlen : length l = length vs) by (unfold l; apply map_length).
  rewrite take_app.
  - cbn [bind]. f_equal. f_equal. rewrite <- Hlen. rewrite <- (app_nil_r (concat l)).
    rewrite chunks_concat by exact Hl. unfold l. rewrite map_map.
    rewrite <- (map_id vs) at 2. apply map_ext. intros i. apply order_invol.
  - rewrite (concat_length_uniform sz) by exact Hl. lia.
  - destruct vs as [|v vs']; [congruence|]. unfold l. cbn [map concat].
    inversion Hv as [|? ? Hv1 _]; subst. intros E. apply (f_equal (@length Z)) in E.
    rewrite app_length, order_length in E. cbn [length] in E. lia.
Qed.

Lemma str_eqb_refl s : str_eqb s s = true.
Proof. induction s; cbn; [reflexivity|]. now rewrite Z.eqb_refl. Qed.

Lemma str_eqb_eq a : forall b, str_eqb a b = true <-> a = b.
Proof.
  induction a as [|x a IH]; intros [|y b]; cbn; split; try congruence; try discriminate.
  - intros H. apply andb_true_iff in H. destruct H as [H1 H2]. apply Z.eqb_eq in H1. apply IH in H2. congruence.
  - intros H. inversion H; subst. rewrite Z.eqb_refl. now apply IH.
Qed.

Definition header_ok (h : trr_header) : Prop :=
  length (h_ints h) = trr_nints /\ Forall i32 (h_ints h) /\ is_double (h_ints h) = Some (h_double h) /\
  length (h_time h) = real_size (h_double h) /\ length (h_lambda h) = real_size (h_double h).

Lemma real_size_pos d : (0 < real_size d)%nat.
Proof. destruct d; vm_compute; lia. Qed.

(* decoding what was encoded gives the header back, for either byte order and precision *)
Theorem trr_header_roundtrip h rest : header_ok h -> decode_header (encode_header h ++ rest) = Ok (h, rest).
Proof.
  intros (Hlen & Hi & Hd & Ht & Hl). unfold decode_header, encode_header.
  set (e := h_endian h). rewrite <- !app_assoc.
  (* magic, always read big-endian *)
  assert (Hm : forall tail, get_i32s BE 1 (order e (be32 trr_magic) ++ tail) =
                            Ok ([if endian_eqb e BE then trr_magic else signed32 (u_of_be (rev (be32 trr_magic)))], tail)).
  { intros tail. unfold get_i32s. rewrite take_app; [|now rewrite order_length|destruct e; discriminate].
    cbn [bind]. destruct e; reflexivity. }
  rewrite Hm. cbn [bind].
  assert (He : (if geti [if endian_eqb e BE then trr_magic else signed32 (u_of_be (rev (be32 trr_magic)))] 0 =? trr_magic
                then BE else LE) = e) by (destruct e; reflexivity).
  rewrite He.
  (* the two string-length integers *)
  set (n1 := Z.of_nat (length trr_version) + 1). set (n2 := Z.of_nat (length trr_version)).
  assert (H2 : forall tail, get_i32s e 2 (order e (be32 n1) ++ order e (be32 n2) ++ tail) = Ok ([n1; n2], tail)).
  { intros tail. pose proof (get_i32s_encode e [n1; n2] tail) as G. cbn [length map concat] in G.
    rewrite <- !app_assoc in G. cbn [app] in G. apply G; [discriminate|].
    assert (Hv : 0 <= Z.of_nat (length trr_version) < 1000) by (vm_compute; split; congruence).
    constructor; [unfold i32, n1; lia|]. constructor; [unfold i32, n2; lia|constructor]. }
  rewrite H2. cbn [bind].
  change (geti [n1; n2] 0) with n1.
  replace (n1 - 1 <? 0) with false by (symmetry; apply Z.ltb_ge; unfold n1; lia).
  rewrite take_app; [|unfold n1; rewrite Z.add_simpl_r, Nat2Z.id; reflexivity|discriminate].
  cbn [bind].
  replace (str_eqb (until_zero trr_version) trr_version) with true by reflexivity. cbn [negb].
  (* the integers *)
  rewrite <- Hlen. rewrite get_i32s_encode; [|intros E; rewrite E in Hlen; discriminate|exact Hi].
  cbn [bind]. rewrite Hd.
  (* time, lambda *)
  pose proof (get_reals_encode e (real_size (h_double h)) [h_time h; h_lambda h] rest (real_size_pos _)) as G.
  cbn [length map concat] in G. rewrite app_nil_r, <- app_assoc in G. rewrite G; [|discriminate|repeat constructor; assumption].
  cbn [bind nth]. destruct h; reflexivity.
Qed.

(* both byte orders decode to the same content *)
Corollary trr_header_endian_independent ints t l dbl rest :
  header_ok (mkH ints t l BE dbl) ->
  exists hb hl, decode_header (encode_header (mkH ints t l BE dbl) ++ rest) = Ok (hb, rest) /\
                decode_header (encode_header (mkH ints t l LE dbl) ++ rest) = Ok (hl, rest) /\
                h_ints hb = h_ints hl /\ h_time hb = h_time hl /\ h_lambda hb = h_lambda hl /\
                h_double hb = h_double hl /\ h_endian hb = BE /\ h_endian hl = LE.
Proof.
  intros H. exists (mkH ints t l BE dbl), (mkH ints t l LE dbl).
  rewrite !trr_header_roundtrip; [repeat split|exact H|exact H].
Qed.

(* ---- data blocks *)
Definition block_ok (ints : list Z) (sz : nat) (kn : nat * nat) (b : option (list (list Z))) : Prop :=
  match b with
  | None => geti ints (fst kn) = 0
  | Some v => geti ints (fst kn) <> 0 /\ length v = snd kn /\ v <> [] /\ Forall (fun c => length c = sz) v
  end.

Lemma decode_blocks_encode e sz ints : (0 < sz)%nat -> forall bl data rest,
  Forall2 (block_ok ints sz) bl data ->
  decode_blocks e sz ints bl (encode_blocks e data ++ rest) = Ok (data, rest).
Proof.
  intros Hsz. induction bl as [|[k n] bl IH]; intros data rest H; inversion H as [|? b ? data' Hb Hr]; subst.
  - reflexivity.
  - unfold encode_blocks. cbn [map concat decode_blocks]. fold (encode_blocks e data'). rewrite <- app_assoc.
    destruct b as [v|]; cbn [block_ok fst snd] in Hb.
    + destruct Hb as (Hnz & Hlen & Hne & Hv). apply Z.eqb_neq in Hnz. rewrite Hnz.
      rewrite <- Hlen. rewrite get_reals_encode by assumption. cbn [bind]. rewrite IH by exact Hr. reflexivity.
    + apply Z.eqb_eq in Hb. rewrite Hb. cbn [app]. rewrite IH by exact Hr. reflexivity.
Qed.

Definition frame_ok (h : trr_header) (d : list (option (list (list Z)))) : Prop :=
  header_ok h /\ Forall2 (block_ok (h_ints h) (real_size (h_double h))) (trr_blocks (h_ints h)) d.

Theorem trr_frame_roundtrip h d rest : frame_ok h d ->
  decode_frame (encode_frame h d ++ rest) = Ok (h, d, rest).
Proof.
  intros (Hh & Hd). unfold decode_frame, encode_frame. rewrite <- app_assoc.
  rewrite trr_header_roundtrip by exact Hh. cbn [bind]. unfold decode_data.
  rewrite decode_blocks_encode; [reflexivity|apply real_size_pos|exact Hd].
Qed.

(* precision detection agrees with the sizes a writer of 4- or 8-byte reals produces *)
Lemma is_double_from_box ints sz : sz = 4 \/ sz = 8 ->
  geti ints trr_i_box_size = trr_dim ^ 2 * sz -> is_double ints = Some (sz =? 8).
Proof.
  intros Hsz Hb. unfold is_double. unfold trr_i_box_size, trr_i_natoms in *.
  cbn [trr_double_keys is_double_size]. unfold trr_i_box_size, trr_i_natoms. rewrite Hb.
  change (trr_dim ^ 2) with 9. replace (9 * sz =? 0) with false by (symmetry; apply Z.eqb_neq; lia).
  cbn [Nat.eqb]. rewrite Z.mul_comm, Z.quot_mul by lia.
  destruct Hsz as [-> | ->]; reflexivity.
Qed.

Lemma is_double_from_x ints sz n : sz = 4 \/ sz = 8 -> 0 < n ->
  geti ints trr_i_box_size = 0 -> geti ints trr_i_natoms = n -> geti ints trr_i_x_size = n * trr_dim * sz ->
  is_double ints = Some (sz =? 8).
Proof.
  intros Hsz Hn Hb Hna Hx. unfold is_double. unfold trr_i_box_size, trr_i_natoms, trr_i_x_size in *.
  cbn [trr_double_keys is_double_size]. unfold trr_i_box_size, trr_i_natoms. rewrite Hb, Hx, Hna.
  cbn [Z.eqb]. change trr_dim with 3.
  replace (n * 3 * sz =? 0) with false by (symmetry; apply Z.eqb_neq; nia).
  cbn [Nat.eqb].
  replace (n * 3 =? 0) with false by (symmetry; apply Z.eqb_neq; lia).
  rewrite Z.mul_comm, Z.quot_mul by lia. destruct Hsz as [-> | ->]; reflexivity.
Qed.

(* ---- frame k of a multi-frame file *)
Definition block_sized (ints : list Z) (sz : nat) (kn : nat * nat) (b : option (list (list Z))) : Prop :=
  match b with
  | None => True
  | Some v => geti ints (fst kn) = Z.of_nat (sz * length v)
  end.

Lemma encode_blocks_length e ints sz : forall bl data,
  Forall2 (block_ok ints sz) bl data -> Forall2 (block_sized ints sz) bl data ->
  Z.of_nat (length (encode_blocks e data)) = fold_right Z.add 0 (map (fun kn => geti ints (fst kn)) bl).
Proof.
  induction bl as [|kn bl IH]; intros data H1 H2; inversion H1 as [|? b ? data' Hb Hr]; subst;
    inversion H2 as [|? ? ? ? Hs Hrs]; subst; [reflexivity|].
  unfold encode_blocks. cbn [map concat fold_right]. fold (encode_blocks e data').
  rewrite app_length, Nat2Z.inj_add, (IH _ Hr Hrs). f_equal.
  destruct b as [v|]; cbn [block_ok block_sized] in *.
  - destruct Hb as (_ & _ & _ & Hv). rewrite Hs. f_equal.
    rewrite (concat_length_uniform sz); [now rewrite map_length|].
    apply Forall_forall. intros c Hc. apply in_map_iff in Hc. destruct Hc as (c0 & <- & Hc0).
    rewrite order_length. rewrite Forall_forall in Hv. now apply Hv.
  - rewrite Hb. reflexivity.
Qed.

Definition frame_sized (f : trr_header * list (option (list (list Z)))) : Prop :=
  frame_ok (fst f) (snd f) /\
  Forall2 (block_sized (h_ints (fst f)) (real_size (h_double (fst f)))) (trr_blocks (h_ints (fst f))) (snd f).

Theorem trr_frame_at_k : forall fs k f, Forall frame_sized fs -> nth_error fs k = Some f ->
  trr_frame_at (S (length fs)) k (concat (map (fun f => encode_frame (fst f) (snd f)) fs)) = Some f.
Proof.
  induction fs as [|[h d] fs IH]; intros k f Hall Hk; [destruct k; discriminate|].
  inversion Hall as [|? ? Hf Hr]; subst. destruct Hf as ((Hh & Hd) & Hs). cbn [fst snd] in *.
  cbn [map concat length]. unfold encode_frame at 1. cbn [fst snd]. rewrite <- app_assoc.
  cbn [trr_frame_at]. rewrite trr_header_roundtrip by exact Hh.
  destruct k as [|k].
  - cbn in Hk. inversion Hk; subst. unfold decode_data.
    rewrite decode_blocks_encode; [reflexivity|apply real_size_pos|exact Hd].
  - cbn [nth_error] in Hk.
    assert (Hlen : Z.to_nat (data_size (h_ints h)) = length (encode_blocks (h_endian h) d)).
    { unfold data_size. change trr_data_items with (map fst (trr_blocks (h_ints h))). rewrite map_map.
      rewrite <- (encode_blocks_length (h_endian h) _ _ _ _ Hd Hs). apply Nat2Z.id. }
    rewrite Hlen, skipn_app, skipn_all, Nat.sub_diag. cbn [skipn app]. now apply IH.
Qed.

(* ================================================================== template editors *)

Lemma mem_str_In k l : mem_str k l = true <-> In k l.
Proof.
  unfold mem_str. rewrite existsb_exists. split.
  - intros (x & Hx & E). apply str_eqb_eq in E. now subst.
  - intros H. exists k. split; [exact H|apply str_eqb_refl].
Qed.

Lemma lookup_In {V} k (v : V) s : lookup k s = Some v -> In (k, v) s.
Proof.
  induction s as [|[k' v'] s IH]; cbn; [discriminate|].
  destruct (str_eqb k k') eqn:E.
  - intros H. inversion H; subst. apply str_eqb_eq in E. subst. now left.
  - intros H. right. now apply IH.
Qed.

Lemma lookup_NoDup {V} k (v : V) s : NoDup (map fst s) -> In (k, v) s -> lookup k s = Some v.
Proof.
  induction s as [|[k' v'] s IH]; cbn; [tauto|]. intros Hnd [H|H].
  - inversion H; subst. now rewrite str_eqb_refl.
  - inversion Hnd as [|? ? Hni Hnd']; subst. destruct (str_eqb k k') eqn:E.
    + apply str_eqb_eq in E. subst. exfalso. apply Hni. apply in_map_iff. exists (k', v). split; [reflexivity|exact H].
    + now apply IH.
Qed.

Lemma lookup_None {V} k (s : list (str * V)) : lookup k s = None <-> ~ In k (map fst s).
Proof.
  induction s as [|[k' v'] s IH]; cbn; [tauto|]. destruct (str_eqb k k') eqn:E.
  - apply str_eqb_eq in E. subst. split; [discriminate|]. intros H. exfalso. apply H. now left.
  - rewrite IH. split; [|tauto]. intros H [H'|H']; [|tauto]. subst. rewrite str_eqb_refl in E. discriminate.
Qed.

Section EditP.
  Context {V : Type}.
  Variable key_of : str -> option str.
  Variable repl : str -> V -> str.
  Variable newl : str -> V -> str.
  Variable fin : str -> str.
  Variable okkv : str -> V -> Prop.        (* admissible settings entries *)

  Hypothesis repl_key : forall l k v, key_of l = Some k -> key_of (repl l v) = Some k.
  Hypothesis repl_idem : forall l k v, key_of l = Some k -> repl (repl l v) v = repl l v.
  Hypothesis new_key : forall k v, okkv k v -> key_of (newl k v) = Some k.
  Hypothesis new_repl : forall k v, okkv k v -> repl (newl k v) v = newl k v.
  Hypothesis fin_key : forall l, key_of (fin l) = key_of l.
  Hypothesis fin_repl : forall l k v, key_of l = Some k -> fin (repl l v) = repl l v.

  Notation edit1 := (edit1 key_of repl).
  Notation keys_of := (keys_of key_of).
  Notation missing := (missing key_of).
  Notation map_last := (map_last fin).
  Notation edit_lines := (edit_lines key_of repl newl fin).

  Definition settings_ok (s : list (str * V)) : Prop :=
    NoDup (map fst s) /\ Forall (fun kv => okkv (fst kv) (snd kv)) s.

  Lemma edit1_key s l : key_of (edit1 s l) = key_of l.
  Proof.
    unfold CodecM.edit1. destruct (key_of l) as [k|] eqn:E; [|exact E].
    destruct (lookup k s) as [v|]; [|exact E]. now apply repl_key.
  Qed.

  (* a line whose key is not requested is left alone; a requested one gets [repl] *)
  Lemma edit1_untouched s l : (forall k, key_of l = Some k -> ~ In k (map fst s)) -> edit1 s l = l.
  Proof.
    intros H. unfold CodecM.edit1. destruct (key_of l) as [k|]; [|reflexivity].
    destruct (lookup k s) eqn:E; [|reflexivity]. exfalso. apply (H k eq_refl).
    apply lookup_In in E. apply in_map_iff. now exists (k, v).
  Qed.

  Lemma edit1_requested s l k v : NoDup (map fst s) -> key_of l = Some k -> In (k, v) s -> edit1 s l = repl l v.
  Proof. intros Hnd Hk Hin. unfold CodecM.edit1. rewrite Hk. now rewrite (lookup_NoDup k v s Hnd Hin). Qed.

  Lemma edit1_cases s l :
    (exists k v, key_of l = Some k /\ lookup k s = Some v /\ edit1 s l = repl l v) \/
    ((forall k, key_of l = Some k -> lookup k s = None) /\ edit1 s l = l).
  Proof.
    unfold CodecM.edit1. destruct (key_of l) as [k|] eqn:E.
    - destruct (lookup k s) as [v|] eqn:El.
      + left. exists k, v. auto.
      + right. split; [|reflexivity]. intros k' Hk'. congruence.
    - right. split; [|reflexivity]. intros k' Hk'. discriminate.
  Qed.

  Lemma edit1_idem s l : edit1 s (edit1 s l) = edit1 s l.
  Proof.
    destruct (edit1_cases s l) as [(k & v & Hk & Hl & ->)|(Hn & ->)].
    - unfold CodecM.edit1. rewrite (repl_key _ _ v Hk), Hl. now apply repl_idem with k.
    - destruct (edit1_cases s l) as [(k & v & Hk & Hl & _)|(_ & E)]; [|exact E].
      rewrite (Hn k Hk) in Hl. discriminate.
  Qed.

  Lemma edit1_fin_idem s l : edit1 s (fin (edit1 s l)) = fin (edit1 s l).
  Proof.
    destruct (edit1_cases s l) as [(k & v & Hk & Hl & ->)|(Hn & ->)].
    - rewrite (fin_repl _ _ v Hk). unfold CodecM.edit1. rewrite (repl_key _ _ v Hk), Hl. now apply repl_idem with k.
    - unfold CodecM.edit1. rewrite fin_key. destruct (key_of l) as [k|] eqn:E; [|reflexivity].
      now rewrite (Hn k eq_refl).
  Qed.

  Lemma keys_of_app a b : keys_of (a ++ b) = keys_of a ++ keys_of b.
  Proof. unfold CodecM.keys_of. apply flat_map_app. Qed.

  Lemma keys_of_In k ls : In k (keys_of ls) <-> exists l, In l ls /\ key_of l = Some k.
  Proof.
    unfold CodecM.keys_of. rewrite in_flat_map. split.
    - intros (l & Hl & Hk). exists l. split; [exact Hl|]. destruct (key_of l); cbn in Hk; [|tauto].
      destruct Hk as [->|[]]. reflexivity.
    - intros (l & Hl & Hk). exists l. split; [exact Hl|]. rewrite Hk. now left.
  Qed.

  Lemma keys_of_map_edit1 s ls : keys_of (map (edit1 s) ls) = keys_of ls.
  Proof.
    induction ls as [|l r IH]; [reflexivity|]. cbn [map]. change (l :: r) with ([l] ++ r).
    change (edit1 s l :: map (edit1 s) r) with ([edit1 s l] ++ map (edit1 s) r).
    rewrite !keys_of_app, IH. f_equal. unfold CodecM.keys_of. cbn. now rewrite edit1_key.
  Qed.

  Lemma keys_of_map_last ls : keys_of (map_last ls) = keys_of ls.
  Proof.
    induction ls as [|l r IH]; [reflexivity|]. destruct r as [|l' r'].
    - unfold CodecM.keys_of. cbn. now rewrite fin_key.
    - change (map_last (l :: l' :: r')) with (l :: map_last (l' :: r')).
      change (l :: ?x) with ([l] ++ x). rewrite !keys_of_app. now rewrite IH.
  Qed.

  Lemma In_map_last l ls : In l (map_last ls) -> In l ls \/ exists l0, In l0 ls /\ l = fin l0.
  Proof.
    induction ls as [|a r IH]; [cbn; tauto|]. destruct r as [|b r'].
    - cbn. intros [<-|[]]. right. exists a. split; [now left|reflexivity].
    - change (map_last (a :: b :: r')) with (a :: map_last (b :: r')). intros [<-|H].
      + left. now left.
      + destruct (IH H) as [H'|(l0 & H0 & ->)]; [left; now right|]. right. exists l0. split; [now right|reflexivity].
  Qed.

  Lemma missing_In (s : list (str * V)) ls k (v : V) : In (k, v) (missing s ls) <-> In (k, v) s /\ ~ In k (keys_of ls).
  Proof.
    unfold CodecM.missing. rewrite filter_In. cbn [fst]. rewrite negb_true_iff.
    rewrite <- mem_str_In. destruct (mem_str k (keys_of ls)); split; intros [H1 H2]; split; auto; congruence.
  Qed.

  (* after one edit every requested key is present, so a second edit appends nothing *)
  Lemma missing_after s ls : settings_ok s -> missing s (edit_lines s ls) = [].
  Proof.
    intros (Hnd & Hok). destruct (missing s (edit_lines s ls)) as [|[k v] r] eqn:E; [reflexivity|exfalso].
    assert (Hin : In (k, v) (missing s (edit_lines s ls))) by (rewrite E; now left).
    apply missing_In in Hin. destruct Hin as [Hs Hn]. apply Hn. clear Hn E.
    unfold CodecM.edit_lines. rewrite keys_of_app. apply in_or_app.
    destruct (in_dec (list_eq_dec Z.eq_dec) k (keys_of ls)) as [Hk|Hk].
    - left. destruct (is_nil (missing s ls)); [|rewrite keys_of_map_last]; now rewrite keys_of_map_edit1.
    - right. apply keys_of_In. exists (newl k v). split.
      + apply in_map_iff. exists (k, v). split; [reflexivity|]. apply missing_In. now split.
      + apply new_key. rewrite Forall_forall in Hok. apply (Hok (k, v) Hs).
  Qed.

  Lemma edit1_fix_out s ls l : settings_ok s -> In l (edit_lines s ls) -> edit1 s l = l.
  Proof.
    intros (Hnd & Hok) Hin. unfold CodecM.edit_lines in Hin. apply in_app_or in Hin. destruct Hin as [Hin|Hin].
    - assert (H : In l (map (edit1 s) ls) \/ exists l0, In l0 (map (edit1 s) ls) /\ l = fin l0).
      { destruct (is_nil (missing s ls)); [now left|now apply In_map_last]. }
      destruct H as [H|(l0 & H & ->)].
      + apply in_map_iff in H. destruct H as (l1 & <- & _). apply edit1_idem.
      + apply in_map_iff in H. destruct H as (l1 & <- & _). apply edit1_fin_idem.
    - apply in_map_iff in Hin. destruct Hin as ([k v] & <- & Hm). cbn [fst snd].
      apply missing_In in Hm. destruct Hm as [Hs _].
      assert (Hkv : okkv k v) by (rewrite Forall_forall in Hok; apply (Hok (k, v) Hs)).
      unfold CodecM.edit1. rewrite (new_key _ _ Hkv), (lookup_NoDup k v s Hnd Hs). now apply new_repl.
  Qed.

  Theorem edit_lines_idempotent s ls : settings_ok s -> edit_lines s (edit_lines s ls) = edit_lines s ls.
  Proof.
    intros Hs. unfold CodecM.edit_lines at 1. rewrite (missing_after s ls Hs). cbn [is_nil map]. rewrite app_nil_r.
    rewrite <- (map_id (edit_lines s ls)) at 2. apply map_ext_in. intros l Hl. now apply edit1_fix_out with ls.
  Qed.

  (* ---- exactness *)
  Lemma map_last_length ls : length (map_last ls) = length ls.
  Proof. induction ls as [|a [|b r] IH]; cbn in *; auto. Qed.

  Lemma nth_error_map_last : forall ls i l, nth_error ls i = Some l ->
    nth_error (map_last ls) i = Some (if (S i =? length ls)%nat then fin l else l).
  Proof.
    induction ls as [|a r IH]; intros i l H; [destruct i; discriminate|]. destruct r as [|b r'].
    - destruct i as [|i]; [|destruct i; discriminate]. cbn in *. congruence.
    - change (map_last (a :: b :: r')) with (a :: map_last (b :: r')). destruct i as [|i].
      + cbn in *. congruence.
      + cbn [nth_error] in *. rewrite (IH i l H). cbn [length]. reflexivity.
  Qed.

  (* line i of the input becomes line i of the output: edited iff its key is requested,
     and only the last line may additionally be terminated, only when something is appended *)
  Theorem edit_lines_nth s ls i l : nth_error ls i = Some l ->
    nth_error (edit_lines s ls) i =
    Some (if negb (is_nil (missing s ls)) && (S i =? length ls)%nat then fin (edit1 s l) else edit1 s l).
  Proof.
    intros H. unfold CodecM.edit_lines. assert (Hi : (i < length ls)%nat) by (apply nth_error_Some; congruence).
    assert (Hm : nth_error (map (edit1 s) ls) i = Some (edit1 s l)) by (rewrite nth_error_map, H; reflexivity).
    destruct (is_nil (missing s ls)); cbn [negb andb].
    - rewrite nth_error_app1 by (rewrite map_length; exact Hi). exact Hm.
    - rewrite nth_error_app1 by (rewrite map_last_length, map_length; exact Hi).
      rewrite (nth_error_map_last _ _ _ Hm), map_length. reflexivity.
  Qed.

  (* what follows the original lines: one new line per requested key that no line had, in
     the order of the settings, each exactly once *)
  Theorem edit_lines_appended s ls :
    skipn (length ls) (edit_lines s ls) = map (fun kv => newl (fst kv) (snd kv)) (missing s ls) /\
    length (edit_lines s ls) = (length ls + length (missing s ls))%nat.
  Proof.
    unfold CodecM.edit_lines. set (body := if is_nil (missing s ls) then _ else _).
    assert (Hb : length body = length ls).
    { unfold body. destruct (is_nil (missing s ls)); [|rewrite map_last_length]; apply map_length. }
    split.
    - rewrite skipn_app, <- Hb, skipn_all, Nat.sub_diag. reflexivity.
    - rewrite app_length, map_length, Hb. reflexivity.
  Qed.

  Theorem missing_spec (s : list (str * V)) ls k (v : V) : NoDup (map fst s) ->
    (In (k, v) (missing s ls) <-> In (k, v) s /\ forall l, In l ls -> key_of l <> Some k) /\
    NoDup (map fst (missing s ls)).
  Proof.
    intros Hnd. split.
    - rewrite missing_In, keys_of_In. split; intros [H1 H2]; split; auto.
      + intros l Hl Hk. apply H2. now exists l.
      + intros (l & Hl & Hk). now apply (H2 l Hl).
    - unfold CodecM.missing. clear -Hnd. induction s as [|[k' v'] s IH]; [constructor|].
      inversion Hnd as [|? ? Hni Hnd']; subst. cbn [filter fst].
      destruct (negb (mem_str k' (keys_of ls))); [|now apply IH]. cbn [map fst]. constructor; [|now apply IH].
      intros H. apply Hni. apply in_map_iff in H. destruct H as ([k2 v2] & <- & H). apply filter_In in H.
      apply in_map_iff. exists (k2, v2). split; [reflexivity|apply H].
  Qed.

  Theorem edit_lines_all_present s ls k v : settings_ok s -> In (k, v) s -> In k (keys_of (edit_lines s ls)).
  Proof.
    intros Hs Hin. pose proof (missing_after s ls Hs) as Hm.
    destruct (in_dec (list_eq_dec Z.eq_dec) k (keys_of (edit_lines s ls))) as [H|H]; [exact H|exfalso].
    assert (Hx : In (k, v) (missing s (edit_lines s ls))) by (apply missing_In; now split).
    rewrite Hm in Hx. exact Hx.
  Qed.
End EditP.

(* ---- mdp instance: EngineBase._modify_input *)
Definition no_char (c : Z) (s : str) : Prop := ~ In c s.
(* keys: no white space (so no newline), no "=" ; values: no newline *)
Definition mdp_okkv (k v : str) : Prop := no_space k /\ no_char c_eq k /\ no_char c_nl v.

Lemma before_delim_pre : forall l pre, before_delim l = Some pre ->
  no_char c_eq pre /\ no_char c_nl pre /\ forall r, before_delim (pre ++ c_eq :: r) = Some pre.
Proof.
  induction l as [|c l IH]; intros pre H; [discriminate|]. cbn [before_delim] in H.
  destruct (Z.eqb_spec c c_eq) as [E|E].
  - inversion H; subst. split; [intros []|]. split; [intros []|]. intros r. cbn [app before_delim].
    now rewrite Z.eqb_refl.
  - destruct (Z.eqb_spec c c_nl) as [E'|E']; [discriminate|].
    destruct (before_delim l) as [p|] eqn:Ep; [|discriminate]. cbn in H. inversion H; subst.
    destruct (IH p eq_refl) as (H1 & H2 & H3). repeat split.
    + intros [Hc|Hc]; [congruence|now apply H1].
    + intros [Hc|Hc]; [congruence|now apply H2].
    + intros r. cbn [app before_delim]. destruct (Z.eqb_spec c c_eq); [contradiction|].
      destruct (Z.eqb_spec c c_nl); [contradiction|]. now rewrite H3.
Qed.

Lemma before_delim_clean : forall p r, no_char c_eq p -> no_char c_nl p -> before_delim (p ++ c_eq :: r) = Some p.
Proof.
  induction p as [|c p IH]; intros r H1 H2; [reflexivity|]. cbn [app before_delim].
  destruct (Z.eqb_spec c c_eq) as [E|E]; [exfalso; apply H1; now left|].
  destruct (Z.eqb_spec c c_nl) as [E'|E']; [exfalso; apply H2; now left|].
  rewrite IH; [reflexivity| |]; intros Hc; [apply H1|apply H2]; now right.
Qed.

Lemma before_delim_app_nl : forall l, before_delim (l ++ [c_nl]) = before_delim l.
Proof.
  induction l as [|c l IH]; [reflexivity|]. cbn [app before_delim]. now rewrite IH.
Qed.

Lemma no_space_no_nl k : no_space k -> no_char c_nl k.
Proof.
  unfold no_space, no_char. rewrite forallb_forall. intros H Hin. specialize (H _ Hin). discriminate.
Qed.

Lemma strip_key_blank k : no_space k -> strip (k ++ [c_sp]) = k.
Proof.
  intros H. unfold strip. destruct k as [|c r].
  - reflexivity.
  - assert (Hl : lstrip ((c :: r) ++ [c_sp]) = (c :: r) ++ [c_sp]).
    { unfold no_space in H. cbn [forallb] in H. apply andb_true_iff in H. destruct H as [Hc _].
      apply negb_true_iff in Hc. cbn [app lstrip]. now rewrite Hc. }
    rewrite Hl. remember (c :: r) as k eqn:Ek. unfold rstrip. rewrite rev_app_distr.
    change (rev [c_sp]) with [c_sp]. cbn [app lstrip].
    change (is_space c_sp) with true. cbn iota.
    rewrite lstrip_nospace by now apply no_space_rev. apply rev_involutive.
Qed.

Lemma ends_nl_app l : ends_nl (l ++ [c_nl]) = true.
Proof. unfold ends_nl. rewrite rev_app_distr. reflexivity. Qed.

Lemma mdp_repl_key l k v : mdp_key l = Some k -> mdp_key (mdp_repl l v) = Some k.
Proof.
  unfold mdp_key, mdp_repl. destruct (before_delim l) as [pre|] eqn:E; [|discriminate].
  destruct (before_delim_pre _ _ E) as (_ & _ & H). cbn [app]. now rewrite H.
Qed.

Lemma mdp_repl_idem l k v : mdp_key l = Some k -> mdp_repl (mdp_repl l v) v = mdp_repl l v.
Proof.
  unfold mdp_key, mdp_repl. destruct (before_delim l) as [pre|] eqn:E; [|discriminate]. intros _.
  destruct (before_delim_pre _ _ E) as (_ & _ & H). cbn [app]. now rewrite H.
Qed.

Lemma mdp_newl_bd k v : mdp_okkv k v -> before_delim (mdp_newl k v) = Some (k ++ [c_sp]).
Proof.
  intros (Hs & He & _). unfold mdp_newl.
  change (k ++ [c_sp; c_eq; c_sp] ++ v ++ [c_nl]) with (k ++ [c_sp] ++ c_eq :: (c_sp :: v ++ [c_nl])).
  rewrite app_assoc. apply before_delim_clean.
  - intros Hin. apply in_app_or in Hin. destruct Hin as [Hin|[Hin|[]]]; [now apply He|discriminate].
  - intros Hin. apply in_app_or in Hin. destruct Hin as [Hin|[Hin|[]]]; [now apply (no_space_no_nl k Hs)|discriminate].
Qed.

Lemma mdp_new_key k v : mdp_okkv k v -> mdp_key (mdp_newl k v) = Some k.
Proof.
  intros H. unfold mdp_key. rewrite (mdp_newl_bd k v H). cbn [option_map]. f_equal.
  apply strip_key_blank. apply H.
Qed.

Lemma mdp_new_repl k v : mdp_okkv k v -> mdp_repl (mdp_newl k v) v = mdp_newl k v.
Proof.
  intros H. unfold mdp_repl. rewrite (mdp_newl_bd k v H). unfold mdp_newl. rewrite <- app_assoc. reflexivity.
Qed.

Lemma mdp_fin_key l : mdp_key (mdp_fin l) = mdp_key l.
Proof.
  unfold mdp_fin, mdp_key. destruct (is_nil l || ends_nl l); [reflexivity|]. now rewrite before_delim_app_nl.
Qed.

Lemma mdp_fin_repl l k v : mdp_key l = Some k -> mdp_fin (mdp_repl l v) = mdp_repl l v.
Proof.
  unfold mdp_key, mdp_repl, mdp_fin. destruct (before_delim l) as [pre|]; [|discriminate]. intros _.
  replace (pre ++ [c_eq; c_sp] ++ v ++ [c_nl]) with ((pre ++ [c_eq; c_sp] ++ v) ++ [c_nl]) by (now rewrite <- !app_assoc).
  rewrite ends_nl_app, orb_true_r. reflexivity.
Qed.

Definition mdp_settings_ok := settings_ok mdp_okkv.

Theorem mdp_edit_lines_idempotent s ls : mdp_settings_ok s ->
  mdp_edit_lines s (mdp_edit_lines s ls) = mdp_edit_lines s ls.
Proof.
  apply (edit_lines_idempotent mdp_key mdp_repl mdp_newl mdp_fin mdp_okkv);
    [exact mdp_repl_key|exact mdp_repl_idem|exact mdp_new_key|exact mdp_new_repl|exact mdp_fin_key|exact mdp_fin_repl].
Qed.

(* ---- text level: a file is the concatenation of its lines *)
Definition line_term (l : str) : Prop := exists b, l = b ++ [c_nl] /\ no_char c_nl b.
Definition line_open (l : str) : Prop := l <> [] /\ no_char c_nl l.
Inductive proper : list str -> Prop :=
| P_nil : proper []
| P_last l : line_open l -> proper [l]
| P_cons l r : line_term l -> proper r -> proper (l :: r).

Lemma split_aux_nonl b : forall cur r, no_char c_nl b ->
  split_lines_aux cur (b ++ r) = split_lines_aux (rev b ++ cur) r.
Proof.
  induction b as [|c b IH]; intros cur r H; [reflexivity|]. cbn [app split_lines_aux].
  destruct (Z.eqb_spec c c_nl) as [E|E]; [exfalso; apply H; now left|].
  rewrite IH by (intros Hc; apply H; now right). cbn [rev]. now rewrite <- app_assoc.
Qed.

Lemma split_concat ls : proper ls -> split_lines (concat ls) = ls.
Proof.
  unfold split_lines. induction 1 as [|l (Hne & Hnl)|l r (b & -> & Hb) Hr IH].
  - reflexivity.
  - cbn [concat]. rewrite app_nil_r. rewrite <- (app_nil_r l) at 1. rewrite split_aux_nonl by exact Hnl.
    cbn [split_lines_aux]. rewrite app_nil_r. destruct (rev l) eqn:E.
    + exfalso. apply Hne. rewrite <- (rev_involutive l), E. reflexivity.
    + cbn [is_nil]. rewrite <- E, rev_involutive. reflexivity.
  - cbn [concat]. rewrite <- !app_assoc. rewrite split_aux_nonl by exact Hb. cbn [app split_lines_aux].
    rewrite Z.eqb_refl, app_nil_r. cbn [rev]. rewrite rev_involutive. f_equal. exact IH.
Qed.

Lemma split_aux_proper : forall s cur, no_char c_nl cur -> proper (split_lines_aux cur s).
Proof.
  induction s as [|c s IH]; intros cur H; cbn [split_lines_aux].
  - destruct cur as [|x cur'] eqn:E; cbn [is_nil]; [constructor|]. apply P_last. split.
    + intros E'. apply (f_equal (@length Z)) in E'. rewrite rev_length in E'. discriminate.
    + intros Hin. apply H. now apply in_rev.
  - destruct (Z.eqb_spec c c_nl) as [E|E].
    + apply P_cons; [|apply IH; intros []]. exists (rev cur). cbn [rev]. subst c. split; [reflexivity|].
      intros Hin. apply H. now apply in_rev.
    + apply IH. intros [Hc|Hc]; [congruence|now apply H].
Qed.

Lemma split_lines_proper s : proper (split_lines s).
Proof. apply split_aux_proper. intros []. Qed.

Lemma line_cases l : line_term l \/ line_open l -> l <> [].
Proof.
  intros [(b & -> & _)|(H & _)]; [|exact H]. intros E. apply app_eq_nil in E. destruct E as [_ E]. discriminate.
Qed.

(* editing one line keeps it a line: a replaced line is terminated (the value has no newline) *)
Lemma mdp_edit1_line s l : Forall (fun kv => mdp_okkv (fst kv) (snd kv)) s ->
  (line_term l -> line_term (edit1 mdp_key mdp_repl s l)) /\
  (line_open l -> line_term (edit1 mdp_key mdp_repl s l) \/ line_open (edit1 mdp_key mdp_repl s l)).
Proof.
  intros Hok. unfold edit1, mdp_key, mdp_repl. destruct (before_delim l) as [pre|] eqn:E; cbn [option_map]; [|tauto].
  destruct (lookup (strip pre) s) as [v|] eqn:El; [|tauto].
  assert (Ht : line_term (pre ++ [c_eq; c_sp] ++ v ++ [c_nl])).
  { exists (pre ++ [c_eq; c_sp] ++ v). split; [now rewrite <- !app_assoc|].
    destruct (before_delim_pre _ _ E) as (_ & Hp & _). apply lookup_In in El.
    rewrite Forall_forall in Hok. destruct (Hok _ El) as (_ & _ & Hv). cbn [snd] in Hv.
    intros Hin. apply in_app_or in Hin. destruct Hin as [Hin|Hin]; [now apply Hp|].
    apply in_app_or in Hin. destruct Hin as [[Hin|[Hin|[]]]|Hin]; try discriminate. now apply Hv. }
  tauto.
Qed.

Lemma mdp_fin_term l : line_term l \/ line_open l -> line_term (mdp_fin l).
Proof.
  intros [H|H].
  - destruct H as (b & -> & Hb). unfold mdp_fin. rewrite ends_nl_app, orb_true_r. now exists b.
  - destruct H as (Hne & Hnl). unfold mdp_fin. destruct l as [|c r]; [congruence|]. cbn [is_nil orb].
    assert (E : ends_nl (c :: r) = false).
    { unfold ends_nl. destruct (rev (c :: r)) as [|x t] eqn:Er; [reflexivity|].
      apply Z.eqb_neq. intros ->. apply Hnl. apply in_rev. rewrite Er. now left. }
    rewrite E. now exists (c :: r).
Qed.

Lemma proper_app_term a b : Forall line_term a -> proper b -> proper (a ++ b).
Proof. induction 1; cbn [app]; [auto|]. intros Hb. apply P_cons; auto. Qed.

Lemma proper_all_term a : Forall line_term a -> proper a.
Proof. intros H. rewrite <- (app_nil_r a). apply proper_app_term; [exact H|constructor]. Qed.

Lemma map_last_all_term ls : proper ls -> Forall line_term (map_last mdp_fin ls).
Proof.
  induction 1 as [|l Ho|l r Ht Hr IH].
  - constructor.
  - cbn. constructor; [|constructor]. apply mdp_fin_term. now right.
  - destruct r as [|l' r'].
    + cbn. constructor; [|constructor]. apply mdp_fin_term. now left.
    + change (map_last mdp_fin (l :: l' :: r')) with (l :: map_last mdp_fin (l' :: r')). constructor; assumption.
Qed.

Lemma mdp_body_proper s ls : Forall (fun kv => mdp_okkv (fst kv) (snd kv)) s -> proper ls ->
  proper (map (edit1 mdp_key mdp_repl s) ls).
Proof.
  intros Hok. induction 1 as [|l Ho|l r Ht Hr IH]; cbn [map].
  - constructor.
  - destruct (proj2 (mdp_edit1_line s l Hok) Ho) as [H|H]; [|now apply P_last].
    apply P_cons; [exact H|constructor].
  - apply P_cons; [|exact IH]. now apply (proj1 (mdp_edit1_line s l Hok)).
Qed.

Lemma mdp_newl_term k v : mdp_okkv k v -> line_term (mdp_newl k v).
Proof.
  intros (Hs & _ & Hv). unfold mdp_newl. exists (k ++ [c_sp; c_eq; c_sp] ++ v). split; [now rewrite <- !app_assoc|].
  intros Hin. apply in_app_or in Hin. destruct Hin as [Hin|Hin]; [now apply (no_space_no_nl k Hs)|].
  apply in_app_or in Hin. destruct Hin as [[Hin|[Hin|[Hin|[]]]]|Hin]; try discriminate. now apply Hv.
Qed.

Lemma mdp_edit_lines_proper s ls : mdp_settings_ok s -> proper ls -> proper (mdp_edit_lines s ls).
Proof.
  intros (_ & Hok) Hp. unfold mdp_edit_lines, edit_lines.
  pose proof (mdp_body_proper s ls Hok Hp) as Hb.
  assert (Hn : Forall line_term (map (fun kv => mdp_newl (fst kv) (snd kv)) (missing mdp_key s ls))).
  { apply Forall_forall. intros l Hl. apply in_map_iff in Hl. destruct Hl as ([k v] & <- & Hm).
    unfold missing in Hm. apply filter_In in Hm. destruct Hm as [Hm _].
    rewrite Forall_forall in Hok. apply mdp_newl_term. apply (Hok _ Hm). }
  destruct (missing mdp_key s ls) as [|m r] eqn:Em.
  - cbn [is_nil map]. now rewrite app_nil_r.
  - cbn [is_nil]. apply proper_app_term; [now apply map_last_all_term|now apply proper_all_term].
Qed.

(* the whole-file statement: editing the edited text changes nothing *)
Theorem mdp_edit_idempotent s text : mdp_settings_ok s -> mdp_edit s (mdp_edit s text) = mdp_edit s text.
Proof.
  intros Hs. unfold mdp_edit at 1 2.
  rewrite split_concat by (apply mdp_edit_lines_proper; [exact Hs|apply split_lines_proper]).
  now rewrite mdp_edit_lines_idempotent.
Qed.

Lemma concat_split_lines : forall s cur, concat (split_lines_aux cur s) = rev cur ++ s.
Proof.
  induction s as [|c s IH]; intros cur; cbn [split_lines_aux].
  - destruct cur; cbn [is_nil concat]; [reflexivity|]. now rewrite !app_nil_r.
  - destruct (c =? c_nl).
    + cbn [concat rev]. rewrite IH. cbn [rev app]. now rewrite <- app_assoc.
    + rewrite IH. cbn [rev]. now rewrite <- app_assoc.
Qed.

(* no settings: the file is copied byte for byte *)
Theorem mdp_edit_nothing text : mdp_edit [] text = text.
Proof.
  unfold mdp_edit, mdp_edit_lines, edit_lines. cbn [missing filter is_nil map]. rewrite app_nil_r.
  replace (map (edit1 mdp_key mdp_repl []) (split_lines text)) with (split_lines text).
  - unfold split_lines. now rewrite concat_split_lines.
  - rewrite <- (map_id (split_lines text)) at 1. apply map_ext. intros l. unfold edit1.
    destruct (mdp_key l); reflexivity.
Qed.

(* reading back: every line that carries a requested key now carries the requested value *)
Lemma until_eq_clean : forall v r, no_char c_eq v -> until_eq (v ++ c_eq :: r) = v.
Proof.
  induction v as [|c v IH]; intros r H; cbn [app until_eq]; [now rewrite Z.eqb_refl|].
  destruct (Z.eqb_spec c c_eq) as [E|E]; [exfalso; apply H; now left|]. f_equal. apply IH. intros Hc. apply H. now right.
Qed.
Lemma until_eq_end : forall v, no_char c_eq v -> until_eq v = v.
Proof.
  induction v as [|c v IH]; intros H; cbn [until_eq]; [reflexivity|].
  destruct (Z.eqb_spec c c_eq) as [E|E]; [exfalso; apply H; now left|]. f_equal. apply IH. intros Hc. apply H. now right.
Qed.
Lemma after_eq_clean : forall p r, no_char c_eq p -> after_eq (p ++ c_eq :: r) = r.
Proof.
  induction p as [|c p IH]; intros r H; cbn [app after_eq]; [now rewrite Z.eqb_refl|].
  destruct (Z.eqb_spec c c_eq) as [E|E]; [exfalso; apply H; now left|]. apply IH. intros Hc. apply H. now right.
Qed.

Theorem mdp_repl_value l k v : mdp_key l = Some k -> no_char c_eq v ->
  mdp_value (mdp_repl l v) = strip v.
Proof.
  unfold mdp_key, mdp_repl, mdp_value. destruct (before_delim l) as [pre|] eqn:E; [|discriminate]. intros _ Hv.
  destruct (before_delim_pre _ _ E) as (Hp & _ & _). cbn [app]. rewrite after_eq_clean by exact Hp.
  rewrite until_eq_end.
  - unfold strip. change (c_sp :: v ++ [c_nl]) with ([c_sp] ++ v ++ [c_nl]).
    rewrite lstrip_spaces_app by reflexivity. unfold rstrip.
    assert (Hl : lstrip (v ++ [c_nl]) = lstrip v ++ [c_nl] \/ (lstrip (v ++ [c_nl]) = [] /\ lstrip v = [])).
    { clear. induction v as [|c v IH]; [right; split; reflexivity|]. cbn [app lstrip]. destruct (is_space c); [exact IH|].
      left. reflexivity. }
    destruct Hl as [Hl|(Hl & Hl')]; rewrite Hl.
    + rewrite rev_app_distr. cbn [rev app lstrip]. change (is_space c_nl) with true. cbn iota. reflexivity.
    + rewrite Hl'. reflexivity.
  - intros Hin. destruct Hin as [Hin|Hin]; [discriminate|]. apply in_app_or in Hin.
    destruct Hin as [Hin|[Hin|[]]]; [now apply Hv|discriminate].
Qed.

Theorem mdp_newl_value k v : mdp_okkv k v -> no_char c_eq v -> mdp_value (mdp_newl k v) = strip v.
Proof.
  intros Hk Hv. rewrite <- (mdp_new_repl k v Hk). apply mdp_repl_value with k; [now apply mdp_new_key|exact Hv].
Qed.

(* ---- CP2K instance: update_node's data lines, keyed by their first token *)
Lemma tokens_aux_props : forall s cur, no_space cur ->
  Forall (fun t => no_space t /\ t <> []) (tokens_aux cur s).
Proof.
  induction s as [|c s IH]; intros cur Hc; cbn [tokens_aux].
  - destruct cur as [|x cur'] eqn:E; cbn [is_nil]; constructor; [|constructor]. split; [now apply no_space_rev|].
    intros E'. apply (f_equal (@length Z)) in E'. rewrite rev_length in E'. discriminate.
  - destruct (is_space c) eqn:Es.
    + destruct cur as [|x cur'] eqn:E; cbn [is_nil]; [apply IH; reflexivity|]. constructor; [|apply IH; reflexivity].
      split; [now apply no_space_rev|]. intros E'. apply (f_equal (@length Z)) in E'. rewrite rev_length in E'. discriminate.
    + apply IH. unfold no_space. cbn [forallb]. rewrite Es. exact Hc.
Qed.

Lemma first_token_props l k : first_token l = Some k -> no_space k /\ k <> [].
Proof.
  unfold first_token, tokens. intros H. pose proof (tokens_aux_props l [] eq_refl) as P.
  destruct (tokens_aux [] l) as [|t r]; [discriminate|]. cbn in H. inversion H; subst. now inversion P.
Qed.

Definition cp2k_okkv (k : str) (v : option str) : Prop := no_space k /\ k <> [].

Lemma first_token_fmt k v : cp2k_okkv k v -> first_token (cp2k_fmt k v) = Some k.
Proof.
  intros (Hs & Hne). unfold first_token, tokens, cp2k_fmt. destruct v as [v'|].
  - rewrite tokens_tok_sp by (try assumption; reflexivity). reflexivity.
  - now rewrite tokens_tok_end.
Qed.

Lemma cp2k_repl_key l k v : first_token l = Some k -> first_token (cp2k_repl l v) = Some k.
Proof. intros H. unfold cp2k_repl. rewrite H. apply first_token_fmt. now apply first_token_props with l. Qed.

Lemma cp2k_repl_idem l k v : first_token l = Some k -> cp2k_repl (cp2k_repl l v) v = cp2k_repl l v.
Proof.
  intros H. unfold cp2k_repl at 2 3. rewrite H. unfold cp2k_repl.
  rewrite first_token_fmt; [reflexivity|now apply first_token_props with l].
Qed.

Lemma cp2k_new_repl k v : cp2k_okkv k v -> cp2k_repl (cp2k_fmt k v) v = cp2k_fmt k v.
Proof. intros H. unfold cp2k_repl. now rewrite first_token_fmt. Qed.

Definition cp2k_settings_ok := settings_ok cp2k_okkv.

Theorem cp2k_update_idempotent data ls : cp2k_settings_ok data ->
  cp2k_update_data data (cp2k_update_data data ls) = cp2k_update_data data ls.
Proof.
  apply (edit_lines_idempotent first_token cp2k_repl cp2k_fmt (fun l => l) cp2k_okkv);
    [exact cp2k_repl_key|exact cp2k_repl_idem|exact first_token_fmt|exact cp2k_new_repl|reflexivity|reflexivity].
Qed.

(* a new section built from a dict (repaired _add_node) = updating an empty section, and
   is a fixed point of the update *)
Theorem cp2k_new_is_update data : cp2k_new_data data = cp2k_update_data data [].
Proof.
  unfold cp2k_new_data, cp2k_update_data, edit_lines, missing. cbn [map keys_of flat_map].
  assert (E : filter (fun kv : str * option str => negb (mem_str (fst kv) [])) data = data)
    by (induction data as [|a d IHd]; [reflexivity|]; simpl in *; now rewrite IHd).
  rewrite E. destruct (is_nil data); reflexivity.
Qed.

Theorem cp2k_new_fixed_point data : cp2k_settings_ok data ->
  cp2k_update_data data (cp2k_new_data data) = cp2k_new_data data.
Proof. intros H. rewrite cp2k_new_is_update. now apply cp2k_update_idempotent. Qed.

(* the constructor as it stands (list(dict) keeps the keys only) is not: the value only
   arrives with the second application *)
Theorem cp2k_unrepaired_new_refuted : exists data, cp2k_settings_ok data /\
  cp2k_update_data data (cp2k_new_data_unrepaired data) <> cp2k_new_data_unrepaired data.
Proof.
  exists [([77; 68], Some [53])]. split.
  - split; [repeat constructor; intros []|]. repeat constructor; discriminate.
  - vm_compute. discriminate.
Qed.

(* ---- LAMMPS write_for_run on tokens *)
Definition lmp_settings_ok (s : list (str * str)) : Prop :=
  NoDup (map fst s) /\ forall k v, In (k, v) s -> lookup v s = None.   (* no value is itself a variable *)

Lemma subst_piece_idem s p : lmp_settings_ok s -> subst_piece s (subst_piece s p) = subst_piece s p.
Proof.
  intros (_ & Hv). unfold subst_piece at 2 3. destruct p as [[|] t]; cbn [fst snd]; [|reflexivity].
  destruct (lookup t s) as [v|] eqn:E.
  - unfold subst_piece. cbn [fst snd]. now rewrite (Hv t v (lookup_In _ _ _ E)).
  - unfold subst_piece. cbn [fst snd]. now rewrite E.
Qed.

(* every token of the output is either an untouched token or a substituted value; none is
   a requested variable any more *)
Theorem lmp_output_free s l t : lmp_settings_ok s -> In t (line_tokens (lmp_subst_line s l)) -> lookup t s = None.
Proof.
  intros (Hnd & Hv) Hin. unfold line_tokens, lmp_subst_line in Hin. apply in_map_iff in Hin.
  destruct Hin as (p & <- & Hp). apply filter_In in Hp. destruct Hp as [Hp Hf]. apply in_map_iff in Hp.
  destruct Hp as ([b t0] & <- & _). unfold subst_piece in *. cbn [fst snd] in *. destruct b; [|discriminate].
  destruct (lookup t0 s) as [v|] eqn:E; cbn [snd]; [|exact E]. apply (Hv t0 v). now apply lookup_In.
Qed.

Theorem lmp_subst_exact s l i p : nth_error l i = Some p ->
  nth_error (lmp_subst_line s l) i =
  Some (match (if fst p then lookup (snd p) s else None) with Some v => (true, v) | None => p end).
Proof.
  intros H. unfold lmp_subst_line. rewrite nth_error_map, H. cbn [option_map]. f_equal.
  unfold subst_piece. destruct p as [[|] t]; cbn [fst snd]; [|reflexivity]. destruct (lookup t s); reflexivity.
Qed.

(* the variables reported missing are exactly those that are no token of any line *)
Theorem lmp_missing_spec s ls k : In k (snd (lmp_write_for_run s ls)) <->
  In k (map fst s) /\ forall l, In l ls -> ~ In k (line_tokens l).
Proof.
  unfold lmp_write_for_run. cbn [snd]. rewrite in_map_iff. split.
  - intros ([k' v] & <- & H). apply filter_In in H. destruct H as [Hin Hf]. cbn [fst] in *. split.
    + apply in_map_iff. now exists (k', v).
    + intros l Hl Ht. apply negb_true_iff in Hf. unfold lmp_found in Hf.
      assert (E : existsb (fun l0 => mem_str k' (line_tokens l0)) ls = true).
      { apply existsb_exists. exists l. split; [exact Hl|now apply mem_str_In]. }
      congruence.
  - intros (Hk & Hn). apply in_map_iff in Hk. destruct Hk as ([k' v] & <- & Hin). exists (k', v). split; [reflexivity|].
    apply filter_In. split; [exact Hin|]. cbn [fst]. apply negb_true_iff. unfold lmp_found.
    destruct (existsb (fun l0 => mem_str k' (line_tokens l0)) ls) eqn:E; [|reflexivity].
    apply existsb_exists in E. destruct E as (l & Hl & Hm). apply mem_str_In in Hm. exfalso. now apply (Hn l Hl).
Qed.

Lemma filter_all_true {A} (f : A -> bool) l : (forall x, In x l -> f x = true) -> filter f l = l.
Proof.
  induction l as [|a l IH]; intros H; [reflexivity|]. cbn [filter]. rewrite (H a (or_introl eq_refl)).
  f_equal. apply IH. intros x Hx. apply H. now right.
Qed.

(* a second application leaves the text unchanged and reports every variable as missing *)
Theorem lmp_second_application s ls : lmp_settings_ok s ->
  lmp_write_for_run s (fst (lmp_write_for_run s ls)) = (fst (lmp_write_for_run s ls), map fst s).
Proof.
  intros Hs. unfold lmp_write_for_run. cbn [fst]. f_equal.
  - rewrite map_map. apply map_ext. intros l. unfold lmp_subst_line. rewrite map_map. apply map_ext.
    intros p. now apply subst_piece_idem.
  - f_equal.
    assert (E : forall kv, In kv s -> negb (lmp_found (fst kv) (map (lmp_subst_line s) ls)) = true).
    { intros [k v] Hin. cbn [fst]. apply negb_true_iff. unfold lmp_found.
      destruct (existsb _ _) eqn:Ex; [|reflexivity]. apply existsb_exists in Ex. destruct Ex as (l' & Hl' & Hm).
      apply in_map_iff in Hl'. destruct Hl' as (l & <- & _). apply mem_str_In in Hm.
      pose proof (lmp_output_free s l k Hs Hm) as Hn. destruct Hs as (Hnd & _).
      rewrite (lookup_NoDup k v s Hnd Hin) in Hn. discriminate. }
    now apply filter_all_true.
Qed.

(* ---- LAMMPS write_for_run as written (str.replace) against the whole-word substitution *)
Lemma str_starts_refl k : str_starts k k = true.
Proof. induction k as [|c k IH]; [reflexivity|]. cbn [str_starts]. now rewrite Z.eqb_refl, IH. Qed.

Lemma str_replace_skip_all k v t : str_replace k v (length t) t = [].
Proof. induction t as [|c t IH]; [reflexivity|]. cbn [length str_replace]. exact IH. Qed.

Lemma str_replace_self k v : k <> [] -> str_replace k v O k = v.
Proof.
  destruct k as [|c k]; [congruence|]. intros _. cbn [str_replace]. rewrite (str_starts_refl (c :: k)).
  cbn [length]. rewrite Nat.sub_succ, Nat.sub_0_r, str_replace_skip_all. apply app_nil_r.
Qed.

Lemma str_replace_no_occ k v t : str_occurs k t = false -> str_replace k v O t = t.
Proof.
  induction t as [|c t IH]; [reflexivity|]. cbn [str_occurs str_replace]. intros H. apply orb_false_iff in H.
  destruct H as [H1 H2]. cbn [str_starts] in H1. rewrite H1. f_equal. now apply IH.
Qed.

Lemma lookup_app_some {V} t (a b : list (str * V)) v : lookup t a = Some v -> lookup t (a ++ b) = Some v.
Proof.
  induction a as [|[k' v'] a IH]; [discriminate|]. cbn [lookup app]. destruct (str_eqb t k'); [trivial|exact IH].
Qed.

Lemma lookup_app_none {V} t (a b : list (str * V)) : lookup t a = None -> lookup t (a ++ b) = lookup t b.
Proof.
  induction a as [|[k' v'] a IH]; [reflexivity|]. cbn [lookup app]. destruct (str_eqb t k'); [discriminate|exact IH].
Qed.

Lemma subst_piece_nil p : subst_piece [] p = p.
Proof. unfold subst_piece. destruct p as [[|] t]; reflexivity. Qed.

Lemma token_in_line (l : list piece) t : In (true, t) l -> In t (line_tokens l).
Proof.
  intros H. unfold line_tokens. apply in_map_iff. exists (true, t). split; [reflexivity|].
  apply filter_In. now split.
Qed.

(* one step of the loop on a line that is the whole-word substitution of the variables done
   so far *)
Lemma lmp_impl_step_ok l dn kv :
  (if mem_str (fst kv) (line_tokens l) then
     negb (is_nil (fst kv))
     && forallb (fun t => str_eqb t (fst kv) || is_some (lookup t dn) || negb (str_occurs (fst kv) t)) (line_tokens l)
     && forallb (fun d => negb (mem_str (fst d) (line_tokens l)) || negb (str_occurs (fst kv) (snd d))) dn
   else true) = true ->
  lmp_impl_step (line_tokens l) (map (subst_piece dn) l) kv = map (subst_piece (dn ++ [kv])) l.
Proof.
  destruct kv as [k v]. cbn [fst snd]. intros H. unfold lmp_impl_step. cbn [fst snd].
  destruct (mem_str k (line_tokens l)) eqn:Hm.
  - apply andb_true_iff in H. destruct H as [H Hd]. apply andb_true_iff in H. destruct H as [Hk Ht].
    assert (Hk' : k <> []) by (destruct k; [discriminate|congruence]).
    rewrite forallb_forall in Ht, Hd. rewrite map_map. apply map_ext_in. intros [b t] Hp.
    unfold subst_piece, repl_piece. cbn [fst snd]. destruct b; [|reflexivity].
    pose proof (token_in_line l t Hp) as HtT.
    destruct (lookup t dn) as [v1|] eqn:El.
    + cbn [fst snd]. rewrite (lookup_app_some t dn [(k, v)] v1 El). f_equal. apply str_replace_no_occ.
      specialize (Hd (t, v1) (lookup_In _ _ _ El)). cbn [fst snd] in Hd.
      apply (proj2 (mem_str_In t (line_tokens l))) in HtT. rewrite HtT in Hd. cbn in Hd.
      now apply negb_true_iff in Hd.
    + cbn [fst snd]. rewrite (lookup_app_none t dn [(k, v)] El). cbn [lookup].
      specialize (Ht t HtT). rewrite El in Ht. cbn [is_some] in Ht. rewrite orb_false_r in Ht.
      destruct (str_eqb t k) eqn:Etk.
      * apply str_eqb_eq in Etk. subst t. now rewrite str_replace_self.
      * cbn in Ht. apply negb_true_iff in Ht. now rewrite str_replace_no_occ.
  - apply map_ext_in. intros [b t] Hp. unfold subst_piece. cbn [fst snd]. destruct b; [|reflexivity].
    pose proof (token_in_line l t Hp) as HtT.
    destruct (lookup t dn) as [v1|] eqn:El.
    + now rewrite (lookup_app_some t dn [(k, v)] v1 El).
    + rewrite (lookup_app_none t dn [(k, v)] El). cbn [lookup].
      destruct (str_eqb t k) eqn:Etk; [|reflexivity]. apply str_eqb_eq in Etk. subst t.
      apply (proj2 (mem_str_In k (line_tokens l))) in HtT. congruence.
Qed.

Lemma lmp_impl_fold_ok l s : forall dn, lmp_clean_from (line_tokens l) dn s = true ->
  fold_left (lmp_impl_step (line_tokens l)) s (map (subst_piece dn) l) = map (subst_piece (dn ++ s)) l.
Proof.
  induction s as [|kv s IH]; intros dn H.
  - now rewrite app_nil_r.
  - cbn [lmp_clean_from] in H. apply andb_true_iff in H. destruct H as [H1 H2]. cbn [fold_left].
    rewrite (lmp_impl_step_ok l dn kv H1), (IH (dn ++ [kv]) H2), <- app_assoc. reflexivity.
Qed.

(* on a clean line the code is the whole-word substitution *)
Theorem lmp_impl_whole_word s l : lmp_line_clean s l = true -> lmp_impl_line s l = lmp_subst_line s l.
Proof.
  intros H. unfold lmp_impl_line, lmp_subst_line. unfold lmp_line_clean in H.
  pose proof (lmp_impl_fold_ok l s [] H) as E. cbn [app] in E.
  rewrite <- E. f_equal. rewrite <- (map_id l) at 1. apply map_ext. intros p. now rewrite subst_piece_nil.
Qed.

(* a line none of whose words is a requested variable is written back unchanged -- whatever
   its words, comments or file names contain as substrings *)
Theorem lmp_impl_no_word_untouched s l :
  (forall k, In k (map fst s) -> ~ In k (line_tokens l)) -> lmp_impl_line s l = l.
Proof.
  unfold lmp_impl_line. generalize (line_tokens l) as T. intros T. revert l.
  induction s as [|[k v] s IH]; intros l H; [reflexivity|]. cbn [fold_left]. unfold lmp_impl_step at 2. cbn [fst snd].
  destruct (mem_str k T) eqn:E.
  - apply mem_str_In in E. exfalso. apply (H k); [now left|exact E].
  - apply IH. intros k' Hk'. apply H. now right.
Qed.

Theorem lmp_impl_write_whole_word s ls : forallb (lmp_line_clean s) ls = true ->
  lmp_impl_write_for_run s ls = lmp_write_for_run s ls.
Proof.
  intros H. unfold lmp_impl_write_for_run, lmp_write_for_run. f_equal. apply map_ext_in. intros l Hl.
  rewrite forallb_forall in H. now apply lmp_impl_whole_word, H.
Qed.

(* the edit is idempotent: applied to its own output (clean lines) it changes nothing and
   reports every variable as missing *)
Theorem lmp_impl_second_application s ls : lmp_settings_ok s -> forallb (lmp_line_clean s) ls = true ->
  lmp_impl_write_for_run s (fst (lmp_impl_write_for_run s ls)) = (fst (lmp_impl_write_for_run s ls), map fst s).
Proof.
  intros Hs Hc. rewrite (lmp_impl_write_whole_word s ls Hc).
  pose proof (lmp_second_application s ls Hs) as E2.
  set (ls' := fst (lmp_write_for_run s ls)) in *.
  change (lmp_impl_write_for_run s ls') with (map (lmp_impl_line s) ls', snd (lmp_write_for_run s ls')).
  rewrite E2. cbn [snd]. f_equal.
  unfold ls', lmp_write_for_run. cbn [fst]. rewrite <- (map_id (map (lmp_subst_line s) ls)) at 2.
  rewrite !map_map. apply map_ext. intros l.
  apply lmp_impl_no_word_untouched. intros k Hk Hin.
  pose proof (lmp_output_free s l k Hs Hin) as Hn. apply in_map_iff in Hk. destruct Hk as ([k' v] & <- & Hkv).
  destruct Hs as (Hnd & _). cbn [fst] in Hn. rewrite (lookup_NoDup k' v s Hnd Hkv) in Hn. discriminate.
Qed.

(* the guard is needed: a variable that is a word of the line and also part of another word *)
Theorem lmp_impl_same_line_refuted : exists s l,
  lmp_settings_ok s /\ lmp_line_clean s l = false /\ lmp_impl_line s l <> lmp_subst_line s l.
Proof.
  (* {n: 3, ns: 5} on the line "n ns": the code writes "3 3s" *)
  exists [([110], [51]); ([110; 115], [53])], [(true, [110]); (false, [32]); (true, [110; 115])].
  split; [|split; [reflexivity|vm_compute; discriminate]].
  split.
  - repeat constructor; cbn; intuition discriminate.
  - intros k v [H|[H|[]]]; inversion H; subst; reflexivity.
Qed.

(* testing `var in line` instead of `var in line.split()` is refuted on a clean line *)
Theorem lmp_substring_match_refuted : exists s l,
  lmp_settings_ok s /\ lmp_line_clean s l = true /\ lmp_impl_line s l = l /\ lmp_substr_line s l <> lmp_subst_line s l.
Proof.
  (* {n: 3} on the line "xn_1 # n_x": no word is n *)
  exists [([110], [51])], [(true, [120; 110; 95; 49]); (false, [32]); (true, [35]); (false, [32]); (true, [110; 95; 120])].
  split; [|split; [reflexivity|split; [reflexivity|vm_compute; discriminate]]].
  split.
  - repeat constructor; cbn; intuition.
  - intros k v [H|[]]; inversion H; subst; reflexivity.
Qed.

(* ================================================================== records and frames *)

Theorem reverse_only_velocities c :
  c_ids (reverse_velocities c) = c_ids c /\ c_pos (reverse_velocities c) = c_pos c /\
  c_box (reverse_velocities c) = c_box c /\ c_vel (reverse_velocities c) = map (map Qopp) (c_vel c).
Proof. repeat split. Qed.

Theorem reverse_twice c :
  Forall2 (Forall2 Qeq) (c_vel (reverse_velocities (reverse_velocities c))) (c_vel c) /\
  c_ids (reverse_velocities (reverse_velocities c)) = c_ids c /\
  c_pos (reverse_velocities (reverse_velocities c)) = c_pos c /\
  c_box (reverse_velocities (reverse_velocities c)) = c_box c.
Proof.
  repeat split. cbn. induction (c_vel c) as [|r rs IH]; cbn [map]; constructor; [|exact IH].
  induction r as [|q r IHr]; cbn [map]; constructor; [apply Qopp_involutive|exact IHr].
Qed.

(* negating before printing flips the sign of what is parsed back, and nothing else *)
Theorem print_negated_parses_negated w d nz x :
  exists q, parse_fixed (print_fixed w d nz (- x)) = Some q /\ (q == - round_d d x)%Q.
Proof.
  exists (round_d d (- x)). split; [apply parse_print_fixed|].
  assert (E : rhe (- x * inject_Z (pow10 d)) = - rhe (x * inject_Z (pow10 d))).
  { unfold rhe. cbn [Qnum Qden Qmult Qopp inject_Z]. rewrite Pos.mul_1_r.
    set (n := Qnum x * pow10 d). replace (- Qnum x * pow10 d) with (- n) by (unfold n; lia).
    set (p := Zpos (Qden x)). assert (Hp : 0 < p) by (unfold p; lia).
    pose proof (Z.div_mod n p ltac:(lia)) as Hdm. pose proof (Z.mod_pos_bound n p Hp) as Hmb.
    destruct (Z.eq_dec (n mod p) 0) as [Hz|Hnz].
    - rewrite (Z.mod_opp_l_z n p) by lia. rewrite (Z.div_opp_l_z n p) by lia. rewrite Hz.
      cbn [Z.mul]. destruct (Z.ltb_spec 0 p); lia.
    - rewrite (Z.mod_opp_l_nz n p) by lia. rewrite (Z.div_opp_l_nz n p) by lia.
      destruct (Z.ltb_spec (2 * (n mod p)) p); destruct (Z.ltb_spec p (2 * (n mod p)));
        destruct (Z.ltb_spec (2 * (p - n mod p)) p); destruct (Z.ltb_spec p (2 * (p - n mod p))); try lia.
      replace (- (n / p) - 1) with (- (n / p + 1)) by lia. rewrite Z.even_opp.
      rewrite Z.even_add. cbn [Z.even]. destruct (Z.even (n / p)); cbn; lia. }
  unfold round_d, scaled. rewrite E. unfold Qeq, Qopp. cbn [Qnum Qden]. lia.
Qed.

(* ---- xyz snapshots *)
Section SnapshotsP.
  Context {L : Type}.
  Variable count_of : L -> option nat.
  Record xframe := mkXF { xf_count : L; xf_header : L; xf_atoms : list L }.
  Definition xf_ok (f : xframe) : Prop := count_of (xf_count f) = Some (length (xf_atoms f)).
  Definition xf_block (f : xframe) : list L := xf_count f :: xf_header f :: xf_atoms f.
  Definition xf_snap (f : xframe) : snap := mkS (xf_header f) (xf_atoms f).
  Definition push (cur : option (@snap L)) out := match cur with Some s => s :: out | None => out end.

  Lemma rd_atoms : forall (a : list L) rest m h acc out,
    fold_left (rd_step count_of) (a ++ rest) (RdS false (length a + m) (Some (mkS h acc)) out) =
    fold_left (rd_step count_of) rest (RdS false m (Some (mkS h (acc ++ a))) out).
  Proof.
    induction a as [|x a IH]; intros rest m h acc out; cbn [app length fold_left].
    - now rewrite app_nil_r.
    - cbn [Nat.add rd_step s_header s_atoms]. rewrite IH. now rewrite <- app_assoc.
  Qed.

  Lemma rd_block f rest cur out : xf_ok f ->
    fold_left (rd_step count_of) (xf_block f ++ rest) (RdS false 0 cur out) =
    fold_left (rd_step count_of) rest (RdS false 0 (Some (xf_snap f)) (push cur out)).
  Proof.
    intros Hok. unfold xf_block. cbn [app fold_left rd_step]. rewrite Hok. cbn [fold_left rd_step].
    rewrite <- (Nat.add_0_r (length (xf_atoms f))). rewrite rd_atoms. reflexivity.
  Qed.

  Lemma rd_blocks : forall fs cur out, Forall xf_ok fs ->
    fold_left (rd_step count_of) (concat (map xf_block fs)) (RdS false 0 cur out) =
    RdS false 0 (match rev fs with f :: _ => Some (xf_snap f) | [] => cur end)
        (match rev fs with _ :: r => map xf_snap r ++ push cur out | [] => out end).
  Proof.
    induction fs as [|f fs IH]; intros cur out H; [reflexivity|]. inversion H as [|? ? Hf Hr]; subst.
    cbn [map concat]. rewrite rd_block by exact Hf. rewrite IH by exact Hr. cbn [rev].
    destruct (rev fs) as [|g r] eqn:E; cbn [app].
    - reflexivity.
    - f_equal. rewrite map_app. cbn [map push]. now rewrite <- app_assoc.
  Qed.

  (* reading the concatenation of well-formed frames yields exactly those frames, in order *)
  Theorem read_snapshots_blocks fs : Forall xf_ok fs ->
    read_snapshots count_of (concat (map xf_block fs)) = Some (map xf_snap fs).
  Proof.
    intros H. unfold read_snapshots. rewrite rd_blocks by exact H.
    destruct (rev fs) as [|g r] eqn:E.
    - cbn. assert (fs = []) by (rewrite <- (rev_involutive fs), E; reflexivity). now subst.
    - cbn [push]. rewrite app_nil_r. change (xf_snap g :: map xf_snap r) with (map xf_snap (g :: r)).
      rewrite <- E, <- map_rev, rev_involutive. reflexivity.
  Qed.

  Theorem xyz_extract_frame_k fs k : Forall xf_ok fs ->
    xyz_extract count_of (concat (map xf_block fs)) k = option_map xf_snap (nth_error fs k).
  Proof. intros H. unfold xyz_extract. rewrite read_snapshots_blocks by exact H. apply nth_error_map. Qed.
End SnapshotsP.

(* ---- lammpstrj: row arithmetic of np.genfromtxt(skip_header=.., max_rows=..) *)
Lemma skipn_concat_uniform {A} m : forall (bs : list (list A)) k j, Forall (fun b => length b = m) bs ->
  skipn (m * k + j) (concat bs) = skipn j (concat (skipn k bs)).
Proof.
  induction bs as [|b bs IH]; intros k j H.
  - cbn [concat]. rewrite (@skipn_nil (list A) k). cbn [concat]. rewrite !skipn_nil. reflexivity.
  - inversion H as [|? ? Hb Hr]; subst. destruct k as [|k].
    + rewrite Nat.mul_0_r. reflexivity.
    + cbn [concat skipn]. replace (length b * S k + j)%nat with (length b + (length b * k + j))%nat by lia.
      rewrite skipn_app. rewrite skipn_all2 by lia. cbn [app].
      replace (length b + (length b * k + j) - length b)%nat with (length b * k + j)%nat by lia. now apply IH.
Qed.

Record lframe (L : Type) := mkLF { lf_head : list L; lf_box : list L; lf_item : L; lf_atoms : list L }.
Arguments lf_head {L}. Arguments lf_box {L}. Arguments lf_item {L}. Arguments lf_atoms {L}.
Definition lf_block {L} (f : lframe L) : list L := lf_head f ++ lf_box f ++ lf_item f :: lf_atoms f.
Definition lf_ok {L} (n : nat) (f : lframe L) : Prop :=
  length (lf_head f) = 5%nat /\ length (lf_box f) = 3%nat /\ length (lf_atoms f) = n.

Theorem lmp_frame_k {L} (fs : list (lframe L)) n k f : Forall (lf_ok n) fs -> nth_error fs k = Some f ->
  lmp_frame_rows (concat (map lf_block fs)) k n = (lf_box f, lf_atoms f).
Proof.
  intros Hall Hk. unfold lmp_frame_rows.
  assert (Hu : Forall (fun b => length b = (n + 9)%nat) (map lf_block fs)).
  { apply Forall_forall. intros b Hb. apply in_map_iff in Hb. destruct Hb as (g & <- & Hg).
    rewrite Forall_forall in Hall. destruct (Hall g Hg) as (H1 & H2 & H3).
    unfold lf_block. rewrite !app_length. cbn [length]. lia. }
  rewrite !(skipn_concat_uniform (n + 9)) by exact Hu.
  assert (Hs : exists r, skipn k (map lf_block fs) = lf_block f :: r).
  { clear -Hk. revert k Hk. induction fs as [|g fs IH]; intros [|k] Hk; try discriminate.
    - cbn in Hk. inversion Hk; subst. eexists. reflexivity.
    - cbn [map skipn]. now apply IH. }
  destruct Hs as (r & ->). cbn [concat]. rewrite Forall_forall in Hall.
  destruct (Hall f (nth_error_In _ _ Hk)) as (H1 & H2 & H3). unfold lf_block. rewrite <- !app_assoc.
  f_equal.
  - rewrite skipn_app, skipn_all2, H1, Nat.sub_diag by lia. cbn [skipn app].
    rewrite firstn_app, firstn_all2, H2, Nat.sub_diag by lia. cbn [firstn]. apply app_nil_r.
  - replace 9%nat with (5 + (3 + 1))%nat by reflexivity.
    rewrite skipn_app, skipn_all2 by lia. rewrite H1. replace (5 + (3 + 1) - 5)%nat with (3 + 1)%nat by lia.
    cbn [app]. rewrite skipn_app, skipn_all2 by lia. rewrite H2. replace (3 + 1 - 3)%nat with 1%nat by lia.
    cbn [app skipn]. rewrite firstn_app, firstn_all2, H3, Nat.sub_diag by lia. cbn [firstn]. apply app_nil_r.
Qed.

(* sorting by id: a sorted permutation of the rows, whatever order they were written in *)

Lemma insert_by_perm {A} (key : A -> Z) a l : Permutation (insert_by key a l) (a :: l).
Proof.
  induction l as [|b r IH]; cbn [insert_by]; [apply Permutation_refl|].
  destruct (key a <=? key b); [apply Permutation_refl|].
  apply Permutation_trans with (b :: a :: r); [now apply perm_skip|apply perm_swap].
Qed.

Theorem sort_by_perm {A} (key : A -> Z) l : Permutation (sort_by key l) l.
Proof.
  induction l as [|a l IH]; cbn [sort_by fold_right]; [constructor|].
  apply Permutation_trans with (a :: sort_by key l); [apply insert_by_perm|now apply perm_skip].
Qed.

Lemma insert_by_sorted {A} (key : A -> Z) a l :
  Sorted (fun x y => key x <= key y) l -> Sorted (fun x y => key x <= key y) (insert_by key a l).
Proof.
  induction 1 as [|b r Hs IH Hhd]; cbn [insert_by]; [repeat constructor|].
  destruct (Z.leb_spec (key a) (key b)) as [Hle|Hgt].
  - constructor; [now constructor|]. now constructor.
  - constructor; [exact IH|]. destruct r as [|c r']; cbn [insert_by].
    + constructor. lia.
    + destruct (Z.leb_spec (key a) (key c)); constructor; [lia|]. now inversion Hhd.
Qed.

Theorem sort_by_sorted {A} (key : A -> Z) l : Sorted (fun x y => key x <= key y) (sort_by key l).
Proof. induction l as [|a l IH]; cbn [sort_by fold_right]; [constructor|now apply insert_by_sorted]. Qed.

(* ================================================================== instances used by theorems/C19.v *)

Lemma g96_width_values nz x :
  width_guard g96_w g96_d nz x = true <->
  Z.abs (scaled g96_d x) < (if is_neg nz x then 10 ^ 13 else 10 ^ 14).
Proof.
  rewrite (width_guard_magnitude g96_w g96_d nz x).
  - destruct (is_neg nz x); reflexivity.
  - unfold g96_d. lia.
  - unfold g96_w, g96_d. destruct (is_neg nz x); lia.
Qed.

Definition mdp_line_after (s : list (str * str)) (l : str) : str :=
  match before_delim l with
  | Some pre => match lookup (strip pre) s with Some v => pre ++ [c_eq; c_sp] ++ v ++ [c_nl] | None => l end
  | None => l
  end.

Lemma mdp_line_after_eq s l : edit1 mdp_key mdp_repl s l = mdp_line_after s l.
Proof.
  unfold edit1, mdp_line_after, mdp_key, mdp_repl. destruct (before_delim l); cbn [option_map]; reflexivity.
Qed.

Theorem mdp_edit_exact s ls : NoDup (map fst s) ->
  (forall i l, nth_error ls i = Some l ->
     nth_error (mdp_edit_lines s ls) i =
     Some (if negb (is_nil (missing mdp_key s ls)) && (S i =? length ls)%nat
           then mdp_fin (mdp_line_after s l) else mdp_line_after s l)) /\
  skipn (length ls) (mdp_edit_lines s ls) = map (fun kv => mdp_newl (fst kv) (snd kv)) (missing mdp_key s ls) /\
  (forall k v, In (k, v) (missing mdp_key s ls) <-> In (k, v) s /\ forall l, In l ls -> mdp_key l <> Some k) /\
  NoDup (map fst (missing mdp_key s ls)).
Proof.
  intros Hnd. split; [|split; [|split]].
  - intros i l H. unfold mdp_edit_lines. rewrite (edit_lines_nth mdp_key mdp_repl mdp_newl mdp_fin s ls i l H).
    now rewrite mdp_line_after_eq.
  - apply (edit_lines_appended mdp_key mdp_repl mdp_newl mdp_fin s ls).
  - intros k v. apply (missing_spec mdp_key s ls k v Hnd).
  - apply (missing_spec mdp_key s ls [] [] Hnd).
Qed.

Theorem mdp_all_present s ls k v : mdp_settings_ok s -> In (k, v) s ->
  exists l, In l (mdp_edit_lines s ls) /\ mdp_key l = Some k.
Proof.
  intros Hs Hin. apply (keys_of_In mdp_key).
  eapply (edit_lines_all_present mdp_key mdp_repl mdp_newl mdp_fin mdp_okkv);
    [exact mdp_repl_key|exact mdp_new_key|exact mdp_fin_key|exact Hs|exact Hin].
Qed.

Definition cp2k_line_after (data : list (str * option str)) (l : str) : str :=
  match first_token l with
  | Some k => match lookup k data with Some v => cp2k_fmt k v | None => l end
  | None => l
  end.

Lemma cp2k_line_after_eq data l : edit1 first_token cp2k_repl data l = cp2k_line_after data l.
Proof.
  unfold edit1, cp2k_line_after, cp2k_repl. destruct (first_token l) as [k|]; [|reflexivity].
  destruct (lookup k data); reflexivity.
Qed.

Theorem cp2k_update_exact data ls : NoDup (map fst data) ->
  (forall i l, nth_error ls i = Some l -> nth_error (cp2k_update_data data ls) i = Some (cp2k_line_after data l)) /\
  skipn (length ls) (cp2k_update_data data ls) =
    map (fun kv => cp2k_fmt (fst kv) (snd kv)) (missing first_token data ls) /\
  (forall k v, In (k, v) (missing first_token data ls) <->
               In (k, v) data /\ forall l, In l ls -> first_token l <> Some k) /\
  NoDup (map fst (missing first_token data ls)).
Proof.
  intros Hnd. split; [|split; [|split]].
  - intros i l H. unfold cp2k_update_data.
    rewrite (edit_lines_nth first_token cp2k_repl cp2k_fmt (fun l => l) data ls i l H).
    rewrite cp2k_line_after_eq. destruct (negb _ && _); reflexivity.
  - apply (edit_lines_appended first_token cp2k_repl cp2k_fmt (fun l => l) data ls).
  - intros k v. apply (missing_spec first_token data ls k v Hnd).
  - apply (missing_spec first_token data ls [] None Hnd).
Qed.

(* ================================================================== additions (round 2) *)

(* sorting by distinct ids is canonical: whatever order the rows were written in, the reader
   returns them in the one id-sorted order *)
Lemma sorted_perm_unique {A} (key : A -> Z) : forall l1 l2,
  StronglySorted (fun x y => key x <= key y) l1 -> StronglySorted (fun x y => key x < key y) l2 ->
  Permutation l1 l2 -> l1 = l2.
Proof.
  induction l1 as [|a t1 IH]; intros l2 H1 H2 Hp.
  - apply Permutation_nil in Hp. now subst.
  - destruct l2 as [|b t2]; [apply Permutation_sym, Permutation_nil in Hp; discriminate|].
    inversion H1 as [|? ? Hs1 Hf1]; subst. inversion H2 as [|? ? Hs2 Hf2]; subst.
    assert (Hab : a = b).
    { assert (Ha : In a (b :: t2)) by (apply (Permutation_in _ Hp); now left).
      assert (Hb : In b (a :: t1)) by (apply (Permutation_in _ (Permutation_sym Hp)); now left).
      destruct Ha as [Ha|Ha]; [now subst|]. destruct Hb as [Hb|Hb]; [now subst|].
      rewrite Forall_forall in Hf1, Hf2. specialize (Hf1 _ Hb). specialize (Hf2 _ Ha). lia. }
    subst b. f_equal. apply IH; [assumption|assumption|]. now apply Permutation_cons_inv with a.
Qed.

Theorem sort_by_canonical {A} (key : A -> Z) l p :
  StronglySorted (fun x y => key x < key y) l -> Permutation p l -> sort_by key p = l.
Proof.
  intros Hl Hp. apply (sorted_perm_unique key).
  - apply Sorted_StronglySorted; [intros x y z; lia|apply sort_by_sorted].
  - exact Hl.
  - apply Permutation_trans with p; [apply sort_by_perm|exact Hp].
Qed.

(* a value that already has d decimals is left alone: re-writing a file that was read does
   not move any number *)
Lemma rhe_integer n p : rhe ((n * Zpos p) # p) = n.
Proof.
  unfold rhe. cbn [Qnum Qden]. rewrite Z.div_mul by lia. rewrite Z.mod_mul by lia.
  destruct (Z.ltb_spec (2 * 0) (Zpos p)); [reflexivity|lia].
Qed.

Theorem round_d_idempotent d x : round_d d (round_d d x) = round_d d x.
Proof.
  unfold round_d. set (N := scaled d x). f_equal. unfold scaled.
  assert (E : ((N # pow10p d) * inject_Z (pow10 d))%Q = ((N * Zpos (pow10p d)) # pow10p d)).
  { unfold Qmult, inject_Z. cbn [Qnum Qden]. rewrite Pos.mul_1_r, pow10p_spec. reflexivity. }
  rewrite E. apply rhe_integer.
Qed.

Theorem reprint_fixed w d nz x :
  parse_fixed (print_fixed w d nz (round_d d x)) = Some (round_d d x).
Proof. rewrite parse_print_fixed. f_equal. apply round_d_idempotent. Qed.

(* ================================================================== CP2K section trees *)

Fixpoint node_ind' (P : node -> Prop)
  (H : forall i t s d k, Forall P k -> P (Node i t s d k)) (n : node) : P n :=
  match n with
  | Node i t s d k =>
    H i t s d k ((fix go (l : list node) : Forall P l :=
                    match l with
                    | [] => Forall_nil P
                    | x :: r => Forall_cons x (node_ind' P H x) (go r)
                    end) k)
  end.

(* the sections of a tree in depth-first order: (identity, title, (settings, data)) *)
Definition entry := (nat * str * (list str * list str))%type.
Fixpoint flat (n : node) : list entry :=
  match n with Node i t s d k => (i, t, (s, d)) :: flat_map flat k end.
Definition upd_entry (i : nat) (g : list str * list str -> list str * list str) (e : entry) : entry :=
  let '(j, t, sd) := e in if (j =? i)%nat then (j, t, g sd) else e.
(* the shape: identities and titles only *)
Fixpoint shape (n : node) : node :=
  match n with Node i t _ _ k => Node i t [] [] (map shape k) end.

Lemma flat_map_ext_Forall {A B} (f g : A -> list B) l :
  Forall (fun x => f x = g x) l -> flat_map f l = flat_map g l.
Proof. induction 1 as [|x r Hx _ IH]; cbn; [reflexivity|]. now rewrite Hx, IH. Qed.

Lemma map_ext_Forall {A B} (f g : A -> B) l : Forall (fun x => f x = g x) l -> map f l = map g l.
Proof. induction 1 as [|x r Hx _ IH]; cbn; [reflexivity|]. now rewrite Hx, IH. Qed.

Lemma flat_map_map {A B C} (f : A -> B) (g : B -> list C) l : flat_map g (map f l) = flat_map (fun x => g (f x)) l.
Proof. induction l as [|x r IH]; cbn; [reflexivity|]. now rewrite IH. Qed.

Lemma map_flat_map {A B C} (f : B -> C) (g : A -> list B) l : map f (flat_map g l) = flat_map (fun x => map f (g x)) l.
Proof. induction l as [|x r IH]; cbn; [reflexivity|]. now rewrite map_app, IH. Qed.

(* updating the section with identity i rewrites that section's (settings, data) and leaves
   every other section, the order and the nesting as they were *)
Theorem upd_node_flat i g n : flat (upd_node i g n) = map (upd_entry i g) (flat n).
Proof.
  induction n as [j t s d k IH] using node_ind'. cbn [upd_node].
  assert (Hk : flat_map flat (map (upd_node i g) k) = map (upd_entry i g) (flat_map flat k)).
  { rewrite flat_map_map, map_flat_map. now apply flat_map_ext_Forall. }
  destruct (j =? i)%nat eqn:E.
  - destruct (g (s, d)) as [s' d'] eqn:Eg. cbn [flat map upd_entry]. rewrite E, Eg, Hk. reflexivity.
  - cbn [flat map upd_entry]. rewrite E, Hk. reflexivity.
Qed.

Theorem upd_node_shape i g n : shape (upd_node i g n) = shape n.
Proof.
  induction n as [j t s d k IH] using node_ind'. cbn [upd_node].
  assert (Hk : map shape (map (upd_node i g) k) = map shape k).
  { rewrite map_map. now apply map_ext_Forall. }
  destruct (j =? i)%nat; [destruct (g (s, d))|]; cbn [shape]; now rewrite Hk.
Qed.

Theorem upd_node_idem i g n : (forall x, g (g x) = g x) -> upd_node i g (upd_node i g n) = upd_node i g n.
Proof.
  intros Hg. induction n as [j t s d k IH] using node_ind'. cbn [upd_node].
  assert (Hk : map (upd_node i g) (map (upd_node i g) k) = map (upd_node i g) k).
  { rewrite map_map. now apply map_ext_Forall. }
  destruct (j =? i)%nat eqn:E.
  - destruct (g (s, d)) as [s' d'] eqn:Eg. cbn [upd_node]. rewrite E.
    assert (E2 : g (s', d') = (s', d')) by (rewrite <- Eg; apply Hg). rewrite E2, Hk. reflexivity.
  - cbn [upd_node]. rewrite E, Hk. reflexivity.
Qed.

(* the dictionary path -> section only looks at identities, titles and settings *)
Lemma walk_upd i g n : (forall s d, fst (g (s, d)) = s) -> forall p, walk p (upd_node i g n) = walk p n.
Proof.
  intros Hg. induction n as [j t s d k IH] using node_ind'. intros p. cbn [upd_node].
  assert (Hk : forall q, flat_map (walk q) (map (upd_node i g) k) = flat_map (walk q) k).
  { intros q. rewrite flat_map_map. apply flat_map_ext_Forall.
    eapply Forall_impl; [|exact IH]. intros a Ha. apply Ha. }
  destruct (j =? i)%nat.
  - destruct (g (s, d)) as [s' d'] eqn:Eg. cbn [walk]. rewrite Hk.
    replace s' with s by (specialize (Hg s d); rewrite Eg in Hg; symmetry; exact Hg). reflexivity.
  - cbn [walk]. now rewrite Hk.
Qed.

Theorem cp2k_refs_upd i g roots : (forall s d, fst (g (s, d)) = s) ->
  cp2k_refs (map (upd_node i g) roots) = cp2k_refs roots.
Proof.
  intros Hg. unfold cp2k_refs. f_equal. rewrite flat_map_map. apply flat_map_ext_Forall.
  apply Forall_forall. intros n _. now apply walk_upd.
Qed.

(* ---- update_node on an existing target, data given as a dict, nothing appended to the settings *)
Definition upd_plain (u : cp2k_upd) : Prop := u_replace u = false /\ u_setts u = [].
Definition data_edit (u : cp2k_upd) (sd : list str * list str) : list str * list str :=
  (fst sd, cp2k_update_data (u_data u) (snd sd)).

Theorem cp2k_tree_update_exact st u i ss : upd_plain u -> lookup (u_target u) (t_refs st) = Some (i, ss) ->
  exists st', cp2k_update1 st u = Some st' /\
    flat_map flat (t_roots st') = map (upd_entry i (data_edit u)) (flat_map flat (t_roots st)) /\
    map shape (t_roots st') = map shape (t_roots st) /\
    t_refs st' = t_refs st /\ cp2k_refs (t_roots st') = cp2k_refs (t_roots st).
Proof.
  intros (Hr & Hs) Hl. unfold cp2k_update1. rewrite Hl, Hr, Hs. eexists. split; [reflexivity|]. cbn [t_roots t_refs].
  set (g := fun sd : list str * list str => let '(s, d) := sd in (s ++ [], cp2k_update_data (u_data u) d)).
  assert (Eg : forall x, g x = data_edit u x).
  { intros [s d]. unfold g, data_edit. cbn [fst snd]. now rewrite app_nil_r. }
  split; [|split; [|split]].
  - rewrite flat_map_map, map_flat_map. apply flat_map_ext_Forall. apply Forall_forall. intros n _.
    rewrite upd_node_flat. apply map_ext. intros [[j t] sd]. unfold upd_entry. destruct (j =? i)%nat; [now rewrite Eg|reflexivity].
  - rewrite map_map. apply map_ext. intros n. apply upd_node_shape.
  - reflexivity.
  - apply cp2k_refs_upd. intros s d. rewrite Eg. reflexivity.
Qed.

Theorem cp2k_tree_update_idempotent st u i ss st' : upd_plain u -> cp2k_settings_ok (u_data u) ->
  lookup (u_target u) (t_refs st) = Some (i, ss) -> cp2k_update1 st u = Some st' ->
  cp2k_update1 st' u = Some st'.
Proof.
  intros (Hr & Hs) Hok Hl H. unfold cp2k_update1 in *. rewrite Hl, Hr, Hs in H. inversion H; subst st'. clear H.
  cbn [t_refs t_roots t_next]. rewrite Hl, Hr, Hs. do 2 f_equal. rewrite map_map. apply map_ext. intros n.
  apply upd_node_idem. intros [s d]. rewrite !app_nil_r. f_equal. now apply cp2k_update_idempotent.
Qed.

(* replace = True: settings and data are overwritten, hence idempotent as well *)
Theorem cp2k_tree_replace_idempotent st u i ss st' : u_replace u = true ->
  lookup (u_target u) (t_refs st) = Some (i, ss) -> cp2k_update1 st u = Some st' ->
  cp2k_update1 st' u = Some st'.
Proof.
  intros Hr Hl H. unfold cp2k_update1 in *. rewrite Hl, Hr in H. inversion H; subst st'. clear H.
  cbn [t_refs t_roots t_next]. rewrite Hl, Hr. do 2 f_equal. rewrite map_map. apply map_ext. intros n.
  apply upd_node_idem. intros [s d]. reflexivity.
Qed.

(* ---- reading back what dfs_print wrote *)
Definition tok (t : str) : Prop := no_space t /\ t <> [].

Lemma strip_clean c r b : is_space c = false -> no_space b -> b <> [] -> strip (c :: r ++ b) = c :: r ++ b.
Proof.
  intros Hc Hb Hne. unfold strip. rewrite (lstrip_first c (r ++ b) Hc).
  change (c :: r ++ b) with ((c :: r) ++ b). now apply rstrip_app_nospace.
Qed.

Lemma strip_indent k l : strip (repeat c_sp k ++ l) = strip l.
Proof. unfold strip. now rewrite lstrip_spaces_app by apply spaces_repeat. Qed.

Lemma tokens_join_sp : forall s, Forall tok s -> tokens_aux [] (join_sp s) = s.
Proof.
  induction s as [|a r IH]; intros H; [reflexivity|]. inversion H as [|? ? (Ha & Hne) Hr]; subst.
  destruct r as [|b r'].
  - cbn [join_sp]. now apply tokens_tok_end.
  - change (join_sp (a :: b :: r')) with (a ++ c_sp :: join_sp (b :: r')).
    rewrite tokens_tok_sp by (try assumption; reflexivity). f_equal. now apply IH.
Qed.

Lemma join_sp_last : forall s x, exists a, join_sp (s ++ [x]) = a ++ x.
Proof.
  induction s as [|y r IH]; intros x.
  - exists []. reflexivity.
  - destruct (IH x) as (a & Ha). destruct r as [|z r'].
    + exists (y ++ [c_sp]). cbn. now rewrite <- app_assoc.
    + exists (y ++ c_sp :: a). change (join_sp ((y :: z :: r') ++ [x])) with (y ++ c_sp :: join_sp ((z :: r') ++ [x])).
      rewrite Ha. now rewrite <- app_assoc.
Qed.

(* header text after the ampersand *)
Definition hdr_body (t : str) (s : list str) : str := t ++ (if is_nil s then [] else c_sp :: join_sp s).

Lemma hdr_body_end t s : tok t -> Forall tok s -> exists a b, hdr_body t s = a ++ b /\ no_space b /\ b <> [].
Proof.
  intros (Ht & Hne) Hs. unfold hdr_body. destruct s as [|x r].
  - exists [], t. cbn. rewrite app_nil_r. auto.
  - cbn [is_nil]. destruct (@exists_last _ (x :: r) ltac:(discriminate)) as (s' & y & E). rewrite E.
    destruct (join_sp_last s' y) as (a & Ha). rewrite Ha. exists (t ++ c_sp :: a), y.
    split; [now rewrite <- app_assoc|]. rewrite E in Hs. apply Forall_app in Hs. destruct Hs as [_ Hy].
    inversion Hy as [|? ? (H1 & H2) _]; subst. auto.
Qed.

Lemma hdr_tokens t s : tok t -> Forall tok s -> tokens (hdr_body t s) = t :: s.
Proof.
  intros (Ht & Hne) Hs. unfold tokens, hdr_body. destruct s as [|x r].
  - cbn. rewrite app_nil_r. now apply tokens_tok_end.
  - cbn [is_nil]. rewrite tokens_tok_sp by (try assumption; reflexivity). f_equal. now apply tokens_join_sp.
Qed.

Definition not_end (t : str) : Prop := is_prefix s_end (map lower (t ++ [c_sp])) = false.

Lemma not_end_hdr t s : not_end t -> no_space t -> is_prefix s_end (map lower (hdr_body t s)) = false.
Proof.
  unfold not_end, hdr_body. intros H Hs.
  destruct t as [|a [|b [|c t']]]; destruct s as [|x r]; cbn [is_nil app map is_prefix s_end] in *; try exact H;
    repeat match goal with |- context [?u =? ?v] => destruct (u =? v); cbn [andb] end; try reflexivity; try discriminate;
    cbn in H; repeat match type of H with context [?u =? ?v] => destruct (u =? v); cbn [andb] in H end; try discriminate; try reflexivity.
Qed.

Definition wf_data (l : str) : Prop := strip l = l /\ match l with c :: _ => c <> c_amp | [] => False end.
Inductive wf_node : node -> Prop :=
| WF i t s d k : tok t -> map upper t = t -> not_end t -> Forall tok s -> Forall wf_data d ->
                 Forall wf_node k -> wf_node (Node i t s d k).
Fixpoint unid (n : node) : node := match n with Node _ t s d k => Node 0 t s d (map unid k) end.

Lemma line_open_sec lvl t s nx stk roots : tok t -> map upper t = t -> not_end t -> Forall tok s ->
  cp2k_line (mkR nx stk roots) (repeat c_sp lvl ++ c_amp :: t ++ (if is_nil s then [] else c_sp :: join_sp s)) =
  Some (mkR (S nx) (Node nx t s [] [] :: stk) roots).
Proof.
  intros Ht Hu Hn Hs. unfold cp2k_line. rewrite strip_indent. fold (hdr_body t s).
  destruct (hdr_body_end t s Ht Hs) as (a & b & E & Hb & Hbne).
  assert (Es : strip (c_amp :: hdr_body t s) = c_amp :: hdr_body t s).
  { rewrite E. now apply strip_clean. }
  rewrite Es. rewrite Z.eqb_refl. rewrite not_end_hdr by (try exact Hn; apply Ht).
  rewrite hdr_tokens by assumption. cbn [r_next r_stack r_roots]. now rewrite Hu.
Qed.

Lemma line_data lvl l nx i t s d k stk roots : wf_data l ->
  cp2k_line (mkR nx (Node i t s d k :: stk) roots) (repeat c_sp lvl ++ c_sp :: c_sp :: l) =
  Some (mkR nx (Node i t s (d ++ [l]) k :: stk) roots).
Proof.
  intros (Hs & Hc). unfold cp2k_line. rewrite strip_indent.
  change (c_sp :: c_sp :: l) with (repeat c_sp 2 ++ l). rewrite strip_indent, Hs.
  destruct l as [|c r]; [contradiction|]. destruct (Z.eqb_spec c c_amp) as [E|_]; [contradiction|]. reflexivity.
Qed.

Lemma line_end lvl t nx top stk roots : tok t ->
  cp2k_line (mkR nx (top :: stk) roots) (repeat c_sp lvl ++ s_END ++ t) =
  Some (let '(stk', roots') := add_kid_top top stk roots in mkR nx stk' roots').
Proof.
  intros (Ht & Hne). unfold cp2k_line. rewrite strip_indent.
  assert (Es : strip (s_END ++ t) = s_END ++ t).
  { change (s_END ++ t) with (c_amp :: [69; 78; 68; 32] ++ t). now apply strip_clean. }
  rewrite Es. change (s_END ++ t) with (c_amp :: 69 :: 78 :: 68 :: 32 :: t). cbv beta iota. rewrite Z.eqb_refl.
  replace (is_prefix s_end (map lower (69 :: 78 :: 68 :: 32 :: t))) with true by reflexivity.
  cbn [r_stack r_roots r_next]. destruct (add_kid_top top stk roots). reflexivity.
Qed.

Lemma lines_data lvl d : Forall wf_data d -> forall nx i t s d0 k stk roots rest,
  cp2k_lines (mkR nx (Node i t s d0 k :: stk) roots) (map (fun l => repeat c_sp lvl ++ c_sp :: c_sp :: l) d ++ rest) =
  cp2k_lines (mkR nx (Node i t s (d0 ++ d) k :: stk) roots) rest.
Proof.
  induction 1 as [|l r Hl _ IH]; intros; cbn [map app cp2k_lines].
  - now rewrite app_nil_r.
  - rewrite line_data by exact Hl. rewrite IH. now rewrite <- app_assoc.
Qed.

Definition reads_back (n : node) : Prop := wf_node n -> forall lvl nx stk roots rest,
  exists n' nx', unid n' = unid n /\
    cp2k_lines (mkR nx stk roots) (print_node lvl n ++ rest) =
    cp2k_lines (let '(stk', roots') := add_kid_top n' stk roots in mkR nx' stk' roots') rest.

Lemma lines_kids lvl k : Forall reads_back k -> Forall wf_node k -> forall k0 nx i t s d stk roots rest,
  exists k' nx', map unid k' = map unid k /\
    cp2k_lines (mkR nx (Node i t s d k0 :: stk) roots) (flat_map (print_node lvl) k ++ rest) =
    cp2k_lines (mkR nx' (Node i t s d (k0 ++ k') :: stk) roots) rest.
Proof.
  induction 1 as [|n r Hn _ IH]; intros Hwf; intros.
  - exists [], nx. split; [reflexivity|]. cbn. now rewrite app_nil_r.
  - inversion Hwf as [|? ? Hw Hwr]; subst. cbn [flat_map]. rewrite <- app_assoc.
    destruct (Hn Hw lvl nx (Node i t s d k0 :: stk) roots (flat_map (print_node lvl) r ++ rest)) as (n' & nx1 & Eu & E).
    rewrite E. cbn [add_kid_top].
    destruct (IH Hwr (k0 ++ [n']) nx1 i t s d stk roots rest) as (k' & nx2 & Eu2 & E2).
    exists (n' :: k'), nx2. split; [cbn [map]; now rewrite Eu, Eu2|]. rewrite E2. now rewrite <- app_assoc.
Qed.

Lemma node_reads_back n : reads_back n.
Proof.
  induction n as [i t s d k IH] using node_ind'. intros Hwf lvl nx stk roots rest.
  inversion Hwf as [? ? ? ? ? Ht Hu Hne Hs Hd Hk]; subst.
  cbn [print_node]. rewrite <- !app_comm_cons. cbn [cp2k_lines].
  rewrite line_open_sec by assumption. rewrite <- !app_assoc.
  rewrite (lines_data (2 * lvl) d Hd). cbn [app].
  destruct (lines_kids (S lvl) k IH Hk [] (S nx) nx t s d stk roots ((repeat c_sp (2 * lvl) ++ s_END ++ t) :: rest)) as (k' & nx' & Eu & E).
  exists (Node nx t s d k'), nx'. split; [cbn [unid]; now rewrite Eu|].
  etransitivity; [exact E|]. cbn [app cp2k_lines]. rewrite line_end by exact Ht. reflexivity.
Qed.

Lemma forest_reads_back : forall roots, Forall wf_node roots -> forall nx roots0,
  exists roots' nx', map unid roots' = map unid roots /\
    cp2k_lines (mkR nx [] roots0) (cp2k_print roots) = Some (mkR nx' [] (roots0 ++ roots')).
Proof.
  induction roots as [|n r IH]; intros Hwf nx roots0.
  - exists [], nx. split; [reflexivity|]. cbn. now rewrite app_nil_r.
  - inversion Hwf as [|? ? Hn Hr]; subst. cbn [cp2k_print].
    destruct (node_reads_back n Hn 0%nat nx [] roots0 (match r with [] => [] | _ :: _ => [] :: cp2k_print r end)) as (n' & nx1 & Eu & E).
    rewrite E. cbn [add_kid_top].
    destruct (IH Hr nx1 (roots0 ++ [n'])) as (r' & nx2 & Eu2 & E2).
    exists (n' :: r'), nx2. split; [cbn [map]; now rewrite Eu, Eu2|].
    destruct r as [|m r0].
    + cbn [cp2k_lines]. cbn in E2. inversion E2; subst. destruct r'; [|discriminate]. reflexivity.
    + cbn [cp2k_lines]. replace (cp2k_line (mkR nx1 [] (roots0 ++ [n'])) []) with (Some (mkR nx1 [] (roots0 ++ [n']))) by reflexivity.
      rewrite E2. now rewrite <- app_assoc.
Qed.

(* the text written for a forest of sections reads back as the same forest (titles,
   settings, data lines, nesting and order; the creation numbers are new) *)
Theorem cp2k_read_print roots : Forall wf_node roots ->
  exists nx roots', cp2k_read (cp2k_print roots) = Some (nx, roots') /\ map unid roots' = map unid roots.
Proof.
  intros H. destruct (forest_reads_back roots H 0%nat []) as (roots' & nx & Eu & E).
  exists nx, roots'. split; [|exact Eu]. unfold cp2k_read. rewrite E. reflexivity.
Qed.

(* ================================================================== extraction histories
   (model/CodecM.v section G: dump_config / _extract_frame as operations on a directory) *)
Section ExtractHistoryP.
  Context {F : Type}.
  Implicit Types (d : fx_dir F) (o : @fx_op) (ops : list fx_op).

  Lemma fx_get_set_same d n c : fx_get (fx_set d n c) n = Some c.
  Proof.
    induction d as [|[m c0] r IH]; cbn [fx_set fx_get].
    - now rewrite Nat.eqb_refl.
    - destruct (Nat.eqb_spec m n) as [E|E]; cbn [fx_get].
      + subst. now rewrite Nat.eqb_refl.
      + destruct (Nat.eqb_spec m n); [contradiction|exact IH].
  Qed.

  Lemma fx_get_set_other d n c m : m <> n -> fx_get (fx_set d n c) m = fx_get d m.
  Proof.
    intros Hm. induction d as [|[j c0] r IH]; cbn [fx_set fx_get].
    - destruct (Nat.eqb_spec n m); [congruence|reflexivity].
    - destruct (Nat.eqb_spec j n) as [E|E]; cbn [fx_get].
      + subst. destruct (Nat.eqb_spec n m); [congruence|reflexivity].
      + destruct (Nat.eqb_spec j m); [reflexivity|exact IH].
  Qed.

  (* one extraction: the output holds exactly frame k of the source (as the source was
     before the operation), every other file is untouched *)
  Theorem fx_extract_spec d src k out d' : fx_extract d src k out = Some d' ->
    exists f, fx_frame d src k = Some f /\ fx_get d' out = Some [f] /\ fx_read d' out = Some f /\
              forall n, n <> out -> fx_get d' n = fx_get d n.
  Proof.
    unfold fx_extract. destruct (fx_frame d src k) as [f|]; [|discriminate].
    cbn [option_map]. intros E. inversion E; subst. exists f. split; [reflexivity|].
    split; [apply fx_get_set_same|]. split.
    - unfold fx_read. now rewrite fx_get_set_same.
    - intros n Hn. now apply fx_get_set_other.
  Qed.

  (* what the output held before (nothing, a stale frame, several frames, junk) is irrelevant *)
  Theorem fx_old_content_irrelevant d src k out c n : src <> out ->
    option_map (fun d' => fx_get d' n) (fx_extract (fx_set d out c) src k out) =
    option_map (fun d' => fx_get d' n) (fx_extract d src k out).
  Proof.
    intros Hs. unfold fx_extract, fx_frame. rewrite fx_get_set_other by exact Hs.
    destruct (fx_get d src) as [fs|]; [|reflexivity]. destruct (nth_error fs k) as [f|]; [|reflexivity].
    cbn [option_map]. f_equal. destruct (Nat.eq_dec n out) as [->|Hn].
    - now rewrite !fx_get_set_same.
    - now rewrite !fx_get_set_other by exact Hn.
  Qed.

  Lemma fx_run_app ops1 : forall d ops2,
    fx_run d (ops1 ++ ops2) = match fx_run d ops1 with Some d1 => fx_run d1 ops2 | None => None end.
  Proof.
    induction ops1 as [|o r IH]; intros d ops2; cbn [app fx_run]; [reflexivity|].
    destruct (fx_step d o) as [d'|]; [apply IH|reflexivity].
  Qed.

  (* files no operation writes to keep their content *)
  Theorem fx_run_untouched ops : forall d d' n, fx_run d ops = Some d' ->
    Forall (fun o => o_out o <> n) ops -> fx_get d' n = fx_get d n.
  Proof.
    induction ops as [|o r IH]; intros d d' n E H; cbn [fx_run] in E.
    - now inversion E.
    - inversion H as [|? ? Ho Hr]; subst. destruct (fx_step d o) as [d1|] eqn:E1; [|discriminate].
      rewrite (IH d1 d' n E Hr). unfold fx_step in E1.
      destruct (fx_extract_spec _ _ _ _ _ E1) as (f & _ & _ & _ & Hoth). apply Hoth. congruence.
  Qed.

  (* any history: after the run, the output of an extraction that no LATER operation
     overwrote holds exactly one snapshot, the frame that extraction took from its source *)
  Theorem fx_run_history pre o post d d' : fx_run d (pre ++ o :: post) = Some d' ->
    Forall (fun o' => o_out o' <> o_out o) post ->
    exists d1 f, fx_run d pre = Some d1 /\ fx_frame d1 (o_src o) (o_k o) = Some f /\
                 fx_get d' (o_out o) = Some [f] /\ fx_read d' (o_out o) = Some f.
  Proof.
    intros E Hpost. rewrite fx_run_app in E. destruct (fx_run d pre) as [d1|]; [|discriminate].
    cbn [fx_run] in E. destruct (fx_step d1 o) as [d2|] eqn:E2; [|discriminate].
    unfold fx_step in E2. destruct (fx_extract_spec _ _ _ _ _ E2) as (f & Hf & Hg & _ & _).
    exists d1, f. split; [reflexivity|]. split; [exact Hf|].
    assert (Hk : fx_get d' (o_out o) = Some [f]) by (rewrite (fx_run_untouched post d2 d' _ E Hpost); exact Hg).
    split; [exact Hk|]. unfold fx_read. now rewrite Hk.
  Qed.

  (* ... in particular reading the output right after ANY sequence of extractions returns
     the frame of the last one, whatever the earlier ones left in the file *)
  Theorem fx_run_last ops o d d' : fx_run d (ops ++ [o]) = Some d' ->
    exists d1 f, fx_run d ops = Some d1 /\ fx_frame d1 (o_src o) (o_k o) = Some f /\
                 fx_get d' (o_out o) = Some [f] /\ fx_read d' (o_out o) = Some f.
  Proof. intros E. apply (fx_run_history ops o [] d d' E). constructor. Qed.

  Lemma fx_trace_run ops : forall d d', fx_run d ops = Some d' -> ops <> [] ->
    last (fx_trace d ops) None = Some d'.
  Proof.
    induction ops as [|o r IH]; intros d d' E Hne; [congruence|]. cbn [fx_run fx_trace] in *.
    destruct (fx_step d o) as [d1|]; [|discriminate]. destruct r as [|o2 r].
    - cbn in *. exact E.
    - specialize (IH d1 d' E ltac:(discriminate)). cbn [fx_trace] in *.
      destruct (fx_step d1 o2); exact IH.
  Qed.
End ExtractHistoryP.

(* opening the output for appending breaks it as soon as the output exists: two
   extractions into one name, and the reader returns the frame of the FIRST *)
Theorem fx_append_refuted : exists (d d' : fx_dir nat) o1 o2 f,
  fx_run_append d [o1; o2] = Some d' /\ o_out o1 = o_out o2 /\
  fx_frame d (o_src o2) (o_k o2) = Some f /\ fx_read d' (o_out o2) <> Some f /\
  fx_get d' (o_out o2) <> Some [f].
Proof.
  exists [(0, [10; 11])]%nat, [(0, [10; 11]); (1, [10; 11])]%nat, (mkOp 0 0 1), (mkOp 0 1 1), 11%nat.
  repeat split; try reflexivity; cbn; discriminate.
Qed.

(* the text level for the extended-xyz engines: the file written for the frame, read by
   _read_configuration (first snapshot yielded), is the frame; with a stale frame in front
   (append) it is the stale one *)
Theorem fx_xyz_text {L} (count_of : L -> option nat) (f : xframe) : xf_ok count_of f ->
  xyz_extract count_of (concat (map xf_block [f])) 0 = Some (xf_snap f) /\
  read_snapshots count_of (concat (map xf_block [f])) = Some [xf_snap f].
Proof.
  intros H. split.
  - rewrite xyz_extract_frame_k by (constructor; [exact H|constructor]). reflexivity.
  - rewrite read_snapshots_blocks by (constructor; [exact H|constructor]). reflexivity.
Qed.
Theorem fx_xyz_text_appended {L} (count_of : L -> option nat) (stale f : xframe) :
  xf_ok count_of stale -> xf_ok count_of f ->
  xyz_extract count_of (concat (map xf_block [stale; f])) 0 = Some (xf_snap stale).
Proof.
  intros H1 H2. rewrite xyz_extract_frame_k by (repeat constructor; assumption). reflexivity.
Qed.
