(* C14, round 6: a path directory that is stored into a second time (a step redone after a crash
   between PathStorage.output and the rewrite of restart.toml re-uses the path number; a run started
   from scratch in a folder that still holds load/<n>/ of an earlier run).  Storing is "write =
   replace": what load_path reads back is the path stored LAST, whatever was stored there before.
   Everything here is a consequence of the round-trip theorem of proofs/StoreP.v, which holds for
   every disk -- in particular for a disk that is itself the result of an earlier store into the
   same directory.  Model: model/StoreM.v (no new definitions). *)
From Coq Require Import ZArith QArith List Bool Lia.
Import ListNotations.
From Inf Require Import gen.ParamsC14 model.CodecM proofs.CodecP model.StoreM proofs.StoreP.
Open Scope Z_scope.

(* the three text files after write_txt hold exactly the rendering of the path being stored: nothing
   of their earlier content survives (open mode "w", not "a") *)
Lemma write_txt_replaces d arch step move p old_order old_energy old_traj :
  let d0 := fs_set (fs_set (fs_set d (pjoin arch order_txt) old_order) (pjoin arch energy_txt) old_energy) (pjoin arch traj_txt) old_traj in
  fs_get (write_txt d0 arch step move p) (pjoin arch order_txt) = Some (render (order_file step move p)) /\
  fs_get (write_txt d0 arch step move p) (pjoin arch energy_txt) = Some (render (energy_file step move p)) /\
  fs_get (write_txt d0 arch step move p) (pjoin arch traj_txt) = Some (render (traj_file step p)).
Proof. intros d0. apply write_txt_get. Qed.

(* store A into <home>/<pn>/, then store B into the SAME directory: load_path returns B *)
Theorem store_again_roundtrip
  (d : fsmap) (stepA : Z) (moveA : str) (keepA : list str) (pA : list frame) (d1 : fsmap) (cfgA : list (str * option Z))
  (step : Z) (move home : str) (pn : Z) (keep : list str) (p : list frame) (ncol : nat) :
  store_gen true d stepA moveA home pn keepA pA = Some (d1, cfgA) ->
  p <> [] -> nonl move -> Forall name_ok p ->
  Forall (fun fr => length (f_orders fr) = ncol) p ->
  Forall no_slash keep ->
  Forall (fun fr => isfile d1 (f_file fr) = true) p ->
  txt_untouched (move_list (write_txt (clean_dir true (accepted_dir (archive_dir home pn)) p d1) (archive_dir home pn) step move p)
                           (accepted_dir (archive_dir home pn)) keep p) (archive_dir home pn) ->
  forall d2 cfg, store_gen true d1 step move home pn keep p = Some (d2, cfg) ->
  load d2 (archive_dir home pn) = Some (map (reload (archive_dir home pn)) p).
Proof.
  intros _ H1 H2 H3 H4 H5 H6 H7 d2 cfg H8.
  exact (roundtrip_repaired d1 step move home pn keep p ncol H1 H2 H3 H4 H5 H6 H7 d2 cfg H8).
Qed.

(* and every file the re-loaded path refers to exists under the path's own directory *)
Theorem store_again_files_exist
  (d : fsmap) (stepA : Z) (moveA : str) (keepA : list str) (pA : list frame) (d1 : fsmap) (cfgA : list (str * option Z))
  (step : Z) (move home : str) (pn : Z) (keep : list str) (p : list frame) :
  store_gen true d stepA moveA home pn keepA pA = Some (d1, cfgA) ->
  Forall no_slash keep ->
  Forall (fun fr => isfile d1 (f_file fr) = true) p ->
  forall d2 cfg, store_gen true d1 step move home pn keep p = Some (d2, cfg) ->
  forall lf, In lf (map (reload (archive_dir home pn)) p) ->
  exists s, l_file lf = pjoin (accepted_dir (archive_dir home pn)) (basename s) /\ isfile d2 (l_file lf) = true.
Proof.
  intros _ H1 H2 d2 cfg H3 lf Hlf.
  destruct (files_exist_repaired d1 step move home pn keep p H1 H2 d2 cfg H3 lf Hlf) as (s & _ & Ha & Hb).
  exists s. split; assumption.
Qed.

(* ---- a concrete witness: A = three frames in two files, B = two frames in two other files with
   other values; both stores succeed, the second load returns B (by the theorem) and that is neither
   A nor of A's length; A's trajectory files are no longer in the directory *)
Definition s_w1c : str := [119; 49; 47; 99].     (* "w1/c" *)
Definition s_w1d : str := [119; 49; 47; 100].    (* "w1/d" *)
Definition ag_d : fsmap := [(s_w0a, [120]); (s_w0b, [122]); (s_w1c, [117]); (s_w1d, [118])].
Definition ag_pB : list frame := [mkFrame [q2; q3] q1 q1 s_w1d (Some 4) true; mkFrame [q1; q1] None q3 s_w1c None false].

Lemma example_store_again :
  exists d pA d1 cfgA pB d2 cfgB,
    store_gen true d 7 [115; 104] [108] 3 [] pA = Some (d1, cfgA) /\
    load d1 (archive_dir [108] 3) = Some (map (reload (archive_dir [108] 3)) pA) /\
    pB <> [] /\ Forall name_ok pB /\ Forall (fun fr => length (f_orders fr) = 2%nat) pB /\
    Forall (fun fr => isfile d1 (f_file fr) = true) pB /\
    store_gen true d1 7 [115; 104] [108] 3 [] pB = Some (d2, cfgB) /\
    load d2 (archive_dir [108] 3) = Some (map (reload (archive_dir [108] 3)) pB) /\
    length pA = 3%nat /\ length pB = 2%nat /\
    load d2 (archive_dir [108] 3) <> load d1 (archive_dir [108] 3) /\
    (forall fr, In fr pA -> isfile d2 (l_file (reload (archive_dir [108] 3) fr)) = false).
Proof.
  destruct (store_gen true ag_d 7 [115; 104] [108] 3 [] ex_p) as [[d1 cfgA]|] eqn:EA; [|vm_compute in EA; discriminate].
  destruct (store_gen true d1 7 [115; 104] [108] 3 [] ag_pB) as [[d2 cfgB]|] eqn:EB;
    [|vm_compute in EA; injection EA as <- <-; vm_compute in EB; discriminate].
  exists ag_d, ex_p, d1, cfgA, ag_pB, d2, cfgB.
  assert (HnA : Forall name_ok ex_p) by (repeat constructor; vm_compute; discriminate).
  assert (HnB : Forall name_ok ag_pB) by (repeat constructor; vm_compute; discriminate).
  assert (HxB : Forall (fun fr => isfile d1 (f_file fr) = true) ag_pB).
  { pose proof EA as EA'. vm_compute in EA'. injection EA' as <- _. repeat constructor. }
  assert (LA : load d1 (archive_dir [108] 3) = Some (map (reload (archive_dir [108] 3)) ex_p)).
  { apply (roundtrip_repaired ag_d 7 [115; 104] [108] 3 [] ex_p 2%nat) with (cfg := cfgA); auto.
    - discriminate.
    - reflexivity.
    - repeat constructor.
    - repeat constructor.
    - apply txt_untouched_nokeep. intros fr Hfr. cbn [In ex_p] in Hfr.
      destruct Hfr as [<-|[<-|[<-|[]]]]; vm_compute; intros [H|[H|[H|[]]]]; discriminate. }
  assert (LB : load d2 (archive_dir [108] 3) = Some (map (reload (archive_dir [108] 3)) ag_pB)).
  { apply (store_again_roundtrip ag_d 7 [115; 104] [] ex_p d1 cfgA 7 [115; 104] [108] 3 [] ag_pB 2%nat EA) with (cfg := cfgB); auto.
    - discriminate.
    - reflexivity.
    - repeat constructor.
    - apply txt_untouched_nokeep. intros fr Hfr. cbn [In ag_pB] in Hfr.
      destruct Hfr as [<-|[<-|[]]]; vm_compute; intros [H|[H|[H|[]]]]; discriminate. }
  split; [exact EA|]. split; [exact LA|]. split; [discriminate|]. split; [exact HnB|].
  split; [repeat constructor|]. split; [exact HxB|]. split; [exact EB|]. split; [exact LB|].
  split; [reflexivity|]. split; [reflexivity|]. split.
  - rewrite LA, LB. intros H.
    assert (H' := f_equal (fun o : option (list lframe) => match o with Some l => length l | None => 0%nat end) H).
    cbv beta iota in H'. rewrite !map_length in H'. discriminate.
  - vm_compute in EA. injection EA as <- <-. vm_compute in EB. injection EB as <- <-.
    intros fr Hfr. cbn [In ex_p] in Hfr. destruct Hfr as [<-|[<-|[<-|[]]]]; vm_compute; reflexivity.
Qed.
