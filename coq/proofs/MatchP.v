(* Proofs for property C05: the idle block of the weight matrix admits a perfect matching in
   every reachable state (picks carry a certificate), a job can always be drawn, after a
   completed step every slot holds a path with non-zero weight there. *)
From Coq Require Import ZArith QArith List Bool Lia.
Import ListNotations.
From Inf Require Import base.ListX model.RepexM model.MatchM proofs.RepexP.
Open Scope nat_scope.

(* ------------------------------------------------------------------ matchings *)

Definition mat (s : rstate) (m : list nat) : Prop :=
  length m = size s /\
  forall r, is_locked s r = false ->
    is_locked s (mrow m r) = false /\ wij s r (mrow m r) <> 0%Z /\
    forall r', is_locked s r' = false -> mrow m r = mrow m r' -> r = r'.

Definition Matchable (s : rstate) : Prop := exists m, mat s m.

Lemma matb_mat s m : matb s m = true -> mat s m.
Proof.
  unfold matb. intros H. apply andb_true_iff in H as [L H]. apply Nat.eqb_eq in L.
  split; [exact L|]. intros r Hr.
  pose proof (unlocked_lt _ _ Hr) as Lr.
  rewrite forallb_forall in H. specialize (H r). rewrite in_seq in H. specialize (H ltac:(lia)).
  rewrite Hr in H. cbn [orb] in H.
  apply andb_true_iff in H as [H Hinj]. apply andb_true_iff in H as [H1 H2].
  apply negb_true_iff in H1. apply negb_true_iff, Z.eqb_neq in H2.
  split; [exact H1|]. split; [exact H2|].
  intros r' Hr' E. pose proof (unlocked_lt _ _ Hr') as Lr'.
  rewrite forallb_forall in Hinj. specialize (Hinj r'). rewrite in_seq in Hinj. specialize (Hinj ltac:(lia)).
  rewrite Hr' in Hinj. cbn [orb] in Hinj. rewrite E, Nat.eqb_refl in Hinj. cbn in Hinj.
  now apply Nat.eqb_eq in Hinj.
Qed.

Lemma mat_matb s m : mat s m -> matb s m = true.
Proof.
  intros [L H]. unfold matb. apply andb_true_iff. split; [now apply Nat.eqb_eq|].
  apply forallb_forall. intros r _. destruct (is_locked s r) eqn:Hr; [reflexivity|]. cbn [orb].
  destruct (H r Hr) as (A & B & C). rewrite A. cbn [negb andb].
  apply andb_true_iff. split; [now apply negb_true_iff, Z.eqb_neq|].
  apply forallb_forall. intros r' _. destruct (is_locked s r') eqn:Hr'; [reflexivity|]. cbn [orb].
  destruct (Nat.eqb_spec (mrow m r) (mrow m r')) as [E|]; [|reflexivity]. cbn.
  apply Nat.eqb_eq. now apply C.
Qed.

Lemma mrow_set_nth m i x r : i < length m -> mrow (set_nth i x m) r = if r =? i then x else mrow m r.
Proof. intros H. unfold mrow. now apply nth_set_nth. Qed.

(* ------------------------------------------------------------------ take (pick / pick_lock) *)

Lemma take_matchable s m i j s1 :
  wf s -> mat s m -> mrow m i = j -> is_locked s i = false -> is_locked s j = false ->
  take s i j = Some s1 -> Matchable s1.
Proof.
  intros Wf [L M] Hij Hi Hj T.
  destruct (take_spec s i j s1 Wf Hi Hj T) as (Sz & Wf1 & _ & _ & HL & _ & HW).
  pose proof (unlocked_lt _ _ Hi) as Li.
  assert (HLj : is_locked s1 j = true) by (rewrite HL, Nat.eqb_refl; reflexivity).
  assert (HLn : forall c, c <> j -> is_locked s1 c = is_locked s c).
  { intros c Hc. rewrite HL. destruct (Nat.eqb_spec c j); [contradiction|reflexivity]. }
  assert (Hidle : forall r, is_locked s1 r = false -> r <> j /\ is_locked s r = false).
  { intros r Hr. destruct (Nat.eq_dec r j) as [->|N]; [congruence|]. split; [exact N|]. now rewrite <- HLn. }
  destruct (Nat.eq_dec i j) as [Eij|Nij].
  - (* the row already sits in its slot *)
    rewrite <- Eij in *. clear Eij. exists m. split; [congruence|]. intros r Hr. destruct (Hidle r Hr) as (Nr & Hr0).
    destruct (M r Hr0) as (A & B & C).
    assert (Nm : mrow m r <> i). { intros E. apply Nr. apply (C i Hi). congruence. }
    split; [rewrite HLn by exact Nm; exact A|]. split.
    + rewrite HW. rewrite transp_other by auto. exact B.
    + intros r' Hr' E. destruct (Hidle r' Hr') as (_ & Hr'0). now apply C.
  - (* row i goes to slot j, the row of slot j comes to slot i and inherits j's partner *)
    destruct (M i Hi) as (Ai & Bi & Ci). destruct (M j Hj) as (Aj & Bj & Cj).
    exists (set_nth i (mrow m j) m). split; [rewrite set_nth_length; congruence|].
    assert (Li' : i < length m) by lia.
    assert (Hmj : mrow m j <> j). { intros E. apply Nij. apply (Ci j Hj). congruence. }
    intros r Hr. destruct (Hidle r Hr) as (Nrj & Hr0).
    rewrite mrow_set_nth by exact Li'.
    destruct (Nat.eqb_spec r i) as [->|Nri].
    + split; [rewrite HLn by exact Hmj; exact Aj|].
      split.
      * rewrite HW. unfold transp. rewrite Nat.eqb_refl. exact Bj.
      * intros r' Hr' E. destruct (Hidle r' Hr') as (Nr'j & Hr'0).
        rewrite mrow_set_nth in E by exact Li'. destruct (Nat.eqb_spec r' i) as [->|Nr'i]; [reflexivity|].
        exfalso. apply Nr'j. symmetry. now apply (Cj r' Hr'0).
    + destruct (M r Hr0) as (A & B & C).
      assert (Nm : mrow m r <> j). { intros E. apply Nri. symmetry. apply (Ci r Hr0). congruence. }
      split; [rewrite HLn by exact Nm; exact A|].
      split.
      * rewrite HW, transp_other by auto. exact B.
      * intros r' Hr' E. destruct (Hidle r' Hr') as (Nr'j & Hr'0).
        rewrite mrow_set_nth in E by exact Li'. destruct (Nat.eqb_spec r' i) as [->|Nr'i].
        -- exfalso. apply Nrj. now apply (C j Hj).
        -- now apply C.
Qed.

Lemma take_cert_spec s m i j : take_cert s m i j = true -> mat s m /\ mrow m i = j.
Proof.
  unfold take_cert. intros H. apply andb_true_iff in H as [A B]. split; [now apply matb_mat|now apply Nat.eqb_eq].
Qed.

(* adding a job to the lock list, bumping the path number or editing the lock list does not
   touch weights or busy flags *)
Lemma mat_same s s' m :
  W s' = W s -> locks s' = locks s -> mat s m -> mat s' m.
Proof.
  intros HW HL [L M]. unfold mat, is_locked, wij, size in *. rewrite HW, HL. split; auto.
Qed.

Lemma Matchable_same s s' : W s' = W s -> locks s' = locks s -> Matchable s -> Matchable s'.
Proof. intros A B [m M]. exists m. eapply mat_same; eauto. Qed.

(* ------------------------------------------------------------------ add_traj *)

Lemma add_traj_matchable s c pn row s1 :
  wf s -> is_locked s c = true -> c < size s - 1 ->
  Matchable s -> add_traj s c pn row = Some s1 -> Matchable s1.
Proof.
  intros Wf Hc Lc [m [L M]] E. unfold add_traj in E.
  destruct (nth c row 0%Z =? 0)%Z eqn:Hz; [discriminate|]. apply Z.eqb_neq in Hz.
  unfold unlock in E. unfold is_locked at 1 in E. cbn [locks] in E. fold (is_locked s c) in E. rewrite Hc in E.
  injection E as <-.
  set (s1 := mkR (set_nth c row (W s)) (set_nth c pn (trajs s)) (set_nth c false (locks s)) (locked s) (traj_num s)).
  assert (Lc' : c < length (locks s)) by (unfold size in Lc; lia).
  assert (LW : c < length (W s)) by (rewrite (wf_W _ Wf); lia).
  assert (HLc : is_locked s1 c = false).
  { unfold is_locked, s1. cbn [locks]. rewrite nth_set_nth by exact Lc'. now rewrite Nat.eqb_refl. }
  assert (HLn : forall x, x <> c -> is_locked s1 x = is_locked s x).
  { intros x Hx. unfold is_locked, s1. cbn [locks]. rewrite nth_set_nth by exact Lc'.
    destruct (Nat.eqb_spec x c); [contradiction|reflexivity]. }
  assert (HWc : forall b, wij s1 c b = nth b row 0%Z).
  { intros b. unfold wij, s1. cbn [W]. rewrite nth_set_nth by exact LW. now rewrite Nat.eqb_refl. }
  assert (HWn : forall a b, a <> c -> wij s1 a b = wij s a b).
  { intros a b Ha. unfold wij, s1. cbn [W]. rewrite nth_set_nth by exact LW.
    destruct (Nat.eqb_spec a c); [contradiction|reflexivity]. }
  exists (set_nth c c m). split.
  { rewrite set_nth_length. unfold size, s1. cbn [locks]. rewrite set_nth_length. exact L. }
  assert (Lm : c < length m) by (unfold size in *; lia).
  intros r Hr. rewrite mrow_set_nth by exact Lm.
  destruct (Nat.eqb_spec r c) as [->|Nr].
  - split; [exact HLc|]. split; [rewrite HWc; exact Hz|].
    intros r' Hr' E. rewrite mrow_set_nth in E by exact Lm.
    destruct (Nat.eqb_spec r' c) as [->|Nr']; [reflexivity|].
    rewrite HLn in Hr' by exact Nr'. destruct (M r' Hr') as (A & _). rewrite <- E in A. congruence.
  - rewrite HLn in Hr by exact Nr. destruct (M r Hr) as (A & B & C).
    assert (Nm : mrow m r <> c) by (intros E; rewrite E in A; congruence).
    split; [rewrite HLn by exact Nm; exact A|].
    split.
    + rewrite HWn by exact Nr. exact B.
    + intros r' Hr' E. rewrite mrow_set_nth in E by exact Lm.
      destruct (Nat.eqb_spec r' c) as [->|Nr']; [contradiction|].
      rewrite HLn in Hr' by exact Nr'. now apply C.
Qed.

(* ------------------------------------------------------------------ swap of two idle rows *)

Lemma swap_matchable s a b :
  wf s -> is_locked s a = false -> is_locked s b = false -> Matchable s -> Matchable (swap s a b).
Proof.
  intros Wf Ha Hb [m [L M]].
  pose proof (unlocked_lt _ _ Ha) as La. pose proof (unlocked_lt _ _ Hb) as Lb.
  destruct Wf as [w1 w2 w3 w4].
  assert (HW : forall x y, wij (swap s a b) x y = wij s (transp a b x) y).
  { intros x y. unfold wij. cbn [swap W]. rewrite nth_swap_nth by lia. reflexivity. }
  assert (HL : forall x, is_locked (swap s a b) x = is_locked s x) by reflexivity.
  assert (Hidle : forall r, is_locked s r = false -> is_locked s (transp a b r) = false).
  { intros r Hr. unfold transp. destruct (r =? a); [exact Hb|]. destruct (r =? b); [exact Ha|exact Hr]. }
  exists (swap_nth 0 a b m). split.
  { rewrite swap_nth_length. exact L. }
  assert (Hm : forall r, mrow (swap_nth 0 a b m) r = mrow m (transp a b r)).
  { intros r. unfold mrow. apply nth_swap_nth; lia. }
  intros r Hr. rewrite HL in Hr. rewrite Hm.
  destruct (M _ (Hidle r Hr)) as (A & B & C).
  split; [rewrite HL; exact A|]. split; [rewrite HW; exact B|].
  intros r' Hr' E. rewrite HL in Hr'. rewrite Hm in E.
  apply (transp_inj a b). apply C; [apply Hidle; exact Hr'|exact E].
Qed.

(* ------------------------------------------------------------------ sort_trajstate *)

Lemma sort_step_matchable s e s1 :
  Inv s -> first_bad s = Some e -> sort_step s e = Some s1 -> Matchable s -> Matchable s1.
Proof.
  intros I Hb Hs M. destruct (first_bad_spec _ _ I Hb) as (Le & _ & Ue).
  unfold sort_step in Hs.
  destruct (find_first _ 1 _) as [z|]; [|discriminate].
  destruct (find_first _ 0 (removelast (W s))) as [t|] eqn:Ft; [|discriminate].
  injection Hs as <-.
  apply (find_first_spec _ _ _ _ []) in Ft as (Lt & Pt).
  apply andb_true_iff in Pt as [_ Ut]. apply negb_true_iff in Ut.
  apply swap_matchable; auto. exact (inv_wf _ I).
Qed.

Lemma sort_loop_matchable fuel : forall s it s1 n,
  Inv s -> Matchable s -> sort_loop fuel s it = SortOk s1 n -> Matchable s1.
Proof.
  induction fuel as [|f IH]; intros s it s1 n I M H; cbn [sort_loop] in H.
  - destruct (first_bad s); [discriminate|]. injection H as <- _. exact M.
  - destruct (first_bad s) as [e|] eqn:Hb.
    + destruct (sort_step s e) as [s0|] eqn:Hs; [|discriminate].
      eapply IH; [| |exact H].
      * eapply (proj1 (sort_step_Inv _ _ _ I Hb Hs)).
      * eapply sort_step_matchable; eauto.
    + injection H as <- _. exact M.
Qed.

(* ------------------------------------------------------------------ treat_output *)

(* one ensemble of a completing job *)
Lemma treat_one_matchable s r s1 :
  wf s -> is_locked s (r_col r) = true -> r_col r < size s - 1 ->
  Matchable s -> treat_one s r = Some s1 -> Matchable s1.
Proof.
  intros Wf Hc Lc M T. unfold treat_one in T.
  destruct (r_acc r).
  - eapply (add_traj_matchable _ _ _ _ _ _ _ _ _ T).
  - eapply (add_traj_matchable _ _ _ _ _ _ _ _ _ T).
  Unshelve.
  all: try (destruct Wf as [w1 w2 w3 w4]; constructor; unfold size, is_locked in *; cbn [W trajs locks] in *; auto; fail).
  all: try (unfold size, is_locked in *; cbn [locks] in *; auto; fail).
  all: try (eapply Matchable_same; [| |exact M]; reflexivity).
Qed.

Lemma treat_one_frame s r s0 :
  wf s -> r_col r < size s - 1 -> treat_one s r = Some s0 ->
  wf s0 /\ size s0 = size s /\ forall x, x <> r_col r -> is_locked s0 x = is_locked s x.
Proof.
  intros Wf Lc T. unfold treat_one, add_traj, unlock in T.
  destruct Wf as [w1 w2 w3 w4].
  assert (Lc' : r_col r < length (locks s)) by (unfold size in Lc; lia).
  destruct (r_acc r); cbn [W trajs locks locked traj_num] in T;
    destruct (nth (r_col r) (r_row r) 0%Z =? 0)%Z; try discriminate;
    unfold is_locked at 1 in T; cbn [locks] in T; destruct (nth (r_col r) (locks s) true) eqn:Hl; try discriminate;
    injection T as <-; (split; [|split]).
  all: try (unfold size; cbn [locks]; now rewrite set_nth_length).
  all: try (intros x Hx; unfold is_locked; cbn [locks]; rewrite nth_set_nth by exact Lc';
            destruct (Nat.eqb_spec x (r_col r)); [contradiction|reflexivity]).
  all: constructor; unfold size, is_locked in *; cbn [W trajs locks]; rewrite ?set_nth_length; auto.
  all: rewrite nth_set_nth by exact Lc'; destruct (Nat.eqb_spec (length (locks s) - 1) (r_col r)) as [E|]; auto;
       unfold size in Lc; lia.
Qed.

Lemma treat_results_matchable : forall rs s s1,
  wf s -> NoDup (map r_col rs) ->
  (forall r, In r rs -> is_locked s (r_col r) = true /\ r_col r < size s - 1) ->
  Matchable s -> treat_results s rs = Some s1 -> Matchable s1.
Proof.
  induction rs as [|r rs IH]; intros s s1 Wf Nd H M T; cbn [treat_results] in T.
  - injection T as <-. exact M.
  - destruct (treat_one s r) as [s0|] eqn:T1; [|discriminate].
    destruct (H r (or_introl eq_refl)) as (Hl & Hc).
    destruct (treat_one_frame s r s0 Wf Hc T1) as (Wf0 & Sz & Fr).
    cbn [map] in Nd. inversion Nd as [|? ? Hn Nd']; subst.
    apply (IH s0 s1 Wf0 Nd'); [| |exact T].
    + intros r' Hr'. destruct (H r' (or_intror Hr')) as (A & B). rewrite Sz. split; [|exact B].
      rewrite Fr; [exact A|]. intros E. apply Hn. rewrite <- E. now apply in_map.
    + exact (treat_one_matchable s r s0 Wf Hl Hc M T1).
Qed.

Lemma results_of_cols : forall cols paths acc rows,
  length paths = length cols -> length rows = length cols ->
  map r_col (results_of cols paths acc rows) = cols.
Proof.
  induction cols as [|c cr IH]; intros [|p pr] acc [|w wr] L1 L2; cbn in *; try discriminate; auto.
  f_equal. apply IH; lia.
Qed.

Lemma results_of_in cols paths acc rows r :
  In r (results_of cols paths acc rows) -> In (r_col r) cols.
Proof.
  revert paths rows; induction cols as [|c cr IH]; intros [|p pr] [|w wr] H; cbn in H; try contradiction.
  destruct H as [<-|H]; [now left|]. right. eapply IH; eauto.
Qed.

Lemma NoDup_concat_part {A} (ls : list (list A)) l : NoDup (concat ls) -> In l ls -> NoDup l.
Proof.
  induction ls as [|a ls IH]; intros Nd H; [contradiction|]. destruct H as [<-|H]; cbn in Nd.
  - now apply NoDup_app_l in Nd.
  - apply IH; auto. now apply NoDup_app_r in Nd.
Qed.

(* ------------------------------------------------------------------ the invariant of C05 *)

Definition InvM (f : fstate) : Prop := Inv (core f) /\ Matchable (core f).

Lemma pick_matchable s c pin s' jb m1 ws :
  Inv s -> take_cert s m1 (pk_i c) (pk_j c) = true ->
  match pk_zs c, ws with
  | None, [] => True
  | Some k, [m2] => match lock (swap s (pk_i c) (pk_j c)) (pk_j c), partner (pk_j c) with
                    | Some s1, Some other => take_cert s1 m2 k other = true
                    | _, _ => False end
  | _, _ => False
  end ->
  pick s c pin = Some (s', jb) -> Matchable s'.
Proof.
  intros I C1 C2 P. apply take_cert_spec in C1 as (M1 & E1).
  unfold pick in P.
  destruct (pick_enabled s (pk_i c) (pk_j c)) eqn:En; cbn [negb] in P; [|discriminate].
  apply pick_enabled_spec in En as (Ui & Uj & _).
  destruct (lock (swap s (pk_i c) (pk_j c)) (pk_j c)) as [s1|] eqn:T1; [|discriminate].
  pose proof (inv_wf _ I) as Wf.
  pose proof (take_matchable s m1 _ _ s1 Wf M1 E1 Ui Uj T1) as Ms1.
  destruct (take_spec s _ _ s1 Wf Ui Uj T1) as (_ & Wf1 & _).
  destruct (pk_zs c) as [k|].
  - destruct (partner (pk_j c)) as [other|]; [|discriminate].
    destruct ws as [|m2 [|? ?]]; try contradiction.
    apply take_cert_spec in C2 as (M2 & E2).
    destruct (is_locked s1 other) eqn:Uo; [discriminate|].
    destruct (pick_enabled s1 k other) eqn:En2; cbn [negb] in P; [|discriminate].
    apply pick_enabled_spec in En2 as (Uk & _ & _).
    destruct (lock (swap s1 k other) other) as [s2|] eqn:T2; [|discriminate].
    pose proof (take_matchable s1 m2 _ _ s2 Wf1 M2 E2 Uk Uo T2) as Ms2.
    injection P as <- _. eapply Matchable_same; [| |exact Ms2]; reflexivity.
  - injection P as <- _. eapply Matchable_same; [| |exact Ms1]; reflexivity.
Qed.

Lemma pick_lock_entries_matchable : forall cols paths ws s s1,
  wf s -> Matchable s -> pick_lock_certs s cols paths ws = true ->
  pick_lock_entries s cols paths = Some s1 -> Matchable s1.
Proof.
  induction cols as [|c cr IH]; intros [|p pr] [|m wr] s s1 Wf Ms C P; cbn in C; try discriminate.
  { cbn in P. injection P as <-. exact Ms. }
  cbn [pick_lock_entries] in P.
  destruct (index_of p (removelast (trajs s))) as [idx|]; [|discriminate].
  apply andb_true_iff in C as [C1 C2]. apply take_cert_spec in C1 as (M1 & E1).
  destruct ((wij s idx c =? 0)%Z || is_locked s idx) eqn:G; [discriminate|].
  apply orb_false_iff in G as [_ Ui].
  destruct (lock (swap s idx c) c) as [s0|] eqn:T; [|discriminate].
  assert (Uc : is_locked s c = false).
  { unfold lock in T. cbn in T. unfold is_locked in *. cbn in T. destruct (nth c (locks s) true); [discriminate|reflexivity]. }
  pose proof (take_matchable s m idx c s0 Wf M1 E1 Ui Uc T) as M0.
  destruct (take_spec s idx c s0 Wf Ui Uc T) as (_ & Wf0 & _).
  eapply IH; eauto.
Qed.

Theorem step_m_InvM f o ws f' : InvM f -> step_m f o ws = Some f' -> InvM f'.
Proof.
  intros [I M] H. split.
  { (* the exclusivity invariant is that of the un-certified step *)
    assert (S : step f o = Some f').
    { unfold step_m in H. destruct o as [c pin|cols paths pin|k acc rows P].
      - destruct ws as [|m1 rest]; [discriminate|].
        destruct (negb _); [discriminate|].
        destruct (pk_zs c) as [kz|]; destruct rest as [|m2 [|? ?]]; try discriminate.
        + destruct (lock _ _) as [sx|]; [|discriminate]. destruct (partner _) as [ox|]; [|discriminate].
          destruct (take_cert sx m2 kz ox); [exact H|discriminate].
        + exact H.
      - destruct (pick_lock_certs _ _ _ _); [exact H|discriminate].
      - destruct ws; [exact H|discriminate]. }
    eapply step_Inv; eauto. }
  unfold step_m in H. destruct o as [c pin|cols paths pin|k acc rows P].
  - destruct ws as [|m1 rest]; [discriminate|].
    destruct (take_cert (core f) m1 (pk_i c) (pk_j c)) eqn:C1; cbn [negb] in H; [|discriminate].
    assert (S : step f (OpPick c pin) = Some f' /\
                match pk_zs c, rest with
                | None, [] => True
                | Some k, [m2] => match lock (swap (core f) (pk_i c) (pk_j c)) (pk_j c), partner (pk_j c) with
                                  | Some s1, Some other => take_cert s1 m2 k other = true
                                  | _, _ => False end
                | _, _ => False end).
    { destruct (pk_zs c) as [kz|]; destruct rest as [|m2 [|? ?]]; try discriminate.
      - destruct (lock _ _) as [sx|]; [|discriminate]. destruct (partner _) as [ox|]; [|discriminate].
        destruct (take_cert sx m2 kz ox) eqn:C2; [split; [exact H|reflexivity]|discriminate].
      - split; [exact H|exact Logic.I]. }
    destruct S as [S C2]. cbn [step] in S.
    destruct (memn pin _); [discriminate|].
    destruct (pick (core f) c pin) as [[s' jb]|] eqn:Pk; [|discriminate]. cbn in S. injection S as <-. cbn [core].
    eapply pick_matchable; eauto.
  - destruct (pick_lock_certs (core f) cols paths ws) eqn:C; [|discriminate]. cbn [step] in H.
    destruct (memn pin _); [discriminate|]. destruct (negb _); [discriminate|].
    destruct (pick_lock (core f) cols paths pin) as [[s' jb]|] eqn:Pk; [|discriminate]. cbn in H. injection H as <-. cbn [core].
    unfold pick_lock in Pk. destruct (pick_lock_entries (core f) cols paths) as [s1|] eqn:E; [|discriminate].
    injection Pk as <- _.
    eapply Matchable_same; [| |eapply (pick_lock_entries_matchable _ _ _ _ _ (inv_wf _ I) M C E)]; reflexivity.
  - destruct ws; [|discriminate]. cbn [step] in H.
    destruct (nth_error (locked (core f)) k) as [jb|] eqn:Hk; [|discriminate].
    destruct ((length rows =? length (jcols jb)) && (length (jpaths jb) =? length (jcols jb))) eqn:G; cbn [negb] in H; [|discriminate].
    apply andb_true_iff in G as [G1 G2]. apply Nat.eqb_eq in G1, G2.
    unfold treat_output in H.
    destruct (treat_results (core f) _) as [s1|] eqn:T; [|discriminate].
    destruct (treat_results_Inv _ _ _ _ _ _ I Hk G1 T) as (I1 & _).
    destruct (credit s1 P 0 _ _) as [fr2|]; [|discriminate].
    destruct (if acc then _ else _) as [fr3 dt].
    unfold sort_trajstate in H.
    destruct (sort_loop _ s1 0) as [s2 n| |] eqn:S; try discriminate.
    injection H as <-. cbn [core].
    eapply sort_loop_matchable; [exact I1| |exact S].
    assert (Hjb : In jb (locked (core f))) by (eapply nth_error_In; eauto).
    destruct (inv_jobs _ I jb Hjb) as (_ & _ & J).
    eapply treat_results_matchable; [exact (inv_wf _ I)| | |exact M|exact T].
    + rewrite results_of_cols by auto.
      eapply NoDup_concat_part; [exact (inv_nodup _ I)|]. now apply in_map.
    + intros r Hr. apply results_of_in in Hr. apply In_nth_error in Hr as (q & Hq).
      destruct (J q _ Hq) as (A & B & _). auto.
Qed.

Theorem run_m_InvM ops : forall f f', InvM f -> run_m f ops = Some f' -> InvM f'.
Proof.
  induction ops as [|[o ws] r IH]; intros f f' I H; cbn in H.
  - injection H as <-. exact I.
  - destruct (step_m f o ws) as [f1|] eqn:S; [|discriminate]. eapply IH; [|exact H]. eapply step_m_InvM; eauto.
Qed.

(* ------------------------------------------------------------------ a job can always be drawn *)

Theorem can_pick s c pin :
  Inv s -> Matchable s -> is_locked s c = false -> ~ In pin (map jpin (locked s)) ->
  exists m j s' jb, take_cert s m c j = true /\ pick s (mkPick c j None) pin = Some (s', jb) /\ Inv s'.
Proof.
  intros I [m M] Uc Hp. pose proof M as M0. destruct M as [L M]. destruct (M c Uc) as (A & B & _).
  exists m, (mrow m c).
  assert (En : pick_enabled s c (mrow m c) = true).
  { unfold pick_enabled. rewrite Uc, A. cbn. now apply negb_true_iff, Z.eqb_neq. }
  assert (exists s1, lock (swap s c (mrow m c)) (mrow m c) = Some s1) as [s1 T].
  { unfold lock. unfold is_locked at 1. cbn [swap locks]. fold (is_locked s (mrow m c)). rewrite A. eauto. }
  assert (Pk : pick s (mkPick c (mrow m c) None) pin =
               Some (mkR (W s1) (trajs s1) (locks s1) (locked s1 ++ [mkJob [mrow m c] [nth (mrow m c) (trajs s1) 0] pin]) (traj_num s1),
                     mkJob [mrow m c] [nth (mrow m c) (trajs s1) 0] pin)).
  { cbv beta iota zeta delta [pick pk_i pk_j pk_zs]. rewrite En. cbn [negb]. rewrite T. reflexivity. }
  eexists _, _. split; [|split].
  - unfold take_cert. rewrite (mat_matb _ _ M0), Nat.eqb_refl. reflexivity.
  - exact Pk.
  - eapply pick_Inv; [exact I|exact Hp|exact Pk].
Qed.

Lemma sort_loop_done fuel : forall s it s1 n, sort_loop fuel s it = SortOk s1 n -> first_bad s1 = None.
Proof.
  induction fuel as [|fu IH]; intros s it s1 n S; cbn [sort_loop] in S.
  - destruct (first_bad s) eqn:E; [discriminate|]. injection S as <- _. exact E.
  - destruct (first_bad s) as [e|] eqn:E.
    + destruct (sort_step s e) as [s0|]; [|discriminate]. eapply IH; eauto.
    + injection S as <- _. exact E.
Qed.

(* after a completed step every slot (idle or busy) holds a path whose weight in that
   ensemble is non-zero: what load_paths asserts when the restart file is read back *)
Theorem after_treat_diag f k acc rows P f' :
  InvF f -> step f (OpTreat k acc rows P) = Some f' ->
  forall c, c < size (core f') - 1 -> wij (core f') c c <> 0%Z.
Proof.
  intros I H. cbn [step] in H.
  destruct (nth_error (locked (core f)) k) as [jb|] eqn:Hk; [|discriminate].
  destruct ((length rows =? length (jcols jb)) && (length (jpaths jb) =? length (jcols jb))) eqn:G; cbn [negb] in H; [|discriminate].
  apply andb_true_iff in G as [G1 G2]. apply Nat.eqb_eq in G1.
  unfold treat_output in H.
  destruct (treat_results (core f) _) as [s1|] eqn:T; [|discriminate].
  destruct (treat_results_Inv _ _ _ _ _ _ I Hk G1 T) as (I1 & _).
  destruct (credit s1 P 0 _ _) as [fr2|]; [|discriminate].
  destruct (if acc then _ else _) as [fr3 dt].
  unfold sort_trajstate in H.
  destruct (sort_loop _ s1 0) as [s2 n| |] eqn:S; try discriminate.
  injection H as <-. cbn [core].
  pose proof (sort_loop_done _ _ _ _ _ S) as Fb.
  destruct (sort_loop_Inv _ _ _ _ _ I1 S) as (I2 & _).
  apply first_bad_none; auto.
Qed.
