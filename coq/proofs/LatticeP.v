(* Proofs for property C01: the exact oracle (discrete harmonic functions on an interval are
   linear, hence the crossing probabilities (k+1)/(k+2)), detailed balance of the
   Metropolis-Hastings acceptance rule, exactness of the estimator on exact weights. *)
From Coq Require Import QArith Qminmax ZArith Lia List.
From Inf Require Import model.LatticeM.
Open Scope Q_scope.

(* a function that is harmonic for the +-1 walk on 0..K is determined by h 0 and h 1 *)
Lemma harmonic_linear (h : nat -> Q) (K : nat) :
  (forall x, (0 < x < K)%nat -> h x == (h (x - 1)%nat + h (x + 1)%nat) / 2) ->
  forall x, (x <= K)%nat -> h x == h 0%nat + inject_Z (Z.of_nat x) * (h 1%nat - h 0%nat).
Proof.
  intros H.
  assert (G : forall x, (x <= K)%nat -> (S x <= K)%nat ->
              h x == h 0%nat + inject_Z (Z.of_nat x) * (h 1%nat - h 0%nat) /\
              h (S x) == h 0%nat + inject_Z (Z.of_nat (S x)) * (h 1%nat - h 0%nat)).
  { induction x as [|x IH]; intros H1 H2.
    - split; [cbn; ring|]. cbn. ring.
    - destruct (IH ltac:(lia) ltac:(lia)) as (A & B). split; [exact B|].
      assert (Hx : (0 < S x < K)%nat) by lia. specialize (H (S x) Hx).
      replace (S x - 1)%nat with x in H by lia. replace (S x + 1)%nat with (S (S x)) in H by lia.
      assert (E : h (S (S x)) == 2 * h (S x) - h x) by (rewrite H; field).
      rewrite E, A, B. rewrite !Nat2Z.inj_succ. unfold Z.succ. rewrite !inject_Z_plus. cbn. ring. }
  intros x Hx. destruct x as [|x]; [cbn; ring|].
  destruct (G x ltac:(lia) Hx) as (_ & B). exact B.
Qed.

(* gambler's ruin: with h 0 = 0 and h K = 1 the hitting probability is x / K *)
Theorem ruin_unique (h : nat -> Q) (K : nat) :
  (0 < K)%nat -> h 0%nat == 0 -> h K == 1 ->
  (forall x, (0 < x < K)%nat -> h x == (h (x - 1)%nat + h (x + 1)%nat) / 2) ->
  forall x, (x <= K)%nat -> h x == inject_Z (Z.of_nat x) / inject_Z (Z.of_nat K).
Proof.
  intros HK H0 H1 Hh x Hx.
  pose proof (harmonic_linear h K Hh) as L.
  assert (HKq : ~ inject_Z (Z.of_nat K) == 0).
  { intros E. unfold Qeq in E. cbn in E. lia. }
  assert (E : 1 == inject_Z (Z.of_nat K) * (h 1%nat - h 0%nat)).
  { rewrite <- H1. rewrite (L K (le_n _)). rewrite H0. ring. }
  assert (D : h 1%nat - h 0%nat == 1 / inject_Z (Z.of_nat K)).
  { rewrite E. field. exact HKq. }
  rewrite (L x Hx), D, H0. field. exact HKq.
Qed.

(* the crossing probability of ensemble [k+]: from position k+1, reach k+2 before 0 *)
Theorem cross_exact_is_ruin (h : nat -> Q) (k : nat) :
  h 0%nat == 0 -> h (k + 2)%nat == 1 ->
  (forall x, (0 < x < k + 2)%nat -> h x == (h (x - 1)%nat + h (x + 1)%nat) / 2) ->
  h (k + 1)%nat == cross_exact k.
Proof.
  intros H0 H1 Hh. unfold cross_exact. apply ruin_unique; auto; lia.
Qed.

(* Metropolis-Hastings: a * min(1, b/a) = b * min(1, a/b) for positive flows a, b
   (a = pi(x) q(x,y), b = pi(y) q(y,x)): detailed balance *)
Theorem mh_detailed_balance (a b : Q) : 0 < a -> 0 < b -> a * mh_acc a b == b * mh_acc b a.
Proof.
  intros Ha Hb. unfold mh_acc.
  assert (Na : ~ a == 0) by (intros E; rewrite E in Ha; discriminate).
  assert (Nb : ~ b == 0) by (intros E; rewrite E in Hb; discriminate).
  destruct (Qlt_le_dec a b) as [Hlt|Hle].
  - (* a < b: forward always accepted *)
    assert (E1 : 1 <= b / a). { apply Qle_shift_div_l; [exact Ha|]. rewrite Qmult_1_l. now apply Qlt_le_weak. }
    assert (E2 : a / b <= 1). { apply Qle_shift_div_r; [exact Hb|]. rewrite Qmult_1_l. now apply Qlt_le_weak. }
    rewrite (Q.min_l _ _ E1), (Q.min_r _ _ E2). field. exact Nb.
  - assert (E1 : b / a <= 1). { apply Qle_shift_div_r; [exact Ha|]. now rewrite Qmult_1_l. }
    assert (E2 : 1 <= a / b). { apply Qle_shift_div_l; [exact Hb|]. now rewrite Qmult_1_l. }
    rewrite (Q.min_r _ _ E1), (Q.min_l _ _ E2). field. exact Na.
Qed.

(* the estimator returns p exactly when the weights are exact: rows whose total weight is w,
   of which the reaching ones carry p * w *)
Theorem estimator_exact rows p : ~ est_den rows == 0 -> est_num rows == p * est_den rows -> estimator rows == p.
Proof. intros Hd Hn. unfold estimator. rewrite Hn. field. exact Hd. Qed.
