(* Proofs for property C07: stream identities of all jobs are pairwise distinct, differ from
   the scheduler's stream and are a function of (seed, spawn index) only — across any number
   of (repaired) restarts. *)
From Coq Require Import List Bool Arith Lia FinFun.
Import ListNotations.
From Inf Require Import base.ListX model.RngM.
Open Scope nat_scope.

Definition jstreams (j : jobstreams) : list sid := js_move j ++ js_engine j.

Record RI (s : rstate) : Prop := {
  ri_ent : entropy s = seed s;
  ri_le : length (issued s) <= nchild s;
  (* the k-th remembered job carries spawn index (nchild - #remembered + k) and its streams
     are built from the seed and that index only *)
  ri_ix : forall k j, nth_error (issued s) k = Some j ->
          exists nens, j = job_of (seed s) (nchild s - length (issued s) + k) nens
}.

Lemma RI_init sd : RI (rinit sd).
Proof. constructor; cbn; try reflexivity; try lia. intros [|k] j H; discriminate. Qed.

Lemma NoDup_app_intro_d {A} (l m : list A) :
  NoDup l -> NoDup m -> (forall x, In x l -> In x m -> False) -> NoDup (l ++ m).
Proof.
  induction l as [|a l IH]; intros Hl Hm Hd; cbn; [exact Hm|].
  inversion Hl as [|? ? Hn Hl']; subst. constructor.
  - intros Hin. apply in_app_or in Hin as [Hin|Hin]; [contradiction|]. apply (Hd a); [now left|exact Hin].
  - apply IH; auto. intros x Hx Hx'. apply (Hd x); [now right|exact Hx'].
Qed.

Lemma nth_error_firstn_lt {A} : forall (l : list A) m k, k < m -> nth_error (firstn m l) k = nth_error l k.
Proof.
  induction l as [|a l IH]; intros m k H; destruct m; try lia; cbn; [now destruct k|].
  destruct k; cbn; [reflexivity|]. apply IH. lia.
Qed.

Lemma rstep_RI s o : RI s -> fixed_ops [o] = true -> RI (rstep s o).
Proof.
  intros [E Le Ix] F. destruct o as [nens|lost fixed|c]; cbn in F; try discriminate.
  - cbn [rstep]. constructor; cbn [seed entropy nchild issued].
    + exact E.
    + rewrite app_length. cbn. lia.
    + intros k j Hk. rewrite app_length. cbn [length].
      destruct (Nat.lt_ge_cases k (length (issued s))) as [Hlt|Hge].
      * rewrite nth_error_app1 in Hk by exact Hlt. destruct (Ix k j Hk) as (n & ->).
        exists n. f_equal. lia.
      * rewrite nth_error_app2 in Hk by exact Hge.
        destruct (k - length (issued s)) as [|q] eqn:Eq; cbn in Hk; [|destruct q; discriminate].
        injection Hk as <-. exists nens. rewrite E. f_equal. lia.
  - rewrite andb_true_r in F. subst fixed. cbn [rstep].
    assert (Hlen : length (removelast_n lost (issued s)) = length (issued s) - lost).
    { unfold removelast_n. rewrite firstn_length. lia. }
    constructor; cbn [seed entropy nchild issued].
    + reflexivity.
    + rewrite Hlen. lia.
    + intros k j Hk. rewrite Hlen.
      assert (Hk' : k < length (issued s) - lost).
      { rewrite <- Hlen. apply nth_error_Some. congruence. }
      unfold removelast_n in Hk. rewrite nth_error_firstn_lt in Hk by exact Hk'.
      destruct (Ix k j Hk) as (n & ->). exists n. f_equal. lia.
Qed.

Lemma rrun_RI ops : forall s, RI s -> fixed_ops ops = true -> RI (rrun s ops).
Proof.
  induction ops as [|o ops IH]; intros s I F; cbn in *; [exact I|].
  apply andb_true_iff in F as [F1 F2]. apply IH; [|exact F2].
  apply rstep_RI; [exact I|]. cbn. now rewrite F1.
Qed.

(* ------------------------------------------------------------------ streams of one job *)

Lemma in_job_streams e i n x : In x (jstreams (job_of e i n)) ->
  fst x = e /\ hd 0 (snd x) = i /\ snd x <> [].
Proof.
  unfold jstreams, job_of. cbn [js_move js_engine]. intros H.
  apply in_app_or in H as [H|H]; apply in_map_iff in H as (k & <- & _); cbn; repeat split; discriminate.
Qed.

Lemma job_streams_nodup e i n : NoDup (jstreams (job_of e i n)).
Proof.
  unfold jstreams, job_of. cbn [js_move js_engine].
  apply NoDup_app_intro_d.
  - apply Injective_map_NoDup; [|apply seq_NoDup]. intros a b H. now injection H.
  - apply Injective_map_NoDup; [|apply seq_NoDup]. intros a b H. now injection H.
  - intros x Hx Hy. apply in_map_iff in Hx as (a & <- & _). apply in_map_iff in Hy as (b & Hb & _). discriminate.
Qed.

(* ------------------------------------------------------------------ the statements *)

Theorem streams_distinct_jobs s a b ja jb x :
  RI s -> nth_error (issued s) a = Some ja -> nth_error (issued s) b = Some jb ->
  In x (jstreams ja) -> In x (jstreams jb) -> a = b.
Proof.
  intros I Ha Hb Xa Xb.
  destruct (ri_ix _ I a ja Ha) as (na & ->). destruct (ri_ix _ I b jb Hb) as (nb & ->).
  apply in_job_streams in Xa as (_ & A & _). apply in_job_streams in Xb as (_ & B & _).
  assert (a < length (issued s)) by (apply nth_error_Some; congruence).
  assert (b < length (issued s)) by (apply nth_error_Some; congruence).
  pose proof (ri_le _ I). lia.
Qed.

Theorem streams_distinct_within s k j : RI s -> nth_error (issued s) k = Some j -> NoDup (jstreams j).
Proof. intros I H. destruct (ri_ix _ I k j H) as (n & ->). apply job_streams_nodup. Qed.

Theorem streams_not_scheduler s k j x :
  RI s -> nth_error (issued s) k = Some j -> In x (jstreams j) -> x <> scheduler_stream s /\ fst x = seed s.
Proof.
  intros I H X. destruct (ri_ix _ I k j H) as (n & ->). apply in_job_streams in X as (A & _ & C).
  split; [|exact A]. intros ->. cbn in C. congruence.
Qed.

(* a job's streams are a function of the seed and its spawn index (its ordinal) only *)
Theorem streams_function_of_ordinal s k j :
  RI s -> nth_error (issued s) k = Some j ->
  j = job_of (seed s) (js_index j) (length (js_move j)).
Proof.
  intros I H. destruct (ri_ix _ I k j H) as (n & ->). cbn. rewrite map_length, seq_length. reflexivity.
Qed.

(* the original set_rgen: two concurrent jobs after a multi-worker restart share a stream,
   and the entropy is not the seed *)
Lemma original_restart_refuted :
  let s := rrun (rinit 7) [RPick 1; RPick 1; RPick 2; RPick 1; RPick 1;
                           RRestart 1 false; RResetOrig 3; RPick 1; RResetOrig 3; RPick 1] in
  exists a b ja jb x, a <> b /\ nth_error (issued s) a = Some ja /\ nth_error (issued s) b = Some jb /\
                      In x (jstreams ja) /\ In x (jstreams jb) /\ fst x <> seed s.
Proof.
  exists 4, 5. eexists. eexists. exists (0, [3; 0]). vm_compute.
  split; [lia|]. split; [reflexivity|]. split; [reflexivity|]. split; [now left|]. split; [now left|]. lia.
Qed.

(* ------------------------------------------------------------------ the whole table at once *)

Lemma NoDup_flat_map_intro {A B} (f : A -> list B) : forall l,
  (forall k a, nth_error l k = Some a -> NoDup (f a)) ->
  (forall a b x y z, nth_error l a = Some x -> nth_error l b = Some y -> In z (f x) -> In z (f y) -> a = b) ->
  NoDup (flat_map f l).
Proof.
  induction l as [|h t IH]; intros Hn Hd; cbn [flat_map]; [constructor|].
  apply NoDup_app_intro_d.
  - apply (Hn 0 h). reflexivity.
  - apply IH.
    + intros k a Hk. apply (Hn (S k) a). exact Hk.
    + intros a b x y z Ha Hb Hx Hy. assert (E : S a = S b) by (apply (Hd (S a) (S b) x y z); assumption).
      congruence.
  - intros z Hz Hz'. apply in_flat_map in Hz' as (y & Hy & Hzy).
    apply In_nth_error in Hy as (k & Hk).
    assert (E : 0 = S k) by (apply (Hd 0 (S k) h y z); [reflexivity|exact Hk|exact Hz|exact Hzy]).
    discriminate.
Qed.

(* every stream of every remembered job, move and engine streams together, occurs once *)
Theorem all_streams_nodup s : RI s -> NoDup (all_streams s).
Proof.
  intros I. unfold all_streams. apply (NoDup_flat_map_intro jstreams).
  - intros k a Hk. exact (streams_distinct_within s k a I Hk).
  - intros a b x y z Ha Hb Hx Hy. exact (streams_distinct_jobs s a b x y z I Ha Hb Hx Hy).
Qed.

(* ------------------------------------------------------------------ a restart is transparent *)

Definition repick (j : jobstreams) : rop := RPick (length (js_move j)).

Lemma nth_error_skipn_add {A} : forall m (l : list A) k, nth_error (skipn m l) k = nth_error l (m + k).
Proof. induction m as [|m IH]; intros [|h t] k; cbn; try reflexivity; [destruct k; reflexivity|apply IH]. Qed.

Lemma replay_picks sd e : forall l2 l1 c,
  (forall k j, nth_error l2 k = Some j -> j = job_of e (c + k) (length (js_move j))) ->
  rrun (mkRS sd e c l1) (map repick l2) = mkRS sd e (c + length l2) (l1 ++ l2).
Proof.
  induction l2 as [|j t IH]; intros l1 c H; cbn [map length].
  - cbn. rewrite Nat.add_0_r, app_nil_r. reflexivity.
  - change (rrun (mkRS sd e c l1) (repick j :: map repick t))
      with (rrun (rstep (mkRS sd e c l1) (repick j)) (map repick t)).
    unfold repick at 1. cbn [rstep seed entropy nchild issued].
    rewrite IH.
    + f_equal; [lia|]. rewrite <- app_assoc. cbn [app]. f_equal. f_equal.
      specialize (H 0 j eq_refl). rewrite Nat.add_0_r in H. symmetry. exact H.
    + intros k j' Hk. specialize (H (S k) j' Hk). replace (S c + k) with (c + S k) by lia. exact H.
Qed.

(* stop at any point, forget the [lost] most recent jobs, restart (repaired set_rgen) and issue
   jobs on as many ensembles as the lost ones had: the stream table is exactly what it was —
   the re-issued jobs get the streams of the jobs they replace, nothing else moves *)
Theorem restart_transparent s lost :
  RI s -> lost <= length (issued s) ->
  rrun (rstep s (RRestart lost true)) (map repick (skipn (length (issued s) - lost) (issued s))) = s.
Proof.
  intros I L. pose proof (ri_le _ I) as Hle. pose proof (ri_ent _ I) as He.
  destruct s as [sd en nc iss]. cbn [seed entropy nchild issued] in *. subst en.
  cbn [rstep seed entropy nchild issued]. unfold removelast_n.
  set (m := length iss - lost).
  rewrite replay_picks.
  - rewrite firstn_skipn. f_equal. rewrite skipn_length. subst m. lia.
  - intros k j Hk. rewrite nth_error_skipn_add in Hk.
    destruct (ri_ix _ I (m + k) j Hk) as (nens & E). cbn [seed nchild issued] in E.
    rewrite E at 1. cbn [js_move job_of]. rewrite E. cbn [js_move job_of]. rewrite map_length, seq_length.
    f_equal. subst m. lia.
Qed.
