(* Proofs for property C07: stream identities of all jobs are pairwise distinct, differ from
   the scheduler's stream and are a function of (seed, spawn index) only — across any number
   of (repaired) restarts. *)
From Coq Require Import List Bool Arith Lia FinFun.
Import ListNotations.
From Inf Require Import base.ListX model.RngM.
Open Scope nat_scope.

Definition jstreams (j : jobstreams) : list sid := js_move j ++ js_engine j.

Record RI (s : rstate) : Prop := {
  ri_ent : entropy s = seed s;
  ri_le : length (issued s) <= nchild s;
  (* the k-th remembered job carries spawn index (nchild - #remembered + k) and its streams
     are built from the seed and that index only *)
  ri_ix : forall k j, nth_error (issued s) k = Some j ->
          exists nens, j = job_of (seed s) (nchild s - length (issued s) + k) nens
}.

Lemma RI_init sd : RI (rinit sd).
Proof. constructor; cbn; try reflexivity; try lia. intros [|k] j H; discriminate. Qed.

Lemma NoDup_app_intro_d {A} (l m : list A) :
  NoDup l -> NoDup m -> (forall x, In x l -> In x m -> False) -> NoDup (l ++ m).
Proof.
  induction l as [|a l IH]; intros Hl Hm Hd; cbn; [exact Hm|].
  inversion Hl as [|? ? Hn Hl']; subst. constructor.
  - intros Hin. apply in_app_or in Hin as [Hin|Hin]; [contradiction|]. apply (Hd a); [now left|exact Hin].
  - apply IH; auto. intros x Hx Hx'. apply (Hd x); [now right|exact Hx'].
Qed.

Lemma nth_error_firstn_lt {A} : forall (l : list A) m k, k < m -> nth_error (firstn m l) k = nth_error l k.
Proof.
  induction l as [|a l IH]; intros m k H; destruct m; try lia; cbn; [now destruct k|].
  destruct k; cbn; [reflexivity|]. apply IH. lia.
Qed.

Lemma rstep_RI s o : RI s -> fixed_ops [o] = true -> RI (rstep s o).
Proof.
  intros [E Le Ix] F. destruct o as [nens|lost fixed|c]; cbn in F; try discriminate.
  - cbn [rstep]. constructor; cbn [seed entropy nchild issued].
    + exact E.
    + rewrite app_length. cbn. lia.
    + intros k j Hk. rewrite app_length. cbn [length].
      destruct (Nat.lt_ge_cases k (length (issued s))) as [Hlt|Hge].
      * rewrite nth_error_app1 in Hk by exact Hlt. destruct (Ix k j Hk) as (n & ->).
        exists n. f_equal. lia.
      * rewrite nth_error_app2 in Hk by exact Hge.
        destruct (k - length (issued s)) as [|q] eqn:Eq; cbn in Hk; [|destruct q; discriminate].
        injection Hk as <-. exists nens. rewrite E. f_equal. lia.
  - rewrite andb_true_r in F. subst fixed. cbn [rstep].
    assert (Hlen : length (removelast_n lost (issued s)) = length (issued s) - lost).
    { unfold removelast_n. rewrite firstn_length. lia. }
    constructor; cbn [seed entropy nchild issued].
    + reflexivity.
    + rewrite Hlen. lia.
    + intros k j Hk. rewrite Hlen.
      assert (Hk' : k < length (issued s) - lost).
      { rewrite <- Hlen. apply nth_error_Some. congruence. }
      unfold removelast_n in Hk. rewrite nth_error_firstn_lt in Hk by exact Hk'.
      destruct (Ix k j Hk) as (n & ->). exists n. f_equal. lia.
Qed.

Lemma rrun_RI ops : forall s, RI s -> fixed_ops ops = true -> RI (rrun s ops).
Proof.
  induction ops as [|o ops IH]; intros s I F; cbn in *; [exact I|].
  apply andb_true_iff in F as [F1 F2]. apply IH; [|exact F2].
  apply rstep_RI; [exact I|]. cbn. now rewrite F1.
Qed.

(* ------------------------------------------------------------------ streams of one job *)

Lemma in_job_streams e i n x : In x (jstreams (job_of e i n)) ->
  fst x = e /\ hd 0 (snd x) = i /\ snd x <> [].
Proof.
  unfold jstreams, job_of. cbn [js_move js_engine]. intros H.
  apply in_app_or in H as [H|H]; apply in_map_iff in H as (k & <- & _); cbn; repeat split; discriminate.
Qed.

Lemma job_streams_nodup e i n : NoDup (jstreams (job_of e i n)).
Proof.
  unfold jstreams, job_of. cbn [js_move js_engine].
  apply NoDup_app_intro_d.
  - apply Injective_map_NoDup; [|apply seq_NoDup]. intros a b H. now injection H.
  - apply Injective_map_NoDup; [|apply seq_NoDup]. intros a b H. now injection H.
  - intros x Hx Hy. apply in_map_iff in Hx as (a & <- & _). apply in_map_iff in Hy as (b & Hb & _). discriminate.
Qed.

(* ------------------------------------------------------------------ the statements *)

Theorem streams_distinct_jobs s a b ja jb x :
  RI s -> nth_error (issued s) a = Some ja -> nth_error (issued s) b = Some jb ->
  In x (jstreams ja) -> In x (jstreams jb) -> a = b.
Proof.
  intros I Ha Hb Xa Xb.
  destruct (ri_ix _ I a ja Ha) as (na & ->). destruct (ri_ix _ I b jb Hb) as (nb & ->).
  apply in_job_streams in Xa as (_ & A & _). apply in_job_streams in Xb as (_ & B & _).
  assert (a < length (issued s)) by (apply nth_error_Some; congruence).
  assert (b < length (issued s)) by (apply nth_error_Some; congruence).
  pose proof (ri_le _ I). lia.
Qed.

Theorem streams_distinct_within s k j : RI s -> nth_error (issued s) k = Some j -> NoDup (jstreams j).
Proof. intros I H. destruct (ri_ix _ I k j H) as (n & ->). apply job_streams_nodup. Qed.

Theorem streams_not_scheduler s k j x :
  RI s -> nth_error (issued s) k = Some j -> In x (jstreams j) -> x <> scheduler_stream s /\ fst x = seed s.
Proof.
  intros I H X. destruct (ri_ix _ I k j H) as (n & ->). apply in_job_streams in X as (A & _ & C).
  split; [|exact A]. intros ->. cbn in C. congruence.
Qed.

(* a job's streams are a function of the seed and its spawn index (its ordinal) only *)
Theorem streams_function_of_ordinal s k j :
  RI s -> nth_error (issued s) k = Some j ->
  j = job_of (seed s) (js_index j) (length (js_move j)).
Proof.
  intros I H. destruct (ri_ix _ I k j H) as (n & ->). cbn. rewrite map_length, seq_length. reflexivity.
Qed.

(* the original set_rgen: two concurrent jobs after a multi-worker restart share a stream,
   and the entropy is not the seed *)
Lemma original_restart_refuted :
  let s := rrun (rinit 7) [RPick 1; RPick 1; RPick 2; RPick 1; RPick 1;
                           RRestart 1 false; RResetOrig 3; RPick 1; RResetOrig 3; RPick 1] in
  exists a b ja jb x, a <> b /\ nth_error (issued s) a = Some ja /\ nth_error (issued s) b = Some jb /\
                      In x (jstreams ja) /\ In x (jstreams jb) /\ fst x <> seed s.
Proof.
  exists 4, 5. eexists. eexists. exists (0, [3; 0]). vm_compute.
  split; [lia|]. split; [reflexivity|]. split; [reflexivity|]. split; [now left|]. split; [now left|]. lia.
Qed.
