(* BRIDGE 1 (C05 <-> C02): a pick certificate of model/MatchM.v exists exactly when the exact
   probability of spec/PermS.v is positive.

   The three developments meet on the idle block of the weight matrix of an [rstate] of
   model/RepexM.v, read as a matrix over Q:

     idle s      = idle_idx (locks s)          the idle slots, increasing (the very index list
                                                used by spec/PermS.v and proofs/PermP.v)
     idleQ s a b = inject_Z (wij s (nth a (idle s) 0) (nth b (idle s) 0))

   Main statements (weights >= 0 is the only hypothesis; k = length (idle s)):

     cert_iff_Pspec_pos      (exists m, take_cert s m i j = true) <-> 0 < Pspec k (idleQ s) a b
                             for idle slots i = nth a (idle s) 0, j = nth b (idle s) 0
     matchable_iff_perm_pos  (exists m, matb s m = true) <-> 0 < perm k (idleQ s)
     no_cert_when_perm_zero  perm k (idleQ s) == 0 -> no certificate at all, and Pspec == 0
                             (0/0 = 0 in Coq's Q: [Pspec] is then identically zero, so the
                             equivalence above holds there too, both sides false)

   No hypothesis "perm > 0" is needed for the equivalence: 0 < x / perm forces perm <> 0. *)
From Coq Require Import ZArith QArith List Bool Arith Lia.
Import ListNotations.
From Inf Require Import model.RepexM model.MatchM proofs.RepexP proofs.MatchP.
From Inf Require Import spec.PermS proofs.PermSpecP proofs.PermMatchP.
Open Scope nat_scope.

(* ------------------------------------------------------------------ the idle block over Q *)

Definition idle (s : rstate) : list nat := idle_idx (locks s).

Definition nidle (s : rstate) : nat := length (idle s).

Definition idleQ (s : rstate) : PermS.mat :=
  fun a b => inject_Z (wij s (nth a (idle s) 0) (nth b (idle s) 0)).

(* all weights are non-negative (frame counts, 0/1 flags) *)
Definition Wnonneg (s : rstate) : Prop := forall i j, (0 <= wij s i j)%Z.

Lemma Wnonneg_of_entries s :
  Forall (Forall (fun z => (0 <= z)%Z)) (W s) -> Wnonneg s.
Proof.
  intros H i j. unfold wij.
  destruct (Nat.lt_ge_cases i (length (W s))) as [Hi|Hi].
  - rewrite Forall_forall in H. specialize (H (nth i (W s) []) (nth_In _ _ Hi)).
    destruct (Nat.lt_ge_cases j (length (nth i (W s) []))) as [Hj|Hj].
    + rewrite Forall_forall in H. apply H. now apply nth_In.
    + rewrite (nth_overflow _ _ Hj). lia.
  - rewrite (nth_overflow (W s) [] Hi). destruct j; cbn; lia.
Qed.

Lemma idle_In s x : In x (idle s) <-> is_locked s x = false.
Proof.
  unfold idle, idle_idx, is_locked. rewrite filter_In, in_seq, negb_true_iff. split.
  - tauto.
  - intros H. split; [|exact H]. pose proof (unlocked_lt s x H) as L. unfold size in L. lia.
Qed.

Lemma idle_NoDup s : NoDup (idle s).
Proof. unfold idle, idle_idx. apply NoDup_filter, seq_NoDup. Qed.

Lemma idle_nth_unlocked s a : a < nidle s -> is_locked s (nth a (idle s) 0) = false.
Proof. intros H. apply idle_In. now apply nth_In. Qed.

Lemma idle_nth_inj s a a' : a < nidle s -> a' < nidle s -> nth a (idle s) 0 = nth a' (idle s) 0 -> a = a'.
Proof. intros Ha Ha' E. exact (proj1 (NoDup_nth (idle s) 0) (idle_NoDup s) a a' Ha Ha' E). Qed.

(* position of a slot in a list of slots (0 when absent) *)
Fixpoint posn (x : nat) (l : list nat) : nat :=
  match l with
  | [] => 0
  | a :: r => if a =? x then 0 else S (posn x r)
  end.

Lemma posn_spec x l : In x l -> posn x l < length l /\ nth (posn x l) l 0 = x.
Proof.
  induction l as [|a r IH]; intros H; [contradiction|]. cbn [posn].
  destruct (Nat.eqb_spec a x) as [->|N].
  - split; [cbn; lia|reflexivity].
  - destruct H as [H|H]; [contradiction|]. destruct (IH H) as [A B]. split; [cbn; lia|exact B].
Qed.

Lemma idle_posn s x : is_locked s x = false -> posn x (idle s) < nidle s /\ nth (posn x (idle s)) (idle s) 0 = x.
Proof. intros H. apply posn_spec. now apply idle_In. Qed.

Lemma idle_posn_nth s a : a < nidle s -> posn (nth a (idle s) 0) (idle s) = a.
Proof.
  intros Ha. destruct (idle_posn s _ (idle_nth_unlocked s a Ha)) as [A B].
  exact (idle_nth_inj s _ _ A Ha B).
Qed.

Lemma idleQ_nonneg s : Wnonneg s -> nonneg (nidle s) (idleQ s).
Proof.
  intros H a b _ _. unfold idleQ. rewrite <- (Zle_Qle 0). apply H.
Qed.

Lemma idleQ_pos s a b : Wnonneg s ->
  ((0 < idleQ s a b)%Q <-> wij s (nth a (idle s) 0) (nth b (idle s) 0) <> 0%Z).
Proof.
  intros H. unfold idleQ. rewrite <- (Zlt_Qlt 0). specialize (H (nth a (idle s) 0) (nth b (idle s) 0)). lia.
Qed.

(* ------------------------------------------------------------------ matchings of spec/PermS.v through a given pair *)

Lemma skip_inj i a a' : skip i a = skip i a' -> a = a'.
Proof. intros E. rewrite <- (unskip_skip i a), <- (unskip_skip i a'). now rewrite E. Qed.

Lemma fmatching_minor n M sg i :
  fmatching (S n) M sg -> i <= n ->
  fmatching n (minor i (sg i) M) (fun a => unskip (sg i) (sg (skip i a))).
Proof.
  intros [Hm Hinj] Hi.
  destruct (Hm i ltac:(lia)) as [Hj _].
  assert (Hne : forall a, a < n -> sg (skip i a) <> sg i).
  { intros a Ha E. apply Hinj in E; [exact (skip_neq _ _ E)| |lia]. apply skip_lt_S. exact Ha. }
  split.
  - intros a Ha. destruct (Hm (skip i a) (skip_lt_S n i a Ha)) as [Hb Hp]. split.
    + apply unskip_lt; [lia|exact Hb|apply Hne; exact Ha].
    + unfold minor. rewrite skip_unskip by (apply Hne; exact Ha). exact Hp.
  - intros a a' Ha Ha' E. apply unskip_inj in E; [|apply Hne; exact Ha|apply Hne; exact Ha'].
    apply Hinj in E; [now apply skip_inj in E| |]; apply skip_lt_S; assumption.
Qed.

Lemma fmatching_extend n M tau i j :
  i <= n -> j <= n -> (0 < M i j)%Q -> fmatching n (minor i j M) tau ->
  exists sg, fmatching (S n) M sg /\ sg i = j.
Proof.
  intros Hi Hj Hp [Hm Hinj].
  exists (fun x => if x =? i then j else skip j (tau (unskip i x))).
  split; [|now rewrite Nat.eqb_refl]. split.
  - intros x Hx. destruct (Nat.eqb_spec x i) as [->|N]; [split; [lia|exact Hp]|].
    assert (Hu : unskip i x < n) by (apply unskip_lt; [exact Hi|exact Hx|exact N]).
    destruct (Hm _ Hu) as [Hb Hq]. split; [apply skip_lt_S; exact Hb|].
    unfold minor in Hq. rewrite skip_unskip in Hq by exact N. exact Hq.
  - intros x x' Hx Hx' E.
    destruct (Nat.eqb_spec x i) as [->|N]; destruct (Nat.eqb_spec x' i) as [->|N']; auto.
    + exfalso. symmetry in E. exact (skip_neq _ _ E).
    + exfalso. exact (skip_neq _ _ E).
    + apply skip_inj in E. apply Hinj in E.
      * now apply unskip_inj in E.
      * apply unskip_lt; [exact Hi|exact Hx|exact N].
      * apply unskip_lt; [exact Hi|exact Hx'|exact N'].
Qed.

(* division by a zero permanent: Coq's Q has / 0 == 0, so Pspec is then 0 everywhere *)
Lemma Pspec_perm_zero n M i j : (perm n M == 0)%Q -> (Pspec n M i j == 0)%Q.
Proof.
  intros E. unfold Pspec, Qdiv. rewrite E. change (/ 0)%Q with 0%Q. apply Qmult_0_r.
Qed.

(* the exact probability of (i, j) is positive iff some perfect matching sends i to j;
   no hypothesis on the permanent: a positive quotient has a non-zero denominator *)
Theorem Pspec_pos_iff_matching_through n M i j :
  nonneg (S n) M -> i <= n -> j <= n ->
  ((0 < Pspec (S n) M i j)%Q <-> exists sg, fmatching (S n) M sg /\ sg i = j).
Proof.
  intros Hn Hi Hj. split.
  - intros H.
    assert (Hp : (0 < perm (S n) M)%Q).
    { destruct (Qlt_le_dec 0 (perm (S n) M)) as [|Hle]; [assumption|]. exfalso.
      assert (E : (perm (S n) M == 0)%Q) by (apply Qle_antisym; [exact Hle|apply perm_nonneg; exact Hn]).
      rewrite (Pspec_perm_zero _ _ i j E) in H. discriminate. }
    apply (Pspec_pos_iff_on_matching n M i j Hn Hp Hi Hj) in H as (A & tau & B).
    exact (fmatching_extend n M tau i j Hi Hj A B).
  - intros (sg & Hs & E).
    assert (Hp : (0 < perm (S n) M)%Q) by (apply perm_pos_of_matching; [exact Hn|exists sg; exact Hs]).
    apply (Pspec_pos_iff_on_matching n M i j Hn Hp Hi Hj). split.
    + destruct Hs as [Hm _]. destruct (Hm i ltac:(lia)) as [_ Hq]. rewrite E in Hq. exact Hq.
    + exists (fun a => unskip (sg i) (sg (skip i a))). rewrite <- E. apply fmatching_minor; assumption.
Qed.

(* ------------------------------------------------------------------ certificates <-> matchings of the idle block *)

(* from a certificate to a matching of idleQ: positions instead of slots *)
Definition sg_of (s : rstate) (m : list nat) : nat -> nat :=
  fun a => posn (mrow m (nth a (idle s) 0)) (idle s).

(* from a matching of idleQ to a certificate (busy rows get an arbitrary entry) *)
Definition cert_of (s : rstate) (sg : nat -> nat) : list nat :=
  map (fun r => nth (sg (posn r (idle s))) (idle s) 0) (seq 0 (size s)).

Lemma sg_of_nth s m a : MatchP.mat s m -> a < nidle s ->
  sg_of s m a < nidle s /\ nth (sg_of s m a) (idle s) 0 = mrow m (nth a (idle s) 0).
Proof.
  intros [_ M] Ha. destruct (M _ (idle_nth_unlocked s a Ha)) as (A & _). exact (idle_posn s _ A).
Qed.

Lemma mat_fmatching s m : Wnonneg s -> MatchP.mat s m -> fmatching (nidle s) (idleQ s) (sg_of s m).
Proof.
  intros Hw Hm. pose proof Hm as [_ M]. split.
  - intros a Ha. destruct (sg_of_nth s m a Hm Ha) as [A B]. split; [exact A|].
    apply idleQ_pos; [exact Hw|]. rewrite B.
    destruct (M _ (idle_nth_unlocked s a Ha)) as (_ & C & _). exact C.
  - intros a a' Ha Ha' E.
    destruct (sg_of_nth s m a Hm Ha) as [_ B]. destruct (sg_of_nth s m a' Hm Ha') as [_ B'].
    rewrite E in B. rewrite B' in B.
    destruct (M _ (idle_nth_unlocked s a Ha)) as (_ & _ & C).
    apply (idle_nth_inj s a a' Ha Ha'). apply C; [apply idle_nth_unlocked; exact Ha'|congruence].
Qed.

Lemma mrow_cert_of s sg r : r < size s -> mrow (cert_of s sg) r = nth (sg (posn r (idle s))) (idle s) 0.
Proof.
  intros Hr. unfold mrow, cert_of.
  set (f := fun r0 => nth (sg (posn r0 (idle s))) (idle s) 0).
  rewrite (nth_indep _ 0 (f 0)) by (rewrite map_length, seq_length; exact Hr).
  rewrite map_nth, seq_nth by exact Hr. reflexivity.
Qed.

Lemma fmatching_mat s sg : Wnonneg s -> fmatching (nidle s) (idleQ s) sg -> MatchP.mat s (cert_of s sg).
Proof.
  intros Hw [Hm Hinj]. split; [unfold cert_of; now rewrite map_length, seq_length|].
  intros r Hr. pose proof (unlocked_lt _ _ Hr) as Lr.
  destruct (idle_posn s r Hr) as [Pa Pb]. set (a := posn r (idle s)) in *.
  rewrite mrow_cert_of by exact Lr. fold a.
  destruct (Hm a Pa) as [Hb Hp]. split; [apply idle_nth_unlocked; exact Hb|]. split.
  - apply (idleQ_pos s a (sg a) Hw) in Hp. rewrite Pb in Hp. exact Hp.
  - intros r' Hr' E. pose proof (unlocked_lt _ _ Hr') as Lr'.
    destruct (idle_posn s r' Hr') as [Pa' Pb']. set (a' := posn r' (idle s)) in *.
    rewrite mrow_cert_of in E by exact Lr'. fold a' in E.
    destruct (Hm a' Pa') as [Hb' _].
    apply (idle_nth_inj s _ _ Hb Hb') in E. apply Hinj in E; [|exact Pa|exact Pa'].
    rewrite <- Pb, <- Pb'. now rewrite E.
Qed.

Lemma sg_of_cert s m i j : MatchP.mat s m -> mrow m i = j -> is_locked s i = false ->
  sg_of s m (posn i (idle s)) = posn j (idle s).
Proof.
  intros Hm E Hi. unfold sg_of. destruct (idle_posn s i Hi) as [_ B]. rewrite B, E. reflexivity.
Qed.

(* ------------------------------------------------------------------ the bridge *)

(* the idle block has a perfect matching (C05's [Matchable]) iff its permanent is positive *)
Theorem matchable_iff_perm_pos s : Wnonneg s ->
  ((exists m, matb s m = true) <-> (0 < perm (nidle s) (idleQ s))%Q).
Proof.
  intros Hw. rewrite (perm_pos_iff_matching _ _ (idleQ_nonneg s Hw)). split.
  - intros [m Hm]. apply matb_mat in Hm. exists (sg_of s m). now apply mat_fmatching.
  - intros [sg Hs]. exists (cert_of s sg). apply mat_matb. now apply fmatching_mat.
Qed.

Corollary Matchable_iff_perm_pos s : Wnonneg s -> (Matchable s <-> (0 < perm (nidle s) (idleQ s))%Q).
Proof.
  intros Hw. rewrite <- (matchable_iff_perm_pos s Hw). unfold Matchable.
  split; intros [m Hm]; exists m; [now apply mat_matb|now apply matb_mat].
Qed.

(* a certificate for the pick (i, j) exists iff the exact probability of (i, j) is positive;
   positions a, b of the two idle slots in [idle s] *)
Theorem cert_iff_Pspec_pos_at s a b : Wnonneg s -> a < nidle s -> b < nidle s ->
  ((exists m, take_cert s m (nth a (idle s) 0) (nth b (idle s) 0) = true) <->
   (0 < Pspec (nidle s) (idleQ s) a b)%Q).
Proof.
  intros Hw Ha Hb.
  destruct (nidle s) as [|n] eqn:Ek; [lia|].
  rewrite (Pspec_pos_iff_matching_through n (idleQ s) a b); [|rewrite <- Ek; exact (idleQ_nonneg s Hw)|lia|lia].
  rewrite <- Ek in *. split.
  - intros [m Hc]. apply take_cert_spec in Hc as [Hm E].
    exists (sg_of s m). split; [now apply mat_fmatching|].
    unfold sg_of. rewrite E. now apply idle_posn_nth.
  - intros (sg & Hs & E). exists (cert_of s sg). unfold take_cert.
    rewrite (mat_matb _ _ (fmatching_mat s sg Hw Hs)). cbn [andb]. apply Nat.eqb_eq.
    rewrite mrow_cert_of by (apply unlocked_lt, idle_nth_unlocked; exact Ha).
    rewrite idle_posn_nth by exact Ha. now rewrite E.
Qed.

(* the same, stated on the slots *)
Theorem cert_iff_Pspec_pos s i j : Wnonneg s -> is_locked s i = false -> is_locked s j = false ->
  ((exists m, take_cert s m i j = true) <->
   (0 < Pspec (nidle s) (idleQ s) (posn i (idle s)) (posn j (idle s)))%Q).
Proof.
  intros Hw Hi Hj. destruct (idle_posn s i Hi) as [Ai Bi]. destruct (idle_posn s j Hj) as [Aj Bj].
  rewrite <- (cert_iff_Pspec_pos_at s _ _ Hw Ai Aj). rewrite Bi, Bj. reflexivity.
Qed.

(* why the statements are about idle slots: [matb] ignores the entries of busy rows (so for a
   busy row i every matching of the idle block is trivially "a certificate"), while for an idle
   row the certified column is necessarily idle *)
Lemma cert_col_idle s m i j : is_locked s i = false -> take_cert s m i j = true -> is_locked s j = false.
Proof.
  intros Hi Hc. apply take_cert_spec in Hc as [[_ M] E]. destruct (M i Hi) as (A & _). now rewrite <- E.
Qed.

(* when the permanent of the idle block vanishes: no certificate of any kind, and Pspec,
   being x / 0, is == 0 in Coq's Q (so "positive probability" is false as well) *)
Theorem no_cert_when_perm_zero s : Wnonneg s -> (perm (nidle s) (idleQ s) == 0)%Q ->
  (forall m, matb s m = false) /\ (forall m i j, take_cert s m i j = false) /\
  (forall a b, (Pspec (nidle s) (idleQ s) a b == 0)%Q).
Proof.
  intros Hw E.
  assert (N : forall m, matb s m = false).
  { intros m. destruct (matb s m) eqn:Hm; [|reflexivity]. exfalso.
    assert (P : (0 < perm (nidle s) (idleQ s))%Q) by (apply matchable_iff_perm_pos; [exact Hw|now exists m]).
    rewrite E in P. discriminate. }
  split; [exact N|]. split.
  - intros m i j. unfold take_cert. now rewrite N.
  - intros a b. now apply Pspec_perm_zero.
Qed.

(* "if no certificate exists the real pick had probability zero under the exact P" (model/MatchM.v) *)
Corollary no_cert_prob_zero s i j : Wnonneg s -> is_locked s i = false -> is_locked s j = false ->
  (forall m, take_cert s m i j = false) ->
  (Pspec (nidle s) (idleQ s) (posn i (idle s)) (posn j (idle s)) == 0)%Q.
Proof.
  intros Hw Hi Hj Hn.
  destruct (Qlt_le_dec 0 (perm (nidle s) (idleQ s))) as [Hp|Hle].
  - apply Qle_antisym.
    + apply Qnot_lt_le. intros H. apply (cert_iff_Pspec_pos s i j Hw Hi Hj) in H as [m Hm].
      rewrite Hn in Hm. discriminate.
    + apply Pspec_nonneg; [exact (idleQ_nonneg s Hw)|exact Hp| |]; apply idle_posn; assumption.
  - apply Pspec_perm_zero. apply Qle_antisym; [exact Hle|]. apply perm_nonneg. exact (idleQ_nonneg s Hw).
Qed.

(* ------------------------------------------------------------------ non-vacuity *)

(* the state of theorems/C05.v: three idle slots, rows 1 and 2 valid in ensembles 1 and 2 *)
Definition bridge_ex1 : rstate :=
  mkR [[1;0;0;0]; [0;1;1;0]; [0;1;1;0]; [0;0;0;0]]%Z [0;1;2;0] [false;false;false;true] [] 3.

Example bridge_ex1_nonneg : Wnonneg bridge_ex1.
Proof. apply Wnonneg_of_entries. cbn. repeat constructor; lia. Qed.

(* the pick (2, 1) of C05_example_run: certificate [0;2;1;0], exact probability 1/2 *)
Example bridge_ex1_cert :
  idle bridge_ex1 = [0; 1; 2] /\
  take_cert bridge_ex1 [0;2;1;0] 2 1 = true /\
  (Pspec (nidle bridge_ex1) (idleQ bridge_ex1) 2 1 == 1 # 2)%Q /\
  ((exists m, take_cert bridge_ex1 m 2 1 = true) <->
   (0 < Pspec (nidle bridge_ex1) (idleQ bridge_ex1) 2 1)%Q).
Proof.
  split; [reflexivity|]. split; [vm_compute; reflexivity|]. split; [vm_compute; reflexivity|].
  exact (cert_iff_Pspec_pos_at bridge_ex1 2 1 bridge_ex1_nonneg ltac:(cbn; lia) ltac:(cbn; lia)).
Qed.

(* the pair (0, 1) has weight 0: probability zero, hence no certificate whatsoever *)
Example bridge_ex1_nocert : forall m, take_cert bridge_ex1 m 0 1 = false.
Proof.
  intros m. destruct (take_cert bridge_ex1 m 0 1) eqn:E; [|reflexivity]. exfalso.
  assert (H : (0 < Pspec (nidle bridge_ex1) (idleQ bridge_ex1) 0 1)%Q).
  { apply (cert_iff_Pspec_pos_at bridge_ex1 0 1 bridge_ex1_nonneg); [cbn; lia|cbn; lia|]. now exists m. }
  vm_compute in H. discriminate.
Qed.

Print Assumptions Pspec_pos_iff_matching_through.
Print Assumptions matchable_iff_perm_pos.
Print Assumptions cert_iff_Pspec_pos_at.
Print Assumptions cert_iff_Pspec_pos.
Print Assumptions no_cert_when_perm_zero.
Print Assumptions no_cert_prob_zero.
