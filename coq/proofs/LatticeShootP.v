(* Property C01 (sampling is unbiased): the shooting move of infretis/core/tis.py satisfies
   super-detailed balance for the test system of C01, the symmetric +-1 walk on the integers
   with interfaces at k + 1/2 (py/plugins/engines.py LatticeEngine, notes in model/LatticeM.v).

   MODEL.  Positions are integers.  With n interfaces 1/2, 3/2, ..., n - 1/2 the ensemble [k+]
   has the interfaces (1/2, k + 1/2, n - 1/2); put N := n.  EngineBase.add_to_path stops a
   propagation at the first frame with order < 1/2 (x <= 0) or order > n - 1/2 (x >= N).
   A path of [k+] is a list of positions x_0 ... x_{L-1}, L >= 3, consecutive frames differ by
   +-1, x_0 <= 0, interior frames 0 < x < N, last frame outside again, some frame >= k + 1,
   L <= maxlength ([valid_pathb]).  Its weight as a trajectory of the walk given its first frame
   is pi(p) = prod of step probabilities = (1/2)^(L-1) ([pi], [pi_pow]); the first frame of a
   valid path is always 0 ([valid_first_frame]), so pi is the path-ensemble weight up to one
   constant.

   A trial of the shooting move is determined by: the old path, the shooting index i (interior,
   uniform among L_old - 2 indices: rgen.integers(1, L_old - 1)), the backward steps bs and the
   forward steps fs drawn by the engine (each +-1 with probability 1/2, fresh draws).  The
   generated path is [trial x_i bs fs] = reversed backward trajectory ++ forward trajectory; its
   generation probability is g = 1/(L_old - 2) * P(bs) * P(fs) ([gen_prob]).  The trial is
   accepted iff it is a valid path of the ensemble and its length fits
   maxlen = min(int((L_old - 2)/xi) + 2, maxlength), xi uniform ([accepted], with MovesM's
   [draw_maxlen]).

   PROVED (all lengths, all N, k, maxlength):
     seq_prob_time_reverse, seq_prob_symmetric   a step sequence and its time reversal have the
                            same probability because the walk is symmetric (p = 1/2; false for p = 1/3)
     gen_prob_is_weight     g(old -> new; i) = 1/(L_old - 2) * pi(new) = 1/(L_old-2) (1/2)^(L_new-1)
     trial_reconstruct / trial_unique   for a walk [new] and an index j, the only (bs, fs) with
                            |bs| = j that generate [new] are its own steps split at j
     maxlen_rule            L_new <= int((L_old-2)/xi) + 2 (capped)  <->  L_new <= maxlength /\
                            xi <= (L_old-2)/(L_new-2)
     accepted_iff_interval  for xi in (0,1]: accepted <-> xi <= A, A = [valid] min(1, (L_old-2)/(L_new-2)):
                            the accepted xi form the interval (0, A], of measure A = [acc_prob]
     acc_is_metropolis_hastings   A is the Metropolis-Hastings acceptance for the flows pi * g
     shooting_super_detailed_balance
                            pi(old) g(old->new; i,j) A(old->new) == pi(new) g(new->old; j,i) A(new->old)
     shooting_detailed_balance    the same summed over all pairs of shooting points ([move_density])
     detailed_balance_stationary / shooting_stationary / shooting_stationary_full
                            hence sum_old pi(old) P(old, new) == pi(new) on the whole (finite, listed:
                            all_valid_spec, all_valid_NoDup) state space of the ensemble, where
                            P(x, y) = move density for y <> x and P(x, x) = the remainder (rejections).
                            (That the remainder is >= 0, i.e. that P is a stochastic matrix, is a fact
                            about the real process and is not used or proved; the identity is algebraic.)
     trial_is_C09_trial_orders    the trial path here is MovesP.trial_orders of C09_accept_rule
     code_rule_balances     the pair (selection 1/(L-2), acceptance min(1, n_old/n_new)) balances;
     shooting_index_interval      MovesM.shooting_index u L = i  <->  i - 1 <= u (L-2) < i: uniform u gives
                            every interior index the probability 1/(L-2) = [sel_prob]
     REFUTED variants, each on the example pair (the code's rule balances, these four do not):
     no_length_rule_breaks_balance          accept every valid trial (the 'ld' / allowmaxlength branch)
     rule_before_repair_breaks_balance      xi <= n_old/(n_new + 1), the rule before the add_to_path
                                            repair (lead L11, C09_accept_rule_before_repair)
     rule_with_L_breaks_balance             xi <= L_old/L_new (L instead of L - 2 in the rule only)
     index_over_all_frames_breaks_balance   index uniform over all L frames, rule with L - 2

   FACTS ABOUT /repo THIS RESTS ON, and where they are tied to the code:
     (F1) uniform interior index, L_old - 2 values: Path.get_shooting_point, rgen.integers(1, L - 1);
          MovesM.shooting_index, C09_shooting_index_interior (1 <= idx <= L-2 for every u in [0,1)),
          C09_acc_valid_shoot (v), shooting_index_interval below.  That numpy's integers(a, b) is
          uniform on [a, b) is numpy's contract; it is assumed, not proved.
     (F2) the maxlen rule int((L_old - 2)/xi) + 2 capped by maxlength: MovesM.draw_maxlen (reused
          here), C09_accept_rule: a completed valid trial is accepted iff xi <= n_old/n_new.
     (F3) every step of the trial is a fresh symmetric +-1 draw, backward and forward:
          LatticeEngine.step (u < 0.5), the same for reverse=True; the wall (default -4) is never
          reached by a [k+] path (all frames are in [0, N], [valid_frames_range]).
     (F4) invalid trials are rejected (BWI, NCR, FTL/BTL...) and a rejection keeps the old path:
          C09_acc_valid_shoot (i)-(iv), C09_reject_untouched, C09_run_md_replaces_iff_accepted.
     (F5) aimless shooting: LatticeEngine.modify_velocities draws nothing (dek = 0), check_kick
          passes for every interior point, so there is no further acceptance factor.
   Deviations of the real program from this model are listed at the end of the file. *)
From Coq Require Import QArith Qpower Qminmax ZArith List Bool Arith Lia.
From Inf Require Import model.LatticeM proofs.LatticeP model.MovesM proofs.MovesP.
Import ListNotations.
Open Scope Q_scope.

(* ------------------------------------------------------------------ finite sums *)

Fixpoint sumq {A : Type} (f : A -> Q) (l : list A) : Q :=
  match l with
  | [] => 0
  | x :: r => f x + sumq f r
  end.

Lemma sumq_ext : forall {A} (f g : A -> Q) l,
  (forall x, In x l -> f x == g x) -> sumq f l == sumq g l.
Proof.
  intros A f g l. induction l as [|x r IH]; intros H; cbn [sumq]; [reflexivity|].
  rewrite (H x (or_introl eq_refl)), IH; [reflexivity|].
  intros y Hy. apply H. right. exact Hy.
Qed.

Lemma sumq_scale : forall {A} (c : Q) (f : A -> Q) l, sumq (fun x => c * f x) l == c * sumq f l.
Proof. intros A c f l. induction l as [|x r IH]; cbn [sumq]; [ring|]. rewrite IH. ring. Qed.

Lemma sumq_plus : forall {A} (f g : A -> Q) l, sumq (fun x => f x + g x) l == sumq f l + sumq g l.
Proof. intros A f g l. induction l as [|x r IH]; cbn [sumq]; [ring|]. rewrite IH. ring. Qed.

Lemma sumq_zero : forall {A} (l : list A), sumq (fun _ => 0) l == 0.
Proof. intros A l. induction l as [|x r IH]; cbn [sumq]; [reflexivity|]. rewrite IH. ring. Qed.

Lemma sumq_swap : forall {A B} (f : A -> B -> Q) la lb,
  sumq (fun a => sumq (fun b => f a b) lb) la == sumq (fun b => sumq (fun a => f a b) la) lb.
Proof.
  intros A B f la lb. induction la as [|x r IH]; cbn [sumq].
  - rewrite sumq_zero. reflexivity.
  - rewrite IH, <- sumq_plus. reflexivity.
Qed.

Lemma sumq_scale2 : forall {A B} (c : Q) (f : A -> B -> Q) la lb,
  c * sumq (fun a => sumq (fun b => f a b) lb) la == sumq (fun a => sumq (fun b => c * f a b) lb) la.
Proof.
  intros A B c f la lb.
  transitivity (sumq (fun a => c * sumq (fun b => f a b) lb) la).
  - symmetry. apply (sumq_scale c (fun a => sumq (fun b => f a b) lb)).
  - apply sumq_ext. intros a _. symmetry. apply (sumq_scale c (fun b => f a b)).
Qed.

(* ------------------------------------------------------------------ the walk *)

Definition half : Q := 1 # 2.

(* a step: true = +1, false = -1 *)
Definition sval (b : bool) : Z := if b then 1%Z else (-1)%Z.

(* the trajectory from x along the steps s (length s + 1 frames) and its end point *)
Fixpoint walk (x : Z) (s : list bool) : list Z :=
  match s with
  | [] => [x]
  | b :: r => x :: walk (x + sval b)%Z r
  end.

Fixpoint endp (x : Z) (s : list bool) : Z :=
  match s with
  | [] => x
  | b :: r => endp (x + sval b)%Z r
  end.

(* the step sequence seen backward in time *)
Definition time_reverse (s : list bool) : list bool := rev (map negb s).

(* a walk that steps +1 with probability p, -1 with probability 1 - p *)
Definition step_prob (p : Q) (b : bool) : Q := if b then p else 1 - p.

Fixpoint seq_prob (p : Q) (s : list bool) : Q :=
  match s with
  | [] => 1
  | b :: r => step_prob p b * seq_prob p r
  end.

Fixpoint pow_half (n : nat) : Q :=
  match n with
  | O => 1
  | S m => half * pow_half m
  end.

Lemma seq_prob_app : forall p s1 s2, seq_prob p (s1 ++ s2) == seq_prob p s1 * seq_prob p s2.
Proof.
  intros p s1 s2. induction s1 as [|b r IH]; cbn [seq_prob app]; [ring|]. rewrite IH. ring.
Qed.

(* reversing time exchanges the roles of p and 1 - p ... *)
Lemma seq_prob_time_reverse : forall p s, seq_prob p (time_reverse s) == seq_prob (1 - p) s.
Proof.
  intros p s. unfold time_reverse. induction s as [|b r IH]; cbn [map rev seq_prob]; [reflexivity|].
  rewrite seq_prob_app, IH. cbn [seq_prob]. destruct b; cbn [negb step_prob]; ring.
Qed.

Lemma seq_prob_ext : forall p q s, p == q -> seq_prob p s == seq_prob q s.
Proof.
  intros p q s E. induction s as [|b r IH]; cbn [seq_prob]; [reflexivity|].
  rewrite IH. destruct b; cbn [step_prob]; rewrite E; reflexivity.
Qed.

(* ... so for the symmetric walk a step sequence and its reversal are equally likely *)
Theorem seq_prob_symmetric : forall s, seq_prob half (time_reverse s) == seq_prob half s.
Proof.
  intros s. rewrite seq_prob_time_reverse. apply seq_prob_ext. reflexivity.
Qed.

(* (not so for a biased walk) *)
Example seq_prob_biased_not_symmetric :
  ~ seq_prob (1 # 3) (time_reverse [true]) == seq_prob (1 # 3) [true].
Proof. vm_compute. discriminate. Qed.

Lemma seq_prob_half : forall s, seq_prob half s == pow_half (length s).
Proof.
  induction s as [|b r IH]; cbn [seq_prob length pow_half]; [reflexivity|].
  rewrite IH. destruct b; cbn [step_prob]; [reflexivity|]. unfold half. ring.
Qed.

Lemma pow_half_add : forall a b, pow_half (a + b) == pow_half a * pow_half b.
Proof. intros a b. induction a as [|a IH]; cbn [pow_half plus]; [ring|]. rewrite IH. ring. Qed.

Lemma pow_half_pos : forall n, 0 < pow_half n.
Proof.
  induction n as [|n IH]; cbn [pow_half]; [reflexivity|].
  apply Qmult_lt_0_compat; [reflexivity|exact IH].
Qed.

Lemma pow_half_Qpower : forall n, pow_half n == (1 # 2) ^ Z.of_nat n.
Proof.
  induction n as [|n IH]; [reflexivity|].
  rewrite Nat2Z.inj_succ. unfold Z.succ. rewrite Qpower_plus by discriminate.
  cbn [pow_half]. rewrite IH. unfold half. cbn. ring.
Qed.

(* ---- structure of walks *)

Lemma walk_length : forall s x, length (walk x s) = S (length s).
Proof. induction s as [|b r IH]; intros x; cbn [walk length]; [reflexivity|]. rewrite IH. reflexivity. Qed.

Lemma walk_app : forall s1 s2 x, walk x (s1 ++ s2) = walk x s1 ++ tl (walk (endp x s1) s2).
Proof.
  induction s1 as [|b r IH]; intros s2 x; cbn [walk app endp].
  - destruct s2; reflexivity.
  - rewrite IH. reflexivity.
Qed.

Lemma endp_app : forall s1 s2 x, endp x (s1 ++ s2) = endp (endp x s1) s2.
Proof. induction s1 as [|b r IH]; intros s2 x; cbn [endp app]; [reflexivity|]. apply IH. Qed.

Lemma sval_negb : forall b, sval (negb b) = (- sval b)%Z.
Proof. destruct b; reflexivity. Qed.

Lemma endp_time_reverse : forall s x, endp (endp x s) (time_reverse s) = x.
Proof.
  unfold time_reverse. induction s as [|b r IH]; intros x; cbn [endp map rev]; [reflexivity|].
  rewrite endp_app, IH. cbn [endp]. rewrite sval_negb. lia.
Qed.

Lemma time_reverse_involutive : forall s, time_reverse (time_reverse s) = s.
Proof.
  intros s. unfold time_reverse. rewrite map_rev, rev_involutive, map_map.
  rewrite <- (map_id s) at 2. apply map_ext. intros b. apply negb_involutive.
Qed.

Lemma time_reverse_length : forall s, length (time_reverse s) = length s.
Proof. intros s. unfold time_reverse. rewrite rev_length, map_length. reflexivity. Qed.

Lemma walk_snoc : forall s x b, walk x (s ++ [b]) = walk x s ++ [(endp x s + sval b)%Z].
Proof. intros s x b. rewrite walk_app. reflexivity. Qed.

(* the backward trajectory, read forward in time, is the walk along the reversed steps *)
Lemma rev_walk : forall s x, rev (walk x s) = walk (endp x s) (time_reverse s).
Proof.
  induction s as [|b r IH]; intros x; cbn [walk rev endp]; [reflexivity|].
  rewrite IH. unfold time_reverse. cbn [map rev]. fold (time_reverse r).
  rewrite walk_snoc, endp_time_reverse, sval_negb. f_equal. f_equal. lia.
Qed.

(* ------------------------------------------------------------------ paths *)

(* the steps of a path *)
Fixpoint steps_of (p : list Z) : list bool :=
  match p with
  | x :: r => match r with
              | y :: _ => (x <? y)%Z :: steps_of r
              | [] => []
              end
  | [] => []
  end.

(* consecutive frames differ by exactly one lattice step *)
Fixpoint is_walkb (p : list Z) : bool :=
  match p with
  | x :: r => match r with
              | y :: _ => (Z.abs (y - x) =? 1)%Z && is_walkb r
              | [] => true
              end
  | [] => true
  end.

Lemma steps_of_length : forall p, length (steps_of p) = (length p - 1)%nat.
Proof.
  induction p as [|x r IH]; [reflexivity|]. destruct r as [|y r']; [reflexivity|].
  change (steps_of (x :: y :: r')) with ((x <? y)%Z :: steps_of (y :: r')).
  cbn [length] in *. rewrite IH. lia.
Qed.

Lemma steps_of_walk : forall s x, steps_of (walk x s) = s.
Proof.
  induction s as [|b r IH]; intros x; [reflexivity|].
  cbn [walk]. specialize (IH (x + sval b)%Z).
  destruct r as [|b' r'].
  - cbn. f_equal. destruct b; cbn [sval]; [apply Z.ltb_lt|apply Z.ltb_ge]; lia.
  - cbn [walk] in *. cbn [steps_of]. f_equal; [|exact IH].
    destruct b; cbn [sval]; [apply Z.ltb_lt|apply Z.ltb_ge]; lia.
Qed.

Lemma walk_steps_of : forall r x, is_walkb (x :: r) = true -> walk x (steps_of (x :: r)) = x :: r.
Proof.
  induction r as [|y r' IH]; intros x H; [reflexivity|].
  change (is_walkb (x :: y :: r')) with ((Z.abs (y - x) =? 1)%Z && is_walkb (y :: r')) in H.
  apply andb_true_iff in H. destruct H as [Hs Hr]. apply Z.eqb_eq in Hs.
  change (steps_of (x :: y :: r')) with ((x <? y)%Z :: steps_of (y :: r')).
  cbn [walk]. f_equal.
  replace (x + sval (x <? y)%Z)%Z with y; [apply IH; exact Hr|].
  destruct (Z.ltb_spec x y); cbn [sval]; lia.
Qed.

Lemma nth_walk : forall s x j, (j <= length s)%nat -> nth j (walk x s) 0%Z = endp x (firstn j s).
Proof.
  induction s as [|b r IH]; intros x j Hj.
  - cbn [length] in Hj. assert (j = O) by lia. subst j. reflexivity.
  - destruct j as [|j]; [reflexivity|]. cbn [walk nth firstn endp]. apply IH. cbn [length] in Hj. lia.
Qed.

(* ------------------------------------------------------------------ the trial path *)

(* shooting point x, backward steps bs (as drawn, i.e. in order of generation), forward steps fs:
   paste_paths(path_back reversed, path_forw, overlap=True) *)
Definition trial (x : Z) (bs fs : list bool) : list Z := rev (walk x bs) ++ tl (walk x fs).

Lemma trial_as_walk : forall x bs fs, trial x bs fs = walk (endp x bs) (time_reverse bs ++ fs).
Proof.
  intros x bs fs. unfold trial. rewrite rev_walk, walk_app, endp_time_reverse. reflexivity.
Qed.

Lemma trial_length : forall x bs fs, length (trial x bs fs) = (length bs + length fs + 1)%nat.
Proof.
  intros x bs fs. rewrite trial_as_walk, walk_length, app_length, time_reverse_length. lia.
Qed.

Lemma steps_of_trial : forall x bs fs, steps_of (trial x bs fs) = time_reverse bs ++ fs.
Proof. intros x bs fs. rewrite trial_as_walk. apply steps_of_walk. Qed.

Lemma firstn_len_app : forall {A} (l1 l2 : list A), firstn (length l1) (l1 ++ l2) = l1.
Proof. intros A l1 l2. induction l1 as [|a r IH]; cbn [length firstn app]; [reflexivity|]. rewrite IH. reflexivity. Qed.

Lemma skipn_len_app : forall {A} (l1 l2 : list A), skipn (length l1) (l1 ++ l2) = l2.
Proof. intros A l1 l2. induction l1 as [|a r IH]; cbn [length skipn app]; [reflexivity|]. exact IH. Qed.

(* the shooting point sits at index |bs| of the trial path (the code's generated[3]) *)
Lemma trial_shooting_point : forall x bs fs, nth (length bs) (trial x bs fs) 0%Z = x.
Proof.
  intros x bs fs. rewrite trial_as_walk, nth_walk by (rewrite app_length, time_reverse_length; lia).
  rewrite <- (time_reverse_length bs), firstn_len_app. apply endp_time_reverse.
Qed.

(* it is the trial path of C09_accept_rule (MovesP.trial_orders) for the engine streams that
   hold the frames after the shooting point *)
Lemma trial_is_C09_trial_orders : forall x bs fs,
  trial x bs fs = trial_orders x (tl (walk x bs)) (tl (walk x fs)) (length bs) (length fs).
Proof.
  intros x bs fs. unfold trial, trial_orders.
  assert (W : forall s, x :: tl (walk x s) = walk x s) by (intros [|b r]; reflexivity).
  rewrite !W, !firstn_all2 by (rewrite walk_length; lia). reflexivity.
Qed.

(* the steps a trial must consist of to produce path p with the shooting point at index j *)
Definition back_steps (p : list Z) (j : nat) : list bool := time_reverse (firstn j (steps_of p)).
Definition fwd_steps (p : list Z) (j : nat) : list bool := skipn j (steps_of p).

Theorem trial_reconstruct : forall p j, is_walkb p = true -> (j < length p)%nat ->
  trial (nth j p 0%Z) (back_steps p j) (fwd_steps p j) = p.
Proof.
  intros p j Hw Hj. destruct p as [|x r]; [cbn [length] in Hj; lia|].
  pose proof (walk_steps_of r x Hw) as E.
  assert (Hn : nth j (x :: r) 0%Z = endp x (firstn j (steps_of (x :: r)))).
  { rewrite <- E at 1. apply nth_walk. rewrite steps_of_length. lia. }
  rewrite trial_as_walk. unfold back_steps, fwd_steps.
  rewrite time_reverse_involutive, firstn_skipn, Hn, endp_time_reverse. exact E.
Qed.

(* ... and no other steps do *)
Theorem trial_unique : forall x bs fs p,
  trial x bs fs = p -> bs = back_steps p (length bs) /\ fs = fwd_steps p (length bs) /\
                       x = nth (length bs) p 0%Z.
Proof.
  intros x bs fs p E. subst p. unfold back_steps, fwd_steps. rewrite steps_of_trial.
  rewrite trial_shooting_point.
  rewrite <- (time_reverse_length bs).
  rewrite firstn_len_app, skipn_len_app, time_reverse_involutive. repeat split; reflexivity.
Qed.

Lemma back_fwd_length : forall p j, (j < length p)%nat ->
  length (back_steps p j) = j /\ (length (back_steps p j) + length (fwd_steps p j) = length p - 1)%nat.
Proof.
  intros p j Hj. unfold back_steps, fwd_steps.
  rewrite time_reverse_length, firstn_length, skipn_length, steps_of_length. lia.
Qed.

(* ------------------------------------------------------------------ the path ensemble *)

Definition insideb (N x : Z) : bool := (0 <? x)%Z && (x <? N)%Z.

Definition interior (p : list Z) : list Z := removelast (tl p).

(* p is a path of ensemble [k+]: see the header *)
Definition valid_pathb (N k : Z) (Lmax : nat) (p : list Z) : bool :=
  (3 <=? length p)%nat && (length p <=? Lmax)%nat && is_walkb p &&
  (hd 0%Z p <=? 0)%Z && negb (insideb N (last p 0%Z)) &&
  forallb (insideb N) (interior p) && existsb (fun x => (k <? x)%Z) p.

Lemma valid_unfold : forall N k Lmax p, valid_pathb N k Lmax p = true ->
  (3 <= length p <= Lmax)%nat /\ is_walkb p = true /\ (hd 0%Z p <= 0)%Z /\
  insideb N (last p 0%Z) = false /\ forallb (insideb N) (interior p) = true /\
  existsb (fun x => (k <? x)%Z) p = true.
Proof.
  intros N k Lmax p H. unfold valid_pathb in H.
  apply andb_true_iff in H. destruct H as [H Hex].
  apply andb_true_iff in H. destruct H as [H Hint].
  apply andb_true_iff in H. destruct H as [H Hlast].
  apply andb_true_iff in H. destruct H as [H Hhd].
  apply andb_true_iff in H. destruct H as [H Hw].
  apply andb_true_iff in H. destruct H as [H3 HLm].
  apply Nat.leb_le in H3. apply Nat.leb_le in HLm. apply Z.leb_le in Hhd.
  apply negb_true_iff in Hlast. repeat split; assumption.
Qed.

(* the first frame of a valid path is the lattice site 0 (so [k+] paths never see the wall) *)
Lemma valid_first_frame : forall N k Lmax p, valid_pathb N k Lmax p = true -> hd 0%Z p = 0%Z.
Proof.
  intros N k Lmax p H. apply valid_unfold in H. destruct H as ((HL & _) & Hw & Hh & _ & Hi & _).
  destruct p as [|x [|y [|z r]]]; cbn [length] in HL; try lia.
  cbn [hd] in *. cbn [interior tl removelast forallb] in Hi.
  change (is_walkb (x :: y :: z :: r)) with ((Z.abs (y - x) =? 1)%Z && is_walkb (y :: z :: r)) in Hw.
  apply andb_true_iff in Hw. destruct Hw as [Hs _]. apply Z.eqb_eq in Hs.
  apply andb_true_iff in Hi. destruct Hi as [Hy _]. unfold insideb in Hy.
  apply andb_true_iff in Hy. destruct Hy as [Hy _]. apply Z.ltb_lt in Hy. lia.
Qed.

(* trajectory weight given the first frame, for the walk with up-probability p *)
Definition pi_p (p : Q) (path : list Z) : Q := seq_prob p (steps_of path).
Definition pi (path : list Z) : Q := pi_p half path.

Lemma pi_pow : forall path, pi path == pow_half (length path - 1).
Proof. intros path. unfold pi, pi_p. rewrite seq_prob_half, steps_of_length. reflexivity. Qed.

Lemma pi_pos : forall path, 0 < pi path.
Proof. intros path. rewrite pi_pow. apply pow_half_pos. Qed.

(* ------------------------------------------------------------------ generation probability *)

Definition nq (n : nat) : Q := inject_Z (Z.of_nat n).

(* uniform choice among the L - 2 interior indices *)
Definition sel_prob (old : list Z) : Q := 1 / nq (length old - 2).

Definition gen_prob_p (p : Q) (old : list Z) (bs fs : list bool) : Q :=
  sel_prob old * seq_prob p bs * seq_prob p fs.
Definition gen_prob := gen_prob_p half.

(* the trial path as a trajectory: forward-time probability of its steps.  For a walk with bias
   p the backward part is generated with probability P_p(bs) but weighs P_{1-p}(bs) ... *)
Lemma pi_p_trial : forall p x bs fs, pi_p p (trial x bs fs) == seq_prob (1 - p) bs * seq_prob p fs.
Proof.
  intros p x bs fs. unfold pi_p. rewrite steps_of_trial, seq_prob_app, seq_prob_time_reverse.
  reflexivity.
Qed.

(* ... for the symmetric walk the two agree: the generation probability of the trial is the
   selection probability times the equilibrium weight of the new path *)
Theorem gen_prob_is_weight : forall old i bs fs,
  gen_prob old bs fs == sel_prob old * pi (trial (nth i old 0%Z) bs fs).
Proof.
  intros old i bs fs. unfold gen_prob, gen_prob_p, pi, pi_p.
  rewrite steps_of_trial, seq_prob_app, seq_prob_symmetric. ring.
Qed.

Corollary gen_prob_formula : forall old i bs fs,
  gen_prob old bs fs == 1 / nq (length old - 2) * pow_half (length (trial (nth i old 0%Z) bs fs) - 1).
Proof. intros old i bs fs. rewrite (gen_prob_is_weight old i), pi_pow. reflexivity. Qed.

(* ------------------------------------------------------------------ acceptance *)

(* n_old / n_new, the numbers of interior frames *)
Definition nratio (Lo Ln : nat) : Q := nq (Lo - 2) / nq (Ln - 2).

Lemma nq_pos : forall n, (0 < n)%nat -> 0 < nq n.
Proof. intros n H. unfold nq, Qlt. cbn. lia. Qed.

(* the same number in the form used by C09_accept_rule *)
Lemma nratio_C09_form : forall Lo Ln, (3 <= Ln)%nat ->
  nratio Lo Ln == (Z.of_nat Lo - 2) # Z.to_pos (Z.of_nat Ln - 2) \/ (Lo < 2)%nat.
Proof.
  intros Lo Ln HLn. destruct (le_lt_dec 2 Lo) as [H|H]; [left|right; exact H].
  unfold nratio, nq. rewrite Qmake_Qdiv, Z2Pos.id by lia.
  rewrite !Nat2Z.inj_sub by lia. reflexivity.
Qed.

(* the code's rule: the trial fits into maxlen = min(int((L_old - 2)/xi) + 2, maxlength)
   (MovesM.draw_maxlen is the model of that line of shoot) exactly when xi <= n_old/n_new *)
Theorem maxlen_rule : forall Lo Ln Lmax xi, 0 < xi -> (3 <= Lo)%nat -> (3 <= Ln)%nat ->
  ((Ln <= draw_maxlen Lo xi Lmax)%nat <-> (Ln <= Lmax)%nat /\ xi <= nratio Lo Ln).
Proof.
  intros Lo Ln Lmax xi Hxi HLo HLn.
  assert (Hnum : (0 < Qnum xi)%Z) by (unfold Qlt in Hxi; cbn in Hxi; lia).
  rewrite (draw_maxlen_ge Lo xi Lmax Ln Hnum) by lia.
  assert (E : xi <= nratio Lo Ln <->
              ((Z.of_nat Ln - 2) * Qnum xi <= (Z.of_nat Lo - 2) * Zpos (Qden xi))%Z).
  { unfold nratio. pose proof (nq_pos (Ln - 2) ltac:(lia)) as Hb. split.
    - intros H. apply (Qmult_le_compat_r _ _ (nq (Ln - 2))) in H; [|apply Qlt_le_weak; exact Hb].
      assert (H' : xi * nq (Ln - 2) <= nq (Lo - 2)).
      { eapply Qle_trans; [exact H|]. apply Qle_lteq. right. field. intros E0. rewrite E0 in Hb. discriminate. }
      unfold Qle, nq in H'. cbn in H'. rewrite !Nat2Z.inj_sub in H' by lia. cbn in H'. lia.
    - intros H. apply Qle_shift_div_l; [exact Hb|].
      unfold Qle, nq. cbn. rewrite !Nat2Z.inj_sub by lia. cbn. lia. }
  rewrite E. reflexivity.
Qed.

(* the selection: MovesM's model of rgen.integers(1, L - 1) driven by a uniform u in [0,1) returns
   the interior index i exactly for u in [(i-1)/(L-2), i/(L-2)), an interval of length 1/(L-2) *)
Theorem shooting_index_interval : forall u L i, (0 <= Qnum u)%Z -> (3 <= L)%nat -> (1 <= i)%nat ->
  (shooting_index u L = i <-> nq (i - 1) <= u * nq (L - 2) /\ u * nq (L - 2) < nq i).
Proof.
  intros u L i Hu HL Hi. unfold shooting_index, floor_mul.
  set (n := Z.of_nat (L - 2)). set (a := Qnum u). set (d := Zpos (Qden u)).
  assert (Hd : (0 < d)%Z) by (unfold d; lia).
  assert (Hn : (0 < n)%Z) by (unfold n; lia).
  assert (E : (nq (i - 1) <= u * nq (L - 2) /\ u * nq (L - 2) < nq i) <->
              (Z.of_nat (i - 1) * d <= a * n /\ a * n < Z.of_nat i * d)%Z).
  { unfold Qle, Qlt, nq. cbn. rewrite !Pos.mul_1_r, !Z.mul_1_r. reflexivity. }
  rewrite E. clear E.
  assert (Ha : (0 <= a)%Z) by exact Hu.
  set (m := Z.of_nat (i - 1)).
  assert (Hm : Z.of_nat i = (m + 1)%Z) by (unfold m; lia).
  assert (Hm0 : (0 <= m)%Z) by (unfold m; lia).
  rewrite Hm.
  assert (Hq : (0 <= a * n / d)%Z) by (apply Z.div_pos; [apply Z.mul_nonneg_nonneg; lia|exact Hd]).
  pose proof (Z.mul_div_le (a * n) d Hd) as L1.
  pose proof (Z.mul_succ_div_gt (a * n) d Hd) as L2.
  assert (Ei : S (Z.to_nat (a * n / d)) = i <-> (a * n / d = m)%Z) by (unfold m; lia).
  rewrite Ei. clear Ei Hm. clearbody m n a d.
  split.
  - intros Eq. rewrite Eq in L1, L2. lia.
  - intros [H1 H2]. symmetry. apply (Z.div_unique (a * n) d m (a * n - d * m)); lia.
Qed.

(* the trial [new] is accepted for the drawn number xi *)
Definition accepted (N k : Z) (Lmax : nat) (old new : list Z) (xi : Q) : Prop :=
  valid_pathb N k Lmax new = true /\ (length new <= draw_maxlen (length old) xi Lmax)%nat.

(* acceptance probability: 0 for an invalid trial, else min(1, n_old/n_new) *)
Definition acc_prob (N k : Z) (Lmax : nat) (old new : list Z) : Q :=
  if valid_pathb N k Lmax new then Qmin 1 (nratio (length old) (length new)) else 0.

(* the accepted xi in (0,1] are exactly the interval (0, acc_prob]: its measure is acc_prob *)
Theorem accepted_iff_interval : forall N k Lmax old new xi,
  (3 <= length old)%nat -> 0 < xi -> xi <= 1 ->
  (accepted N k Lmax old new xi <-> xi <= acc_prob N k Lmax old new).
Proof.
  intros N k Lmax old new xi HLo Hxi Hxi1. unfold accepted, acc_prob.
  destruct (valid_pathb N k Lmax new) eqn:Hv.
  - apply valid_unfold in Hv. destruct Hv as ((HLn & HLm) & _).
    rewrite (maxlen_rule (length old) (length new) Lmax xi Hxi HLo HLn). split.
    + intros (_ & _ & H). apply Q.min_glb; assumption.
    + intros H. split; [reflexivity|]. split; [exact HLm|].
      eapply Qle_trans; [exact H|apply Q.le_min_r].
  - split.
    + intros (H & _). discriminate.
    + intros H. exfalso. apply (Qlt_irrefl 0). eapply Qlt_le_trans; [exact Hxi|exact H].
Qed.

Lemma acc_prob_range : forall N k Lmax old new,
  (3 <= length old)%nat -> 0 <= acc_prob N k Lmax old new <= 1.
Proof.
  intros N k Lmax old new HLo. unfold acc_prob. destruct (valid_pathb N k Lmax new) eqn:Hv.
  - apply valid_unfold in Hv. destruct Hv as ((HLn & _) & _). split; [|apply Q.le_min_l].
    apply Q.min_glb; [discriminate|]. unfold nratio, Qdiv. apply Qmult_le_0_compat.
    + apply Qlt_le_weak, nq_pos. lia.
    + apply Qinv_le_0_compat, Qlt_le_weak, nq_pos. lia.
  - split; discriminate.
Qed.

(* ------------------------------------------------------------------ super-detailed balance *)

Lemma sel_acc_sym : forall a b, 0 < a -> 0 < b -> 1 / a * Qmin 1 (a / b) == 1 / b * Qmin 1 (b / a).
Proof.
  intros a b Ha Hb.
  assert (Na : ~ a == 0) by (intros E; rewrite E in Ha; discriminate).
  assert (Nb : ~ b == 0) by (intros E; rewrite E in Hb; discriminate).
  destruct (Qlt_le_dec a b) as [Hlt|Hle].
  - assert (E1 : a / b <= 1). { apply Qle_shift_div_r; [exact Hb|]. rewrite Qmult_1_l. now apply Qlt_le_weak. }
    assert (E2 : 1 <= b / a). { apply Qle_shift_div_l; [exact Ha|]. rewrite Qmult_1_l. now apply Qlt_le_weak. }
    rewrite (Q.min_r _ _ E1), (Q.min_l _ _ E2). field. split; assumption.
  - assert (E1 : 1 <= a / b). { apply Qle_shift_div_l; [exact Hb|]. now rewrite Qmult_1_l. }
    assert (E2 : b / a <= 1). { apply Qle_shift_div_r; [exact Ha|]. now rewrite Qmult_1_l. }
    rewrite (Q.min_l _ _ E1), (Q.min_r _ _ E2). field. split; assumption.
Qed.

(* interior indices: what rgen.integers(1, L - 1) can return *)
Definition interior_idx (p : list Z) : list nat := seq 1 (length p - 2).

Lemma interior_idx_spec : forall p i, In i (interior_idx p) <-> (1 <= i <= length p - 2)%nat.
Proof. intros p i. unfold interior_idx. rewrite in_seq. lia. Qed.

Section Balance.
  Variables (N k : Z) (Lmax : nat).
  Variables (old new : list Z) (i j : nat).
  Hypothesis Vold : valid_pathb N k Lmax old = true.
  Hypothesis Vnew : valid_pathb N k Lmax new = true.
  Hypothesis Hi : (1 <= i <= length old - 2)%nat.
  Hypothesis Hj : (1 <= j <= length new - 2)%nat.
  (* the two paths share the shooting point *)
  Hypothesis Hshare : nth i old 0%Z = nth j new 0%Z.

  Let bs := back_steps new j.
  Let fs := fwd_steps new j.
  Let bs' := back_steps old i.
  Let fs' := fwd_steps old i.

  (* shooting from old at i with the steps of new produces new, and vice versa *)
  Lemma shoot_reaches_new : trial (nth i old 0%Z) bs fs = new.
  Proof.
    rewrite Hshare. apply trial_reconstruct; [|lia].
    apply valid_unfold in Vnew. apply Vnew.
  Qed.

  Lemma shoot_reaches_old : trial (nth j new 0%Z) bs' fs' = old.
  Proof.
    rewrite <- Hshare. apply trial_reconstruct; [|lia].
    apply valid_unfold in Vold. apply Vold.
  Qed.

  Lemma gen_forward : gen_prob old bs fs == sel_prob old * pi new.
  Proof. rewrite (gen_prob_is_weight old i), shoot_reaches_new. reflexivity. Qed.

  Lemma gen_backward : gen_prob new bs' fs' == sel_prob new * pi old.
  Proof. rewrite (gen_prob_is_weight new j), shoot_reaches_old. reflexivity. Qed.

  Lemma lengths_ok : (3 <= length old)%nat /\ (3 <= length new)%nat.
  Proof.
    apply valid_unfold in Vold. apply valid_unfold in Vnew. split; [apply Vold|apply Vnew].
  Qed.

  (* the acceptance probability the code realises is the Metropolis-Hastings acceptance
     min(1, flow(new -> old) / flow(old -> new)) for the flows pi * g *)
  Theorem acc_is_metropolis_hastings :
    acc_prob N k Lmax old new ==
    mh_acc (pi old * gen_prob old bs fs) (pi new * gen_prob new bs' fs').
  Proof.
    destruct lengths_ok as [Lo Ln].
    unfold acc_prob, mh_acc. rewrite Vnew. apply Q.min_compat; [reflexivity|].
    rewrite gen_forward, gen_backward. unfold sel_prob, nratio.
    pose proof (pi_pos old) as Po. pose proof (pi_pos new) as Pn.
    pose proof (nq_pos (length old - 2) ltac:(lia)) as Qo.
    pose proof (nq_pos (length new - 2) ltac:(lia)) as Qn.
    field. repeat split; intros E; rewrite E in *; discriminate.
  Qed.

  Theorem shooting_super_detailed_balance :
    trial (nth i old 0%Z) bs fs = new /\ trial (nth j new 0%Z) bs' fs' = old /\
    pi old * gen_prob old bs fs * acc_prob N k Lmax old new ==
    pi new * gen_prob new bs' fs' * acc_prob N k Lmax new old.
  Proof.
    split; [exact shoot_reaches_new|]. split; [exact shoot_reaches_old|].
    destruct lengths_ok as [Lo Ln].
    rewrite gen_forward, gen_backward. unfold acc_prob. rewrite Vold, Vnew. unfold sel_prob, nratio.
    pose proof (sel_acc_sym (nq (length old - 2)) (nq (length new - 2))
                  (nq_pos (length old - 2) ltac:(lia)) (nq_pos (length new - 2) ltac:(lia))) as S.
    transitivity (pi old * pi new * (1 / nq (length old - 2) *
                    Qmin 1 (nq (length old - 2) / nq (length new - 2)))); [ring|].
    rewrite S. ring.
  Qed.
End Balance.

(* ------------------------------------------------------------------ detailed balance of the move *)

(* transition density old -> new of the shooting move: sum over the shooting index i of old and
   over the position j the shooting point takes in new (distinct (i, j) are distinct trials:
   trial_unique) *)
Definition move_density (N k : Z) (Lmax : nat) (old new : list Z) : Q :=
  sumq (fun i => sumq (fun j =>
      if (nth i old 0 =? nth j new 0)%Z
      then gen_prob old (back_steps new j) (fwd_steps new j) * acc_prob N k Lmax old new
      else 0) (interior_idx new)) (interior_idx old).

Theorem shooting_detailed_balance : forall N k Lmax old new,
  valid_pathb N k Lmax old = true -> valid_pathb N k Lmax new = true ->
  pi old * move_density N k Lmax old new == pi new * move_density N k Lmax new old.
Proof.
  intros N k Lmax old new Vo Vn. unfold move_density.
  etransitivity; [apply sumq_scale2|].
  symmetry. etransitivity; [apply sumq_scale2|]. etransitivity; [apply sumq_swap|].
  apply sumq_ext. intros i Hi. apply sumq_ext. intros j Hj.
  apply interior_idx_spec in Hi. apply interior_idx_spec in Hj.
  rewrite (Z.eqb_sym (nth j new 0%Z)).
  destruct (Z.eqb_spec (nth i old 0%Z) (nth j new 0%Z)) as [E|_]; [|ring].
  destruct (shooting_super_detailed_balance N k Lmax old new i j Vo Vn Hi Hj E) as (_ & _ & B).
  rewrite !Qmult_assoc. symmetry. exact B.
Qed.

(* ------------------------------------------------------------------ detailed balance => stationarity *)

Section Stationary.
  Variable A : Type.
  Variable eqb : A -> A -> bool.
  Hypothesis eqb_spec : forall x y, reflect (x = y) (eqb x y).
  Variable w : A -> Q.               (* the distribution *)
  Variable K : A -> A -> Q.          (* off-diagonal transition probabilities *)
  Variable S : list A.               (* the (finite) state space *)
  Hypothesis S_nodup : NoDup S.
  Hypothesis DB : forall x y, In x S -> In y S -> w x * K x y == w y * K y x.

  (* the chain: move to y <> x with probability K x y, stay otherwise *)
  Definition chain (x y : A) : Q :=
    if eqb x y then 1 - sumq (fun z => if eqb x z then 0 else K x z) S else K x y.

  Lemma sumq_single : forall (f : A -> Q) y l, NoDup l -> In y l ->
    sumq (fun x => if eqb x y then f x else 0) l == f y.
  Proof.
    intros f y l HN. induction HN as [|x l Hx HN IH]; intros Hy; [destruct Hy|].
    cbn [sumq]. destruct Hy as [E|Hy].
    - subst x. destruct (eqb_spec y y) as [_|NE]; [|contradiction].
      rewrite (sumq_ext _ (fun _ => 0)).
      + rewrite sumq_zero. ring.
      + intros z Hz. destruct (eqb_spec z y) as [E|_]; [subst z; contradiction|reflexivity].
    - rewrite (IH Hy). destruct (eqb_spec x y) as [E|_]; [subst x; contradiction|ring].
  Qed.

  Theorem detailed_balance_stationary : forall y, In y S ->
    sumq (fun x => w x * chain x y) S == w y.
  Proof.
    intros y Hy.
    set (R := sumq (fun z => if eqb y z then 0 else K y z) S).
    transitivity (sumq (fun x => (if eqb x y then w x * (1 - R) else 0)
                                 + w y * (if eqb y x then 0 else K y x)) S).
    - apply sumq_ext. intros x Hx. unfold chain.
      destruct (eqb_spec x y) as [E|NE].
      + subst x. destruct (eqb_spec y y) as [_|NE]; [|contradiction]. fold R. ring.
      + destruct (eqb_spec y x) as [E|_]; [subst x; contradiction|].
        rewrite (DB x y Hx Hy). ring.
    - rewrite sumq_plus, (sumq_single (fun x => w x * (1 - R)) y S S_nodup Hy), sumq_scale.
      fold R. ring.
  Qed.
End Stationary.

Definition path_eqb (p q : list Z) : bool := if list_eq_dec Z.eq_dec p q then true else false.

Lemma path_eqb_spec : forall p q, reflect (p = q) (path_eqb p q).
Proof. intros p q. unfold path_eqb. destruct (list_eq_dec Z.eq_dec p q); constructor; assumption. Qed.

(* pi restricted to any finite set S of valid paths is stationary under the shooting move
   (rejected trials and trials leaving S keep the old path).  The valid paths of an ensemble
   form such a finite set: length <= maxlength and frames in [0, N] ([valid_frames_range]). *)
Theorem shooting_stationary : forall N k Lmax S new,
  NoDup S -> (forall p, In p S -> valid_pathb N k Lmax p = true) -> In new S ->
  sumq (fun old => pi old * chain (list Z) path_eqb (move_density N k Lmax) S old new) S == pi new.
Proof.
  intros N k Lmax S new HN HV Hin.
  apply (detailed_balance_stationary (list Z) path_eqb path_eqb_spec pi (move_density N k Lmax) S HN);
    [|exact Hin].
  intros x y Hx Hy. apply shooting_detailed_balance; apply HV; assumption.
Qed.

(* all frames of a valid path lie in [0, N] *)
Lemma valid_frames_range : forall N k Lmax p x, (0 < N)%Z ->
  valid_pathb N k Lmax p = true -> In x p -> (0 <= x <= N)%Z.
Proof.
  intros N k Lmax p x HN0 Hv. pose proof (valid_first_frame N k Lmax p Hv) as H0.
  apply valid_unfold in Hv. destruct Hv as ((HL & _) & Hw & _ & Hlast & Hint & _).
  destruct p as [|x0 r]; [cbn [length] in HL; lia|]. cbn [hd] in H0. subst x0.
  destruct (exists_last (l := r)) as (m & xl & Er); [intros E; subst r; cbn [length] in HL; lia|].
  subst r. intros Hin.
  assert (Hm : forall y, In y m -> (0 < y < N)%Z).
  { intros y Hy. unfold interior in Hint. cbn [tl] in Hint. rewrite removelast_last in Hint.
    rewrite forallb_forall in Hint. specialize (Hint y Hy). unfold insideb in Hint.
    apply andb_true_iff in Hint. destruct Hint as [H1 H2]. apply Z.ltb_lt in H1. apply Z.ltb_lt in H2. lia. }
  (* the last frame is one step from an interior frame *)
  assert (Hxl : (0 <= xl <= N)%Z).
  { destruct (exists_last (l := m)) as (m' & y & Em); [intros E; subst m; cbn [length app] in HL; lia|].
    subst m. specialize (Hm y ltac:(apply in_or_app; right; left; reflexivity)).
    assert (Hstep : (Z.abs (xl - y) = 1)%Z).
    { clear - Hw. revert Hw. generalize 0%Z as a. induction m' as [|b m' IH]; intros a Hw.
      - cbn in Hw. apply andb_true_iff in Hw. destruct Hw as [_ Hw].
        apply andb_true_iff in Hw. destruct Hw as [Hw _]. apply Z.eqb_eq in Hw. exact Hw.
      - apply (IH b). cbn [app] in Hw.
        change (is_walkb (a :: b :: (m' ++ [y]) ++ [xl]))
          with ((Z.abs (b - a) =? 1)%Z && is_walkb (b :: (m' ++ [y]) ++ [xl])) in Hw.
        apply andb_true_iff in Hw. apply Hw. }
    lia. }
  destruct Hin as [E|Hin]; [lia|]. apply in_app_or in Hin. destruct Hin as [Hin|[E|[]]].
  - specialize (Hm x Hin). lia.
  - lia.
Qed.

(* ------------------------------------------------------------------ example *)

(* ensemble [1+] of a lattice with N = 4: interfaces (1/2, 3/2, 7/2) *)
Definition ex_old : list Z := [0; 1; 2; 1; 0]%Z.
Definition ex_new : list Z := [0; 1; 2; 3; 2; 1; 0]%Z.

Example ex_valid : valid_pathb 4 1 400 ex_old = true /\ valid_pathb 4 1 400 ex_new = true.
Proof. split; vm_compute; reflexivity. Qed.

(* shared shooting point 2 = ex_old[2] = ex_new[2]: backward steps -1 -1, forward +1 -1 -1 -1 *)
Example ex_trial :
  back_steps ex_new 2 = [false; false] /\ fwd_steps ex_new 2 = [true; false; false; false] /\
  trial 2 [false; false] [true; false; false; false] = ex_new /\
  trial 2 (back_steps ex_old 2) (fwd_steps ex_old 2) = ex_old.
Proof. repeat split; reflexivity. Qed.

Example ex_values :
  pi ex_old == 1 # 16 /\ pi ex_new == 1 # 64 /\
  gen_prob ex_old (back_steps ex_new 2) (fwd_steps ex_new 2) == 1 # 192 /\
  gen_prob ex_new (back_steps ex_old 2) (fwd_steps ex_old 2) == 1 # 80 /\
  acc_prob 4 1 400 ex_old ex_new == 3 # 5 /\ acc_prob 4 1 400 ex_new ex_old == 1.
Proof. repeat split; vm_compute; reflexivity. Qed.

Example ex_super_detailed_balance :
  pi ex_old * gen_prob ex_old (back_steps ex_new 2) (fwd_steps ex_new 2) * acc_prob 4 1 400 ex_old ex_new ==
  pi ex_new * gen_prob ex_new (back_steps ex_old 2) (fwd_steps ex_old 2) * acc_prob 4 1 400 ex_new ex_old.
Proof.
  apply (shooting_super_detailed_balance 4 1 400 ex_old ex_new 2 2);
    try (vm_compute; reflexivity); cbn; lia.
Qed.

(* both sides are 1/5120; the move density sums the two shared points (index pairs (2,2), (2,4)) *)
Example ex_flow : pi ex_old * gen_prob ex_old (back_steps ex_new 2) (fwd_steps ex_new 2)
                  * acc_prob 4 1 400 ex_old ex_new == 1 # 5120.
Proof. vm_compute. reflexivity. Qed.

(* the six index pairs (1,1) (1,5) (2,2) (2,4) (3,1) (3,5) share a shooting point:
   6 * 1/3 * 1/64 * 3/5; the reverse density is 6 * 1/5 * 1/16 * 1 *)
Example ex_move_density :
  move_density 4 1 400 ex_old ex_new == 3 # 160 /\ move_density 4 1 400 ex_new ex_old == 3 # 40 /\
  pi ex_old * move_density 4 1 400 ex_old ex_new == pi ex_new * move_density 4 1 400 ex_new ex_old.
Proof. split; [vm_compute; reflexivity|]. split; [vm_compute; reflexivity|].
  apply shooting_detailed_balance; vm_compute; reflexivity. Qed.

(* the accepted xi for this trial: xi = 3/5 is accepted, xi = 2/3 is not (maxlen = 6 < 7) *)
Example ex_accept : accepted 4 1 400 ex_old ex_new (3 # 5) /\ ~ accepted 4 1 400 ex_old ex_new (2 # 3).
Proof.
  split.
  - apply accepted_iff_interval; [cbn; lia|reflexivity|discriminate|vm_compute; discriminate].
  - intros H. apply accepted_iff_interval in H; [|cbn; lia|reflexivity|discriminate].
    vm_compute in H. apply H. reflexivity.
Qed.

(* ------------------------------------------------------------------ what would NOT balance *)

(* the super-detailed-balance equation for an arbitrary selection probability sel(L) and
   acceptance probability acc(L_old, L_new) of valid trials *)
Definition balance_with (sel : nat -> Q) (acc : nat -> nat -> Q) (old new : list Z) (i j : nat) : Prop :=
  pi old * (sel (length old) * seq_prob half (back_steps new j) * seq_prob half (fwd_steps new j))
         * acc (length old) (length new) ==
  pi new * (sel (length new) * seq_prob half (back_steps old i) * seq_prob half (fwd_steps old i))
         * acc (length new) (length old).

Definition sel_code (L : nat) : Q := 1 / nq (L - 2).
Definition acc_code (Lo Ln : nat) : Q := Qmin 1 (nratio Lo Ln).

(* the code's pair (sel, acc) balances every pair of valid paths (the theorem above) *)
Theorem code_rule_balances : forall N k Lmax old new i j,
  valid_pathb N k Lmax old = true -> valid_pathb N k Lmax new = true ->
  (1 <= i <= length old - 2)%nat -> (1 <= j <= length new - 2)%nat ->
  nth i old 0%Z = nth j new 0%Z ->
  balance_with sel_code acc_code old new i j.
Proof.
  intros N k Lmax old new i j Vo Vn Hi Hj E.
  destruct (shooting_super_detailed_balance N k Lmax old new i j Vo Vn Hi Hj E) as (_ & _ & B).
  unfold acc_prob in B. rewrite Vo, Vn in B. exact B.
Qed.

(* Variants, each refuted on the example pair (n_old = 3, n_new = 5):
   (a) no length rule: accept every valid trial -- shoot's branch for a path loaded from disk
       (move 'ld') and for allowmaxlength = true, where maxlen = maxlength *)
Theorem no_length_rule_breaks_balance :
  ~ balance_with sel_code (fun _ _ => 1) ex_old ex_new 2 2.
Proof. vm_compute. discriminate. Qed.

(* (b) the rule before the add_to_path repair (C09_accept_rule_before_repair, lead L11):
       xi <= n_old / (n_new + 1) *)
Theorem rule_before_repair_breaks_balance :
  ~ balance_with sel_code (fun Lo Ln => Qmin 1 (nq (Lo - 2) / nq (Ln - 2 + 1))) ex_old ex_new 2 2.
Proof. vm_compute. discriminate. Qed.

(* (c) L instead of L - 2 in the length rule (maxlen = int(L_old / xi)), index still interior *)
Theorem rule_with_L_breaks_balance :
  ~ balance_with sel_code (fun Lo Ln => Qmin 1 (nq Lo / nq Ln)) ex_old ex_new 2 2.
Proof. vm_compute. discriminate. Qed.

(* (d) L - 2 in the length rule but the shooting index uniform over all L frames *)
Theorem index_over_all_frames_breaks_balance :
  ~ balance_with (fun L => 1 / nq L) acc_code ex_old ex_new 2 2.
Proof. vm_compute. discriminate. Qed.

(* ------------------------------------------------------------------ the whole state space *)

(* every valid path is the walk from site 0 along at most maxlength - 1 steps: the state space of
   an ensemble is finite and can be listed *)
Fixpoint bool_lists (n : nat) : list (list bool) :=
  match n with
  | O => [[]]
  | S m => map (cons true) (bool_lists m) ++ map (cons false) (bool_lists m)
  end.

Fixpoint steps_upto (n : nat) : list (list bool) :=
  match n with
  | O => [[]]
  | S m => steps_upto m ++ bool_lists (S m)
  end.

Definition all_valid (N k : Z) (Lmax : nat) : list (list Z) :=
  filter (valid_pathb N k Lmax) (map (walk 0%Z) (steps_upto Lmax)).

Lemma NoDup_app_disj : forall {A} (l1 l2 : list A),
  NoDup l1 -> NoDup l2 -> (forall x, In x l1 -> ~ In x l2) -> NoDup (l1 ++ l2).
Proof.
  intros A l1 l2 H1 H2 HD. induction H1 as [|x l1 Hx H1 IH]; cbn [app]; [exact H2|].
  constructor.
  - rewrite in_app_iff. intros [Hin|Hin]; [exact (Hx Hin)|].
    exact (HD x (or_introl eq_refl) Hin).
  - apply IH. intros y Hy. apply HD. right. exact Hy.
Qed.

Lemma NoDup_map_injective : forall {A B} (f : A -> B) l,
  (forall x y, f x = f y -> x = y) -> NoDup l -> NoDup (map f l).
Proof.
  intros A B f l Hinj HN. induction HN as [|x l Hx HN IH]; cbn [map]; constructor; [|exact IH].
  intros Hin. apply in_map_iff in Hin. destruct Hin as (y & Hy & Hyl).
  apply Hinj in Hy. subst y. exact (Hx Hyl).
Qed.

Lemma in_bool_lists : forall n s, In s (bool_lists n) <-> length s = n.
Proof.
  induction n as [|m IH]; intros s; cbn [bool_lists].
  - split; [intros [E|[]]; subst s; reflexivity|]. intros H. left. destruct s; [reflexivity|discriminate].
  - rewrite in_app_iff, !in_map_iff. split.
    + intros [(t & Et & Ht)|(t & Et & Ht)]; subst s; cbn [length]; f_equal; apply IH; exact Ht.
    + intros H. destruct s as [|b t]; [discriminate|]. cbn [length] in H.
      assert (Ht : In t (bool_lists m)) by (apply IH; lia).
      destruct b; [left|right]; exists t; split; [reflexivity|exact Ht|reflexivity|exact Ht].
Qed.

Lemma NoDup_bool_lists : forall n, NoDup (bool_lists n).
Proof.
  induction n as [|m IH]; cbn [bool_lists]; [repeat constructor; intros []|].
  apply NoDup_app_disj.
  - apply NoDup_map_injective; [intros x y E; injection E as E; exact E|exact IH].
  - apply NoDup_map_injective; [intros x y E; injection E as E; exact E|exact IH].
  - intros s H1 H2. apply in_map_iff in H1. apply in_map_iff in H2.
    destruct H1 as (t & Et & _). destruct H2 as (t' & Et' & _). subst s. discriminate.
Qed.

Lemma in_steps_upto : forall n s, In s (steps_upto n) <-> (length s <= n)%nat.
Proof.
  induction n as [|m IH]; intros s; cbn [steps_upto].
  - split; [intros [E|[]]; subst s; cbn; lia|]. intros H. left. destruct s; [reflexivity|cbn in H; lia].
  - rewrite in_app_iff, IH, in_bool_lists. lia.
Qed.

Lemma NoDup_steps_upto : forall n, NoDup (steps_upto n).
Proof.
  induction n as [|m IH]; cbn [steps_upto]; [repeat constructor; intros []|].
  apply NoDup_app_disj; [exact IH|apply NoDup_bool_lists|].
  intros s H1 H2. apply in_steps_upto in H1. apply in_bool_lists in H2. lia.
Qed.

Theorem all_valid_spec : forall N k Lmax p,
  In p (all_valid N k Lmax) <-> valid_pathb N k Lmax p = true.
Proof.
  intros N k Lmax p. unfold all_valid. rewrite filter_In. split; [intros [_ H]; exact H|].
  intros Hv. split; [|exact Hv]. apply in_map_iff. exists (steps_of p).
  pose proof (valid_first_frame N k Lmax p Hv) as H0.
  apply valid_unfold in Hv. destruct Hv as ((HL & HLm) & Hw & _).
  destruct p as [|x r]; [cbn [length] in HL; lia|]. cbn [hd] in H0. subst x. split.
  - apply walk_steps_of. exact Hw.
  - apply in_steps_upto. rewrite steps_of_length. lia.
Qed.

Theorem all_valid_NoDup : forall N k Lmax, NoDup (all_valid N k Lmax).
Proof.
  intros N k Lmax. unfold all_valid. apply NoDup_filter. apply NoDup_map_injective.
  - intros s t E. rewrite <- (steps_of_walk s 0%Z), <- (steps_of_walk t 0%Z), E. reflexivity.
  - apply NoDup_steps_upto.
Qed.

(* pi, restricted to the valid paths of the ensemble, is stationary for the chain "shoot; keep the
   old path unless the trial is accepted" on the whole state space *)
Theorem shooting_stationary_full : forall N k Lmax new,
  valid_pathb N k Lmax new = true ->
  sumq (fun old => pi old * chain (list Z) path_eqb (move_density N k Lmax) (all_valid N k Lmax) old new)
       (all_valid N k Lmax) == pi new.
Proof.
  intros N k Lmax new Hv. apply shooting_stationary.
  - apply all_valid_NoDup.
  - intros p Hp. apply all_valid_spec. exact Hp.
  - apply all_valid_spec. exact Hv.
Qed.

(* the state space of the example ensemble with paths of at most 7 frames *)
Example ex_all_valid :
  all_valid 4 1 7 = [[0; 1; 2; 3; 4]; [0; 1; 2; 1; 0]; [0; 1; 2; 3; 2; 3; 4]; [0; 1; 2; 3; 2; 1; 0];
                     [0; 1; 2; 1; 2; 3; 4]; [0; 1; 2; 1; 2; 1; 0]]%Z.
Proof. vm_compute. reflexivity. Qed.

(* probability of leaving ex_old in that ensemble (an exhaustive enumeration of the algorithm in
   exact arithmetic, outside Coq, gives the same 11/80 and the same 3/160 above) *)
Example ex_leave_probability :
  sumq (fun new => if path_eqb ex_old new then 0 else move_density 4 1 7 ex_old new) (all_valid 4 1 7)
  == 11 # 80.
Proof. vm_compute. reflexivity. Qed.

(* ------------------------------------------------------------------ deviations of the real program
   (none of them changes the rule; they are the distance between the program and this model)
   - xi = rgen.random() is a double in [0, 1), not a real in (0, 1]: xi = 0 (probability 2^-53)
     raises ZeroDivisionError (MovesM.shoot: error); P(xi <= a) differs from a by at most 2^-53,
     and (L_old - 2)/xi is rounded before int().
   - maxlength truncates the ensemble: trials longer than maxlength are rejected, so the
     stationary distribution is pi restricted to L <= maxlength (part of [valid_pathb] here).
   - a path loaded from disk (move 'ld') or allowmaxlength = true uses maxlen = maxlength: no
     length rule, no detailed balance for that one move (no_length_rule_breaks_balance; the
     code's own comment says so).
   - the rule holds for the add_to_path of /repo as it is now; before the repair (lead L11) it
     was xi <= n_old/(n_new + 1) (rule_before_repair_breaks_balance). *)

Print Assumptions seq_prob_symmetric.
Print Assumptions gen_prob_is_weight.
Print Assumptions trial_reconstruct.
Print Assumptions trial_unique.
Print Assumptions maxlen_rule.
Print Assumptions shooting_index_interval.
Print Assumptions accepted_iff_interval.
Print Assumptions acc_is_metropolis_hastings.
Print Assumptions shooting_super_detailed_balance.
Print Assumptions shooting_detailed_balance.
Print Assumptions shooting_stationary.
Print Assumptions valid_frames_range.
Print Assumptions code_rule_balances.
Print Assumptions all_valid_spec.
Print Assumptions shooting_stationary_full.
