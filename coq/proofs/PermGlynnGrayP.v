(* The Gray-code loop fast_glynn_perm (model/PermM.v) returns the permanent for every size:
   consecutive Gray codes b xor (b >> 1) differ in exactly one bit, so the loop maintains
   the signed row combination and the sign product of the current code; the codes of
   0 .. 2^k - 1 enumerate all sign vectors of length k; the resulting sum is the sum SS of
   proofs/PermGlynnGenP.v (last row with fixed sign +1), which is 2^k * perm. *)
From Coq Require Import ZArith NArith QArith Qabs List Bool Arith Lia Setoid Morphisms.
From Inf Require Import model.PermM spec.PermS proofs.PermSpecP proofs.PermGlynnP proofs.PermGlynnGenP.
Import ListNotations.
Open Scope Q_scope.

(* ------------------------------------------------------------------ *)
(* bits of the Gray code                                                *)

Definition gray (b : N) : N := N.lxor b (N.div2 b).

Lemma gray_bit : forall y i,
  N.testbit (gray y) i = xorb (N.testbit y i) (N.testbit y (N.succ i)).
Proof.
  intros y i. unfold gray. rewrite N.lxor_spec. rewrite N.div2_spec, N.shiftr_spec'.
  rewrite N.add_1_r. reflexivity.
Qed.

Lemma gray_even_0 : forall x, N.testbit (gray (2 * x)) 0 = N.testbit x 0.
Proof.
  intros x. rewrite gray_bit. rewrite N.testbit_even_0.
  rewrite N.testbit_even_succ by apply N.le_0_l. apply xorb_false_l.
Qed.

Lemma gray_odd_0 : forall x, N.testbit (gray (2 * x + 1)) 0 = negb (N.testbit x 0).
Proof.
  intros x. rewrite gray_bit. rewrite N.testbit_odd_0.
  rewrite N.testbit_odd_succ by apply N.le_0_l. apply xorb_true_l.
Qed.

Lemma gray_even_succ : forall x i,
  N.testbit (gray (2 * x)) (N.succ i) = N.testbit (gray x) i.
Proof.
  intros x i. rewrite !gray_bit. rewrite !N.testbit_even_succ by apply N.le_0_l. reflexivity.
Qed.

Lemma gray_odd_succ : forall x i,
  N.testbit (gray (2 * x + 1)) (N.succ i) = N.testbit (gray x) i.
Proof.
  intros x i. rewrite !gray_bit. rewrite !N.testbit_odd_succ by apply N.le_0_l. reflexivity.
Qed.

(* b differs from a in bit idx only *)
Definition flips (a b idx : N) : Prop :=
  forall i, N.testbit b i = xorb (N.testbit a i) (N.eqb i idx).

Definition gray_step_at (y : N) : Prop :=
  exists idx, (forall k, (y + 1 <= 2 ^ k)%N -> (idx <= k)%N) /\ flips (gray y) (gray (y + 1)) idx.

Lemma gray_step_even : forall x, gray_step_at (2 * x).
Proof.
  intros x. exists 0%N. split.
  - intros k _. apply N.le_0_l.
  - intros i. destruct (N.zero_or_succ i) as [E | (j & E)]; subst i.
    + rewrite gray_odd_0, gray_even_0. cbn. destruct (N.testbit x 0); reflexivity.
    + rewrite gray_odd_succ, gray_even_succ.
      destruct (N.eqb_spec (N.succ j) 0); [lia|]. rewrite xorb_false_r. reflexivity.
Qed.

Lemma gray_step_odd : forall x, gray_step_at x -> gray_step_at (2 * x + 1).
Proof.
  intros x (idx & Hb & Hf). exists (N.succ idx). split.
  - intros k Hk. destruct (N.zero_or_succ k) as [E | (k' & E)]; subst k.
    + cbn in Hk. lia.
    + rewrite N.pow_succ_r' in Hk. assert (idx <= k')%N by (apply Hb; lia). lia.
  - replace (2 * x + 1 + 1)%N with (2 * (x + 1))%N by lia.
    intros i. destruct (N.zero_or_succ i) as [E | (j & E)]; subst i.
    + rewrite gray_even_0, gray_odd_0.
      destruct (N.eqb_spec 0 (N.succ idx)); [lia|]. rewrite xorb_false_r.
      rewrite N.add_1_r. rewrite !N.bit0_odd. rewrite N.odd_succ. rewrite N.negb_odd. reflexivity.
    + rewrite gray_even_succ, gray_odd_succ. rewrite (Hf j).
      destruct (N.eqb_spec j idx); destruct (N.eqb_spec (N.succ j) (N.succ idx)); try lia; reflexivity.
Qed.

Lemma gray_step : forall y, gray_step_at y.
Proof.
  intros y. induction y as [| y IH | y IH] using N.binary_ind.
  - apply (gray_step_even 0).
  - rewrite N.double_spec. apply gray_step_even.
  - rewrite N.succ_double_spec. apply gray_step_odd. exact IH.
Qed.

Lemma flips_sym : forall a b idx, flips a b idx -> flips b a idx.
Proof.
  intros a b idx H i. rewrite (H i). destruct (N.testbit a i), (N.eqb i idx); reflexivity.
Qed.

Lemma flips_lxor : forall a b idx, flips a b idx -> N.lxor a b = (2 ^ idx)%N.
Proof.
  intros a b idx H. apply N.bits_inj. intros i.
  rewrite N.lxor_spec, N.pow2_bits_eqb, (H i). rewrite (N.eqb_sym idx i).
  destruct (N.testbit a i), (N.eqb i idx); reflexivity.
Qed.

Lemma flips_lt : forall a b idx, flips a b idx -> N.testbit a idx = false -> (a < b)%N.
Proof.
  intros a b idx H Ha.
  assert (E : b = N.lxor a (2 ^ idx)).
  { apply N.bits_inj. intros i. rewrite N.lxor_spec, N.pow2_bits_eqb, (H i), (N.eqb_sym idx i).
    reflexivity. }
  assert (L : N.land a (2 ^ idx) = 0%N).
  { apply N.bits_inj. intros i. rewrite N.land_spec, N.pow2_bits_eqb, N.bits_0.
    destruct (N.eqb_spec idx i); [subst i; rewrite Ha; reflexivity | apply andb_false_r]. }
  apply N.add_nocarry_lxor in L. rewrite <- L in E.
  assert (2 ^ idx <> 0)%N by (apply N.pow_nonzero; discriminate). lia.
Qed.

Lemma flips_cmp : forall a b idx, flips a b idx ->
  cmpN a b = if N.testbit a idx then 1%Z else (-1)%Z.
Proof.
  intros a b idx H. unfold cmpN. destruct (N.testbit a idx) eqn:Ea.
  - assert (Hb : N.testbit b idx = false).
    { rewrite (H idx), Ea, N.eqb_refl. reflexivity. }
    pose proof (flips_lt b a idx (flips_sym _ _ _ H) Hb) as L.
    destruct (N.eqb_spec a b); [lia|]. destruct (N.ltb_spec b a); [reflexivity | lia].
  - pose proof (flips_lt a b idx H Ea) as L.
    destruct (N.eqb_spec a b); [lia|]. destruct (N.ltb_spec b a); [lia | reflexivity].
Qed.

Lemma testbit_small : forall y m i, (y < 2 ^ m)%N -> (m <= i)%N -> N.testbit y i = false.
Proof.
  intros y m i Hy Hi. rewrite <- (N.mod_small y (2 ^ m) Hy). apply N.mod_pow2_bits_high. exact Hi.
Qed.

Lemma gray_top : forall y m i, (y < 2 ^ m)%N -> (m <= i)%N -> N.testbit (gray y) i = false.
Proof.
  intros y m i Hy Hi. rewrite gray_bit.
  rewrite (testbit_small y m i Hy Hi), (testbit_small y m (N.succ i) Hy); [reflexivity | lia].
Qed.

Lemma power_index_pow2 : forall n s idx, (s <= idx < s + n)%nat ->
  find (fun i => N.eqb (2 ^ N.of_nat i) (2 ^ N.of_nat idx)) (seq s n) = Some idx.
Proof.
  induction n as [|n IH]; intros s idx H.
  - lia.
  - cbn [seq find]. destruct (N.eqb_spec (2 ^ N.of_nat s) (2 ^ N.of_nat idx)) as [E | NE].
    + apply N.pow_inj_r in E; [|lia]. f_equal. lia.
    + apply IH. assert (s <> idx) by (intros ->; apply NE; reflexivity). lia.
Qed.

(* ------------------------------------------------------------------ *)
(* list helpers                                                         *)

Lemma qprod_shift : forall n f, qprod (S n) f == f O * qprod n (fun k => f (S k)).
Proof.
  induction n as [|n IH]; intros f.
  - cbn. ring.
  - rewrite qprod_S. rewrite IH. rewrite (qprod_S n). ring.
Qed.

Lemma qprodl_qprod : forall l, qprodl l == qprod (length l) (fun j => nth j l 0).
Proof.
  induction l as [|x l IH].
  - reflexivity.
  - cbn [length]. rewrite qprod_shift. cbn [nth].
    change (qprodl (x :: l)) with (x * qprodl l). rewrite IH. reflexivity.
Qed.

Lemma qsuml_qsum : forall l, qsuml l == qsum (length l) (fun j => nth j l 0).
Proof.
  induction l as [|x l IH].
  - reflexivity.
  - cbn [length]. rewrite qsum_shift. cbn [nth].
    change (qsuml (x :: l)) with (x + qsuml l). rewrite IH. reflexivity.
Qed.

Lemma zipw_length : forall (f : Q -> Q -> Q) l1 l2,
  (length l1 <= length l2)%nat -> length (zipw f l1 l2) = length l1.
Proof.
  induction l1 as [|a l1 IH]; intros l2 H.
  - reflexivity.
  - destruct l2 as [|b l2]; cbn [length] in *; [lia|]. cbn [zipw length]. f_equal. apply IH. lia.
Qed.

Lemma zipw_nth : forall (f : Q -> Q -> Q) l1 l2 j,
  (j < length l1)%nat -> (j < length l2)%nat ->
  nth j (zipw f l1 l2) 0 = f (nth j l1 0) (nth j l2 0).
Proof.
  induction l1 as [|a l1 IH]; intros l2 j H1 H2.
  - cbn in H1. lia.
  - destruct l2 as [|b l2]; cbn [length] in *; [lia|]. cbn [zipw].
    destruct j as [|j]; [reflexivity|]. cbn [nth]. apply IH; lia.
Qed.

Lemma qsum_single : forall n idx d, (idx < n)%nat ->
  qsum n (fun i => if (i =? idx)%nat then d else 0) == d.
Proof.
  induction n as [|n IH]; intros idx d H.
  - lia.
  - rewrite qsum_S. destruct (Nat.eqb_spec n idx) as [E | NE].
    + subst idx. rewrite (qsum_ext n _ (fun _ => 0)).
      * rewrite qsum_zero. ring.
      * intros k Hk. destruct (Nat.eqb_spec k n); [lia | reflexivity].
    + rewrite IH by lia. ring.
Qed.

Lemma qprod_flip : forall n idx f, (idx < n)%nat ->
  qprod n (fun i => if (i =? idx)%nat then - f i else f i) == - qprod n f.
Proof.
  induction n as [|n IH]; intros idx f H.
  - lia.
  - rewrite !qprod_S. destruct (Nat.eqb_spec n idx) as [E | NE].
    + subst idx. rewrite (qprod_ext n _ f).
      * ring.
      * intros k Hk. destruct (Nat.eqb_spec k n); [lia | reflexivity].
    + rewrite IH by lia. ring.
Qed.

Lemma qprod_one : forall n f, (forall k, (k < n)%nat -> f k == 1) -> qprod n f == 1.
Proof.
  induction n as [|n IH]; intros f H.
  - reflexivity.
  - rewrite qprod_S. rewrite IH by (intros; apply H; lia). rewrite (H n) by lia. ring.
Qed.

(* ------------------------------------------------------------------ *)
(* the sign vector of a code, the quantities kept by the loop           *)

Definition dl (g : N) (i : nat) : Q := if N.testbit g (N.of_nat i) then -1 else 1.

Definition rcfun (n : nat) (W : mat) (g : N) (j : nat) : Q := qsum n (fun i => dl g i * W i j).
Definition sprod (n : nat) (g : N) : Q := qprod n (dl g).

Lemma dl_flip : forall a b idx i, flips a b (N.of_nat idx) ->
  dl b i = if (i =? idx)%nat then - dl a i else dl a i.
Proof.
  intros a b idx i H. unfold dl. rewrite (H (N.of_nat i)).
  destruct (Nat.eqb_spec i idx); destruct (N.eqb_spec (N.of_nat i) (N.of_nat idx)); try lia;
    destruct (N.testbit a (N.of_nat i)); reflexivity.
Qed.

Lemma sprod_flip : forall n a b idx, (idx < n)%nat -> flips a b (N.of_nat idx) ->
  sprod n b == - sprod n a.
Proof.
  intros n a b idx Hi H. unfold sprod. rewrite <- (qprod_flip n idx (dl a) Hi).
  apply qprod_ext. intros k _. rewrite (dl_flip a b idx k H). reflexivity.
Qed.

Lemma rcfun_flip : forall n W a b idx j, (idx < n)%nat -> flips a b (N.of_nat idx) ->
  rcfun n W b j == rcfun n W a j + (-(2) * dl a idx * W idx j).
Proof.
  intros n W a b idx j Hi H. unfold rcfun.
  rewrite <- (qsum_single n idx (-(2) * dl a idx * W idx j) Hi) at 1.
  rewrite <- qsum_plus. apply qsum_ext. intros k _. rewrite (dl_flip a b idx k H).
  destruct (Nat.eqb_spec k idx); [subst k|]; ring.
Qed.

(* ------------------------------------------------------------------ *)
(* the loop invariant                                                   *)

Definition gterm (n : nat) (W : mat) (t : nat) : Q :=
  sprod n (gray (N.of_nat t)) * qprod n (rcfun n W (gray (N.of_nat t))).

Definition Inv (n : nat) (M : matrix) (t : nat) (o : option gst) : Prop :=
  match o with
  | None => False
  | Some s =>
      g_total s == qsum t (gterm n (of_lists M)) /\
      g_old s = gray (N.of_nat t) /\
      g_sign s == sprod n (gray (N.of_nat t)) /\
      length (g_rc s) = n /\
      (forall j, (j < n)%nat -> nth j (g_rc s) 0 == rcfun n (of_lists M) (gray (N.of_nat t)) j)
  end.

Lemma square_row_length : forall n M i, square n M -> (i < n)%nat -> length (rownth M i) = n.
Proof.
  intros n M i [Hl Hr] Hi. unfold rownth. rewrite Forall_forall in Hr. apply Hr.
  apply nth_In. lia.
Qed.

Lemma glynn_step_inv : forall n1 M t o, square (S n1) M -> (t < 2 ^ n1)%nat ->
  Inv (S n1) M t o ->
  Inv (S n1) M (S t) (glynn_step_with (fun x => x) (S n1) M o (S t)).
Proof.
  intros n1 M t [s|] Hsq Ht HI; [|contradiction].
  destruct HI as (Htot & Hold & Hsign & Hlen & Hrc).
  destruct (gray_step (N.of_nat t)) as (idx & Hb & Hf).
  replace (N.of_nat t + 1)%N with (N.of_nat (S t)) in * by lia.
  assert (Hidx : (idx <= N.of_nat n1)%N).
  { apply Hb. assert (H : (N.of_nat (S t) <= N.of_nat (2 ^ n1))%N) by lia.
    rewrite Nat2N.inj_pow in H. exact H. }
  assert (Ei : idx = N.of_nat (N.to_nat idx)) by (symmetry; apply N2Nat.id).
  set (ix := N.to_nat idx) in *. assert (Hix : (ix < S n1)%nat) by lia.
  rewrite Ei in Hf. clear Hb Hidx.
  unfold glynn_step_with. rewrite Hold.
  change (N.lxor (N.of_nat (S t)) (N.div2 (N.of_nat (S t)))) with (gray (N.of_nat (S t))).
  rewrite (flips_lxor _ _ _ Hf). unfold power_index.
  rewrite (power_index_pow2 (S n1) 0 ix) by lia.
  rewrite (flips_cmp _ _ _ Hf).
  pose proof (square_row_length (S n1) M ix Hsq Hix) as Hrow.
  assert (Erc : forall dir : Z, dir <> 0%Z ->
     let rc := if (dir =? 0)%Z then g_rc s
               else zipw (fun r v => r + v * inject_Z dir) (g_rc s) (rownth M ix) in
     length rc = S n1 /\
     forall j, (j < S n1)%nat -> nth j rc 0 == nth j (g_rc s) 0 + of_lists M ix j * inject_Z dir).
  { intros dir Hd. destruct (Z.eqb_spec dir 0); [contradiction|]. cbv zeta. split.
    - rewrite zipw_length; lia.
    - intros j Hj. rewrite zipw_nth by lia. reflexivity. }
  unfold Inv. cbn [g_total g_old g_sign g_rc].
  split; [|split; [|split]].
  - rewrite qsum_S. rewrite Htot. unfold gterm at 2. rewrite Hsign.
    rewrite qprodl_qprod, Hlen. rewrite (qprod_ext (S n1) _ _ Hrc). reflexivity.
  - reflexivity.
  - rewrite (sprod_flip (S n1) _ _ ix Hix Hf). rewrite Hsign. reflexivity.
  - pose proof (fun j => rcfun_flip (S n1) (of_lists M) _ _ ix j Hix Hf) as Hfl.
    unfold dl in Hfl.
    destruct (N.testbit (gray (N.of_nat t)) (N.of_nat ix)).
    + destruct (Erc (2 * 1)%Z ltac:(discriminate)) as (E1 & E2). split; [exact E1|].
      intros j Hj. rewrite (E2 j Hj), (Hrc j Hj), Hfl.
      change (inject_Z (2 * 1)) with 2. ring.
    + destruct (Erc (2 * -1)%Z ltac:(discriminate)) as (E1 & E2). split; [exact E1|].
      intros j Hj. rewrite (E2 j Hj), (Hrc j Hj), Hfl.
      change (inject_Z (2 * -1)) with (-(2)). ring.
Qed.

Lemma nth_map_seq : forall (h : nat -> Q) n j, (j < n)%nat -> nth j (map h (seq 0 n)) 0 = h j.
Proof.
  intros h n j H. rewrite (nth_indep _ 0 (h O)) by (rewrite map_length, seq_length; exact H).
  rewrite map_nth. rewrite seq_nth by exact H. reflexivity.
Qed.

Lemma ncols_square : forall n M, (1 <= n)%nat -> square n M -> ncols M = n.
Proof.
  intros n M Hn [Hl Hr]. destruct M as [|r M]; [cbn in Hl; lia|].
  cbn [ncols]. inversion Hr; assumption.
Qed.

Lemma col_sum_rcfun0 : forall n M j, square n M ->
  qsuml (col j M) == rcfun n (of_lists M) 0%N j.
Proof.
  intros n M j [Hl Hr]. rewrite qsuml_qsum. unfold col. rewrite map_length, Hl.
  unfold rcfun. apply qsum_ext. intros i Hi.
  rewrite (nth_indep _ 0 ((fun r => qnth r j) [])) by (rewrite map_length; lia).
  rewrite (map_nth (fun r => qnth r j) M [] i). unfold dl, of_lists, qnth. cbn [N.testbit]. ring.
Qed.

Definition gst0 (M : matrix) : gst := mkG 0 0%N 1 (col_sums_with (fun x => x) (ncols M) M).

Lemma glynn_init_inv : forall n1 M, square (S n1) M -> Inv (S n1) M 0 (Some (gst0 M)).
Proof.
  intros n1 M Hsq. unfold Inv, gst0. cbn [g_total g_old g_sign g_rc].
  rewrite (ncols_square (S n1) M) by (try exact Hsq; lia).
  split; [|split; [|split; [|split]]].
  - reflexivity.
  - reflexivity.
  - symmetry. apply qprod_one. intros k _. reflexivity.
  - unfold col_sums_with. rewrite map_length, seq_length. reflexivity.
  - intros j Hj. unfold col_sums_with. rewrite nth_map_seq by exact Hj.
    apply col_sum_rcfun0. exact Hsq.
Qed.

Lemma glynn_fold_inv : forall n1 M T, square (S n1) M -> (T <= 2 ^ n1)%nat ->
  Inv (S n1) M T (fold_left (glynn_step_with (fun x => x) (S n1) M) (seq 1 T) (Some (gst0 M))).
Proof.
  intros n1 M T Hsq. induction T as [|T IH]; intros HT.
  - apply glynn_init_inv. exact Hsq.
  - rewrite seq_S, fold_left_app. cbn [fold_left]. change (1 + T)%nat with (S T).
    apply glynn_step_inv; [exact Hsq | lia | apply IH; lia].
Qed.

(* ------------------------------------------------------------------ *)
(* the Gray codes of 0 .. 2^k - 1 enumerate the sign vectors of length k *)

Definition decode (k : nat) (g : N) : list Q := map (dl g) (seq 0 k).

Lemma decode_S : forall k g, decode (S k) g = dl g 0 :: map (fun i => dl g (S i)) (seq 0 k).
Proof.
  intros k g. unfold decode. cbn [seq map]. f_equal. rewrite <- seq_shift. rewrite map_map. reflexivity.
Qed.

Lemma decode_even : forall k x,
  decode (S k) (gray (2 * x)) = (if N.testbit x 0 then -1 else 1) :: decode k (gray x).
Proof.
  intros k x. rewrite decode_S. f_equal.
  - unfold dl. change (N.of_nat 0) with 0%N. rewrite gray_even_0. reflexivity.
  - apply map_ext. intros i. unfold dl. rewrite Nat2N.inj_succ, gray_even_succ. reflexivity.
Qed.

Lemma decode_odd : forall k x,
  decode (S k) (gray (2 * x + 1)) = (if N.testbit x 0 then 1 else -1) :: decode k (gray x).
Proof.
  intros k x. rewrite decode_S. f_equal.
  - unfold dl. change (N.of_nat 0) with 0%N. rewrite gray_odd_0.
    destruct (N.testbit x 0); reflexivity.
  - apply map_ext. intros i. unfold dl. rewrite Nat2N.inj_succ, gray_odd_succ. reflexivity.
Qed.

Lemma qsum_double : forall N h,
  qsum (2 * N) h == qsum N (fun a => h (2 * a)%nat + h (2 * a + 1)%nat).
Proof.
  induction N as [|N IH]; intros h.
  - reflexivity.
  - replace (2 * S N)%nat with (S (S (2 * N))) by lia. rewrite !qsum_S. rewrite IH.
    replace (2 * N + 1)%nat with (S (2 * N)) by lia. ring.
Qed.

Lemma gray_enum : forall k f,
  qsum (2 ^ k) (fun t => f (decode k (gray (N.of_nat t)))) == ssum k f.
Proof.
  induction k as [|k IH]; intros f.
  - unfold ssum, lsum. cbn. ring.
  - change (2 ^ S k)%nat with (2 * 2 ^ k)%nat. rewrite qsum_double. rewrite ssum_S.
    rewrite <- (IH (fun s => f (1 :: s) + f ((-1) :: s))).
    apply qsum_ext. intros a _.
    replace (N.of_nat (2 * a)) with (2 * N.of_nat a)%N by lia.
    replace (N.of_nat (2 * a + 1)) with (2 * N.of_nat a + 1)%N by lia.
    rewrite decode_even, decode_odd. destruct (N.testbit (N.of_nat a) 0); ring.
Qed.

(* ------------------------------------------------------------------ *)
(* the loop's sum is the sum SS with the last row as the constant part   *)

Definition lastF (k : nat) (W : mat) (s : list Q) : Q :=
  lprod s * qprod (S k) (aff k (W k) W s).

Lemma lprod_decode : forall k g, lprod (decode k g) == qprod k (dl g).
Proof.
  intros k g. change (lprod (decode k g)) with (qprodl (decode k g)).
  rewrite qprodl_qprod. unfold decode. rewrite map_length, seq_length.
  apply qprod_ext. intros j Hj. rewrite nth_map_seq by exact Hj. reflexivity.
Qed.

Lemma gterm_decode : forall k W t, (t < 2 ^ k)%nat ->
  gterm (S k) W t == lastF k W (decode k (gray (N.of_nat t))).
Proof.
  intros k W t Ht. unfold gterm, lastF.
  assert (Hlt : (N.of_nat t < 2 ^ N.of_nat k)%N).
  { assert (H : (N.of_nat t < N.of_nat (2 ^ k))%N) by lia. rewrite Nat2N.inj_pow in H. exact H. }
  set (g := gray (N.of_nat t)).
  assert (Htop : dl g k = 1).
  { unfold dl, g. rewrite (gray_top _ (N.of_nat k) (N.of_nat k) Hlt); [reflexivity | lia]. }
  unfold sprod. rewrite qprod_S, Htop. rewrite lprod_decode.
  rewrite (qprod_ext (S k) (rcfun (S k) W g) (aff k (W k) W (decode k g))).
  - ring.
  - intros j _. unfold rcfun, aff. rewrite qsum_S, Htop.
    rewrite (qsum_ext k (fun i => nth i (decode k g) 0 * W i j) (fun i => dl g i * W i j)).
    + ring.
    + intros i Hi. unfold decode. rewrite nth_map_seq by exact Hi. reflexivity.
Qed.

Definition rot_last (k : nat) (W : mat) : mat :=
  fun a => match a with O => W k | S i => W i end.

Lemma perm_rot_last : forall k W, perm (S k) (rot_last k W) == perm (S k) W.
Proof.
  intros k W. rewrite (perm_expand_row (S k) W k) by lia. rewrite perm_S.
  change (pred (S k)) with k.
  apply qsum_ext. intros j Hj. apply Qmult_comp; [reflexivity|].
  apply perm_ext. intros a b Ha Hb. unfold minor, rot_last. rewrite skip_0.
  unfold skip at 2. destruct (Nat.ltb_spec a k); [reflexivity | lia].
Qed.

Lemma SS_last : forall k W, SS k (S k) (W k) W == pow2 k * perm (S k) W.
Proof.
  intros k W. rewrite <- perm_rot_last. rewrite <- glynn_sum_eq.
  unfold SS, glynn_sum. apply ssum_ext. intros s. reflexivity.
Qed.

Lemma pow2_inject_nat : forall k, inject_Z (Z.of_nat (2 ^ k)) == pow2 k.
Proof.
  induction k as [|k IH].
  - reflexivity.
  - change (2 ^ S k)%nat with (2 * 2 ^ k)%nat. rewrite Nat2Z.inj_mul, inject_Z_mult, IH.
    reflexivity.
Qed.

(* ------------------------------------------------------------------ *)
(* the Gray-code loop computes the permanent, every size                *)

Theorem fast_glynn_with_eq_perm : forall n M, (1 <= n)%nat -> square n M ->
  exists g, fast_glynn_perm_with (fun x => x) M = Some g /\ g == perm n (of_lists M).
Proof.
  intros [|k] M Hn Hsq; [lia|].
  pose proof (glynn_fold_inv k M (2 ^ k) Hsq (le_n _)) as HI.
  assert (Hl : length M = S k) by apply Hsq.
  unfold fast_glynn_perm_with. cbv zeta. rewrite Hl. fold (gst0 M).
  destruct (fold_left (glynn_step_with (fun x => x) (S k) M) (seq 1 (2 ^ k)) (Some (gst0 M)))
    as [s|]; [|contradiction].
  destruct HI as (Htot & _).
  eexists. split; [reflexivity|].
  rewrite Htot. rewrite pow2_inject_nat.
  rewrite (qsum_ext (2 ^ k) (gterm (S k) (of_lists M))
             (fun t => lastF k (of_lists M) (decode k (gray (N.of_nat t))))).
  2:{ intros t Ht. apply gterm_decode. exact Ht. }
  rewrite gray_enum. change (ssum k (lastF k (of_lists M))) with
    (SS k (S k) (of_lists M k) (of_lists M)).
  rewrite SS_last. field. apply pow2_nonzero.
Qed.

Theorem fast_glynn_eq_perm : forall n M, (1 <= n)%nat -> square n M ->
  exists p, fast_glynn_perm M = Some p /\ p == perm n (of_lists M).
Proof.
  intros n M Hn Hsq. destruct (fast_glynn_with_eq_perm n M Hn Hsq) as (g & Hg & Hp).
  exact (fast_glynn_from_plain M g n Hg Hp).
Qed.

(* the loop agrees with the plain Glynn sum of spec/PermS.v *)
Theorem fast_glynn_eq_glynn_plain : forall n M, (1 <= n)%nat -> square n M ->
  exists p, fast_glynn_perm M = Some p /\ p == glynn_plain n (of_lists M).
Proof.
  intros n M Hn Hsq. destruct (fast_glynn_eq_perm n M Hn Hsq) as (p & Hp & E).
  exists p. split; [exact Hp|]. rewrite glynn_plain_eq_perm. exact E.
Qed.

Theorem fast_glynn_with_eq_glynn_plain : forall n M, (1 <= n)%nat -> square n M ->
  exists g, fast_glynn_perm_with (fun x => x) M = Some g /\ g == glynn_plain n (of_lists M).
Proof.
  intros n M Hn Hsq. destruct (fast_glynn_with_eq_perm n M Hn Hsq) as (g & Hg & E).
  exists g. split; [exact Hg|]. rewrite glynn_plain_eq_perm. exact E.
Qed.

Print Assumptions fast_glynn_eq_perm.
Print Assumptions fast_glynn_eq_glynn_plain.
Print Assumptions fast_glynn_with_eq_glynn_plain.
