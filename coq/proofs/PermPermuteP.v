(* The permanent and the permanent ratios Pspec under permutations of rows and columns,
   every size.

   A permutation of [0,n) is given as a list idx with Permutation idx (seq 0 n) (this is what
   sort_idx of inf_retis is: the concatenation of two argsort answers); the permuted matrix
   reads row a of the result from row (nth a idx 0) of W.  A formulation with an injective
   function on indices < n is derived at the end, together with the model-level statement for
   the  sorted = non_locked[sort_idx] ... out[sort_idx] = out.copy()  pair of inf_retis
   ([unsort] of model/PermM.v) and for the column reversal used on the [0-] side.

   Route: invariance of perm under swapping the first two rows (perm_swap_adjacent_rows) and
   induction over the derivation of Permutation l l' for matrices whose rows are selected by an
   arbitrary index list. *)
From Coq Require Import QArith List Arith Lia Setoid Morphisms Permutation.
From Inf Require Import spec.PermS model.PermM proofs.PermSpecP proofs.PermQuickSpecP
  proofs.PermPermanentP.
Import ListNotations.
Open Scope Q_scope.

Definition rows_of (l : list nat) (W : mat) : mat := fun a b => W (nth a l O) b.
Definition cols_of (l : list nat) (W : mat) : mat := fun a b => W a (nth b l O).

(* ------------------------------------------------------------------ *)
(* rows selected by a list: the permanent only depends on the multiset *)

Lemma perm_rows_Permutation : forall l l', Permutation l l' ->
  forall W, perm (length l) (rows_of l W) == perm (length l) (rows_of l' W).
Proof.
  induction 1 as [|x l l' HP IH|x y l|l l' l'' HP1 IH1 HP2 IH2]; intros W.
  - reflexivity.
  - cbn [length]. rewrite !perm_S. apply qsum_ext. intros j Hj. apply Qmult_comp.
    + reflexivity.
    + transitivity (perm (length l) (rows_of l (fun r b => W r (skip j b)))).
      * apply perm_ext. intros a b _ _. unfold minor, rows_of. rewrite skip_0. reflexivity.
      * rewrite IH. apply perm_ext. intros a b _ _. unfold minor, rows_of. rewrite skip_0. reflexivity.
  - cbn [length].
    rewrite <- (perm_swap_adjacent_rows (S (S (length l))) (rows_of (x :: y :: l) W) 0) by lia.
    apply perm_ext. intros a b _ _. unfold rows_of. destruct a as [|[|a]]; reflexivity.
  - rewrite IH1. rewrite (Permutation_length HP1). apply IH2.
Qed.

Lemma nth_seq0 : forall n a, (a < n)%nat -> nth a (seq 0 n) O = a.
Proof. intros n a H. rewrite seq_nth by exact H. reflexivity. Qed.

Theorem perm_permute_rows : forall n idx W, Permutation idx (seq 0 n) ->
  perm n (rows_of idx W) == perm n W.
Proof.
  intros n idx W HP.
  assert (L : length idx = n) by (rewrite (Permutation_length HP); apply seq_length).
  rewrite <- L at 1. rewrite (perm_rows_Permutation idx (seq 0 n) HP W). rewrite L.
  apply perm_ext. intros a b Ha _. unfold rows_of. rewrite nth_seq0 by exact Ha. reflexivity.
Qed.

(* ------------------------------------------------------------------ *)
(* removing one position from both sides of a permutation              *)

Lemma remove_nth_split : forall {A} (d : A) l i, (i < length l)%nat ->
  exists l1 l2, l = l1 ++ nth i l d :: l2 /\ remove_nth i l = l1 ++ l2.
Proof.
  intros A d. induction l as [|x l IH]; intros i Hi; [cbn in Hi; lia|].
  destruct i as [|i].
  - exists [], l. split; reflexivity.
  - cbn [length] in Hi. destruct (IH i ltac:(lia)) as (l1 & l2 & E1 & E2).
    exists (x :: l1), l2. cbn [remove_nth nth app]. split; [f_equal; exact E1 | f_equal; exact E2].
Qed.

Lemma Permutation_remove_nth : forall {A} (d : A) l l' i i',
  Permutation l l' -> (i < length l)%nat -> (i' < length l')%nat -> nth i l d = nth i' l' d ->
  Permutation (remove_nth i l) (remove_nth i' l').
Proof.
  intros A d l l' i i' HP Hi Hi' E.
  destruct (remove_nth_split d l i Hi) as (l1 & l2 & E1 & E2).
  destruct (remove_nth_split d l' i' Hi') as (l3 & l4 & E3 & E4).
  rewrite E2, E4. apply (Permutation_app_inv l1 l2 l3 l4 (nth i l d)).
  rewrite <- E1. rewrite E. rewrite <- E3. exact HP.
Qed.

Lemma Permutation_seq_nth_lt : forall n idx i, Permutation idx (seq 0 n) -> (i < n)%nat ->
  (nth i idx O < n)%nat.
Proof.
  intros n idx i HP Hi.
  assert (L : length idx = n) by (rewrite (Permutation_length HP); apply seq_length).
  assert (Hin : In (nth i idx O) (seq 0 n)).
  { apply (Permutation_in _ HP). apply nth_In. lia. }
  apply in_seq in Hin. lia.
Qed.

(* ------------------------------------------------------------------ *)
(* Pspec under a row permutation                                        *)

Theorem Pspec_permute_rows : forall n idx W i j, Permutation idx (seq 0 n) ->
  (i < n)%nat -> (j < n)%nat ->
  Pspec n (rows_of idx W) i j == Pspec n W (nth i idx O) j.
Proof.
  intros n idx W i j HP Hi Hj.
  assert (L : length idx = n) by (rewrite (Permutation_length HP); apply seq_length).
  pose proof (Permutation_seq_nth_lt n idx i HP Hi) as Hx.
  set (x := nth i idx O) in *.
  unfold Pspec. rewrite (perm_permute_rows n idx W HP).
  change (rows_of idx W i j) with (W x j).
  set (W' := fun r b => W r (skip j b)).
  assert (Hm : perm (pred n) (minor i j (rows_of idx W)) == perm (pred n) (minor x j W)).
  { transitivity (perm (pred n) (rows_of (remove_nth i idx) W')).
    - apply perm_ext. intros a b _ _. unfold minor, rows_of, W'.
      rewrite nth_remove_nth. reflexivity.
    - assert (L' : length (remove_nth i idx) = pred n) by (rewrite remove_nth_length; lia).
      rewrite <- L' at 1.
      rewrite (perm_rows_Permutation (remove_nth i idx) (remove_nth x (seq 0 n))).
      + rewrite L'. apply perm_ext. intros a b Ha _. unfold minor, rows_of, W'.
        rewrite nth_remove_nth. rewrite nth_seq0; [reflexivity|]. unfold skip. dtests; lia.
      + apply (Permutation_remove_nth O); [exact HP | lia | rewrite seq_length; exact Hx |].
        rewrite nth_seq0 by exact Hx. reflexivity. }
  rewrite Hm. reflexivity.
Qed.

(* ------------------------------------------------------------------ *)
(* columns, by transposition                                            *)

Lemma Pspec_transpose : forall n W i j, Pspec n (transpose W) i j == Pspec n W j i.
Proof.
  intros n W i j. unfold Pspec. rewrite perm_transpose.
  change (minor i j (transpose W)) with (transpose (minor j i W)). rewrite perm_transpose.
  reflexivity.
Qed.

Theorem perm_permute_cols : forall n idx W, Permutation idx (seq 0 n) ->
  perm n (cols_of idx W) == perm n W.
Proof.
  intros n idx W HP.
  change (cols_of idx W) with (transpose (rows_of idx (transpose W))).
  rewrite perm_transpose, (perm_permute_rows n idx _ HP). apply perm_transpose.
Qed.

Theorem Pspec_permute_cols : forall n idx W i j, Permutation idx (seq 0 n) ->
  (i < n)%nat -> (j < n)%nat ->
  Pspec n (cols_of idx W) i j == Pspec n W i (nth j idx O).
Proof.
  intros n idx W i j HP Hi Hj.
  change (cols_of idx W) with (transpose (rows_of idx (transpose W))).
  rewrite Pspec_transpose, (Pspec_permute_rows n idx _ j i HP Hj Hi). apply Pspec_transpose.
Qed.

(* rows and columns at once *)
Theorem perm_permute_both : forall n ri ci W,
  Permutation ri (seq 0 n) -> Permutation ci (seq 0 n) ->
  perm n (fun a b => W (nth a ri O) (nth b ci O)) == perm n W.
Proof.
  intros n ri ci W Hr Hc.
  change (fun a b => W (nth a ri O) (nth b ci O)) with (rows_of ri (cols_of ci W)).
  rewrite (perm_permute_rows n ri _ Hr). apply perm_permute_cols. exact Hc.
Qed.

Theorem Pspec_permute_both : forall n ri ci W i j,
  Permutation ri (seq 0 n) -> Permutation ci (seq 0 n) -> (i < n)%nat -> (j < n)%nat ->
  Pspec n (fun a b => W (nth a ri O) (nth b ci O)) i j == Pspec n W (nth i ri O) (nth j ci O).
Proof.
  intros n ri ci W i j Hr Hc Hi Hj.
  change (fun a b => W (nth a ri O) (nth b ci O)) with (rows_of ri (cols_of ci W)).
  rewrite (Pspec_permute_rows n ri _ i j Hr Hi Hj).
  apply Pspec_permute_cols; [exact Hc | | exact Hj].
  apply Permutation_seq_nth_lt; assumption.
Qed.

(* ------------------------------------------------------------------ *)
(* the same with an injective map on the indices below n                *)

Lemma Permutation_of_injective : forall n (s : nat -> nat),
  (forall a, (a < n)%nat -> (s a < n)%nat) ->
  (forall a b, (a < n)%nat -> (b < n)%nat -> s a = s b -> a = b) ->
  Permutation (map s (seq 0 n)) (seq 0 n).
Proof.
  intros n s Hlt Hinj. apply NoDup_Permutation_bis.
  - apply (NoDup_nth _ O). intros a b Ha Hb E. rewrite map_length, seq_length in Ha, Hb.
    rewrite (nth_indep _ O (s O)) in E by (rewrite map_length, seq_length; exact Ha).
    rewrite (nth_indep _ O (s O) (n:=b)) in E by (rewrite map_length, seq_length; exact Hb).
    rewrite !map_nth, !nth_seq0 in E by assumption. apply Hinj; assumption.
  - rewrite map_length. lia.
  - intros x Hx. apply in_map_iff in Hx as (a & <- & Ha). apply in_seq in Ha. apply in_seq.
    specialize (Hlt a ltac:(lia)). lia.
Qed.

Theorem perm_permute_rows_fun : forall n (s : nat -> nat) W,
  (forall a, (a < n)%nat -> (s a < n)%nat) ->
  (forall a b, (a < n)%nat -> (b < n)%nat -> s a = s b -> a = b) ->
  perm n (fun a b => W (s a) b) == perm n W.
Proof.
  intros n s W Hlt Hinj.
  rewrite <- (perm_permute_rows n (map s (seq 0 n)) W (Permutation_of_injective n s Hlt Hinj)).
  apply perm_ext. intros a b Ha _. unfold rows_of.
  rewrite (nth_indep _ O (s O)) by (rewrite map_length, seq_length; exact Ha).
  rewrite map_nth, nth_seq0 by exact Ha. reflexivity.
Qed.

Theorem Pspec_permute_rows_fun : forall n (s : nat -> nat) W i j,
  (forall a, (a < n)%nat -> (s a < n)%nat) ->
  (forall a b, (a < n)%nat -> (b < n)%nat -> s a = s b -> a = b) ->
  (i < n)%nat -> (j < n)%nat ->
  Pspec n (fun a b => W (s a) b) i j == Pspec n W (s i) j.
Proof.
  intros n s W i j Hlt Hinj Hi Hj.
  pose proof (Permutation_of_injective n s Hlt Hinj) as HP.
  assert (Hn : forall a, (a < n)%nat -> nth a (map s (seq 0 n)) O = s a).
  { intros a Ha. rewrite (nth_indep _ O (s O)) by (rewrite map_length, seq_length; exact Ha).
    rewrite map_nth, nth_seq0 by exact Ha. reflexivity. }
  rewrite <- (Hn i Hi). rewrite <- (Pspec_permute_rows n (map s (seq 0 n)) W i j HP Hi Hj).
  apply Pspec_ext; try assumption. intros a b Ha _. unfold rows_of. rewrite (Hn a Ha). reflexivity.
Qed.

Theorem perm_permute_cols_fun : forall n (t : nat -> nat) W,
  (forall a, (a < n)%nat -> (t a < n)%nat) ->
  (forall a b, (a < n)%nat -> (b < n)%nat -> t a = t b -> a = b) ->
  perm n (fun a b => W a (t b)) == perm n W.
Proof.
  intros n t W Hlt Hinj.
  change (fun a b => W a (t b)) with (transpose (fun a b => transpose W (t a) b)).
  rewrite perm_transpose, (perm_permute_rows_fun n t _ Hlt Hinj). apply perm_transpose.
Qed.

Theorem Pspec_permute_cols_fun : forall n (t : nat -> nat) W i j,
  (forall a, (a < n)%nat -> (t a < n)%nat) ->
  (forall a b, (a < n)%nat -> (b < n)%nat -> t a = t b -> a = b) ->
  (i < n)%nat -> (j < n)%nat ->
  Pspec n (fun a b => W a (t b)) i j == Pspec n W i (t j).
Proof.
  intros n t W i j Hlt Hinj Hi Hj.
  change (fun a b => W a (t b)) with (transpose (fun a b => transpose W (t a) b)).
  rewrite Pspec_transpose, (Pspec_permute_rows_fun n t _ j i Hlt Hinj Hj Hi). apply Pspec_transpose.
Qed.

(* reversing the column order (what inf_retis does on the [0-] side) *)
Corollary Pspec_reverse_cols : forall n W i j, (i < n)%nat -> (j < n)%nat ->
  Pspec n (fun a b => W a (n - 1 - b)%nat) i j == Pspec n W i (n - 1 - j)%nat.
Proof.
  intros n W i j Hi Hj. apply (Pspec_permute_cols_fun n (fun b => (n - 1 - b)%nat)); try assumption.
  - intros a Ha. lia.
  - intros a b Ha Hb E. lia.
Qed.

Corollary perm_reverse_cols : forall n W, perm n (fun a b => W a (n - 1 - b)%nat) == perm n W.
Proof.
  intros n W. apply (perm_permute_cols_fun n (fun b => (n - 1 - b)%nat)).
  - intros a Ha. lia.
  - intros a b Ha Hb E. lia.
Qed.

(* ------------------------------------------------------------------ *)
(* the model: sorted = M[sort_idx], ..., out[sort_idx] = out.copy()      *)

Lemma of_lists_sorted : forall (M : matrix) idx a b, (a < length idx)%nat ->
  of_lists (map (rownth M) idx) a b = rows_of idx (of_lists M) a b.
Proof.
  intros M idx a b Ha. unfold of_lists, rows_of.
  rewrite (nth_indep _ [] (rownth M O)) by (rewrite map_length; exact Ha).
  rewrite map_nth. reflexivity.
Qed.

Lemma index_of_In : forall i l, In i l -> (index_of i l < length l)%nat /\ nth (index_of i l) l O = i.
Proof.
  intros i. induction l as [|x l IH]; intros H; [destruct H|].
  cbn [index_of]. destruct (Nat.eqb_spec x i) as [E | NE].
  - cbn. split; [lia | exact E].
  - destruct H as [H | H]; [contradiction|]. destruct (IH H) as [H1 H2]. cbn [length nth]. split; [lia | exact H2].
Qed.

(* if P is Pspec of the sorted matrix, un-sorting P gives Pspec of the original matrix *)
Theorem unsort_Pspec : forall n idx (M P : matrix),
  Permutation idx (seq 0 n) -> length P = n ->
  (forall a j, (a < n)%nat -> (j < n)%nat ->
     mget P a j == Pspec n (of_lists (map (rownth M) idx)) a j) ->
  forall i j, (i < n)%nat -> (j < n)%nat ->
    mget (unsort idx P) i j == Pspec n (of_lists M) i j.
Proof.
  intros n idx M P HP LP H i j Hi Hj.
  assert (L : length idx = n) by (rewrite (Permutation_length HP); apply seq_length).
  assert (Hin : In i idx).
  { apply (Permutation_in _ (Permutation_sym HP)). apply in_seq. lia. }
  destruct (index_of_In i idx Hin) as [K1 K2]. rewrite L in K1.
  assert (E : rownth (unsort idx P) i = rownth P (index_of i idx)).
  { unfold unsort, rownth at 1. rewrite LP.
    rewrite (nth_indep _ [] ((fun i0 => rownth P (index_of i0 idx)) O))
      by (rewrite map_length, seq_length; exact Hi).
    rewrite (map_nth (fun i0 => rownth P (index_of i0 idx))). rewrite nth_seq0 by exact Hi. reflexivity. }
  unfold mget. rewrite E. fold (mget P (index_of i idx) j). rewrite (H _ j K1 Hj).
  rewrite (Pspec_ext n _ (rows_of idx (of_lists M)) (index_of i idx) j K1 Hj).
  - rewrite (Pspec_permute_rows n idx (of_lists M) _ j HP K1 Hj). rewrite K2. reflexivity.
  - intros a b Ha _. rewrite of_lists_sorted by lia. reflexivity.
Qed.

(* and the sorted matrix has the same permanent *)
Theorem perm_sorted : forall n idx (M : matrix), Permutation idx (seq 0 n) ->
  perm n (of_lists (map (rownth M) idx)) == perm n (of_lists M).
Proof.
  intros n idx M HP.
  assert (L : length idx = n) by (rewrite (Permutation_length HP); apply seq_length).
  rewrite <- (perm_permute_rows n idx (of_lists M) HP). apply perm_ext.
  intros a b Ha _. rewrite of_lists_sorted by lia. reflexivity.
Qed.

Print Assumptions perm_permute_rows.
Print Assumptions Pspec_permute_rows.
Print Assumptions perm_permute_cols.
Print Assumptions Pspec_permute_cols.
Print Assumptions Pspec_permute_both.
Print Assumptions Pspec_permute_rows_fun.
Print Assumptions Pspec_permute_cols_fun.
Print Assumptions unsort_Pspec.
Print Assumptions perm_sorted.
