(* Proofs about the limit field of a path (model/PathLimM.v; property C15): paths whose
   limit is a number behave exactly as in model/PathM.v, the limit None never truncates,
   and copy/reverse/paste hand the right limit to the path they return. *)
From Coq Require Import ZArith List Bool Lia.
Import ListNotations.
From Inf Require Import base.ListX model.PathM model.PathLimM proofs.PathP.
Open Scope Z_scope.

(* ---------------------------------------------------------------- the append loop *)

Lemma lappend_lift q f :
  lappend (lift q) f = (lift (fst (append q f)), snd (append q f)).
Proof.
  unfold lappend, append, lift, lplen, plen. cbn [llimit lpts lorigin has_room].
  destruct (length (pts q) <? maxlen q)%nat; reflexivity.
Qed.

Lemma lappend_all_lift fs : forall q,
  lappend_all (lift q) fs = (lift (fst (append_all q fs)), snd (append_all q fs)).
Proof.
  induction fs as [|f r IH]; intros q; cbn [lappend_all append_all]; [reflexivity|].
  rewrite lappend_lift. unfold append.
  destruct (plen q <? maxlen q)%nat; cbn [fst snd].
  - rewrite IH. destruct (append_all (mkP (pts q ++ [f]) (maxlen q) (torigin q)) r); reflexivity.
  - reflexivity.
Qed.

Lemma lappend_all_unlimited fs : forall p,
  llimit p = None ->
  lappend_all p fs = (mkLP (lpts p ++ fs) None (lorigin p), true).
Proof.
  induction fs as [|f r IH]; intros p H; cbn [lappend_all].
  - rewrite app_nil_r. destruct p as [l m t]. cbn in *. now subst.
  - unfold lappend. rewrite H. cbn [has_room].
    rewrite IH by reflexivity. cbn [lpts lorigin]. now rewrite <- app_assoc.
Qed.

Lemma lappend_all_fields fs : forall p,
  llimit (fst (lappend_all p fs)) = llimit p /\ lorigin (fst (lappend_all p fs)) = lorigin p.
Proof.
  induction fs as [|f r IH]; intros p; cbn [lappend_all]; [auto|].
  unfold lappend. destruct (has_room (llimit p) (lplen p)); cbn [fst]; [|auto].
  specialize (IH (mkLP (lpts p ++ [f]) (llimit p) (lorigin p))).
  destruct (lappend_all (mkLP (lpts p ++ [f]) (llimit p) (lorigin p)) r) as [q b].
  cbn [fst llimit lorigin] in *. exact IH.
Qed.

Lemma lift_eta p m : llimit p = Some m -> p = lift (mkP (lpts p) m (lorigin p)).
Proof. destruct p as [l k t]. cbn. intros ->. reflexivity. Qed.

(* ---------------------------------------------------------------- conservative extension *)

Theorem lift_empty m t : lempty_path (Some m) t = lift (empty_path m t).
Proof. reflexivity. Qed.

Theorem lift_reverse next p rv : lreverse next (lift p) rv = lift (reverse next p rv).
Proof.
  unfold lreverse, reverse. cbn [llimit lpts lift].
  rewrite lift_empty, lappend_all_lift. reflexivity.
Qed.

Theorem lift_copy next p : lcopy next (lift p) = lift (copy next p).
Proof.
  unfold lcopy, copy. cbn [llimit lpts lorigin lift].
  rewrite lift_empty, lappend_all_lift. reflexivity.
Qed.

Theorem lift_paste back forw ov req :
  lpaste (lift back) (lift forw) ov req = Some (lift (paste back forw ov req)).
Proof.
  unfold lpaste, paste. change (lplen (lift back)) with (plen back). cbn [llimit lpts lorigin lift].
  set (m := match req with
            | Some m => m
            | None => if (maxlen back =? maxlen forw)%nat then maxlen back
                      else Nat.max (maxlen back) (maxlen forw)
            end).
  assert (E : paste_limit req (Some (maxlen back)) (Some (maxlen forw)) = Some (Some m))
    by (destruct req; reflexivity).
  rewrite E. rewrite lift_empty, lappend_all_lift.
  destruct (append_all (empty_path m (torigin back - Z.of_nat (plen back) + 1)) (rev (pts back))) as [p1 ok].
  cbn [fst snd]. destruct ok; [|reflexivity].
  rewrite lappend_all_lift. reflexivity.
Qed.

(* ---------------------------------------------------------------- the limit field *)

(* the path fits its own limit (always true without a limit) *)
Definition fits (l : limit) (n : nat) : Prop :=
  match l with None => True | Some m => (n <= m)%nat end.

Theorem lreverse_limit next p rv :
  llimit (lreverse next p rv) = llimit p /\ lorigin (lreverse next p rv) = 0.
Proof. unfold lreverse. exact (lappend_all_fields _ (lempty_path (llimit p) 0)). Qed.

Theorem lcopy_limit next p :
  llimit (lcopy next p) = llimit p /\ lorigin (lcopy next p) = lorigin p.
Proof. split; reflexivity. Qed.

Theorem limit_kept n1 n2 p rv :
  llimit (lreverse n1 p rv) = llimit p /\ llimit (lcopy n2 p) = llimit p.
Proof. split; [apply lreverse_limit | reflexivity]. Qed.

Definition lforw_part (forw : lpath) (overlap : bool) : list frame :=
  if overlap then tl (lpts forw) else lpts forw.

Lemma lforw_part_length forw ov :
  length (lforw_part forw ov) = (lplen forw - (if ov then 1 else 0))%nat.
Proof.
  unfold lforw_part, lplen. destruct ov; [|lia]. destruct (lpts forw); cbn; lia.
Qed.

(* what a limit leaves of a list of frames *)
Definition cut (l : limit) (fs : list frame) : list frame :=
  match l with None => fs | Some m => firstn m fs end.

Theorem lpaste_spec back forw ov req r :
  lpaste back forw ov req = Some r ->
  paste_limit req (llimit back) (llimit forw) = Some (llimit r) /\
  lorigin r = lorigin back - Z.of_nat (lplen back) + 1 /\
  lpts r = cut (llimit r) (rev (lpts back) ++ lforw_part forw ov).
Proof.
  unfold lpaste. destruct (paste_limit req (llimit back) (llimit forw)) as [[m|]|] eqn:E; [| |discriminate].
  - (* a number: the lifted operations of PathM *)
    set (t := lorigin back - Z.of_nat (lplen back) + 1).
    rewrite lift_empty, lappend_all_lift.
    pose proof (append_all_spec (empty_path m t) (rev (lpts back))) as (H1 & H2 & H3 & H4).
    destruct (append_all (empty_path m t) (rev (lpts back))) as [p1 ok].
    cbn [fst snd] in *. cbn [empty_path pts maxlen plen length torigin] in *.
    rewrite Nat.sub_0_r, app_nil_l in *.
    destruct ok; intros R; injection R as <-.
    + rewrite lappend_all_lift. cbn [fst lift llimit lorigin lpts].
      pose proof (append_all_spec p1 (if ov then tl (lpts forw) else lpts forw)) as (G1 & G2 & G3 & _).
      rewrite G1, G2, G3, H2, H3. repeat split. unfold plen. rewrite H1.
      symmetry in H4. apply Nat.leb_le in H4.
      assert (Hf : firstn m (rev (lpts back)) = rev (lpts back)) by (apply firstn_all2; exact H4).
      cbn [cut]. unfold lforw_part. rewrite firstn_app, Hf. reflexivity.
    + cbn [lift llimit lorigin lpts]. rewrite H1, H2, H3. repeat split.
      symmetry in H4. apply Nat.leb_gt in H4. cbn [cut]. rewrite firstn_app.
      replace (m - length (rev (lpts back)))%nat with 0%nat by lia.
      cbn [firstn]. now rewrite app_nil_r.
  - (* no limit: nothing is refused *)
    rewrite lappend_all_unlimited by reflexivity. cbn [lempty_path lpts lorigin app].
    rewrite lappend_all_unlimited by reflexivity. cbn [fst lpts lorigin].
    intros R; injection R as <-. cbn [llimit lorigin lpts cut]. repeat split.
Qed.

Theorem lpaste_limit back forw ov req r :
  lpaste back forw ov req = Some r ->
  paste_limit req (llimit back) (llimit forw) = Some (llimit r) /\
  lorigin r = lorigin back - Z.of_nat (lplen back) + 1.
Proof. intros H. apply lpaste_spec in H as (A & B & _). auto. Qed.

Theorem lpaste_frames back forw ov req r :
  lpaste back forw ov req = Some r ->
  lpts r = cut (llimit r) (rev (lpts back) ++ lforw_part forw ov).
Proof. intros H. now apply lpaste_spec in H. Qed.

(* a pasted path without limit holds every frame *)
Theorem lpaste_unlimited back forw ov req r :
  lpaste back forw ov req = Some r -> llimit r = None ->
  lpts r = rev (lpts back) ++ lforw_part forw ov /\
  lplen r = (lplen back + (lplen forw - (if ov then 1 else 0)))%nat.
Proof.
  intros H N. apply lpaste_frames in H. rewrite N in H. cbn [cut] in H. split; [exact H|].
  unfold lplen at 1. now rewrite H, app_length, rev_length, lforw_part_length.
Qed.

Theorem paste_limit_spec req lb lf :
  (forall m, req = Some m -> paste_limit req lb lf = Some (Some m)) /\
  (req = None -> lb = None -> lf = None -> paste_limit req lb lf = Some None) /\
  (forall x y, req = None -> lb = Some x -> lf = Some y ->
     paste_limit req lb lf = Some (Some (Nat.max x y))) /\
  (paste_limit req lb lf = None <->
     req = None /\ ((lb = None /\ lf <> None) \/ (lb <> None /\ lf = None))).
Proof.
  repeat split.
  - intros m ->. reflexivity.
  - intros -> -> ->. reflexivity.
  - intros x y -> -> ->. cbn. destruct (Nat.eqb_spec x y) as [->|]; [now rewrite Nat.max_id | reflexivity].
  - destruct req; [discriminate | reflexivity].
  - destruct req, lb, lf; cbn in *; try discriminate;
      [right | left]; split; congruence.
  - intros (-> & [[-> Hf]|[Hb ->]]); [destruct lf | destruct lb]; cbn; congruence.
Qed.

Theorem lpaste_both_unlimited back forw ov :
  llimit back = None -> llimit forw = None ->
  exists r, lpaste back forw ov None = Some r /\ llimit r = None /\
            lpts r = rev (lpts back) ++ lforw_part forw ov.
Proof.
  intros Hb Hf. destruct (lpaste back forw ov None) as [r|] eqn:E.
  - pose proof (lpaste_limit _ _ _ _ _ E) as (L & _). rewrite Hb, Hf in L. cbn in L.
    injection L as L. exists r. split; [reflexivity|]. split; [auto|].
    now apply (lpaste_unlimited _ _ _ _ _ E).
  - unfold lpaste in E. rewrite Hb, Hf in E. cbn [paste_limit] in E.
    destruct (lappend_all _ _) in E. discriminate.
Qed.

(* ---------------------------------------------------------------- reverse / copy, any limit *)

Theorem lreverse_frames next p rv :
  fits (llimit p) (lplen p) ->
  map erase (lpts (lreverse next p rv)) =
  if rv then map eflip (rev (map erase (lpts p))) else rev (map erase (lpts p)).
Proof.
  destruct (llimit p) as [m|] eqn:E; cbn [fits]; intros H.
  - rewrite (lift_eta p m E), lift_reverse. cbn [lift lpts].
    apply (reverse_frames next (mkP (lpts p) m (lorigin p)) rv). exact H.
  - unfold lreverse. rewrite lappend_all_unlimited by exact E.
    cbn [fst lempty_path lpts app]. destruct rv.
    + now rewrite erase_flip, erase_copy_frames, map_rev.
    + now rewrite erase_copy_frames, map_rev.
Qed.

Lemma lreverse_length next p rv :
  fits (llimit p) (lplen p) -> lplen (lreverse next p rv) = lplen p.
Proof.
  intros H. apply (lreverse_frames next p rv) in H. apply (f_equal (@length _)) in H.
  unfold lplen. destruct rv; rewrite ?map_length, ?rev_length, ?map_length in H; exact H.
Qed.

Theorem lreverse_twice n1 n2 p rv :
  fits (llimit p) (lplen p) ->
  Forall2 same_frame (lpts (lreverse n2 (lreverse n1 p rv) rv)) (lpts p).
Proof.
  intros H. apply erase_same. rewrite lreverse_frames.
  - rewrite lreverse_frames by exact H. destruct rv.
    + rewrite <- map_rev, rev_involutive, map_map.
      rewrite <- (map_id (map erase (lpts p))) at 2. apply map_ext. apply eflip_invol.
    + now rewrite rev_involutive.
  - destruct (lreverse_limit n1 p rv) as (L & _). rewrite L, lreverse_length; exact H.
Qed.

Theorem lcopy_whole next p :
  fits (llimit p) (lplen p) ->
  Forall2 same_frame (lpts (lcopy next p)) (lpts p) /\
  llimit (lcopy next p) = llimit p /\ lorigin (lcopy next p) = lorigin p.
Proof.
  intros H. split; [|split; reflexivity]. apply erase_same.
  destruct (llimit p) as [m|] eqn:E; cbn [fits] in H.
  - rewrite (lift_eta p m E), lift_copy. cbn [lift lpts].
    apply (copy_frames_same next (mkP (lpts p) m (lorigin p))). exact H.
  - unfold lcopy. rewrite lappend_all_unlimited by (cbn; exact E).
    cbn [fst lempty_path lpts app]. apply erase_copy_frames.
Qed.

(* ---------------------------------------------------------------- consequence for append *)

Lemma lappend_ok p f : snd (lappend p f) = has_room (llimit p) (lplen p).
Proof. unfold lappend. destruct (has_room (llimit p) (lplen p)); reflexivity. Qed.

(* a path without limit, its copy and its reversal accept every further frame *)
Theorem unlimited_accepts n1 n2 p rv f :
  llimit p = None ->
  snd (lappend p f) = true /\
  snd (lappend (lreverse n1 p rv) f) = true /\
  snd (lappend (lcopy n2 p) f) = true.
Proof.
  intros H. rewrite !lappend_ok. destruct (lreverse_limit n1 p rv) as (L & _).
  rewrite L. cbn [lcopy llimit]. rewrite H. auto.
Qed.

Theorem pasted_unlimited_accepts back forw ov r f :
  llimit back = None -> llimit forw = None ->
  lpaste back forw ov None = Some r -> snd (lappend r f) = true.
Proof.
  intros Hb Hf E. apply lpaste_limit in E as (L & _). rewrite Hb, Hf in L. cbn in L.
  injection L as L. rewrite lappend_ok, <- L. reflexivity.
Qed.

(* with a number as limit, append is refused exactly from that length on *)
Theorem limited_refuses p f m :
  llimit p = Some m -> (snd (lappend p f) = true <-> (lplen p < m)%nat).
Proof. intros H. rewrite lappend_ok, H. cbn. apply Nat.ltb_lt. Qed.
