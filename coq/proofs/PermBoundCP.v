(* Bounded, by computation: weighted staircases (the block-wise / permanent_prob / Glynn code path
   as well as the fast path, whichever the weights select) with up to 3 plus-ensembles:
   weights in {1,2} with every set of busy ensembles, weights in {1,2,3} with nothing busy. *)
From Coq Require Import ZArith QArith List Bool Arith Lia.
From Inf Require Import model.PermM spec.PermS proofs.PermP.
Import ListNotations.
Open Scope Q_scope.

Lemma sweepw12_1 : forall rp, sweepw rp [1; 2] 1 = true. Proof. intro rp. vm_compute. reflexivity. Qed.
Lemma sweepw12_2 : forall rp, sweepw rp [1; 2] 2 = true. Proof. intro rp. vm_compute. reflexivity. Qed.
Lemma sweepw12_3 : forall rp, sweepw rp [1; 2] 3 = true. Proof. intro rp. vm_compute. reflexivity. Qed.
Lemma sweepw123_1 : forall rp, sweepw_nolock rp [1; 2; 3] 1 = true. Proof. intro rp. vm_compute. reflexivity. Qed.
Lemma sweepw123_2 : forall rp, sweepw_nolock rp [1; 2; 3] 2 = true. Proof. intro rp. vm_compute. reflexivity. Qed.
Lemma sweepw123_3 : forall rp, sweepw_nolock rp [1; 2; 3] 3 = true. Proof. intro rp. vm_compute. reflexivity. Qed.

Theorem inf_retis_eq_Pspec_weighted12_3 : forall rp m rows lk,
  (1 <= m <= 3)%nat ->
  length rows = m ->
  (forall row, In row rows -> (1 <= length row <= m)%nat /\ (forall w, In w row -> In w [1; 2])) ->
  length lk = S m ->
  refines_Pspec rp (wstair_matrix rows) (lk ++ [true]).
Proof.
  intros rp m rows lk Hm.
  assert (Hs : sweepw rp [1; 2] m = true).
  { destruct m as [|[|[|[|m]]]]; try lia; [apply sweepw12_1 | apply sweepw12_2 | apply sweepw12_3]. }
  exact (sweepw_sound rp [1; 2] m Hs rows lk).
Qed.

Theorem inf_retis_eq_Pspec_weighted123_3_idle : forall rp m rows,
  (1 <= m <= 3)%nat ->
  length rows = m ->
  (forall row, In row rows -> (1 <= length row <= m)%nat /\ (forall w, In w row -> In w [1; 2; 3])) ->
  refines_Pspec rp (wstair_matrix rows) (repeat false (S m) ++ [true]).
Proof.
  intros rp m rows Hm.
  assert (Hs : sweepw_nolock rp [1; 2; 3] m = true).
  { destruct m as [|[|[|[|m]]]]; try lia; [apply sweepw123_1 | apply sweepw123_2 | apply sweepw123_3]. }
  exact (sweepw_nolock_sound rp [1; 2; 3] m Hs rows).
Qed.
