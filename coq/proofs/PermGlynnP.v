(* Glynn's formula as coded in fast_glynn_perm (Gray-code loop) equals the permanent:
   - the normalisation Qred used by the executable model is immaterial (all sizes);
   - for symbolic matrices of size 1..6 the loop returns the permanent (by field);
   - the plain Glynn sum of spec/PermS.v equals the permanent for sizes 1..5. *)
From Coq Require Import ZArith NArith QArith Qabs List Bool Arith Lia Setoid Morphisms.
From Inf Require Import model.PermM spec.PermS proofs.PermSpecP.
Import ListNotations.
Open Scope Q_scope.

(* ------------------------------------------------------------------ *)
(* The normaliser does not matter                                       *)

Definition leq := Forall2 Qeq.

Lemma qprodl_proper : forall l1 l2, leq l1 l2 -> qprodl l1 == qprodl l2.
Proof. induction 1 as [|x y l1 l2 Hxy _ IH]; cbn; [reflexivity|]. rewrite Hxy, IH. reflexivity. Qed.

Lemma leq_refl : forall l, leq l l.
Proof. induction l; constructor; [reflexivity | assumption]. Qed.

Lemma zipw_leq : forall (f1 f2 : Q -> Q -> Q) l1 l2 v,
  (forall a b c, a == b -> f1 a c == f2 b c) -> leq l1 l2 -> leq (zipw f1 l1 v) (zipw f2 l2 v).
Proof.
  intros f1 f2 l1 l2 v Hf H. revert v. induction H as [|x y l1 l2 Hxy _ IH]; intros v; cbn.
  - constructor.
  - destruct v as [|c v]; constructor; [apply Hf; exact Hxy | apply IH].
Qed.

Definition gst_eq (s1 s2 : gst) : Prop :=
  g_total s1 == g_total s2 /\ g_old s1 = g_old s2 /\ g_sign s1 == g_sign s2 /\ leq (g_rc s1) (g_rc s2).

Definition ogst_eq (o1 o2 : option gst) : Prop :=
  match o1, o2 with
  | None, None => True
  | Some s1, Some s2 => gst_eq s1 s2
  | _, _ => False
  end.

Section Nrm.
Variables nrm1 nrm2 : Q -> Q.
Hypothesis nrm_eq : forall x y, x == y -> nrm1 x == nrm2 y.

Lemma glynn_step_with_eq : forall n M o1 o2 b,
  ogst_eq o1 o2 -> ogst_eq (glynn_step_with nrm1 n M o1 b) (glynn_step_with nrm2 n M o2 b).
Proof.
  intros n M [s1|] [s2|] b H; cbn in H; try contradiction; [|exact I].
  destruct H as (Ht & Ho & Hs & Hr). unfold glynn_step_with. rewrite Ho.
  destruct (power_index n (N.lxor (g_old s2) (N.lxor (N.of_nat b) (N.div2 (N.of_nat b))))) as [idx|];
    [|exact I].
  cbn. unfold gst_eq. cbn. repeat split.
  - apply nrm_eq. rewrite Ht, Hs, (qprodl_proper _ _ Hr). reflexivity.
  - rewrite Hs. reflexivity.
  - match goal with |- context [if ?c then _ else _] => destruct c end; [exact Hr|].
    apply zipw_leq; [|exact Hr]. intros a b0 c Hab. apply nrm_eq. rewrite Hab. reflexivity.
Qed.

Lemma glynn_fold_eq : forall n M bs o1 o2,
  ogst_eq o1 o2 ->
  ogst_eq (fold_left (glynn_step_with nrm1 n M) bs o1) (fold_left (glynn_step_with nrm2 n M) bs o2).
Proof.
  intros n M. induction bs as [|b bs IH]; intros o1 o2 H; cbn; [exact H|].
  apply IH. apply glynn_step_with_eq. exact H.
Qed.

Lemma col_sums_with_eq : forall m M, leq (col_sums_with nrm1 m M) (col_sums_with nrm2 m M).
Proof.
  intros m M. unfold col_sums_with. induction (seq 0 m) as [|j l IH]; cbn; constructor; [|exact IH].
  apply nrm_eq. reflexivity.
Qed.

Definition oq_eq (o1 o2 : option Q) : Prop :=
  match o1, o2 with
  | None, None => True
  | Some x, Some y => x == y
  | _, _ => False
  end.

Lemma fast_glynn_perm_with_eq : forall M,
  oq_eq (fast_glynn_perm_with nrm1 M) (fast_glynn_perm_with nrm2 M).
Proof.
  intros M. unfold fast_glynn_perm_with. destruct (length M) as [|n1] eqn:En; [exact I|].
  pose proof (glynn_fold_eq (S n1) M (seq 1 (2 ^ n1))
                (Some (mkG 0 0%N 1 (col_sums_with nrm1 (ncols M) M)))
                (Some (mkG 0 0%N 1 (col_sums_with nrm2 (ncols M) M)))) as H.
  cbv zeta.
  destruct (fold_left (glynn_step_with nrm1 (S n1) M) (seq 1 (2 ^ n1))
              (Some (mkG 0 0%N 1 (col_sums_with nrm1 (ncols M) M)))) as [s1|];
  destruct (fold_left (glynn_step_with nrm2 (S n1) M) (seq 1 (2 ^ n1))
              (Some (mkG 0 0%N 1 (col_sums_with nrm2 (ncols M) M)))) as [s2|]; cbn in *.
  - assert (Hs : gst_eq s1 s2).
    { apply H. unfold gst_eq; cbn. repeat split; try reflexivity. apply col_sums_with_eq. }
    destruct Hs as (Ht & _). apply nrm_eq. rewrite Ht. reflexivity.
  - apply H. unfold gst_eq; cbn. repeat split; try reflexivity. apply col_sums_with_eq.
  - apply H. unfold gst_eq; cbn. repeat split; try reflexivity. apply col_sums_with_eq.
  - exact I.
Qed.
End Nrm.

(* the executable model (Qred after every operation) computes the same number as the loop
   in plain exact arithmetic *)
Theorem fast_glynn_perm_Qred_immaterial : forall M,
  oq_eq (fast_glynn_perm M) (fast_glynn_perm_with (fun x => x) M).
Proof.
  intros M. unfold fast_glynn_perm. apply fast_glynn_perm_with_eq.
  intros x y H. rewrite Qred_correct. exact H.
Qed.

Lemma fast_glynn_from_plain : forall M g n,
  fast_glynn_perm_with (fun x => x) M = Some g -> g == perm n (of_lists M) ->
  exists p, fast_glynn_perm M = Some p /\ p == perm n (of_lists M).
Proof.
  intros M g n Hg Hp. pose proof (fast_glynn_perm_Qred_immaterial M) as H. rewrite Hg in H.
  destruct (fast_glynn_perm M) as [p|]; cbn in H; [|contradiction].
  exists p. split; [reflexivity|]. rewrite H. exact Hp.
Qed.

(* ------------------------------------------------------------------ *)
(* Symbolic sizes 1..6                                                  *)

Ltac glynn_tac n :=
  intros; eapply (fast_glynn_from_plain _ _ n);
  [ cbv -[Qplus Qmult Qdiv Qopp Qinv Qminus inject_Z]; reflexivity
  | cbn -[Qplus Qmult Qdiv Qopp Qinv Qminus inject_Z]; unfold inject_Z; field ].

Lemma fast_glynn_eq_perm_1 : forall x11,
  exists p, fast_glynn_perm [[x11]] = Some p /\
            p == perm 1 (of_lists [[x11]]).
Proof. glynn_tac 1%nat. Qed.

Lemma fast_glynn_eq_perm_2 : forall x11 x12 x21 x22,
  exists p, fast_glynn_perm [[x11; x12]; [x21; x22]] = Some p /\
            p == perm 2 (of_lists [[x11; x12]; [x21; x22]]).
Proof. glynn_tac 2%nat. Qed.

Lemma fast_glynn_eq_perm_3 : forall x11 x12 x13 x21 x22 x23 x31 x32 x33,
  exists p, fast_glynn_perm [[x11; x12; x13]; [x21; x22; x23]; [x31; x32; x33]] = Some p /\
            p == perm 3 (of_lists [[x11; x12; x13]; [x21; x22; x23]; [x31; x32; x33]]).
Proof. glynn_tac 3%nat. Qed.

Lemma fast_glynn_eq_perm_4 : forall x11 x12 x13 x14 x21 x22 x23 x24 x31 x32 x33 x34 x41 x42 x43 x44,
  exists p, fast_glynn_perm [[x11; x12; x13; x14]; [x21; x22; x23; x24]; [x31; x32; x33; x34]; [x41; x42; x43; x44]] = Some p /\
            p == perm 4 (of_lists [[x11; x12; x13; x14]; [x21; x22; x23; x24]; [x31; x32; x33; x34]; [x41; x42; x43; x44]]).
Proof. glynn_tac 4%nat. Qed.

Lemma fast_glynn_eq_perm_5 : forall x11 x12 x13 x14 x15 x21 x22 x23 x24 x25 x31 x32 x33 x34 x35 x41 x42 x43 x44 x45 x51 x52 x53 x54 x55,
  exists p, fast_glynn_perm [[x11; x12; x13; x14; x15]; [x21; x22; x23; x24; x25]; [x31; x32; x33; x34; x35]; [x41; x42; x43; x44; x45]; [x51; x52; x53; x54; x55]] = Some p /\
            p == perm 5 (of_lists [[x11; x12; x13; x14; x15]; [x21; x22; x23; x24; x25]; [x31; x32; x33; x34; x35]; [x41; x42; x43; x44; x45]; [x51; x52; x53; x54; x55]]).
Proof. glynn_tac 5%nat. Qed.

Lemma fast_glynn_eq_perm_6 : forall x11 x12 x13 x14 x15 x16 x21 x22 x23 x24 x25 x26 x31 x32 x33 x34 x35 x36 x41 x42 x43 x44 x45 x46 x51 x52 x53 x54 x55 x56 x61 x62 x63 x64 x65 x66,
  exists p, fast_glynn_perm [[x11; x12; x13; x14; x15; x16]; [x21; x22; x23; x24; x25; x26]; [x31; x32; x33; x34; x35; x36]; [x41; x42; x43; x44; x45; x46]; [x51; x52; x53; x54; x55; x56]; [x61; x62; x63; x64; x65; x66]] = Some p /\
            p == perm 6 (of_lists [[x11; x12; x13; x14; x15; x16]; [x21; x22; x23; x24; x25; x26]; [x31; x32; x33; x34; x35; x36]; [x41; x42; x43; x44; x45; x46]; [x51; x52; x53; x54; x55; x56]; [x61; x62; x63; x64; x65; x66]]).
Proof. glynn_tac 6%nat. Qed.

(* every rational matrix of size n <= 6, given as a list of lists *)
Definition square (n : nat) (M : matrix) : Prop := length M = n /\ Forall (fun r => length r = n) M.

Ltac destr_len :=
  repeat match goal with
  | H : length ?l = S _ |- _ =>
      destruct l as [|? ?]; [discriminate H | cbn [length] in H; apply Nat.succ_inj in H]
  | H : length ?l = O |- _ => destruct l as [|? ?]; [clear H | discriminate H]
  | H : Forall _ (_ :: _) |- _ =>
      let a := fresh "Ha" in let b := fresh "Hb" in
      inversion H as [|? ? a b]; clear H; subst; cbn beta in a
  | H : Forall _ [] |- _ => clear H
  end.

Theorem fast_glynn_eq_perm_le6 : forall n M, (1 <= n <= 6)%nat -> square n M ->
  exists p, fast_glynn_perm M = Some p /\ p == perm n (of_lists M).
Proof.
  intros n M Hn [Hl Hr].
  destruct n as [|[|[|[|[|[|[|n]]]]]]]; try lia; destr_len.
  - apply fast_glynn_eq_perm_1.
  - apply fast_glynn_eq_perm_2.
  - apply fast_glynn_eq_perm_3.
  - apply fast_glynn_eq_perm_4.
  - apply fast_glynn_eq_perm_5.
  - apply fast_glynn_eq_perm_6.
Qed.

(* the plain Glynn sum over sign vectors (spec/PermS.v) *)
Ltac plain_tac :=
  intros M; cbn -[Qplus Qmult Qdiv Qopp Qinv Qminus inject_Z]; unfold minor, skip;
  cbn -[Qplus Qmult Qdiv Qopp Qinv Qminus inject_Z]; unfold inject_Z; field.
Lemma glynn_plain_eq_perm_1 : forall M, glynn_plain 1 M == perm 1 M. Proof. plain_tac. Qed.
Lemma glynn_plain_eq_perm_2 : forall M, glynn_plain 2 M == perm 2 M. Proof. plain_tac. Qed.
Lemma glynn_plain_eq_perm_3 : forall M, glynn_plain 3 M == perm 3 M. Proof. plain_tac. Qed.
Lemma glynn_plain_eq_perm_4 : forall M, glynn_plain 4 M == perm 4 M. Proof. plain_tac. Qed.
Lemma glynn_plain_eq_perm_5 : forall M, glynn_plain 5 M == perm 5 M. Proof. Time plain_tac. Qed.

Theorem glynn_plain_eq_perm_le5 : forall n M, (n <= 5)%nat -> glynn_plain n M == perm n M.
Proof.
  intros n M Hn. destruct n as [|[|[|[|[|[|n]]]]]]; try lia.
  - reflexivity.
  - apply glynn_plain_eq_perm_1.
  - apply glynn_plain_eq_perm_2.
  - apply glynn_plain_eq_perm_3.
  - apply glynn_plain_eq_perm_4.
  - apply glynn_plain_eq_perm_5.
Qed.
