(* Glue, part 4: REPEX_state.inf_retis = exact permanent ratios on the whole reachable family,
   every size.

   For every number m of plus ensembles, every lock vector b0 :: lk' ++ [true] (ghost ensemble
   locked) and every state matrix wstair_matrix rows (spec/PermS.v) with POSITIVE weights
   (row r = its l_r weights, 1 <= l_r <= m), inf_retis - the model's stable argsort, the
   all-equal test, find_blocks, and per block: the 1 x 1 shortcut, quick_prob or
   permanent_prob - returns Pspec on the idle block and zero on busy rows / columns
   ([refines_Pspec] of proofs/PermP.v), PROVIDED every non-uniform block found by find_blocks
   has at most 12 rows (wstair_positive_refines): larger non-uniform blocks go to the
   Monte-Carlo random_prob, which is outside the exactness claim.  In particular with at most
   12 idle plus ensembles (wstair_positive_refines_le12).

   The steps: np.argsort of the plus keys orders the rows by support length (argsort_sorted,
   pos_key_val; this needs perm <> 0, i.e. no all-zero idle row); on such a sorted staircase
   the row counts of find_blocks' temp matrix are the support lengths (fb_nz), fb_loop cuts
   consecutive diagonal blocks at the indices i with count_i = i+1 (fb_loop_spec), the matrix
   is block lower-triangular for them (blt_of_bounds), the last cut is at the end because
   perm <> 0 (nzf_last), every block is good in the sense of PermBlockLoopP.v (good_block),
   and inf_core_blocks / inf_core_fast / inf_retis_with_of_core finish.
   family2_refines_with is the same for any tie order of argsort that sorts the plus rows by
   support length. *)
From Coq Require Import ZArith QArith Qabs List Bool Arith Lia Setoid Morphisms Permutation.
From Inf Require Import spec.PermS model.PermM proofs.PermSpecP proofs.PermQuickP
  proofs.PermQuickSpecP proofs.PermGlynnP proofs.PermIdleP proofs.PermP proofs.PermPermanentP
  proofs.PermPermuteP proofs.PermBlockP proofs.PermFastP proofs.PermFastFamilyP proofs.PermBlockLoopP.
Import ListNotations.
Open Scope Q_scope.

(* ------------------------------------------------------------------ *)
(* argsort sorts                                                        *)

Fixpoint ssorted (l : list (Z * nat)) : Prop :=
  match l with
  | [] => True
  | x :: r => Forall (fun y => (fst x <= fst y)%Z) r /\ ssorted r
  end.

Lemma ins_key_ssorted : forall x l, ssorted l -> ssorted (ins_key x l).
Proof.
  intros x. induction l as [|y r IH]; intros H; [cbn; split; [constructor | exact I]|].
  destruct H as [H1 H2]. cbn [ins_key]. destruct (Z.leb_spec (fst x) (fst y)) as [L | L].
  - split; [|split; assumption]. constructor; [exact L|].
    rewrite Forall_forall in *. intros z Hz. specialize (H1 z Hz). lia.
  - split; [|apply IH; exact H2]. rewrite Forall_forall in *. intros z Hz.
    apply (Permutation_in _ (ins_key_Permutation x r)) in Hz. destruct Hz as [<- | Hz]; [lia | apply H1; exact Hz].
Qed.

Lemma ssorted_nth : forall l d a a', ssorted l -> (a < a')%nat -> (a' < length l)%nat ->
  (fst (nth a l d) <= fst (nth a' l d))%Z.
Proof.
  induction l as [|x r IH]; intros d a a' H Ha Ha'; [cbn in Ha'; lia|].
  destruct H as [H1 H2]. destruct a' as [|a']; [lia|]. cbn [length] in Ha'. destruct a as [|a].
  - cbn [nth]. rewrite Forall_forall in H1. apply H1. apply nth_In. lia.
  - cbn [nth]. apply IH; [exact H2 | lia | lia].
Qed.

Lemma argsort_sorted : forall keys a a', (a < a')%nat -> (a' < length keys)%nat ->
  (nth (nth a (argsort keys) O) keys 0 <= nth (nth a' (argsort keys) O) keys 0)%Z.
Proof.
  intros keys a a' Ha Ha'. unfold argsort.
  set (C := combine keys (seq 0 (length keys))). set (L := fold_right ins_key [] C).
  assert (HP : Permutation L C).
  { unfold L. generalize C. intros l. induction l as [|x l IH]; [constructor|]. cbn [fold_right].
    apply (Permutation_trans (ins_key_Permutation x _)). constructor. exact IH. }
  assert (HS : ssorted L).
  { unfold L. generalize C. intros l. induction l as [|x l IH]; [exact I|]. cbn [fold_right].
    apply ins_key_ssorted. exact IH. }
  assert (LL : length L = length keys).
  { rewrite (Permutation_length HP). unfold C. rewrite combine_length, seq_length. lia. }
  assert (HK : forall x, In x L -> fst x = nth (snd x) keys 0%Z).
  { intros x Hx. apply (Permutation_in _ HP) in Hx. unfold C in Hx.
    apply (In_nth _ _ (0%Z, O)) in Hx as (j & Hj & <-).
    rewrite combine_length, seq_length, Nat.min_id in Hj.
    rewrite combine_nth by (rewrite seq_length; reflexivity). cbn [fst snd].
    rewrite seq_nth by exact Hj. reflexivity. }
  assert (Hn : forall b, (b < length keys)%nat ->
            nth (nth b (map snd L) O) keys 0%Z = fst (nth b L (0%Z, O))).
  { intros b Hb. change O with (snd (0%Z, O)) at 1. rewrite map_nth.
    symmetry. apply HK. apply nth_In. lia. }
  rewrite (Hn a ltac:(lia)), (Hn a' Ha'). apply ssorted_nth; [exact HS | exact Ha | lia].
Qed.

(* ------------------------------------------------------------------ *)
(* argmax_pos, count_nonzero                                            *)

Lemma first_pos_from_spec : forall l1 i x l2, Forall (fun y => y <= 0) l1 -> 0 < x ->
  first_pos_from i (l1 ++ x :: l2) = (i + length l1)%nat.
Proof.
  induction l1 as [|y l1 IH]; intros i x l2 H Hx.
  - cbn. destruct (Qlt_le_dec 0 x) as [_ | L]; [lia | exfalso; exact (Qlt_not_le _ _ Hx L)].
  - inversion H; subst. cbn [app first_pos_from length].
    destruct (Qlt_le_dec 0 y) as [L | _]; [exfalso; exact (Qlt_not_le _ _ L H2)|].
    rewrite IH by assumption. lia.
Qed.

Lemma first_pos_nth : forall l n i, (n < length l)%nat ->
  (forall j, (j < n)%nat -> nth j l 0 <= 0) -> 0 < nth n l 0 ->
  first_pos_from i l = (i + n)%nat.
Proof.
  induction l as [|y l IH]; intros n i Hn Hz Hp; [cbn in Hn; lia|].
  cbn [first_pos_from]. destruct n as [|n].
  - cbn [nth] in Hp. destruct (Qlt_le_dec 0 y) as [_ | L]; [lia | exfalso; exact (Qlt_not_le _ _ Hp L)].
  - pose proof (Hz O ltac:(lia)) as H0. cbn [nth] in H0.
    destruct (Qlt_le_dec 0 y) as [L | _]; [exfalso; exact (Qlt_not_le _ _ L H0)|].
    rewrite (IH n (Datatypes.S i)); [lia | cbn in Hn; lia | | exact Hp].
    intros j Hj. apply (Hz (Datatypes.S j)). lia.
Qed.

Lemma count_prefix : forall (f : nat -> Q) t k,
  (forall c, (c < k)%nat -> (f c == 0 <-> (t <= c)%nat)) ->
  count_nonzero (map f (seq 0 k)) = Nat.min t k.
Proof.
  intros f t. unfold count_nonzero. induction k as [|k IH]; intros H; [cbn; lia|].
  rewrite seq_S, map_app, filter_app, app_length. rewrite IH by (intros c Hc; apply H; lia).
  cbn [plus map filter]. specialize (H k ltac:(lia)).
  destruct (Qeq_bool (f k) 0) eqn:E; cbn [negb length].
  - apply Qeq_bool_iff in E. apply H in E. lia.
  - destruct (Nat.le_gt_cases t k) as [L | L]; [|lia].
    apply H in L. apply Qeq_bool_iff in L. congruence.
Qed.

(* ------------------------------------------------------------------ *)
(* fb_loop                                                              *)

Section FbLoop.
Variable p : nat.
Variable nzf : nat -> nat.
Hypothesis Hdir : forall st, (st < p)%nat -> nzf st = (st + 1)%nat.

Fixpoint bounds_ok (off : nat) (bs : list nat) : Prop :=
  match bs with
  | [] => True
  | s :: r => nzf (off + s - 1) = (off + s)%nat /\ bounds_ok (off + s) r
  end.

Fixpoint minus_single (off : nat) (bs : list nat) : Prop :=
  match bs with
  | [] => True
  | s :: r => ((off < p)%nat -> s = 1%nat) /\ minus_single (off + s) r
  end.

Lemma fb_loop_spec : forall n i start, (start <= i)%nat -> ((start < p)%nat -> i = start) ->
  exists bs, wf_blocks start (fb_loop p start i (map nzf (seq i n))) bs /\
             (bounds_ok start bs /\ minus_single start bs) /\
             (start + total bs <= i + n)%nat /\
             ((1 <= n)%nat -> nzf (i + n - 1) = (i + n)%nat -> (start + total bs = i + n)%nat).
Proof.
  induction n as [|n IH]; intros i start Hle Hinv.
  - exists []. cbn. repeat split; lia.
  - cbn [seq map fb_loop]. destruct (Nat.eqb_spec (nzf i) (i + 1)) as [E | NE].
    + destruct (IH (Datatypes.S i) (nzf i) ltac:(lia) ltac:(lia)) as (bs & W1 & [W2 W2'] & W3 & W4).
      exists ((i + 1 - start)%nat :: bs). rewrite E in *.
      replace (start + (i + 1 - start))%nat with (i + 1)%nat by lia.
      split; [|split; [|split]].
      * cbn [wf_blocks]. replace (start + (i + 1 - start))%nat with (i + 1)%nat by lia.
        split; [reflexivity|]. split; [reflexivity|]. split; [lia|]. split; [|exact W1].
        destruct (Nat.ltb_spec start p) as [L | L]; [right; specialize (Hinv L); lia | left; reflexivity].
      * cbn [bounds_ok minus_single]. replace (start + (i + 1 - start))%nat with (i + 1)%nat by lia.
        split; [split; [|exact W2]; replace (i + 1 - 1)%nat with i by lia; exact E|].
        split; [intros L; specialize (Hinv L); lia | exact W2'].
      * cbn [total fold_right]. fold (total bs). lia.
      * intros _ Hlast. cbn [total fold_right]. fold (total bs).
        destruct n as [|n'].
        -- cbn [seq map fb_loop] in W1. destruct bs; [cbn; lia | destruct W1].
        -- specialize (W4 ltac:(lia)). replace (Datatypes.S i + Datatypes.S n' - 1)%nat with (i + Datatypes.S (Datatypes.S n') - 1)%nat in W4 by lia.
           specialize (W4 ltac:(rewrite Hlast; lia)). lia.
    + assert (Hp : (p <= start)%nat).
      { destruct (Nat.lt_ge_cases start p) as [L | L]; [|exact L].
        specialize (Hinv L). subst i. rewrite (Hdir start L) in NE. lia. }
      destruct (IH (Datatypes.S i) start ltac:(lia) ltac:(lia)) as (bs & W1 & W2 & W3 & W4).
      exists bs. split; [exact W1|]. split; [exact W2|]. split; [lia|].
      intros _ Hlast. destruct n as [|n'].
      * replace (i + 1 - 1)%nat with i in Hlast by lia. lia.
      * specialize (W4 ltac:(lia)). replace (Datatypes.S i + Datatypes.S n' - 1)%nat with (i + Datatypes.S (Datatypes.S n') - 1)%nat in W4 by lia.
        specialize (W4 ltac:(rewrite Hlast; lia)). lia.
Qed.

Lemma blt_of_bounds : forall k (W : mat),
  (forall a b, (a <= b)%nat -> (b < k)%nat -> (nzf a <= nzf b)%nat) ->
  (forall a b, (a < k)%nat -> (b < k)%nat -> (nzf a <= b)%nat -> W a b == 0) ->
  forall bs off, bounds_ok off bs -> Forall (fun s => (1 <= s)%nat) bs -> (off + total bs <= k)%nat ->
  blt bs off W.
Proof.
  intros k W Hmono Hsup. induction bs as [|s r IH]; intros off Hb Hs Hk; [exact I|].
  destruct Hb as [Hb1 Hb2]. inversion Hs; subst. cbn [total fold_right] in Hk. fold (total r) in Hk.
  split; [|apply IH; [exact Hb2 | assumption | lia]].
  intros a b Ha Hb. apply Hsup; [lia | lia|].
  pose proof (Hmono a (off + s - 1)%nat ltac:(lia) ltac:(lia)). lia.
Qed.

End FbLoop.

Lemma wf_blocks_sizes : forall blocks off bs, wf_blocks off blocks bs -> Forall (fun s => (1 <= s)%nat) bs.
Proof.
  induction blocks as [|[[st en] d] rb IH]; intros off bs H; destruct bs as [|s rs]; try (destruct H; fail); [constructor|].
  destruct H as (_ & _ & Hs & _ & H). constructor; [exact Hs | exact (IH _ _ H)].
Qed.

Lemma perm_zero_col : forall n W j, (j < n)%nat -> (forall a, (a < n)%nat -> W a j == 0) -> perm n W == 0.
Proof.
  intros n W j Hj H. rewrite (perm_expand_col n W j Hj). apply qsum_all_zero.
  intros k Hk. rewrite (H k Hk). ring.
Qed.

Lemma rows_test_entries : forall (M : matrix) ref a c,
  rows_equal_or_zero M ref = true -> (a < length M)%nat -> (c < length (rownth M a))%nat ->
  mget M a c == mget M a ref \/ mget M a c == 0.
Proof.
  intros M ref a c H Ha Hc. unfold rows_equal_or_zero in H. rewrite forallb_forall in H.
  specialize (H (rownth M a) ltac:(unfold rownth; apply nth_In; exact Ha)).
  rewrite forallb_forall in H. specialize (H (mget M a c) ltac:(unfold mget, qnth; apply nth_In; exact Hc)).
  apply orb_true_iff in H. destruct H as [H | H]; apply Qeq_bool_iff in H; [left | right]; exact H.
Qed.

Lemma square1_test : forall (M : matrix), square 1 M -> rows_equal_or_zero M 0 = true.
Proof.
  intros M [Hl Hr]. destruct M as [|r M]; [discriminate|]. destruct M; [|discriminate].
  inversion Hr; subst. destruct r as [|x r]; [discriminate|]. destruct r; [|discriminate].
  unfold rows_equal_or_zero. cbn. assert (E : Qeq_bool x x = true) by (apply Qeq_bool_iff; reflexivity).
  rewrite E. reflexivity.
Qed.

Lemma mget_skipn_rows2 : forall z (M : matrix) a c, mget (skipn z M) a c = mget M (z + a) c.
Proof. intros z M a c. unfold mget, rownth. rewrite nth_skipn_plus. reflexivity. Qed.

Lemma in_skipn_in : forall {A} n (l : list A) x, In x (skipn n l) -> In x l.
Proof.
  intros A. induction n as [|n IH]; intros l x H; [exact H|]. destruct l as [|y l]; [exact H|].
  right. apply IH. exact H.
Qed.

Lemma in_firstn_in : forall {A} n (l : list A) x, In x (firstn n l) -> In x l.
Proof.
  intros A. induction n as [|n IH]; intros l x H; [destruct H|]. destruct l as [|y l]; [exact H|].
  destruct H as [-> | H]; [now left | right; apply IH; exact H].
Qed.

Lemma cntlt_le : forall v l, (cntlt v l <= length l)%nat.
Proof.
  intros v l. unfold cntlt. induction l as [|x l IH]; [cbn; lia|]. cbn [filter length].
  destruct (x <? v)%nat; cbn [length]; lia.
Qed.

(* ------------------------------------------------------------------ *)
(* the reachable family with arbitrary positive weights                 *)

Section Family2.
Set Default Proof Using "All".
Variable rp : matrix -> matrix.
Variable rows : list (list Q).
Let m := length rows.
Variable wfn : nat -> nat -> Q.
Variable lf : nat -> nat.
Hypothesis Hrows : forall r, (r < m)%nat ->
  nth r rows [] = map (wfn r) (seq 0 (lf r)) /\ (forall j, (j < lf r)%nat -> 0 < wfn r j) /\ (lf r <= m)%nat.
Variable b0 : bool.
Variable lk' : list bool.
Hypothesis Hlk : length lk' = m.

Let W := wstair_matrix rows.
Let locks := b0 :: lk' ++ [true].
Let J := idle_idx (lk' ++ [true]).
Let q := length J.
Let p := if b0 then O else 1%nat.
Let idx := idle_idx locks.
Let U := idle_block W locks.

Lemma W2_length : length W = Datatypes.S (Datatypes.S m).
Proof.
  unfold W, wstair_matrix. cbv zeta. rewrite app_length. cbn [length]. rewrite map_length. fold m. lia.
Qed.

Lemma W2_row0 : rownth W 0 = 1 :: repeat 0 (Datatypes.S m).
Proof. reflexivity. Qed.

Lemma W2_rowS : forall i, (i < m)%nat ->
  rownth W (Datatypes.S i) = stair_row m (map (wfn i) (seq 0 (lf i))).
Proof.
  intros i Hi. unfold W, wstair_matrix, rownth. cbv zeta. fold m. cbn [app nth].
  rewrite app_nth1 by (rewrite map_length; exact Hi).
  rewrite (nth_indep _ [] (stair_row m [])) by (rewrite map_length; exact Hi).
  rewrite map_nth. destruct (Hrows i Hi) as [E _]. rewrite E. reflexivity.
Qed.

Lemma W2_square : square (Datatypes.S (Datatypes.S m)) W.
Proof.
  split; [exact W2_length|]. rewrite Forall_forall. intros r Hin.
  apply (In_nth _ _ []) in Hin as (i & Hi & <-). rewrite W2_length in Hi.
  destruct i as [|i].
  - fold (rownth W 0). rewrite W2_row0. cbn [length]. rewrite repeat_length. reflexivity.
  - destruct (Nat.lt_ge_cases i m) as [L | L].
    + fold (rownth W (Datatypes.S i)). rewrite (W2_rowS i L). unfold stair_row.
      destruct (Hrows i L) as (_ & _ & Hl).
      rewrite app_length. cbn [length]. rewrite map_length, seq_length, repeat_length. lia.
    + assert (i = m) by lia. subst i. unfold W, wstair_matrix. cbv zeta. fold m. cbn [app nth].
      rewrite app_nth2 by (rewrite map_length; fold m; lia). rewrite map_length. fold m.
      rewrite Nat.sub_diag. cbn [nth]. rewrite repeat_length. reflexivity.
Qed.

Lemma W2_00 : mget W 0 0 = 1.
Proof. reflexivity. Qed.

Lemma W2_0S : forall j, mget W 0 (Datatypes.S j) = 0.
Proof. intros j. unfold mget. rewrite W2_row0. unfold qnth. cbn [nth]. apply nth_repeat_same. Qed.

Lemma W2_S0 : forall i, (i < m)%nat -> mget W (Datatypes.S i) 0 = 0.
Proof. intros i Hi. unfold mget. rewrite (W2_rowS i Hi). reflexivity. Qed.

Lemma W2_SS : forall i j, (i < m)%nat ->
  mget W (Datatypes.S i) (Datatypes.S j) = if (j <? lf i)%nat then wfn i j else 0.
Proof.
  intros i j Hi. unfold mget. rewrite (W2_rowS i Hi). unfold stair_row, qnth. cbn [app nth].
  destruct (Nat.ltb_spec j (lf i)) as [L | L].
  - rewrite app_nth1 by (rewrite map_length, seq_length; exact L).
    rewrite (nth_indep _ 0 (wfn i O)) by (rewrite map_length, seq_length; exact L).
    rewrite map_nth, seq_nth by exact L. reflexivity.
  - rewrite app_nth2 by (rewrite map_length, seq_length; exact L). apply nth_repeat_same.
Qed.

Lemma locks2_length : length locks = Datatypes.S (Datatypes.S m).
Proof. unfold locks. cbn [length]. rewrite app_length. cbn [length]. lia. Qed.

Lemma J2_lt : forall a, (a < q)%nat -> (nth a J O < m)%nat.
Proof.
  intros a Ha. pose proof (idle_idx_lt (lk' ++ [true]) a Ha) as H1.
  pose proof (idle_idx_unlocked (lk' ++ [true]) a Ha) as H2. fold J in H1, H2.
  rewrite app_length in H1. cbn [length] in H1.
  destruct (Nat.eq_dec (nth a J O) m) as [E | NE]; [|lia].
  rewrite E in H2. rewrite app_nth2 in H2 by lia. rewrite Hlk, Nat.sub_diag in H2. discriminate.
Qed.

Lemma idx2_eq : idx = if b0 then map Datatypes.S J else O :: map Datatypes.S J.
Proof. unfold idx, locks. apply idle_idx_cons. Qed.

Lemma p2_cases : (b0 = true /\ p = O) \/ (b0 = false /\ p = 1%nat).
Proof. unfold p. destruct b0; [left | right]; split; reflexivity. Qed.

Lemma idx2_length : length idx = (p + q)%nat.
Proof. rewrite idx2_eq. unfold p, q. destruct b0; cbn [length]; rewrite map_length; reflexivity. Qed.

Lemma idx2_plus : forall a, (a < q)%nat -> nth (p + a) idx O = Datatypes.S (nth a J O).
Proof.
  intros a Ha. rewrite idx2_eq. unfold p. destruct b0; cbn [plus nth];
    rewrite (nth_indep _ O (Datatypes.S O)) by (rewrite map_length; exact Ha); apply map_nth.
Qed.

Lemma idx2_0 : b0 = false -> nth 0 idx O = O.
Proof. intros E. rewrite idx2_eq, E. reflexivity. Qed.

Lemma U2_length : length U = (p + q)%nat.
Proof. unfold U, idle_block. cbv zeta. rewrite map_length. exact idx2_length. Qed.

Lemma U2_mget : forall a b, (a < p + q)%nat -> (b < p + q)%nat ->
  mget U a b = mget W (nth a idx O) (nth b idx O).
Proof.
  intros a b Ha Hb. unfold U, idle_block. cbv zeta. fold idx. unfold mget at 1, rownth.
  rewrite (nth_indep _ [] ((fun i => map (fun j => nth j (nth i W []) 0) idx) O))
    by (rewrite map_length, idx2_length; exact Ha).
  rewrite (map_nth (fun i => map (fun j => nth j (nth i W []) 0) idx)).
  unfold qnth.
  rewrite (nth_indep _ 0 ((fun j => nth j (nth (nth a idx O) W []) 0) O))
    by (rewrite map_length, idx2_length; exact Hb).
  rewrite (map_nth (fun j => nth j (nth (nth a idx O) W []) 0)). reflexivity.
Qed.

Lemma U2_square : square (p + q) U.
Proof. rewrite <- idx2_length. apply square_idle_block. Qed.

Lemma U2_plus_zero : forall a c, (a < q)%nat -> (c < p)%nat -> mget U (p + a) c = 0.
Proof.
  intros a c Ha Hc. rewrite U2_mget by lia. rewrite (idx2_plus a Ha).
  destruct p2_cases as [[E Ep] | [E Ep]]; [lia|]. assert (c = O) by lia. subst c.
  rewrite (idx2_0 E). apply W2_S0. apply J2_lt. exact Ha.
Qed.

Lemma U2_plus_plus : forall a c, (a < q)%nat -> (c < q)%nat ->
  mget U (p + a) (p + c) =
  if (nth c J O <? lf (nth a J O))%nat then wfn (nth a J O) (nth c J O) else 0.
Proof.
  intros a c Ha Hc. rewrite U2_mget by lia. rewrite (idx2_plus a Ha), (idx2_plus c Hc).
  apply W2_SS. apply J2_lt. exact Ha.
Qed.

Lemma U2_minus : forall c, p = 1%nat -> (c < 1 + q)%nat -> mget U 0 c = if (c =? 0)%nat then 1 else 0.
Proof.
  intros c Ep Hc. destruct p2_cases as [[E Ep'] | [E _]]; [lia|].
  rewrite U2_mget by lia. rewrite (idx2_0 E). destruct c as [|c]; [rewrite (idx2_0 E); reflexivity|].
  pose proof (idx2_plus c ltac:(lia)) as Ei. rewrite Ep in Ei. cbn [plus] in Ei. rewrite Ei.
  apply W2_0S.
Qed.

Definition kfp2 (a : nat) : nat := cntlt (lf (nth a J O)) J.

Lemma kfp2_le : forall a, (kfp2 a <= q)%nat.
Proof. intros a. apply cntlt_le. Qed.

Lemma U2_plus_support : forall a c, (a < q)%nat -> (c < q)%nat ->
  (mget U (p + a) (p + c) == 0 <-> (kfp2 a <= c)%nat) /\
  ((c < kfp2 a)%nat -> 0 < mget U (p + a) (p + c)).
Proof.
  intros a c Ha Hc. rewrite U2_plus_plus by assumption.
  pose proof (incr_nth_lt J 0 (lf (nth a J O)) c (idle_idx_incr _) Hc) as HJ. fold (kfp2 a) in HJ.
  destruct (Hrows (nth a J O) (J2_lt a Ha)) as (_ & Hpos & _).
  destruct (Nat.ltb_spec (nth c J O) (lf (nth a J O))) as [L | L].
  - specialize (Hpos _ L). split; [split; [intros E; rewrite E in Hpos; discriminate Hpos | lia] | intros _; exact Hpos].
  - split; [split; [lia | reflexivity] | lia].
Qed.


(* ---- what np.argsort of the plus keys gives (the model's stable argsort, or any other) ---- *)

Lemma locks2_offset : (1 - count_true (firstn 1 locks))%nat = p.
Proof. unfold locks, p. cbn [firstn]. unfold count_true. destruct b0; reflexivity. Qed.

Lemma unlocked2 : unlocked W locks = U.
Proof. apply unlocked_idle_block. rewrite locks2_length. exact W2_square. Qed.

Lemma kfp2_pos : ~ perm (p + q) (of_lists U) == 0 -> forall t, (t < q)%nat -> (1 <= kfp2 t)%nat.
Proof.
  intros Hperm' t Ht. destruct (Nat.eq_dec (kfp2 t) 0) as [E | NE]; [|lia]. exfalso. apply Hperm'.
  apply (perm_zero_row (p + q) _ (p + t)%nat ltac:(lia)). intros b Hb.
  change (of_lists U (p + t)%nat b) with (mget U (p + t) b).
  destruct (Nat.lt_ge_cases b p) as [L | L].
  - rewrite U2_plus_zero by assumption. reflexivity.
  - replace b with (p + (b - p))%nat by lia.
    apply (proj1 (U2_plus_support t (b - p)%nat Ht ltac:(lia))). lia.
Qed.

Lemma pos_keys_length : length (pos_keys 1 W locks) = q.
Proof.
  unfold pos_keys. cbv zeta. rewrite map_length. fold (unlocked W locks).
  rewrite unlocked2, locks2_offset, skipn_length, U2_length. lia.
Qed.

Lemma pos_key_val : ~ perm (p + q) (of_lists U) == 0 -> forall t, (t < q)%nat ->
  nth t (pos_keys 1 W locks) 0%Z = (-1 * Z.of_nat (q - kfp2 t))%Z.
Proof.
  intros Hperm' t Ht. pose proof (kfp2_pos Hperm' t Ht) as Hk1'. pose proof (kfp2_le t) as Hk2'.
  unfold pos_keys. cbv zeta. fold (unlocked W locks). rewrite unlocked2, locks2_offset.
  set (f := fun row : list Q => (-1 * Z.of_nat (argmax_pos (rev row)))%Z).
  rewrite (nth_indep _ 0%Z (f [])) by (rewrite map_length, skipn_length, U2_length; lia).
  rewrite (map_nth f). unfold f. rewrite nth_skipn_plus. fold (rownth U (p + t)).
  f_equal. f_equal. unfold argmax_pos.
  assert (Lr : length (rownth U (p + t)) = (p + q)%nat)
    by (apply (PermGlynnGrayP.square_row_length _ _ _ U2_square); lia).
  assert (Hn : forall j, (j < p + q)%nat ->
            nth j (rev (rownth U (p + t))) 0 = mget U (p + t) (p + q - 1 - j)).
  { intros j Hj. rewrite rev_nth by lia. rewrite Lr. unfold mget, qnth. f_equal. lia. }
  rewrite (first_pos_nth (rev (rownth U (p + t))) (q - kfp2 t) 0); [lia | rewrite rev_length, Lr; lia | |].
  - intros j Hj. rewrite Hn by lia. replace (p + q - 1 - j)%nat with (p + (q - 1 - j))%nat by lia.
    rewrite (proj2 (proj1 (U2_plus_support t (q - 1 - j)%nat Ht ltac:(lia))) ltac:(lia)). apply Qle_refl.
  - rewrite Hn by lia. replace (p + q - 1 - (q - kfp2 t))%nat with (p + (kfp2 t - 1))%nat by lia.
    apply (proj2 (U2_plus_support t (kfp2 t - 1)%nat Ht ltac:(lia))). lia.
Qed.

Lemma argsort_pos_Permutation : Permutation (argsort (pos_keys 1 W locks)) (seq 0 q).
Proof. rewrite <- pos_keys_length. apply argsort_Permutation. Qed.

Lemma argsort_pos_sorted : ~ perm (p + q) (of_lists U) == 0 -> forall a a', (a < a')%nat -> (a' < q)%nat ->
  (kfp2 (nth a (argsort (pos_keys 1 W locks)) O) <= kfp2 (nth a' (argsort (pos_keys 1 W locks)) O))%nat.
Proof.
  intros Hperm' a a' Ha Ha'.
  pose proof (argsort_sorted (pos_keys 1 W locks) a a' Ha ltac:(rewrite pos_keys_length; exact Ha')) as H.
  pose proof (Permutation_seq_nth_lt q _ a argsort_pos_Permutation ltac:(lia)) as L1.
  pose proof (Permutation_seq_nth_lt q _ a' argsort_pos_Permutation Ha') as L2.
  rewrite (pos_key_val Hperm' _ L1), (pos_key_val Hperm' _ L2) in H.
  pose proof (kfp2_le (nth a (argsort (pos_keys 1 W locks)) O)).
  pose proof (kfp2_le (nth a' (argsort (pos_keys 1 W locks)) O)). lia.
Qed.

Lemma argsort_minus_Permutation : Permutation (argsort (minus_keys 1 W locks)) (seq 0 p).
Proof.
  pose proof (argsort_Permutation (minus_keys 1 W locks)) as H.
  unfold minus_keys in H at 2. cbv zeta in H. rewrite map_length in H.
  fold (unlocked W locks) in H. rewrite unlocked2, locks2_offset, firstn_length, U2_length in H.
  replace (Nat.min p (p + q)) with p in H by lia. exact H.
Qed.


(* ---- the sorted matrix ---- *)
Variables mi pi0 : list nat.
Hypothesis Hmi : Permutation mi (seq 0 p).
Hypothesis Hpi : Permutation pi0 (seq 0 q).
Hypothesis Hsorted : forall a a', (a < a')%nat -> (a' < q)%nat ->
  (kfp2 (nth a pi0 O) <= kfp2 (nth a' pi0 O))%nat.
Hypothesis Hperm : ~ perm (p + q) (of_lists U) == 0.

Let sidx := mi ++ map (fun i => (i + p)%nat) pi0.
Let Sm := map (rownth U) sidx.
Let k := (p + q)%nat.
Definition kfs (a : nat) : nat := kfp2 (nth a pi0 O).
Definition nzf (r : nat) : nat := if (r <? p)%nat then 1%nat else (p + kfs (r - p))%nat.

Lemma mi_eq : mi = seq 0 p.
Proof.
  destruct p2_cases as [[_ Ep] | [_ Ep]]; rewrite Ep in *; cbn [seq] in *.
  - apply Permutation_sym in Hmi. apply Permutation_nil in Hmi. exact Hmi.
  - apply Permutation_sym in Hmi. apply Permutation_length_1_inv in Hmi. exact Hmi.
Qed.

Lemma mi_length : length mi = p.
Proof. rewrite mi_eq. apply seq_length. Qed.

Lemma pi0_length : length pi0 = q.
Proof. rewrite (Permutation_length Hpi). apply seq_length. Qed.

Lemma sidx_perm : Permutation sidx (seq 0 k).
Proof. apply sort_idx_Permutation; assumption. Qed.

Lemma Sm_square : square k Sm.
Proof. apply square_sorted; [exact U2_square | exact sidx_perm]. Qed.

Lemma pi0_lt : forall a, (a < q)%nat -> (nth a pi0 O < q)%nat.
Proof. intros a Ha. apply Permutation_seq_nth_lt; assumption. Qed.

Lemma sidx_minus : forall a, (a < p)%nat -> nth a sidx O = a.
Proof.
  intros a Ha. unfold sidx. rewrite app_nth1 by (rewrite mi_length; exact Ha).
  rewrite mi_eq. apply nth_seq0. exact Ha.
Qed.

Lemma sidx_plus : forall a, (a < q)%nat -> nth (p + a) sidx O = (p + nth a pi0 O)%nat.
Proof.
  intros a Ha. unfold sidx. rewrite app_nth2 by (rewrite mi_length; lia). rewrite mi_length.
  replace (p + a - p)%nat with a by lia.
  rewrite (nth_indep _ O ((fun i => (i + p)%nat) O)) by (rewrite map_length, pi0_length; exact Ha).
  rewrite (map_nth (fun i => (i + p)%nat)). lia.
Qed.

Lemma Sm_mget : forall a b, (a < k)%nat -> mget Sm a b = mget U (nth a sidx O) b.
Proof.
  intros a b Ha. unfold Sm. apply mget_rows_idx.
  rewrite (Permutation_length sidx_perm), seq_length. exact Ha.
Qed.

Lemma Sm_minus_row : forall c, p = 1%nat -> (c < k)%nat -> mget Sm 0 c = if (c =? 0)%nat then 1 else 0.
Proof.
  intros c Ep Hc. rewrite Sm_mget by (unfold k; lia). rewrite sidx_minus by lia.
  apply U2_minus; [exact Ep | unfold k in Hc; lia].
Qed.

Lemma Sm_plus_zero : forall a c, (a < q)%nat -> (c < p)%nat -> mget Sm (p + a) c = 0.
Proof.
  intros a c Ha Hc. rewrite Sm_mget by (unfold k; lia). rewrite sidx_plus by exact Ha.
  apply U2_plus_zero; [apply pi0_lt; exact Ha | exact Hc].
Qed.

Lemma Sm_plus_support : forall a c, (a < q)%nat -> (c < q)%nat ->
  (mget Sm (p + a) (p + c) == 0 <-> (kfs a <= c)%nat) /\
  ((c < kfs a)%nat -> 0 < mget Sm (p + a) (p + c)).
Proof.
  intros a c Ha Hc. rewrite Sm_mget by (unfold k; lia). rewrite sidx_plus by exact Ha.
  apply U2_plus_support; [apply pi0_lt; exact Ha | exact Hc].
Qed.

Lemma p_le1 : (p <= 1)%nat.
Proof. destruct p2_cases as [[_ Ep] | [_ Ep]]; lia. Qed.

Lemma nzf_le_k : forall r, (r < k)%nat -> (nzf r <= k)%nat.
Proof.
  intros r Hr. unfold nzf, k in *. destruct (Nat.ltb_spec r p); [lia|].
  pose proof (kfp2_le (nth (r - p) pi0 O)). unfold kfs. lia.
Qed.

Lemma nzf_dir : forall st, (st < p)%nat -> nzf st = (st + 1)%nat.
Proof. intros st H. unfold nzf. destruct (Nat.ltb_spec st p); [|lia]. pose proof p_le1. lia. Qed.

Lemma nzf_mono : forall a b, (a <= b)%nat -> (b < k)%nat -> (nzf a <= nzf b)%nat.
Proof.
  intros a b Hab Hb. unfold nzf, k in *. pose proof p_le1.
  destruct (Nat.ltb_spec a p); destruct (Nat.ltb_spec b p); try lia.
  destruct (Nat.eq_dec a b) as [-> | NE]; [lia|].
  pose proof (Hsorted (a - p)%nat (b - p)%nat ltac:(lia) ltac:(lia)). unfold kfs. lia.
Qed.

Definition te (r c : nat) : Q :=
  if (c <? p)%nat then (if (r <? p)%nat then mget Sm c r else 1) else mget Sm r c.

Lemma te_zero_iff : forall r c, (r < k)%nat -> (c < k)%nat -> (te r c == 0 <-> (nzf r <= c)%nat).
Proof.
  intros r c Hr Hc. unfold te, nzf. pose proof p_le1 as P1.
  destruct (Nat.ltb_spec c p) as [Lc | Lc]; destruct (Nat.ltb_spec r p) as [Lr | Lr].
  - assert (r = O) by lia. assert (c = O) by lia. subst r c. rewrite Sm_minus_row by (unfold k; lia).
    cbn. split; [intros H; discriminate H | lia].
  - split; [intros H; discriminate H | lia].
  - assert (r = O) by lia. subst r. rewrite Sm_minus_row by lia.
    destruct (Nat.eqb_spec c 0); [lia|]. split; [lia | reflexivity].
  - unfold k in *.
    destruct (Sm_plus_support (r - p)%nat (c - p)%nat ltac:(lia) ltac:(lia)) as [H _].
    replace (p + (r - p))%nat with r in H by lia. replace (p + (c - p))%nat with c in H by lia.
    rewrite H. lia.
Qed.

Lemma Sm_support : forall r c, (r < k)%nat -> (c < k)%nat -> (nzf r <= c)%nat -> mget Sm r c == 0.
Proof.
  intros r c Hr Hc H. pose proof (proj2 (te_zero_iff r c Hr Hc) H) as T. unfold te in T.
  destruct (Nat.ltb_spec c p) as [Lc | Lc]; [|exact T].
  unfold nzf in H. pose proof p_le1. destruct (Nat.ltb_spec r p); lia.
Qed.

Lemma Sm_plus_iff : forall r c, (p <= r < k)%nat -> (p <= c < k)%nat ->
  (mget Sm r c == 0 <-> (nzf r <= c)%nat) /\ ((c < nzf r)%nat -> 0 < mget Sm r c).
Proof.
  intros r c Hr Hc. unfold nzf, k in *. destruct (Nat.ltb_spec r p); [lia|].
  destruct (Sm_plus_support (r - p)%nat (c - p)%nat ltac:(lia) ltac:(lia)) as [H1 H2].
  replace (p + (r - p))%nat with r in H1, H2 by lia. replace (p + (c - p))%nat with c in H1, H2 by lia.
  split; [rewrite H1; lia | intros L; apply H2; lia].
Qed.

Lemma fb_nz : map count_nonzero (fb_temp Sm p) = map nzf (seq 0 k).
Proof.
  pose proof Sm_square as [HlS HrS]. unfold fb_temp. rewrite HlS, map_map. apply map_ext_in.
  intros r Hr. apply in_seq in Hr.
  assert (Lr : length (rownth Sm r) = k).
  { rewrite Forall_forall in HrS. apply HrS. unfold rownth. apply nth_In. lia. }
  rewrite Lr.
  change (map (fun c => if (c <? p)%nat then if (r <? p)%nat then mget Sm c r else 1 else mget Sm r c) (seq 0 k))
    with (map (te r) (seq 0 k)).
  rewrite (count_prefix (te r) (nzf r) k).
  - pose proof (nzf_le_k r ltac:(lia)). lia.
  - intros c Hc. apply te_zero_iff; lia.
Qed.

Lemma permS_nz : ~ perm k (of_lists Sm) == 0.
Proof. unfold Sm. rewrite (perm_sorted k sidx U sidx_perm). exact Hperm. Qed.

Lemma nzf_last : (1 <= k)%nat -> nzf (k - 1) = k.
Proof.
  intros Hk. pose proof (nzf_le_k (k - 1)%nat ltac:(lia)) as Hle.
  destruct (Nat.eq_dec (nzf (k - 1)) k) as [E | NE]; [exact E|]. exfalso. apply permS_nz.
  apply (perm_zero_col k _ (k - 1)%nat ltac:(lia)). intros a Ha.
  change (of_lists Sm a (k - 1)%nat) with (mget Sm a (k - 1)). apply Sm_support; [exact Ha | lia|].
  pose proof (nzf_mono a (k - 1)%nat ltac:(lia) ltac:(lia)). lia.
Qed.


(* ---- every block of the sorted matrix is good ---- *)

Lemma good_block : forall off s, (1 <= s)%nat -> (off + s <= k)%nat ->
  ((off < p)%nat -> s = 1%nat) ->
  nzf (off + s - 1) = (off + s)%nat ->
  ~ perm s (sub off (of_lists Sm)) == 0 ->
  (rows_equal_or_zero (subarr_of Sm off s) 0 = false -> (s <= 12)%nat) ->
  block_good Sm off s.
Proof.
  intros off s Hs Hk Hminus Hb Hnz H12.
  destruct (Nat.eq_dec s 1) as [E1 | N1]; [left; exact E1|].
  assert (Hp : (p <= off)%nat).
  { destruct (Nat.lt_ge_cases off p) as [L | L]; [specialize (Hminus L); lia | exact L]. }
  destruct (subarr_spec k Sm off s Sm_square Hk) as [Hsqa Hma].
  (* the first column of the block is positive *)
  assert (Hfirst : (off < nzf off)%nat).
  { destruct (Nat.lt_ge_cases off (nzf off)) as [L | L]; [exact L|]. exfalso. apply Hnz.
    apply (perm_zero_row s _ 0%nat ltac:(lia)). intros b Hb'. unfold sub.
    change (of_lists Sm (off + 0)%nat (off + b)%nat) with (mget Sm (off + 0) (off + b)).
    rewrite Nat.add_0_r. apply Sm_support; lia. }
  assert (Hpos0 : forall a, (a < s)%nat -> 0 < mget (subarr_of Sm off s) a 0).
  { intros a Ha. rewrite Hma by lia. rewrite Nat.add_0_r.
    apply (Sm_plus_iff (off + a)%nat off ltac:(lia) ltac:(lia)).
    pose proof (nzf_mono off (off + a)%nat ltac:(lia) ltac:(lia)). lia. }
  destruct (rows_equal_or_zero (subarr_of Sm off s) 0) eqn:T.
  - right. left. split; [exact T|].
    exists (fun a => (nzf (off + a) - off)%nat), (fun a => mget (subarr_of Sm off s) a 0).
    split; [apply Hsqa|]. split; [apply Hsqa|]. split; [intros; lia|]. split.
    + intros a c Ha Hc. cbn [plus]. rewrite Hma by assumption.
      rewrite (proj1 (Sm_plus_iff (off + a)%nat (off + c)%nat ltac:(lia) ltac:(lia))). lia.
    + intros a c Ha Hc Hkf. cbn [plus].
      destruct (rows_test_entries (subarr_of Sm off s) 0 a c T) as [E | E].
      * destruct Hsqa as [L _]. lia.
      * rewrite (PermGlynnGrayP.square_row_length s _ a Hsqa Ha). exact Hc.
      * exact E.
      * exfalso. rewrite Hma in E by assumption.
        apply (proj1 (Sm_plus_iff (off + a)%nat (off + c)%nat ltac:(lia) ltac:(lia))) in E. lia.
  - right. right. split; [exact T|]. split; [apply H12; reflexivity|].
    rewrite Forall_forall. intros row Hin. apply (In_nth _ _ []) in Hin as (a & Ha & <-).
    destruct Hsqa as [La Lr]. rewrite La in Ha.
    apply qmaxl_pos. exists (mget (subarr_of Sm off s) a 0). split; [|apply Hpos0; exact Ha].
    unfold mget, qnth. apply nth_In. fold (rownth (subarr_of Sm off s) a).
    rewrite (PermGlynnGrayP.square_row_length s _ a (conj La Lr) Ha). lia.
Qed.

Lemma blocks_good_all : forall blocks bs off,
  wf_blocks off blocks bs -> bounds_ok nzf off bs -> minus_single p off bs ->
  blocks_nz bs off (of_lists Sm) -> (off + total bs <= k)%nat ->
  (forall st en d, In (st, en, d) blocks ->
     rows_equal_or_zero (subarr_of Sm st (en - st)) 0 = false -> (en - st <= 12)%nat) ->
  blocks_good Sm off bs.
Proof.
  induction blocks as [|[[st en] d] rb IH]; intros bs off Hwf Hb Hms Hnz Hk H12;
    destruct bs as [|s rs]; try (destruct Hwf; fail); [exact I|].
  destruct Hwf as (-> & -> & Hs & Hd & Hwf). destruct Hb as [Hb1 Hb2]. destruct Hms as [Hm1 Hm2].
  destruct Hnz as [Hn1 Hn2]. cbn [total fold_right] in Hk. fold (total rs) in Hk.
  split.
  - apply good_block; try assumption; [lia|].
    intros T. specialize (H12 off (off + s)%nat d (or_introl eq_refl)).
    replace (off + s - off)%nat with s in H12 by lia. exact (H12 T).
  - apply (IH rs (off + s)%nat); try assumption; [lia|].
    intros st en d' Hin. apply (H12 st en d'). right. exact Hin.
Qed.

Definition fast_test : bool :=
  rows_equal_or_zero (firstn p Sm) (p - 1) &&
    (if (p + q <=? p)%nat then true else rows_equal_or_zero (skipn p Sm) p).

Lemma fast_test_k1 : k = 1%nat -> fast_test = true.
Proof.
  intros Ek. unfold fast_test. pose proof Sm_square as HS. rewrite Ek in HS. pose proof HS as [HlS _].
  unfold k in Ek.
  destruct p2_cases as [[_ Ep] | [_ Ep]]; rewrite Ep; rewrite Ep in Ek.
  - cbn [firstn]. assert (q = 1%nat) by lia. replace (0 + q <=? 0)%nat with false by (symmetry; apply Nat.leb_gt; lia).
    cbn [skipn]. rewrite (square1_test Sm HS). reflexivity.
  - assert (q = O) by lia. replace (1 + q <=? 1)%nat with true by (symmetry; apply Nat.leb_le; lia).
    pose proof (firstn_all Sm) as F. rewrite HlS in F. rewrite F.
    change (1 - 1)%nat with O. rewrite (square1_test Sm HS). reflexivity.
Qed.

Lemma wf_blocks_In : forall blocks bs off st en d,
  wf_blocks off blocks bs -> minus_single p off bs -> In (st, en, d) blocks ->
  (off <= st)%nat /\ (en <= off + total bs)%nat /\ (st <= en)%nat /\ ((st < p)%nat -> (en - st = 1)%nat).
Proof.
  induction blocks as [|[[st0 en0] d0] rb IH]; intros bs off st en d Hwf Hms Hin; [destruct Hin|].
  destruct bs as [|s rs]; [destruct Hwf|]. destruct Hwf as (-> & -> & Hs & _ & Hwf). destruct Hms as [Hm1 Hm2].
  cbn [total fold_right]. fold (total rs). destruct Hin as [E | Hin].
  - injection E as <- <- <-. repeat split; try lia; intros L; specialize (Hm1 L); lia.
  - destruct (IH rs _ st en d Hwf Hm2 Hin) as (I1 & I2 & I3 & I4). repeat split; try lia; exact I4.
Qed.

Lemma H12_of_q : (q <= 12)%nat -> forall st en d,
  In (st, en, d) (fb_loop p 0 0 (map count_nonzero (fb_temp Sm p))) -> (en - st <= 12)%nat.
Proof.
  intros Hq st en d Hin. rewrite fb_nz in Hin.
  destruct (fb_loop_spec p nzf nzf_dir k 0 0 ltac:(lia) ltac:(lia)) as (bs & W1 & [W2 W2'] & W3 & W4).
  destruct (wf_blocks_In _ bs 0%nat st en d W1 W2' Hin) as (I1 & I2 & I3 & I4).
  cbn [plus] in W3, I2. unfold k in W3.
  destruct (Nat.lt_ge_cases st p) as [L | L]; [specialize (I4 L); lia | lia].
Qed.

Hypothesis H12 : forall st en d,
  In (st, en, d) (fb_loop p 0 0 (map count_nonzero (fb_temp Sm p))) ->
  rows_equal_or_zero (subarr_of Sm st (en - st)) 0 = false -> (en - st <= 12)%nat.
Hypothesis Hk1 : (1 <= p + q)%nat.

(* ---- the fast path with general weights: the test itself gives uniformity ---- *)

Lemma Sm_minus_ustair : ustair q p (fun _ => 1%nat) (fun _ => 1) (map (@rev Q) (firstn p Sm)).
Proof.
  pose proof Sm_square as [HlS HrS]. unfold k in HlS, HrS.
  destruct p2_cases as [[E Ep] | [E Ep]]; rewrite Ep; rewrite Ep in HlS, HrS.
  - cbn [firstn map]. split; [reflexivity|]. split; [constructor|].
    split; [|split]; intros; lia.
  - assert (Hrow0 : length (rownth Sm 0) = (1 + q)%nat).
    { rewrite Forall_forall in HrS. apply HrS. unfold rownth. apply nth_In. lia. }
    assert (Hg : forall c, (c < 1 + q)%nat ->
              mget (map (@rev Q) (firstn 1 Sm)) 0 c = mget Sm 0 (1 + q - 1 - c)).
    { intros c Hc. rewrite (mget_rev_rows _ (1 + q)%nat).
      - unfold mget, rownth. rewrite nth_firstn_lt by lia. reflexivity.
      - rewrite firstn_length, HlS. lia.
      - unfold rownth. rewrite nth_firstn_lt by lia. exact Hrow0.
      - exact Hc. }
    split; [rewrite map_length, firstn_length, HlS; lia|]. split; [|split; [|split]].
    + rewrite Forall_forall. intros r Hin. apply in_map_iff in Hin as (r0 & <- & Hin).
      rewrite rev_length. rewrite Forall_forall in HrS. rewrite (HrS r0); [lia|].
      apply (in_firstn_in 1). exact Hin.
    + intros i c Hi Hc. assert (i = O) by lia. subst i. rewrite Hg by lia.
      rewrite Sm_minus_row by (unfold k; lia).
      destruct (Nat.eqb_spec (1 + q - 1 - c) 0); [lia | reflexivity].
    + intros i c Hi Hc. assert (i = O) by lia. assert (c = O) by lia. subst i c.
      rewrite Hg by lia. replace (1 + q - 1 - (q + 0))%nat with O by lia.
      rewrite Sm_minus_row by (unfold k; lia). cbn. split; [intros H; discriminate H | lia].
    + intros i c Hi Hc _. assert (i = O) by lia. assert (c = O) by lia. subst i c.
      rewrite Hg by lia. replace (1 + q - 1 - (q + 0))%nat with O by lia.
      rewrite Sm_minus_row by (unfold k; lia). reflexivity.
Qed.

Lemma Sm_plus_ustair : fast_test = true ->
  ustair p q kfs (fun a => mget Sm (p + a) p) (skipn p Sm).
Proof.
  intros T. pose proof Sm_square as [HlS HrS]. unfold k in *.
  split; [rewrite skipn_length, HlS; lia|]. split; [|split; [|split]].
  - rewrite Forall_forall in *. intros r Hin. apply HrS.
    apply (in_skipn_in p). exact Hin.
  - intros a c Ha Hc. rewrite mget_skipn_rows2. rewrite Sm_plus_zero by assumption. reflexivity.
  - intros a c Ha Hc. rewrite mget_skipn_rows2. apply Sm_plus_support; assumption.
  - intros a c Ha Hc Hkf. rewrite mget_skipn_rows2.
    unfold fast_test in T. apply andb_true_iff in T as [_ T].
    destruct (Nat.leb_spec (p + q) p) as [L | L]; [lia|].
    destruct (rows_test_entries (skipn p Sm) p a (p + c) T) as [E | E].
    + rewrite skipn_length, HlS. lia.
    + assert (Hl : length (rownth (skipn p Sm) a) = (p + q)%nat).
      { rewrite Forall_forall in HrS. apply HrS. apply (in_skipn_in p).
        unfold rownth. apply nth_In. rewrite skipn_length, HlS. lia. }
      rewrite Hl. lia.
    + rewrite !mget_skipn_rows2 in E. exact E.
    + exfalso. rewrite mget_skipn_rows2 in E.
      apply (proj1 (Sm_plus_support a c Ha Hc)) in E. lia.
Qed.

(* ---- inf_core on the family ---- *)

Theorem family2_core :
  exists o, inf_core rp mi pi0 p U = Some o /\ square (p + q) o /\
            forall i j, (i < p + q)%nat -> (j < p + q)%nat ->
              mget o i j == Pspec (p + q) (of_lists U) i j.
Proof.
  destruct fast_test eqn:T.
  - apply (inf_core_fast rp mi pi0 p q U (fun _ => 1%nat) (fun _ => 1) kfs (fun a => mget Sm (p + a) p));
      try assumption.
    + exact U2_square.
    + exact Sm_minus_ustair.
    + apply Sm_plus_ustair. exact T.
  - assert (Hk2 : k <> 1%nat) by (intros E; rewrite (fast_test_k1 E) in T; discriminate).
    pose proof Sm_square as [HlS HrS].
    destruct (fb_loop_spec p nzf nzf_dir k 0 0 ltac:(lia) ltac:(lia)) as (bs & W1 & [W2 W2'] & W3 & W4).
    cbn [plus] in W3, W4.
    assert (Ht : total bs = k).
    { specialize (W4 ltac:(unfold k; lia)). rewrite (nzf_last ltac:(unfold k; lia)) in W4. apply W4. reflexivity. }
    assert (Hblt : blt bs 0 (of_lists Sm)).
    { apply (blt_of_bounds nzf k).
      - exact nzf_mono.
      - intros a b Ha Hb Hn. apply Sm_support; assumption.
      - exact W2.
      - exact (wf_blocks_sizes _ _ _ W1).
      - lia. }
    assert (Hnz : blocks_nz bs 0 (of_lists Sm)).
    { apply blocks_nz_of_perm. rewrite <- (perm_blocks bs (of_lists Sm) Hblt). rewrite Ht. exact permS_nz. }
    apply (inf_core_blocks rp mi pi0 p q U (fb_loop p 0 0 (map nzf (seq 0 k))) bs Hk1 U2_square Hmi Hpi).
    + exact T.
    + unfold find_blocks. fold sidx. fold Sm. rewrite HlS.
      destruct (Nat.eqb_spec k 1) as [E | _]; [contradiction|]. rewrite fb_nz. reflexivity.
    + exact W1.
    + exact Ht.
    + exact Hblt.
    + apply (blocks_good_all _ bs 0%nat W1 W2 W2' Hnz ltac:(lia)).
      intros st en d Hin. apply (H12 st en d). rewrite fb_nz. exact Hin.
    + exact Hperm.
Qed.

Theorem family2_refines_with :
  exists P, inf_retis_with rp mi pi0 1 W locks = Some P /\ is_Pspec_on_idle W locks (mget P).
Proof.
  destruct family2_core as (o & Ho & Hso & HE).
  assert (HsqW : square (length locks) W) by (rewrite locks2_length; exact W2_square).
  apply (inf_retis_with_of_core rp mi pi0 1 W locks o HsqW).
  - rewrite unlocked2, locks2_offset. exact Ho.
  - rewrite unlocked2, U2_length. exact Hso.
  - rewrite unlocked2, U2_length. exact HE.
Qed.

End Family2.

(* ------------------------------------------------------------------ *)
(* the statements                                                       *)

(* the sorted unlocked matrix inf_retis works on (the model's stable argsort) *)
Definition sorted_unlocked (rows : list (list Q)) (b0 : bool) (lk' : list bool) : matrix :=
  let W := wstair_matrix rows in
  let locks := b0 :: lk' ++ [true] in
  map (rownth (idle_block W locks))
      (argsort (minus_keys 1 W locks) ++
       map (fun i => (i + (if b0 then 0 else 1))%nat) (argsort (pos_keys 1 W locks))).

Lemma rows_as_functions : forall (rows : list (list Q)),
  (forall row, In row rows -> (1 <= length row <= length rows)%nat /\ forall w, In w row -> 0 < w) ->
  forall r, (r < length rows)%nat ->
    nth r rows [] = map (fun j => nth j (nth r rows []) 0) (seq 0 (length (nth r rows []))) /\
    (forall j, (j < length (nth r rows []))%nat -> 0 < nth j (nth r rows []) 0) /\
    (length (nth r rows []) <= length rows)%nat.
Proof.
  intros rows H r Hr. assert (Hin : In (nth r rows []) rows) by (apply nth_In; exact Hr).
  destruct (H _ Hin) as [[H1 H2] H3]. split; [|split].
  - symmetry. exact (map_nth_seq (nth r rows [])).
  - intros j Hj. apply H3. apply nth_In. exact Hj.
  - exact H2.
Qed.

Lemma idle_len_cons : forall b0 lk',
  length (idle_idx (b0 :: lk' ++ [true])) =
  ((if b0 then 0 else 1) + length (idle_idx (lk' ++ [true])))%nat.
Proof. intros b0 lk'. rewrite idle_idx_cons. destruct b0; cbn [length]; rewrite map_length; reflexivity. Qed.

(* every state matrix of the family with positive weights, every size, every lock vector:
   exact as soon as every non-uniform block found by find_blocks has at most 12 rows
   (larger non-uniform blocks are handed to the Monte-Carlo random_prob) *)
Theorem wstair_positive_refines : forall rp rows (b0 : bool) lk',
  (forall row, In row rows -> (1 <= length row <= length rows)%nat /\ forall w, In w row -> 0 < w) ->
  length lk' = length rows ->
  (forall blocks st en d,
     find_blocks (sorted_unlocked rows b0 lk') (if b0 then 0 else 1)%nat = FBlist blocks ->
     In (st, en, d) blocks ->
     rows_equal_or_zero (subarr_of (sorted_unlocked rows b0 lk') st (en - st)) 0 = false ->
     (en - st <= 12)%nat) ->
  refines_Pspec rp (wstair_matrix rows) (b0 :: lk' ++ [true]).
Proof.
  intros rp rows b0 lk' Hr Hlk H12 Hidle Hperm. unfold inf_retis.
  pose proof (rows_as_functions rows Hr) as Hrows.
  rewrite idle_len_cons in Hperm.
  assert (Hk1 : (1 <= (if b0 then 0 else 1) + length (idle_idx (lk' ++ [true])))%nat).
  { rewrite <- idle_len_cons. destruct (idle_idx (b0 :: lk' ++ [true])); [congruence | cbn; lia]. }
  set (wfn := fun r j : nat => nth j (nth r rows []) 0) in *.
  set (lf := fun r : nat => length (nth r rows [])) in *.
  pose proof (argsort_minus_Permutation rp rows wfn lf Hrows b0 lk' Hlk) as Pm.
  pose proof (argsort_pos_Permutation rp rows wfn lf Hrows b0 lk' Hlk) as Pp.
  pose proof (argsort_pos_sorted rp rows wfn lf Hrows b0 lk' Hlk Hperm) as Ps.
  apply (family2_refines_with rp rows wfn lf Hrows b0 lk' Hlk _ _ Pm Pp Ps Hperm); [|exact Hk1].
  intros st en d Hin Ht.
  fold (sorted_unlocked rows b0 lk') in Hin, Ht.
  destruct (Nat.eqb (length (sorted_unlocked rows b0 lk')) 1) eqn:E1.
  - apply Nat.eqb_eq in E1.
    apply (H12_of_q rp rows wfn lf Hrows b0 lk' Hlk _ _ Pm Pp Ps Hperm) with (d := d); [|exact Hin].
    unfold sorted_unlocked in E1. cbv zeta in E1.
    rewrite map_length, app_length, map_length in E1.
    rewrite (Permutation_length Pm), (Permutation_length Pp), !seq_length in E1. lia.
  - refine (H12 _ st en d _ Hin Ht).
    unfold find_blocks. rewrite E1. reflexivity.
Qed.

(* in particular with at most 12 idle plus ensembles *)
Corollary wstair_positive_refines_le12 : forall rp rows (b0 : bool) lk',
  (forall row, In row rows -> (1 <= length row <= length rows)%nat /\ forall w, In w row -> 0 < w) ->
  length lk' = length rows ->
  (length (idle_idx (lk' ++ [true])) <= 12)%nat ->
  refines_Pspec rp (wstair_matrix rows) (b0 :: lk' ++ [true]).
Proof.
  intros rp rows b0 lk' Hr Hlk Hq Hidle Hperm. unfold inf_retis.
  pose proof (rows_as_functions rows Hr) as Hrows.
  rewrite idle_len_cons in Hperm.
  assert (Hk1 : (1 <= (if b0 then 0 else 1) + length (idle_idx (lk' ++ [true])))%nat).
  { rewrite <- idle_len_cons. destruct (idle_idx (b0 :: lk' ++ [true])); [congruence | cbn; lia]. }
  set (wfn := fun r j : nat => nth j (nth r rows []) 0) in *.
  set (lf := fun r : nat => length (nth r rows [])) in *.
  pose proof (argsort_minus_Permutation rp rows wfn lf Hrows b0 lk' Hlk) as Pm.
  pose proof (argsort_pos_Permutation rp rows wfn lf Hrows b0 lk' Hlk) as Pp.
  pose proof (argsort_pos_sorted rp rows wfn lf Hrows b0 lk' Hlk Hperm) as Ps.
  apply (family2_refines_with rp rows wfn lf Hrows b0 lk' Hlk _ _ Pm Pp Ps Hperm); [|exact Hk1].
  intros st en d Hin _.
  exact (H12_of_q rp rows wfn lf Hrows b0 lk' Hlk _ _ Pm Pp Ps Hperm Hq st en d Hin).
Qed.

Print Assumptions argsort_sorted.
Print Assumptions family2_refines_with.
Print Assumptions wstair_positive_refines.
Print Assumptions wstair_positive_refines_le12.
