(* Proofs for property C06: restart equivalence.
   (1) A generic refinement argument: for ANY deterministic system whose persisted image is
       recovered faithfully (up to an equivalence the step function respects), running N steps
       in one go equals running with any chain of stop/restart points, for the final state and
       for everything emitted on the way.
   (2) The instance obligations that are about infretis' own code: the scheduler generator is
       recovered exactly by the repaired set_rgen (and not by the original one), and a job
       re-issued by pick_lock holds exactly the recorded (ensemble, path) pairs. *)
From Coq Require Import List Bool Arith Lia.
Import ListNotations.
From Inf Require Import model.RngM model.RepexM proofs.RepexP.
Open Scope nat_scope.

Section Generic.
  Variables (St Dk Out : Type).
  Variable step : St -> St * list Out.          (* one completed Monte Carlo step and the rows it appends *)
  Variable persist : St -> Dk.                (* what is on disk after the step *)
  Variable recover : Dk -> St.                (* setup_config + setup_internal on that *)
  Variable eqv : St -> St -> Prop.            (* equal on every field [step] reads *)
  Hypothesis eqv_refl : forall s, eqv s s.
  Hypothesis eqv_trans : forall a b c, eqv a b -> eqv b c -> eqv a c.
  Hypothesis step_eqv : forall a b, eqv a b -> eqv (fst (step a)) (fst (step b)) /\ snd (step a) = snd (step b).
  Hypothesis recover_persist : forall s, eqv (recover (persist s)) s.

  Fixpoint run (n : nat) (s : St) : St * list Out :=
    match n with
    | 0 => (s, [])
    | S k => let '(s1, o1) := step s in let '(s2, o2) := run k s1 in (s2, o1 ++ o2)
    end.

  (* a chain of segments: run the given number of steps, stop, restart from disk *)
  Fixpoint run_chain (segs : list nat) (s : St) : St * list Out :=
    match segs with
    | [] => (s, [])
    | k :: rest => let '(s1, o1) := run k s in
                   let '(s2, o2) := run_chain rest (recover (persist s1)) in (s2, o1 ++ o2)
    end.

  Lemma run_eqv n : forall a b, eqv a b -> eqv (fst (run n a)) (fst (run n b)) /\ snd (run n a) = snd (run n b).
  Proof.
    induction n as [|n IH]; intros a b H; cbn; [auto|].
    destruct (step_eqv a b H) as (H1 & H2).
    destruct (step a) as [a1 oa]; destruct (step b) as [b1 ob]; cbn in *.
    destruct (IH a1 b1 H1) as (H3 & H4).
    destruct (run n a1) as [a2 oa2]; destruct (run n b1) as [b2 ob2]; cbn in *. split; [exact H3|congruence].
  Qed.

  Lemma run_add n m : forall s, run (n + m) s = let '(s1, o1) := run n s in let '(s2, o2) := run m s1 in (s2, o1 ++ o2).
  Proof.
    induction n as [|n IH]; intros s; cbn.
    - destruct (run m s). reflexivity.
    - destruct (step s) as [s1 o1]. rewrite IH. destruct (run n s1) as [s2 o2]. destruct (run m s2) as [s3 o3].
      now rewrite app_assoc.
  Qed.

  Theorem restart_chain_equiv : forall segs s,
    eqv (fst (run_chain segs s)) (fst (run (fold_right Nat.add 0 segs) s)) /\
    snd (run_chain segs s) = snd (run (fold_right Nat.add 0 segs) s).
  Proof.
    induction segs as [|k rest IH]; intros s; cbn [run_chain fold_right]; [cbn; auto|].
    rewrite run_add. destruct (run k s) as [s1 o1].
    destruct (IH (recover (persist s1))) as (A & B).
    destruct (run_eqv (fold_right Nat.add 0 rest) _ _ (recover_persist s1)) as (C & E).
    destruct (run_chain rest (recover (persist s1))) as [s2 o2].
    destruct (run (fold_right Nat.add 0 rest) (recover (persist s1))) as [s3 o3].
    destruct (run (fold_right Nat.add 0 rest) s1) as [s4 o4]. cbn in *.
    split; [eapply eqv_trans; eauto|congruence].
  Qed.
End Generic.

(* ------------------------------------------------------------------ the generator is recovered exactly *)

Theorem rng_recover_persist sd cstep nlocked g :
  rf_entropy g = sd -> rng_recover true (rng_persist sd cstep nlocked g) = g.
Proof.
  intros E. destruct g as [e n b]. cbn in *. subst e. unfold rng_persist, rng_recover. cbn.
  destruct (Nat.eqb_spec n (cstep + nlocked)) as [->|]; reflexivity.
Qed.

(* the original set_rgen loses the seed and, with several workers, the counter *)
Theorem rng_recover_persist_original_refuted :
  (exists sd cstep g, rf_entropy g = sd /\ rf_nchild g = cstep /\ rng_recover false (rng_persist sd cstep 0 g) <> g) /\
  (exists cstep nl g, rf_entropy g = 0 /\ rf_nchild g = cstep + nl /\ rng_recover false (rng_persist 0 cstep nl g) <> g).
Proof.
  split.
  - exists 7, 3, (mkRF 7 3 42). cbn. repeat split. discriminate.
  - exists 3, 1, (mkRF 0 4 42). cbn. repeat split. discriminate.
Qed.

(* ------------------------------------------------------------------ re-issued jobs *)

Theorem reissue_exact s cols paths pin s' jb :
  Inv s -> ~ In pin (map jpin (locked s)) -> cols <> [] -> length cols = length paths ->
  pick_lock s cols paths pin = Some (s', jb) ->
  jcols jb = cols /\ jpaths jb = paths /\ Inv s' /\ In jb (locked s') /\
  forall k c, nth_error cols k = Some c ->
    nth_error paths k = Some (nth c (trajs s') 0) /\ is_locked s' c = true.
Proof.
  intros I Hp Hne Hl H.
  destruct (pick_lock_Inv s cols paths pin s' jb I Hp Hl Hne H) as (I' & _).
  unfold pick_lock in H. destruct (pick_lock_entries s cols paths) as [s1|]; [|discriminate].
  injection H as <- <-. cbn [jcols jpaths]. split; [reflexivity|]. split; [reflexivity|]. split; [exact I'|].
  assert (Hin : In (mkJob cols paths pin) (locked (mkR (W s1) (trajs s1) (locks s1) (locked s1 ++ [mkJob cols paths pin]) (traj_num s1)))).
  { cbn. apply in_or_app. right. now left. }
  split; [exact Hin|].
  intros k c Hk. destruct (inv_jobs _ I' _ Hin) as (_ & _ & J). cbn [jcols jpaths] in J.
  destruct (J k c Hk) as (_ & B & C & _). auto.
Qed.
