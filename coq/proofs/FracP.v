(* Proofs for property C04: fractional weights are conserved and accounted for exactly once.
   Model: the [fstate] layer of model/RepexM.v (traj_data[*]['frac'] as [fracs], the rows
   appended to the data file as [data]).  The probability matrix used by a step is an input
   [P]; what the theorems need from it is stated as a hypothesis ([Pcols]): its columns,
   summed over idle rows, give 1 on idle columns and 0 on busy ones — which is what
   property C02 establishes for the permanent ratios. *)
From Coq Require Import ZArith QArith List Bool Lia Permutation.
Import ListNotations.
From Inf Require Import base.ListX model.RepexM proofs.RepexP.
Open Scope nat_scope.

Definition keys (l : list (nat * qrow)) : list nat := map fst l.

Fixpoint col_sum (c : nat) (l : list (nat * qrow)) : Q :=
  match l with [] => 0%Q | (_, v) :: r => (nth c v 0 + col_sum c r)%Q end.

(* everything ever credited in column c: live records + rows of the data file *)
Definition total (c : nat) (f : fstate) : Q := (col_sum c (fracs f) + col_sum c (data f))%Q.

(* what one step credits to column c: the entries of P in that column over idle slots *)
Fixpoint credited (s : rstate) (P : list qrow) (c i : nat) (slots : list nat) : Q :=
  match slots with
  | [] => 0%Q
  | _ :: r => ((if is_locked s i then 0 else nth c (nth i P []) 0) + credited s P c (S i) r)%Q
  end.

Definition Pcols (s : rstate) (P : list qrow) (c : nat) : Prop :=
  (credited s P c 0 (removelast (trajs s)) == if is_locked s c then 0 else 1)%Q.

Definition Prows (s : rstate) (P : list qrow) : Prop :=
  forall i, i < size s - 1 -> length (nth i P []) = size s.

(* ------------------------------------------------------------------ association lists *)

Lemma col_sum_app c a b : (col_sum c (a ++ b) == col_sum c a + col_sum c b)%Q.
Proof. induction a as [|[k v] a IH]; cbn; [ring|]. rewrite IH. ring. Qed.

Lemma assoc_get_in k l v : assoc_get k l = Some v -> In (k, v) l.
Proof.
  induction l as [|[a w] l IH]; cbn; [discriminate|].
  destruct (Nat.eqb_spec a k) as [->|]; intros H; [injection H as <-; now left|right; auto].
Qed.

Lemma assoc_get_none k l : assoc_get k l = None <-> ~ In k (keys l).
Proof.
  induction l as [|[a w] l IH]; cbn; [tauto|].
  destruct (Nat.eqb_spec a k) as [->|N]; split; intros H; try discriminate.
  - exfalso. apply H. now left.
  - intros [E|E]; [contradiction|]. now apply IH in H.
  - apply IH. intros E. apply H. now right.
Qed.

Lemma col_sum_set_present c k l v v' :
  assoc_get k l = Some v -> (col_sum c (assoc_set k v' l) == col_sum c l - nth c v 0 + nth c v' 0)%Q.
Proof.
  induction l as [|[a w] l IH]; cbn; [discriminate|].
  destruct (Nat.eqb_spec a k) as [->|N]; intros H.
  - injection H as <-. cbn. ring.
  - cbn. rewrite IH by exact H. ring.
Qed.

Lemma col_sum_set_absent c k l v' :
  assoc_get k l = None -> (col_sum c (assoc_set k v' l) == col_sum c l + nth c v' 0)%Q.
Proof.
  induction l as [|[a w] l IH]; cbn; [intros _; ring|].
  destruct (Nat.eqb_spec a k) as [->|N]; intros H; [discriminate|].
  cbn. rewrite IH by exact H. ring.
Qed.

Lemma keys_set_present k l v v' : assoc_get k l = Some v -> keys (assoc_set k v' l) = keys l.
Proof.
  induction l as [|[a w] l IH]; cbn; [discriminate|].
  destruct (Nat.eqb_spec a k) as [->|N]; intros H; cbn; [reflexivity|]. f_equal. now apply IH.
Qed.

Lemma keys_set_absent k l v' : assoc_get k l = None -> keys (assoc_set k v' l) = keys l ++ [k].
Proof.
  induction l as [|[a w] l IH]; cbn; [reflexivity|].
  destruct (Nat.eqb_spec a k) as [->|N]; intros H; [discriminate|]. cbn. f_equal. now apply IH.
Qed.

Lemma in_assoc_set k v l a w : In (a, w) (assoc_set k v l) -> (a = k /\ w = v) \/ In (a, w) l.
Proof.
  induction l as [|[b u] l IH]; cbn.
  - intros [E|[]]. injection E as <- <-. now left.
  - destruct (Nat.eqb_spec b k) as [->|N]; cbn; intros [E|H].
    + injection E as <- <-. now left.
    + right. now right.
    + right. now left.
    + destruct (IH H) as [X|X]; [now left|right; now right].
Qed.

Lemma col_sum_del c k l v :
  assoc_get k l = Some v -> (col_sum c (assoc_del k l) == col_sum c l - nth c v 0)%Q.
Proof.
  induction l as [|[a w] l IH]; cbn; [discriminate|].
  destruct (Nat.eqb_spec a k) as [->|N]; intros H.
  - injection H as <-. ring.
  - cbn. rewrite IH by exact H. ring.
Qed.

Lemma keys_del_perm k l v : assoc_get k l = Some v -> Permutation (keys l) (k :: keys (assoc_del k l)).
Proof.
  induction l as [|[a w] l IH]; cbn; [discriminate|].
  destruct (Nat.eqb_spec a k) as [->|N]; intros H; [reflexivity|].
  cbn. rewrite (IH H). apply perm_swap.
Qed.

Lemma in_assoc_del k l a w : In (a, w) (assoc_del k l) -> In (a, w) l.
Proof.
  induction l as [|[b u] l IH]; cbn; [tauto|].
  destruct (Nat.eqb_spec b k) as [->|N]; cbn; [tauto|]. intros [E|H]; [now left|right; auto].
Qed.

(* ------------------------------------------------------------------ rows *)

Lemma qrow_add_length a b : length a = length b -> length (qrow_add a b) = length a.
Proof.
  revert b; induction a as [|x a IH]; intros [|y b] H; cbn in *; try discriminate; auto.
Qed.

Lemma qrow_add_nth c a b :
  length a = length b -> (nth c (qrow_add a b) 0 == nth c a 0 + nth c b 0)%Q.
Proof.
  revert c b; induction a as [|x a IH]; intros c [|y b] H; cbn [length] in H; try discriminate; cbn [qrow_add nth].
  - destruct c; ring.
  - destruct c as [|c]; [apply Qred_correct|]. apply IH. lia.
Qed.

Lemma nth_zero_qrow c n : (nth c (zero_qrow n) 0 == 0)%Q.
Proof. unfold zero_qrow. rewrite nth_repeat. reflexivity. Qed.

Lemma NoDup_app_intro {A} (l m : list A) :
  NoDup l -> NoDup m -> (forall x, In x l -> In x m -> False) -> NoDup (l ++ m).
Proof.
  induction l as [|a l IH]; intros Hl Hm Hd; cbn; [exact Hm|].
  inversion Hl as [|? ? Hn Hl']; subst. constructor.
  - intros Hin. apply in_app_or in Hin as [Hin|Hin]; [contradiction|]. apply (Hd a); [now left|exact Hin].
  - apply IH; auto. intros x Hx Hx'. apply (Hd x); [now right|exact Hx'].
Qed.

(* ------------------------------------------------------------------ credit *)

Definition all_len (n : nat) (l : list (nat * qrow)) : Prop := forall k v, In (k, v) l -> length v = n.

Lemma credit_sum s P c n : forall slots i fr fr',
  all_len n fr -> (forall k, i <= k < i + length slots -> length (nth k P []) = n) ->
  credit s P i slots fr = Some fr' ->
  (col_sum c fr' == col_sum c fr + credited s P c i slots)%Q /\ keys fr' = keys fr /\ all_len n fr'.
Proof.
  induction slots as [|pn r IH]; intros i fr fr' Hl HP H; cbn [credit credited] in *.
  - injection H as <-. split; [ring|]. split; [reflexivity|exact Hl].
  - assert (HP' : forall k, S i <= k < S i + length r -> length (nth k P []) = n).
    { intros k Hk. apply HP. cbn [length]. lia. }
    destruct (is_locked s i).
    + destruct (IH _ _ _ Hl HP' H) as (A & B & C). split; [rewrite A; ring|]. split; assumption.
    + destruct (assoc_get pn fr) as [v|] eqn:G; [|discriminate].
      assert (Lv : length v = n) by (eapply Hl; eapply assoc_get_in; eauto).
      assert (Lp : length (nth i P []) = n) by (apply HP; cbn [length]; lia).
      assert (Hl1 : all_len n (assoc_set pn (qrow_add v (nth i P [])) fr)).
      { intros k w Hin. apply in_assoc_set in Hin as [[_ ->]|Hin]; [|eapply Hl; eauto].
        rewrite qrow_add_length; congruence. }
      destruct (IH _ _ _ Hl1 HP' H) as (A & B & C).
      split; [|split; [|exact C]].
      * rewrite A, (col_sum_set_present _ _ _ _ _ G). rewrite qrow_add_nth by congruence. unfold qrow in *. ring.
      * rewrite B. eapply keys_set_present; eauto.
Qed.

(* the amount credited only depends on the busy flags *)
Lemma credited_ext s s' P c : forall slots slots' i,
  locks s' = locks s -> length slots' = length slots ->
  credited s' P c i slots' = credited s P c i slots.
Proof.
  induction slots as [|a r IH]; intros [|b r'] i HL Hlen; cbn in *; try discriminate; auto.
  unfold is_locked. rewrite HL. f_equal. apply IH; auto.
Qed.

(* ------------------------------------------------------------------ archive *)

Lemma archive_sum c n : forall pns fr dt fr' dt',
  all_len n fr -> archive pns fr dt = (fr', dt') ->
  (col_sum c fr' + col_sum c dt' == col_sum c fr + col_sum c dt)%Q /\
  Permutation (keys fr' ++ keys dt') (keys fr ++ keys dt) /\ all_len n fr'.
Proof.
  induction pns as [|pn r IH]; intros fr dt fr' dt' Hl H; cbn [archive] in H.
  - injection H as <- <-. split; [ring|]. split; [reflexivity|exact Hl].
  - destruct (assoc_get pn fr) as [v|] eqn:G.
    + assert (Hl1 : all_len n (assoc_del pn fr)) by (intros k w Hin; eapply Hl; eapply in_assoc_del; eauto).
      destruct (IH _ _ _ _ Hl1 H) as (A & B & C). split; [|split; [|exact C]].
      * rewrite A, col_sum_app, (col_sum_del _ _ _ _ G). cbn. ring.
      * rewrite B. rewrite (keys_del_perm _ _ _ G).
        replace (keys (dt ++ [(pn, v)])) with (keys dt ++ [pn]) by (unfold keys; rewrite map_app; reflexivity).
        cbn [app]. rewrite app_assoc. symmetry. apply Permutation_cons_append.
    + apply IH; auto.
Qed.

(* ------------------------------------------------------------------ new records *)

Fixpoint nacc (rs : list ens_result) : nat :=
  match rs with [] => 0 | r :: rest => (if r_acc r then 1 else 0) + nacc rest end.

Lemma new_fracs_sum c n : forall rs tn fr,
  all_len n fr -> (forall k, In k (keys fr) -> k < tn) ->
  (col_sum c (new_fracs rs tn n fr) == col_sum c fr)%Q /\
  all_len n (new_fracs rs tn n fr) /\
  (forall k, In k (keys (new_fracs rs tn n fr)) -> k < tn + nacc rs) /\
  exists extra, keys (new_fracs rs tn n fr) = keys fr ++ extra /\ NoDup extra /\ forall k, In k extra -> tn <= k.
Proof.
  induction rs as [|r rs IH]; intros tn fr Hl Hf; cbn [new_fracs nacc].
  - split; [reflexivity|]. split; [exact Hl|]. split; [intros k Hk; specialize (Hf k Hk); lia|].
    exists []. rewrite app_nil_r. split; [reflexivity|]. split; [constructor|intros k []].
  - destruct (r_acc r).
    + assert (G : assoc_get tn fr = None).
      { apply assoc_get_none. intros Hin. specialize (Hf tn Hin). lia. }
      assert (Hl1 : all_len n (assoc_set tn (zero_qrow n) fr)).
      { intros k w Hin. apply in_assoc_set in Hin as [[_ ->]|Hin]; [|eapply Hl; eauto].
        unfold zero_qrow. apply repeat_length. }
      assert (Hf1 : forall k, In k (keys (assoc_set tn (zero_qrow n) fr)) -> k < S tn).
      { intros k Hk. rewrite (keys_set_absent _ _ _ G) in Hk. apply in_app_or in Hk as [Hk|[<-|[]]]; [|lia].
        specialize (Hf k Hk). lia. }
      destruct (IH (S tn) _ Hl1 Hf1) as (A & B & C & (extra & D & E & F)).
      split; [|split; [exact B|split]].
      * rewrite A, (col_sum_set_absent _ _ _ _ G), nth_zero_qrow. ring.
      * intros k Hk. specialize (C k Hk). lia.
      * exists (tn :: extra). rewrite D, (keys_set_absent _ _ _ G), <- app_assoc. cbn [app].
        split; [reflexivity|]. split.
        -- constructor; [|exact E]. intros Hin. specialize (F tn Hin). lia.
        -- intros k [<-|Hk]; [lia|]. specialize (F k Hk). lia.
    + destruct (IH tn fr Hl Hf) as (A & B & C & D). split; [exact A|]. split; [exact B|]. split; [|exact D].
      intros k Hk. specialize (C k Hk). lia.
Qed.

(* ------------------------------------------------------------------ path numbers *)

Lemma treat_results_traj_num : forall rs s s1,
  treat_results s rs = Some s1 -> traj_num s1 = traj_num s + nacc rs /\ size s1 = size s.
Proof.
  induction rs as [|r rs IH]; intros s s1 H; cbn [treat_results nacc] in H |- *.
  - injection H as <-. split; [lia|reflexivity].
  - destruct (treat_one s r) as [s0|] eqn:T; [|discriminate].
    destruct (IH _ _ H) as (A & B). rewrite A, B.
    unfold treat_one, add_traj, unlock in T.
    destruct (r_acc r); cbn [W trajs locks locked traj_num] in T;
      destruct (nth (r_col r) (r_row r) 0%Z =? 0)%Z; try discriminate;
      destruct (is_locked _ (r_col r)); try discriminate; injection T as <-;
      unfold size; cbn [traj_num locks]; rewrite set_nth_length; split; lia.
Qed.

(* ------------------------------------------------------------------ the bookkeeping invariant *)

Record FInv (f : fstate) : Prop := {
  fi_len : all_len (size (core f)) (fracs f);
  fi_fresh : forall k, In k (keys (fracs f) ++ keys (data f)) -> k < traj_num (core f);
  fi_nodup : NoDup (keys (fracs f) ++ keys (data f))
}.

Lemma sort_loop_frame fuel : forall s it s1 n,
  Inv s -> sort_loop fuel s it = SortOk s1 n ->
  size s1 = size s /\ traj_num s1 = traj_num s /\ locks s1 = locks s /\ length (trajs s1) = length (trajs s).
Proof.
  intros s it s1 n I H. destruct (sort_loop_Inv _ _ _ _ _ I H) as (I1 & A & _ & B & C & _).
  split; [exact A|]. split; [exact B|]. split; [exact C|].
  rewrite (wf_T _ (inv_wf _ I1)), (wf_T _ (inv_wf _ I)). exact A.
Qed.

(* one completed step *)
Theorem treat_conservation f k acc rows P f' c :
  InvF f -> FInv f -> step f (OpTreat k acc rows P) = Some f' -> Prows (core f') P ->
  (total c f' == total c f + credited (core f') P c 0 (removelast (trajs (core f'))))%Q /\ FInv f'.
Proof.
  intros I F H HP. cbn [step] in H.
  destruct (nth_error (locked (core f)) k) as [jb|] eqn:Hk; [|discriminate].
  destruct ((length rows =? length (jcols jb)) && (length (jpaths jb) =? length (jcols jb))) eqn:G; cbn [negb] in H; [|discriminate].
  apply andb_true_iff in G as [G1 G2]. apply Nat.eqb_eq in G1.
  unfold treat_output in H.
  set (rs := results_of (jcols jb) (jpaths jb) acc rows) in *.
  destruct (treat_results (core f) rs) as [s1|] eqn:T; [|discriminate].
  destruct (treat_results_Inv _ _ _ _ _ _ I Hk G1 T) as (I1 & Sz1 & _).
  destruct (treat_results_traj_num _ _ _ T) as (Tn1 & _).
  destruct (credit s1 P 0 (removelast (trajs s1)) _) as [fr2|] eqn:Cr; [|discriminate].
  destruct (if acc then archive (map r_pn_old rs) fr2 (data f) else (fr2, data f)) as [fr3 dt] eqn:Ar.
  unfold sort_trajstate in H.
  destruct (sort_loop _ s1 0) as [s2 n| |] eqn:S; try discriminate.
  injection H as <-. cbn [core fracs data] in *.
  destruct (sort_loop_frame _ _ _ _ _ I1 S) as (Sz2 & Tn2 & Lk2 & Lt2).
  set (n0 := size (core f)) in *.
  (* new records *)
  assert (Ff : forall q, In q (keys (fracs f)) -> q < traj_num (core f)).
  { intros q Hq. apply (fi_fresh _ F). apply in_or_app. now left. }
  destruct (new_fracs_sum c n0 rs (traj_num (core f)) (fracs f) (fi_len _ F) Ff) as (N1 & N2 & N3 & (extra & N4 & N5 & N6)).
  (* credit *)
  assert (HPr : forall q, 0 <= q < 0 + length (removelast (trajs s1)) -> length (nth q P []) = n0).
  { intros q Hq. rewrite removelast_length, (wf_T _ (inv_wf _ I1)) in Hq.
    unfold Prows in HP. rewrite Sz2, Sz1 in HP. apply HP. rewrite Sz1 in Hq. lia. }
  destruct (credit_sum s1 P c n0 _ _ _ _ N2 HPr Cr) as (C1 & C2 & C3).
  assert (Ecr : credited s2 P c 0 (removelast (trajs s2)) = credited s1 P c 0 (removelast (trajs s1))).
  { apply credited_ext; [exact Lk2|]. rewrite !removelast_length. lia. }
  rewrite Ecr.
  (* archive *)
  assert (HA : (col_sum c fr3 + col_sum c dt == col_sum c fr2 + col_sum c (data f))%Q /\
               Permutation (keys fr3 ++ keys dt) (keys fr2 ++ keys (data f)) /\ all_len n0 fr3).
  { destruct acc.
    - eapply archive_sum; eauto.
    - injection Ar as <- <-. split; [ring|]. split; [reflexivity|exact C3]. }
  destruct HA as (A1 & A2 & A3).
  split.
  - unfold total. cbn [fracs data]. rewrite A1, C1, N1. ring.
  - constructor; cbn [core fracs data].
    + rewrite Sz2, Sz1. exact A3.
    + intros q Hq. rewrite Tn2, Tn1.
      apply (Permutation_in _ A2) in Hq. rewrite C2 in Hq. apply in_app_or in Hq as [Hq|Hq].
      * apply N3. exact Hq.
      * assert (q < traj_num (core f)); [|lia]. apply (fi_fresh _ F). apply in_or_app. now right.
    + eapply Permutation_NoDup; [apply Permutation_sym; exact A2|].
      rewrite C2, N4, <- app_assoc.
      eapply Permutation_NoDup; [apply Permutation_app_head; apply Permutation_app_comm|].
      rewrite app_assoc. apply NoDup_app_intro; [exact (fi_nodup _ F)|exact N5|].
      intros q Hq Hq'. specialize (N6 q Hq'). pose proof (fi_fresh _ F q Hq). lia.
Qed.

(* with the column sums of C02: exactly one unit per idle column, none for a busy one *)
Corollary treat_conservation_unit f k acc rows P f' c :
  InvF f -> FInv f -> step f (OpTreat k acc rows P) = Some f' ->
  Prows (core f') P -> Pcols (core f') P c ->
  (total c f' == total c f + if is_locked (core f') c then 0 else 1)%Q.
Proof.
  intros I F H HP HC. destruct (treat_conservation f k acc rows P f' c I F H HP) as (A & _).
  rewrite A. unfold Pcols in HC. rewrite HC. reflexivity.
Qed.

(* ------------------------------------------------------------------ picks do not touch the records *)

Lemma take_frame s i j s1 : lock (swap s i j) j = Some s1 -> size s1 = size s /\ traj_num s1 = traj_num s.
Proof.
  unfold lock. destruct (is_locked (swap s i j) j); [discriminate|]. intros H. injection H as <-.
  unfold size. cbn [locks swap traj_num]. rewrite set_nth_length. auto.
Qed.

Lemma pick_frame s c pin s' jb : pick s c pin = Some (s', jb) -> size s' = size s /\ traj_num s' = traj_num s.
Proof.
  unfold pick. destruct (negb _); [discriminate|].
  destruct (lock (swap s (pk_i c) (pk_j c)) (pk_j c)) as [s1|] eqn:T1; [|discriminate].
  destruct (take_frame _ _ _ _ T1) as (A1 & B1).
  destruct (pk_zs c) as [k|].
  - destruct (partner (pk_j c)) as [other|]; [|discriminate].
    destruct (is_locked s1 other); [discriminate|]. destruct (negb _); [discriminate|].
    destruct (lock (swap s1 k other) other) as [s2|] eqn:T2; [|discriminate].
    destruct (take_frame _ _ _ _ T2) as (A2 & B2).
    intros H. injection H as <- _. unfold size in *. cbn [locks traj_num]. split; congruence.
  - intros H. injection H as <- _. unfold size in *. cbn [locks traj_num]. split; congruence.
Qed.

Lemma pick_lock_entries_frame : forall cols paths s s1,
  pick_lock_entries s cols paths = Some s1 -> size s1 = size s /\ traj_num s1 = traj_num s.
Proof.
  induction cols as [|c cr IH]; intros [|p pr] s s1 H; cbn [pick_lock_entries] in H;
    try (injection H as <-; auto; fail).
  destruct (index_of p (removelast (trajs s))) as [idx|]; [|discriminate].
  destruct (_ || _); [discriminate|].
  destruct (lock (swap s idx c) c) as [s0|] eqn:T; [|discriminate].
  destruct (take_frame _ _ _ _ T) as (A & B). destruct (IH _ _ _ H) as (A1 & B1). split; congruence.
Qed.

Lemma step_pick_frame f o f' :
  (match o with OpTreat _ _ _ _ => False | _ => True end) -> step f o = Some f' ->
  fracs f' = fracs f /\ data f' = data f /\ size (core f') = size (core f) /\ traj_num (core f') = traj_num (core f).
Proof.
  intros Ho H. destruct o as [c pin|cols paths pin|? ? ? ?]; [| |contradiction]; cbn [step] in H.
  - destruct (memn pin _); [discriminate|].
    destruct (pick (core f) c pin) as [[s' jb]|] eqn:Pk; [|discriminate]. cbn in H. injection H as <-.
    destruct (pick_frame _ _ _ _ _ Pk). cbn. auto.
  - destruct (memn pin _); [discriminate|]. destruct (negb _); [discriminate|].
    destruct (pick_lock (core f) cols paths pin) as [[s' jb]|] eqn:Pk; [|discriminate]. cbn in H. injection H as <-.
    unfold pick_lock in Pk. destruct (pick_lock_entries (core f) cols paths) as [s1|] eqn:E; [|discriminate].
    injection Pk as <- _. destruct (pick_lock_entries_frame _ _ _ _ E). cbn. unfold size in *. cbn [locks]. auto.
Qed.

Lemma step_pick_FInv f o f' :
  (match o with OpTreat _ _ _ _ => False | _ => True end) -> FInv f -> step f o = Some f' ->
  FInv f' /\ forall c, total c f' = total c f.
Proof.
  intros Ho F H. destruct (step_pick_frame _ _ _ Ho H) as (A & B & C & D). split.
  - destruct F as [f1 f2 f3]. constructor; rewrite ?A, ?B, ?C, ?D; auto.
  - intros c. unfold total. now rewrite A, B.
Qed.

(* ------------------------------------------------------------------ whole runs *)

(* the number of completed steps of a run at which column c was idle (when the weights
   were recorded) *)
Fixpoint idle_steps (c : nat) (f : fstate) (ops : list op) : option (fstate * nat) :=
  match ops with
  | [] => Some (f, 0)
  | o :: r =>
      match step f o with
      | None => None
      | Some f1 =>
          match idle_steps c f1 r with
          | None => None
          | Some (f', k) =>
              Some (f', match o with
                        | OpTreat _ _ _ _ => if is_locked (core f1) c then k else S k
                        | _ => k
                        end)
          end
      end
  end.

(* the hypothesis on the probability matrices used along the run (what C02 provides) *)
Fixpoint Pgood (c : nat) (f : fstate) (ops : list op) : Prop :=
  match ops with
  | [] => True
  | o :: r =>
      match step f o with
      | None => True
      | Some f1 =>
          match o with
          | OpTreat _ _ _ P => Prows (core f1) P /\ Pcols (core f1) P c
          | _ => True
          end /\ Pgood c f1 r
      end
  end.

Theorem conservation c : forall ops f f' k,
  InvF f -> FInv f -> Pgood c f ops -> idle_steps c f ops = Some (f', k) ->
  (total c f' == total c f + inject_Z (Z.of_nat k))%Q /\ FInv f' /\ InvF f'.
Proof.
  induction ops as [|o r IH]; intros f f' k I F G H; cbn [idle_steps Pgood] in *.
  - injection H as <- <-. split; [cbn; ring|]. split; assumption.
  - destruct (step f o) as [f1|] eqn:S; [|discriminate].
    destruct G as [G1 G2].
    destruct (idle_steps c f1 r) as [[f2 k2]|] eqn:R; [|discriminate]. injection H as <- <-.
    pose proof (step_Inv _ _ _ I S) as I1.
    destruct o as [ch pin|cols paths pin|q acc rows P].
    + destruct (step_pick_FInv f (OpPick ch pin) f1 Logic.I F S) as (F1 & T1).
      destruct (IH _ _ _ I1 F1 G2 R) as (A & B & C). split; [rewrite A, T1; reflexivity|split; assumption].
    + destruct (step_pick_FInv f (OpPickLock cols paths pin) f1 Logic.I F S) as (F1 & T1).
      destruct (IH _ _ _ I1 F1 G2 R) as (A & B & C). split; [rewrite A, T1; reflexivity|split; assumption].
    + destruct G1 as [HP HC].
      destruct (treat_conservation f q acc rows P f1 c I F S HP) as (_ & F1).
      pose proof (treat_conservation_unit f q acc rows P f1 c I F S HP HC) as U.
      destruct (IH _ _ _ I1 F1 G2 R) as (A & B & C). split; [|split; assumption].
      rewrite A, U. destruct (is_locked (core f1) c); [ring|].
      rewrite Nat2Z.inj_succ, <- Z.add_1_r, inject_Z_plus. cbn. ring.
Qed.

(* a path's record is written to the data file at most once, and a path with a row in the
   data file has no live record any more *)
Theorem rows_once f : FInv f -> NoDup (keys (data f)) /\ forall k, In k (keys (data f)) -> ~ In k (keys (fracs f)).
Proof.
  intros F. pose proof (fi_nodup _ F) as N. split; [eapply NoDup_app_r; eauto|].
  intros k Hd Hf. eapply NoDup_app_disj; eauto.
Qed.

(* with nothing in flight after the step (one worker) every real ensemble column gets its unit *)
Corollary single_worker_unit f k acc rows P f' c :
  InvF f -> FInv f -> step f (OpTreat k acc rows P) = Some f' ->
  Prows (core f') P -> Pcols (core f') P c -> locked (core f') = [] -> c < size (core f') - 1 ->
  (total c f' == total c f + 1)%Q.
Proof.
  intros I F H HP HC Hl Hc.
  pose proof (treat_conservation_unit f k acc rows P f' c I F H HP HC) as U.
  pose proof (step_Inv _ _ _ I H) as I1.
  destruct (is_locked (core f') c) eqn:L; [|exact U].
  exfalso. pose proof (inv_cover _ I1 c Hc L) as Hin. unfold cols_of in Hin. rewrite Hl in Hin. exact Hin.
Qed.
