(* Termination of the literal re-sorting loop (REPEX_state.sort_trajstate) for staircase weight
   rows of ANY size: under the exclusivity invariant, a perfect matching of the idle block and
   staircase rows, every iteration either moves the first badly placed slot to the right or
   strictly lengthens the row sitting in it, so the loop ends within n*(n+1) iterations without
   error (property C05). *)
From Coq Require Import ZArith List Bool Lia.
Import ListNotations.
From Inf Require Import base.ListX model.RepexM model.MatchM proofs.RepexP proofs.MatchP.
Open Scope nat_scope.

(* ------------------------------------------------------------------ find_first *)

Lemma find_first_min {A} (f : nat -> A -> bool) (d : A) : forall l i k,
  find_first f i l = Some k -> forall j, i <= j < k -> f j (nth (j - i) l d) = false.
Proof.
  induction l as [|a l IH]; intros i k H j Hj; cbn in H; [discriminate|].
  destruct (f i a) eqn:E.
  - injection H as <-. lia.
  - destruct (Nat.eq_dec j i) as [->|N].
    + rewrite Nat.sub_diag. exact E.
    + replace (j - i) with (S (j - S i)) by lia. cbn. apply (IH (S i) k H). lia.
Qed.

Lemma find_first_some {A} (f : nat -> A -> bool) (d : A) : forall l i j,
  j < length l -> f (i + j) (nth j l d) = true -> exists k, find_first f i l = Some k /\ k <= i + j.
Proof.
  induction l as [|a l IH]; intros i j Hj Hf; cbn in Hj; [lia|]. cbn [find_first].
  destruct (f i a) eqn:E; [exists i; split; [reflexivity|lia]|].
  destruct j as [|j]; [rewrite Nat.add_0_r in Hf; cbn in Hf; congruence|].
  destruct (IH (S i) j ltac:(lia)) as (k & Hk & Le).
  - replace (S i + j) with (i + S j) by lia. exact Hf.
  - exists k. split; [exact Hk|lia].
Qed.

(* ------------------------------------------------------------------ rows *)

Definition RowsWF (s : rstate) : Prop := forall r, r < size s -> length (nth r (W s) []) = size s.

(* the row in slot 0 is a [0-] row, the rows in slots 1..n-2 are staircases over the plus columns *)
Definition Stair (s : rstate) : Prop :=
  wij s 0 0 <> 0%Z /\ (forall c, 1 <= c -> wij s 0 c = 0%Z) /\
  forall r, 1 <= r < size s - 1 ->
    wij s r 0 = 0%Z /\
    forall c c', 1 <= c <= c' -> c' < size s - 1 -> wij s r c' <> 0%Z -> wij s r c <> 0%Z.

(* first zero among the plus columns of the row in slot r (size s when there is none) *)
Definition fz (s : rstate) (r : nat) : nat :=
  match find_first (fun _ x => (x =? 0)%Z) 1 (removelast (tl (nth r (W s) []))) with
  | Some z => z
  | None => size s
  end.

Lemma nth_tl {A} (l : list A) k d : nth k (tl l) d = nth (S k) l d.
Proof. destruct l; cbn; [destruct k; reflexivity|reflexivity]. Qed.

Lemma row_entry s r c : RowsWF s -> r < size s -> 1 <= c -> c < size s - 1 ->
  nth (c - 1) (removelast (tl (nth r (W s) []))) 0%Z = wij s r c.
Proof.
  intros Hr Lr H1 H2. specialize (Hr r Lr).
  assert (Lt : length (tl (nth r (W s) [])) = size s - 1).
  { destruct (nth r (W s) []); cbn in *; lia. }
  rewrite nth_removelast by (rewrite Lt; lia). rewrite nth_tl. unfold wij. f_equal. lia.
Qed.

Lemma row_search_length s r : RowsWF s -> r < size s -> length (removelast (tl (nth r (W s) []))) = size s - 2.
Proof.
  intros Hr Lr. specialize (Hr r Lr). rewrite removelast_length.
  destruct (nth r (W s) []); cbn in *; lia.
Qed.

(* what the search for the first zero column returns *)
Lemma fz_spec s r z : RowsWF s -> r < size s ->
  find_first (fun _ x => (x =? 0)%Z) 1 (removelast (tl (nth r (W s) []))) = Some z ->
  1 <= z < size s - 1 /\ wij s r z = 0%Z /\ forall c, 1 <= c < z -> wij s r c <> 0%Z.
Proof.
  intros Hr Lr H.
  pose proof (find_first_spec _ _ _ _ 0%Z H) as (A & B).
  rewrite (row_search_length s r Hr Lr) in A.
  assert (Hz : 1 <= z < size s - 1) by lia. split; [exact Hz|]. split.
  - rewrite (row_entry s r z Hr Lr) in B by lia. now apply Z.eqb_eq in B.
  - intros c Hc. pose proof (find_first_min _ 0%Z _ _ _ H c ltac:(lia)) as M.
    rewrite (row_entry s r c Hr Lr) in M by lia. now apply Z.eqb_neq in M.
Qed.

Lemma fz_none s r : RowsWF s -> r < size s ->
  find_first (fun _ x => (x =? 0)%Z) 1 (removelast (tl (nth r (W s) []))) = None ->
  forall c, 1 <= c < size s - 1 -> wij s r c <> 0%Z.
Proof.
  intros Hr Lr H c Hc E.
  destruct (find_first_some (fun _ x => (x =? 0)%Z) 0%Z (removelast (tl (nth r (W s) []))) 1 (c - 1)) as (k & Hk & _).
  - rewrite (row_search_length s r Hr Lr). lia.
  - rewrite (row_entry s r c Hr Lr) by lia. now apply Z.eqb_eq.
  - congruence.
Qed.

(* ------------------------------------------------------------------ the matching is onto *)

Definition idles (s : rstate) : list nat := filter (fun r => negb (is_locked s r)) (seq 0 (size s)).

Lemma in_idles s r : In r (idles s) <-> is_locked s r = false.
Proof.
  unfold idles. rewrite filter_In, in_seq. split.
  - intros [_ H]. now apply negb_true_iff in H.
  - intros H. split; [pose proof (unlocked_lt _ _ H); lia|now apply negb_true_iff].
Qed.

Lemma NoDup_filter {A} (f : A -> bool) l : NoDup l -> NoDup (filter f l).
Proof.
  induction 1 as [|a l Hn Hd IH]; cbn; [constructor|].
  destruct (f a); [constructor; [|exact IH]|exact IH]. intros Hin. apply filter_In in Hin as [Hin _]. contradiction.
Qed.

Lemma NoDup_map_inj_in {A B} (f : A -> B) l :
  (forall x y, In x l -> In y l -> f x = f y -> x = y) -> NoDup l -> NoDup (map f l).
Proof.
  intros Hinj Hd. induction Hd as [|a l Hn Hd IH]; cbn; [constructor|].
  constructor.
  - intros Hin. apply in_map_iff in Hin as (y & Ey & Hy). apply Hn.
    rewrite (Hinj a y (or_introl eq_refl) (or_intror Hy) (eq_sym Ey)). exact Hy.
  - apply IH. intros x y Hx Hy. apply Hinj; now right.
Qed.

Lemma mat_onto s m c : mat s m -> is_locked s c = false -> exists r, is_locked s r = false /\ mrow m r = c.
Proof.
  intros [L M] Hc.
  assert (Nd : NoDup (idles s)) by (apply NoDup_filter, seq_NoDup).
  assert (Nd' : NoDup (map (mrow m) (idles s))).
  { apply NoDup_map_inj_in; [|exact Nd]. intros x y Hx Hy E. apply in_idles in Hx, Hy.
    destruct (M x Hx) as (_ & _ & I). now apply I. }
  assert (Inc : incl (map (mrow m) (idles s)) (idles s)).
  { intros y Hy. apply in_map_iff in Hy as (x & <- & Hx). apply in_idles in Hx. apply in_idles.
    destruct (M x Hx) as (A & _). exact A. }
  assert (Inc2 : incl (idles s) (map (mrow m) (idles s))).
  { apply NoDup_length_incl; [exact Nd'|rewrite map_length; lia|exact Inc]. }
  assert (Hin : In c (idles s)) by now apply in_idles.
  apply Inc2 in Hin. apply in_map_iff in Hin as (r & E & Hr). exists r. split; [now apply in_idles|exact E].
Qed.

(* a matched plus row reaches its partner column, a matched [0-] row stays in column 0 *)
Lemma stair_reach s r c c' : Stair s -> 1 <= r < size s - 1 -> 1 <= c <= c' -> c' < size s - 1 ->
  wij s r c' <> 0%Z -> wij s r c <> 0%Z.
Proof. intros (_ & _ & St) Hr Hc Hc' H. destruct (St r Hr) as (_ & Mono). eapply Mono; eauto. Qed.

(* ------------------------------------------------------------------ swap of two rows *)

Lemma swap_row s a b r : wf s -> a < size s -> b < size s ->
  nth r (W (swap s a b)) [] = nth (transp a b r) (W s) [].
Proof. intros Wf Ha Hb. cbn [swap W]. apply nth_swap_nth; rewrite (wf_W _ Wf); assumption. Qed.

Lemma swap_wij s a b x y : wf s -> a < size s -> b < size s -> wij (swap s a b) x y = wij s (transp a b x) y.
Proof. intros Wf Ha Hb. unfold wij. now rewrite swap_row. Qed.

Lemma swap_size s a b : size (swap s a b) = size s.
Proof. reflexivity. Qed.

Lemma swap_fz s a b r : wf s -> a < size s -> b < size s -> fz (swap s a b) r = fz s (transp a b r).
Proof. intros Wf Ha Hb. unfold fz. rewrite swap_row by assumption. reflexivity. Qed.

Lemma transp_ge1 a b r : 1 <= a -> 1 <= b -> 1 <= r -> 1 <= transp a b r.
Proof. unfold transp. intros. destruct (r =? a); [lia|]. destruct (r =? b); lia. Qed.

Lemma transp_0 a b : 1 <= a -> 1 <= b -> transp a b 0 = 0.
Proof. unfold transp. intros. destruct (Nat.eqb_spec 0 a); [lia|]. destruct (Nat.eqb_spec 0 b); [lia|reflexivity]. Qed.

Lemma swap_RowsWF s a b : wf s -> a < size s -> b < size s -> RowsWF s -> RowsWF (swap s a b).
Proof.
  intros Wf Ha Hb H r Hr. rewrite swap_size in *. rewrite swap_row by assumption. apply H. now apply transp_lt.
Qed.

Lemma swap_Stair s a b : wf s -> 1 <= a < size s - 1 -> 1 <= b < size s - 1 -> Stair s -> Stair (swap s a b).
Proof.
  intros Wf Ha Hb (S0 & S1 & S2).
  assert (La : a < size s) by lia. assert (Lb : b < size s) by lia.
  split; [|split].
  - rewrite swap_wij by assumption. rewrite transp_0 by lia. exact S0.
  - intros c Hc. rewrite swap_wij by assumption. rewrite transp_0 by lia. now apply S1.
  - intros r Hr. rewrite swap_size in Hr.
    assert (Ht : 1 <= transp a b r < size s - 1).
    { split; [apply transp_ge1; lia|apply transp_lt; lia]. }
    destruct (S2 _ Ht) as (A & B). split.
    + rewrite swap_wij by assumption. exact A.
    + intros c c' Hc Hc'. rewrite swap_size in Hc'. rewrite !swap_wij by assumption. now apply B.
Qed.

(* ------------------------------------------------------------------ one iteration *)

Lemma first_bad_min s e : Inv s -> first_bad s = Some e -> forall i, i < e -> wij s i i <> 0%Z.
Proof.
  intros I H i Hi. unfold first_bad in H.
  pose proof (first_bad_spec _ _ I H) as (Le & _).
  pose proof (find_first_min _ [] _ _ _ H i ltac:(lia)) as M. rewrite Nat.sub_0_r in M.
  rewrite nth_removelast in M by (rewrite (wf_W _ (inv_wf _ I)); lia).
  apply Z.eqb_neq in M. exact M.
Qed.

Lemma first_bad_some s e : Inv s -> e < size s - 1 -> wij s e e = 0%Z -> exists e', first_bad s = Some e' /\ e' <= e.
Proof.
  intros I Le H. unfold first_bad.
  destruct (find_first_some (fun i row => (nth i row 0 =? 0)%Z) [] (removelast (W s)) 0 e) as (k & Hk & Lk).
  - rewrite removelast_length, (wf_W _ (inv_wf _ I)). lia.
  - cbn. rewrite nth_removelast by (rewrite (wf_W _ (inv_wf _ I)); lia). now apply Z.eqb_eq.
  - exists k. split; [exact Hk|lia].
Qed.

Section Iteration.
  Variable s : rstate.
  Variable e : nat.
  Hypothesis I : Inv s.
  Hypothesis Mt : Matchable s.
  Hypothesis St : Stair s.
  Hypothesis Rw : RowsWF s.
  Hypothesis Hb : first_bad s = Some e.

  Let Wf := inv_wf _ I.

  Lemma it_e : 1 <= e < size s - 1 /\ wij s e e = 0%Z /\ is_locked s e = false.
  Proof.
    destruct (first_bad_spec _ _ I Hb) as (A & B & C). split; [|auto]. split; [|exact A].
    destruct e; [|lia]. destruct St as (S0 & _). contradiction.
  Qed.

  Lemma it_z : exists z, find_first (fun _ x => (x =? 0)%Z) 1 (removelast (tl (nth e (W s) []))) = Some z /\
    1 <= z <= e /\ wij s e z = 0%Z /\ (forall c, 1 <= c < z -> wij s e c <> 0%Z) /\ fz s e = z.
  Proof.
    destruct it_e as ((E1 & E2) & E0 & _).
    destruct (find_first_some (fun _ x => (x =? 0)%Z) 0%Z (removelast (tl (nth e (W s) []))) 1 (e - 1)) as (z & Hz & Lz).
    - rewrite (row_search_length s e Rw) by lia. lia.
    - rewrite (row_entry s e e Rw) by lia. now apply Z.eqb_eq.
    - destruct (fz_spec s e z Rw ltac:(lia) Hz) as (A & B & C).
      exists z. split; [exact Hz|]. split; [lia|]. split; [exact B|]. split; [exact C|]. unfold fz. now rewrite Hz.
  Qed.

  (* a matched row reaches the column it is matched to, and nothing beyond its first zero *)
  Lemma matched_below m r z : mat s m -> is_locked s r = false -> 1 <= z < size s - 1 -> wij s r z = 0%Z -> mrow m r < z.
  Proof.
    intros [L M] Hr Hz Hw. destruct (M r Hr) as (A & B & _).
    pose proof (unlocked_real _ _ Wf A) as Lc. pose proof (unlocked_real _ _ Wf Hr) as Lr.
    destruct (Nat.lt_ge_cases (mrow m r) z) as [|Hge]; [assumption|]. exfalso.
    destruct r as [|r].
    - destruct St as (_ & S1 & _). apply B. apply S1. lia.
    - apply (stair_reach s (S r) z (mrow m (S r)) St ltac:(lia) ltac:(lia) Lc B). exact Hw.
  Qed.

  Lemma it_t : exists z t, fz s e = z /\ 1 <= z <= e /\
    sort_step s e = Some (swap s e t) /\ t <> e /\ 1 <= t < size s - 1 /\ is_locked s t = false /\
    wij s t z <> 0%Z /\ (t < e -> t < z).
  Proof.
    destruct it_e as ((E1 & E2) & E0 & Ue).
    destruct it_z as (z & Hz & (Z1 & Z2) & Wz & Cz & Fz).
    destruct Mt as (m & Mm).
    (* some idle row is matched to column e: it is non-zero in column z *)
    destruct (mat_onto s m e Mm Ue) as (r & Ur & Er).
    pose proof (unlocked_real _ _ Wf Ur) as Lr.
    assert (Wre : wij s r e <> 0%Z). { destruct Mm as [_ M]. destruct (M r Ur) as (_ & B & _). now rewrite Er in B. }
    assert (R1 : 1 <= r). { destruct r; [|lia]. destruct St as (_ & S1 & _). exfalso. apply Wre. apply S1. lia. }
    assert (Wrz : wij s r z <> 0%Z) by (apply (stair_reach s r z e St); try lia; exact Wre).
    destruct (find_first_some (fun i row => negb (nth z row 0 =? 0)%Z && negb (is_locked s i)) [] (removelast (W s)) 0 r) as (t & Ht & Lt).
    { rewrite removelast_length, (wf_W _ Wf). lia. }
    { cbn. rewrite nth_removelast by (rewrite (wf_W _ Wf); lia). fold (wij s r z). rewrite Ur.
      apply andb_true_iff. split; [|reflexivity]. now apply negb_true_iff, Z.eqb_neq. }
    pose proof (find_first_spec _ _ _ _ [] Ht) as (At & Bt). rewrite Nat.sub_0_r in Bt.
    rewrite removelast_length, (wf_W _ Wf) in At.
    rewrite nth_removelast in Bt by (rewrite (wf_W _ Wf); lia). fold (wij s t z) in Bt.
    apply andb_true_iff in Bt as [Bt1 Bt2]. apply negb_true_iff in Bt1, Bt2. apply Z.eqb_neq in Bt1.
    assert (T1 : 1 <= t). { destruct t; [|lia]. destruct St as (_ & S1 & _). exfalso. apply Bt1. apply S1. lia. }
    assert (Tne : t <> e) by (intros ->; contradiction).
    exists z, t. split; [exact Fz|]. split; [lia|]. split.
    { unfold sort_step. rewrite Hz, Ht. reflexivity. }
    split; [exact Tne|]. split; [lia|]. split; [exact Bt2|]. split; [exact Bt1|].
    (* Lemma A: when the row comes from the left, its slot stays well placed *)
    intros Hlt. destruct (Nat.lt_ge_cases t z) as [|Hge]; [assumption|]. exfalso.
    set (left := filter (fun i => negb (is_locked s i)) (seq 0 t)).
    assert (Hleft : forall i, In i left <-> i < t /\ is_locked s i = false).
    { intros i. unfold left. rewrite filter_In, in_seq, negb_true_iff. split; intros [A B]; split; auto; lia. }
    assert (Low : forall i, In i (left ++ [e]) -> In (mrow m i) left).
    { intros i Hi. apply in_app_or in Hi as [Hi|[<-|[]]].
      - apply Hleft in Hi as (Hi & Ui). apply Hleft.
        assert (Wiz : wij s i z = 0%Z).
        { pose proof (find_first_min _ [] _ _ _ Ht i ltac:(lia)) as Mi. rewrite Nat.sub_0_r in Mi.
          rewrite nth_removelast in Mi by (rewrite (wf_W _ Wf); lia). fold (wij s i z) in Mi.
          rewrite Ui in Mi. cbn in Mi. rewrite andb_true_r in Mi. apply negb_false_iff in Mi. now apply Z.eqb_eq in Mi. }
        pose proof (matched_below m i z Mm Ui ltac:(lia) Wiz). destruct Mm as [_ M]. destruct (M i Ui) as (A & _). split; [lia|exact A].
      - apply Hleft. pose proof (matched_below m e z Mm Ue ltac:(lia) Wz). destruct Mm as [_ M]. destruct (M e Ue) as (A & _). split; [lia|exact A]. }
    assert (Nd : NoDup (left ++ [e])).
    { apply NoDup_app_intro_single; [apply NoDup_filter, seq_NoDup|]. intros Hin. apply Hleft in Hin. lia. }
    assert (Nd' : NoDup (map (mrow m) (left ++ [e]))).
    { apply NoDup_map_inj_in; [|exact Nd]. intros x y Hx Hy E.
      assert (Ux : is_locked s x = false) by (apply in_app_or in Hx as [Hx|[<-|[]]]; [now apply Hleft in Hx|exact Ue]).
      assert (Uy : is_locked s y = false) by (apply in_app_or in Hy as [Hy|[<-|[]]]; [now apply Hleft in Hy|exact Ue]).
      destruct Mm as [_ M]. destruct (M x Ux) as (_ & _ & Inj). now apply Inj. }
    assert (Inc : incl (map (mrow m) (left ++ [e])) left).
    { intros y Hy. apply in_map_iff in Hy as (x & <- & Hx). now apply Low. }
    pose proof (NoDup_incl_length Nd' Inc) as Len. rewrite map_length, app_length in Len. cbn in Len. lia.
  Qed.
End Iteration.

(* ------------------------------------------------------------------ progress and termination *)

Definition SInv (s : rstate) : Prop := Inv s /\ Matchable s /\ Stair s /\ RowsWF s.

Definition mu (s : rstate) : nat :=
  match first_bad s with
  | None => 0
  | Some e => S ((size s - e) * (size s + 1) + (size s - fz s e))
  end.

Lemma fz_le s r : RowsWF s -> r < size s -> fz s r <= size s.
Proof.
  intros Rw Lr. unfold fz. destruct (find_first _ 1 _) as [z|] eqn:E; [|lia].
  destruct (fz_spec s r z Rw Lr E). lia.
Qed.

Lemma sort_step_progress s e :
  SInv s -> first_bad s = Some e ->
  exists s1, sort_step s e = Some s1 /\ SInv s1 /\ size s1 = size s /\ mu s1 < mu s.
Proof.
  intros (I & Mt & St & Rw) Hb.
  pose proof (inv_wf _ I) as Wf.
  destruct (it_e s e I St Hb) as ((E1 & E2) & E0 & Ue).
  destruct (it_t s e I Mt St Rw Hb) as (z & t & Fz & (Z1 & Z2) & Hs & Tne & (T1 & T2) & Ut & Wtz & LemA).
  assert (Le : e < size s) by lia. assert (Lt : t < size s) by lia.
  exists (swap s e t). split; [exact Hs|].
  assert (I1 : Inv (swap s e t)) by (apply swap_Inv; assumption).
  assert (S1 : SInv (swap s e t)).
  { split; [exact I1|]. split; [apply swap_matchable; assumption|]. split; [apply swap_Stair; auto; lia|apply swap_RowsWF; assumption]. }
  split; [exact S1|]. split; [reflexivity|].
  (* every slot left of e is well placed after the swap *)
  assert (Good : forall i, i < e -> wij (swap s e t) i i <> 0%Z).
  { intros i Hi. rewrite swap_wij by assumption. unfold transp.
    destruct (Nat.eqb_spec i e) as [->|Ne]; [lia|].
    destruct (Nat.eqb_spec i t) as [->|Nt].
    - (* the row that came from slot e: t < z, so it is non-zero in column t *)
      destruct (it_z s e I St Rw Hb) as (z' & _ & _ & _ & Cz & Fz'). rewrite Fz in Fz'. subst z'.
      apply Cz. specialize (LemA Hi). lia.
    - exact (first_bad_min s e I Hb i Hi). }
  (* the row now sitting in slot e has its first zero beyond z *)
  assert (Longer : z < fz (swap s e t) e).
  { rewrite swap_fz by assumption. unfold transp. rewrite Nat.eqb_refl.
    unfold fz. destruct (find_first _ 1 _) as [z'|] eqn:Ez; [|lia].
    destruct (fz_spec s t z' Rw Lt Ez) as (A & B & _).
    destruct (Nat.lt_ge_cases z z') as [|Hge]; [assumption|]. exfalso.
    apply (stair_reach s t z' z St); try lia; assumption. }
  unfold mu at 2. rewrite Hb. unfold mu.
  destruct (first_bad (swap s e t)) as [e1|] eqn:Hb1; [|apply Nat.lt_0_succ].
  destruct (first_bad_spec _ _ I1 Hb1) as (L1 & W1 & _). rewrite swap_size in *.
  assert (Ge : e <= e1).
  { destruct (Nat.lt_ge_cases e1 e) as [Hlt|]; [|assumption]. exfalso. exact (Good e1 Hlt W1). }
  pose proof (fz_le s e Rw Le) as F0. rewrite Fz in F0.
  destruct (Nat.eq_dec e1 e) as [->|Nee].
  - pose proof (fz_le (swap s e t) e (proj2 (proj2 (proj2 S1))) Le) as F1. rewrite swap_size in F1. lia.
  - assert (e < e1) by lia.
    pose proof (fz_le (swap s e t) e1 (proj2 (proj2 (proj2 S1))) ltac:(rewrite swap_size; lia)) as F1. rewrite swap_size in F1.
    assert ((size s - e1) * (size s + 1) + (size s + 1) <= (size s - e) * (size s + 1)).
    { replace (size s - e) with (S (size s - e1) + (e1 - e - 1)) by lia. nia. }
    lia.
Qed.

Theorem sort_loop_terminates : forall fuel s it,
  SInv s -> mu s <= fuel ->
  exists s1 n, sort_loop fuel s it = SortOk s1 n /\ SInv s1 /\ first_bad s1 = None /\ n <= it + mu s.
Proof.
  induction fuel as [|fuel IH]; intros s it Hs Hm.
  - unfold mu in Hm. cbn [sort_loop]. destruct (first_bad s) eqn:Hb; [inversion Hm|].
    exists s, it. split; [reflexivity|]. split; [exact Hs|]. split; [exact Hb|lia].
  - cbn [sort_loop]. destruct (first_bad s) as [e|] eqn:Hb.
    + destruct (sort_step_progress s e Hs Hb) as (s1 & Hstep & Hs1 & _ & Hmu). rewrite Hstep.
      destruct (IH s1 (S it) Hs1 ltac:(lia)) as (s2 & n & R & A & B & C).
      exists s2, n. split; [exact R|]. split; [exact A|]. split; [exact B|lia].
    + exists s, it. split; [reflexivity|]. split; [exact Hs|]. split; [exact Hb|lia].
Qed.

Lemma mu_bound s : RowsWF s -> 2 <= size s -> mu s <= size s * size s * size s + 8.
Proof.
  intros Rw Hn. unfold mu. destruct (first_bad s) as [e|]; [|lia].
  assert ((size s - e) * (size s + 1) <= size s * (size s + 1)) by nia.
  assert (size s * (size s + 1) + size s + 1 <= size s * size s * size s + 8) by nia.
  lia.
Qed.

(* the literal sort_trajstate (with its fuel) ends without error on every such state, within
   n*(n+1)+n swaps, and leaves no slot that needs moving *)
Theorem sort_trajstate_terminates s :
  SInv s -> exists s1 n, sort_trajstate s = SortOk s1 n /\ SInv s1 /\ first_bad s1 = None /\ n <= mu s.
Proof.
  intros Hs. unfold sort_trajstate.
  destruct Hs as (I & Mt & St & Rw).
  destruct (sort_loop_terminates (size s * size s * size s + 8) s 0 (conj I (conj Mt (conj St Rw)))) as (s1 & n & R & A & B & C).
  - apply mu_bound; [exact Rw|exact (wf_n _ (inv_wf _ I))].
  - exists s1, n. auto.
Qed.
