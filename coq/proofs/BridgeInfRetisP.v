(* BRIDGE 3 (model of the code -> C04 / C05): the matrix that the MODEL OF THE CODE computes
   (inf_retis of model/PermM.v) on the weight matrix of a bookkeeping state of model/RepexM.v
   satisfies the predicate [ExactP] of proofs/BridgeFracP.v, whenever the state belongs to the
   reachable family of C02 ([InFamily]: WQ s = wstair_matrix rows with positive weights,
   locks s = b0 :: lk' ++ [true], and one of
     - at most 12 idle plus ensembles,
     - one weight per path (0/1 staircases in particular): every size, no bound,
     - every non-uniform block returned by find_blocks has at most 12 paths).
   Consequences, with the code's own P:
     infretis_exact          the call succeeds and its result P satisfies ExactP s P
     infretis_pos_iff_cert   mget P i j > 0  <->  the pick (i, j) has a certificate   (BRIDGE 1)
     treat_unit_infretis     one completed step credits exactly one unit to every idle column,
                             nothing to a busy one                                      (BRIDGE 2)
     stair_state_family      the staircase states of model/MatchM.v are in the family

   What had to be added to the C02 development: the SHAPE of the result (n rows of n entries).
   [refines_Pspec] only speaks about the values read with nth; the credit loop of the
   bookkeeping model truncates to the shorter row, so C04 needs [Prows].  The shape comes from
   [family2_core] / [inf_core_fast] (the un-inserted result is square) and the re-insertion of
   the busy rows and columns ([reinsert_shape]).
   [random_prob] (rp) stays a parameter: it is never reached under the side condition. *)
From Coq Require Import ZArith NArith QArith List Bool Arith Lia Permutation.
Import ListNotations.
From Inf Require Import model.PermM spec.PermS proofs.PermSpecP proofs.PermP proofs.PermIdleP
  proofs.PermGlynnP proofs.PermFastP proofs.PermFamilyP.
From Inf Require proofs.PermBlockLoopP proofs.PermFastFamilyP.
From Inf Require Import model.RepexM model.MatchM proofs.RepexP proofs.MatchP proofs.FracP
  proofs.PermMatchP proofs.BridgeMatchP proofs.BridgeFracP.
Open Scope nat_scope.

(* ------------------------------------------------------------------ shape of the re-inserted result *)

Lemma reinsert_shape locks k (o : matrix) :
  k = length (idle_idx locks) -> square k o -> square (length locks) (reinsert locks k o).
Proof.
  intros Hk [Hl Hr]. unfold reinsert, np_insert. split.
  - rewrite map_length. apply (np_insert_idle (repeat 0%Q k) [] locks 0 o). lia.
  - apply Forall_map.
    assert (F : Forall (fun r : list Q => length r = k)
                  (np_insert_from 0 o (insert_list_from 0 locks) (repeat 0%Q k))).
    { apply np_insert_from_all; [apply repeat_length|exact Hr]. }
    eapply Forall_impl; [|exact F]. intros r Hlen. cbv beta in Hlen |- *.
    apply (np_insert_idle 0%Q 0%Q locks 0 r). lia.
Qed.

Lemma inf_retis_with_shape rp mi pi off (Wm : matrix) locks o P k :
  inf_retis_with rp mi pi off Wm locks = Some P ->
  inf_core rp mi pi (off - count_true (firstn off locks)) (unlocked Wm locks) = Some o ->
  k = length (unlocked Wm locks) -> k = length (idle_idx locks) -> square k o ->
  square (length locks) P.
Proof.
  intros H Ho Hk1 Hk2 Hsq. unfold inf_retis_with in H. cbv zeta in H.
  fold (unlocked Wm locks) in H. rewrite Ho in H. injection H as <-.
  rewrite <- Hk1. exact (reinsert_shape locks k o Hk2 Hsq).
Qed.

(* the all-equal fast path (one weight per row): same hypotheses as inf_retis_with_fast *)
Lemma inf_retis_with_fast_shape rp mi pi0 off (Wm : matrix) locks p q kfm wm kfp wp P :
  square (length locks) Wm ->
  p = off - count_true (firstn off locks) -> length (unlocked Wm locks) = p + q -> 1 <= p + q ->
  Permutation mi (seq 0 p) -> Permutation pi0 (seq 0 q) ->
  ustair q p kfm wm (map (@rev Q) (firstn p (unlocked Wm locks))) ->
  ustair p q kfp wp (skipn p (unlocked Wm locks)) ->
  ~ (perm (p + q) (of_lists (unlocked Wm locks)) == 0)%Q ->
  inf_retis_with rp mi pi0 off Wm locks = Some P -> square (length locks) P.
Proof.
  intros HsqW Hp HlU Hn Hmi Hpi Hm Hpl Hperm HP.
  set (U := unlocked Wm locks) in *.
  assert (EU : U = idle_block Wm locks) by (apply unlocked_idle_block; exact HsqW).
  assert (LU : length U = length (idle_idx locks)).
  { rewrite EU. unfold idle_block. cbv zeta. apply map_length. }
  assert (HsqU : square (p + q) U).
  { rewrite <- HlU, LU, EU. apply square_idle_block. }
  assert (Lmi : length mi = p) by (rewrite (Permutation_length Hmi); apply seq_length).
  assert (Lpi : length pi0 = q) by (rewrite (Permutation_length Hpi); apply seq_length).
  destruct (inf_core_fast rp mi pi0 p q U
              (fun i => kfm (nth i mi O)) (fun i => wm (nth i mi O))
              (fun i => kfp (nth i pi0 O)) (fun i => wp (nth i pi0 O)) Hn HsqU Hmi Hpi)
    as (o & Ho & Hso & _).
  - pose proof (firstn_map_rownth_app U mi (map (fun i => (i + p)%nat) pi0)) as E1.
    rewrite Lmi in E1. rewrite E1.
    rewrite (map_rev_rows_firstn p).
    + apply ustair_rows_permute; assumption.
    + intros i Hi. apply (Permutation_in _ Hmi) in Hi. apply in_seq in Hi. lia.
  - pose proof (skipn_map_rownth_app U mi (map (fun i => (i + p)%nat) pi0)) as E1.
    rewrite Lmi in E1. rewrite E1. rewrite map_rows_skipn.
    apply ustair_rows_permute; assumption.
  - exact Hperm.
  - apply (inf_retis_with_shape rp mi pi0 off Wm locks o P (p + q) HP).
    + rewrite <- Hp. exact Ho.
    + symmetry. exact HlU.
    + rewrite <- HlU. exact LU.
    + exact Hso.
Qed.

(* a successful call has at least one idle slot (argmax of an empty sequence raises) *)
Lemma keep_all_locked {A} locks : idle_idx locks = [] -> forall l : list A, keep (map negb locks) l = [].
Proof.
  induction locks as [|b ls IH]; intros H l; [reflexivity|].
  rewrite idle_idx_cons in H. destruct b; [|discriminate].
  assert (E : idle_idx ls = []) by (destruct (idle_idx ls); [reflexivity|discriminate]).
  destruct l as [|x l]; [reflexivity|]. cbn. apply IH. exact E.
Qed.

Lemma inf_retis_some_idle rp off (Wm : matrix) locks P :
  inf_retis rp off Wm locks = Some P -> idle_idx locks <> [].
Proof.
  intros H E. unfold inf_retis, inf_retis_with in H. cbv zeta in H.
  rewrite (keep_all_locked locks E Wm) in H. cbn in H. discriminate.
Qed.

(* the side condition of C02 under which the result is exact: at most 12 idle plus ensembles,
   or one weight per path (0/1 staircases in particular: no bound at all), or the block-wise
   form of the "<= 12" condition *)
Definition rows_uniform (rows : list (list Q)) : Prop :=
  forall row, In row rows -> exists w, row = repeat w (length row).

Definition H12cond (rows : list (list Q)) (b0 : bool) (lk' : list bool) : Prop :=
  length (idle_idx (lk' ++ [true])) <= 12 \/
  rows_uniform rows \/
  forall blocks st en d,
    find_blocks (sorted_unlocked rows b0 lk') (if b0 then 0 else 1) = FBlist blocks ->
    In (st, en, d) blocks ->
    rows_equal_or_zero (PermBlockLoopP.subarr_of (sorted_unlocked rows b0 lk') st (en - st)) 0 = false ->
    en - st <= 12.

Definition rows_ok (rows : list (list Q)) : Prop :=
  forall row, In row rows -> 1 <= length row <= length rows /\ forall w, In w row -> (0 < w)%Q.

Lemma uniform_rows_fun rows : rows_ok rows -> rows_uniform rows ->
  forall r, r < length rows ->
    nth r rows [] = repeat (nth 0 (nth r rows []) 0%Q) (length (nth r rows [])) /\
    ~ (nth 0 (nth r rows []) 0 == 0)%Q /\ length (nth r rows []) <= length rows.
Proof.
  intros Hr Hu r Hlt. assert (Hin : In (nth r rows []) rows) by (apply nth_In; exact Hlt).
  destruct (Hr _ Hin) as [[H1 H2] H3]. destruct (Hu _ Hin) as (w & E).
  assert (E0 : nth 0 (nth r rows []) 0%Q = w).
  { rewrite E. destruct (length (nth r rows [])); [lia|reflexivity]. }
  rewrite E0. split; [exact E|]. split; [|exact H2].
  assert (Hw : (0 < w)%Q).
  { apply H3. rewrite E. destruct (length (nth r rows [])); [lia|now left]. }
  intros Ez. rewrite Ez in Hw. discriminate.
Qed.

(* C02 on the family, the three forms of the side condition *)
Theorem fam_refines rp rows b0 lk' :
  rows_ok rows -> length lk' = length rows -> H12cond rows b0 lk' ->
  refines_Pspec rp (wstair_matrix rows) (b0 :: lk' ++ [true]).
Proof.
  intros Hr Hlk [Hq|[Hu|H12]].
  - now apply wstair_positive_refines_le12.
  - apply (PermFastFamilyP.wstair_uniform_refines rp rows (b0 :: lk')); [|cbn; now rewrite Hlk].
    intros row Hin. destruct (Hr row Hin) as [H1 H3]. split; [exact H1|].
    destruct (Hu row Hin) as (w & E). exists w. split; [|exact E].
    assert (Hw : (0 < w)%Q) by (apply H3; rewrite E; destruct (length row); [lia|now left]).
    intros Ez. rewrite Ez in Hw. discriminate.
  - now apply wstair_positive_refines.
Qed.

(* the shape of the result, general positive weights *)
Lemma family_shape_pos rp rows b0 lk' P :
  rows_ok rows -> length lk' = length rows ->
  (length (idle_idx (lk' ++ [true])) <= 12 \/
   forall blocks st en d,
     find_blocks (sorted_unlocked rows b0 lk') (if b0 then 0 else 1) = FBlist blocks ->
     In (st, en, d) blocks ->
     rows_equal_or_zero (PermBlockLoopP.subarr_of (sorted_unlocked rows b0 lk') st (en - st)) 0 = false ->
     en - st <= 12) ->
  idle_idx (b0 :: lk' ++ [true]) <> [] ->
  ~ (perm (length (idle_idx (b0 :: lk' ++ [true])))
          (of_lists (idle_block (wstair_matrix rows) (b0 :: lk' ++ [true]))) == 0)%Q ->
  inf_retis rp 1 (wstair_matrix rows) (b0 :: lk' ++ [true]) = Some P ->
  square (length (b0 :: lk' ++ [true])) P.
Proof.
  intros Hr Hlk H12 Hidle Hperm HP. unfold inf_retis in HP.
  pose proof (rows_as_functions rows Hr) as Hrows.
  pose proof (idle_len_cons b0 lk') as Hlen.
  rewrite Hlen in Hperm.
  assert (Hk1 : 1 <= (if b0 then 0 else 1) + length (idle_idx (lk' ++ [true]))).
  { rewrite <- Hlen. destruct (idle_idx (b0 :: lk' ++ [true])); [congruence|cbn; lia]. }
  set (wfn := fun r j : nat => nth j (nth r rows []) 0%Q) in *.
  set (lf := fun r : nat => length (nth r rows [])) in *.
  pose proof (argsort_minus_Permutation rp rows wfn lf Hrows b0 lk' Hlk) as Pm.
  pose proof (argsort_pos_Permutation rp rows wfn lf Hrows b0 lk' Hlk) as Pp.
  pose proof (argsort_pos_sorted rp rows wfn lf Hrows b0 lk' Hlk Hperm) as Ps.
  assert (H12' : forall st en d,
     In (st, en, d) (fb_loop (if b0 then 0 else 1) 0 0
        (map count_nonzero (fb_temp (sorted_unlocked rows b0 lk') (if b0 then 0 else 1)))) ->
     rows_equal_or_zero (PermBlockLoopP.subarr_of (sorted_unlocked rows b0 lk') st (en - st)) 0 = false ->
     en - st <= 12).
  { intros st en d Hin Ht. destruct H12 as [Hq|H12].
    - exact (H12_of_q rp rows wfn lf Hrows b0 lk' Hlk _ _ Pm Pp Ps Hperm Hq st en d Hin).
    - destruct (Nat.eqb (length (sorted_unlocked rows b0 lk')) 1) eqn:E1.
      + apply Nat.eqb_eq in E1.
        apply (H12_of_q rp rows wfn lf Hrows b0 lk' Hlk _ _ Pm Pp Ps Hperm) with (d := d); [|exact Hin].
        unfold sorted_unlocked in E1. cbv zeta in E1.
        rewrite map_length, app_length, map_length in E1.
        rewrite (Permutation_length Pm), (Permutation_length Pp), !seq_length in E1. lia.
      + refine (H12 _ st en d _ Hin Ht). unfold find_blocks. rewrite E1. reflexivity. }
  destruct (family2_core rp rows wfn lf Hrows b0 lk' Hlk _ _ Pm Pp Ps Hperm H12' Hk1) as (o & Ho & Hso & _).
  pose proof (unlocked2 rp rows wfn lf Hrows b0 lk' Hlk) as EU.
  pose proof (U2_length rp rows wfn lf Hrows b0 lk' Hlk) as LU.
  apply (inf_retis_with_shape _ _ _ _ _ _ o P ((if b0 then 0 else 1) + length (idle_idx (lk' ++ [true]))) HP).
  - rewrite EU, (locks2_offset rp rows wfn lf Hrows b0 lk' Hlk). exact Ho.
  - rewrite EU, LU. reflexivity.
  - symmetry. exact Hlen.
  - exact Hso.
Qed.


Lemma family_shape_uniform rp rows b0 lk' P :
  rows_ok rows -> rows_uniform rows -> length lk' = length rows ->
  idle_idx (b0 :: lk' ++ [true]) <> [] ->
  ~ (perm (length (idle_idx (b0 :: lk' ++ [true])))
          (of_lists (idle_block (wstair_matrix rows) (b0 :: lk' ++ [true]))) == 0)%Q ->
  inf_retis rp 1 (wstair_matrix rows) (b0 :: lk' ++ [true]) = Some P ->
  square (length (b0 :: lk' ++ [true])) P.
Proof.
  intros Hr Hu Hlk Hidle Hperm HP. unfold inf_retis in HP.
  pose proof (rows_as_functions rows Hr) as Hrows.
  pose proof (uniform_rows_fun rows Hr Hu) as HrowsU.
  pose proof (idle_len_cons b0 lk') as Hlen.
  rewrite Hlen in Hperm.
  assert (Hk1 : 1 <= (if b0 then 0 else 1) + length (idle_idx (lk' ++ [true]))).
  { rewrite <- Hlen. destruct (idle_idx (b0 :: lk' ++ [true])); [congruence|cbn; lia]. }
  set (wfn := fun r j : nat => nth j (nth r rows []) 0%Q) in *.
  set (lf := fun r : nat => length (nth r rows [])) in *.
  set (wf1 := fun r : nat => nth 0 (nth r rows []) 0%Q) in *.
  pose proof (argsort_minus_Permutation rp rows wfn lf Hrows b0 lk' Hlk) as Pm.
  pose proof (argsort_pos_Permutation rp rows wfn lf Hrows b0 lk' Hlk) as Pp.
  assert (HsqW : square (length (b0 :: lk' ++ [true])) (wstair_matrix rows)).
  { rewrite (PermFastFamilyP.locks_length rows wf1 lf HrowsU b0 lk' Hlk).
    exact (PermFastFamilyP.W_square rows wf1 lf HrowsU). }
  pose proof (unlocked_idle_block _ _ HsqW) as EU.
  apply (inf_retis_with_fast_shape rp
           (argsort (minus_keys 1 (wstair_matrix rows) (b0 :: lk' ++ [true])))
           (argsort (pos_keys 1 (wstair_matrix rows) (b0 :: lk' ++ [true])))
           1 (wstair_matrix rows) (b0 :: lk' ++ [true])
           (if b0 then 0 else 1) (length (idle_idx (lk' ++ [true])))
           (fun _ => 1) (fun _ => 1%Q) (PermFastFamilyP.kfp lf lk') (PermFastFamilyP.wp wf1 lk') P HsqW).
  - symmetry. exact (PermFastFamilyP.locks_offset rows wf1 lf HrowsU b0 lk' Hlk).
  - rewrite EU. exact (PermFastFamilyP.U_length rows wf1 lf HrowsU b0 lk' Hlk).
  - exact Hk1.
  - exact Pm.
  - exact Pp.
  - rewrite EU. exact (PermFastFamilyP.minus_ustair rows wf1 lf HrowsU b0 lk' Hlk).
  - rewrite EU. exact (PermFastFamilyP.plus_ustair rows wf1 lf HrowsU b0 lk' Hlk).
  - rewrite EU. exact Hperm.
  - exact HP.
Qed.

(* ... and the result is a full n x n table *)
Theorem family_shape rp rows b0 lk' P :
  rows_ok rows -> length lk' = length rows -> H12cond rows b0 lk' ->
  idle_idx (b0 :: lk' ++ [true]) <> [] ->
  ~ (perm (length (idle_idx (b0 :: lk' ++ [true])))
          (of_lists (idle_block (wstair_matrix rows) (b0 :: lk' ++ [true]))) == 0)%Q ->
  inf_retis rp 1 (wstair_matrix rows) (b0 :: lk' ++ [true]) = Some P ->
  square (length (b0 :: lk' ++ [true])) P.
Proof.
  intros Hr Hlk [Hq|[Hu|H12]].
  - apply family_shape_pos; auto.
  - apply family_shape_uniform; auto.
  - apply family_shape_pos; auto.
Qed.

(* ------------------------------------------------------------------ bookkeeping states of the family *)

Record InFamily (s : RepexM.rstate) (rows : list (list Q)) (b0 : bool) (lk' : list bool) : Prop := {
  fam_W : WQ s = wstair_matrix rows;          (* the integer weights, read over Q *)
  fam_rows : rows_ok rows;
  fam_locks : locks s = b0 :: lk' ++ [true];
  fam_lk : length lk' = length rows;
  fam_12 : H12cond rows b0 lk'
}.

Lemma wstair_nonneg rows : rows_ok rows ->
  Forall (Forall (fun x => (0 <= x)%Q)) (wstair_matrix rows).
Proof.
  intros Hr. unfold wstair_matrix. cbv zeta.
  assert (Z0 : forall n, Forall (fun x => (0 <= x)%Q) (repeat 0%Q n)).
  { intros n. apply Forall_forall. intros x Hx. apply repeat_spec in Hx. subst. apply Qle_refl. }
  apply Forall_app. split; [|constructor; [apply Z0|constructor]].
  constructor; [constructor; [discriminate|apply Z0]|].
  apply Forall_map. apply Forall_forall. intros row Hin. cbv beta. unfold stair_row.
  apply Forall_app. split; [|apply Z0]. constructor; [apply Qle_refl|].
  apply Forall_forall. intros w Hw. apply Qlt_le_weak. exact (proj2 (Hr row Hin) w Hw).
Qed.

Lemma InFamily_nonneg s rows b0 lk' : InFamily s rows b0 lk' -> Wnonneg s.
Proof.
  intros F i j. rewrite (Zle_Qle 0). change (inject_Z 0) with 0%Q. rewrite <- WQ_nth, (fam_W _ _ _ _ F).
  pose proof (wstair_nonneg rows (fam_rows _ _ _ _ F)) as H.
  set (M := wstair_matrix rows) in *.
  destruct (Nat.lt_ge_cases i (length M)) as [Hi|Hi].
  - rewrite Forall_forall in H. specialize (H (nth i M []) (nth_In _ _ Hi)).
    destruct (Nat.lt_ge_cases j (length (nth i M []))) as [Hj|Hj].
    + rewrite Forall_forall in H. apply H. now apply nth_In.
    + rewrite (nth_overflow _ _ Hj). apply Qle_refl.
  - rewrite (nth_overflow M [] Hi). destruct j; apply Qle_refl.
Qed.

Lemma map_repeat_ {A B} (f : A -> B) x n : map f (repeat x n) = repeat (f x) n.
Proof. induction n as [|n IH]; [reflexivity|]. cbn. now rewrite IH. Qed.

(* the 0/1 staircase states of model/MatchM.v (the states of C05's termination theorem) belong
   to the family, for every number of ensembles and every busy set: one weight per path *)
Theorem stair_state_family hs b0 lk' :
  (forall h, In h hs -> 1 <= h <= length hs) -> length lk' = length hs ->
  InFamily (stair_state hs (b0 :: lk')) (map (fun h => repeat 1%Q h) hs) b0 lk'.
Proof.
  intros Hh Hlk. constructor.
  - unfold WQ, stair_state, wstair_matrix. cbv zeta. cbn [W]. rewrite map_length.
    set (m := length hs). cbn [map app]. rewrite map_app. cbn [map]. f_equal; [|f_equal].
    + unfold minus_row. cbn [map]. rewrite map_repeat_, Nat.add_1_r. reflexivity.
    + rewrite !map_map. apply map_ext_in. intros h Hin. unfold plus_row, stair_row.
      rewrite repeat_length. cbn [map app]. rewrite !map_app, !map_repeat_. cbn [map].
      change (inject_Z 0) with 0%Q. change (inject_Z 1) with 1%Q.
      rewrite <- app_assoc. f_equal. f_equal.
      change [0%Q] with (repeat 0%Q 1). rewrite <- repeat_app, Nat.add_1_r. reflexivity.
    + unfold ghost_row. rewrite map_repeat_. replace (m + 2) with (S (S m)) by lia. reflexivity.
  - intros row Hin. apply in_map_iff in Hin as (h & <- & Hin). rewrite repeat_length, map_length.
    split; [exact (Hh h Hin)|]. intros w Hw. apply repeat_spec in Hw. subst. reflexivity.
  - reflexivity.
  - now rewrite map_length.
  - right. left. intros row Hin. apply in_map_iff in Hin as (h & <- & Hin). exists 1%Q.
    now rewrite repeat_length.
Qed.

(* the model of the code returns a matrix, and that matrix is the exact one *)
Theorem infretis_exact rp s rows b0 lk' :
  InFamily s rows b0 lk' -> idle s <> [] -> perm_nz s ->
  exists P, inf_retis rp 1 (WQ s) (locks s) = Some P /\ ExactP s P.
Proof.
  intros F Hidle Hnz.
  assert (Hp : ~ (perm (length (idle_idx (locks s))) (of_lists (idle_block (WQ s) (locks s))) == 0)%Q).
  { intros E. apply Hnz. rewrite <- perm_idle_block. exact E. }
  unfold idle in Hidle.
  pose proof (fam_W _ _ _ _ F) as EW. pose proof (fam_locks _ _ _ _ F) as EL.
  rewrite EW, EL in *.
  destruct (fam_refines rp rows b0 lk' (fam_rows _ _ _ _ F) (fam_lk _ _ _ _ F) (fam_12 _ _ _ _ F) Hidle Hp)
    as (P & HP & HS).
  exists P. split; [exact HP|].
  pose proof (family_shape rp rows b0 lk' P (fam_rows _ _ _ _ F) (fam_lk _ _ _ _ F) (fam_12 _ _ _ _ F) Hidle Hp HP)
    as [Sl Sr].
  unfold ExactP. rewrite EW, EL. split; [|exact HS].
  intros i Hi. unfold size in *. rewrite EL in *.
  rewrite Forall_forall in Sr. apply Sr. apply nth_In. unfold qrow in *. lia.
Qed.

Corollary infretis_exact_unique rp s rows b0 lk' P :
  InFamily s rows b0 lk' -> perm_nz s ->
  inf_retis rp 1 (WQ s) (locks s) = Some P -> ExactP s P.
Proof.
  intros F Hnz HP.
  assert (Hidle : idle s <> []) by exact (inf_retis_some_idle rp 1 (WQ s) (locks s) P HP).
  destruct (infretis_exact rp s rows b0 lk' F Hidle Hnz) as (P' & HP' & HE).
  rewrite HP in HP'. injection HP' as <-. exact HE.
Qed.

(* with C05's invariant in place of the permanent *)
Corollary infretis_exact_matchable rp s rows b0 lk' :
  InFamily s rows b0 lk' -> idle s <> [] -> Matchable s ->
  exists P, inf_retis rp 1 (WQ s) (locks s) = Some P /\ ExactP s P.
Proof.
  intros F Hidle Hm. apply (infretis_exact rp s rows b0 lk' F Hidle).
  apply Matchable_perm_nz; [exact (InFamily_nonneg _ _ _ _ F)|exact Hm].
Qed.

(* ------------------------------------------------------------------ (i) positive entries of the code's P = certified picks *)

Theorem infretis_pos_iff_cert rp s rows b0 lk' P i j :
  InFamily s rows b0 lk' -> perm_nz s ->
  inf_retis rp 1 (WQ s) (locks s) = Some P ->
  is_locked s i = false -> is_locked s j = false ->
  ((0 < mget P i j)%Q <-> exists m, take_cert s m i j = true).
Proof.
  intros F Hnz HP Hi Hj.
  pose proof (infretis_exact_unique rp s rows b0 lk' P F Hnz HP) as HE.
  apply ExactP_iff in HE as (_ & A & _).
  destruct (idle_posn s i Hi) as [Ai Bi]. destruct (idle_posn s j Hj) as [Aj Bj].
  specialize (A _ _ Ai Aj). rewrite Bi, Bj in A. change (Pfun P i j) with (mget P i j) in A.
  rewrite A. symmetry. apply cert_iff_Pspec_pos; [exact (InFamily_nonneg _ _ _ _ F)|exact Hi|exact Hj].
Qed.

(* every busy row and column of the code's P is exactly zero (all inputs: proofs/PermP.v) *)
Lemma infretis_busy_zero rp s P i j :
  inf_retis rp 1 (WQ s) (locks s) = Some P -> i < size s -> j < size s ->
  is_locked s i = true \/ is_locked s j = true -> mget P i j = 0%Q.
Proof.
  intros HP Hi Hj H. apply (inf_retis_locked_zero rp 1 (WQ s) (locks s) P i j HP).
  unfold is_locked, size in *.
  rewrite (nth_indep (locks s) false true Hi), (nth_indep (locks s) false true Hj). exact H.
Qed.

(* all of it for the 0/1 staircase states: any number of ensembles, any busy set, no "<= 12",
   no hypothesis on permanents (C05's [Matchable] instead) *)
Corollary stair_state_exact rp hs b0 lk' :
  (forall h, In h hs -> 1 <= h <= length hs) -> length lk' = length hs ->
  let s := stair_state hs (b0 :: lk') in
  idle s <> [] -> Matchable s ->
  exists P, inf_retis rp 1 (WQ s) (locks s) = Some P /\ ExactP s P /\
    forall i j, is_locked s i = false -> is_locked s j = false ->
      ((0 < mget P i j)%Q <-> exists m, take_cert s m i j = true).
Proof.
  intros Hh Hlk s Hidle Hm.
  pose proof (stair_state_family hs b0 lk' Hh Hlk) as Fam. fold s in Fam.
  assert (Hnz : perm_nz s) by (apply Matchable_perm_nz; [exact (InFamily_nonneg _ _ _ _ Fam)|exact Hm]).
  destruct (infretis_exact rp s _ _ _ Fam Hidle Hnz) as (P & HP & HE).
  exists P. split; [exact HP|]. split; [exact HE|]. intros i j Hi Hj.
  exact (infretis_pos_iff_cert rp s _ _ _ P i j Fam Hnz HP Hi Hj).
Qed.

(* ------------------------------------------------------------------ (ii) one completed step with the code's own P *)

Theorem treat_unit_infretis rp f k acc rws P f' rows b0 lk' c :
  InvF f -> FInv f -> step f (OpTreat k acc rws P) = Some f' ->
  InFamily (core f') rows b0 lk' -> perm_nz (core f') ->
  inf_retis rp 1 (WQ (core f')) (locks (core f')) = Some P ->
  (total c f' == total c f + if is_locked (core f') c then 0 else 1)%Q.
Proof.
  intros I F H Fam Hnz HP.
  apply (treat_conservation_unit_exactP f k acc rws P f' c I F H); [|exact Hnz].
  exact (infretis_exact_unique rp _ rows b0 lk' P Fam Hnz HP).
Qed.

(* the same from C05's invariant: no hypothesis on permanents, column sums or row lengths *)
Theorem treat_unit_infretis_matchable rp f k acc rws P f' rows b0 lk' c :
  InvM f -> FInv f -> step f (OpTreat k acc rws P) = Some f' ->
  InFamily (core f') rows b0 lk' ->
  inf_retis rp 1 (WQ (core f')) (locks (core f')) = Some P ->
  (total c f' == total c f + if is_locked (core f') c then 0 else 1)%Q.
Proof.
  intros I F H Fam HP. destruct (treat_InvM _ _ _ _ _ _ I H) as [_ M1].
  apply (treat_unit_infretis rp f k acc rws P f' rows b0 lk' c (proj1 I) F H Fam); [|exact HP].
  apply Matchable_perm_nz; [exact (InFamily_nonneg _ _ _ _ Fam)|exact M1].
Qed.

(* ------------------------------------------------------------------ non-vacuity *)

(* two plus ensembles with wire-fencing weights (2,3) and (1,4): a non-uniform block, so the
   code takes the permanent_prob / Glynn branch *)
Definition bridge_ex3_rows : list (list Q) := [[2; 3]; [1; 4]]%Q.

Definition bridge_ex3 : RepexM.rstate :=
  RepexM.mkR [[1;0;0;0]; [0;2;3;0]; [0;1;4;0]; [0;0;0;0]]%Z [0;1;2;0] [false;false;false;true] [] 3.

Definition bridge_ex3_P : matrix := [[1;0;0;0]; [0;8#11;3#11;0]; [0;3#11;8#11;0]; [0;0;0;0]]%Q.

Lemma bridge_ex3_family : InFamily bridge_ex3 bridge_ex3_rows false [false; false].
Proof.
  constructor.
  - reflexivity.
  - intros row Hr. cbn in Hr.
    repeat (destruct Hr as [<-|Hr]; [split; [cbn; lia|intros w Hw; cbn in Hw;
      repeat (destruct Hw as [<-|Hw]; [reflexivity|]); contradiction]|]). contradiction.
  - reflexivity.
  - reflexivity.
  - left. vm_compute. lia.
Qed.

Lemma bridge_ex3_nz : perm_nz bridge_ex3.
Proof. apply perm_nzb_sound. vm_compute. reflexivity. Qed.

Example bridge_ex3_code : inf_retis (fun M => M) 1 (WQ bridge_ex3) (locks bridge_ex3) = Some bridge_ex3_P.
Proof. vm_compute. reflexivity. Qed.

Example bridge_ex3_exact : ExactP bridge_ex3 bridge_ex3_P.
Proof.
  apply (infretis_exact_unique (fun M => M) bridge_ex3 _ _ _ _ bridge_ex3_family); [exact bridge_ex3_nz|].
  exact bridge_ex3_code.
Qed.

(* (i): the entry (1, 2) of the code's matrix is 3/11 > 0, so the pick has a certificate *)
Example bridge_ex3_cert : (0 < mget bridge_ex3_P 1 2)%Q /\ exists m, take_cert bridge_ex3 m 1 2 = true.
Proof.
  split; [reflexivity|].
  apply (infretis_pos_iff_cert (fun M => M) bridge_ex3 _ _ _ bridge_ex3_P 1 2 bridge_ex3_family bridge_ex3_nz
           bridge_ex3_code); reflexivity.
Qed.

(* (ii): a job on ensemble 1 completes; the credit uses the matrix the code computes *)
Definition bridge_ex3_f : fstate :=
  mkFS bridge_ex3 [(0, [0;0;0;0]%Q); (1, [0;0;0;0]%Q); (2, [0;0;0;0]%Q)] [] 0.

Definition bridge_ex3_busy : fstate :=
  match step bridge_ex3_f (OpPick (mkPick 1 1 None) 0) with Some f => f | None => bridge_ex3_f end.

Lemma bridge_ex3_Inv : InvF bridge_ex3_f.
Proof.
  unfold InvF. constructor; cbn.
  - constructor; cbn; auto.
  - intros jb [].
  - constructor.
  - intros c Hc. assert (E : c = 0 \/ c = 1 \/ c = 2) by lia. unfold is_locked. cbn.
    destruct E as [-> | [-> | ->]]; discriminate.
  - intros a b Ha Hb. assert (Ea : a = 0 \/ a = 1 \/ a = 2) by lia. assert (Eb : b = 0 \/ b = 1 \/ b = 2) by lia.
    destruct Ea as [-> | [-> | ->]]; destruct Eb as [-> | [-> | ->]]; cbn; intros E; try reflexivity; discriminate.
  - intros a Ha. assert (Ea : a = 0 \/ a = 1 \/ a = 2) by lia. destruct Ea as [-> | [-> | ->]]; cbn; lia.
  - constructor.
Qed.

Lemma bridge_ex3_FInv : FInv bridge_ex3_f.
Proof.
  constructor; cbn.
  - intros k v [E|[E|[E|[]]]]; injection E as <- <-; reflexivity.
  - intros k [<-|[<-|[<-|[]]]]; lia.
  - repeat constructor; cbn; intuition lia.
Qed.

Example bridge_ex3_step :
  exists f', step bridge_ex3_busy (OpTreat 0 true [[0;2;3;0]%Z] bridge_ex3_P) = Some f' /\
    inf_retis (fun M => M) 1 (WQ (core f')) (locks (core f')) = Some bridge_ex3_P /\
    forall c, c < 3 -> (total c f' == total c bridge_ex3_busy + 1)%Q.
Proof.
  assert (S0 : step bridge_ex3_f (OpPick (mkPick 1 1 None) 0) = Some bridge_ex3_busy) by (vm_compute; reflexivity).
  pose proof (step_Inv _ _ _ bridge_ex3_Inv S0) as I.
  destruct (step_pick_FInv bridge_ex3_f (OpPick (mkPick 1 1 None) 0) bridge_ex3_busy Logic.I bridge_ex3_FInv S0) as [F _].
  destruct (step bridge_ex3_busy (OpTreat 0 true [[0;2;3;0]%Z] bridge_ex3_P)) as [f'|] eqn:S;
    [|vm_compute in S; discriminate].
  pose proof S as S'. vm_compute in S'. injection S' as S'.
  assert (EW : W (core f') = W bridge_ex3 /\ locks (core f') = locks bridge_ex3) by (subst f'; split; reflexivity).
  destruct EW as [EW EL].
  assert (Fam : InFamily (core f') bridge_ex3_rows false [false; false]).
  { destruct bridge_ex3_family as [a b c d e]. constructor; auto; unfold WQ in *; congruence. }
  assert (HP : inf_retis (fun M => M) 1 (WQ (core f')) (locks (core f')) = Some bridge_ex3_P).
  { unfold WQ. rewrite EW, EL. exact bridge_ex3_code. }
  assert (Hnz : perm_nz (core f')) by (subst f'; apply perm_nzb_sound; vm_compute; reflexivity).
  exists f'. split; [reflexivity|]. split; [exact HP|]. intros c Hc.
  rewrite (treat_unit_infretis (fun M => M) _ _ _ _ _ f' _ _ _ c I F S Fam Hnz HP).
  assert (L : is_locked (core f') c = false).
  { unfold is_locked. rewrite EL. cbn. destruct c as [|[|[|c]]]; try reflexivity. lia. }
  rewrite L. reflexivity.
Qed.

(* thirteen plus ensembles, all idle (a 14 x 14 idle block: beyond the "<= 12" bound and far
   beyond evaluating the permanent by expansion): nothing is computed here except the boolean
   check of the identity matching *)
Definition bridge_ex13 : RepexM.rstate := stair_state (seq 1 13) (repeat false 14).

Example bridge_ex13_exact :
  exists P, inf_retis (fun M => M) 1 (WQ bridge_ex13) (locks bridge_ex13) = Some P /\
    ExactP bridge_ex13 P /\
    forall i j, is_locked bridge_ex13 i = false -> is_locked bridge_ex13 j = false ->
      ((0 < mget P i j)%Q <-> exists m, take_cert bridge_ex13 m i j = true).
Proof.
  apply (stair_state_exact (fun M => M) (seq 1 13) false (repeat false 13)).
  - intros h Hin. apply in_seq in Hin. rewrite seq_length. lia.
  - reflexivity.
  - vm_compute. discriminate.
  - exists (seq 0 14 ++ [0]). apply matb_mat. vm_compute. reflexivity.
Qed.

Print Assumptions family_shape.
Print Assumptions infretis_exact.
Print Assumptions infretis_exact_matchable.
Print Assumptions infretis_pos_iff_cert.
Print Assumptions treat_unit_infretis.
Print Assumptions treat_unit_infretis_matchable.
Print Assumptions stair_state_family.
Print Assumptions stair_state_exact.
Print Assumptions bridge_ex3_step.
Print Assumptions bridge_ex13_exact.
